(* C20 - proofs about the error-tree model (Err/Tree.v).  All statements are for every tree /
   every expression / every number of wrappers; nothing is bounded. *)
From Verif Require Import Err.Tree.
From Coq Require Import Lia.

(* ---------- induction principles for the nested types ---------- *)

Section ErrInd.
  Variable P : err -> Prop.
  Hypothesis HL : forall s, P (Leaf s).
  Hypothesis HG : forall g, P (Grpc g).
  Hypothesis HW : forall e, P e -> P (Wrap e).
  Hypothesis HJ : forall es, Forall P es -> P (Join es).
  Hypothesis HF : forall e, P e -> P (FatalN e).
  Hypothesis HC : forall c e, P e -> P (Coded c e).
  Fixpoint err_ind' (e : err) : P e :=
    match e with
    | Leaf s => HL s
    | Grpc g => HG g
    | Wrap e' => HW e' (err_ind' e')
    | Join es => HJ es ((fix go (l : list err) : Forall P l :=
                           match l with
                           | [] => Forall_nil P
                           | x :: r => Forall_cons x (err_ind' x) (go r)
                           end) es)
    | FatalN e' => HF e' (err_ind' e')
    | Coded c e' => HC c e' (err_ind' e')
    end.
End ErrInd.

Section BexpInd.
  Variable P : bexp -> Prop.
  Hypothesis H0 : P BNil.
  Hypothesis H1 : forall s, P (BLeaf s).
  Hypothesis H2 : forall g, P (BGrpc g).
  Hypothesis H3 : forall b, P b -> P (BWrap b).
  Hypothesis H4 : forall b, P b -> P (BOpaque b).
  Hypothesis H5 : forall bs, Forall P bs -> P (BMultiW bs).
  Hypothesis H6 : forall bs, Forall P bs -> P (BJoin bs).
  Hypothesis H7 : forall b, P b -> P (BFatal b).
  Hypothesis H8 : forall c, P (BNew c).
  Hypothesis H9 : forall c b, P b -> P (BCWrap c b).
  Hypothesis H10 : forall c b, P b -> P (BWithCode c b).
  Hypothesis H11 : forall w, P (BFromStatus w).
  Fixpoint bexp_ind' (b : bexp) : P b :=
    let go := fix go (l : list bexp) : Forall P l :=
                match l with
                | [] => Forall_nil P
                | x :: r => Forall_cons x (bexp_ind' x) (go r)
                end in
    match b with
    | BNil => H0
    | BLeaf s => H1 s
    | BGrpc g => H2 g
    | BWrap b' => H3 b' (bexp_ind' b')
    | BOpaque b' => H4 b' (bexp_ind' b')
    | BMultiW bs => H5 bs (go bs)
    | BJoin bs => H6 bs (go bs)
    | BFatal b' => H7 b' (bexp_ind' b')
    | BNew c => H8 c
    | BCWrap c b' => H9 c b' (bexp_ind' b')
    | BWithCode c b' => H10 c b' (bexp_ind' b')
    | BFromStatus w => H11 w
    end.
End BexpInd.

(* ---------- find = first match over the pre-order node list ---------- *)

Lemma first_some_app {A B} (f : A -> option B) l1 l2 :
  first_some f (l1 ++ l2) = match first_some f l1 with Some b => Some b | None => first_some f l2 end.
Proof. induction l1 as [|x r IH]; simpl; [reflexivity|]. destruct (f x); auto. Qed.

Lemma first_some_flat_map {A B C} (f : B -> option C) (g : A -> list B) l :
  first_some f (flat_map g l) = first_some (fun x => first_some f (g x)) l.
Proof.
  induction l as [|x r IH]; simpl; [reflexivity|].
  rewrite first_some_app, IH. reflexivity.
Qed.

Lemma first_some_ext {A B} (f g : A -> option B) l :
  Forall (fun x => f x = g x) l -> first_some f l = first_some g l.
Proof. induction 1 as [|x r Hx _ IH]; simpl; [reflexivity|]. rewrite Hx, IH. reflexivity. Qed.

Lemma is_some_first_some {A B} (f : A -> option B) l :
  is_some (first_some f l) = existsb (fun x => is_some (f x)) l.
Proof. induction l as [|x r IH]; simpl; [reflexivity|]. destruct (f x); simpl; auto. Qed.

Lemma find_join {A} (f : err -> option A) es :
  find f (Join es) = match f (Join es) with Some a => Some a | None => first_some (find f) es end.
Proof.
  simpl. destruct (f (Join es)); [reflexivity|].
  induction es as [|x r IH]; simpl; [reflexivity|].
  destruct (find f x); [reflexivity|]. exact IH.
Qed.

Lemma find_nodes {A} (f : err -> option A) e : find f e = first_some f (nodes e).
Proof.
  induction e as [s|g|e IH|es IH|e IH|c e IH] using err_ind'.
  - simpl. destruct (f (Leaf s)); reflexivity.
  - simpl. destruct (f (Grpc g)); reflexivity.
  - simpl. destruct (f (Wrap e)); [reflexivity|]. exact IH.
  - rewrite find_join. simpl nodes. cbn [first_some]. destruct (f (Join es)); [reflexivity|].
    rewrite first_some_flat_map. apply first_some_ext. exact IH.
  - simpl. destruct (f (FatalN e)); [reflexivity|]. exact IH.
  - simpl. destruct (f (Coded c e)); [reflexivity|]. exact IH.
Qed.

(* ---------- computation rules of the four classifiers ---------- *)

Lemma is_fatal_Leaf s : is_fatal (Leaf s) = false. Proof. reflexivity. Qed.
Lemma is_fatal_Grpc g : is_fatal (Grpc g) = false. Proof. reflexivity. Qed.
Lemma is_fatal_Wrap e : is_fatal (Wrap e) = is_fatal e. Proof. reflexivity. Qed.
Lemma is_fatal_FatalN e : is_fatal (FatalN e) = true. Proof. reflexivity. Qed.
Lemma is_fatal_Coded c e : is_fatal (Coded c e) = is_fatal e. Proof. reflexivity. Qed.
Lemma is_fatal_Join es : is_fatal (Join es) = existsb is_fatal es.
Proof. unfold is_fatal. rewrite find_join. cbn [h_fatal]. apply is_some_first_some. Qed.

Lemma get_code_Leaf s : get_code (Leaf s) = None. Proof. reflexivity. Qed.
Lemma get_code_Grpc g : get_code (Grpc g) = None. Proof. reflexivity. Qed.
Lemma get_code_Wrap e : get_code (Wrap e) = get_code e. Proof. reflexivity. Qed.
Lemma get_code_FatalN e : get_code (FatalN e) = get_code e. Proof. reflexivity. Qed.
Lemma get_code_Coded c e : get_code (Coded c e) = Some c. Proof. reflexivity. Qed.
Lemma get_code_Join es : get_code (Join es) = first_some get_code es.
Proof. unfold get_code. rewrite find_join. reflexivity. Qed.

Lemma first_grpc_Leaf s : first_grpc (Leaf s) = None. Proof. reflexivity. Qed.
Lemma first_grpc_Grpc g : first_grpc (Grpc g) = Some g. Proof. reflexivity. Qed.
Lemma first_grpc_Wrap e : first_grpc (Wrap e) = first_grpc e. Proof. reflexivity. Qed.
Lemma first_grpc_FatalN e : first_grpc (FatalN e) = first_grpc e. Proof. reflexivity. Qed.
Lemma first_grpc_Coded c e : first_grpc (Coded c e) = first_grpc e. Proof. reflexivity. Qed.
Lemma first_grpc_Join es : first_grpc (Join es) = first_some first_grpc es.
Proof. unfold first_grpc. rewrite find_join. reflexivity. Qed.

Lemma is_a_Leaf s s' : is_a s (Leaf s') = Nat.eqb s s'.
Proof. unfold is_a. simpl. destruct (Nat.eqb s s'); reflexivity. Qed.
Lemma is_a_Grpc s g : is_a s (Grpc g) = false. Proof. reflexivity. Qed.
Lemma is_a_Wrap s e : is_a s (Wrap e) = is_a s e. Proof. reflexivity. Qed.
Lemma is_a_FatalN s e : is_a s (FatalN e) = is_a s e. Proof. reflexivity. Qed.
Lemma is_a_Coded s c e : is_a s (Coded c e) = is_a s e. Proof. reflexivity. Qed.
Lemma is_a_Join s es : is_a s (Join es) = existsb (is_a s) es.
Proof. unfold is_a. rewrite find_join. cbn [h_is]. apply is_some_first_some. Qed.

#[global] Hint Rewrite is_fatal_Leaf is_fatal_Grpc is_fatal_Wrap is_fatal_FatalN is_fatal_Coded is_fatal_Join
  get_code_Leaf get_code_Grpc get_code_Wrap get_code_FatalN get_code_Coded get_code_Join
  first_grpc_Leaf first_grpc_Grpc first_grpc_Wrap first_grpc_FatalN first_grpc_Coded first_grpc_Join
  is_a_Leaf is_a_Grpc is_a_Wrap is_a_FatalN is_a_Coded is_a_Join : cls.

(* ---------- fatal exactly when some node inside is a fatal marker ---------- *)

Definition is_fatal_node (e : err) : bool := is_some (h_fatal e).

Theorem fatal_iff_some_inner_fatal : forall e, is_fatal e = existsb is_fatal_node (nodes e).
Proof. intros e. unfold is_fatal. rewrite find_nodes. apply is_some_first_some. Qed.

Corollary fatal_iff_exists_marker : forall e,
  is_fatal e = true <-> exists x, In (FatalN x) (nodes e).
Proof.
  intros e. rewrite fatal_iff_some_inner_fatal, existsb_exists. split.
  - intros [n [Hin Hn]]. destruct n; try discriminate. eauto.
  - intros [x Hin]. exists (FatalN x). auto.
Qed.

(* ---------- fatal-ness under every wrapping context ---------- *)

Lemma existsb_app_mid {A} (f : A -> bool) l x r :
  existsb f (l ++ x :: r) = f x || existsb f (l ++ r).
Proof.
  rewrite !existsb_app. simpl. destruct (existsb f l), (f x); reflexivity.
Qed.

Lemma is_fatal_fatal_of e : is_fatal (fatal_of e) = true.
Proof. unfold fatal_of. destruct (is_fatal e) eqn:E; [exact E|reflexivity]. Qed.

Lemma is_fatal_cwrap_of c e : is_fatal (cwrap_of c e) = is_fatal e.
Proof. reflexivity. Qed.

Lemma fatal_plug1 f e : is_fatal (plug1 f e) = is_fatal e || frame_fatal f.
Proof.
  destruct f as [|l r| |c|c]; cbn [plug1 frame_fatal].
  - autorewrite with cls. rewrite orb_false_r. reflexivity.
  - autorewrite with cls. apply existsb_app_mid.
  - rewrite is_fatal_fatal_of, orb_true_r. reflexivity.
  - rewrite is_fatal_cwrap_of, orb_false_r. reflexivity.
  - autorewrite with cls. rewrite orb_false_r. reflexivity.
Qed.

Theorem fatal_stable : forall k e,
  is_fatal (plug k e) = is_fatal e || existsb frame_fatal k.
Proof.
  induction k as [|f k IH]; intros e; cbn [plug existsb].
  - rewrite orb_false_r. reflexivity.
  - rewrite IH, fatal_plug1, orb_assoc. reflexivity.
Qed.

(* a fatal marker inside is never lost, whatever is put around it *)
Corollary fatal_never_lost : forall k e, is_fatal e = true -> is_fatal (plug k e) = true.
Proof. intros k e H. rewrite fatal_stable, H. reflexivity. Qed.

(* and nothing becomes fatal unless a frame marks it or brings a fatal sibling *)
Corollary fatal_never_invented : forall k e,
  existsb frame_fatal k = false -> is_fatal (plug k e) = is_fatal e.
Proof. intros k e H. rewrite fatal_stable, H, orb_false_r. reflexivity. Qed.

(* ---------- plain wrappers change nothing ---------- *)

Lemma wrapn_basic n e :
  is_fatal (wrapn n e) = is_fatal e /\ get_code (wrapn n e) = get_code e /\
  first_grpc (wrapn n e) = first_grpc e /\ (forall s, is_a s (wrapn n e) = is_a s e).
Proof.
  induction n as [|n [IH1 [IH2 [IH3 IH4]]]]; cbn [wrapn]; [auto|].
  autorewrite with cls. repeat split; auto.
Qed.

Lemma existsb_ext {A} (f g : A -> bool) l : (forall x, f x = g x) -> existsb f l = existsb g l.
Proof. intros H. induction l as [|x r IH]; simpl; [reflexivity|]. rewrite H, IH. reflexivity. Qed.

Lemma filter_ext' {A} (f g : A -> bool) l : (forall x, f x = g x) -> filter f l = filter g l.
Proof. intros H. induction l as [|x r IH]; simpl; [reflexivity|]. rewrite H, IH. reflexivity. Qed.

Lemma first_arm_ext o1 o2 arms :
  (forall s, is_ao s o1 = is_ao s o2) -> first_arm o1 arms = first_arm o2 arms.
Proof.
  intros H. induction arms as [|[s g] r IH]; simpl; [reflexivity|]. rewrite H, IH. reflexivity.
Qed.

(* everything the model observes is a function of the four basic classifiers *)
Lemma model_obs_ext T e1 e2 :
  is_fatal e1 = is_fatal e2 -> get_code e1 = get_code e2 -> first_grpc e1 = first_grpc e2 ->
  (forall s, is_a s e1 = is_a s e2) ->
  model_obs T (Some e1) = model_obs T (Some e2) /\ classify T (Some e1) = classify T (Some e2).
Proof.
  intros Hf Hc Hg Hs.
  assert (Hx : exit_code T (Some e1) = exit_code T (Some e2)).
  { cbn [exit_code]. rewrite Hc, Hg.
    rewrite (existsb_ext _ (fun s => is_a s e2) (t_ok_sentinels T)) by auto.
    rewrite (existsb_ext _ (fun s => is_a s e2) (t_env_sentinels T)) by auto. reflexivity. }
  assert (Ha : forall k, api_status T k (Some e1) = api_status T k (Some e2)).
  { intros k. unfold api_status, api_cat. cbn [get_codeo]. rewrite Hc.
    rewrite (first_arm_ext (Some e1) (Some e2)) by (intros s; cbn [is_ao]; auto). reflexivity. }
  split.
  - unfold model_obs. cbn [is_some negb is_fatalo get_codeo first_grpco].
    rewrite Hf, Hc, Hg, Hx.
    rewrite (filter_ext' (fun s => is_ao s (Some e1)) (fun s => is_ao s (Some e2))) by (intros s; cbn [is_ao]; auto).
    f_equal.
    + apply map_ext. auto.
    + apply map_ext. intros k. unfold api_err. rewrite Ha. reflexivity.
  - unfold classify. cbn [is_some negb get_codeo first_grpco]. rewrite Hc, Hg.
    rewrite (existsb_ext (fun s => is_ao s (Some e1)) (fun s => is_ao s (Some e2)) (t_ok_sentinels T))
      by (intros s; cbn [is_ao]; auto).
    rewrite (existsb_ext (fun s => is_ao s (Some e1)) (fun s => is_ao s (Some e2)) (t_env_sentinels T))
      by (intros s; cbn [is_ao]; auto).
    reflexivity.
Qed.

Theorem code_stable_under_plain_wrap : forall n e,
  get_code (wrapn n e) = get_code e /\
  (forall s, is_a s (wrapn n e) = is_a s e) /\
  first_grpc (wrapn n e) = first_grpc e /\
  is_fatal (wrapn n e) = is_fatal e /\
  (forall T, model_obs T (Some (wrapn n e)) = model_obs T (Some e)) /\
  (forall T, classify T (Some (wrapn n e)) = classify T (Some e)).
Proof.
  intros n e. destruct (wrapn_basic n e) as [H1 [H2 [H3 H4]]].
  repeat split; auto; intros T; apply (model_obs_ext T _ _ H1 H2 H3 H4).
Qed.

Corollary exit_stable_under_plain_wrap : forall T n e,
  exit_code T (Some (wrapn n e)) = exit_code T (Some e).
Proof.
  intros T n e. destruct (code_stable_under_plain_wrap n e) as [_ [_ [_ [_ [H _]]]]].
  specialize (H T). apply (f_equal o_exit) in H. exact H.
Qed.

Corollary api_status_stable_under_plain_wrap : forall T n e k,
  api_status T k (Some (wrapn n e)) = api_status T k (Some e).
Proof.
  intros T n e k. destruct (wrapn_basic n e) as [H1 [H2 [H3 H4]]].
  unfold api_status, api_cat. cbn [get_codeo]. rewrite H2.
  rewrite (first_arm_ext (Some (wrapn n e)) (Some e)) by (intros s; cbn [is_ao]; auto). reflexivity.
Qed.

(* ---------- conduiterr.Wrap never shadows an inner code ---------- *)

Lemma get_code_cwrap_of c e :
  get_code (cwrap_of c e) = Some (match get_code e with Some c' => c' | None => c end).
Proof. reflexivity. Qed.

Lemma get_code_fatal_of e : get_code (fatal_of e) = get_code e.
Proof. unfold fatal_of. destruct (is_fatal e); reflexivity. Qed.

Lemma first_some_none_app {A B} (f : A -> option B) l x r :
  existsb (fun y => is_some (f y)) l = false ->
  first_some f (l ++ x :: r) = match f x with Some b => Some b | None => first_some f r end.
Proof.
  intros H. rewrite first_some_app. rewrite <- is_some_first_some in H.
  destruct (first_some f l); [discriminate|reflexivity].
Qed.

Lemma code_plug1 f e c :
  frame_keeps_code f = true -> get_code e = Some c -> get_code (plug1 f e) = Some c.
Proof.
  intros Hk Hc. destruct f as [|l r| |c'|c']; cbn [plug1 frame_keeps_code] in *.
  - autorewrite with cls. exact Hc.
  - autorewrite with cls. apply negb_true_iff in Hk. rewrite first_some_none_app by exact Hk.
    rewrite Hc. reflexivity.
  - rewrite get_code_fatal_of. exact Hc.
  - rewrite get_code_cwrap_of, Hc. reflexivity.
  - discriminate.
Qed.

Theorem wrap_never_shadows_inner_code : forall c' c e,
  get_code e = Some c -> get_code (cwrap_of c' e) = Some c.
Proof. intros c' c e H. rewrite get_code_cwrap_of, H. reflexivity. Qed.

(* the general form: through any number of Errorf / FatalError / conduiterr.Wrap / Join frames that do
   not put another coded error in front, the code found first stays the inner one; only WithCode (the
   documented override) or an earlier coded Join member can change it *)
Theorem code_survives_context : forall k e c,
  forallb frame_keeps_code k = true -> get_code e = Some c -> get_code (plug k e) = Some c.
Proof.
  induction k as [|f k IH]; intros e c Hk Hc; cbn [plug forallb] in *; [exact Hc|].
  apply andb_true_iff in Hk. destruct Hk as [Hf Hk].
  apply IH; [exact Hk|]. apply code_plug1; assumption.
Qed.

(* ---------- gRPC status round trip ---------- *)

Lemma lookup_nodup_in {B} (l : list (string * B)) r g :
  nodup_keys l = true -> In (r, g) l -> lookup r l = Some g.
Proof.
  induction l as [|[k v] l IH]; intros Hnd Hin; [destruct Hin|].
  cbn [nodup_keys] in Hnd. apply andb_true_iff in Hnd. destruct Hnd as [Hk Hnd].
  cbn [lookup]. destruct Hin as [Heq|Hin].
  - inversion Heq; subst. rewrite String.eqb_refl. reflexivity.
  - destruct (String.eqb r k) eqn:E.
    + apply String.eqb_eq in E. subst k. rewrite (IH Hnd Hin) in Hk. discriminate.
    + apply IH; assumption.
Qed.

Theorem status_roundtrip_reason : forall T c,
  cat c <> 0 -> reason (from_status T (to_status c)) = reason c.
Proof.
  intros T c Hc. unfold to_status, from_status. cbn [fst snd].
  apply Nat.eqb_neq in Hc. rewrite Hc. destruct (lookup (reason c) (t_registry T)); reflexivity.
Qed.

Theorem status_roundtrip : forall T c,
  cat c <> 0 ->
  (lookup (reason c) (t_registry T) = Some (cat c) \/ lookup (reason c) (t_registry T) = None) ->
  from_status T (to_status c) = c.
Proof.
  intros T [r g] Hc Hl. cbn [reason cat] in *. unfold to_status, from_status. cbn [fst snd reason cat].
  apply Nat.eqb_neq in Hc. rewrite Hc. destruct Hl as [Hl|Hl]; rewrite Hl; reflexivity.
Qed.

(* over the registry: every registered code survives ToStatus -> FromStatus unchanged *)
Theorem status_roundtrip_registered : forall T,
  check_registry T = true ->
  forall r g, In (r, g) (t_registry T) ->
  g <> 0 /\ from_status T (to_status (mkCode r g)) = mkCode r g.
Proof.
  intros T Hchk r g Hin. unfold check_registry in Hchk.
  apply andb_true_iff in Hchk. destruct Hchk as [Hchk _].
  apply andb_true_iff in Hchk. destruct Hchk as [Hnd Hnz].
  rewrite forallb_forall in Hnz. specialize (Hnz _ Hin). cbn [snd] in Hnz.
  apply negb_true_iff, Nat.eqb_neq in Hnz. split; [exact Hnz|].
  apply status_roundtrip; cbn [reason cat]; [exact Hnz|]. left. apply lookup_nodup_in; assumption.
Qed.

(* the one shape that does not come back with its category: CodeUnknown's reason with a category of
   its own (conduiterr.WithUnknownReason) - FromStatus prefers the local registry, by design *)
Lemma unknown_reason_category_not_kept :
  exists T c, cat c <> 0 /\ from_status T (to_status c) <> c.
Proof.
  exists (mkTables [] 1 0 3 1 [] [] [("internal.unknown"%string, 13)] "internal.unknown"%string [] [] 13 0),
         (mkCode "internal.unknown"%string 5).
  split; [discriminate|]. vm_compute. discriminate.
Qed.

(* ---------- the exit code is a function of the classification ---------- *)

Theorem exit_code_factors : forall T o, exit_code T o = gen_exit T (classify T o).
Proof.
  intros T [e|]; [|reflexivity].
  unfold gen_exit, exit_of_class, classify, exit_code.
  cbn [is_some negb c_nil c_cancel c_code c_grpc c_env get_codeo first_grpco orb is_ao].
  destruct (existsb (fun s => is_a s e) (t_ok_sentinels T)); [reflexivity|].
  destruct (get_code e) as [c|]; [reflexivity|]. cbn [option_map].
  destruct (first_grpc e); reflexivity.
Qed.

Corollary equal_class_equal_exit : forall T o1 o2,
  classify T o1 = classify T o2 -> exit_code T o1 = exit_code T o2.
Proof. intros T o1 o2 H. rewrite !exit_code_factors, H. reflexivity. Qed.

(* ---------- generic (reflective) lemmas over the generated tables ---------- *)

Lemma mem_In n l : mem n l = true <-> In n l.
Proof.
  unfold mem. rewrite existsb_exists. split.
  - intros [x [Hin Hx]]. apply Nat.eqb_eq in Hx. subst. exact Hin.
  - intros Hin. exists n. split; [exact Hin|apply Nat.eqb_refl].
Qed.

Theorem exit_total : forall T,
  check_total T = true ->
  forall r g, In (r, g) (t_registry T) -> In (bucket T g) [1; 2; 3].
Proof.
  intros T H r g Hin. unfold check_total in H. rewrite forallb_forall in H.
  specialize (H _ Hin). cbn [snd] in H. apply mem_In. exact H.
Qed.

Lemma assoc_some_in {B} k (l : list (nat * B)) v : assoc k l = Some v -> In k (map fst l).
Proof.
  induction l as [|[k' v'] l IH]; cbn [assoc map fst]; [discriminate|].
  destruct (Nat.eqb k k') eqn:E; intros H.
  - apply Nat.eqb_eq in E. left. symmetry. exact E.
  - right. exact (IH H).
Qed.

Lemma doc_bucket_big g : 17 <= g -> doc_bucket g = 1.
Proof.
  intros H. do 17 (destruct g as [|g]; [lia|]). reflexivity.
Qed.

Theorem buckets_documented : forall T,
  check_buckets_doc T = true -> forall g, bucket T g = doc_bucket g.
Proof.
  intros T H g. unfold check_buckets_doc in H. apply andb_true_iff in H. destruct H as [Hall Hdef].
  rewrite forallb_forall in Hall. apply Nat.eqb_eq in Hdef.
  destruct (le_lt_dec 17 g) as [Hbig|Hsmall].
  - unfold bucket. destruct (assoc g (t_buckets T)) as [b|] eqn:E.
    + assert (Hin : In g (seq 0 17 ++ map fst (t_buckets T))).
      { apply in_or_app. right. eapply assoc_some_in. exact E. }
      specialize (Hall _ Hin). apply Nat.eqb_eq in Hall. unfold bucket in Hall. rewrite E in Hall. exact Hall.
    + rewrite Hdef, doc_bucket_big by exact Hbig. reflexivity.
  - assert (Hin : In g (seq 0 17 ++ map fst (t_buckets T))).
    { apply in_or_app. left. apply in_seq. lia. }
    specialize (Hall _ Hin). apply Nat.eqb_eq in Hall. exact Hall.
Qed.

Lemma subset_In l1 l2 : subset l1 l2 = true -> forall x, In x l1 -> In x l2.
Proof.
  unfold subset. rewrite forallb_forall. intros H x Hx. apply mem_In. auto.
Qed.

Lemma existsb_same_set (f : nat -> bool) l1 l2 :
  same_set l1 l2 = true -> existsb f l1 = existsb f l2.
Proof.
  unfold same_set. rewrite andb_true_iff. intros [H12 H21].
  destruct (existsb f l1) eqn:E1; destruct (existsb f l2) eqn:E2; try reflexivity.
  - apply existsb_exists in E1. destruct E1 as [x [Hx Hf]].
    assert (existsb f l2 = true) by (apply existsb_exists; exists x; split; [eapply subset_In; eauto|exact Hf]).
    congruence.
  - apply existsb_exists in E2. destruct E2 as [x [Hx Hf]].
    assert (existsb f l1 = true) by (apply existsb_exists; exists x; split; [eapply subset_In; eauto|exact Hf]).
    congruence.
Qed.

(* classification with the documented sentinel sets *)
Definition classify_doc (o : oerr) : class :=
  mkClass (negb (is_some o))
          (existsb (fun s => is_ao s o) doc_ok_sentinels)
          (option_map cat (get_codeo o))
          (first_grpco o)
          (existsb (fun s => is_ao s o) doc_env_sentinels).

Lemma check_exit_doc_parts T :
  check_exit_doc T = true ->
  check_buckets_doc T = true /\ t_exit_ok T = 0 /\ t_exit_env T = 3 /\ t_exit_fallback T = 1 /\
  same_set (t_ok_sentinels T) doc_ok_sentinels = true /\
  same_set (t_env_sentinels T) doc_env_sentinels = true /\ 3 <= t_nsent T.
Proof.
  unfold check_exit_doc. rewrite !andb_true_iff, !Nat.eqb_eq, Nat.leb_le. tauto.
Qed.

Lemma classify_is_doc T o : check_exit_doc T = true -> classify T o = classify_doc o.
Proof.
  intros H. apply check_exit_doc_parts in H. destruct H as [_ [_ [_ [_ [Hok [Henv _]]]]]].
  unfold classify, classify_doc.
  rewrite (existsb_same_set _ _ _ Hok), (existsb_same_set _ _ _ Henv). reflexivity.
Qed.

Theorem exit_code_documented : forall T,
  check_exit_doc T = true -> forall o, exit_code T o = doc_exit (classify_doc o).
Proof.
  intros T H o. rewrite exit_code_factors, (classify_is_doc T o H).
  apply check_exit_doc_parts in H. destruct H as [Hb [H0 [H3 [H1 _]]]].
  unfold gen_exit, doc_exit, exit_of_class. rewrite H0, H3, H1.
  destruct (c_nil (classify_doc o) || c_cancel (classify_doc o)); [reflexivity|].
  destruct (c_code (classify_doc o)); [apply buckets_documented; exact Hb|].
  destruct (c_grpc (classify_doc o)); [apply buckets_documented; exact Hb|]. reflexivity.
Qed.

(* ---------- the constructors of the code base, aspect by aspect ---------- *)

Lemma existsb_map' {A B} (f : B -> bool) (g : A -> B) l : existsb f (map g l) = existsb (fun x => f (g x)) l.
Proof. induction l as [|x r IH]; simpl; [reflexivity|]. rewrite IH. reflexivity. Qed.

Lemma forallb_map' {A B} (f : B -> bool) (g : A -> B) l : forallb f (map g l) = forallb (fun x => f (g x)) l.
Proof. induction l as [|x r IH]; simpl; [reflexivity|]. rewrite IH. reflexivity. Qed.

Lemma first_of_map {A B C} (f : B -> option C) (g : A -> B) l :
  first_of f (map g l) = first_of (fun x => f (g x)) l.
Proof. induction l as [|x r IH]; simpl; [reflexivity|]. rewrite IH. reflexivity. Qed.

Lemma existsb_Forall_ext {A} (f g : A -> bool) l :
  Forall (fun x => f x = g x) l -> existsb f l = existsb g l.
Proof. induction 1 as [|x r Hx _ IH]; simpl; [reflexivity|]. rewrite Hx, IH. reflexivity. Qed.

Lemma forallb_Forall_ext {A} (f g : A -> bool) l :
  Forall (fun x => f x = g x) l -> forallb f l = forallb g l.
Proof. induction 1 as [|x r Hx _ IH]; simpl; [reflexivity|]. rewrite Hx, IH. reflexivity. Qed.

Lemma first_of_Forall_ext {A B} (f g : A -> option B) l :
  Forall (fun x => f x = g x) l -> first_of f l = first_of g l.
Proof. induction 1 as [|x r Hx _ IH]; simpl; [reflexivity|]. rewrite Hx, IH. reflexivity. Qed.

Lemma somes_existsb (f : err -> bool) (g : oerr -> bool) os :
  (forall e, g (Some e) = f e) -> g None = false -> existsb f (somes os) = existsb g os.
Proof.
  intros Hs Hn. induction os as [|[e|] r IH]; simpl; [reflexivity| |].
  - rewrite IH, Hs. reflexivity.
  - rewrite IH, Hn. reflexivity.
Qed.

Lemma somes_first_some {B} (f : err -> option B) (g : oerr -> option B) os :
  (forall e, g (Some e) = f e) -> g None = None -> first_some f (somes os) = first_of g os.
Proof.
  intros Hs Hn. induction os as [|[e|] r IH]; simpl; [reflexivity| |].
  - rewrite IH, Hs. reflexivity.
  - rewrite IH, Hn. reflexivity.
Qed.

Lemma somes_nil_iff (os : list oerr) : somes os = [] <-> existsb is_some os = false.
Proof.
  induction os as [|[e|] r IH]; simpl; [tauto| |exact IH]. split; discriminate.
Qed.

Lemma mk_join_some os : is_some (mk_join os) = existsb is_some os.
Proof.
  unfold mk_join. destruct (somes os) as [|x r] eqn:E.
  - symmetry. apply somes_nil_iff. exact E.
  - destruct (existsb is_some os) eqn:E2; [reflexivity|].
    apply somes_nil_iff in E2. congruence.
Qed.

Lemma mk_join_fatal os : is_fatalo (mk_join os) = existsb is_fatalo os.
Proof.
  unfold mk_join. rewrite <- (somes_existsb is_fatal is_fatalo os) by reflexivity. destruct (somes os) as [|x r]; [reflexivity|].
  cbn [is_fatalo]. apply is_fatal_Join.
Qed.

Lemma mk_join_is s os : is_ao s (mk_join os) = existsb (is_ao s) os.
Proof.
  unfold mk_join. rewrite <- (somes_existsb (is_a s) (is_ao s) os) by reflexivity. destruct (somes os) as [|x r]; [reflexivity|].
  cbn [is_ao]. apply is_a_Join.
Qed.

Lemma mk_join_code os : get_codeo (mk_join os) = first_of get_codeo os.
Proof.
  unfold mk_join. rewrite <- (somes_first_some get_code get_codeo os) by reflexivity. destruct (somes os) as [|x r]; [reflexivity|].
  cbn [get_codeo]. apply get_code_Join.
Qed.

Lemma mk_join_grpc os : first_grpco (mk_join os) = first_of first_grpco os.
Proof.
  unfold mk_join. rewrite <- (somes_first_some first_grpc first_grpco os) by reflexivity. destruct (somes os) as [|x r]; [reflexivity|].
  cbn [first_grpco]. apply first_grpc_Join.
Qed.

Lemma first_grpc_fatal_of e : first_grpc (fatal_of e) = first_grpc e.
Proof. unfold fatal_of. destruct (is_fatal e); reflexivity. Qed.
Lemma is_a_fatal_of s e : is_a s (fatal_of e) = is_a s e.
Proof. unfold fatal_of. destruct (is_fatal e); reflexivity. Qed.

(* ---------- the value built by an expression has the classification the expression denotes ---------- *)

Definition sound_at (T : tables) (b : bexp) : Prop :=
  is_some (build T b) = negb (spec_nil b) /\
  is_fatalo (build T b) = spec_fatal false b /\
  get_codeo (build T b) = spec_code T false b /\
  first_grpco (build T b) = spec_grpc false b /\
  (forall s, s <> 0 -> is_ao s (build T b) = spec_is false s b).

Lemma neq0_eqb s : s <> 0 -> Nat.eqb s 0 = false.
Proof. intros H. apply Nat.eqb_neq. exact H. Qed.

Lemma is_a_fresh s : s <> 0 -> is_a s (Leaf s_fresh) = false.
Proof. intros H. rewrite is_a_Leaf. apply neq0_eqb. exact H. Qed.

Lemma sound_wrap T b : sound_at T b -> sound_at T (BWrap b).
Proof.
  intros [H0 [H1 [H2 [H3 H4]]]]. unfold sound_at. cbn [build spec_nil spec_fatal spec_code spec_grpc spec_is].
  destruct (build T b) as [e|]; cbn [mk_wrap is_some negb is_fatalo get_codeo first_grpco is_ao] in *;
    autorewrite with cls; repeat split; auto.
  intros s Hs. rewrite <- (H4 s Hs). apply is_a_fresh. exact Hs.
Qed.

Lemma Forall_sound_parts T bs :
  Forall (sound_at T) bs ->
  Forall (fun b => is_some (build T b) = negb (spec_nil b)) bs /\
  Forall (fun b => is_fatalo (build T b) = spec_fatal false b) bs /\
  Forall (fun b => get_codeo (build T b) = spec_code T false b) bs /\
  Forall (fun b => first_grpco (build T b) = spec_grpc false b) bs /\
  (forall s, s <> 0 -> Forall (fun b => is_ao s (build T b) = spec_is false s b) bs).
Proof.
  intros H. repeat split; try (intros s Hs); eapply Forall_impl; try exact H; cbv beta;
    intros b [H0 [H1 [H2 [H3 H4]]]]; auto.
Qed.

Lemma negb_forallb_negb {A} (f : A -> bool) l : negb (forallb f l) = existsb (fun x => negb (f x)) l.
Proof. induction l as [|x r IH]; simpl; [reflexivity|]. rewrite negb_andb, IH. reflexivity. Qed.

Theorem build_sound : forall T b, sound_at T b.
Proof.
  intros T b. induction b as [|s|g|b IH|b IH|bs IH|bs IH|b IH|c|c b IH|c b IH|w] using bexp_ind'.
  - (* BNil *) unfold sound_at. cbn. repeat split; auto.
  - (* BLeaf *) unfold sound_at. cbn [build spec_nil spec_fatal spec_code spec_grpc spec_is is_some negb
                                     is_fatalo get_codeo first_grpco is_ao].
    autorewrite with cls. repeat split; auto. intros s0 _. apply is_a_Leaf.
  - (* BGrpc *) unfold sound_at. cbn [build spec_nil spec_fatal spec_code spec_grpc spec_is]. unfold mk_grpc.
    destruct (Nat.eqb g 0); cbn; repeat split; auto.
  - (* BWrap *) apply sound_wrap. exact IH.
  - (* BOpaque *) unfold sound_at. cbn [build spec_nil spec_fatal spec_code spec_grpc spec_is is_some negb
                                       is_fatalo get_codeo first_grpco is_ao].
    autorewrite with cls. repeat split; auto. intros s Hs. apply is_a_fresh. exact Hs.
  - (* BMultiW *)
    destruct bs as [|b1 [|b2 r]].
    + unfold sound_at. cbn. repeat split; auto. intros s Hs. apply is_a_fresh. exact Hs.
    + inversion IH as [|? ? Hb1 _]; subst.
      pose proof (sound_wrap T b1 Hb1) as Hw. unfold sound_at in *.
      cbn [build map mk_multiw spec_nil spec_fatal spec_code spec_grpc spec_is] in *. exact Hw.
    + unfold sound_at. cbn [build map mk_multiw spec_nil spec_fatal spec_code spec_grpc spec_is andb
                            is_some negb is_fatalo get_codeo first_grpco is_ao].
      autorewrite with cls. repeat split; auto. intros s Hs. apply is_a_fresh. exact Hs.
  - (* BJoin *)
    destruct (Forall_sound_parts T bs IH) as [F0 [F1 [F2 [F3 F4]]]].
    unfold sound_at. cbn [build spec_nil spec_fatal spec_code spec_grpc spec_is].
    rewrite mk_join_some, mk_join_fatal, mk_join_code, mk_join_grpc.
    rewrite !existsb_map', !first_of_map. repeat split.
    + rewrite negb_forallb_negb. apply existsb_Forall_ext.
      eapply Forall_impl; [|exact F0]. cbv beta. intros b Hb. rewrite Hb. reflexivity.
    + apply existsb_Forall_ext. exact F1.
    + apply first_of_Forall_ext. exact F2.
    + apply first_of_Forall_ext. exact F3.
    + intros s Hs. rewrite mk_join_is, existsb_map'. apply existsb_Forall_ext. exact (F4 s Hs).
  - (* BFatal *)
    destruct IH as [H0 [H1 [H2 [H3 H4]]]]. unfold sound_at.
    cbn [build spec_nil spec_fatal spec_code spec_grpc spec_is].
    destruct (build T b) as [e|]; cbn [mk_fatal option_map is_some negb is_fatalo get_codeo first_grpco is_ao] in *.
    + rewrite is_fatal_fatal_of, get_code_fatal_of, first_grpc_fatal_of.
      repeat split; auto; try (rewrite <- H0; reflexivity).
      intros s Hs. rewrite is_a_fatal_of. auto.
    + repeat split; auto; try (rewrite <- H0; reflexivity).
  - (* BNew *) unfold sound_at. cbn [build mk_cnew spec_nil spec_fatal spec_code spec_grpc spec_is is_some negb
                                    is_fatalo get_codeo first_grpco is_ao].
    autorewrite with cls. repeat split; auto. intros s Hs. apply is_a_fresh. exact Hs.
  - (* BCWrap *)
    destruct IH as [H0 [H1 [H2 [H3 H4]]]]. unfold sound_at.
    cbn [build spec_nil spec_fatal spec_code spec_grpc spec_is].
    destruct (build T b) as [e|]; cbn [mk_cwrap is_some negb is_fatalo get_codeo first_grpco is_ao] in *.
    + rewrite is_fatal_cwrap_of, get_code_cwrap_of. unfold cwrap_of. autorewrite with cls.
      repeat split; auto. rewrite <- H2. destruct (get_code e); reflexivity.
    + autorewrite with cls. repeat split; auto.
      * rewrite <- H2. reflexivity.
      * intros s Hs. rewrite <- (H4 s Hs). apply is_a_fresh. exact Hs.
  - (* BWithCode *)
    destruct IH as [H0 [H1 [H2 [H3 H4]]]]. unfold sound_at.
    cbn [build mk_withcode spec_nil spec_fatal spec_code spec_grpc spec_is].
    destruct (build T b) as [e|]; cbn [or_fresh is_some negb is_fatalo get_codeo first_grpco is_ao] in *;
      autorewrite with cls; repeat split; auto.
    intros s Hs. rewrite <- (H4 s Hs). apply is_a_fresh. exact Hs.
  - (* BFromStatus *) unfold sound_at. cbn [build spec_nil spec_fatal spec_code spec_grpc spec_is is_some negb
                                           is_fatalo get_codeo first_grpco is_ao].
    autorewrite with cls. repeat split; auto. intros s Hs. apply is_a_fresh. exact Hs.
Qed.

(* ---------- without a multi-%w Errorf the two readings of the property coincide ---------- *)

Lemma forallb_Forall' {A} (f : A -> bool) l : forallb f l = true -> Forall (fun x => f x = true) l.
Proof. intros H. apply Forall_forall. apply forallb_forall. exact H. Qed.

Lemma Forall_mp {A} (P Q : A -> Prop) l : Forall (fun x => P x -> Q x) l -> Forall P l -> Forall Q l.
Proof. induction 1 as [|x r Hx _ IH]; intros HP; constructor; inversion HP; subst; auto. Qed.

Definition tr_irrelevant_at (T : tables) (b : bexp) : Prop :=
  spec_fatal true b = spec_fatal false b /\ spec_code T true b = spec_code T false b /\
  spec_grpc true b = spec_grpc false b /\ (forall s, spec_is true s b = spec_is false s b).

Lemma spec_tr_irrelevant T b : no_multiw b = true -> tr_irrelevant_at T b.
Proof.
  induction b as [|s|g|b IH|b IH|bs IH|bs IH|b IH|c|c b IH|c b IH|w] using bexp_ind';
    intros Hn; unfold tr_irrelevant_at in *; cbn [no_multiw] in Hn;
    cbn [spec_fatal spec_code spec_grpc spec_is]; try (repeat split; reflexivity);
    try (destruct (IH Hn) as [I1 [I2 [I3 I4]]]; repeat split; auto; rewrite I2; reflexivity).
  - (* BMultiW *) destruct bs as [|b1 [|b2 r]]; try discriminate.
    inversion IH as [|? ? Hb1 _]; subst. exact (Hb1 Hn).
  - (* BJoin *)
    pose proof (Forall_mp _ _ _ IH (forallb_Forall' _ _ Hn)) as F. repeat split.
    + apply existsb_Forall_ext. eapply Forall_impl; [|exact F]. cbv beta. intros b [I1 _]. exact I1.
    + apply first_of_Forall_ext. eapply Forall_impl; [|exact F]. cbv beta. intros b [_ [I2 _]]. exact I2.
    + apply first_of_Forall_ext. eapply Forall_impl; [|exact F]. cbv beta. intros b [_ [_ [I3 _]]]. exact I3.
    + intros s. apply existsb_Forall_ext. eapply Forall_impl; [|exact F]. cbv beta. intros b [_ [_ [_ I4]]]. apply I4.
Qed.

(* the reading of the property and xerrors' behaviour differ: a coded, fatal error under a two-%w
   Errorf is neither coded nor fatal any more (pkg/lifecycle-poc/funnel/worker.go Worker.Nack builds
   exactly this shape around the pipeline.empty_source_position error) *)
Theorem multiw_loses_classification_refuted :
  exists T b, spec_code T true b <> get_codeo (build T b) /\ spec_fatal true b <> is_fatalo (build T b).
Proof.
  exists (mkTables [] 1 0 3 1 [] [] [] "internal.unknown"%string [] [] 13 0),
         (BMultiW [BFatal (BNew (mkCode "pipeline.empty_source_position"%string 9)); BLeaf 0]).
  split; vm_compute; discriminate.
Qed.

(* ---------- the model's observations satisfy the property monitor ---------- *)

Lemma opt_eqb_refl {A} (eqb : A -> A -> bool) : (forall a, eqb a a = true) -> forall o, opt_eqb eqb o o = true.
Proof. intros H [a|]; simpl; auto. Qed.
Lemma list_eqb'_refl {A} (eqb : A -> A -> bool) : (forall a, eqb a a = true) -> forall l, list_eqb' eqb l l = true.
Proof. intros H l. induction l as [|a r IH]; simpl; [reflexivity|]. rewrite H, IH. reflexivity. Qed.
Lemma code_eqb_refl c : code_eqb c c = true.
Proof. unfold code_eqb. rewrite String.eqb_refl, Nat.eqb_refl. reflexivity. Qed.
Lemma wire_eqb_refl w : wire_eqb w w = true.
Proof. unfold wire_eqb. rewrite Nat.eqb_refl, (opt_eqb_refl _ String.eqb_refl). reflexivity. Qed.
Lemma bool_eqb_refl b : Bool.eqb b b = true.
Proof. destruct b; reflexivity. Qed.
Lemma obs_eqb_refl x : obs_eqb x x = true.
Proof.
  unfold obs_eqb.
  rewrite !bool_eqb_refl, !(opt_eqb_refl _ code_eqb_refl), !(opt_eqb_refl _ Nat.eqb_refl),
    (opt_eqb_refl _ wire_eqb_refl), !(list_eqb'_refl _ Nat.eqb_refl), (list_eqb'_refl _ wire_eqb_refl),
    Nat.eqb_refl. reflexivity.
Qed.

Lemma opt_eqb_nat_eq a b : opt_eqb Nat.eqb a b = true -> a = b.
Proof. destruct a, b; simpl; try discriminate; auto. intros H. apply Nat.eqb_eq in H. congruence. Qed.

Lemma class_eqb_eq a b : class_eqb a b = true -> a = b.
Proof.
  destruct a as [a1 a2 a3 a4 a5], b as [b1 b2 b3 b4 b5]. unfold class_eqb. cbn [c_nil c_cancel c_code c_grpc c_env].
  rewrite !andb_true_iff. intros [[[[H1 H2] H3] H4] H5].
  apply Bool.eqb_prop in H1, H2, H5. apply opt_eqb_nat_eq in H3, H4. congruence.
Qed.

Lemma filter_ext_In' {A} (f g : A -> bool) l : (forall x, In x l -> f x = g x) -> filter f l = filter g l.
Proof.
  induction l as [|x r IH]; intros H; simpl; [reflexivity|].
  rewrite (H x) by (left; reflexivity). rewrite IH by (intros y Hy; apply H; right; exact Hy). reflexivity.
Qed.

Lemma mon_denot_model T tr b :
  (tr = true -> no_multiw b = true) -> mon_denot T tr b (model_obs T (build T b)) = true.
Proof.
  intros Htr. destruct (build_sound T b) as [H0 [H1 [H2 [H3 H4]]]].
  assert (Hirr : spec_fatal tr b = spec_fatal false b /\ spec_code T tr b = spec_code T false b /\
                 spec_grpc tr b = spec_grpc false b /\ (forall s, spec_is tr s b = spec_is false s b)).
  { destruct tr; [apply spec_tr_irrelevant; auto|repeat split; reflexivity]. }
  destruct Hirr as [I1 [I2 [I3 I4]]].
  unfold mon_denot, model_obs. cbn [o_nil o_fatal o_code o_is o_grpc].
  rewrite H0, negb_involutive, H1, H2, H3, I1, I2, I3.
  rewrite (filter_ext_In' (fun s => is_ao s (build T b)) (fun s => spec_is tr s b)).
  - rewrite !bool_eqb_refl, (opt_eqb_refl _ code_eqb_refl), (opt_eqb_refl _ Nat.eqb_refl),
      (list_eqb'_refl _ Nat.eqb_refl). reflexivity.
  - intros s Hs. apply in_seq in Hs. rewrite I4. apply H4. lia.
Qed.

Lemma mon_status_model T o : mon_status T (model_obs T o) = true.
Proof.
  unfold mon_status, model_obs. cbn [o_code o_wire o_back].
  destruct (get_codeo o) as [c|]; [|reflexivity]. cbn [option_map].
  rewrite (opt_eqb_refl _ wire_eqb_refl). cbn [andb].
  destruct (Nat.eqb (cat c) 0) eqn:E; [reflexivity|]. apply Nat.eqb_neq in E.
  rewrite (status_roundtrip_reason T c E), String.eqb_refl. cbn [andb].
  unfold registered. destruct (lookup (reason c) (t_registry T)) as [g|] eqn:L; cbn [opt_eqb]; [|reflexivity].
  destruct (Nat.eqb g (cat c)) eqn:G; [|reflexivity]. apply Nat.eqb_eq in G. subst g.
  rewrite (status_roundtrip T c E) by (left; exact L). apply code_eqb_refl.
Qed.

Lemma mem_filter_seq (f : nat -> bool) s n : 1 <= s <= n -> mem s (filter f (seq 1 n)) = f s.
Proof.
  intros H. destruct (f s) eqn:E.
  - apply mem_In. apply filter_In. split; [apply in_seq; lia|exact E].
  - destruct (mem s (filter f (seq 1 n))) eqn:M; [|reflexivity].
    apply mem_In, filter_In in M. destruct M as [_ M]. congruence.
Qed.

Lemma obs_class_model T o : 3 <= t_nsent T -> obs_class (model_obs T o) = classify_doc o.
Proof.
  intros Hn. unfold obs_class, classify_doc, model_obs. cbn [o_nil o_is o_code o_grpc].
  unfold doc_ok_sentinels, doc_env_sentinels. cbn [existsb].
  rewrite !mem_filter_seq by lia. reflexivity.
Qed.

Lemma exit_mk_grpc T g :
  check_exit_doc T = true -> exit_code T (mk_grpc g) = doc_bucket g.
Proof.
  intros H. pose proof (check_exit_doc_parts T H) as [Hb [H0 _]].
  unfold mk_grpc. destruct (Nat.eqb g 0) eqn:E.
  - apply Nat.eqb_eq in E. subst g. cbn [exit_code]. rewrite H0. reflexivity.
  - rewrite exit_code_documented by exact H. reflexivity.
Qed.

Lemma mon_exit_model T o : check_exit_doc T = true -> mon_exit (model_obs T o) = true.
Proof.
  intros H. pose proof (check_exit_doc_parts T H) as [Hb [H0 [H3 [H1 [_ [_ Hn]]]]]].
  unfold mon_exit. rewrite (obs_class_model T o Hn).
  unfold model_obs at 1. cbn [o_exit]. rewrite (exit_code_documented T H o), Nat.eqb_refl. cbn [andb].
  unfold model_obs at 1. cbn [o_code].
  destruct (get_codeo o) as [c|] eqn:C; [|reflexivity].
  unfold model_obs. cbn [o_api o_api_exit o_exit].
  apply andb_true_iff. split.
  - rewrite forallb_map'. apply forallb_forall. intros k _. unfold api_status. rewrite C. cbn [to_status fst].
    apply Nat.eqb_refl.
  - destruct (c_cancel (classify_doc o)) eqn:CC; [reflexivity|]. cbn [orb].
    rewrite forallb_map'. apply forallb_forall. intros k _. unfold api_err, api_status. rewrite C.
    cbn [to_status fst]. rewrite (exit_mk_grpc T _ H), (exit_code_documented T H o).
    unfold doc_exit, exit_of_class. rewrite CC.
    destruct o as [e|]; [|discriminate]. cbn [classify_doc c_nil c_code is_some negb orb get_codeo] in *.
    rewrite C. cbn [option_map]. apply Nat.eqb_refl.
Qed.

Lemma model_obs_wrapn T n e : model_obs T (Some (wrapn n e)) = model_obs T (Some e).
Proof. destruct (code_stable_under_plain_wrap n e) as [_ [_ [_ [_ [H _]]]]]. apply H. Qed.

Lemma mon_wrap_model T n o : mon_wrap (model_obs T o) (model_obs T (option_map (wrapn n) o)) = true.
Proof.
  unfold mon_wrap. destruct o as [e|]; [|reflexivity]. cbn [option_map].
  rewrite model_obs_wrapn, obs_eqb_refl. apply orb_true_r.
Qed.

Lemma mon_pairs_ok xs :
  Forall (fun x => o_exit x = doc_exit (obs_class x)) xs -> mon_pairs xs = true.
Proof.
  induction 1 as [|x r Hx Hr IH]; cbn [mon_pairs]; [reflexivity|].
  rewrite IH, andb_true_r. apply forallb_forall. intros y Hy.
  destruct (class_eqb (obs_class x) (obs_class y)) eqn:E; [|reflexivity]. cbn [negb orb].
  apply class_eqb_eq in E. rewrite Forall_forall in Hr. rewrite Hx, (Hr y Hy), E. apply Nat.eqb_refl.
Qed.

Lemma model_exit_is_doc T o :
  check_exit_doc T = true -> o_exit (model_obs T o) = doc_exit (obs_class (model_obs T o)).
Proof.
  intros H. pose proof (check_exit_doc_parts T H) as [_ [_ [_ [_ [_ [_ Hn]]]]]].
  rewrite (obs_class_model T o Hn). unfold model_obs. cbn [o_exit]. apply exit_code_documented. exact H.
Qed.

(* Whatever the tables say, as long as they pass the per-run check [check_exit_doc]: for every case
   (any expressions, any number of wrappers) the observations the MODEL makes satisfy the monitor.
   With tr = true (the reading of the property) this needs expressions without multi-%w Errorf;
   with tr = false (xerrors' behaviour) it holds for every expression. *)
Theorem model_satisfies_monitor : forall T tr n bs,
  check_exit_doc T = true ->
  (tr = true -> forallb no_multiw bs = true) ->
  monitor T tr bs (model_run T n bs) = true.
Proof.
  intros T tr n bs H Htr. unfold monitor. apply andb_true_iff. split.
  - unfold model_run. induction bs as [|b r IH]; cbn [map mon_all]; [reflexivity|].
    assert (Hb : tr = true -> no_multiw b = true).
    { intros E. specialize (Htr E). cbn [forallb] in Htr. apply andb_true_iff in Htr. tauto. }
    assert (Hr : tr = true -> forallb no_multiw r = true).
    { intros E. specialize (Htr E). cbn [forallb] in Htr. apply andb_true_iff in Htr. tauto. }
    rewrite (IH Hr), andb_true_r. unfold mon_one, run_one. cbn [fst snd].
    rewrite (mon_denot_model T tr b Hb), !mon_status_model, !(mon_exit_model T _ H), mon_wrap_model. reflexivity.
  - apply mon_pairs_ok. apply Forall_forall. intros x Hx. apply in_app_or in Hx.
    unfold model_run in Hx. rewrite !map_map in Hx.
    destruct Hx as [Hx|Hx]; apply in_map_iff in Hx; destruct Hx as [b [Hb _]]; subst x;
      unfold run_one; cbn [fst snd]; apply model_exit_is_doc; exact H.
Qed.

(* a coded error that crosses an API boundary function gives its client the exit code the server side
   computes for it (unless the server side sees a cancellation first) *)
Theorem exit_code_survives_api_boundary : forall T k o c,
  check_exit_doc T = true -> get_codeo o = Some c -> c_cancel (classify_doc o) = false ->
  exit_code T (api_err T k o) = exit_code T o.
Proof.
  intros T k o c H C CC. unfold api_err, api_status. rewrite C. cbn [to_status fst].
  rewrite (exit_mk_grpc T _ H), (exit_code_documented T H o).
  unfold doc_exit, exit_of_class. rewrite CC.
  destruct o as [e|]; [|discriminate]. cbn [classify_doc c_nil c_code is_some negb orb get_codeo] in *.
  rewrite C. reflexivity.
Qed.
