(* C20 - error classification.  Definitions only (proofs: TreeProofs.v); everything is total and
   computable so that the case files can run it with vm_compute.

   Modelled Go code (source tree /repo):
     pkg/foundation/cerrors/cerrors.go          Errorf (= xerrors.Errorf), Join (= errors.Join), Is, As
     pkg/foundation/cerrors/fatal.go            fatalError, FatalError, IsFatalError
     pkg/foundation/cerrors/conduiterr          ConduitError, New, Wrap, WithCode, WithUnknownReason, Get,
                                                ToStatus, FromStatus, LookupCode (at the level gRPC code + reason)
     pkg/conduit/exitcode/exitcode.go           ExitCode, fromGRPCCode, isEnvironmentSentinel
     pkg/http/api/status/status.go              PipelineError, ConnectorError, ProcessorError, PluginError,
                                                codeFromError, fallbackStatus
   Modelled, not verified: errors.Is / errors.As (pre-order walk over Unwrap() error and
   Unwrap() []error, nil members of a multi-error skipped), xerrors.Errorf (one %w anywhere wraps, two or
   more %w or a %v give an error without Unwrap), errors.Join (drops nil members, nil if none is left),
   grpc status.Error (nil for code OK), status.FromError (first error in the chain with GRPCStatus()).

   The tables the code states literally (switch of fromGRPCCode, sentinel lists, the code registry, the
   switch arms of the API status functions) are NOT copied here: every function takes them as a
   [tables] value, which the translator regenerates from the source tree on every run
   (out/C20/gen/GenExit.v). *)
From Coq Require Export List Arith Bool String.
Export ListNotations.

Definition sentinel := nat.   (* index in the harness' sentinel table; 0 = a fresh, anonymous error value *)
Definition gcode := nat.      (* google.golang.org/grpc/codes.Code *)

Record code := mkCode { reason : string; cat : gcode }.   (* conduiterr.Code *)

Definition code_eqb (a b : code) : bool :=
  String.eqb (reason a) (reason b) && Nat.eqb (cat a) (cat b).

Definition s_fresh : sentinel := 0.

(* A non-nil Go error value, by the dynamic type of its head. *)
Inductive err :=
| Leaf (s : sentinel)            (* no Unwrap: errorString, syscall.Errno, context.Canceled, xerrors noWrapError *)
| Grpc (g : gcode)               (* *status.Error (implements GRPCStatus, no Unwrap) *)
| Wrap (e : err)                 (* xerrors wrapError: Unwrap() error *)
| Join (es : list err)           (* errors.joinError: Unwrap() []error *)
| FatalN (e : err)               (* *cerrors.fatalError: Unwrap() error *)
| Coded (c : code) (e : err).    (* *conduiterr.ConduitError: Unwrap() error, never nil after construction *)

(* ---------- errors.As / errors.Is: first match in pre-order ---------- *)

Section Find.
  Context {A : Type} (f : err -> option A).   (* looks at the head of one node only *)
  Fixpoint find (e : err) : option A :=
    match f e with
    | Some a => Some a
    | None =>
        match e with
        | Leaf _ | Grpc _ => None
        | Wrap e' | FatalN e' | Coded _ e' => find e'
        | Join es =>
            (fix go (l : list err) : option A :=
               match l with
               | [] => None
               | x :: r => match find x with Some a => Some a | None => go r end
               end) es
        end
    end.
End Find.

Definition is_some {A} (o : option A) : bool := match o with Some _ => true | None => false end.

Definition h_fatal (e : err) : option unit := match e with FatalN _ => Some tt | _ => None end.
Definition h_code (e : err) : option code := match e with Coded c _ => Some c | _ => None end.
Definition h_grpc (e : err) : option gcode := match e with Grpc g => Some g | _ => None end.
Definition h_is (s : sentinel) (e : err) : option unit :=
  match e with Leaf s' => if Nat.eqb s s' then Some tt else None | _ => None end.

Definition is_fatal (e : err) : bool := is_some (find h_fatal e).        (* cerrors.IsFatalError *)
Definition get_code (e : err) : option code := find h_code e.            (* conduiterr.Get(e).Code *)
Definition first_grpc (e : err) : option gcode := find h_grpc e.         (* grpc status.FromError(e) *)
Definition is_a (s : sentinel) (e : err) : bool := is_some (find (h_is s) e).   (* cerrors.Is(e, s) *)

(* all nodes in the order errors.As visits them *)
Fixpoint nodes (e : err) : list err :=
  e :: match e with
       | Leaf _ | Grpc _ => []
       | Wrap e' | FatalN e' | Coded _ e' => nodes e'
       | Join es => flat_map nodes es
       end.

Fixpoint first_some {A B} (f : A -> option B) (l : list A) : option B :=
  match l with
  | [] => None
  | x :: r => match f x with Some b => Some b | None => first_some f r end
  end.

(* ---------- the constructors of the code base (None = a nil error) ---------- *)

Definition oerr := option err.

Definition or_fresh (o : oerr) : err := match o with Some e => e | None => Leaf s_fresh end.

(* cerrors.FatalError *)
Definition fatal_of (e : err) : err := if is_fatal e then e else FatalN e.
Definition mk_fatal (o : oerr) : oerr := option_map fatal_of o.

(* cerrors.Errorf("...%w...", o) with exactly one %w: a nil operand gives an error without Unwrap *)
Definition mk_wrap (o : oerr) : oerr :=
  match o with Some e => Some (Wrap e) | None => Some (Leaf s_fresh) end.

Fixpoint somes {A} (l : list (option A)) : list A :=
  match l with
  | [] => []
  | Some a :: r => a :: somes r
  | None :: r => somes r
  end.

(* errors.Join *)
Definition mk_join (os : list oerr) : oerr :=
  match somes os with [] => None | es => Some (Join es) end.

(* cerrors.Errorf with k operands under %w: xerrors supports a single %w only *)
Definition mk_multiw (os : list oerr) : oerr :=
  match os with
  | [o] => mk_wrap o
  | _ => Some (Leaf s_fresh)
  end.

(* conduiterr.New / Wrap / WithCode *)
Definition mk_cnew (c : code) : oerr := Some (Coded c (Leaf s_fresh)).
Definition cwrap_of (c : code) (e : err) : err :=
  Coded (match get_code e with Some c' => c' | None => c end) e.
Definition mk_cwrap (c : code) (o : oerr) : oerr :=
  match o with Some e => Some (cwrap_of c e) | None => Some (Coded c (Leaf s_fresh)) end.
Definition mk_withcode (c : code) (o : oerr) : oerr := Some (Coded c (or_fresh o)).

(* grpc status.Error(g, msg) *)
Definition mk_grpc (g : gcode) : oerr := if Nat.eqb g 0 then None else Some (Grpc g).

(* ---------- tables regenerated from the source tree ---------- *)

Record tables := mkTables {
  t_buckets : list (gcode * nat);        (* fromGRPCCode: the case arms, flattened to (category, exit code) *)
  t_default : nat;                       (* fromGRPCCode: default arm *)
  t_exit_ok : nat;                       (* ExitCode: value returned for nil / cancelled *)
  t_exit_env : nat;                      (* ExitCode: value returned for an environment sentinel *)
  t_exit_fallback : nat;                 (* ExitCode: last return *)
  t_ok_sentinels : list sentinel;        (* ExitCode: cerrors.Is(err, context.Canceled) *)
  t_env_sentinels : list sentinel;       (* isEnvironmentSentinel *)
  t_registry : list (string * gcode);    (* every conduiterr.Register(reason, category) of the repository *)
  t_unknown : string;                    (* conduiterr.CodeUnknown.Reason() *)
  t_api_pre : list (list (sentinel * gcode));  (* own switch arms of Pipeline/Connector/Processor/PluginError *)
  t_api_common : list (sentinel * gcode);      (* codeFromError arms, in order *)
  t_api_default : gcode;                       (* codeFromError default *)
  t_nsent : nat                                (* sentinels 1..t_nsent are the ones the harness queries *)
}.

Fixpoint assoc {B} (k : nat) (l : list (nat * B)) : option B :=
  match l with
  | [] => None
  | (k', v) :: r => if Nat.eqb k k' then Some v else assoc k r
  end.

Fixpoint lookup {B} (k : string) (l : list (string * B)) : option B :=
  match l with
  | [] => None
  | (k', v) :: r => if String.eqb k k' then Some v else lookup k r
  end.

Definition bucket (T : tables) (g : gcode) : nat :=
  match assoc g (t_buckets T) with Some b => b | None => t_default T end.

(* lifting to possibly-nil errors *)
Definition is_fatalo (o : oerr) : bool := match o with Some e => is_fatal e | None => false end.
Definition get_codeo (o : oerr) : option code := match o with Some e => get_code e | None => None end.
Definition first_grpco (o : oerr) : option gcode := match o with Some e => first_grpc e | None => None end.
Definition is_ao (s : sentinel) (o : oerr) : bool := match o with Some e => is_a s e | None => false end.

(* exitcode.ExitCode *)
Definition exit_code (T : tables) (o : oerr) : nat :=
  match o with
  | None => t_exit_ok T
  | Some e =>
      if existsb (fun s => is_a s e) (t_ok_sentinels T) then t_exit_ok T else
      match get_code e with
      | Some c => bucket T (cat c)
      | None =>
          match first_grpc e with
          | Some g => bucket T g
          | None => if existsb (fun s => is_a s e) (t_env_sentinels T) then t_exit_env T
                    else t_exit_fallback T
          end
      end
  end.

(* ---------- gRPC status, at the level (status code, ErrorInfo reason) ---------- *)

Definition wire := (gcode * option string)%type.

(* conduiterr.ToStatus: status.New(category, msg).WithDetails(ErrorInfo{Reason}); WithDetails refuses a
   status with code OK, in which case the detail-less status is returned *)
Definition to_status (c : code) : wire :=
  (cat c, if Nat.eqb (cat c) 0 then None else Some (reason c)).

(* conduiterr.FromStatus: a registered reason takes the LOCAL category; an unknown reason keeps the wire
   code; no detail gives CodeUnknown's reason with the wire code *)
Definition from_status (T : tables) (w : wire) : code :=
  match snd w with
  | Some r => match lookup r (t_registry T) with
              | Some g => mkCode r g
              | None => mkCode r (fst w)
              end
  | None => mkCode (t_unknown T) (fst w)
  end.

(* pkg/http/api/status: first matching arm, own arms before codeFromError's *)
Fixpoint first_arm (o : oerr) (arms : list (sentinel * gcode)) : option gcode :=
  match arms with
  | [] => None
  | (s, g) :: r => if is_ao s o then Some g else first_arm o r
  end.

Definition api_cat (T : tables) (k : nat) (o : oerr) : gcode :=
  match first_arm o (nth k (t_api_pre T) [] ++ t_api_common T) with
  | Some g => g
  | None => t_api_default T
  end.

(* the status a boundary function returns: ToStatus of the first coded error, else of
   WithUnknownReason(err, category) *)
Definition api_status (T : tables) (k : nat) (o : oerr) : wire :=
  to_status (match get_codeo o with
             | Some c => c
             | None => mkCode (t_unknown T) (api_cat T k o)
             end).

(* what the caller of a boundary function holds: status.Err() is nil for code OK *)
Definition api_err (T : tables) (k : nat) (o : oerr) : oerr := mk_grpc (fst (api_status T k o)).

(* ---------- builder expressions: what the harness (and the code base) calls ---------- *)

Inductive bexp :=
| BNil
| BLeaf (s : sentinel)             (* a sentinel value, or cerrors.New for s = 0 *)
| BGrpc (g : gcode)                (* grpc status.Error(g, msg) *)
| BWrap (b : bexp)                 (* cerrors.Errorf("ctx: %w", b) or cerrors.Errorf("%w: ctx", b) *)
| BOpaque (b : bexp)               (* cerrors.Errorf("ctx: %v", b) *)
| BMultiW (bs : list bexp)         (* cerrors.Errorf("%w | %w | ...", bs...) *)
| BJoin (bs : list bexp)           (* cerrors.Join(bs...) *)
| BFatal (b : bexp)                (* cerrors.FatalError(b) *)
| BNew (c : code)                  (* conduiterr.New(c, msg) *)
| BCWrap (c : code) (b : bexp)     (* conduiterr.Wrap(c, msg, b) *)
| BWithCode (c : code) (b : bexp)  (* conduiterr.WithCode(b, c) *)
| BFromStatus (w : wire).          (* conduiterr.FromStatus(status w) *)

Section Build.
  Variable T : tables.
  Fixpoint build (b : bexp) : oerr :=
    match b with
    | BNil => None
    | BLeaf s => Some (Leaf s)
    | BGrpc g => mk_grpc g
    | BWrap b' => mk_wrap (build b')
    | BOpaque _ => Some (Leaf s_fresh)
    | BMultiW bs => mk_multiw (map build bs)
    | BJoin bs => mk_join (map build bs)
    | BFatal b' => mk_fatal (build b')
    | BNew c => mk_cnew c
    | BCWrap c b' => mk_cwrap c (build b')
    | BWithCode c b' => mk_withcode c (build b')
    | BFromStatus w => Some (Coded (from_status T w) (Leaf s_fresh))
    end.
End Build.

Fixpoint wrapn (n : nat) (e : err) : err :=
  match n with 0 => e | S n' => Wrap (wrapn n' e) end.

(* ---------- the property, read off the builder expression ----------
   Compositional reading of "keeps its classification": what a wrapper contributes and what it lets
   through, without building any tree.
   [tr] = true: the reading of the property (every operand taken with %w stays reachable).
   [tr] = false: as xerrors.Errorf behaves (two or more %w make the result opaque). *)

Section FirstOf.
  Context {A B : Type} (f : A -> option B).
  Fixpoint first_of (l : list A) : option B :=
    match l with
    | [] => None
    | x :: r => match f x with Some b => Some b | None => first_of r end
    end.
End FirstOf.

Fixpoint spec_nil (b : bexp) : bool :=
  match b with
  | BNil => true
  | BGrpc g => Nat.eqb g 0
  | BJoin bs => forallb spec_nil bs
  | BFatal b' => spec_nil b'
  | _ => false
  end.

Section Spec.
  Variable T : tables.
  Variable tr : bool.

  Fixpoint spec_fatal (b : bexp) : bool :=
    match b with
    | BNil | BLeaf _ | BGrpc _ | BOpaque _ | BNew _ | BFromStatus _ => false
    | BFatal b' => negb (spec_nil b')
    | BWrap b' | BCWrap _ b' | BWithCode _ b' => spec_fatal b'
    | BJoin bs => existsb spec_fatal bs
    | BMultiW bs => match bs with [b'] => spec_fatal b' | _ => tr && existsb spec_fatal bs end
    end.

  Fixpoint spec_code (b : bexp) : option code :=
    match b with
    | BNil | BLeaf _ | BGrpc _ | BOpaque _ => None
    | BWrap b' | BFatal b' => spec_code b'
    | BJoin bs => first_of spec_code bs
    | BMultiW bs => match bs with [b'] => spec_code b' | _ => if tr then first_of spec_code bs else None end
    | BNew c => Some c
    | BCWrap c b' => match spec_code b' with Some c' => Some c' | None => Some c end
    | BWithCode c _ => Some c
    | BFromStatus w => Some (from_status T w)
    end.

  Fixpoint spec_grpc (b : bexp) : option gcode :=
    match b with
    | BNil | BLeaf _ | BOpaque _ | BNew _ | BFromStatus _ => None
    | BGrpc g => if Nat.eqb g 0 then None else Some g
    | BWrap b' | BFatal b' | BCWrap _ b' | BWithCode _ b' => spec_grpc b'
    | BJoin bs => first_of spec_grpc bs
    | BMultiW bs => match bs with [b'] => spec_grpc b' | _ => if tr then first_of spec_grpc bs else None end
    end.

  (* for real sentinels (s <> 0) *)
  Fixpoint spec_is (s : sentinel) (b : bexp) : bool :=
    match b with
    | BNil | BGrpc _ | BOpaque _ | BNew _ | BFromStatus _ => false
    | BLeaf s' => Nat.eqb s s'
    | BWrap b' | BFatal b' | BCWrap _ b' | BWithCode _ b' => spec_is s b'
    | BJoin bs => existsb (spec_is s) bs
    | BMultiW bs => match bs with [b'] => spec_is s b' | _ => tr && existsb (spec_is s) bs end
    end.
End Spec.

(* no cerrors.Errorf with two or more %w anywhere *)
Fixpoint no_multiw (b : bexp) : bool :=
  match b with
  | BNil | BLeaf _ | BGrpc _ | BNew _ | BFromStatus _ => true
  | BWrap b' | BOpaque b' | BFatal b' | BCWrap _ b' | BWithCode _ b' => no_multiw b'
  | BJoin bs => forallb no_multiw bs
  | BMultiW bs => match bs with [b'] => no_multiw b' | _ => false end
  end.

(* ---------- classification and the documented exit codes ----------
   docs/architecture-decision-records/20260706-deterministic-cli-exit-codes.md and the package doc of
   pkg/conduit/exitcode: 0 OK/Canceled; 2 InvalidArgument NotFound AlreadyExists FailedPrecondition
   OutOfRange; 3 Unavailable DeadlineExceeded ResourceExhausted Unauthenticated PermissionDenied;
   1 everything else.  Written by hand from the documentation: this is the specification the generated
   switch is compared with. *)

Definition mem (n : nat) (l : list nat) : bool := existsb (Nat.eqb n) l.

Definition doc_bucket (g : gcode) : nat :=
  if mem g [0; 1] then 0
  else if mem g [3; 5; 6; 9; 11] then 2
  else if mem g [14; 4; 8; 16; 7] then 3
  else 1.

Record class := mkClass {
  c_nil : bool;                 (* no error *)
  c_cancel : bool;              (* context.Canceled reachable *)
  c_code : option gcode;        (* category of the first coded error *)
  c_grpc : option gcode;        (* code of the first grpc status error *)
  c_env : bool                  (* an environment sentinel reachable *)
}.

Definition classify (T : tables) (o : oerr) : class :=
  mkClass (negb (is_some o))
          (existsb (fun s => is_ao s o) (t_ok_sentinels T))
          (option_map cat (get_codeo o))
          (first_grpco o)
          (existsb (fun s => is_ao s o) (t_env_sentinels T)).

Definition exit_of_class (bk : gcode -> nat) (xok xenv xfb : nat) (k : class) : nat :=
  if c_nil k || c_cancel k then xok else
  match c_code k with
  | Some g => bk g
  | None => match c_grpc k with
            | Some g => bk g
            | None => if c_env k then xenv else xfb
            end
  end.

Definition gen_exit (T : tables) : class -> nat :=
  exit_of_class (bucket T) (t_exit_ok T) (t_exit_env T) (t_exit_fallback T).
Definition doc_exit : class -> nat := exit_of_class doc_bucket 0 3 1.

(* ---------- what the harness observes of one error value, and the model's version of it ---------- *)

Record obs := mkObs {
  o_nil : bool;                       (* err == nil *)
  o_fatal : bool;                     (* cerrors.IsFatalError *)
  o_code : option code;               (* conduiterr.Get -> Code *)
  o_is : list sentinel;               (* the sentinels 1..t_nsent for which cerrors.Is holds, ascending *)
  o_grpc : option gcode;              (* grpc status.FromError: ok -> Code *)
  o_exit : nat;                       (* exitcode.ExitCode *)
  o_wire : option wire;               (* conduiterr.ToStatus of the error found by Get *)
  o_back : option code;               (* conduiterr.FromStatus of that status *)
  o_api : list wire;                  (* status.{Pipeline,Connector,Processor,Plugin}Error, as (code, reason) *)
  o_api_exit : list nat               (* exitcode.ExitCode of those four results *)
}.

Definition api_kinds : list nat := [0; 1; 2; 3].

Definition model_obs (T : tables) (o : oerr) : obs :=
  mkObs (negb (is_some o))
        (is_fatalo o)
        (get_codeo o)
        (filter (fun s => is_ao s o) (seq 1 (t_nsent T)))
        (first_grpco o)
        (exit_code T o)
        (option_map to_status (get_codeo o))
        (option_map (fun c => from_status T (to_status c)) (get_codeo o))
        (map (fun k => api_status T k o) api_kinds)
        (map (fun k => exit_code T (api_err T k o)) api_kinds).

(* boolean equalities *)
Definition opt_eqb {A} (eqb : A -> A -> bool) (a b : option A) : bool :=
  match a, b with
  | Some x, Some y => eqb x y
  | None, None => true
  | _, _ => false
  end.
Fixpoint list_eqb' {A} (eqb : A -> A -> bool) (l1 l2 : list A) : bool :=
  match l1, l2 with
  | [], [] => true
  | a :: r1, b :: r2 => eqb a b && list_eqb' eqb r1 r2
  | _, _ => false
  end.
Definition wire_eqb (a b : wire) : bool :=
  Nat.eqb (fst a) (fst b) && opt_eqb String.eqb (snd a) (snd b).

Definition obs_eqb (a b : obs) : bool :=
  Bool.eqb (o_nil a) (o_nil b) && Bool.eqb (o_fatal a) (o_fatal b) &&
  opt_eqb code_eqb (o_code a) (o_code b) && list_eqb' Nat.eqb (o_is a) (o_is b) &&
  opt_eqb Nat.eqb (o_grpc a) (o_grpc b) && Nat.eqb (o_exit a) (o_exit b) &&
  opt_eqb wire_eqb (o_wire a) (o_wire b) && opt_eqb code_eqb (o_back a) (o_back b) &&
  list_eqb' wire_eqb (o_api a) (o_api b) && list_eqb' Nat.eqb (o_api_exit a) (o_api_exit b).

(* ---------- the property monitor, on observed behaviour ----------
   documented sentinel sets: 1 = context.Canceled; 2, 3 = syscall.ECONNREFUSED, syscall.EADDRINUSE
   (the harness' sentinel table starts with these three, the translator checks it) *)
Definition doc_ok_sentinels : list sentinel := [1].
Definition doc_env_sentinels : list sentinel := [2; 3].

Definition obs_class (x : obs) : class :=
  mkClass (o_nil x)
          (existsb (fun s => mem s (o_is x)) doc_ok_sentinels)
          (option_map cat (o_code x))
          (o_grpc x)
          (existsb (fun s => mem s (o_is x)) doc_env_sentinels).

Definition class_eqb (a b : class) : bool :=
  Bool.eqb (c_nil a) (c_nil b) && Bool.eqb (c_cancel a) (c_cancel b) &&
  opt_eqb Nat.eqb (c_code a) (c_code b) && opt_eqb Nat.eqb (c_grpc a) (c_grpc b) &&
  Bool.eqb (c_env a) (c_env b).

Definition registered (T : tables) (c : code) : bool :=
  opt_eqb Nat.eqb (lookup (reason c) (t_registry T)) (Some (cat c)).

Section Monitor.
  Variable T : tables.
  Variable tr : bool.

  (* M1-M3: the observed classification of the value built by b is the one the expression denotes *)
  Definition mon_denot (b : bexp) (x : obs) : bool :=
    Bool.eqb (o_nil x) (spec_nil b) &&
    Bool.eqb (o_fatal x) (spec_fatal tr b) &&
    opt_eqb code_eqb (o_code x) (spec_code T tr b) &&
    list_eqb' Nat.eqb (o_is x) (filter (fun s => spec_is tr s b) (seq 1 (t_nsent T))) &&
    opt_eqb Nat.eqb (o_grpc x) (spec_grpc tr b).

  (* M4: the first coded error goes on the wire with its own category and reason, and a registered
     code comes back as itself; any code comes back with its reason *)
  Definition mon_status (x : obs) : bool :=
    match o_code x with
    | None => true
    | Some c =>
        opt_eqb wire_eqb (o_wire x) (Some (to_status c)) &&
        match o_back x with
        | None => false
        | Some c' =>
            if Nat.eqb (cat c) 0 then true
            else String.eqb (reason c') (reason c) &&
                 (if registered T c then code_eqb c' c else true)
        end
    end.

  (* M5: the exit code is the documented function of the observed classification; a coded error is
     seen by the client of an API boundary function with the same exit code *)
  Definition mon_exit (x : obs) : bool :=
    Nat.eqb (o_exit x) (doc_exit (obs_class x)) &&
    match o_code x with
    | Some c => forallb (fun w => Nat.eqb (fst w) (cat c)) (o_api x) &&
                (c_cancel (obs_class x) ||
                 forallb (fun n => Nat.eqb n (o_exit x)) (o_api_exit x))
    | None => true
    end.

  (* M2: n plain wrappers change nothing that is observed *)
  Definition mon_wrap (x xw : obs) : bool := o_nil x || obs_eqb x xw.

  Definition mon_one (b : bexp) (xs : obs * obs) : bool :=
    mon_denot b (fst xs) && mon_status (fst xs) && mon_exit (fst xs) &&
    mon_status (snd xs) && mon_exit (snd xs) && mon_wrap (fst xs) (snd xs).

  (* M6: equal classification, equal exit code - over all pairs of values of a case *)
  Fixpoint mon_pairs (xs : list obs) : bool :=
    match xs with
    | [] => true
    | x :: r => forallb (fun y => negb (class_eqb (obs_class x) (obs_class y))
                                  || Nat.eqb (o_exit x) (o_exit y)) r && mon_pairs r
    end.

  Fixpoint mon_all (bs : list bexp) (xs : list (obs * obs)) : bool :=
    match bs, xs with
    | [], [] => true
    | b :: bs', x :: xs' => mon_one b x && mon_all bs' xs'
    | _, _ => false
    end.

  Definition monitor (bs : list bexp) (xs : list (obs * obs)) : bool :=
    mon_all bs xs && mon_pairs (map fst xs ++ map snd xs).
End Monitor.

(* the model's run of a case: every expression is built, observed, wrapped n times and observed again
   (a nil value is observed twice: Errorf on nil is not a wrapper of anything) *)
Definition run_one (T : tables) (n : nat) (b : bexp) : obs * obs :=
  let o := build T b in
  (model_obs T o, model_obs T (option_map (wrapn n) o)).

Definition model_run (T : tables) (n : nat) (bs : list bexp) : list (obs * obs) :=
  map (run_one T n) bs.

(* ---------- wrapping contexts (for the stability theorems) ---------- *)

Inductive frame :=
| FWrap                                 (* cerrors.Errorf("...%w...", _) *)
| FJoin (before after : list err)       (* cerrors.Join(before..., _, after...) *)
| FFatal                                (* cerrors.FatalError(_) *)
| FCWrap (c : code)                     (* conduiterr.Wrap(c, msg, _) *)
| FWithCode (c : code).                 (* conduiterr.WithCode(_, c) *)

Definition plug1 (f : frame) (e : err) : err :=
  match f with
  | FWrap => Wrap e
  | FJoin l r => Join (l ++ e :: r)
  | FFatal => fatal_of e
  | FCWrap c => cwrap_of c e
  | FWithCode c => Coded c e
  end.

(* innermost frame first *)
Fixpoint plug (k : list frame) (e : err) : err :=
  match k with
  | [] => e
  | f :: k' => plug k' (plug1 f e)
  end.

Definition frame_fatal (f : frame) : bool :=
  match f with
  | FFatal => true
  | FJoin l r => existsb is_fatal (l ++ r)
  | _ => false
  end.

(* frames that cannot change which code is found first: everything except the explicit override
   WithCode and a Join that puts a coded error in front *)
Definition frame_keeps_code (f : frame) : bool :=
  match f with
  | FWithCode _ => false
  | FJoin l _ => negb (existsb (fun x => is_some (get_code x)) l)
  | _ => true
  end.

(* ---------- decidable side conditions on the generated tables (checked by vm_compute per run) ---------- *)

Definition subset (l1 l2 : list nat) : bool := forallb (fun x => mem x l2) l1.
Definition same_set (l1 l2 : list nat) : bool := subset l1 l2 && subset l2 l1.

Fixpoint nodup_keys {B} (l : list (string * B)) : bool :=
  match l with
  | [] => true
  | (k, _) :: r => negb (is_some (lookup k r)) && nodup_keys r
  end.

(* every registered code lands in one of the three error buckets *)
Definition check_total (T : tables) : bool :=
  forallb (fun rg => mem (bucket T (snd rg)) [1; 2; 3]) (t_registry T).

(* the switch of fromGRPCCode is the documented mapping *)
Definition check_buckets_doc (T : tables) : bool :=
  forallb (fun g => Nat.eqb (bucket T g) (doc_bucket g)) (seq 0 17 ++ map fst (t_buckets T)) &&
  Nat.eqb (t_default T) 1.

(* ExitCode's constants and sentinel sets are the documented ones *)
Definition check_exit_doc (T : tables) : bool :=
  check_buckets_doc T &&
  Nat.eqb (t_exit_ok T) 0 && Nat.eqb (t_exit_env T) 3 && Nat.eqb (t_exit_fallback T) 1 &&
  same_set (t_ok_sentinels T) doc_ok_sentinels && same_set (t_env_sentinels T) doc_env_sentinels &&
  Nat.leb 3 (t_nsent T).

(* the registry is a function of the reason and has no code of category OK; CodeUnknown is in it *)
Definition check_registry (T : tables) : bool :=
  nodup_keys (t_registry T) &&
  forallb (fun rg => negb (Nat.eqb (snd rg) 0)) (t_registry T) &&
  is_some (lookup (t_unknown T) (t_registry T)).
