(* Model of funnel.multiAckNacker (pkg/lifecycle-poc/funnel/worker.go): the per-position tally
   that turns the votes of M concurrently running destination branches into calls on the
   parent ackNacker.  Definitions only; theorems in MultiProofs.v.

   Atomicity assumed (and where the code gets it from):
     one vote = one call of multiAckNacker.Ack / .Nack, which runs entirely under m.mu
     (sync.Mutex, taken at the top, released by defer) INCLUDING the parent calls made by
     releaseLocked; so votes of different branches are totally ordered and the machine
     below processes them one at a time.  The order is arbitrary: the theorems quantify over
     every list of votes.

   Positions are identified by their index in the fan-out batch (posIndex maps the position
   bytes to it; newMultiAckNacker refuses duplicate or empty positions, so the map is
   injective).  A vote for an index outside the batch is indexOf's "(bug)" error: the vote
   stops there, returns the error and does not call releaseLocked.                          *)
From Coq Require Export List Arith Bool Lia.
Export ListNotations.

Record mstate := mkM {
  mM    : nat;          (* branches *)
  votes : list nat;     (* ackVotes *)
  term  : list bool;    (* terminal *)
  ackd  : list bool;    (* acked (meaningful once terminal) *)
  mrel  : nat           (* released *)
}.

Definition minit (M n : nat) : mstate := mkM M (repeat 0 n) (repeat false n) (repeat false n) 0.
Definition mlen (m : mstate) : nat := length (term m).

Fixpoint upd {A} (l : list A) (i : nat) (x : A) : list A :=
  match l, i with
  | [], _ => []
  | _ :: r, 0 => x :: r
  | a :: r, S j => a :: upd r j x
  end.

(* the body of the loop of Ack for one position *)
Definition tally_ack1 (m : mstate) (i : nat) : mstate :=
  if nth i (term m) false then m
  else
    let v := S (nth i (votes m) 0) in
    if v =? mM m
    then mkM (mM m) (upd (votes m) i v) (upd (term m) i true) (upd (ackd m) i true) (mrel m)
    else mkM (mM m) (upd (votes m) i v) (term m) (ackd m) (mrel m).

(* the body of the loop of Nack for one position *)
Definition tally_nack1 (m : mstate) (i : nat) : mstate :=
  if nth i (term m) false then m
  else mkM (mM m) (votes m) (upd (term m) i true) (upd (ackd m) i false) (mrel m).

(* the loop; false = indexOf failed, the vote returns that error without releasing *)
Fixpoint tally (isack : bool) (m : mstate) (idxs : list nat) : mstate * bool :=
  match idxs with
  | [] => (m, true)
  | i :: r =>
      if i <? mlen m
      then tally isack (if isack then tally_ack1 m i else tally_nack1 m i) r
      else (m, false)
  end.

(* calls on the parent *)
Inductive pcall :=
| PAck (from to : nat)        (* parent.Ack(ackBatch(from,to)) returned nil *)
| PNack (idx : nat)           (* parent.Nack(nackBatch(idx)) returned nil *)
| PNackFail (idx : nat).      (* parent.Nack returned an error: released is NOT advanced *)

(* length of the leading run of (terminal && acked) *)
Fixpoint ack_run (tl al : list bool) : nat :=
  match tl, al with
  | true :: tr, true :: ar => S (ack_run tr ar)
  | _, _ => 0
  end.

(* what releaseLocked would do next *)
Definition next_release (m : mstate) : option pcall :=
  if mrel m <? mlen m then
    if nth (mrel m) (term m) false then
      if nth (mrel m) (ackd m) false
      then Some (PAck (mrel m) (mrel m + ack_run (skipn (mrel m) (term m)) (skipn (mrel m) (ackd m))))
      else Some (PNack (mrel m))
    else None
  else None.

Definition set_rel (m : mstate) (r : nat) : mstate := mkM (mM m) (votes m) (term m) (ackd m) r.

(* releaseLocked.  Worker.Ack fails only on a source ack error / an empty position, which are
   outside this model, so parent.Ack succeeds; parent.Nack (DLQ write) may fail: [oracle]
   gives the results of the successive parent.Nack calls of this vote (exhausted = success). *)
Fixpoint release (fuel : nat) (m : mstate) (oracle : list bool) : mstate * list pcall :=
  match fuel with
  | 0 => (m, [])
  | S f =>
      match next_release m with
      | None => (m, [])
      | Some (PAck a b) => let (m', o) := release f (set_rel m b) oracle in (m', PAck a b :: o)
      | Some (PNack i) =>
          match oracle with
          | false :: _ => (m, [PNackFail i])
          | _ => let (m', o) := release f (set_rel m (S i)) (tl oracle) in (m', PNack i :: o)
          end
      | Some (PNackFail _) => (m, [])
      end
  end.

Record vote := V { vb : nat; vack : bool; vidx : list nat; vor : list bool }.

Definition mstep (m : mstate) (v : vote) : mstate * list pcall :=
  let (m1, ok) := tally (vack v) m (vidx v) in
  if ok then release (S (mlen m1)) m1 (vor v) else (m1, []).

Fixpoint mrun (m : mstate) (vs : list vote) : mstate * list pcall :=
  match vs with
  | [] => (m, [])
  | v :: r => let (m1, o1) := mstep m v in let (m2, o2) := mrun m1 r in (m2, o1 ++ o2)
  end.

(* positions covered by the successful parent calls *)
Definition covered1 (c : pcall) : list nat :=
  match c with PAck a b => seq a (b - a) | PNack i => [i] | PNackFail _ => [] end.
Definition covered (o : list pcall) : list nat := flat_map covered1 o.

(* bookkeeping over a vote list: the branches that voted ack (resp. nack) for position i,
   with multiplicity *)
Definition votes_for (isack : bool) (i : nat) (vs : list vote) : list nat :=
  flat_map (fun v => if Bool.eqb (vack v) isack
                     then repeat (vb v) (count_occ Nat.eq_dec (vidx v) i) else []) vs.

(* every branch votes at most once per position (ack xor nack) and is one of the M branches:
   what runAckNacker and the tainted-batch loop guarantee for each branch *)
Definition votes_once (M : nat) (vs : list vote) : Prop :=
  forall i, NoDup (votes_for true i vs ++ votes_for false i vs) /\
            forall b, In b (votes_for true i vs ++ votes_for false i vs) -> b < M.
