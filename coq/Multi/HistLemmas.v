(* How the history functions used by the acceptor react to one more event (newest first). *)
From Verif Require Import Multi.Trace Multi.TraceProofs Multi.Accept Multi.AcceptProofs.

Definition not_read (e : event) : bool := match e with Read _ _ => false | _ => true end.
Definition not_ack (e : event) : bool := match e with EngineAck _ _ => false | _ => true end.

Lemma nreads_cons s e pre :
  nreads s (e :: pre) =
  (match e with Read s' _ => if s =? s' then 1 else 0 | _ => 0 end) + nreads s pre.
Proof.
  unfold nreads, reads_of. simpl. rewrite app_length. f_equal.
  destruct e; try reflexivity. destruct (s =? s0); reflexivity.
Qed.

Lemma nacked_cons s e pre :
  nacked s (e :: pre) =
  (match e with EngineAck s' ks => if s =? s' then length ks else 0 | _ => 0 end) + nacked s pre.
Proof.
  unfold nacked, acks_of. simpl. rewrite app_length. f_equal.
  destruct e; try reflexivity. destruct (s =? s0); reflexivity.
Qed.

Lemma nreads_app s l pre : nreads s (l ++ pre) = nreads s l + nreads s pre.
Proof. unfold nreads, reads_of. rewrite flat_map_app, app_length. reflexivity. Qed.
Lemma nacked_app s l pre : nacked s (l ++ pre) = nacked s l + nacked s pre.
Proof. unfold nacked, acks_of. rewrite flat_map_app, app_length. reflexivity. Qed.

(* a block of n reads of source s' *)
Lemma nreads_reads s s' a n : nreads s (rev (map (Read s') (seq a n))) = if s =? s' then n else 0.
Proof.
  unfold nreads, reads_of. rewrite length_flat_map_rev. revert a. induction n as [|n IH]; intros a.
  - simpl. destruct (s =? s'); reflexivity.
  - simpl. specialize (IH (S a)). destruct (s =? s'); simpl; rewrite IH; reflexivity.
Qed.

Lemma nacked_reads s s' a n : nacked s (rev (map (Read s') (seq a n))) = 0.
Proof.
  unfold nacked, acks_of. rewrite length_flat_map_rev. revert a. induction n as [|n IH]; intros a; simpl; auto.
Qed.

(* existsb over a block of events none of which matches *)
Lemma existsb_app_false {A} (p : A -> bool) l pre :
  (forall x, In x l -> p x = false) -> existsb p (l ++ pre) = existsb p pre.
Proof.
  intros H. rewrite existsb_app. replace (existsb p l) with false; [reflexivity|].
  symmetry. apply not_true_iff_false. intros E. apply existsb_exists in E.
  destruct E as [x [Hin Hx]]. rewrite (H x Hin) in Hx. discriminate.
Qed.

Lemma find_app_none {A} (p : A -> bool) l pre :
  (forall x, In x l -> p x = false) -> find p (l ++ pre) = find p pre.
Proof.
  induction l as [|a l IH]; intros H; [reflexivity|].
  simpl. rewrite (H a (or_introl eq_refl)). apply IH. intros x Hx. apply H. right. exact Hx.
Qed.

Lemma in_rev_map_read s a n x : In x (rev (map (Read s) (seq a n))) -> exists k, x = Read s k /\ a <= k < a + n.
Proof.
  rewrite <- in_rev, in_map_iff. intros [k [<- Hk]]. apply in_seq in Hk. eauto.
Qed.

Lemma in_rev_map_dlqw s a n x : In x (rev (map (DlqWrite s) (seq a n))) -> exists k, x = DlqWrite s k /\ a <= k < a + n.
Proof.
  rewrite <- in_rev, in_map_iff. intros [k [<- Hk]]. apply in_seq in Hk. eauto.
Qed.
