(* Theorems about the tainted-batch loop with retry groups (Retry.v): whatever every call of
   every task answers (any mix of ack / filter / nack / retry, short replies, holes), however long
   the chain is and whichever retry bounds are configured, the records are released to the
   source in batch order, every release is for the records that directly follow what was released
   before, and a pass that returns nil has released the whole batch.  The alternative that runs
   retry groups after the loop is refuted. *)
From Verif Require Import Multi.Retry.

Definition good (r : res) (ids : list nat) : Prop :=
  prefix_of (released (fst r)) ids /\ (snd r = true -> released (fst r) = ids).

Lemma released_app a b : released (a ++ b) = released a ++ released b.
Proof. unfold released. apply flat_map_app. Qed.

Lemma good_andthen a k i1 i2 : good a i1 -> good (k tt) i2 -> good (andthen a k) (i1 ++ i2).
Proof.
  intros [[r1 P1] E1] [[r2 P2] E2]. unfold andthen. destruct (snd a) eqn:Ea.
  - specialize (E1 eq_refl). split; cbn [fst snd].
    + exists r2. rewrite released_app, E1, P2, app_assoc. reflexivity.
    + intros Hk. rewrite released_app, E1, (E2 Hk). reflexivity.
  - split.
    + exists (r1 ++ i2). rewrite P1, app_assoc. reflexivity.
    + intros H. rewrite Ea in H. discriminate.
Qed.

Lemma good_fail ids : good ([], false) ids.
Proof. split; [exists ids; reflexivity|intros H; discriminate]. Qed.

Lemma span_app c l : l = fst (span c l) ++ snd (span c l).
Proof.
  induction l as [|x r IH]; [reflexivity|]. cbn [span].
  destruct (cls (snd x) =? c); cbn [fst snd app]; [f_equal; exact IH|reflexivity].
Qed.

Definition gids (g : list (brec * rflag)) : list nat := map (fun y => fst (fst y)) g.

Lemma gids_app a b : gids (a ++ b) = gids a ++ gids b.
Proof. apply map_app. Qed.

Lemma carry_ids g : map fst (carry g) = gids g.
Proof. unfold carry, gids. rewrite map_map. reflexivity. Qed.

Lemma sb_ids g : map fst (map fst g) = gids g.
Proof. unfold gids. rewrite map_map. reflexivity. Qed.

Lemma spread_length b : forall fl, length (spread b fl) = length b.
Proof.
  induction b as [|[i f] r IH]; intros fl; [reflexivity|]. cbn [spread].
  destruct f; [cbn [length]; f_equal; apply IH|].
  destruct fl; cbn [length]; f_equal; apply IH.
Qed.

Lemma combine_ids (b : list brec) : forall fl, length fl = length b -> gids (combine b fl) = map fst b.
Proof.
  induction b as [|x r IH]; intros [|f fl] H; try discriminate; [reflexivity|].
  cbn [combine gids map fst]. f_equal. apply IH. injection H as H. exact H.
Qed.

Section LoopProofs.
  Variable (e : env) (maxA maxS : nat).

  Lemma tloop_good last retry next again :
    (forall sb, good (next sb) (map fst sb)) ->
    (forall sb nx, good (again sb nx) (map fst sb)) ->
    forall n l, good (tloop e maxA maxS AtCursor last retry next again n l []) (gids l).
  Proof.
    intros Hn Ha. induction n as [|n IH]; intros l.
    - cbn [tloop]. destruct l; [split; [exists []; reflexivity|reflexivity]|apply good_fail].
    - destruct l as [|x l']; [cbn; split; [exists []; reflexivity|reflexivity]|].
      cbn [tloop].
      set (g := fst (span (cls (snd x)) (x :: l'))).
      set (t := snd (span (cls (snd x)) (x :: l'))).
      assert (El : gids (x :: l') = gids g ++ gids t).
      { rewrite <- gids_app. f_equal. apply span_app. }
      rewrite El.
      destruct (snd x) eqn:Ex.
      + apply good_andthen; [|apply IH].
        destruct (last || negb (has_active (carry g))).
        * split; cbn [fst snd released flat_map rel_ids]; rewrite app_nil_r;
            [exists []; rewrite app_nil_r; reflexivity|reflexivity].
        * rewrite <- carry_ids. apply Hn.
      + apply good_andthen; [|apply IH].
        destruct (last || negb (has_active (carry g))).
        * split; cbn [fst snd released flat_map rel_ids]; rewrite app_nil_r;
            [exists []; rewrite app_nil_r; reflexivity|reflexivity].
        * rewrite <- carry_ids. apply Hn.
      + apply good_andthen; [|apply IH]. fold (gids g).
        set (d := dlqn e (gids g)).
        assert (Er : released (if 1 <=? d then [Rel false (firstn d (gids g))] else []) = firstn d (gids g)).
        { destruct (1 <=? d) eqn:Ed; [cbn; apply app_nil_r|].
          apply Nat.leb_gt in Ed. assert (d = 0) by lia. subst d. rewrite H. reflexivity. }
        split; cbn [fst snd]; rewrite Er.
        * exists (skipn d (gids g)). symmetry. apply firstn_skipn.
        * intros H. apply Nat.leb_le in H. apply firstn_all2. exact H.
      + destruct (retry_next maxA maxS retry (length (map fst g))) as [nx|]; [|apply good_fail].
        apply good_andthen; [|apply IH]. rewrite <- sb_ids. apply Ha.
  Qed.

  Lemma attempt_good : forall fuel T ti att b retry,
    good (attempt e maxA maxS AtCursor fuel T ti att b retry) (map fst b).
  Proof.
    induction fuel as [|f IH]; intros T ti att b retry; [apply good_fail|].
    cbn [attempt]. rewrite <- (combine_ids b (spread b (reply e ti att (active_ids b)))) by apply spread_length.
    apply tloop_good; intros; apply IH.
  Qed.
End LoopProofs.

Lemma new_batch_ids ids : map fst (new_batch ids) = ids.
Proof. unfold new_batch. rewrite map_map. cbn [fst]. apply map_id. Qed.

(* C04 on the linear path of one worker: a pass releases a prefix of the batch, in batch order,
   nothing twice, nothing skipped; a pass that returned nil released all of it *)
Theorem retry_releases_in_batch_order e maxA maxS fuel T ids :
  prefix_of (released (fst (pass e maxA maxS AtCursor fuel T ids))) ids /\
  (snd (pass e maxA maxS AtCursor fuel T ids) = true ->
   released (fst (pass e maxA maxS AtCursor fuel T ids)) = ids).
Proof.
  unfold pass. pose proof (attempt_good e maxA maxS fuel T 0 0 (new_batch ids) None) as H.
  rewrite new_batch_ids in H. exact H.
Qed.

Lemma prefix_seq_contig : forall gs a n, prefix_of (concat gs) (seq a n) -> contig a gs.
Proof.
  induction gs as [|g r IH]; intros a n [rest H]; [exact I|]. cbn [concat] in H. cbn [contig].
  rewrite <- app_assoc in H.
  assert (Hl : length g <= n).
  { apply (f_equal (@length nat)) in H. rewrite seq_length, app_length in H. lia. }
  assert (Hs : seq a n = seq a (length g) ++ seq (a + length g) (n - length g)).
  { rewrite <- seq_app. f_equal. lia. }
  rewrite Hs in H. apply app_eq_app in H as [l2 [[E1 E2]|[E1 E2]]].
  - assert (l2 = []). { apply (f_equal (@length nat)) in E1. rewrite app_length, seq_length in E1. destruct l2; [reflexivity|cbn in E1; lia]. }
    subst l2. rewrite app_nil_r in E1. cbn [app] in E2. split; [symmetry; exact E1|].
    apply (IH _ (n - length g)). exists rest. symmetry. exact E2.
  - assert (l2 = []). { apply (f_equal (@length nat)) in E1. rewrite app_length, seq_length in E1. destruct l2; [reflexivity|cbn in E1; lia]. }
    subst l2. rewrite app_nil_r in E1. cbn [app] in E2. split; [exact E1|].
    apply (IH _ (n - length g)). exists rest. exact E2.
Qed.

(* ... and every single Worker.Ack / Worker.Nack call is for the run of positions that starts
   where the previous one ended: exactly what SysV2's linear-path actions take as atomic *)
Theorem retry_releases_contiguous e maxA maxS fuel T a n :
  contig a (map rel_ids (fst (pass e maxA maxS AtCursor fuel T (seq a n)))).
Proof.
  apply (prefix_seq_contig _ a n).
  destruct (retry_releases_in_batch_order e maxA maxS fuel T (seq a n)) as [H _].
  unfold released in H. rewrite flat_map_concat_map in H. exact H.
Qed.

(* non-vacuity + the rejected alternative: source -> filter(p2) -> capped(1 per call) -> destination
   on the batch p0 p1 p2 p3 leaves ack | retry | filter | retry *)
Definition demo_env : env :=
  mkEnv (fun ti _ act =>
           match ti with
           | 0 => map (fun i => if i =? 2 then RFilter else RAck) act
           | 1 => [RAck]
           | _ => map (fun _ => RAck) act
           end)
        (fun ids => length ids).

Example retry_at_cursor_demo :
  pass demo_env 100 3 AtCursor 20 3 [0; 1; 2; 3] =
  ([Rel true [0]; Rel true [1]; Rel true [2]; Rel true [3]], true).
Proof. vm_compute. reflexivity. Qed.

Theorem deferred_retry_refuted :
  exists e maxA maxS fuel T ids,
    snd (pass e maxA maxS Deferred fuel T ids) = true /\
    ~ prefix_of (released (fst (pass e maxA maxS Deferred fuel T ids))) ids.
Proof.
  exists demo_env, 100, 3, 20, 3, [0; 1; 2; 3]. split; [vm_compute; reflexivity|].
  intros [rest H]. vm_compute in H. discriminate.
Qed.
