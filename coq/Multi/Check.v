(* Executable correspondence + monitors for the engine-run cases of C01 / C04 / C05.
   bit 0: the mechanism's acceptor rejects the observed log; bit 1: the property monitor does. *)
From Verif Require Import Base.CaseCheck Multi.Trace Multi.Accept.

(* Case: an L-engine run (acceptor + monitor).  SCase: a run of the real lifecycle services, where
   the ack observed is the one the source PLUGIN received: monitors only, the acceptor is an
   engine-level model. *)
Inductive ecase := Case (t : topo) (log : list event) | SCase (t : topo) (log : list event).

Definition chk01 (c : ecase) : nat :=
  match c with
  | Case t log => code (accepts t log) (Mon_C01 t log)
  | SCase t log => code true (Mon_C01 t log)
  end.
Definition chk04 (c : ecase) : nat :=
  match c with
  | Case t log => code (accepts t log) (Mon_C04 t log)
  | SCase t log => code true (Mon_C04 t log)
  end.
Definition chk05 (c : ecase) : nat :=
  match c with
  | Case t log => code (accepts t log) (Mon_C05 t log)
  | SCase t log => code true (Mon_C05 t log)
  end.
