(* Executable correspondence + monitors for the engine-run cases of C01 / C04 / C05.
   bit 0: the mechanism's acceptor rejects the observed log; bit 1: the property monitor does. *)
From Coq Require Import NArith.
From Verif Require Import Base.CaseCheck Multi.Trace Multi.Accept.

(* Range form of an event log, for the LARGE-BATCH cases (one batch of thousands of records): a
   run of consecutive events of one kind over consecutive emission indices is one entry (numbers
   as N, never large nat literals in a case file).  [expand] is the event log it stands for; the
   checker below literally evaluates the monitor on the expansion. *)
Inductive bev :=
| BEv (e : event)
| BReads (s : nat) (from len : N)
| BWrites (d s : nat) (from len : N)
| BConfs (d s : nat) (from len : N) (ok : bool)
| BAcks (s : nat) (from len : N).

Definition nseq (from len : N) : list nat := seq (N.to_nat from) (N.to_nat len).

Definition expand1 (b : bev) : list event :=
  match b with
  | BEv e => [e]
  | BReads s f l => map (Read s) (nseq f l)
  | BWrites d s f l => map (DestWrite d s) (nseq f l)
  | BConfs d s f l ok => map (fun k => DestConfirm d s k ok) (nseq f l)
  | BAcks s f l => [EngineAck s (nseq f l)]
  end.

Definition expand (l : list bev) : list event := flat_map expand1 l.

(* Case: an L-engine run (acceptor + monitor).  SCase: a run of the real lifecycle services, where
   the ack observed is the one the source PLUGIN received: monitors only, the acceptor is an
   engine-level model. *)
Inductive ecase :=
| Case (t : topo) (log : list event)
| SCase (t : topo) (log : list event)
(* BCase: a large-batch L-engine run in range form: MONITOR ONLY (the history based acceptor is
   quadratic in the log with a large constant and is skipped for logs of 10^4 events) *)
| BCase (t : topo) (l : list bev).

Definition chk01 (c : ecase) : nat :=
  match c with
  | Case t log => code (accepts t log) (Mon_C01 t log)
  | SCase t log => code true (Mon_C01 t log)
  | BCase t l => code true (Mon_C01 t (expand l))
  end.
Definition chk04 (c : ecase) : nat :=
  match c with
  | Case t log => code (accepts t log) (Mon_C04 t log)
  | SCase t log => code true (Mon_C04 t log)
  | BCase t l => code true (Mon_C04 t (expand l))
  end.
Definition chk05 (c : ecase) : nat :=
  match c with
  | Case t log => code (accepts t log) (Mon_C05 t log)
  | SCase t log => code true (Mon_C05 t log)
  | BCase t l => code true (Mon_C05 t (expand l))
  end.
