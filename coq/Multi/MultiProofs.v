(* Theorems about the multiAckNacker machine, for every list of votes (= every interleaving of
   the branches' vote sequences). *)
From Coq Require Import Permutation.
From Verif Require Import Multi.Multi.

(* ---------- upd / nth ---------- *)
Lemma upd_length {A} (l : list A) i x : length (upd l i x) = length l.
Proof. revert i; induction l as [|a l IH]; intros [|i]; simpl; auto. Qed.

Lemma nth_upd_eq {A} (l : list A) i x d : i < length l -> nth i (upd l i x) d = x.
Proof.
  revert i; induction l as [|a l IH]; intros [|i] H; simpl in *; try lia; auto.
  apply IH. lia.
Qed.

Lemma nth_upd_neq {A} (l : list A) i j x d : i <> j -> nth j (upd l i x) d = nth j l d.
Proof.
  revert i j; induction l as [|a l IH]; intros [|i] [|j] H; simpl; try lia; auto.
Qed.

(* ---------- well-formedness ---------- *)
Record wf (m : mstate) : Prop := {
  wf_votes : length (votes m) = mlen m;
  wf_ackd : length (ackd m) = mlen m;
  wf_rel : mrel m <= mlen m;
  wf_released_terminal : forall i, i < mrel m -> nth i (term m) false = true
}.

Lemma wf_minit M n : wf (minit M n).
Proof.
  constructor; unfold mlen; simpl; rewrite ?repeat_length; auto; try lia.
Qed.

(* [m'] keeps every decision already taken in [m] *)
Definition stable (m m' : mstate) : Prop :=
  mM m' = mM m /\ mlen m' = mlen m /\ mrel m' = mrel m /\
  forall i, nth i (term m) false = true ->
            nth i (term m') false = true /\ nth i (ackd m') false = nth i (ackd m) false.

Lemma stable_refl m : stable m m.
Proof. unfold stable. auto. Qed.

Lemma stable_trans a b c : stable a b -> stable b c -> stable a c.
Proof.
  intros (M1 & L1 & R1 & S1) (M2 & L2 & R2 & S2). repeat split; try congruence.
  - apply S2, S1, H.
  - destruct (S1 i H) as [T1 A1]. destruct (S2 i T1) as [_ A2]. congruence.
Qed.

Lemma wf_stable m m' : wf m -> stable m m' -> length (votes m') = mlen m' ->
  length (ackd m') = mlen m' -> wf m'.
Proof.
  intros W (M1 & L1 & R1 & S1) Hv Ha. constructor; auto.
  - rewrite R1, L1. apply W.
  - intros i Hi. rewrite R1 in Hi. apply S1. apply W, Hi.
Qed.

(* ---------- one position ---------- *)
Lemma tally_ack1_spec m i : wf m -> i < mlen m ->
  let m' := tally_ack1 m i in
  wf m' /\ stable m m' /\
  (forall j, j <> i -> nth j (term m') false = nth j (term m) false /\
                       nth j (ackd m') false = nth j (ackd m) false /\
                       nth j (votes m') 0 = nth j (votes m) 0) /\
  (nth i (term m) false = false ->
     (nth i (term m') false = false /\ nth i (votes m') 0 = S (nth i (votes m) 0)) \/
     (nth i (term m') false = true /\ nth i (ackd m') false = true /\ S (nth i (votes m) 0) = mM m)).
Proof.
  intros W Hi. unfold tally_ack1.
  destruct (nth i (term m) false) eqn:Et.
  - simpl. split; [exact W|]. split; [apply stable_refl|]. split; [auto|discriminate].
  - destruct (S (nth i (votes m) 0) =? mM m) eqn:Ev; cbn zeta.
    + apply Nat.eqb_eq in Ev.
      assert (St : stable m (mkM (mM m) (upd (votes m) i (S (nth i (votes m) 0)))
                                 (upd (term m) i true) (upd (ackd m) i true) (mrel m))).
      { unfold stable, mlen; simpl. rewrite upd_length. repeat split; auto;
        destruct (Nat.eq_dec i i0) as [->|Hne]; try congruence;
        rewrite nth_upd_neq by exact Hne; auto. }
      split; [|split; [exact St|split]].
      * eapply wf_stable; [exact W|exact St| |]; unfold mlen; simpl; rewrite !upd_length; apply W.
      * intros j Hj. simpl. rewrite !nth_upd_neq by congruence. auto.
      * intros _. right. simpl. unfold mlen in Hi.
        rewrite !nth_upd_eq; auto. rewrite (wf_ackd m W). exact Hi.
    + assert (St : stable m (mkM (mM m) (upd (votes m) i (S (nth i (votes m) 0)))
                                 (term m) (ackd m) (mrel m))).
      { unfold stable, mlen; simpl. auto. }
      split; [|split; [exact St|split]].
      * eapply wf_stable; [exact W|exact St| |]; unfold mlen; simpl; rewrite ?upd_length; apply W.
      * intros j Hj. simpl. rewrite !nth_upd_neq by congruence. auto.
      * intros _. left. simpl. split; [exact Et|].
        apply nth_upd_eq. rewrite (wf_votes m W). exact Hi.
Qed.

Lemma tally_nack1_spec m i : wf m -> i < mlen m ->
  let m' := tally_nack1 m i in
  wf m' /\ stable m m' /\ votes m' = votes m /\
  (forall j, j <> i -> nth j (term m') false = nth j (term m) false /\
                       nth j (ackd m') false = nth j (ackd m) false) /\
  nth i (term m') false = true /\
  (nth i (term m) false = false -> nth i (ackd m') false = false).
Proof.
  intros W Hi. unfold tally_nack1.
  destruct (nth i (term m) false) eqn:Et.
  - simpl. split; [exact W|]. split; [apply stable_refl|]. repeat split; auto. discriminate.
  - cbn zeta.
    assert (St : stable m (mkM (mM m) (votes m) (upd (term m) i true) (upd (ackd m) i false) (mrel m))).
    { unfold stable, mlen; simpl. rewrite upd_length. repeat split; auto;
      destruct (Nat.eq_dec i i0) as [->|Hne]; try congruence;
      rewrite nth_upd_neq by exact Hne; auto. }
    split; [|split; [exact St|split; [reflexivity|split; [|split]]]].
    + eapply wf_stable; [exact W|exact St| |]; unfold mlen; simpl; rewrite ?upd_length; apply W.
    + intros j Hj. simpl. rewrite !nth_upd_neq by congruence. auto.
    + simpl. apply nth_upd_eq. exact Hi.
    + intros _. simpl. apply nth_upd_eq. rewrite (wf_ackd m W). exact Hi.
Qed.

(* ---------- the tally loop ---------- *)
Definition cnt (l : list nat) (i : nat) : nat := count_occ Nat.eq_dec l i.

Lemma tally_ack_spec : forall idxs m m' ok, wf m -> tally true m idxs = (m', ok) ->
  wf m' /\ stable m m' /\
  forall i, nth i (term m) false = false ->
    (nth i (term m') false = false /\ nth i (votes m') 0 <= nth i (votes m) 0 + cnt idxs i) \/
    (nth i (term m') false = true /\ nth i (ackd m') false = true /\
     mM m <= nth i (votes m) 0 + cnt idxs i).
Proof.
  induction idxs as [|a idxs IH]; intros m m' ok W H.
  - simpl in H. injection H as <- <-. split; [exact W|]. split; [apply stable_refl|].
    intros i Hi. left. split; [exact Hi|lia].
  - simpl in H. destruct (a <? mlen m) eqn:Ea.
    + apply Nat.ltb_lt in Ea.
      destruct (tally_ack1_spec m a W Ea) as (W1 & S1 & Hoth & Hat).
      destruct (IH _ _ _ W1 H) as (W2 & S2 & Hrest).
      split; [exact W2|]. split; [eapply stable_trans; eassumption|].
      intros i Hi. unfold cnt. simpl count_occ.
      destruct (Nat.eq_dec a i) as [->|Hne].
      * destruct (Hat Hi) as [[Ht Hv]|[Ht [Ha Hv]]].
        -- destruct (Hrest i Ht) as [[Ht2 Hv2]|[Ht2 [Ha2 Hv2]]]; [left|right]; repeat split; auto.
           ++ unfold cnt in Hv2. lia.
           ++ destruct S1 as (HM & _). unfold cnt in Hv2. rewrite HM in Hv2. lia.
        -- destruct S2 as (_ & _ & _ & S2). destruct (S2 i Ht) as [Ht2 Ha2].
           right. repeat split; auto; [congruence|lia].
      * destruct (Hoth i ltac:(congruence)) as (Ht1 & Ha1 & Hv1).
        rewrite <- Ht1 in Hi.
        destruct (Hrest i Hi) as [[Ht2 Hv2]|[Ht2 [Ha2 Hv2]]]; [left|right]; repeat split; auto.
        -- unfold cnt in Hv2. lia.
        -- destruct S1 as (HM & _). unfold cnt in Hv2. rewrite HM in Hv2. lia.
    + injection H as <- <-. split; [exact W|]. split; [apply stable_refl|].
      intros i Hi. left. split; [exact Hi|lia].
Qed.

Lemma tally_nack_spec : forall idxs m m' ok, wf m -> tally false m idxs = (m', ok) ->
  wf m' /\ stable m m' /\
  (forall i, nth i (term m) false = false ->
    (nth i (term m') false = false /\ nth i (votes m') 0 = nth i (votes m) 0) \/
    (nth i (term m') false = true /\ nth i (ackd m') false = false /\ 1 <= cnt idxs i)).
Proof.
  induction idxs as [|a idxs IH]; intros m m' ok W H.
  - simpl in H. injection H as <- <-. split; [exact W|]. split; [apply stable_refl|].
    intros i Hi. left. auto.
  - simpl in H. destruct (a <? mlen m) eqn:Ea.
    + apply Nat.ltb_lt in Ea.
      destruct (tally_nack1_spec m a W Ea) as (W1 & S1 & Hv1 & Hoth & Hat & Haa).
      destruct (IH _ _ _ W1 H) as (W2 & S2 & Hrest).
      split; [exact W2|]. split; [eapply stable_trans; eassumption|].
      intros i Hi. unfold cnt. simpl count_occ.
      destruct (Nat.eq_dec a i) as [->|Hne].
      * destruct S2 as (_ & _ & _ & S2). destruct (S2 i Hat) as [Ht2 Ha2].
        right. repeat split; auto; [rewrite Ha2; apply Haa, Hi|lia].
      * destruct (Hoth i ltac:(congruence)) as (Ht1 & Ha1).
        rewrite <- Ht1 in Hi.
        destruct (Hrest i Hi) as [[Ht2 Hv2]|[Ht2 [Ha2 Hv2]]]; [left|right]; repeat split; auto.
        congruence.
    + injection H as <- <-. split; [exact W|]. split; [apply stable_refl|].
      intros i Hi. left. auto.
Qed.

(* ---------- releaseLocked ---------- *)
Lemma ack_run_spec : forall tl al, 
  ack_run tl al <= length tl /\
  forall j, j < ack_run tl al -> nth j tl false = true /\ nth j al false = true.
Proof.
  induction tl as [|t tl IH]; intros al; simpl; [split; [lia|intros j Hj; lia]|].
  destruct t; [|split; [lia|intros j Hj; lia]].
  destruct al as [|a al]; [split; [lia|intros j Hj; lia]|].
  destruct a; [|split; [lia|intros j Hj; lia]].
  destruct (IH al) as [Hl Hn]. split; [simpl; lia|].
  intros [|j] Hj; simpl; auto. apply Hn. lia.
Qed.

Lemma nth_skipn {A} (l : list A) k j d : nth j (skipn k l) d = nth (k + j) l d.
Proof.
  revert l; induction k as [|k IH]; intros l; [reflexivity|].
  destruct l as [|a l]; simpl; [destruct j; reflexivity|apply IH].
Qed.

(* what a list of parent calls claims about the tally *)
Definition call_ok (m : mstate) (c : pcall) : Prop :=
  match c with
  | PAck a b => a < b /\ forall i, a <= i < b -> nth i (term m) false = true /\ nth i (ackd m) false = true
  | PNack i => nth i (term m) false = true /\ nth i (ackd m) false = false
  | PNackFail i => nth i (term m) false = true /\ nth i (ackd m) false = false
  end.

Lemma next_release_spec m c : wf m -> next_release m = Some c ->
  call_ok m c /\
  match c with
  | PAck a b => a = mrel m /\ b <= mlen m
  | PNack i => i = mrel m /\ i < mlen m
  | PNackFail _ => False
  end.
Proof.
  intros W H. unfold next_release in H.
  destruct (mrel m <? mlen m) eqn:E1; [|discriminate]. apply Nat.ltb_lt in E1.
  destruct (nth (mrel m) (term m) false) eqn:E2; [|discriminate].
  destruct (nth (mrel m) (ackd m) false) eqn:E3; injection H as <-.
  - destruct (ack_run_spec (skipn (mrel m) (term m)) (skipn (mrel m) (ackd m))) as [Hl Hn].
    rewrite skipn_length in Hl. fold (mlen m) in Hl.
    set (r := ack_run _ _) in *.
    assert (Hr : 1 <= r).
    { unfold r. rewrite <- (firstn_skipn 0 (skipn (mrel m) (term m))) at 1. simpl firstn. simpl app.
      destruct (skipn (mrel m) (term m)) as [|t tl] eqn:Es.
      - apply (f_equal (@length bool)) in Es. rewrite skipn_length in Es. simpl in Es.
        unfold mlen in E1. lia.
      - pose proof (nth_skipn (term m) (mrel m) 0 false) as H0. rewrite Es in H0. simpl in H0.
        rewrite Nat.add_0_r, E2 in H0. subst t.
        destruct (skipn (mrel m) (ackd m)) as [|a al] eqn:Ea.
        + apply (f_equal (@length bool)) in Ea. rewrite skipn_length in Ea. simpl in Ea.
          rewrite (wf_ackd m W) in Ea. lia.
        + pose proof (nth_skipn (ackd m) (mrel m) 0 false) as H1. rewrite Ea in H1. simpl in H1.
          rewrite Nat.add_0_r, E3 in H1. subst a. simpl. lia. }
    split; [split; [lia|]|split; [reflexivity|lia]].
    intros i Hi. destruct (Hn (i - mrel m) ltac:(lia)) as [H1 H2].
    rewrite nth_skipn in H1, H2. replace (mrel m + (i - mrel m)) with i in * by lia. auto.
  - split; [split; assumption|split; [reflexivity|exact E1]].
Qed.

Lemma set_rel_same m r : term (set_rel m r) = term m /\ ackd (set_rel m r) = ackd m /\
  votes (set_rel m r) = votes m /\ mM (set_rel m r) = mM m /\ mrel (set_rel m r) = r.
Proof. unfold set_rel. simpl. auto. Qed.

Lemma release_spec : forall fuel m oracle m' o, wf m -> release fuel m oracle = (m', o) ->
  wf m' /\ term m' = term m /\ ackd m' = ackd m /\ votes m' = votes m /\ mM m' = mM m /\
  mrel m <= mrel m' /\
  covered o = seq (mrel m) (mrel m' - mrel m) /\
  Forall (call_ok m) o.
Proof.
  induction fuel as [|f IH]; intros m oracle m' o W H.
  - simpl in H. injection H as <- <-. split; [exact W|].
    repeat split; auto; rewrite Nat.sub_diag; reflexivity.
  - simpl in H. destruct (next_release m) as [c|] eqn:En.
    2:{ injection H as <- <-. split; [exact W|].
        repeat split; auto; rewrite Nat.sub_diag; reflexivity. }
    destruct (next_release_spec m c W En) as [Hok Hc].
    destruct c as [a b|i|i]; [| |contradiction].
    + destruct Hc as [-> Hb]. destruct Hok as [Hab Hall].
      assert (W1 : wf (set_rel m b)).
      { constructor; unfold mlen; simpl; try apply W; auto.
        intros i Hi. destruct (lt_dec i (mrel m)); [apply W; auto|apply Hall; lia]. }
      destruct (release f (set_rel m b) oracle) as [m1 o1] eqn:Er.
      injection H as <- <-.
      destruct (IH _ _ _ _ W1 Er) as (W2 & T & A & Vv & MM & Hle & Hcov & Hfa).
      simpl in *. split; [exact W2|]. repeat split; auto; try lia;
        try (constructor; [split; assumption|exact Hfa]).
      rewrite Hcov. replace (mrel m1 - mrel m) with ((b - mrel m) + (mrel m1 - b)) by lia.
      rewrite seq_app. f_equal. f_equal. lia.
    + destruct Hc as [-> Hi].
      destruct oracle as [|[|] oracle'].
      * assert (W1 : wf (set_rel m (S (mrel m)))).
        { constructor; unfold mlen; simpl; try apply W; auto.
          intros j Hj. destruct (lt_dec j (mrel m)); [apply W; auto|].
          replace j with (mrel m) by lia. apply Hok. }
        destruct (release f (set_rel m (S (mrel m))) (tl [])) as [m1 o1] eqn:Er.
        injection H as <- <-.
        destruct (IH _ _ _ _ W1 Er) as (W2 & T & A & Vv & MM & Hle & Hcov & Hfa).
        simpl in *. split; [exact W2|]. repeat split; auto; try lia;
          try (constructor; [exact Hok|exact Hfa]).
        rewrite Hcov. replace (mrel m1 - mrel m) with (S (mrel m1 - S (mrel m))) by lia.
        reflexivity.
      * assert (W1 : wf (set_rel m (S (mrel m)))).
        { constructor; unfold mlen; simpl; try apply W; auto.
          intros j Hj. destruct (lt_dec j (mrel m)); [apply W; auto|].
          replace j with (mrel m) by lia. apply Hok. }
        destruct (release f (set_rel m (S (mrel m))) (tl (true :: oracle'))) as [m1 o1] eqn:Er.
        injection H as <- <-.
        destruct (IH _ _ _ _ W1 Er) as (W2 & T & A & Vv & MM & Hle & Hcov & Hfa).
        simpl in *. split; [exact W2|]. repeat split; auto; try lia;
          try (constructor; [exact Hok|exact Hfa]).
        rewrite Hcov. replace (mrel m1 - mrel m) with (S (mrel m1 - S (mrel m))) by lia.
        reflexivity.
      * injection H as <- <-. split; [exact W|]. repeat split; auto;
          try (rewrite Nat.sub_diag; reflexivity); try (constructor; [exact Hok|constructor]).
Qed.

(* ---------- the invariant linking the tally to the votes processed so far ---------- *)
Definition acount (i : nat) (vs : list vote) : nat := length (votes_for true i vs).
Definition ncount (i : nat) (vs : list vote) : nat := length (votes_for false i vs).

Lemma votes_for_app b i vs1 vs2 : votes_for b i (vs1 ++ vs2) = votes_for b i vs1 ++ votes_for b i vs2.
Proof. apply flat_map_app. Qed.

Lemma acount_snoc i vs v :
  acount i (vs ++ [v]) = acount i vs + (if vack v then cnt (vidx v) i else 0).
Proof.
  unfold acount. rewrite votes_for_app, app_length. f_equal. simpl. rewrite app_nil_r.
  destruct (vack v); simpl; [apply repeat_length|reflexivity].
Qed.

Lemma ncount_snoc i vs v :
  ncount i (vs ++ [v]) = ncount i vs + (if vack v then 0 else cnt (vidx v) i).
Proof.
  unfold ncount. rewrite votes_for_app, app_length. f_equal. simpl. rewrite app_nil_r.
  destruct (vack v); simpl; [reflexivity|apply repeat_length].
Qed.

Record J (vs : list vote) (m : mstate) (o : list pcall) : Prop := {
  J_wf : wf m;
  J_open : forall i, nth i (term m) false = false -> nth i (votes m) 0 <= acount i vs;
  J_ack : forall i, nth i (term m) false = true -> nth i (ackd m) false = true ->
                    mM m <= acount i vs;
  J_nack : forall i, nth i (term m) false = true -> nth i (ackd m) false = false ->
                     1 <= ncount i vs;
  J_cov : covered o = seq 0 (mrel m);
  J_calls : Forall (call_ok m) o
}.

Lemma J_init M n : J [] (minit M n) [].
Proof.
  constructor; simpl; auto using wf_minit.
  - intros i _. rewrite nth_repeat. lia.
  - intros i H. rewrite nth_repeat in H. discriminate.
  - intros i H. rewrite nth_repeat in H. discriminate.
Qed.

Lemma call_ok_stable m m' c : stable m m' -> call_ok m c -> call_ok m' c.
Proof.
  intros (_ & _ & _ & S) H. destruct c as [a b|i|i]; simpl in *.
  - destruct H as [Hab H]. split; [exact Hab|]. intros i Hi. destruct (H i Hi) as [T A].
    destruct (S i T) as [T' A']. split; congruence.
  - destruct H as [T A]. destruct (S i T) as [T' A']. split; congruence.
  - destruct H as [T A]. destruct (S i T) as [T' A']. split; congruence.
Qed.

Lemma call_ok_same m m' c : term m' = term m -> ackd m' = ackd m -> call_ok m c -> call_ok m' c.
Proof. intros T A. destruct c; simpl; rewrite T, A; auto. Qed.

Lemma covered_app o1 o2 : covered (o1 ++ o2) = covered o1 ++ covered o2.
Proof. apply flat_map_app. Qed.

Lemma stable_open m m' i : stable m m' -> nth i (term m') false = false -> nth i (term m) false = false.
Proof.
  intros (_ & _ & _ & S) H. destruct (nth i (term m) false) eqn:E; [|reflexivity].
  destruct (S i E) as [T _]. congruence.
Qed.

Lemma J_step vs m o v m' o' : J vs m o -> mstep m v = (m', o') -> J (vs ++ [v]) m' (o ++ o').
Proof.
  intros [W Jo Ja Jn Jc Jk] H. unfold mstep in H.
  destruct (tally (vack v) m (vidx v)) as [m1 ok] eqn:Et.
  (* facts about the tally phase, for either kind of vote *)
  assert (P1 : wf m1 /\ stable m m1 /\
    (forall i, nth i (term m1) false = false -> nth i (votes m1) 0 <= acount i (vs ++ [v])) /\
    (forall i, nth i (term m1) false = true -> nth i (ackd m1) false = true ->
               mM m1 <= acount i (vs ++ [v])) /\
    (forall i, nth i (term m1) false = true -> nth i (ackd m1) false = false ->
               1 <= ncount i (vs ++ [v]))).
  { destruct (vack v) eqn:Ev.
    - destruct (tally_ack_spec _ _ _ _ W Et) as (W1 & S1 & Hs).
      split; [exact W1|]. split; [exact S1|]. pose proof S1 as (HM & _ & _ & S1').
      repeat split.
      + intros i Hi. rewrite acount_snoc, Ev. pose proof (stable_open _ _ _ S1 Hi) as Hi0.
        destruct (Hs i Hi0) as [[_ Hv]|[Ht _]]; [|congruence].
        specialize (Jo i Hi0). lia.
      + intros i Ht Ha. rewrite acount_snoc, Ev, HM.
        destruct (nth i (term m) false) eqn:E0.
        * destruct (S1' i E0) as [_ A']. specialize (Ja i E0 ltac:(congruence)). lia.
        * destruct (Hs i E0) as [[Ht' _]|[_ [_ Hv]]]; [congruence|].
          specialize (Jo i E0). lia.
      + intros i Ht Ha. rewrite ncount_snoc, Ev.
        destruct (nth i (term m) false) eqn:E0.
        * destruct (S1' i E0) as [_ A']. specialize (Jn i E0 ltac:(congruence)). lia.
        * destruct (Hs i E0) as [[Ht' _]|[_ [Ha' _]]]; congruence.
    - destruct (tally_nack_spec _ _ _ _ W Et) as (W1 & S1 & Hs).
      split; [exact W1|]. split; [exact S1|]. pose proof S1 as (HM & _ & _ & S1').
      repeat split.
      + intros i Hi. rewrite acount_snoc, Ev. pose proof (stable_open _ _ _ S1 Hi) as Hi0.
        destruct (Hs i Hi0) as [[_ Hv]|[Ht _]]; [|congruence].
        specialize (Jo i Hi0). lia.
      + intros i Ht Ha. rewrite acount_snoc, Ev, HM.
        destruct (nth i (term m) false) eqn:E0.
        * destruct (S1' i E0) as [_ A']. specialize (Ja i E0 ltac:(congruence)). lia.
        * destruct (Hs i E0) as [[Ht' _]|[_ [Ha' _]]]; congruence.
      + intros i Ht Ha. rewrite ncount_snoc, Ev.
        destruct (nth i (term m) false) eqn:E0.
        * destruct (S1' i E0) as [_ A']. specialize (Jn i E0 ltac:(congruence)). lia.
        * destruct (Hs i E0) as [[Ht' _]|[_ [_ Hc]]]; [congruence|lia]. }
  destruct P1 as (W1 & S1 & Po & Pa & Pn).
  assert (Hk1 : Forall (call_ok m1) o).
  { eapply Forall_impl; [|exact Jk]. intros c. apply call_ok_stable, S1. }
  destruct ok.
  - destruct (release_spec _ _ _ _ _ W1 H) as (W2 & T & A & Vv & MM & Hle & Hcov & Hfa).
    constructor; auto.
    + intros i. rewrite T, Vv. apply Po.
    + intros i. rewrite T, A, MM. apply Pa.
    + intros i. rewrite T, A. apply Pn.
    + rewrite covered_app, Jc, Hcov. destruct S1 as (_ & _ & R & _). rewrite R.
      replace (mrel m') with (mrel m + (mrel m' - mrel m)) at 2 by lia.
      rewrite seq_app. reflexivity.
    + apply Forall_app. split; (eapply Forall_impl; [|eassumption]);
        intros c; apply call_ok_same; assumption.
  - injection H as <- <-. rewrite app_nil_r. constructor; auto.
    destruct S1 as (_ & _ & R & _). rewrite R. exact Jc.
Qed.

Lemma J_run : forall vs vs0 m o0 m' o, J vs0 m o0 -> mrun m vs = (m', o) -> J (vs0 ++ vs) m' (o0 ++ o).
Proof.
  induction vs as [|v vs IH]; intros vs0 m o0 m' o HJ H.
  - simpl in H. injection H as <- <-. rewrite !app_nil_r. exact HJ.
  - simpl in H. destruct (mstep m v) as [m1 o1] eqn:E1. destruct (mrun m1 vs) as [m2 o2] eqn:E2.
    injection H as <- <-.
    replace (vs0 ++ v :: vs) with ((vs0 ++ [v]) ++ vs) by (rewrite <- app_assoc; reflexivity).
    rewrite app_assoc. eapply IH; [|exact E2]. eapply J_step; eassumption.
Qed.

Lemma J_of_run M n vs m o : mrun (minit M n) vs = (m, o) -> J vs m o.
Proof. intros H. apply (J_run vs [] _ [] _ _ (J_init M n) H). Qed.

Lemma step_mM m v m' o : wf m -> mstep m v = (m', o) -> wf m' /\ mM m' = mM m /\ mrel m <= mrel m'.
Proof.
  intros W H. unfold mstep in H. destruct (tally (vack v) m (vidx v)) as [m1 ok] eqn:Et.
  assert (P : wf m1 /\ stable m m1).
  { destruct (vack v).
    - destruct (tally_ack_spec _ _ _ _ W Et) as (W1 & S1 & _). auto.
    - destruct (tally_nack_spec _ _ _ _ W Et) as (W1 & S1 & _). auto. }
  destruct P as [W1 (HM & _ & HR & _)].
  destruct ok.
  - destruct (release_spec _ _ _ _ _ W1 H) as (W2 & _ & _ & _ & MM & Hle & _).
    split; [exact W2|]. split; [congruence|lia].
  - injection H as <- _. split; [exact W1|]. split; [exact HM|lia].
Qed.

Lemma run_mM : forall vs m m' o, wf m -> mrun m vs = (m', o) -> wf m' /\ mM m' = mM m /\ mrel m <= mrel m'.
Proof.
  induction vs as [|v vs IH]; intros m m' o W H; simpl in H.
  - injection H as <- _. auto.
  - destruct (mstep m v) as [m1 o1] eqn:E1. destruct (mrun m1 vs) as [m2 o2] eqn:E2.
    injection H as <- _. destruct (step_mM _ _ _ _ W E1) as (W1 & M1 & R1).
    destruct (IH _ _ _ W1 E2) as (W2 & M2 & R2). split; [exact W2|]. split; [congruence|lia].
Qed.

(* ---------- the three theorems ---------- *)

(* released only grows, never passes a non-terminal slot, and the successful parent calls
   cover exactly the released prefix, in order, each position once *)
Theorem multi_release_prefix M n vs m o :
  mrun (minit M n) vs = (m, o) ->
  mrel m <= n /\
  (forall i, i < mrel m -> nth i (term m) false = true) /\
  covered o = seq 0 (mrel m) /\
  (forall vs1 vs2 m1 o1, vs = vs1 ++ vs2 -> mrun (minit M n) vs1 = (m1, o1) -> mrel m1 <= mrel m).
Proof.
  intros H. pose proof (J_of_run _ _ _ _ _ H) as [W _ _ _ Jc _].
  assert (Hn : mlen m = n).
  { destruct (run_mM _ _ _ _ (wf_minit M n) H) as (_ & _ & _).
    clear Jc. revert H. generalize (wf_minit M n).
    assert (G : forall vs m0 m o, wf m0 -> mrun m0 vs = (m, o) -> mlen m = mlen m0).
    { clear. induction vs as [|v vs IH]; intros m0 m o W H; simpl in H.
      - injection H as <- _. reflexivity.
      - destruct (mstep m0 v) as [m1 o1] eqn:E1. destruct (mrun m1 vs) as [m2 o2] eqn:E2.
        injection H as <- _. destruct (step_mM _ _ _ _ W E1) as (W1 & _ & _).
        rewrite (IH _ _ _ W1 E2).
        unfold mstep in E1. destruct (tally (vack v) m0 (vidx v)) as [mt ok] eqn:Et.
        assert (P : wf mt /\ stable m0 mt).
        { destruct (vack v).
          - destruct (tally_ack_spec _ _ _ _ W Et) as (Wt & St & _). auto.
          - destruct (tally_nack_spec _ _ _ _ W Et) as (Wt & St & _). auto. }
        destruct P as [Wt (_ & HL & _)]. destruct ok.
        + destruct (release_spec _ _ _ _ _ Wt E1) as (_ & T & _). unfold mlen. rewrite T. exact HL.
        + injection E1 as <- _. exact HL. }
    intros W0 H0. rewrite (G _ _ _ _ W0 H0). unfold mlen. simpl. apply repeat_length. }
  split; [rewrite <- Hn; apply W|]. split; [apply W|]. split; [exact Jc|].
  intros vs1 vs2 m1 o1 -> H1.
  assert (G : forall vs m0 vs' , forall ma oa mb ob, mrun m0 vs = (ma, oa) -> mrun m0 (vs ++ vs') = (mb, ob) ->
              exists oc, mrun ma vs' = (mb, oc)).
  { clear. induction vs as [|v vs IH]; intros m0 vs' ma oa mb ob Ha Hb; simpl in *.
    - injection Ha as <- _. eauto.
    - destruct (mstep m0 v) as [mx ox]. destruct (mrun mx vs) as [my oy] eqn:Ey.
      destruct (mrun mx (vs ++ vs')) as [mz oz] eqn:Ez.
      injection Ha as <- _. injection Hb as <- _. eapply IH; eassumption. }
  destruct (G _ _ _ _ _ _ _ H1 H) as [oc Hc].
  destruct (run_mM _ _ _ _ (wf_minit M n) H1) as (W1 & _ & _).
  destruct (run_mM _ _ _ _ W1 Hc) as (_ & _ & R). exact R.
Qed.

(* a position is handed to parent.Ack only after ack votes from M branches *)
Theorem multi_unanimous_count M n vs m o a b i :
  mrun (minit M n) vs = (m, o) -> In (PAck a b) o -> a <= i < b -> M <= acount i vs.
Proof.
  intros H Hin Hi. pose proof (J_of_run _ _ _ _ _ H) as [W _ Ja _ _ Jk].
  rewrite Forall_forall in Jk. specialize (Jk _ Hin). simpl in Jk. destruct Jk as [_ Jk].
  destruct (Jk i Hi) as [T A]. specialize (Ja i T A).
  destruct (run_mM _ _ _ _ (wf_minit M n) H) as (_ & HM & _). simpl in HM. lia.
Qed.

Lemma NoDup_app_l {A} (l1 l2 : list A) : NoDup (l1 ++ l2) -> NoDup l1.
Proof.
  induction l1 as [|a l1 IH]; intros H; [constructor|].
  inversion H as [|? ? Hni Hnd]; subst. constructor; [|apply IH, Hnd].
  intros Hin. apply Hni. apply in_or_app. left. exact Hin.
Qed.

(* ... hence, branches voting at most once per position, from EVERY branch *)
Theorem multi_unanimous M n vs m o a b i :
  votes_once M vs ->
  mrun (minit M n) vs = (m, o) -> In (PAck a b) o -> a <= i < b ->
  forall br, br < M -> In br (votes_for true i vs).
Proof.
  intros Hon H Hin Hi br Hbr.
  pose proof (multi_unanimous_count _ _ _ _ _ _ _ _ H Hin Hi) as Hc. unfold acount in Hc.
  destruct (Hon i) as [Hnd Hlt].
  assert (Hnd1 : NoDup (votes_for true i vs)) by (eapply NoDup_app_l; exact Hnd).
  assert (Hincl : incl (votes_for true i vs) (seq 0 M)).
  { intros x Hx. apply in_seq. split; [lia|]. simpl. apply Hlt. apply in_or_app. left. exact Hx. }
  assert (Hrev : incl (seq 0 M) (votes_for true i vs)).
  { apply NoDup_length_incl; [exact Hnd1| rewrite seq_length; exact Hc|exact Hincl]. }
  apply Hrev. apply in_seq. lia.
Qed.

(* nack wins, exactly once: a position some branch nacked is never handed to parent.Ack, and
   parent.Nack succeeds for it at most once - exactly once as soon as it is released *)
Theorem multi_nack_wins_once M n vs m o i :
  votes_once M vs ->
  mrun (minit M n) vs = (m, o) -> 1 <= ncount i vs ->
  (forall a b, In (PAck a b) o -> ~ (a <= i < b)) /\
  count_occ Nat.eq_dec (covered o) i <= 1 /\
  (i < mrel m -> In (PNack i) o).
Proof.
  intros Hon H Hn.
  assert (Hno : forall a b, In (PAck a b) o -> ~ (a <= i < b)).
  { intros a b Hin Hi.
    pose proof (multi_unanimous_count _ _ _ _ _ _ _ _ H Hin Hi) as Hc. unfold acount in Hc.
    unfold ncount in Hn. destruct (Hon i) as [Hnd Hlt].
    assert (Hincl : incl (votes_for true i vs ++ votes_for false i vs) (seq 0 M)).
    { intros x Hx. apply in_seq. split; [lia|]. simpl. apply Hlt, Hx. }
    pose proof (NoDup_incl_length Hnd Hincl) as Hlen.
    rewrite app_length, seq_length in Hlen. lia. }
  pose proof (J_of_run _ _ _ _ _ H) as [W _ _ _ Jc _].
  split; [exact Hno|]. split.
  - rewrite Jc. destruct (le_lt_dec (mrel m) i) as [Hge|Hlt].
    + rewrite (proj1 (count_occ_not_In Nat.eq_dec _ _)); [lia|]. rewrite in_seq. lia.
    + pose proof (seq_NoDup (mrel m) 0) as Hnd.
      rewrite (NoDup_count_occ Nat.eq_dec) in Hnd. apply Hnd.
  - intros Hlt.
    assert (Hin : In i (covered o)) by (rewrite Jc; apply in_seq; lia).
    unfold covered in Hin. apply in_flat_map in Hin. destruct Hin as [c [Hc Hic]].
    destruct c as [a b|j|j]; simpl in Hic.
    + exfalso. apply in_seq in Hic. apply (Hno a b Hc). lia.
    + destruct Hic as [->|[]]. exact Hc.
    + contradiction.
Qed.

(* ---------- pieces reused by the composed system (SysV2) ---------- *)

(* the tally part of the invariant, without the outputs *)
Record Tally (vs : list vote) (m : mstate) : Prop := {
  T_wf : wf m;
  T_open : forall i, nth i (term m) false = false -> nth i (votes m) 0 <= acount i vs;
  T_ack : forall i, nth i (term m) false = true -> nth i (ackd m) false = true -> mM m <= acount i vs;
  T_nack : forall i, nth i (term m) false = true -> nth i (ackd m) false = false -> 1 <= ncount i vs
}.

Lemma Tally_init M n : Tally [] (minit M n).
Proof.
  constructor; simpl; auto using wf_minit.
  - intros i _. rewrite nth_repeat. lia.
  - intros i H. rewrite nth_repeat in H. discriminate.
  - intros i H. rewrite nth_repeat in H. discriminate.
Qed.

Lemma Tally_tally vs m v m1 ok :
  Tally vs m -> tally (vack v) m (vidx v) = (m1, ok) -> Tally (vs ++ [v]) m1 /\ stable m m1.
Proof.
  intros [W Jo Ja Jn] Et.
  destruct (vack v) eqn:Ev.
  - destruct (tally_ack_spec _ _ _ _ W Et) as (W1 & S1 & Hs).
    split; [|exact S1]. pose proof S1 as (HM & _ & _ & S1').
    constructor; [exact W1| | |].
    + intros i Hi. rewrite acount_snoc, Ev. pose proof (stable_open _ _ _ S1 Hi) as Hi0.
      destruct (Hs i Hi0) as [[_ Hv]|[Ht _]]; [|congruence].
      specialize (Jo i Hi0). lia.
    + intros i Ht Ha. rewrite acount_snoc, Ev, HM.
      destruct (nth i (term m) false) eqn:E0.
      * destruct (S1' i E0) as [_ A']. specialize (Ja i E0 ltac:(congruence)). lia.
      * destruct (Hs i E0) as [[Ht' _]|[_ [_ Hv]]]; [congruence|].
        specialize (Jo i E0). lia.
    + intros i Ht Ha. rewrite ncount_snoc, Ev.
      destruct (nth i (term m) false) eqn:E0.
      * destruct (S1' i E0) as [_ A']. specialize (Jn i E0 ltac:(congruence)). lia.
      * destruct (Hs i E0) as [[Ht' _]|[_ [Ha' _]]]; congruence.
  - destruct (tally_nack_spec _ _ _ _ W Et) as (W1 & S1 & Hs).
    split; [|exact S1]. pose proof S1 as (HM & _ & _ & S1').
    constructor; [exact W1| | |].
    + intros i Hi. rewrite acount_snoc, Ev. pose proof (stable_open _ _ _ S1 Hi) as Hi0.
      destruct (Hs i Hi0) as [[_ Hv]|[Ht _]]; [|congruence].
      specialize (Jo i Hi0). lia.
    + intros i Ht Ha. rewrite acount_snoc, Ev, HM.
      destruct (nth i (term m) false) eqn:E0.
      * destruct (S1' i E0) as [_ A']. specialize (Ja i E0 ltac:(congruence)). lia.
      * destruct (Hs i E0) as [[Ht' _]|[_ [Ha' _]]]; congruence.
    + intros i Ht Ha. rewrite ncount_snoc, Ev.
      destruct (nth i (term m) false) eqn:E0.
      * destruct (S1' i E0) as [_ A']. specialize (Jn i E0 ltac:(congruence)). lia.
      * destruct (Hs i E0) as [[Ht' _]|[_ [_ Hc]]]; [congruence|lia].
Qed.

Lemma Tally_set_rel vs m r : Tally vs m -> wf (set_rel m r) -> Tally vs (set_rel m r).
Proof. intros [W Jo Ja Jn] W'. constructor; simpl; auto. Qed.

(* all votes cast for a position, of either kind, in order *)
Definition all_votes (i : nat) (vs : list vote) : list nat :=
  flat_map (fun v => repeat (vb v) (cnt (vidx v) i)) vs.

Lemma all_votes_perm i vs :
  Permutation (all_votes i vs) (votes_for true i vs ++ votes_for false i vs).
Proof.
  induction vs as [|v vs IH]; [constructor|].
  unfold all_votes, votes_for in *. simpl. fold (cnt (vidx v) i).
  destruct (vack v); simpl.
  - rewrite <- app_assoc. apply Permutation_app_head, IH.
  - eapply Permutation_trans; [apply Permutation_app_head, IH|].
    apply Permutation_app_swap_app.
Qed.

Lemma votes_once_of_all M vs :
  (forall i, NoDup (all_votes i vs) /\ forall b, In b (all_votes i vs) -> b < M) -> votes_once M vs.
Proof.
  intros H i. destruct (H i) as [Hnd Hlt]. split.
  - eapply Permutation_NoDup; [apply all_votes_perm|exact Hnd].
  - intros b Hb. apply Hlt. eapply Permutation_in; [|exact Hb].
    apply Permutation_sym, all_votes_perm.
Qed.

Lemma unanimous_of_count M vs i :
  votes_once M vs -> M <= acount i vs -> forall br, br < M -> In br (votes_for true i vs).
Proof.
  intros Hon Hc br Hbr. unfold acount in Hc. destruct (Hon i) as [Hnd Hlt].
  assert (Hnd1 : NoDup (votes_for true i vs)) by (eapply NoDup_app_l; exact Hnd).
  assert (Hincl : incl (votes_for true i vs) (seq 0 M)).
  { intros x Hx. apply in_seq. split; [lia|]. simpl. apply Hlt. apply in_or_app. left. exact Hx. }
  assert (Hrev : incl (seq 0 M) (votes_for true i vs)).
  { apply NoDup_length_incl; [exact Hnd1| rewrite seq_length; exact Hc|exact Hincl]. }
  apply Hrev. apply in_seq. lia.
Qed.

Lemma votes_for_In b isack i vs :
  In b (votes_for isack i vs) -> exists v, In v vs /\ vack v = isack /\ vb v = b /\ In i (vidx v).
Proof.
  unfold votes_for. intros H. apply in_flat_map in H. destruct H as [v [Hv Hb]].
  destruct (Bool.eqb (vack v) isack) eqn:E; [|contradiction].
  apply eqb_prop in E. apply repeat_spec in Hb as Hb'. 
  exists v. repeat split; auto.
  destruct (count_occ Nat.eq_dec (vidx v) i) eqn:Ec; [contradiction|].
  apply (count_occ_In Nat.eq_dec). lia.
Qed.
