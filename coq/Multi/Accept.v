(* The executable acceptor of observed engine logs (code bit 0 of the case files).

   It is history based: every event is checked against quantities computed from the events
   before it.  It is STRICT about what the two mechanisms determine

     - a source is read in emission order; v2: a worker reads its next batch only when every
       record it read before has been released (one pass at a time per worker)
     - a record is handed to a destination only after it was read, per (destination, source)
       in strictly increasing emission order, never after a processor of that branch
       filtered it, nor after a processor before the fan-out filtered it - except in v1 with
       several destinations when Message.Clone drops the filtered flag ([filt_strict])
     - a destination confirms only what was written to it, once
     - dead-letter writes take their turn in the source's release order, once per record
       (v2: a failed DLQ write may be attempted again by a later vote)
     - Source.Ack is called for the contiguous run of positions that follows what was
       already acked, every one of them filtered, dead-lettered with confirmation, or
       confirmed by every destination; v1: one position per call, and never after the
       source acker's fail latch was set by a failed dead-letter write

   and PERMISSIVE about everything the code leaves to the scheduler (the relative order of
   events of different destinations / sources, ack batch boundaries of v2, how far sources
   read ahead in v1).                                                                         *)
From Verif Require Export Multi.Trace.

(* all functions below take the REVERSED prefix (newest event first) *)

Definition src_of (e : event) : nat :=
  match e with
  | Read s _ | Filt _ s _ | DestWrite _ s _ | DestConfirm _ s _ _
  | DlqWrite s _ | DlqConfirm s _ _ | EngineAck s _ => s
  end.

Definition nreads (s : nat) (pre : list event) : nat := length (reads_of s pre).
Definition nacked (s : nat) (pre : list event) : nat := length (acks_of s pre).

(* v2: the newest event of source s is a Read (the worker is still inside one Read call) *)
Definition inbatch (s : nat) (pre : list event) : bool :=
  match find (fun e => src_of e =? s) pre with
  | Some (Read _ _) => true
  | _ => false
  end.

Definition is_write (d s : nat) (e : event) : bool :=
  match e with DestWrite d' s' _ => (d =? d') && (s =? s') | _ => false end.
Definition is_write_k (d s k : nat) (e : event) : bool :=
  match e with DestWrite d' s' k' => (d =? d') && (s =? s') && (k =? k') | _ => false end.
Definition is_conf_any (d s k : nat) (e : event) : bool :=
  match e with DestConfirm d' s' k' _ => (d =? d') && (s =? s') && (k =? k') | _ => false end.

(* newest write of source s at destination d *)
Definition last_write (d s : nat) (pre : list event) : option nat :=
  match find (is_write d s) pre with
  | Some (DestWrite _ _ k) => Some k
  | _ => None
  end.

Inductive dlqst := DNone | DPending | DOk | DErr.

Definition is_dlq_ev (s k : nat) (e : event) : bool :=
  match e with
  | DlqWrite s' k' => (s =? s') && (k =? k')
  | DlqConfirm s' k' _ => (s =? s') && (k =? k')
  | _ => false
  end.

Definition dlq_state (s k : nat) (pre : list event) : dlqst :=
  match find (is_dlq_ev s k) pre with
  | Some (DlqWrite _ _) => DPending
  | Some (DlqConfirm _ _ true) => DOk
  | Some (DlqConfirm _ _ false) => DErr
  | _ => DNone
  end.

Definition dlq_touched (s k : nat) (pre : list event) : bool := existsb (is_dlq_ev s k) pre.

(* v1 SourceAckerNode.fail: set by the first handler that returned an error *)
Definition is_dlq_fail (s : nat) (e : event) : bool :=
  match e with DlqConfirm s' _ false => s =? s' | _ => false end.
Definition latch (s : nat) (pre : list event) : bool := existsb (is_dlq_fail s) pre.

Fixpoint nat_list_eqb (a b : list nat) : bool :=
  match a, b with
  | [], [] => true
  | x :: r, y :: q => (x =? y) && nat_list_eqb r q
  | _, _ => false
  end.

(* Is a record that was filtered BEFORE the fan-out kept away from the destinations?  v2: yes
   (Batch.ActiveRecords).  v1: the filtered flag travels on the Message; with one destination
   FanoutNode forwards the message itself (select1), with several it forwards msg.Clone() per
   branch, so it depends on whether Clone copies the flag (ckf). *)
Definition filt_strict (t : topo) : bool := v2 t || ckf t || (ndst t <=? 1).

Definition accept_ev (t : topo) (pre : list event) (e : event) : bool :=
  match e with
  | Read s k =>
      (s <? nsrc t) && (k =? nreads s pre) &&
      (if v2 t then inbatch s pre || (nacked s pre =? nreads s pre) else true)
  | Filt sc s k =>
      (s <? nsrc t) && (k <? nreads s pre) &&
      (match sc with Some d => d <? ndst t | None => nacked s pre <=? k end)
  | DestWrite d s k =>
      (d <? ndst t) && (s <? nsrc t) && (k <? nreads s pre) &&
      (match last_write d s pre with Some j => j <? k | None => true end) &&
      negb (existsb (is_filt (Some d) s k) pre) &&
      (if filt_strict t then negb (existsb (is_filt None s k) pre) else true)
  | DestConfirm d s k _ =>
      existsb (is_write_k d s k) pre && negb (existsb (is_conf_any d s k) pre)
  | DlqWrite s k =>
      (s <? nsrc t) && (k <? nreads s pre) && (nacked s pre <=? k) &&
      forallb (fun j => dlq_touched s j pre) (seq (nacked s pre) (k - nacked s pre)) &&
      (match dlq_state s k pre with DNone => true | DErr => v2 t | _ => false end) &&
      (if v2 t then true else negb (latch s pre))
  | DlqConfirm s k _ =>
      match dlq_state s k pre with DPending => true | _ => false end
  | EngineAck s ks =>
      (s <? nsrc t) && (1 <=? length ks) &&
      nat_list_eqb ks (seq (nacked s pre) (length ks)) &&
      (nacked s pre + length ks <=? nreads s pre) &&
      forallb (justified t pre s) ks &&
      (if v2 t then true else (length ks =? 1) && negb (latch s pre))
  end.

Fixpoint accepts_from (t : topo) (pre rest : list event) : bool :=
  match rest with
  | [] => true
  | e :: r => accept_ev t pre e && accepts_from t (e :: pre) r
  end.

Definition accepts (t : topo) (log : list event) : bool :=
  (1 <=? ndst t) && accepts_from t [] log.
