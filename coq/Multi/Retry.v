(* The tainted-batch loop of Worker.doTaskAttempt (pkg/lifecycle-poc/funnel/worker.go) WITH the
   retry protocol, as far as the ORDER in which records are released to the source depends on it.
   Definitions only; the theorems are in RetryProofs.v.

   SysV2.v takes as the atomicity of the linear path that Worker.Ack / Worker.Nack are called for
   "the next n records" of the source (ADAck / ADNackW start at wack).  That is a property of the
   loop modelled here: after Task.Do the batch is cut into maximal groups of one class
   (ack+filter | nack | retry, subBatchByFlag), the groups are handled left to right, and a RETRY
   group (the task answered short: fewer results than records - the unanswered tail - or left a
   nil result in the middle of its reply) is handed to the SAME task again AT THE CURSOR, before
   the loop looks at the next group.  Records behind a retry group may already be finished
   (filtered by an earlier task) or may still have to travel on (the reply had a hole).

   What is abstracted: the content of records, the destination / DLQ protocol (an oracle says how
   many leading records of a nacked group the DLQ confirmed), split records (C08's).  What is
   kept: the chain of T tasks, the flags each call leaves (any oracle, normalised the way
   ProcessorTask.Do does it: a filtered record is not shown to the task and stays filtered, a
   record the reply does not cover is Retry), the grouping, the recursion structure (next task /
   same task again), the bounded-retry bookkeeping (retryAttempt: count, size, stall) and the
   early return on the first error. *)
From Coq Require Export List Arith Bool Lia.
Export ListNotations.

Inductive rflag := RAck | RFilter | RNack | RRetry.

(* a record of a batch: emission index, filtered by an earlier task? *)
Definition brec := (nat * bool)%type.

(* one call of Worker.Ack (true) / Worker.Nack (false) with the positions it passes *)
Inductive rel := Rel (ack : bool) (ids : list nat).
Definition rel_ids (r : rel) : list nat := match r with Rel _ ids => ids end.
Definition released (rs : list rel) : list nat := flat_map rel_ids rs.

(* the environment: what call number [att] of task [ti] answers for the ACTIVE records it is
   shown, and how many leading records of a nacked group the DLQ confirms *)
Record env := mkEnv {
  reply : nat -> nat -> list nat -> list rflag;
  dlqn  : list nat -> nat
}.

(* ProcessorTask.Do / markBatchRecords: flags of the whole batch from the reply for the active
   records; a reply that is too short leaves the rest Retry *)
Fixpoint spread (b : list brec) (fl : list rflag) : list rflag :=
  match b with
  | [] => []
  | (_, true) :: r => RFilter :: spread r fl
  | (_, false) :: r =>
      match fl with
      | f :: fl' => f :: spread r fl'
      | [] => RRetry :: spread r []
      end
  end.

Definition active_ids (b : list brec) : list nat :=
  flat_map (fun x : brec => if snd x then [] else [fst x]) b.

Definition cls (f : rflag) : nat :=
  match f with RAck | RFilter => 0 | RNack => 1 | RRetry => 2 end.

(* subBatchByFlag: the maximal group of class c at the head, and the rest *)
Fixpoint span (c : nat) (l : list (brec * rflag)) : list (brec * rflag) * list (brec * rflag) :=
  match l with
  | x :: r => if cls (snd x) =? c then (x :: fst (span c r), snd (span c r)) else ([], l)
  | [] => ([], [])
  end.

(* the sub-batch handed on: a record the task filtered is filtered from now on *)
Definition carry (g : list (brec * rflag)) : list brec :=
  map (fun x => (fst (fst x), snd (fst x) || match snd x with RFilter => true | _ => false end)) g.

Definition has_active (b : list brec) : bool := existsb (fun x : brec => negb (snd x)) b.

(* retryAttempt: (count, size, stall) and the decision of the RecordFlagRetry arm *)
Definition retry_t := (nat * nat * nat)%type.
Definition retry_next (maxA maxS : nat) (retry : option retry_t) (size : nat) : option retry_t :=
  match retry with
  | None => if maxA <? 1 then None else Some (1, size, 0)
  | Some (count, psize, pstall) =>
      let stall := if psize <=? size then pstall + 1 else 0 in
      if maxS <=? stall then None
      else if maxA <? count + 1 then None
      else Some (count + 1, size, stall)
  end.

(* result of a (partial) pass: the releases made, and whether it returned nil *)
Definition res := (list rel * bool)%type.

Definition andthen (a : res) (k : unit -> res) : res :=
  if snd a then (fst a ++ fst (k tt), snd (k tt)) else a.

(* where a retry group is run: at the cursor (the code), or after the loop (the rejected
   alternative "collect retry groups, run them when every other group is on its way") *)
Inductive rpolicy := AtCursor | Deferred.

Section Loop.
  Variable (e : env) (maxA maxS : nat) (pol : rpolicy).

  (* the loop over the groups; n bounds the iterations (each consumes >= 1 record).  [later]
     accumulates the retry groups of the Deferred policy, oldest first *)
  Fixpoint tloop (last : bool) (retry : option retry_t)
           (next : list brec -> res) (again : list brec -> retry_t -> res)
           (n : nat) (l : list (brec * rflag)) (later : list (list brec * retry_t)) : res :=
    match n with
    | 0 => ([], match l with [] => true | _ => false end)
    | S n' =>
        match l with
        | [] =>
            fold_left (fun acc gr => andthen acc (fun _ => again (fst gr) (snd gr))) later ([], true)
        | x :: _ =>
            let g := fst (span (cls (snd x)) l) in
            let t := snd (span (cls (snd x)) l) in
            match snd x with
            | RAck | RFilter =>
                andthen (if last || negb (has_active (carry g))
                         then ([Rel true (map (fun y => fst (fst y)) g)], true)
                         else next (carry g))
                        (fun _ => tloop last retry next again n' t later)
            | RNack =>
                let ids := map (fun y => fst (fst y)) g in
                andthen ((if 1 <=? dlqn e ids then [Rel false (firstn (dlqn e ids) ids)] else []),
                         length ids <=? dlqn e ids)
                        (fun _ => tloop last retry next again n' t later)
            | RRetry =>
                (* subBatch.Ack(0, len): the retried records go back to the default status *)
                let sb := map fst g in
                match retry_next maxA maxS retry (length sb) with
                | None => ([], false)                                  (* pipeline.retry_not_converging *)
                | Some nx =>
                    match pol with
                    | AtCursor =>
                        andthen (again sb nx) (fun _ => tloop last retry next again n' t later)
                    | Deferred => tloop last retry next again n' t (later ++ [(sb, nx)])
                    end
                end
            end
        end
    end.

  (* doTaskAttempt for task ti of a chain of T tasks (the last one is the destination); [att]
     numbers the calls of a task so that the oracle may answer every call differently *)
  Fixpoint attempt (fuel T ti att : nat) (b : list brec) (retry : option retry_t) : res :=
    match fuel with
    | 0 => ([], false)
    | S f =>
        let fl := spread b (reply e ti att (active_ids b)) in
        tloop (T <=? S ti) retry
              (fun sb => attempt f T (S ti) 0 sb None)
              (fun sb nx => attempt f T ti (S att) sb (Some nx))
              (S (length b)) (combine b fl) []
    end.
End Loop.

Definition new_batch (ids : list nat) : list brec := map (fun i => (i, false)) ids.

(* one pass of Worker.Do over the records [ids] just read: the releases it makes, in order *)
Definition pass (e : env) (maxA maxS : nat) (pol : rpolicy) (fuel T : nat) (ids : list nat) : res :=
  attempt e maxA maxS pol fuel T 0 0 (new_batch ids) None.

Definition prefix_of (l1 l2 : list nat) : Prop := exists rest, l2 = l1 ++ rest.

(* every Worker.Ack / Worker.Nack call is for the records that directly follow what was released
   before: the shape SysV2's ADAck / ADNackW (and the acceptor's EngineAck clause) assume *)
Fixpoint contig (a : nat) (gs : list (list nat)) : Prop :=
  match gs with
  | [] => True
  | g :: r => g = seq a (length g) /\ contig (a + length g) r
  end.
