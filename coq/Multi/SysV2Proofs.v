(* Every schedule of the arch-v2 system produces an event log the acceptor accepts; hence (by
   AcceptProofs) every schedule satisfies C01, C04 and C05. *)
From Coq Require Import Permutation.
From Verif Require Import Multi.Trace Multi.TraceProofs Multi.Accept Multi.AcceptProofs
  Multi.HistLemmas Multi.Multi Multi.MultiProofs Multi.SysV2.

(* ---------- more history lemmas ---------- *)
(* what branch d's view of (s,k) means in terms of the log *)
Definition hjust (d s k : nat) (pre : list event) : bool :=
  existsb (is_filt None s k) pre || existsb (is_filt (Some d) s k) pre || existsb (is_conf_ok d s k) pre.

Lemma existsb_mono {A} (p : A -> bool) l pre : existsb p pre = true -> existsb p (l ++ pre) = true.
Proof. intros H. rewrite existsb_app, H. apply orb_true_r. Qed.

Lemma hjust_mono d s k l pre : hjust d s k pre = true -> hjust d s k (l ++ pre) = true.
Proof.
  unfold hjust. rewrite !orb_true_iff. intros [[H|H]|H]; [left; left|left; right|right];
    apply existsb_mono, H.
Qed.

Definition is_dlq_src (s : nat) (e : event) : bool :=
  match e with DlqWrite s' _ | DlqConfirm s' _ _ => s' =? s | _ => false end.

Lemma dlq_state_frame s k l pre :
  (forall e, In e l -> is_dlq_src s e = false) -> dlq_state s k (l ++ pre) = dlq_state s k pre.
Proof.
  intros H. unfold dlq_state. rewrite find_app_none; [reflexivity|].
  intros e He. specialize (H e He). destruct e; simpl in *; try reflexivity;
    rewrite Nat.eqb_sym, H; reflexivity.
Qed.

Lemma dlq_touched_frame s k l pre :
  (forall e, In e l -> is_dlq_src s e = false) -> dlq_touched s k (l ++ pre) = dlq_touched s k pre.
Proof.
  intros H. unfold dlq_touched. apply existsb_app_false.
  intros e He. specialize (H e He). destruct e; simpl in *; try reflexivity;
    rewrite Nat.eqb_sym, H; reflexivity.
Qed.

Lemma NoDup_snoc {A} (l : list A) x : NoDup l -> ~ In x l -> NoDup (l ++ [x]).
Proof.
  induction l as [|a l IH]; intros Hnd Hni; simpl; [constructor; [intros []|constructor]|].
  inversion Hnd as [|? ? Ha Hl]; subst. constructor.
  - intros Hin. apply in_app_or in Hin as [Hin|[->|[]]]; [contradiction|]. apply Hni. left. reflexivity.
  - apply IH; [exact Hl|]. intros Hin. apply Hni. right. exact Hin.
Qed.

Ltac splits := repeat match goal with |- _ /\ _ => split end.

(* ---------- the invariant ---------- *)
Section Inv.
Variables N M : nat.
Hypothesis HM : 1 <= M.
Let t := mkTopo true N M true.

Definition dfree (st : sys) (s k : nat) : Prop :=
  dlq_state s k (hist st) = DNone \/ dlq_state s k (hist st) = DErr.

Definition fan_inv (st : sys) (s : nat) (f : fanout) : Prop :=
  s < N /\
  Tally (fvs f) (fm f) /\ mM (fm f) = M /\
  fbase f + mrel (fm f) = wack st s /\ fbase f + mlen (fm f) <= nrd st s /\
  (forall i, NoDup (all_votes i (fvs f)) /\ forall b, In b (all_votes i (fvs f)) -> b < M) /\
  (forall v, In v (fvs f) -> vack v = true -> forall off, In off (vidx v) ->
             hjust (vb v) s (fbase f + off) (hist st) = true) /\
  (forall b off, voted (fvs f) b off = false -> ~ In b (all_votes off (fvs f))) /\
  match fph f with
  | PDlqWait off =>
      off = mrel (fm f) /\ off < mlen (fm f) /\
      nth off (term (fm f)) false = true /\ nth off (ackd (fm f)) false = false /\
      dlq_state s (fbase f + off) (hist st) = DPending /\
      forall k, wack st s <= k -> k <> fbase f + off -> dfree st s k
  | _ => forall k, wack st s <= k -> dfree st s k
  end.

Definition dlq_inv (st : sys) (s a n c okp : nat) (failed : bool) : Prop :=
  s < N /\ a = wack st s /\ a + n <= nrd st s /\ okp <= c /\ c <= n /\ (failed = false -> okp = c) /\
  (forall j, j < okp -> existsb (is_dlq_ok s (a + j)) (hist st) = true) /\
  (forall k, a + c <= k < a + n -> dlq_state s k (hist st) = DPending) /\
  (forall k, a <= k < a + c -> dlq_touched s k (hist st) = true) /\
  (forall k, a + n <= k -> dfree st s k).

Definition mode_inv (st : sys) (s : nat) : Prop :=
  match mode st s with
  | WFan f => fan_inv st s f
  | WDlq a n c okp failed => dlq_inv st s a n c okp failed
  | WIdle => forall k, wack st s <= k -> dfree st s k
  | WDead => True       (* a dead worker logs nothing more *)
  end.

Record Inv (st : sys) : Prop := {
  I_rd : forall s, nreads s (hist st) = nrd st s;
  I_ack : forall s, nacked s (hist st) = wack st s /\ wack st s <= nrd st s;
  I_gfl : forall s k, existsb (is_filt None s k) (hist st) = gfl st s k;
  I_dfl : forall d s k, existsb (is_filt (Some d) s k) (hist st) = dfl st d s k;
  I_wcur : forall d s j, last_write d s (hist st) = Some j -> j < wcur st d s;
  I_cw : forall d s k, existsb (is_conf_any d s k) (hist st) = true -> k < wcur st d s;
  I_dq : forall d, NoDup (dq st d) /\
         forall s k, In (s, k) (dq st d) ->
           existsb (is_write_k d s k) (hist st) = true /\
           existsb (is_conf_any d s k) (hist st) = false /\
           k < wcur st d s /\ (poi st d = false -> own st d = Some s);
  I_poi : forall d, poi st d = true -> own st d = None;
  I_seen : forall d s k, seen st d s k = Some true -> existsb (is_conf_ok d s k) (hist st) = true;
  I_mode : forall s, mode_inv st s
}.

Lemma Inv_init : Inv init.
Proof.
  constructor; simpl; auto; try discriminate.
  - intros d. split; [constructor|]. intros s k [].
  - intros s. unfold mode_inv. simpl. intros k _. left. reflexivity.
Qed.

(* frame: a step that leaves worker s alone and logs no DLQ event of s keeps mode_inv st s *)
Lemma mode_inv_frame st st' s l :
  hist st' = l ++ hist st ->
  (forall e, In e l -> is_dlq_src s e = false) ->
  mode st' s = mode st s -> wack st' s = wack st s -> nrd st s <= nrd st' s ->
  mode_inv st s -> mode_inv st' s.
Proof.
  intros Hh Hl Hm Hw Hn. unfold mode_inv. rewrite Hm.
  assert (Hfree : forall k, dfree st s k -> dfree st' s k).
  { intros k. unfold dfree. rewrite Hh, dlq_state_frame by exact Hl. auto. }
  destruct (mode st s) as [|f|a n c okp failed|].
  - intros H k Hk. apply Hfree, H. lia.
  - unfold fan_inv. rewrite Hw, Hh.
    intros (Hs & HT & HMm & Hb & Hlen & Hnd & Hj & Hv & Hph).
    splits; auto; try lia.
    + intros v Hin Ha off Ho. apply hjust_mono. eapply Hj; eassumption.
    + destruct (fph f) as [| |off].
      * intros k Hk. apply Hfree, Hph, Hk.
      * intros k Hk. apply Hfree, Hph, Hk.
      * destruct Hph as (H1 & H2 & H3 & H4 & H5 & H6).
        split; [exact H1|]. split; [exact H2|]. split; [exact H3|]. split; [exact H4|]. split.
        -- rewrite dlq_state_frame by exact Hl. exact H5.
        -- intros k Hk Hne. apply Hfree, H6; assumption.
  - unfold dlq_inv. rewrite Hw, Hh.
    intros (Hs & Ha & Hlen & H1 & H2 & H3 & H4 & H5 & H6 & H7).
    split; [exact Hs|]. split; [exact Ha|]. split; [lia|]. split; [exact H1|]. split; [exact H2|].
    split; [exact H3|]. split; [|split; [|split]].
    + intros j Hj. apply existsb_mono, H4, Hj.
    + intros k Hk. rewrite dlq_state_frame by exact Hl. apply H5, Hk.
    + intros k Hk. rewrite dlq_touched_frame by exact Hl. apply H6, Hk.
    + intros k Hk. apply Hfree, H7, Hk.
  - auto.
Qed.

(* the result of a step: the invariant again, and the events it logged are accepted *)
Definition Good (st st' : sys) : Prop :=
  Inv st' /\ exists em, hist st' = rev em ++ hist st /\ accepts_from t (hist st) em = true.

Lemma upd1_eq {A} (f : nat -> A) i x : upd1 f i x i = x.
Proof. unfold upd1. rewrite Nat.eqb_refl. reflexivity. Qed.
Lemma upd1_neq {A} (f : nat -> A) i j x : j <> i -> upd1 f i x j = f j.
Proof. unfold upd1. intros H. destruct (Nat.eqb_spec j i); [contradiction|reflexivity]. Qed.

Lemma mode_inv_same st st' s :
  hist st' = hist st -> mode st' s = mode st s -> wack st' s = wack st s -> nrd st' s = nrd st s ->
  mode_inv st s -> mode_inv st' s.
Proof.
  intros Hh Hm Hw Hn. apply (mode_inv_frame st st' s []); auto; [|lia]. intros e [].
Qed.

Lemma good_silent st st' :
  Inv st' -> hist st' = hist st -> Good st st'.
Proof. intros HI Hh. split; [exact HI|]. exists []. split; [exact Hh|reflexivity]. Qed.

Lemma step_AUnlock st d st' : Inv st -> step N M st (AUnlock d) = Some st' -> Good st st'.
Proof.
  intros HI H. simpl in H. destruct (own st d) as [o|] eqn:Eo; [|discriminate].
  destruct (dq st d) as [|p r] eqn:Eq; [|discriminate]. injection H as <-.
  apply good_silent; [|reflexivity]. destruct HI. constructor; simpl; auto.
  - intros d'. destruct (I_dq0 d') as [Hnd Hent]. split; [exact Hnd|].
    intros s k Hin. destruct (Hent s k Hin) as (H1 & H2 & H3 & H4). splits; auto.
    intros Hp. destruct (Nat.eq_dec d' d) as [->|Hne].
    + rewrite Eq in Hin. contradiction.
    + rewrite upd1_neq by exact Hne. apply H4, Hp.
  - intros d' Hp. destruct (Nat.eq_dec d' d) as [->|Hne]; [apply upd1_eq|].
    rewrite upd1_neq by exact Hne. apply I_poi0, Hp.
Qed.

Lemma step_APoison st d st' : Inv st -> step N M st (APoison d) = Some st' -> Good st st'.
Proof.
  intros HI H. simpl in H. destruct (own st d) as [o|] eqn:Eo; [|discriminate]. injection H as <-.
  apply good_silent; [|reflexivity]. destruct HI. constructor; simpl; auto.
  - intros d'. destruct (I_dq0 d') as [Hnd Hent]. split; [exact Hnd|].
    intros s k Hin. destruct (Hent s k Hin) as (H1 & H2 & H3 & H4). splits; auto.
    intros Hp. destruct (Nat.eq_dec d' d) as [->|Hne].
    + rewrite upd1_eq in Hp. discriminate.
    + rewrite upd1_neq in Hp by exact Hne. rewrite upd1_neq by exact Hne. apply H4, Hp.
  - intros d' Hp. destruct (Nat.eq_dec d' d) as [->|Hne]; [apply upd1_eq|].
    rewrite upd1_neq in Hp by exact Hne. rewrite upd1_neq by exact Hne. apply I_poi0, Hp.
Qed.

Lemma good_set_mode st s m :
  Inv st -> mode_inv (set_mode st s m) s -> Good st (set_mode st s m).
Proof.
  intros HI Hm. apply good_silent; [|reflexivity]. destruct HI. constructor; simpl; auto.
  intros s'. destruct (Nat.eq_dec s' s) as [->|Hne]; [exact Hm|].
  apply (mode_inv_same st); auto. simpl. apply upd1_neq, Hne.
Qed.

Lemma mlen_minit n : mlen (minit M n) = n.
Proof. unfold mlen. simpl. apply repeat_length. Qed.

Lemma step_AFOpen st s len st' : Inv st -> step N M st (AFOpen s len) = Some st' -> Good st st'.
Proof.
  intros HI H. cbn [step] in H. destruct (mode st s) eqn:Em; try discriminate.
  destruct ((s <? N) && (1 <=? len) && (wack st s + len <=? nrd st s)) eqn:Eg; [|discriminate].
  injection H as <-. apply andb_prop in Eg as [Eg E3]. apply andb_prop in Eg as [E1 E2].
  apply Nat.ltb_lt in E1. apply Nat.leb_le in E2, E3.
  apply good_set_mode; [exact HI|]. pose proof (I_mode st HI s) as Hm. unfold mode_inv in *.
  rewrite Em in Hm. simpl. rewrite upd1_eq. unfold fan_inv. simpl. rewrite mlen_minit.
  splits; auto using Tally_init; try lia.
  intros i. split; [constructor|intros b []].
Qed.

Lemma step_AFClose st s st' : Inv st -> step N M st (AFClose s) = Some st' -> Good st st'.
Proof.
  intros HI H. cbn [step] in H. destruct (mode st s) as [|f| |] eqn:Em; try discriminate.
  destruct (fph f) eqn:Ep; try discriminate. injection H as <-.
  apply good_set_mode; [exact HI|]. pose proof (I_mode st HI s) as Hm. unfold mode_inv in *.
  rewrite Em in Hm. destruct Hm as (_ & _ & _ & _ & _ & _ & _ & _ & Hph). rewrite Ep in Hph.
  simpl. rewrite upd1_eq. destruct (mrel (fm f) =? mlen (fm f)); [exact Hph|exact I].
Qed.

Lemma step_ADie st s st' : Inv st -> step N M st (ADie s) = Some st' -> Good st st'.
Proof.
  intros HI H. cbn [step] in H. destruct (mode st s) eqn:Em; try discriminate. injection H as <-.
  apply good_set_mode; [exact HI|]. pose proof (I_mode st HI s) as Hm. unfold mode_inv in *.
  rewrite Em in Hm. simpl. rewrite upd1_eq. exact I.
Qed.

Lemma good_event st st' e :
  Inv st' -> hist st' = e :: hist st -> accept_ev t (hist st) e = true -> Good st st'.
Proof.
  intros HI Hh Ha. split; [exact HI|]. exists [e]. split; [exact Hh|]. simpl. rewrite Ha. reflexivity.
Qed.

Lemma step_AGFilt st s k st' : Inv st -> step N M st (AGFilt s k) = Some st' -> Good st st'.
Proof.
  intros HI H. cbn [step] in H.
  destruct ((s <? N) && (k <? nrd st s) && (wack st s <=? k)) eqn:Eg; [|discriminate].
  injection H as <-. apply andb_prop in Eg as [Eg E3]. apply andb_prop in Eg as [E1 E2].
  eapply good_event; [|reflexivity|].
  - destruct HI. constructor; simpl; unfold last_write; simpl;
      try (intros; rewrite ?nreads_cons, ?nacked_cons; simpl; auto; fail).
    + intros s0 k0. unfold upd2. rewrite I_gfl0.
      destruct ((s0 =? s) && (k0 =? k)); reflexivity.
    + intros s0. apply (mode_inv_frame st _ s0 [Filt None s k]); auto.
      intros e [<-|[]]. reflexivity.
  - simpl. rewrite (I_rd st HI), (proj1 (I_ack st HI s)), E1, E2, E3. reflexivity.
Qed.

Lemma step_ADFilt st d s k st' : Inv st -> step N M st (ADFilt d s k) = Some st' -> Good st st'.
Proof.
  intros HI H. cbn [step] in H.
  destruct ((d <? M) && (s <? N) && (k <? nrd st s)) eqn:Eg; [|discriminate].
  injection H as <-. apply andb_prop in Eg as [Eg E3]. apply andb_prop in Eg as [E1 E2].
  eapply good_event; [|reflexivity|].
  - destruct HI. constructor; simpl; unfold last_write; simpl;
      try (intros; rewrite ?nreads_cons, ?nacked_cons; simpl; auto; fail).
    + intros d0 s0 k0. unfold upd3. rewrite I_dfl0.
      destruct ((d0 =? d) && (s0 =? s) && (k0 =? k)); reflexivity.
    + intros s0. apply (mode_inv_frame st _ s0 [Filt (Some d) s k]); auto.
      intros e [<-|[]]. reflexivity.
  - simpl. rewrite (I_rd st HI), E1, E2, E3. reflexivity.
Qed.

Lemma upd2_eq {A} (f : nat -> nat -> A) i j x : upd2 f i j x i j = x.
Proof. unfold upd2. rewrite !Nat.eqb_refl. reflexivity. Qed.

Lemma pair_cond (a b c d : nat) : (a =? c) && (b =? d) = true <-> a = c /\ b = d.
Proof. rewrite andb_true_iff, !Nat.eqb_eq. reflexivity. Qed.

Lemma step_AWr st d s k st' : Inv st -> step N M st (AWr d s k) = Some st' -> Good st st'.
Proof.
  intros HI H. cbn [step] in H.
  match type of H with (if ?c then _ else _) = _ => destruct c eqn:Eg; [|discriminate] end.
  injection H as <-.
  repeat (apply andb_prop in Eg as [Eg ?]).
  rename H into Emode, H0 into Eown, H1 into Epoi, H2 into Edfl, H3 into Egfl, H4 into Ecur,
         H5 into Ek, H6 into Es.
  apply Nat.ltb_lt in Eg, Es, Ek. apply Nat.leb_le in Ecur.
  apply negb_true_iff in Epoi, Edfl, Egfl.
  assert (Hown : forall s1, own st d = Some s1 -> s1 = s).
  { intros s1 E. rewrite E in Eown. apply Nat.eqb_eq in Eown. exact Eown. }
  eapply good_event; [|reflexivity|].
  - pose proof HI as HI'. destruct HI. constructor; simpl; unfold last_write; simpl;
      try (intros; rewrite ?nreads_cons, ?nacked_cons; simpl; auto; fail).
    + (* I_wcur *) intros d0 s0 j. unfold upd2.
      destruct ((d0 =? d) && (s0 =? s)) eqn:E.
      * intros Hj. injection Hj as <-. lia.
      * apply I_wcur0.
    + (* I_cw *) intros d0 s0 k0 Hc. specialize (I_cw0 d0 s0 k0 Hc). unfold upd2.
      destruct ((d0 =? d) && (s0 =? s)) eqn:E; [|exact I_cw0].
      apply pair_cond in E as [-> ->]. lia.
    + (* I_dq *) intros d0. destruct (I_dq0 d0) as [Hnd Hent].
      destruct (Nat.eq_dec d0 d) as [->|Hne].
      * rewrite !upd1_eq. split.
        -- apply NoDup_snoc; [exact Hnd|]. intros Hin.
           destruct (Hent s k Hin) as (_ & _ & Hlt & _). lia.
        -- intros s1 k1 Hin. apply in_app_or in Hin as [Hin|[Heq|[]]].
           ++ destruct (Hent s1 k1 Hin) as (H1 & H2 & H3 & H4). rewrite H1, H2, orb_true_r.
              specialize (H4 Epoi). apply Hown in H4. subst s1.
              splits; auto. unfold upd2. rewrite !Nat.eqb_refl. simpl. lia.
           ++ injection Heq as <- <-. rewrite !Nat.eqb_refl. simpl.
              splits; auto.
              ** destruct (existsb (is_conf_any d s k) (hist st)) eqn:E; [|reflexivity].
                 specialize (I_cw0 _ _ _ E). lia.
              ** rewrite upd2_eq. lia.
      * rewrite !upd1_neq by exact Hne. split; [exact Hnd|].
        intros s1 k1 Hin. destruct (Hent s1 k1 Hin) as (H1 & H2 & H3 & H4).
        rewrite H1, H2, orb_true_r. splits; auto. unfold upd2.
        destruct (Nat.eqb_spec d0 d); [contradiction|]. simpl. exact H3.
    + (* I_poi *) intros d0 Hp. destruct (Nat.eq_dec d0 d) as [->|Hne]; [congruence|].
      rewrite upd1_neq by exact Hne. apply I_poi0, Hp.
    + (* I_mode *) intros s0. apply (mode_inv_frame st _ s0 [DestWrite d s k]); auto.
      intros e [<-|[]]. reflexivity.
  - simpl. rewrite (I_rd st HI). unfold filt_strict. simpl.
    rewrite (I_gfl st HI), (I_dfl st HI), Egfl, Edfl.
    destruct (d <? M) eqn:E1; [|apply Nat.ltb_ge in E1; lia].
    destruct (s <? N) eqn:E2; [|apply Nat.ltb_ge in E2; lia].
    destruct (k <? nrd st s) eqn:E3; [|apply Nat.ltb_ge in E3; lia]. simpl.
    destruct (last_write d s (hist st)) as [j|] eqn:El; [|reflexivity].
    pose proof (I_wcur st HI _ _ _ El).
    replace (j <? k) with true; [reflexivity|symmetry; apply Nat.ltb_lt; lia].
Qed.

Lemma step_ACf st d ok st' : Inv st -> step N M st (ACf d ok) = Some st' -> Good st st'.
Proof.
  intros HI H. cbn [step] in H.
  destruct (own st d) as [s|] eqn:Eo; [|discriminate].
  destruct (dq st d) as [|[s' k'] rest] eqn:Eq; [discriminate|]. injection H as <-.
  assert (Epoi : poi st d = false).
  { destruct (poi st d) eqn:E; [|reflexivity]. rewrite (I_poi st HI d E) in Eo. discriminate. }
  destruct (I_dq st HI d) as [Hnd Hent]. rewrite Eq in Hnd, Hent.
  destruct (Hent s' k' (or_introl eq_refl)) as (Hw & Hc & Hlt & Hown).
  specialize (Hown Epoi). rewrite Eo in Hown. injection Hown as ->.
  inversion Hnd as [|? ? Hni Hnd']; subst.
  eapply good_event; [|reflexivity|].
  - pose proof HI as HI'. destruct HI. constructor; simpl; unfold last_write; simpl;
      try (intros; rewrite ?nreads_cons, ?nacked_cons; simpl; auto; fail).
    + (* I_cw *) intros d0 s0 k0 Hx. apply orb_prop in Hx as [Hx|Hx]; [|apply I_cw0, Hx].
      apply andb_prop in Hx as [Hx E3]. apply andb_prop in Hx as [E1 E2].
      apply Nat.eqb_eq in E1, E2, E3. subst. exact Hlt.
    + (* I_dq *) intros d0. destruct (Nat.eq_dec d0 d) as [->|Hne].
      * rewrite upd1_eq. split; [exact Hnd'|]. intros s1 k1 Hin.
        destruct (Hent s1 k1 (or_intror Hin)) as (H1 & H2 & H3 & H4).
        rewrite ?H1, ?H2, ?orb_true_r, ?orb_false_r. splits; auto.
        destruct ((d =? d) && (s1 =? s') && (k1 =? k')) eqn:E; [|reflexivity].
        apply andb_prop in E as [E E3]. apply andb_prop in E as [_ E2].
        apply Nat.eqb_eq in E2, E3. subst. contradiction.
      * rewrite upd1_neq by exact Hne. destruct (I_dq0 d0) as [Hnd0 Hent0]. split; [exact Hnd0|].
        intros s1 k1 Hin. destruct (Hent0 s1 k1 Hin) as (H1 & H2 & H3 & H4).
        rewrite ?H1, ?H2, ?orb_true_r, ?orb_false_r. splits; auto.
        destruct (Nat.eqb_spec d0 d); [contradiction|reflexivity].
    + (* I_seen *) intros d0 s0 k0. unfold upd3.
      destruct ((d0 =? d) && (s0 =? s') && (k0 =? k')) eqn:E.
      * intros Hx. injection Hx as ->. reflexivity.
      * intros Hx. rewrite (I_seen0 _ _ _ Hx). destruct ok; reflexivity.
    + (* I_mode *) intros s0. apply (mode_inv_frame st _ s0 [DestConfirm d s' k' ok]); auto.
      intros e [<-|[]]. reflexivity.
  - simpl. rewrite Hw, Hc. reflexivity.
Qed.

Lemma good_block st st' em :
  Inv st' -> hist st' = rev em ++ hist st -> accepts_from t (hist st) em = true -> Good st st'.
Proof. intros HI Hh Ha. split; [exact HI|]. exists em. auto. Qed.

Lemma accepts_reads s : s < N -> forall n pre a,
  nreads s pre = a -> inbatch s pre = true \/ nacked s pre = nreads s pre ->
  accepts_from t pre (map (Read s) (seq a n)) = true.
Proof.
  intros Hs. induction n as [|n IH]; intros pre a Ha Hb; [reflexivity|].
  simpl. rewrite Ha, Nat.eqb_refl.
  replace (s <? N) with true by (symmetry; apply Nat.ltb_lt; exact Hs).
  replace (inbatch s pre || (nacked s pre =? a)) with true.
  2:{ symmetry. destruct Hb as [Hb|Hb]; [rewrite Hb; reflexivity|].
      rewrite Hb, Ha, Nat.eqb_refl. apply orb_true_r. }
  simpl. apply IH.
  - rewrite nreads_cons, Nat.eqb_refl, Ha. reflexivity.
  - left. unfold inbatch. simpl. rewrite Nat.eqb_refl. reflexivity.
Qed.

Ltac read_block_frame :=
  intros; rewrite ?existsb_app_false; auto;
  intros x Hx; apply in_rev_map_read in Hx; destruct Hx as [? [-> _]]; reflexivity.

Lemma step_ARd st s n st' : Inv st -> step N M st (ARd s n) = Some st' -> Good st st'.
Proof.
  intros HI H. cbn [step] in H. destruct (mode st s) eqn:Em; try discriminate.
  match type of H with (if ?c then _ else _) = _ => destruct c eqn:Eg; [|discriminate] end.
  injection H as <-. apply andb_prop in Eg as [Eg E3]. apply andb_prop in Eg as [E1 E2].
  apply Nat.ltb_lt in E1. apply Nat.leb_le in E2. apply Nat.eqb_eq in E3.
  eapply (good_block _ _ (map (Read s) (seq (nrd st s) n))); [|simpl; reflexivity|].
  - pose proof HI as HI'. destruct HI. constructor; simpl.
    + intros s0. rewrite nreads_app, nreads_reads, I_rd0. unfold upd1.
      rewrite (Nat.eqb_sym s0 s). destruct (Nat.eqb_spec s s0); [subst; lia|lia].
    + intros s0. rewrite nacked_app, nacked_reads. destruct (I_ack0 s0) as [Ha Hle].
      split; [exact Ha|]. unfold upd1. destruct (s0 =? s) eqn:E; [apply Nat.eqb_eq in E; subst|]; lia.
    + intros s0 k0. rewrite <- I_gfl0. read_block_frame.
    + intros d0 s0 k0. rewrite <- I_dfl0. read_block_frame.
    + intros d0 s0 j. unfold last_write. rewrite find_app_none; [apply I_wcur0|].
      intros x Hx. apply in_rev_map_read in Hx. destruct Hx as [? [-> _]]. reflexivity.
    + intros d0 s0 k0. rewrite existsb_app_false; [apply I_cw0|].
      intros x Hx. apply in_rev_map_read in Hx. destruct Hx as [? [-> _]]. reflexivity.
    + intros d0. destruct (I_dq0 d0) as [Hnd Hent]. split; [exact Hnd|].
      intros s1 k1 Hin. destruct (Hent s1 k1 Hin) as (H1 & H2 & H3 & H4).
      rewrite !existsb_app_false; [auto| |];
        intros x Hx; apply in_rev_map_read in Hx; destruct Hx as [? [-> _]]; reflexivity.
    + exact I_poi0.
    + intros d0 s0 k0 Hx. apply existsb_mono, I_seen0, Hx.
    + intros s0. apply (mode_inv_frame st _ s0 (rev (map (Read s) (seq (nrd st s) n)))); auto.
      * intros x Hx. apply in_rev_map_read in Hx. destruct Hx as [? [-> _]]. reflexivity.
      * simpl. unfold upd1. destruct (s0 =? s) eqn:E; [apply Nat.eqb_eq in E; subst|]; lia.
  - apply accepts_reads; [exact E1|apply (I_rd st HI)|].
    right. rewrite (proj1 (I_ack st HI s)), (I_rd st HI). exact E3.
Qed.

Lemma nat_list_eqb_refl l : nat_list_eqb l l = true.
Proof. apply nat_list_eqb_eq. reflexivity. Qed.

Lemma ljust_justified st s k : Inv st -> ljust M st s k = true -> justified t (hist st) s k = true.
Proof.
  intros HI H. unfold ljust in H. unfold justified. simpl ndst.
  rewrite (I_gfl st HI). apply orb_prop in H as [H|H]; [rewrite H; reflexivity|].
  apply orb_true_iff. right. rewrite forallb_forall in *. intros d Hd. specialize (H d Hd).
  rewrite (I_dfl st HI). apply orb_prop in H as [H|H]; [rewrite H; apply orb_true_r|].
  destruct (seen st d s k) as [[|]|] eqn:E; try discriminate.
  rewrite (I_seen st HI _ _ _ E). reflexivity.
Qed.

(* the DLQ view of source s is untouched by an event that is not a DLQ event of s *)
Lemma dfree_event st st' s e :
  hist st' = e :: hist st -> is_dlq_src s e = false ->
  forall k, dfree st s k -> dfree st' s k.
Proof.
  intros Hh He k. unfold dfree. rewrite Hh. change (e :: hist st) with ([e] ++ hist st).
  rewrite (dlq_state_frame s k [e] (hist st)); [auto|]. intros x [<-|[]]. exact He.
Qed.

Lemma step_ADAck st s n st' : Inv st -> step N M st (ADAck s n) = Some st' -> Good st st'.
Proof.
  intros HI H. cbn [step] in H. destruct (mode st s) eqn:Em; try discriminate.
  match type of H with (if ?c then _ else _) = _ => destruct c eqn:Eg; [|discriminate] end.
  injection H as <-. apply andb_prop in Eg as [Eg E4]. apply andb_prop in Eg as [Eg E3].
  apply andb_prop in Eg as [E1 E2].
  apply Nat.ltb_lt in E1. apply Nat.leb_le in E2, E3.
  eapply good_event; [|reflexivity|].
  - pose proof HI as HI'. destruct HI. constructor; simpl; unfold last_write; simpl;
      try (intros; rewrite ?nreads_cons, ?nacked_cons; simpl; auto; fail).
    + (* I_ack *) intros s0. rewrite nacked_cons, seq_length. destruct (I_ack0 s0) as [Ha Hle].
      unfold upd1. destruct (Nat.eqb_spec s0 s) as [->|Hne]; lia.
    + (* I_mode *) intros s0. destruct (Nat.eq_dec s0 s) as [->|Hne].
      * pose proof (I_mode0 s) as Hm. unfold mode_inv in *. simpl. rewrite Em in *.
        rewrite upd1_eq. intros k Hk. eapply dfree_event; [reflexivity|reflexivity|].
        apply Hm. lia.
      * apply (mode_inv_frame st _ s0 [EngineAck s (seq (wack st s) n)]); auto.
        -- intros e [<-|[]]. reflexivity.
        -- simpl. apply upd1_neq, Hne.
  - unfold t. cbn [accept_ev v2 nsrc ndst].
    rewrite seq_length, (I_rd st HI), (proj1 (I_ack st HI s)), nat_list_eqb_refl.
    replace (s <? N) with true by (symmetry; apply Nat.ltb_lt; exact E1).
    replace (1 <=? n) with true by (symmetry; apply Nat.leb_le; exact E2).
    replace (wack st s + n <=? nrd st s) with true by (symmetry; apply Nat.leb_le; exact E3).
    cbn [andb]. rewrite andb_true_r. apply forallb_forall. intros k Hk.
    apply ljust_justified; [exact HI|]. rewrite forallb_forall in E4. apply E4, Hk.
Qed.

(* ----- linear-path dead-lettering ----- *)
Lemma dlq_state_cons s k e pre :
  dlq_state s k (e :: pre) =
  if is_dlq_ev s k e
  then match e with DlqWrite _ _ => DPending | DlqConfirm _ _ true => DOk | DlqConfirm _ _ false => DErr
                  | _ => DNone end
  else dlq_state s k pre.
Proof. unfold dlq_state. simpl. destruct (is_dlq_ev s k e) eqn:E; [|reflexivity]. destruct e; try discriminate; reflexivity. Qed.

Lemma rev_block_S {A} (f : nat -> A) a n : rev (map f (seq a (S n))) = f (a + n) :: rev (map f (seq a n)).
Proof. rewrite seq_S, map_app, rev_app_distr. reflexivity. Qed.

Lemma dlq_state_block s a hist0 : forall n k, a <= k < a + n ->
  dlq_state s k (rev (map (DlqWrite s) (seq a n)) ++ hist0) = DPending.
Proof.
  induction n as [|n IH]; intros k Hk; [lia|].
  rewrite rev_block_S. simpl app. rewrite dlq_state_cons. simpl.
  rewrite Nat.eqb_refl. simpl. destruct (Nat.eqb_spec k (a + n)); [reflexivity|]. apply IH. lia.
Qed.

Lemma dlq_state_block_out s a n hist0 k : a + n <= k ->
  dlq_state s k (rev (map (DlqWrite s) (seq a n)) ++ hist0) = dlq_state s k hist0.
Proof.
  intros Hk. unfold dlq_state. rewrite find_app_none; [reflexivity|].
  intros x Hx. apply in_rev_map_dlqw in Hx. destruct Hx as [j [-> Hj]]. simpl.
  destruct (Nat.eqb_spec k j); [lia|]. apply andb_false_r.
Qed.

Lemma accepts_dlqw s : s < N -> forall n pre b,
  nacked s pre <= b -> b + n <= nreads s pre ->
  (forall i, nacked s pre <= i < b -> dlq_touched s i pre = true) ->
  (forall i, b <= i -> dlq_state s i pre = DNone \/ dlq_state s i pre = DErr) ->
  accepts_from t pre (map (DlqWrite s) (seq b n)) = true.
Proof.
  intros Hs. induction n as [|n IH]; intros pre b Hb Hn Ht Hf; [reflexivity|].
  cbn [seq map accepts_from]. apply andb_true_intro. split.
  - unfold t. cbn [accept_ev v2 nsrc ndst].
    replace (s <? N) with true by (symmetry; apply Nat.ltb_lt; exact Hs).
    replace (b <? nreads s pre) with true by (symmetry; apply Nat.ltb_lt; lia).
    replace (nacked s pre <=? b) with true by (symmetry; apply Nat.leb_le; lia).
    cbn [andb]. rewrite andb_true_r. apply andb_true_intro. split.
    + apply forallb_forall. intros i Hi. apply in_seq in Hi. apply Ht. lia.
    + destruct (Hf b (le_n b)) as [E|E]; rewrite E; reflexivity.
  - apply IH.
    + rewrite nacked_cons. simpl. lia.
    + rewrite nreads_cons. simpl. lia.
    + intros i Hi. rewrite nacked_cons in Hi. simpl in Hi. unfold dlq_touched. simpl.
      destruct (Nat.eqb_spec i b) as [->|Hne].
      * rewrite Nat.eqb_refl. reflexivity.
      * specialize (Ht i ltac:(lia)). unfold dlq_touched in Ht. rewrite Ht. apply orb_true_r.
    + intros i Hi. rewrite dlq_state_cons. simpl.
      destruct (Nat.eqb_spec i b); [lia|]. rewrite andb_false_r. apply Hf. lia.
Qed.

Ltac dlqw_block_frame :=
  intros x Hx; apply in_rev_map_dlqw in Hx; destruct Hx as [? [-> _]]; reflexivity.

Lemma step_ADNackW st s n st' : Inv st -> step N M st (ADNackW s n) = Some st' -> Good st st'.
Proof.
  intros HI H. cbn [step] in H. destruct (mode st s) eqn:Em; try discriminate.
  match type of H with (if ?c then _ else _) = _ => destruct c eqn:Eg; [|discriminate] end.
  injection H as <-. apply andb_prop in Eg as [Eg E3]. apply andb_prop in Eg as [E1 E2].
  apply Nat.ltb_lt in E1. apply Nat.leb_le in E2, E3.
  pose proof (I_mode st HI s) as Hm. unfold mode_inv in Hm. rewrite Em in Hm.
  eapply (good_block _ _ (map (DlqWrite s) (seq (wack st s) n))); [|simpl; reflexivity|].
  - pose proof HI as HI'. destruct HI. constructor; simpl.
    + intros s0. rewrite nreads_app, I_rd0.
      replace (nreads s0 _) with 0; [reflexivity|]. symmetry. unfold nreads, reads_of.
      rewrite length_flat_map_rev. induction (seq (wack st s) n); simpl; auto.
    + intros s0. rewrite nacked_app.
      replace (nacked s0 (rev _)) with 0; [apply I_ack0|]. symmetry. unfold nacked, acks_of.
      rewrite length_flat_map_rev. induction (seq (wack st s) n); simpl; auto.
    + intros s0 k0. rewrite <- I_gfl0. apply existsb_app_false. dlqw_block_frame.
    + intros d0 s0 k0. rewrite <- I_dfl0. apply existsb_app_false. dlqw_block_frame.
    + intros d0 s0 j. unfold last_write. rewrite find_app_none; [apply I_wcur0|]. dlqw_block_frame.
    + intros d0 s0 k0. rewrite existsb_app_false; [apply I_cw0|]. dlqw_block_frame.
    + intros d0. destruct (I_dq0 d0) as [Hnd Hent]. split; [exact Hnd|].
      intros s1 k1 Hin. destruct (Hent s1 k1 Hin) as (H1 & H2 & H3 & H4).
      rewrite !existsb_app_false; [auto| |]; dlqw_block_frame.
    + exact I_poi0.
    + intros d0 s0 k0 Hx. apply existsb_mono, I_seen0, Hx.
    + intros s0. destruct (Nat.eq_dec s0 s) as [->|Hne].
      * unfold mode_inv. simpl. rewrite upd1_eq. unfold dlq_inv. simpl.
        splits; auto; try lia.
        -- intros k Hk. apply dlq_state_block. lia.
        -- intros k Hk. unfold dfree. simpl. rewrite dlq_state_block_out by lia. apply Hm. lia.
      * apply (mode_inv_frame st _ s0 (rev (map (DlqWrite s) (seq (wack st s) n)))); auto.
        -- intros x Hx. apply in_rev_map_dlqw in Hx. destruct Hx as [? [-> _]]. simpl.
           destruct (Nat.eqb_spec s s0); [congruence|reflexivity].
        -- simpl. apply upd1_neq, Hne.
  - apply accepts_dlqw; auto.
    + rewrite (proj1 (I_ack st HI s)). lia.
    + rewrite (I_rd st HI). lia.
    + intros i Hi. rewrite (proj1 (I_ack st HI s)) in Hi. lia.
Qed.

(* a step that logs DLQ / ack events and touches only wack and mode *)
Definition engine_ev (e : event) : bool :=
  match e with DlqWrite _ _ | DlqConfirm _ _ _ | EngineAck _ _ => true | _ => false end.

Lemma nreads_engine s l : (forall e, In e l -> engine_ev e = true) -> nreads s l = 0.
Proof.
  induction l as [|e l IH]; intros Hl; [reflexivity|].
  rewrite nreads_cons, IH by (intros; apply Hl; right; assumption).
  specialize (Hl e (or_introl eq_refl)). destruct e; try discriminate; reflexivity.
Qed.

Lemma inv_engine_events st st' l :
  Inv st -> hist st' = l ++ hist st -> (forall e, In e l -> engine_ev e = true) ->
  nrd st' = nrd st -> gfl st' = gfl st -> dfl st' = dfl st -> wcur st' = wcur st ->
  dq st' = dq st -> own st' = own st -> poi st' = poi st -> seen st' = seen st ->
  (forall s, nacked s (hist st') = wack st' s /\ wack st' s <= nrd st' s) ->
  (forall s, mode_inv st' s) -> Inv st'.
Proof.
  intros HI Hh Hl Hn Hg Hd Hw Hq Ho Hp Hs Hack Hmode. destruct HI.
  assert (Hex : forall p : event -> bool, (forall e, engine_ev e = true -> p e = false) ->
                existsb p (l ++ hist st) = existsb p (hist st)).
  { intros p Hpe. apply existsb_app_false. intros e He. apply Hpe, Hl, He. }
  constructor; rewrite ?Hh, ?Hn, ?Hg, ?Hd, ?Hw, ?Hq, ?Ho, ?Hp, ?Hs; auto.
  - intros s. rewrite nreads_app, I_rd0, nreads_engine by exact Hl. reflexivity.
  - intros s. specialize (Hack s). rewrite Hh, Hn in Hack. exact Hack.
  - intros s k. rewrite Hex; [apply I_gfl0|]. intros e He. destruct e; try discriminate; reflexivity.
  - intros d s k. rewrite Hex; [apply I_dfl0|]. intros e He. destruct e; try discriminate; reflexivity.
  - intros d s j. unfold last_write. rewrite find_app_none; [apply I_wcur0|].
    intros e He. specialize (Hl e He). destruct e; try discriminate; reflexivity.
  - intros d s k. rewrite Hex; [apply I_cw0|]. intros e He. destruct e; try discriminate; reflexivity.
  - intros d. destruct (I_dq0 d) as [Hnd Hent]. split; [exact Hnd|]. intros s k Hin.
    destruct (Hent s k Hin) as (H1 & H2 & H3 & H4).
    rewrite !Hex; [auto| |]; intros e He; destruct e; try discriminate; reflexivity.
  - intros d s k Hx. apply existsb_mono, I_seen0, Hx.
Qed.

Lemma step_ADlqCf_lin st s ok a n c okp failed st' :
  Inv st -> mode st s = WDlq a n c okp failed ->
  step N M st (ADlqCf s ok) = Some st' -> Good st st'.
Proof.
  intros HI Em H. cbn [step] in H. rewrite Em in H.
  destruct (c <? n) eqn:Ec; [|discriminate]. apply Nat.ltb_lt in Ec. injection H as <-.
  pose proof (I_mode st HI s) as Hm. unfold mode_inv in Hm. rewrite Em in Hm.
  destruct Hm as (Hs & Ha & Hlen & H1 & H2 & H3 & H4 & H5 & H6 & H7).
  eapply good_event; [|reflexivity|].
  - eapply (inv_engine_events st _ [DlqConfirm s (a + c) ok]); try reflexivity; auto.
    + intros e [<-|[]]. reflexivity.
    + intros s0. simpl. rewrite nacked_cons. simpl. apply (I_ack st HI).
    + intros s0. destruct (Nat.eq_dec s0 s) as [->|Hne].
      * unfold mode_inv. simpl. rewrite upd1_eq. unfold dlq_inv. simpl.
        split; [exact Hs|]. split; [exact Ha|]. split; [exact Hlen|].
        split; [destruct (ok && negb failed); lia|]. split; [lia|]. split.
        { intros Hf. apply orb_false_iff in Hf as [Hf Hok]. apply negb_false_iff in Hok.
          subst. simpl. rewrite (H3 eq_refl). reflexivity. }
        split; [|split; [|split]].
        -- intros j Hj. destruct (ok && negb failed) eqn:E.
           ++ apply andb_prop in E as [-> Ef]. apply negb_true_iff in Ef. specialize (H3 Ef). subst okp.
              destruct (Nat.eq_dec j c) as [->|Hne].
              ** rewrite !Nat.eqb_refl. reflexivity.
              ** rewrite (H4 j ltac:(lia)). apply orb_true_r.
           ++ rewrite (H4 j Hj). apply orb_true_r.
        -- intros k Hk. rewrite dlq_state_cons. simpl.
           destruct (Nat.eqb_spec k (a + c)); [lia|]. rewrite andb_false_r. apply H5. lia.
        -- intros k Hk. unfold dlq_touched. simpl.
           destruct (Nat.eqb_spec k (a + c)) as [->|Hne].
           ++ rewrite Nat.eqb_refl. reflexivity.
           ++ specialize (H6 k ltac:(lia)). unfold dlq_touched in H6. rewrite H6. apply orb_true_r.
        -- intros k Hk. unfold dfree. simpl. rewrite dlq_state_cons. simpl.
           destruct (Nat.eqb_spec k (a + c)); [lia|]. rewrite andb_false_r. apply H7, Hk.
      * apply (mode_inv_frame st _ s0 [DlqConfirm s (a + c) ok]); auto; try apply (I_mode st HI).
        -- intros e [<-|[]]. simpl. destruct (Nat.eqb_spec s s0); [congruence|reflexivity].
        -- simpl. apply upd1_neq, Hne.
  - simpl. rewrite (H5 (a + c) ltac:(lia)). reflexivity.
Qed.

Lemma dfree_engine_ack st st' s s' ks k :
  hist st' = EngineAck s' ks :: hist st -> dfree st s k -> dfree st' s k.
Proof. intros Hh. apply (dfree_event st st' s _ Hh). reflexivity. Qed.

Lemma step_ADNackDone st s st' : Inv st -> step N M st (ADNackDone s) = Some st' -> Good st st'.
Proof.
  intros HI H. cbn [step] in H. destruct (mode st s) as [| |a n c okp failed|] eqn:Em; try discriminate.
  destruct (c =? n) eqn:Ec; [|discriminate]. apply Nat.eqb_eq in Ec. subst c. injection H as <-.
  pose proof (I_mode st HI s) as Hm. unfold mode_inv in Hm. rewrite Em in Hm.
  destruct Hm as (Hs & Ha & Hlen & H1 & H2 & H3 & H4 & H5 & H6 & H7).
  destruct okp as [|okp'] eqn:Eokp; cbn [Nat.leb]; [|rewrite <- Eokp in *; assert (Eo : 1 <= okp) by lia].
  2:{ eapply good_event; [|reflexivity|].
    + eapply (inv_engine_events st _ [EngineAck s (seq a okp)]); try reflexivity; auto.
      * intros e [<-|[]]. reflexivity.
      * intros s0. simpl. rewrite nacked_cons, seq_length. destruct (I_ack st HI s0) as [Hx Hle].
        unfold upd1. destruct (Nat.eqb_spec s0 s) as [->|Hne]; lia.
      * intros s0. destruct (Nat.eq_dec s0 s) as [->|Hne].
        -- unfold mode_inv. simpl. rewrite upd1_eq.
           destruct (okp =? n) eqn:En; [|exact I]. apply Nat.eqb_eq in En. subst okp.
           rewrite upd1_eq. intros k Hk. eapply dfree_engine_ack; [reflexivity|]. apply H7. lia.
        -- apply (mode_inv_frame st _ s0 [EngineAck s (seq a okp)]); auto; try apply (I_mode st HI).
           ++ intros e [<-|[]]. reflexivity.
           ++ simpl. rewrite upd1_neq by exact Hne. reflexivity.
           ++ simpl. apply upd1_neq, Hne.
    + unfold t. cbn [accept_ev v2 nsrc ndst].
      rewrite seq_length, (I_rd st HI), (proj1 (I_ack st HI s)), <- Ha, nat_list_eqb_refl.
      replace (s <? N) with true by (symmetry; apply Nat.ltb_lt; exact Hs).
      replace (1 <=? okp) with true by (symmetry; apply Nat.leb_le; exact Eo).
      replace (a + okp <=? nrd st s) with true by (symmetry; apply Nat.leb_le; lia).
      cbn [andb]. rewrite andb_true_r. apply forallb_forall. intros k Hk. apply in_seq in Hk.
      unfold justified. replace k with (a + (k - a)) by lia. rewrite (H4 (k - a) ltac:(lia)).
      rewrite orb_true_r. reflexivity. }
  - apply good_set_mode; [exact HI|]. unfold mode_inv. simpl. rewrite upd1_eq.
    destruct n as [|n']; [|exact I]. intros k Hk. apply H7. lia.
Qed.

(* ----- the fan-out ----- *)
Lemma wf_set_rel m r : wf m -> r <= mlen m -> (forall i, i < r -> nth i (term m) false = true) ->
  wf (set_rel m r).
Proof. intros W Hr Ht. constructor; unfold mlen; simpl; try apply W; auto. Qed.

Lemma step_ADlqCf_fan st s ok f off st' :
  Inv st -> mode st s = WFan f -> fph f = PDlqWait off ->
  step N M st (ADlqCf s ok) = Some st' -> Good st st'.
Proof.
  intros HI Em Ep H. cbn [step] in H. rewrite Em, Ep in H.
  pose proof (I_mode st HI s) as Hm. unfold mode_inv in Hm. rewrite Em in Hm.
  destruct Hm as (Hs & HT & HMm & Hb & Hlen & Hnd & Hj & Hv & Hph). rewrite Ep in Hph.
  destruct Hph as (P1 & P2 & P3 & P4 & P5 & P6).
  assert (Hk : fbase f + off = wack st s) by (rewrite <- Hb, P1; reflexivity).
  destruct ok; injection H as <-.
  - (* confirmed: DlqConfirm then EngineAck *)
    assert (W' : wf (set_rel (fm f) (S off))).
    { apply wf_set_rel; [apply HT|lia|]. intros i Hi. destruct (Nat.eq_dec i off) as [->|Hne]; [exact P3|].
      apply (wf_released_terminal _ (T_wf _ _ HT)). lia. }
    eapply (good_block _ _ [DlqConfirm s (fbase f + off) true; EngineAck s [fbase f + off]]);
      [|reflexivity|].
    + eapply (inv_engine_events st _ [EngineAck s [fbase f + off]; DlqConfirm s (fbase f + off) true]);
        try reflexivity; auto.
      * intros e [<-|[<-|[]]]; reflexivity.
      * intros s0. simpl. rewrite !nacked_cons. simpl. destruct (I_ack st HI s0) as [Hx Hle].
        unfold upd1. rewrite Hx. destruct (Nat.eqb_spec s0 s) as [->|Hne]; lia.
      * intros s0. destruct (Nat.eq_dec s0 s) as [->|Hne].
        -- unfold mode_inv. simpl. rewrite !upd1_eq. unfold fan_inv. simpl. rewrite ?upd1_eq.
           split; [exact Hs|]. split; [apply Tally_set_rel; assumption|]. split; [exact HMm|].
           split; [lia|]. split; [exact Hlen|]. split; [exact Hnd|]. split.
           { intros v Hin Ha o Ho.
             apply (hjust_mono _ _ _ [EngineAck s [fbase f + off]; DlqConfirm s (fbase f + off) true]).
             eapply Hj; eassumption. }
           split; [exact Hv|]. intros k Hk'.
           unfold dfree. simpl. rewrite !dlq_state_cons. simpl.
           destruct (Nat.eqb_spec k (fbase f + off)); [lia|]. rewrite andb_false_r.
           apply P6; lia.
        -- apply (mode_inv_frame st _ s0 [EngineAck s [fbase f + off]; DlqConfirm s (fbase f + off) true]);
             auto; try apply (I_mode st HI).
           ++ intros e [<-|[<-|[]]]; simpl; [reflexivity|]. destruct (Nat.eqb_spec s s0); [congruence|reflexivity].
           ++ simpl. rewrite upd1_neq by exact Hne. reflexivity.
           ++ simpl. apply upd1_neq, Hne.
    + cbn [accepts_from]. apply andb_true_intro. split; [simpl; rewrite P5; reflexivity|].
      rewrite andb_true_r. unfold t. cbn [accept_ev v2 nsrc ndst length].
      rewrite nacked_cons, nreads_cons. cbn [plus].
      rewrite (I_rd st HI), (proj1 (I_ack st HI s)), <- Hk. cbn [seq]. rewrite nat_list_eqb_refl.
      replace (s <? N) with true by (symmetry; apply Nat.ltb_lt; exact Hs).
      replace (fbase f + off + 1 <=? nrd st s) with true by (symmetry; apply Nat.leb_le; lia).
      cbn [andb Nat.leb forallb]. rewrite !andb_true_r.
      unfold justified. cbn [existsb is_dlq_ok]. rewrite !Nat.eqb_refl. cbn [andb orb].
      rewrite orb_true_r. reflexivity.
  - (* the DLQ write failed: the error goes back to the voting branch, nothing is released *)
    eapply good_event; [|reflexivity|].
    + eapply (inv_engine_events st _ [DlqConfirm s (fbase f + off) false]); try reflexivity; auto.
      * intros e [<-|[]]. reflexivity.
      * intros s0. simpl. rewrite nacked_cons. simpl. apply (I_ack st HI).
      * intros s0. destruct (Nat.eq_dec s0 s) as [->|Hne].
        -- unfold mode_inv. simpl. rewrite upd1_eq. unfold fan_inv. simpl.
           split; [exact Hs|]. split; [exact HT|]. split; [exact HMm|].
           split; [exact Hb|]. split; [exact Hlen|]. split; [exact Hnd|]. split.
           { intros v Hin Ha o Ho. apply (hjust_mono _ _ _ [DlqConfirm s (fbase f + off) false]).
             eapply Hj; eassumption. }
           split; [exact Hv|]. intros k Hk'.
           unfold dfree. simpl. rewrite dlq_state_cons. simpl. rewrite Nat.eqb_refl. simpl.
           destruct (Nat.eqb_spec k (fbase f + off)); [right; reflexivity|]. apply P6; assumption.
        -- apply (mode_inv_frame st _ s0 [DlqConfirm s (fbase f + off) false]);
             auto; try apply (I_mode st HI).
           ++ intros e [<-|[]]. simpl. destruct (Nat.eqb_spec s s0); [congruence|reflexivity].
           ++ simpl. apply upd1_neq, Hne.
    + simpl. rewrite P5. reflexivity.
Qed.

(* a terminal, acked slot of the tally is justified in the log: every branch voted ack for it,
   and a branch votes ack only for what its destination confirmed or a processor filtered *)
Lemma acked_slot_justified st s f i :
  Inv st -> mode st s = WFan f ->
  nth i (term (fm f)) false = true -> nth i (ackd (fm f)) false = true ->
  justified t (hist st) s (fbase f + i) = true.
Proof.
  intros HI Em Ht Ha.
  pose proof (I_mode st HI s) as Hm. unfold mode_inv in Hm. rewrite Em in Hm.
  destruct Hm as (Hs & HT & HMm & Hb & Hlen & Hnd & Hj & Hv & Hph).
  pose proof (T_ack _ _ HT i Ht Ha) as Hc. rewrite HMm in Hc.
  pose proof (votes_once_of_all M (fvs f) Hnd) as Hon.
  pose proof (unanimous_of_count M (fvs f) i Hon Hc) as Hall.
  unfold justified. simpl ndst.
  destruct (existsb (is_filt None s (fbase f + i)) (hist st)) eqn:Eg; [reflexivity|].
  simpl. apply orb_true_iff. right. apply forallb_forall. intros d Hd. apply in_seq in Hd.
  destruct (votes_for_In _ _ _ _ (Hall d ltac:(lia))) as [v (Hin & Hva & Hvb & Hvi)].
  specialize (Hj v Hin Hva i Hvi). rewrite Hvb in Hj. unfold hjust in Hj. rewrite Eg in Hj.
  simpl in Hj. rewrite orb_comm. exact Hj.
Qed.

Lemma step_ARel st s st' : Inv st -> step N M st (ARel s) = Some st' -> Good st st'.
Proof.
  intros HI H. cbn [step] in H. destruct (mode st s) as [|f| |] eqn:Em; try discriminate.
  destruct (fph f) eqn:Ep; try discriminate.
  pose proof (I_mode st HI s) as Hm. unfold mode_inv in Hm. rewrite Em in Hm.
  destruct Hm as (Hs & HT & HMm & Hb & Hlen & Hnd & Hj & Hv & Hph). rewrite Ep in Hph.
  destruct (next_release (fm f)) as [c|] eqn:En.
  2:{ injection H as <-. apply good_set_mode; [exact HI|]. unfold mode_inv. simpl. rewrite upd1_eq.
      unfold fan_inv. simpl. splits; auto. }
  destruct (next_release_spec _ _ (T_wf _ _ HT) En) as [Hok Hc].
  destruct c as [a b|i|i]; [| |contradiction].
  - (* parent.Ack for the run [a,b) *)
    destruct Hc as [-> Hb']. destruct Hok as [Hab Hall]. injection H as <-.
    assert (W' : wf (set_rel (fm f) b)).
    { apply wf_set_rel; [apply HT|exact Hb'|]. intros i Hi.
      destruct (lt_dec i (mrel (fm f))); [apply (wf_released_terminal _ (T_wf _ _ HT)); assumption|].
      apply Hall. lia. }
    eapply good_event; [|reflexivity|].
    + eapply (inv_engine_events st _ [EngineAck s (seq (fbase f + mrel (fm f)) (b - mrel (fm f)))]);
        try reflexivity; auto.
      * intros e [<-|[]]. reflexivity.
      * intros s0. simpl. rewrite nacked_cons, seq_length. destruct (I_ack st HI s0) as [Hx Hle].
        unfold upd1. rewrite Hx. destruct (Nat.eqb_spec s0 s) as [->|Hne]; lia.
      * intros s0. destruct (Nat.eq_dec s0 s) as [->|Hne].
        -- unfold mode_inv. simpl. rewrite !upd1_eq. unfold fan_inv. simpl. rewrite ?upd1_eq.
           split; [exact Hs|]. split; [apply Tally_set_rel; assumption|]. split; [exact HMm|].
           split; [reflexivity|]. split; [exact Hlen|]. split; [exact Hnd|]. split.
           { intros v Hin Ha o Ho.
             apply (hjust_mono _ _ _ [EngineAck s (seq (fbase f + mrel (fm f)) (b - mrel (fm f)))]).
             eapply Hj; eassumption. }
           split; [exact Hv|]. intros k Hk'.
           eapply dfree_engine_ack; [reflexivity|]. apply Hph. lia.
        -- apply (mode_inv_frame st _ s0 [EngineAck s (seq (fbase f + mrel (fm f)) (b - mrel (fm f)))]);
             auto; try apply (I_mode st HI).
           ++ intros e [<-|[]]. reflexivity.
           ++ simpl. rewrite upd1_neq by exact Hne. reflexivity.
           ++ simpl. apply upd1_neq, Hne.
    + unfold t. cbn [accept_ev v2 nsrc ndst].
      rewrite seq_length, (I_rd st HI), (proj1 (I_ack st HI s)), <- Hb, nat_list_eqb_refl.
      replace (s <? N) with true by (symmetry; apply Nat.ltb_lt; exact Hs).
      replace (1 <=? b - mrel (fm f)) with true by (symmetry; apply Nat.leb_le; lia).
      replace (fbase f + mrel (fm f) + (b - mrel (fm f)) <=? nrd st s) with true
        by (symmetry; apply Nat.leb_le; lia).
      cbn [andb]. rewrite andb_true_r. apply forallb_forall. intros k Hk. apply in_seq in Hk.
      replace k with (fbase f + (k - fbase f)) by lia.
      destruct (Hall (k - fbase f) ltac:(lia)) as [Ht Ha].
      eapply acked_slot_justified; eassumption.
  - (* parent.Nack for slot i: the DLQ write goes out *)
    destruct Hc as [-> Hi]. destruct Hok as [Ht Ha]. injection H as <-.
    eapply good_event; [|reflexivity|].
    + eapply (inv_engine_events st _ [DlqWrite s (fbase f + mrel (fm f))]); try reflexivity; auto.
      * intros e [<-|[]]. reflexivity.
      * intros s0. simpl. rewrite nacked_cons. simpl. apply (I_ack st HI).
      * intros s0. destruct (Nat.eq_dec s0 s) as [->|Hne].
        -- unfold mode_inv. simpl. rewrite !upd1_eq. unfold fan_inv. simpl.
           split; [exact Hs|]. split; [exact HT|]. split; [exact HMm|].
           split; [exact Hb|]. split; [exact Hlen|]. split; [exact Hnd|]. split.
           { intros v Hin Hva o Ho. apply (hjust_mono _ _ _ [DlqWrite s (fbase f + mrel (fm f))]).
             eapply Hj; eassumption. }
           split; [exact Hv|]. split; [reflexivity|]. split; [exact Hi|]. split; [exact Ht|].
           split; [exact Ha|]. split.
           ++ rewrite dlq_state_cons. simpl. rewrite !Nat.eqb_refl. reflexivity.
           ++ intros k Hk Hne. unfold dfree. simpl. rewrite dlq_state_cons. simpl.
              destruct (Nat.eqb_spec k (fbase f + mrel (fm f))); [contradiction|].
              rewrite andb_false_r. apply Hph, Hk.
        -- apply (mode_inv_frame st _ s0 [DlqWrite s (fbase f + mrel (fm f))]);
             auto; try apply (I_mode st HI).
           ++ intros e [<-|[]]. simpl. destruct (Nat.eqb_spec s s0); [congruence|reflexivity].
           ++ simpl. apply upd1_neq, Hne.
    + unfold t. cbn [accept_ev v2 nsrc ndst].
      rewrite (I_rd st HI), (proj1 (I_ack st HI s)), <- Hb, Nat.sub_diag.
      replace (s <? N) with true by (symmetry; apply Nat.ltb_lt; exact Hs).
      replace (fbase f + mrel (fm f) <? nrd st s) with true by (symmetry; apply Nat.ltb_lt; lia).
      rewrite Nat.leb_refl. cbn [andb seq forallb].
      destruct (Hph (fbase f + mrel (fm f)) ltac:(lia)) as [E|E]; rewrite E; reflexivity.
Qed.

Lemma nodup_nat_cnt l i : nodup_nat l = true -> cnt l i <= 1.
Proof.
  induction l as [|x l IH]; intros H; [unfold cnt; simpl; lia|].
  simpl in H. apply andb_prop in H as [Hx Hl]. apply negb_true_iff in Hx.
  unfold cnt in *. simpl. destruct (Nat.eq_dec x i) as [->|Hne]; [|apply IH, Hl].
  assert (count_occ Nat.eq_dec l i = 0); [|lia].
  apply count_occ_not_In. intros Hin. apply not_true_iff_false in Hx. apply Hx.
  apply existsb_exists. exists i. split; [exact Hin|apply Nat.eqb_refl].
Qed.

Lemma cnt_pos_In l i : 1 <= cnt l i -> In i l.
Proof. unfold cnt. intros H. apply (count_occ_In Nat.eq_dec). lia. Qed.

Lemma existsb_eqb_In off l : existsb (Nat.eqb off) l = true <-> In off l.
Proof.
  rewrite existsb_exists. split.
  - intros [x [Hin Hx]]. apply Nat.eqb_eq in Hx. subst. exact Hin.
  - intros H. exists off. split; [exact H|apply Nat.eqb_refl].
Qed.

Lemma all_votes_snoc i vs v : all_votes i (vs ++ [v]) = all_votes i vs ++ repeat (vb v) (cnt (vidx v) i).
Proof. unfold all_votes. rewrite flat_map_app. simpl. rewrite app_nil_r. reflexivity. Qed.

Lemma bjust_hjust st d s k : Inv st -> bjust st d s k = true -> hjust d s k (hist st) = true.
Proof.
  intros HI H. unfold bjust in H. unfold hjust. rewrite (I_gfl st HI), (I_dfl st HI).
  apply orb_prop in H as [H|H]; [rewrite H; reflexivity|].
  destruct (seen st d s k) as [[|]|] eqn:E; try discriminate.
  rewrite (I_seen st HI _ _ _ E). apply orb_true_r.
Qed.

Lemma step_AVote st s b isack offs st' :
  Inv st -> step N M st (AVote s b isack offs) = Some st' -> Good st st'.
Proof.
  intros HI H. cbn [step] in H. destruct (mode st s) as [|f| |] eqn:Em; try discriminate.
  destruct (fph f) eqn:Ep; try discriminate.
  match type of H with (if ?c then _ else _) = _ => destruct c eqn:Eg; [|discriminate] end.
  injection H as <-.
  apply andb_prop in Eg as [Eg Ejust]. apply andb_prop in Eg as [Eg Eoffs].
  apply andb_prop in Eg as [Eb End]. apply Nat.ltb_lt in Eb.
  rewrite forallb_forall in Eoffs.
  pose proof (I_mode st HI s) as Hm. unfold mode_inv in Hm. rewrite Em in Hm.
  destruct Hm as (Hs & HT & HMm & Hb & Hlen & Hnd & Hj & Hv & Hph). rewrite Ep in Hph.
  set (v := V b isack offs []).
  destruct (tally isack (fm f) offs) as [m1 ok] eqn:Et.
  destruct (Tally_tally (fvs f) (fm f) v m1 ok HT Et) as [HT1 (SM & SL & SR & _)].
  apply good_set_mode; [exact HI|]. unfold mode_inv. simpl. rewrite upd1_eq.
  unfold fan_inv. simpl fbase. simpl fm. simpl fvs. simpl fph. fold v.
  split; [exact Hs|]. split; [exact HT1|]. split; [congruence|]. split; [simpl; lia|].
  split; [simpl; lia|]. split; [|split; [|split]].
  - intros i. rewrite all_votes_snoc. simpl vb. simpl vidx. destruct (Hnd i) as [Hn1 Hn2].
    pose proof (nodup_nat_cnt offs i End) as Hc. split.
    + destruct (cnt offs i) as [|[|c]] eqn:Ec; [simpl; rewrite app_nil_r; exact Hn1| |lia].
      simpl. apply NoDup_snoc; [exact Hn1|].
      assert (Hin : In i offs) by (apply cnt_pos_In; lia).
      specialize (Eoffs i Hin). apply andb_prop in Eoffs as [_ Hvo]. apply negb_true_iff in Hvo.
      apply Hv, Hvo.
    + intros x Hx. apply in_app_or in Hx as [Hx|Hx]; [apply Hn2, Hx|].
      apply repeat_spec in Hx. subst. exact Eb.
  - intros v' Hin Hva off Ho. apply in_app_or in Hin as [Hin|[<-|[]]].
    + simpl. eapply Hj; eassumption.
    + simpl in *. subst isack. rewrite forallb_forall in Ejust.
      apply bjust_hjust; [exact HI|]. apply Ejust, Ho.
  - intros b' off Hvo. unfold voted in Hvo. rewrite existsb_app in Hvo.
    apply orb_false_iff in Hvo as [Hv1 Hv2]. simpl in Hv2. rewrite orb_false_r in Hv2.
    rewrite all_votes_snoc. simpl vb. simpl vidx. intros Hin.
    apply in_app_or in Hin as [Hin|Hin]; [exact (Hv b' off Hv1 Hin)|].
    pose proof (repeat_spec _ _ _ Hin) as Hbb. subst b'. rewrite Nat.eqb_refl in Hv2. simpl in Hv2.
    assert (Hni : ~ In off offs).
    { intros Hx. apply existsb_eqb_In in Hx. congruence. }
    assert (cnt offs off = 0) by (apply count_occ_not_In, Hni).
    rewrite H in Hin. contradiction.
  - simpl. exact Hph.
Qed.

Lemma step_good st a st' : Inv st -> step N M st a = Some st' -> Good st st'.
Proof.
  intros HI H. destruct a.
  - eapply step_ARd; eassumption.
  - eapply step_AGFilt; eassumption.
  - eapply step_ADFilt; eassumption.
  - eapply step_AWr; eassumption.
  - eapply step_ACf; eassumption.
  - eapply step_AUnlock; eassumption.
  - eapply step_APoison; eassumption.
  - eapply step_ADAck; eassumption.
  - eapply step_ADNackW; eassumption.
  - destruct (mode st s) as [|f|a n c okp failed|] eqn:Em.
    + cbn [step] in H. rewrite Em in H. discriminate.
    + destruct (fph f) eqn:Ep; try (cbn [step] in H; rewrite Em, Ep in H; discriminate).
      eapply step_ADlqCf_fan; eassumption.
    + eapply step_ADlqCf_lin; eassumption.
    + cbn [step] in H. rewrite Em in H. discriminate.
  - eapply step_ADNackDone; eassumption.
  - eapply step_AFOpen; eassumption.
  - eapply step_AVote; eassumption.
  - eapply step_ARel; eassumption.
  - eapply step_AFClose; eassumption.
  - eapply step_ADie; eassumption.
Qed.

Lemma run_from_good : forall acts st,
  Inv st -> accepts_from t [] (rev (hist st)) = true ->
  Inv (fold_left (step' N M) acts st) /\
  accepts_from t [] (rev (hist (fold_left (step' N M) acts st))) = true.
Proof.
  induction acts as [|a acts IH]; intros st HI Ha; [auto|].
  simpl. destruct (step N M st a) as [st1|] eqn:Es.
  2:{ assert (E : step' N M st a = st) by (unfold step'; rewrite Es; reflexivity).
      rewrite E. apply IH; assumption. }
  assert (E : step' N M st a = st1) by (unfold step'; rewrite Es; reflexivity). rewrite E.
  destruct (step_good _ _ _ HI Es) as [HI1 [em [Hh Hem]]]. apply IH; [exact HI1|].
  rewrite Hh, rev_app_distr, rev_involutive, accepts_from_app, Ha, rev_involutive, app_nil_r.
  exact Hem.
Qed.

End Inv.

(* ---------- the theorems ---------- *)
Definition topo_v2 (N M : nat) : topo := mkTopo true N M true.

(* every schedule of the v2 system yields a log the acceptor accepts *)
Theorem sysv2_trace_accepted N M acts : 1 <= M -> accepts (topo_v2 N M) (trace N M acts) = true.
Proof.
  intros HM. unfold accepts, trace, run, topo_v2. simpl ndst.
  replace (1 <=? M) with true by (symmetry; apply Nat.leb_le; exact HM). simpl.
  apply (run_from_good N M HM acts init); [apply Inv_init|reflexivity].
Qed.

Theorem c01_v2 N M acts : 1 <= M -> C01_holds (topo_v2 N M) (trace N M acts).
Proof. intros HM. apply mon01_sound, accepted_mon01, sysv2_trace_accepted, HM. Qed.

Theorem acks_prefix_v2 N M acts : 1 <= M -> C04_holds (topo_v2 N M) (trace N M acts).
Proof. intros HM. apply mon04_sound, accepted_mon04, sysv2_trace_accepted, HM. Qed.

Theorem dest_order_v2 N M acts : 1 <= M -> C05_holds (topo_v2 N M) (trace N M acts).
Proof.
  intros HM. apply mon05_sound, accepted_mon05; [reflexivity|apply sysv2_trace_accepted, HM].
Qed.

(* ---------- a dead worker never acks again ---------- *)
Ltac crush_step H :=
  repeat match type of H with
  | (match ?x with _ => _ end) = Some _ => destruct x eqn:?; try discriminate
  | (if ?c then _ else _) = Some _ => destruct c eqn:?; try discriminate
  end.

Lemma nacked_dlqw_block s s' a n : nacked s (rev (map (DlqWrite s') (seq a n))) = 0.
Proof.
  unfold nacked, acks_of. rewrite length_flat_map_rev. induction (seq a n); simpl; auto.
Qed.

Lemma dead_step N M st a st' s :
  mode st s = WDead -> step N M st a = Some st' ->
  mode st' s = WDead /\ nacked s (hist st') = nacked s (hist st).
Proof.
  intros Hd H.
  destruct a as [s0 n|s0 k|d s0 k|d s0 k|d ok|d|d|s0 n|s0 n|s0 ok|s0|s0 len|s0 b isack offs|s0|s0|s0];
    cbn [step] in H;
    try (destruct (Nat.eq_dec s0 s) as [->|Hne]; [rewrite Hd in H; try discriminate|]);
    crush_step H; try discriminate;
    try (injection H as <-); simpl;
    rewrite ?upd1_neq by (try exact Hne; auto);
    rewrite ?nacked_app, ?nacked_reads, ?nacked_dlqw_block, ?nacked_cons; simpl;
    try (destruct (Nat.eqb_spec s s0); [congruence|]); auto.
  destruct okp; simpl; rewrite ?nacked_cons; simpl;
    try (destruct (Nat.eqb_spec s s0); [congruence|]); auto.
Qed.

Lemma dead_run N M s : forall acts st,
  mode st s = WDead ->
  mode (fold_left (step' N M) acts st) s = WDead /\
  nacked s (hist (fold_left (step' N M) acts st)) = nacked s (hist st).
Proof.
  induction acts as [|a acts IH]; intros st Hd; [auto|].
  simpl. destruct (step N M st a) as [st1|] eqn:Es.
  - assert (E : step' N M st a = st1) by (unfold step'; rewrite Es; reflexivity). rewrite E.
    destruct (dead_step _ _ _ _ _ _ Hd Es) as [Hd1 Hn1].
    destruct (IH st1 Hd1) as [Hd2 Hn2]. split; [exact Hd2|congruence].
  - assert (E : step' N M st a = st) by (unfold step'; rewrite Es; reflexivity). rewrite E.
    apply IH, Hd.
Qed.

(* once worker s is dead (its Do returned: stop, failure, cancellation), no later schedule makes
   the engine ack anything more to source s *)
Theorem stop_or_fail_never_acks_v2 N M acts1 acts2 s :
  mode (run N M acts1) s = WDead ->
  length (acks_of s (trace N M (acts1 ++ acts2))) = length (acks_of s (trace N M acts1)).
Proof.
  intros Hd. unfold trace, run in *. rewrite fold_left_app.
  destruct (dead_run N M s acts2 _ Hd) as [_ Hn].
  rewrite <- !nacked_rev, !rev_involutive. exact Hn.
Qed.
