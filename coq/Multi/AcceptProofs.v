(* Every log the acceptor accepts satisfies the three monitors (hence the three properties). *)
From Verif Require Import Multi.Trace Multi.TraceProofs Multi.Accept.

(* ---------- toolkit ---------- *)
Lemma length_flat_map_rev {A B} (f : A -> list B) l :
  length (flat_map f (rev l)) = length (flat_map f l).
Proof.
  induction l as [|a l IH]; [reflexivity|].
  simpl. rewrite flat_map_app, !app_length, IH. simpl. rewrite app_nil_r. lia.
Qed.

Lemma nreads_rev s l : nreads s (rev l) = length (reads_of s l).
Proof. apply length_flat_map_rev. Qed.
Lemma nacked_rev s l : nacked s (rev l) = length (acks_of s l).
Proof. apply length_flat_map_rev. Qed.

Lemma nat_list_eqb_eq a : forall b, nat_list_eqb a b = true <-> a = b.
Proof.
  induction a as [|x a IH]; intros [|y b]; simpl; try (split; congruence).
  rewrite andb_true_iff, Nat.eqb_eq, IH. split; [intros [-> ->]; reflexivity|].
  intros H; injection H as -> ->; auto.
Qed.

Lemma reads_of_app s l1 l2 : reads_of s (l1 ++ l2) = reads_of s l1 ++ reads_of s l2.
Proof. apply flat_map_app. Qed.
Lemma acks_of_app s l1 l2 : acks_of s (l1 ++ l2) = acks_of s l1 ++ acks_of s l2.
Proof. apply flat_map_app. Qed.
Lemma writes_of_app d s l1 l2 : writes_of d s (l1 ++ l2) = writes_of d s l1 ++ writes_of d s l2.
Proof. apply flat_map_app. Qed.

Lemma accepts_from_app t : forall l1 l2 pre,
  accepts_from t pre (l1 ++ l2) = accepts_from t pre l1 && accepts_from t (rev l1 ++ pre) l2.
Proof.
  induction l1 as [|e l1 IH]; intros l2 pre; [reflexivity|].
  simpl. rewrite IH, <- app_assoc, andb_assoc. reflexivity.
Qed.

(* the acceptor is prefix closed *)
Lemma accepts_from_firstn t n log pre :
  accepts_from t pre log = true -> accepts_from t pre (firstn n log) = true.
Proof.
  intros H. rewrite <- (firstn_skipn n log) in H. rewrite accepts_from_app in H.
  apply andb_prop in H as [H _]. exact H.
Qed.

Lemma accepts_from_snoc t l e :
  accepts_from t [] (l ++ [e]) = accepts_from t [] l && accept_ev t (rev l) e.
Proof. rewrite accepts_from_app. simpl. rewrite app_nil_r, andb_true_r. reflexivity. Qed.

(* ---------- C01 ---------- *)
Lemma accepts_mon01_from t : forall rest pre,
  accepts_from t pre rest = true -> mon01_from t pre rest = true.
Proof.
  induction rest as [|e rest IH]; intros pre H; [reflexivity|].
  simpl in H. apply andb_prop in H as [He Hr]. simpl. rewrite (IH _ Hr), andb_true_r.
  destruct e as [| | | | | |s ks]; try reflexivity.
  simpl in He. repeat (apply andb_prop in He as [He ?]). assumption.
Qed.

Theorem accepted_mon01 t log : accepts t log = true -> Mon_C01 t log = true.
Proof.
  unfold accepts, Mon_C01. intros H. apply andb_prop in H as [H1 H2].
  rewrite H1. simpl. apply accepts_mon01_from, H2.
Qed.

(* ---------- C04 ---------- *)
(* reads and acks of every source are initial segments of the naturals, acks behind reads *)
Definition seg_inv (l : list event) : Prop :=
  forall s, reads_of s l = seq 0 (length (reads_of s l)) /\
            acks_of s l = seq 0 (length (acks_of s l)) /\
            length (acks_of s l) <= length (reads_of s l).

Lemma seq_snoc a n : seq a n ++ [a + n] = seq a (S n).
Proof. rewrite seq_S. reflexivity. Qed.

Lemma seg_inv_step t l e :
  seg_inv l -> accept_ev t (rev l) e = true -> seg_inv (l ++ [e]).
Proof.
  intros Hinv He s. destruct (Hinv s) as [Hr [Ha Hle]].
  rewrite reads_of_app, acks_of_app.
  destruct e as [s' k| | | | | |s' ks]; simpl;
    try (rewrite !app_nil_r; auto).
  - (* Read *)
    destruct (s =? s') eqn:E; [|rewrite !app_nil_r; auto].
    apply Nat.eqb_eq in E. subst s'. simpl in He.
    apply andb_prop in He as [He _]. apply andb_prop in He as [_ Hk].
    apply Nat.eqb_eq in Hk. rewrite nreads_rev in Hk. subst k.
    rewrite app_length. simpl. split; [|split; [exact Ha|lia]].
    rewrite Hr at 1. rewrite Nat.add_1_r. apply (seq_snoc 0).
  - (* EngineAck *)
    destruct (s =? s') eqn:E; [|rewrite !app_nil_r; auto].
    apply Nat.eqb_eq in E. subst s'. simpl in He.
    apply andb_prop in He as [He _]. apply andb_prop in He as [He _].
    apply andb_prop in He as [He Hb]. apply andb_prop in He as [_ Hks].
    apply nat_list_eqb_eq in Hks. apply Nat.leb_le in Hb.
    rewrite nacked_rev in Hks, Hb. rewrite nreads_rev in Hb.
    rewrite app_length. split; [exact Hr|split; [|lia]].
    rewrite Hks at 1. rewrite Ha at 1. rewrite <- seq_app. reflexivity.
Qed.

Lemma seg_inv_accepted t : forall log, accepts_from t [] log = true -> seg_inv log.
Proof.
  induction log as [|e log IH] using rev_ind; intros H.
  - intros s. simpl. auto.
  - rewrite accepts_from_snoc in H. apply andb_prop in H as [H1 H2].
    eapply seg_inv_step; [apply IH, H1|exact H2].
Qed.

Lemma accepted_ack_src t : forall log, accepts_from t [] log = true ->
  forall s ks, In (EngineAck s ks) log -> s < nsrc t.
Proof.
  induction log as [|e log IH] using rev_ind; intros H s ks Hin; [contradiction|].
  rewrite accepts_from_snoc in H. apply andb_prop in H as [H1 H2].
  apply in_app_or in Hin as [Hin|[->|[]]]; [eapply IH; eassumption|].
  simpl in H2. repeat (apply andb_prop in H2 as [H2 _]). apply Nat.ltb_lt, H2.
Qed.

Theorem accepted_mon04 t log : accepts t log = true -> Mon_C04 t log = true.
Proof.
  unfold accepts. intros H. apply andb_prop in H as [_ H].
  apply mon04_sound. split; [eapply accepted_ack_src, H|].
  intros s _. split.
  - destruct (seg_inv_accepted t log H s) as [_ [Ha _]]. rewrite Ha. apply seq_NoDup.
  - intros n. pose proof (accepts_from_firstn t n log [] H) as Hn.
    destruct (seg_inv_accepted t _ Hn s) as [Hr [Ha Hle]].
    exists (seq (length (acks_of s (firstn n log)))
                (length (reads_of s (firstn n log)) - length (acks_of s (firstn n log)))).
    rewrite Hr at 1. rewrite Ha at 1. rewrite <- seq_app. f_equal. lia.
Qed.

(* ---------- C05 ---------- *)
Lemma incrb_snoc l k :
  incrb l = true -> (forall j, In j l -> j < k) -> incrb (l ++ [k]) = true.
Proof.
  induction l as [|a l IH]; intros Hi Hlt; [reflexivity|].
  cbn [incrb] in Hi. apply andb_prop in Hi as [Hhd Htl].
  change ((a :: l) ++ [k]) with (a :: (l ++ [k])). cbn [incrb].
  rewrite IH; [|exact Htl|intros j Hj; apply Hlt; right; exact Hj].
  rewrite andb_true_r. destruct l as [|b l]; simpl.
  - apply Nat.ltb_lt, Hlt. left. reflexivity.
  - exact Hhd.
Qed.

Lemma incrb_all_lt_last l : incrb l = true ->
  forall j, In j l -> j <= last l 0.
Proof.
  induction l as [|a l IH]; intros Hi j Hj; [contradiction|].
  cbn [incrb] in Hi. apply andb_prop in Hi as [Hhd Htl].
  destruct l as [|b l]; [destruct Hj as [->|[]]; simpl; lia|].
  apply Nat.ltb_lt in Hhd.
  change (last (a :: b :: l) 0) with (last (b :: l) 0).
  destruct Hj as [->|Hj]; [|apply IH; assumption].
  specialize (IH Htl b (or_introl eq_refl)). lia.
Qed.

(* newest write in the reversed prefix = last element of the forward write list *)
Lemma last_write_rev d s : forall l,
  last_write d s (rev l) =
  match writes_of d s l with [] => None | _ => Some (last (writes_of d s l) 0) end.
Proof.
  induction l as [|e l IH] using rev_ind; [reflexivity|].
  rewrite rev_app_distr, writes_of_app. simpl rev. simpl app.
  unfold last_write in *. cbn [find].
  destruct (is_write d s e) eqn:E.
  - destruct e as [| |d' s' k| | | |]; try discriminate. simpl in E.
    simpl. rewrite E. destruct (writes_of d s l); simpl.
    + reflexivity.
    + rewrite last_last. destruct (l0 ++ [k]) eqn:E2; [destruct l0; discriminate|reflexivity].
  - rewrite IH. destruct e as [| |d' s' k| | | |]; simpl; rewrite ?app_nil_r; try reflexivity.
    simpl in E. rewrite E. rewrite app_nil_r. reflexivity.
Qed.

Lemma accepted_writes_incr t d s : forall log,
  accepts_from t [] log = true -> incrb (writes_of d s log) = true.
Proof.
  induction log as [|e log IH] using rev_ind; intros H; [reflexivity|].
  rewrite accepts_from_snoc in H. apply andb_prop in H as [H1 H2].
  specialize (IH H1). rewrite writes_of_app.
  destruct e as [| |d' s' k| | | |]; simpl; rewrite ?app_nil_r; try exact IH.
  destruct ((d =? d') && (s =? s')) eqn:E; [|rewrite app_nil_r; exact IH].
  apply andb_prop in E as [E1 E2]. apply Nat.eqb_eq in E1, E2. subst d' s'.
  simpl in H2. repeat (apply andb_prop in H2 as [H2 ?]).
  match goal with Hl : match last_write _ _ _ with _ => _ end = true |- _ => rename Hl into Hlw end.
  rewrite last_write_rev in Hlw.
  apply incrb_snoc; [exact IH|]. intros j Hj.
  destruct (writes_of d s log) as [|a r] eqn:Ew; [contradiction|].
  apply Nat.ltb_lt in Hlw. pose proof (incrb_all_lt_last _ IH j Hj). lia.
Qed.

Lemma accepted_write_ids t : forall log, accepts_from t [] log = true ->
  forall e, In e log -> write_ids_ok t e = true.
Proof.
  induction log as [|e log IH] using rev_ind; intros H e' Hin; [contradiction|].
  rewrite accepts_from_snoc in H. apply andb_prop in H as [H1 H2].
  apply in_app_or in Hin as [Hin|[Heq|[]]]; [eapply IH; eassumption|]. subst e'.
  destruct e as [| |d s k| | | |]; try reflexivity.
  simpl in H2. repeat (apply andb_prop in H2 as [H2 ?]). simpl.
  apply andb_true_intro. split; assumption.
Qed.

Lemma accepted_filt_absent t : filt_strict t = true -> forall rest pre,
  accepts_from t pre rest = true -> filt_absent_from pre rest = true.
Proof.
  intros Hs. induction rest as [|e rest IH]; intros pre H; [reflexivity|].
  simpl in H. apply andb_prop in H as [He Hr]. simpl. rewrite (IH _ Hr), andb_true_r.
  destruct e as [| |d s k| | | |]; try reflexivity.
  simpl in He. rewrite Hs in He. repeat (apply andb_prop in He as [He ?]).
  unfold not_filtered. apply andb_true_intro. split; assumption.
Qed.

(* needs [filt_strict]: the engine keeps records filtered before the fan-out away from the
   destinations (always in v2; in v1 with one destination, or if Message.Clone copies the flag) *)
Theorem accepted_mon05 t log :
  filt_strict t = true -> accepts t log = true -> Mon_C05 t log = true.
Proof.
  unfold accepts, Mon_C05. intros Hs H. apply andb_prop in H as [_ H].
  rewrite !andb_true_iff. split; [split|].
  - apply forallb_forall. apply accepted_write_ids, H.
  - apply forallb_forall. intros d _. apply forallb_forall. intros s _.
    apply accepted_writes_incr with (t := t), H.
  - apply accepted_filt_absent with (t := t); assumption.
Qed.

(* without it the acceptor (faithfully) admits logs that violate C05: v1, two destinations, a
   filtered record reaches both of them because the fan-out clones lost the flag *)
Definition c05_refuting_log : list event :=
  [Read 0 0; Filt None 0 0; DestWrite 0 0 0; DestWrite 1 0 0;
   DestConfirm 0 0 0 true; DestConfirm 1 0 0 true; EngineAck 0 [0]].

Theorem accepted_mon05_refuted_without_ckf :
  exists t log, v2 t = false /\ ckf t = false /\ accepts t log = true /\ Mon_C05 t log = false.
Proof.
  exists (mkTopo false 1 2 false), c05_refuting_log. vm_compute. repeat split; reflexivity.
Qed.

Theorem accepted_monitors t log :
  accepts t log = true ->
  Mon_C01 t log = true /\ Mon_C04 t log = true /\ (filt_strict t = true -> Mon_C05 t log = true).
Proof.
  intros H. split; [apply accepted_mon01, H|split; [apply accepted_mon04, H|]].
  intros Hs. apply accepted_mon05; assumption.
Qed.
