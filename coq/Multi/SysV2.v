(* The arch-v2 engine as an interleaving transition system: N source workers (funnel.Worker, one
   goroutine each) x M destinations behind the shared sink.  Definitions only.

   What is modelled and which atomicity of the code each action relies on
   ---------------------------------------------------------------------
   ARd        Worker.Do -> SourceTask.Do: one Read per pass; the worker is a single goroutine and
              starts the next pass only when doTask returned nil, i.e. every record of the
              previous batch was acked or dead-lettered (guard wack = nrd).
   AGFilt     a ProcessorTask before the fan-out (source / pipeline processor) marked the record
              Filter.  ADFilt: a processor inside the branch of destination d did.
   AWr        DestinationTask.Do calls Destination.Write for the active records of its sub-batch.
              Guards: the record is not filtered for that branch (Batch.ActiveRecords); per
              (destination, source) the worker hands records over left to right (doTaskAttempt's
              idx cursor, sub-batches are processed in order and a pass at a time); the
              destination's shared-sink lock is free or already held by this worker
              (TaskNode.sharedMu, taken in Worker.doTask at the shared boundary) and the
              destination is not poisoned (TaskNode.poisoned).  The record joins the
              destination's ack stream [dq] (single FIFO gRPC stream of the plugin).
   ACf        the destination answers the oldest outstanding record.  The DestinationTask that
              reads the reply is the one of the lock owner, and it credits the reply to ITS
              OWN record with that position (validateAcks compares position bytes only, and
              positions are unique only within a source): [seen] is what the engine believes.
   AUnlock    the pass through the shared node returned nil: every reply was read (dq empty).
   APoison    the pass returned an error: doTask stores poisoned before sharedMu is released.
   ADAck      linear path (no fan-out below this point): Worker.Ack for the next n records
              (doTaskAttempt acks a sub-batch only when the last task has run or the records
              are filtered).
   ADNackW / ADlqCf / ADNackDone
              linear path Worker.Nack: DLQ.Nack writes the run to the DLQ destination in one
              Write, reads all replies, then Source.Ack for the leading confirmed part; fewer
              than n confirmed = error = the worker is dead.
   AFOpen     Worker.doNextTask with several next tasks: newMultiAckNacker over the next len
              records (positions = offsets from fbase).
   AVote      one call of multiAckNacker.Ack / .Nack by branch b, the tally part, under m.mu.
              Guards: each branch votes once per position (runAckNacker / sub-batch
              partition), and votes ack only for records it believes confirmed by its
              destination, or filtered (DestinationTask.markBatchRecords leaves the Ack flag
              only on those).
   ARel / ADlqCf
              releaseLocked, still under the same m.mu (no other vote can interleave: phase);
              parent.Nack is Worker.Nack of one record: DLQ write, wait for the reply
              (PDlqWait), source ack.  A failed DLQ write returns the error to the voting
              branch; released is not advanced.
   AFClose    pool.Wait returned.  If not everything was released some branch failed: dead.
   ADie       any other reason the worker's Do returns (stop, context cancelled, error).
   Every action is one step; a step that is not enabled is skipped, so a list of actions is an
   arbitrary schedule. *)
From Verif Require Export Multi.Trace Multi.Multi.

Definition upd1 {A} (f : nat -> A) (i : nat) (x : A) : nat -> A :=
  fun a => if a =? i then x else f a.
Definition upd2 {A} (f : nat -> nat -> A) (i j : nat) (x : A) : nat -> nat -> A :=
  fun a b => if (a =? i) && (b =? j) then x else f a b.
Definition upd3 {A} (f : nat -> nat -> nat -> A) (i j k : nat) (x : A) : nat -> nat -> nat -> A :=
  fun a b c => if (a =? i) && (b =? j) && (c =? k) then x else f a b c.

Inductive phase := PFree | PReleasing | PDlqWait (off : nat).

Record fanout := mkFo {
  fbase : nat;          (* emission index of offset 0 *)
  fm    : mstate;       (* the multiAckNacker *)
  fvs   : list vote;    (* ghost: the votes tallied so far *)
  fph   : phase
}.

Inductive wmode :=
| WIdle
| WFan (f : fanout)
| WDlq (a n c okp : nat) (failed : bool)  (* linear nack of [a,a+n): c replies read, okp leading ok *)
| WDead.

Record sys := mkS {
  hist : list event;                         (* newest first *)
  nrd  : nat -> nat;                         (* records read per source *)
  wack : nat -> nat;                         (* records acked per source *)
  mode : nat -> wmode;
  gfl  : nat -> nat -> bool;                 (* s k: filtered before the fan-out *)
  dfl  : nat -> nat -> nat -> bool;          (* d s k: filtered in branch d *)
  wcur : nat -> nat -> nat;                  (* d s: 1 + last emission index handed to d *)
  dq   : nat -> list (nat * nat);            (* d: the destination's outstanding records, oldest first *)
  own  : nat -> option nat;                  (* d: holder of sharedMu *)
  poi  : nat -> bool;                        (* d: poisoned *)
  seen : nat -> nat -> nat -> option bool    (* d s k: reply the engine attributed to (s,k) *)
}.

Definition init : sys :=
  mkS [] (fun _ => 0) (fun _ => 0) (fun _ => WIdle) (fun _ _ => false) (fun _ _ _ => false)
      (fun _ _ => 0) (fun _ => []) (fun _ => None) (fun _ => false) (fun _ _ _ => None).

Inductive act :=
| ARd (s n : nat)
| AGFilt (s k : nat)
| ADFilt (d s k : nat)
| AWr (d s k : nat)
| ACf (d : nat) (ok : bool)
| AUnlock (d : nat)
| APoison (d : nat)
| ADAck (s n : nat)
| ADNackW (s n : nat)
| ADlqCf (s : nat) (ok : bool)
| ADNackDone (s : nat)
| AFOpen (s len : nat)
| AVote (s b : nat) (isack : bool) (offs : list nat)
| ARel (s : nat)
| AFClose (s : nat)
| ADie (s : nat).

(* what branch d believes about record (s,k) *)
Definition bjust (st : sys) (d s k : nat) : bool :=
  gfl st s k || dfl st d s k ||
  match seen st d s k with Some true => true | _ => false end.

(* the whole record is ackable on the linear path *)
Definition ljust (M : nat) (st : sys) (s k : nat) : bool :=
  gfl st s k || forallb (fun d => dfl st d s k || match seen st d s k with Some true => true | _ => false end)
                        (seq 0 M).

Definition pair_eqb (p q : nat * nat) : bool := (fst p =? fst q) && (snd p =? snd q).

Definition voted (vs : list vote) (b off : nat) : bool :=
  existsb (fun v => (vb v =? b) && existsb (Nat.eqb off) (vidx v)) vs.

Fixpoint nodup_nat (l : list nat) : bool :=
  match l with [] => true | x :: r => negb (existsb (Nat.eqb x) r) && nodup_nat r end.

Definition set_hist st h := mkS h (nrd st) (wack st) (mode st) (gfl st) (dfl st) (wcur st) (dq st) (own st) (poi st) (seen st).
Definition set_mode st s m := mkS (hist st) (nrd st) (wack st) (upd1 (mode st) s m) (gfl st) (dfl st) (wcur st) (dq st) (own st) (poi st) (seen st).

Definition step (N M : nat) (st : sys) (a : act) : option sys :=
  match a with
  | ARd s n =>
      match mode st s with
      | WIdle =>
          if (s <? N) && (1 <=? n) && (wack st s =? nrd st s) then
            Some (mkS (rev (map (Read s) (seq (nrd st s) n)) ++ hist st)
                      (upd1 (nrd st) s (nrd st s + n)) (wack st) (mode st) (gfl st) (dfl st) (wcur st)
                      (dq st) (own st) (poi st) (seen st))
          else None
      | _ => None
      end
  | AGFilt s k =>
      if (s <? N) && (k <? nrd st s) && (wack st s <=? k) then
        Some (mkS (Filt None s k :: hist st) (nrd st) (wack st) (mode st) (upd2 (gfl st) s k true) (dfl st)
                  (wcur st) (dq st) (own st) (poi st) (seen st))
      else None
  | ADFilt d s k =>
      if (d <? M) && (s <? N) && (k <? nrd st s) then
        Some (mkS (Filt (Some d) s k :: hist st) (nrd st) (wack st) (mode st) (gfl st) (upd3 (dfl st) d s k true)
                  (wcur st) (dq st) (own st) (poi st) (seen st))
      else None
  | AWr d s k =>
      if (d <? M) && (s <? N) && (k <? nrd st s) && (wcur st d s <=? k) &&
         negb (gfl st s k) && negb (dfl st d s k) && negb (poi st d) &&
         (match own st d with None => true | Some s' => s' =? s end) &&
         (match mode st s with WDead => false | _ => true end)
      then
        Some (mkS (DestWrite d s k :: hist st) (nrd st) (wack st) (mode st) (gfl st) (dfl st)
                  (upd2 (wcur st) d s (S k)) (upd1 (dq st) d (dq st d ++ [(s, k)]))
                  (upd1 (own st) d (Some s)) (poi st) (seen st))
      else None
  | ACf d ok =>
      match own st d, dq st d with
      | Some s, (s', k') :: rest =>
          Some (mkS (DestConfirm d s' k' ok :: hist st) (nrd st) (wack st) (mode st) (gfl st) (dfl st)
                    (wcur st) (upd1 (dq st) d rest) (own st) (poi st) (upd3 (seen st) d s k' (Some ok)))
      | _, _ => None
      end
  | AUnlock d =>
      match own st d, dq st d with
      | Some _, [] =>
          Some (mkS (hist st) (nrd st) (wack st) (mode st) (gfl st) (dfl st) (wcur st) (dq st)
                    (upd1 (own st) d None) (poi st) (seen st))
      | _, _ => None
      end
  | APoison d =>
      match own st d with
      | Some _ =>
          Some (mkS (hist st) (nrd st) (wack st) (mode st) (gfl st) (dfl st) (wcur st) (dq st)
                    (upd1 (own st) d None) (upd1 (poi st) d true) (seen st))
      | None => None
      end
  | ADAck s n =>
      match mode st s with
      | WIdle =>
          if (s <? N) && (1 <=? n) && (wack st s + n <=? nrd st s) &&
             forallb (ljust M st s) (seq (wack st s) n)
          then Some (mkS (EngineAck s (seq (wack st s) n) :: hist st) (nrd st)
                         (upd1 (wack st) s (wack st s + n)) (mode st) (gfl st) (dfl st) (wcur st)
                         (dq st) (own st) (poi st) (seen st))
          else None
      | _ => None
      end
  | ADNackW s n =>
      match mode st s with
      | WIdle =>
          if (s <? N) && (1 <=? n) && (wack st s + n <=? nrd st s) then
            Some (set_mode (set_hist st (rev (map (DlqWrite s) (seq (wack st s) n)) ++ hist st))
                           s (WDlq (wack st s) n 0 0 false))
          else None
      | _ => None
      end
  | ADlqCf s ok =>
      match mode st s with
      | WDlq a n c okp failed =>
          if c <? n then
            Some (set_mode (set_hist st (DlqConfirm s (a + c) ok :: hist st)) s
                           (WDlq a n (S c) (if ok && negb failed then S okp else okp) (failed || negb ok)))
          else None
      | WFan f =>
          match fph f with
          | PDlqWait off =>
              let k := fbase f + off in
              if ok then
                Some (mkS (EngineAck s [k] :: DlqConfirm s k true :: hist st) (nrd st)
                          (upd1 (wack st) s (S (wack st s)))
                          (upd1 (mode st) s (WFan (mkFo (fbase f) (set_rel (fm f) (S off)) (fvs f) PReleasing)))
                          (gfl st) (dfl st) (wcur st) (dq st) (own st) (poi st) (seen st))
              else
                Some (set_mode (set_hist st (DlqConfirm s k false :: hist st)) s
                               (WFan (mkFo (fbase f) (fm f) (fvs f) PFree)))
          | _ => None
          end
      | _ => None
      end
  | ADNackDone s =>
      match mode st s with
      | WDlq a n c okp failed =>
          if c =? n then
            let st1 := if 1 <=? okp
                       then mkS (EngineAck s (seq a okp) :: hist st) (nrd st) (upd1 (wack st) s (a + okp))
                                (mode st) (gfl st) (dfl st) (wcur st) (dq st) (own st) (poi st) (seen st)
                       else st in
            Some (set_mode st1 s (if okp =? n then WIdle else WDead))
          else None
      | _ => None
      end
  | AFOpen s len =>
      match mode st s with
      | WIdle =>
          if (s <? N) && (1 <=? len) && (wack st s + len <=? nrd st s) then
            Some (set_mode st s (WFan (mkFo (wack st s) (minit M len) [] PFree)))
          else None
      | _ => None
      end
  | AVote s b isack offs =>
      match mode st s with
      | WFan f =>
          match fph f with
          | PFree =>
              if (b <? M) && nodup_nat offs &&
                 forallb (fun off => (off <? mlen (fm f)) && negb (voted (fvs f) b off)) offs &&
                 (if isack then forallb (fun off => bjust st b s (fbase f + off)) offs else true)
              then
                Some (set_mode st s
                       (WFan (mkFo (fbase f) (fst (tally isack (fm f) offs))
                                   (fvs f ++ [V b isack offs []]) PReleasing)))
              else None
          | _ => None
          end
      | _ => None
      end
  | ARel s =>
      match mode st s with
      | WFan f =>
          match fph f with
          | PReleasing =>
              match next_release (fm f) with
              | None => Some (set_mode st s (WFan (mkFo (fbase f) (fm f) (fvs f) PFree)))
              | Some (PAck a b) =>
                  Some (mkS (EngineAck s (seq (fbase f + a) (b - a)) :: hist st) (nrd st)
                            (upd1 (wack st) s (fbase f + b))
                            (upd1 (mode st) s (WFan (mkFo (fbase f) (set_rel (fm f) b) (fvs f) PReleasing)))
                            (gfl st) (dfl st) (wcur st) (dq st) (own st) (poi st) (seen st))
              | Some (PNack i) =>
                  Some (set_mode (set_hist st (DlqWrite s (fbase f + i) :: hist st)) s
                                 (WFan (mkFo (fbase f) (fm f) (fvs f) (PDlqWait i))))
              | Some (PNackFail _) => None
              end
          | _ => None
          end
      | _ => None
      end
  | AFClose s =>
      match mode st s with
      | WFan f =>
          match fph f with
          | PFree => Some (set_mode st s (if mrel (fm f) =? mlen (fm f) then WIdle else WDead))
          | _ => None
          end
      | _ => None
      end
  | ADie s =>
      match mode st s with
      | WIdle => Some (set_mode st s WDead)
      | _ => None
      end
  end.

Definition step' (N M : nat) (st : sys) (a : act) : sys :=
  match step N M st a with Some st' => st' | None => st end.

Definition run (N M : nat) (acts : list act) : sys := fold_left (step' N M) acts init.

(* the observable trace of a schedule *)
Definition trace (N M : nat) (acts : list act) : list event := rev (hist (run N M acts)).
