(* Observable event log of one engine run (harness/lib/enginex), the three properties C01, C04,
   C05 stated on a log (Prop), and their boolean monitors.  Definitions only; the monitor
   soundness lemmas are in TraceProofs.v.

   Record k of source s is identified by (s, k): k is the emission index (the harness makes the
   k-th record's position the bytes of k, optionally the SAME bytes for every source).        *)
From Coq Require Export List Arith Bool Lia.
Export ListNotations.

Inductive event :=
| Read (s k : nat)                           (* fake source handed record k to the engine *)
| Filt (sc : option nat) (s k : nat)         (* a processor filtered the record: None = before the fan-out
                                                (source / pipeline processor), Some d = in the branch of destination d *)
| DestWrite (d s k : nat)                    (* destination d was asked to write the record *)
| DestConfirm (d s k : nat) (ok : bool)      (* destination d confirmed (true) / rejected (false) it *)
| DlqWrite (s k : nat)                       (* the dead-letter queue was asked to write the record *)
| DlqConfirm (s k : nat) (ok : bool)
| EngineAck (s : nat) (ks : list nat).       (* the engine called Source.Ack(positions) on source s *)

(* v2 = true: arch-v2 funnel engine, false: default stream engine.
   ckf ("clone keeps filtered", v1 only): does stream.Message.Clone copy the filtered flag?  The
   harness probes the code it was built against and reports what it found; on the tree this
   development was written for the answer is false (a finding of C05, see Stream/). *)
Record topo := mkTopo { v2 : bool; nsrc : nat; ndst : nat; ckf : bool }.

Definition opt_eqb (a b : option nat) : bool :=
  match a, b with
  | None, None => true
  | Some x, Some y => x =? y
  | _, _ => false
  end.

(* ---------- event recognisers ---------- *)
Definition is_filt (sc : option nat) (s k : nat) (e : event) : bool :=
  match e with Filt sc' s' k' => opt_eqb sc sc' && (s =? s') && (k =? k') | _ => false end.
Definition is_conf_ok (d s k : nat) (e : event) : bool :=
  match e with DestConfirm d' s' k' true => (d =? d') && (s =? s') && (k =? k') | _ => false end.
Definition is_dlq_ok (s k : nat) (e : event) : bool :=
  match e with DlqConfirm s' k' true => (s =? s') && (k =? k') | _ => false end.

(* ---------- C01 ---------- *)
(* what entitles the engine to ack (s,k), given the events [pre] seen before the ack *)
Definition Justified (t : topo) (pre : list event) (s k : nat) : Prop :=
  In (Filt None s k) pre \/
  In (DlqConfirm s k true) pre \/
  (forall d, d < ndst t -> In (DestConfirm d s k true) pre \/ In (Filt (Some d) s k) pre).

Definition C01_holds (t : topo) (log : list event) : Prop :=
  1 <= ndst t /\
  forall i s ks k, nth_error log i = Some (EngineAck s ks) -> In k ks ->
                   Justified t (firstn i log) s k.

Definition justified (t : topo) (pre : list event) (s k : nat) : bool :=
  existsb (is_filt None s k) pre ||
  existsb (is_dlq_ok s k) pre ||
  forallb (fun d => existsb (is_conf_ok d s k) pre || existsb (is_filt (Some d) s k) pre)
          (seq 0 (ndst t)).

(* [pre] is the reversed prefix already scanned *)
Fixpoint mon01_from (t : topo) (pre rest : list event) : bool :=
  match rest with
  | [] => true
  | e :: r =>
      (match e with EngineAck s ks => forallb (justified t pre s) ks | _ => true end)
      && mon01_from t (e :: pre) r
  end.

Definition Mon_C01 (t : topo) (log : list event) : bool :=
  (1 <=? ndst t) && mon01_from t [] log.

(* ---------- C04 ---------- *)
Definition reads_of (s : nat) (log : list event) : list nat :=
  flat_map (fun e => match e with Read s' k => if s =? s' then [k] else [] | _ => [] end) log.
Definition acks_of (s : nat) (log : list event) : list nat :=
  flat_map (fun e => match e with EngineAck s' ks => if s =? s' then ks else [] | _ => [] end) log.

(* at every instant the acked positions of every source are a prefix of what it produced, and
   nothing is acked twice *)
Definition C04_holds (t : topo) (log : list event) : Prop :=
  (forall s ks, In (EngineAck s ks) log -> s < nsrc t) /\
  forall s, s < nsrc t ->
    NoDup (acks_of s log) /\
    forall n, exists rest, reads_of s (firstn n log) = acks_of s (firstn n log) ++ rest.

Fixpoint prefixb (l1 l2 : list nat) : bool :=
  match l1, l2 with
  | [], _ => true
  | a :: r1, b :: r2 => (a =? b) && prefixb r1 r2
  | _ :: _, [] => false
  end.

Fixpoint memb (x : nat) (l : list nat) : bool :=
  match l with [] => false | y :: r => (x =? y) || memb x r end.
Fixpoint nodupb (l : list nat) : bool :=
  match l with [] => true | x :: r => negb (memb x r) && nodupb r end.

Definition ack_src_ok (t : topo) (e : event) : bool :=
  match e with EngineAck s _ => s <? nsrc t | _ => true end.

Definition Mon_C04 (t : topo) (log : list event) : bool :=
  forallb (ack_src_ok t) log &&
  forallb (fun s =>
             nodupb (acks_of s log) &&
             forallb (fun n => prefixb (acks_of s (firstn n log)) (reads_of s (firstn n log)))
                     (seq 0 (S (length log))))
          (seq 0 (nsrc t)).

(* ---------- C05 ---------- *)
Definition writes_of (d s : nat) (log : list event) : list nat :=
  flat_map (fun e => match e with
                     | DestWrite d' s' k => if (d =? d') && (s =? s') then [k] else []
                     | _ => [] end) log.

(* per destination and source the written emission indices are strictly increasing
   (read order; strict, hence no record twice), and a record that a processor on its way to
   destination d filtered out is absent from what d receives *)
Definition C05_holds (t : topo) (log : list event) : Prop :=
  (forall d s k, In (DestWrite d s k) log -> d < ndst t /\ s < nsrc t) /\
  (forall d s i j a b, i < j ->
    nth_error (writes_of d s log) i = Some a -> nth_error (writes_of d s log) j = Some b -> a < b) /\
  (forall i d s k, nth_error log i = Some (DestWrite d s k) ->
     ~ In (Filt None s k) (firstn i log) /\ ~ In (Filt (Some d) s k) (firstn i log)).

Fixpoint incrb (l : list nat) : bool :=
  match l with
  | a :: r => (match r with b :: _ => a <? b | [] => true end) && incrb r
  | [] => true
  end.

Definition write_ids_ok (t : topo) (e : event) : bool :=
  match e with DestWrite d s _ => (d <? ndst t) && (s <? nsrc t) | _ => true end.

(* the record written now was not filtered before ([pre] = reversed prefix) *)
Definition not_filtered (pre : list event) (d s k : nat) : bool :=
  negb (existsb (is_filt None s k) pre) && negb (existsb (is_filt (Some d) s k) pre).

Fixpoint filt_absent_from (pre rest : list event) : bool :=
  match rest with
  | [] => true
  | e :: r =>
      (match e with DestWrite d s k => not_filtered pre d s k | _ => true end)
      && filt_absent_from (e :: pre) r
  end.

Definition Mon_C05 (t : topo) (log : list event) : bool :=
  forallb (write_ids_ok t) log &&
  forallb (fun d => forallb (fun s => incrb (writes_of d s log)) (seq 0 (nsrc t))) (seq 0 (ndst t)) &&
  filt_absent_from [] log.
