(* Soundness of the boolean monitors: each monitor is true exactly when its property holds. *)
From Verif Require Import Multi.Trace.

(* ---------- small toolkit ---------- *)
Lemma opt_eqb_eq a b : opt_eqb a b = true <-> a = b.
Proof.
  destruct a as [x|], b as [y|]; simpl; try (split; congruence).
  rewrite Nat.eqb_eq. split; congruence.
Qed.

Lemma existsb_is_filt sc s k l : existsb (is_filt sc s k) l = true <-> In (Filt sc s k) l.
Proof.
  rewrite existsb_exists. split.
  - intros [e [Hin He]]. destruct e; simpl in He; try discriminate.
    apply andb_prop in He as [He Hk]. apply andb_prop in He as [Hsc Hs].
    apply opt_eqb_eq in Hsc. apply Nat.eqb_eq in Hs, Hk. subst. exact Hin.
  - intros Hin. exists (Filt sc s k). split; [exact Hin|]. simpl.
    rewrite !Nat.eqb_refl. replace (opt_eqb sc sc) with true; [reflexivity|].
    symmetry. apply opt_eqb_eq. reflexivity.
Qed.

Lemma existsb_is_conf_ok d s k l :
  existsb (is_conf_ok d s k) l = true <-> In (DestConfirm d s k true) l.
Proof.
  rewrite existsb_exists. split.
  - intros [e [Hin He]]. destruct e as [| | |d' s' k' ok| | |]; simpl in He; try discriminate.
    destruct ok; [|discriminate].
    apply andb_prop in He as [He Hk]. apply andb_prop in He as [Hd Hs].
    apply Nat.eqb_eq in Hd, Hs, Hk. subst. exact Hin.
  - intros Hin. exists (DestConfirm d s k true). split; [exact Hin|]. simpl.
    rewrite !Nat.eqb_refl. reflexivity.
Qed.

Lemma existsb_is_dlq_ok s k l :
  existsb (is_dlq_ok s k) l = true <-> In (DlqConfirm s k true) l.
Proof.
  rewrite existsb_exists. split.
  - intros [e [Hin He]]. destruct e as [| | | | |s' k' ok|]; simpl in He; try discriminate.
    destruct ok; [|discriminate].
    apply andb_prop in He as [Hs Hk]. apply Nat.eqb_eq in Hs, Hk. subst. exact Hin.
  - intros Hin. exists (DlqConfirm s k true). split; [exact Hin|]. simpl.
    rewrite !Nat.eqb_refl. reflexivity.
Qed.

Lemma justified_iff t pre s k : justified t pre s k = true <-> Justified t pre s k.
Proof.
  unfold justified, Justified. rewrite !orb_true_iff, existsb_is_filt, existsb_is_dlq_ok.
  rewrite forallb_forall.
  split.
  - intros [[H|H]|H]; [left; exact H|right; left; exact H|right; right].
    intros d Hd. specialize (H d). rewrite in_seq in H. specialize (H ltac:(lia)).
    rewrite orb_true_iff, existsb_is_conf_ok, existsb_is_filt in H. exact H.
  - intros [H|[H|H]]; [left; left; exact H|left; right; exact H|right].
    intros d Hd. apply in_seq in Hd.
    rewrite orb_true_iff, existsb_is_conf_ok, existsb_is_filt. apply H. lia.
Qed.

Lemma Justified_perm t l1 l2 s k :
  (forall e, In e l1 <-> In e l2) -> Justified t l1 s k -> Justified t l2 s k.
Proof.
  intros Hp [H|[H|H]]; [left|right; left|right; right].
  - apply Hp, H.
  - apply Hp, H.
  - intros d Hd. destruct (H d Hd) as [H1|H1]; [left|right]; apply Hp, H1.
Qed.

(* ---------- C01 ---------- *)
Lemma mon01_from_iff t : forall rest pre,
  mon01_from t (rev pre) rest = true <->
  (forall i s ks k, nth_error rest i = Some (EngineAck s ks) -> In k ks ->
                    Justified t (pre ++ firstn i rest) s k).
Proof.
  induction rest as [|e rest IH]; intros pre.
  - simpl. split; [intros _ i s ks k H|reflexivity]. destruct i; discriminate.
  - cbn [mon01_from]. rewrite andb_true_iff.
    replace (e :: rev pre) with (rev (pre ++ [e])) by (rewrite rev_app_distr; reflexivity).
    rewrite IH. split.
    + intros [He Hrest] i s ks k Hnth Hin. destruct i as [|i].
      * simpl in Hnth. injection Hnth as ->. simpl firstn. rewrite app_nil_r.
        rewrite forallb_forall in He. specialize (He k Hin).
        apply justified_iff in He.
        eapply Justified_perm; [|exact He]. intros e. rewrite <- in_rev. reflexivity.
      * simpl in Hnth. specialize (Hrest i s ks k Hnth Hin).
        simpl firstn. rewrite <- app_assoc in Hrest. exact Hrest.
    + intros H. split.
      * destruct e as [| | | | | |s ks]; try reflexivity.
        apply forallb_forall. intros k Hin. apply justified_iff.
        specialize (H 0 s ks k eq_refl Hin). simpl firstn in H. rewrite app_nil_r in H.
        eapply Justified_perm; [|exact H]. intros e. rewrite <- in_rev. reflexivity.
      * intros i s ks k Hnth Hin. specialize (H (S i) s ks k Hnth Hin).
        simpl firstn in H. rewrite <- app_assoc. exact H.
Qed.

Theorem mon01_sound t log : Mon_C01 t log = true <-> C01_holds t log.
Proof.
  unfold Mon_C01, C01_holds. rewrite andb_true_iff, Nat.leb_le.
  change (@nil event) with (rev (@nil event)). rewrite mon01_from_iff. simpl app. tauto.
Qed.

(* ---------- C04 ---------- *)
Lemma prefixb_iff l1 : forall l2, prefixb l1 l2 = true <-> exists rest, l2 = l1 ++ rest.
Proof.
  induction l1 as [|a l1 IH]; intros l2.
  - simpl. split; [intros _; exists l2; reflexivity|reflexivity].
  - destruct l2 as [|b l2]; simpl.
    + split; [discriminate|intros [r H]; discriminate].
    + rewrite andb_true_iff, Nat.eqb_eq, IH. split.
      * intros [-> [r ->]]. exists r. reflexivity.
      * intros [r H]. injection H as -> ->. split; [reflexivity|exists r; reflexivity].
Qed.

Lemma memb_iff x l : memb x l = true <-> In x l.
Proof.
  induction l as [|y l IH]; simpl; [split; [discriminate|tauto]|].
  rewrite orb_true_iff, Nat.eqb_eq, IH. split; intros [H|H]; auto.
Qed.

Lemma nodupb_iff l : nodupb l = true <-> NoDup l.
Proof.
  induction l as [|x l IH]; simpl.
  - split; [constructor|reflexivity].
  - rewrite andb_true_iff, negb_true_iff, IH. split.
    + intros [Hm Hn]. constructor; [|exact Hn]. intros Hin. apply memb_iff in Hin. congruence.
    + intros H. inversion H as [|? ? Hni Hnd]; subst. split; [|exact Hnd].
      destruct (memb x l) eqn:E; [|reflexivity]. apply memb_iff in E. contradiction.
Qed.

Theorem mon04_sound t log : Mon_C04 t log = true <-> C04_holds t log.
Proof.
  unfold Mon_C04, C04_holds. rewrite andb_true_iff, !forallb_forall. split.
  - intros [Hsrc Hs]. split.
    + intros s ks Hin. specialize (Hsrc _ Hin). simpl in Hsrc. apply Nat.ltb_lt in Hsrc. exact Hsrc.
    + intros s Hlt. specialize (Hs s). rewrite in_seq in Hs. specialize (Hs ltac:(lia)).
      apply andb_prop in Hs as [Hnd Hpre]. split; [apply nodupb_iff, Hnd|].
      intros n. rewrite forallb_forall in Hpre.
      destruct (le_lt_dec n (length log)) as [Hn|Hn].
      * specialize (Hpre n). rewrite in_seq in Hpre. specialize (Hpre ltac:(lia)).
        apply prefixb_iff in Hpre. exact Hpre.
      * specialize (Hpre (length log)). rewrite in_seq in Hpre. specialize (Hpre ltac:(lia)).
        apply prefixb_iff in Hpre. rewrite firstn_all in Hpre.
        rewrite firstn_all2 by lia. exact Hpre.
  - intros [Hsrc Hs]. split.
    + intros e Hin. destruct e as [| | | | | |s ks]; try reflexivity. simpl.
      apply Nat.ltb_lt. eapply Hsrc, Hin.
    + intros s Hin. apply in_seq in Hin. destruct (Hs s ltac:(lia)) as [Hnd Hpre].
      apply andb_true_intro. split; [apply nodupb_iff, Hnd|].
      apply forallb_forall. intros n _. apply prefixb_iff, Hpre.
Qed.

(* ---------- C05 ---------- *)
Lemma incrb_iff l :
  incrb l = true <->
  (forall i j a b, i < j -> nth_error l i = Some a -> nth_error l j = Some b -> a < b).
Proof.
  induction l as [|a l IH].
  - simpl. split; [intros _ i j x y _ H|reflexivity]. destruct i; discriminate.
  - cbn [incrb]. rewrite andb_true_iff, IH. split.
    + intros [Hhd Htl] i j x y Hij Hi Hj.
      destruct j as [|j]; [lia|]. simpl in Hj.
      destruct i as [|i].
      * simpl in Hi. injection Hi as ->.
        (* x < every later element: x < head of l <= ... *)
        destruct l as [|b l']; [destruct j; discriminate|].
        apply Nat.ltb_lt in Hhd.
        destruct j as [|j]; [simpl in Hj; injection Hj as ->; exact Hhd|].
        assert (b < y) by (eapply (Htl 0 (S j)); [lia|reflexivity|exact Hj]). lia.
      * simpl in Hi. eapply (Htl i j); [lia|exact Hi|exact Hj].
    + intros H. split.
      * destruct l as [|b l']; [reflexivity|]. apply Nat.ltb_lt.
        eapply (H 0 1); [lia|reflexivity|reflexivity].
      * intros i j x y Hij Hi Hj. eapply (H (S i) (S j)); [lia|exact Hi|exact Hj].
Qed.

Lemma not_filtered_iff pre d s k :
  not_filtered pre d s k = true <-> ~ In (Filt None s k) pre /\ ~ In (Filt (Some d) s k) pre.
Proof.
  unfold not_filtered. rewrite andb_true_iff, !negb_true_iff.
  rewrite <- !not_true_iff_false, !existsb_is_filt. reflexivity.
Qed.

Lemma filt_absent_from_iff : forall rest pre,
  filt_absent_from (rev pre) rest = true <->
  (forall i d s k, nth_error rest i = Some (DestWrite d s k) ->
     ~ In (Filt None s k) (pre ++ firstn i rest) /\ ~ In (Filt (Some d) s k) (pre ++ firstn i rest)).
Proof.
  induction rest as [|e rest IH]; intros pre.
  - simpl. split; [intros _ i d s k H|reflexivity]. destruct i; discriminate.
  - cbn [filt_absent_from]. rewrite andb_true_iff.
    replace (e :: rev pre) with (rev (pre ++ [e])) by (rewrite rev_app_distr; reflexivity).
    rewrite IH. split.
    + intros [He Hrest] i d s k Hnth. destruct i as [|i].
      * simpl in Hnth. injection Hnth as ->. simpl firstn. rewrite app_nil_r.
        apply not_filtered_iff in He. rewrite <- !in_rev in He. exact He.
      * simpl in Hnth. specialize (Hrest i d s k Hnth).
        simpl firstn. rewrite <- app_assoc in Hrest. exact Hrest.
    + intros H. split.
      * destruct e as [| |d s k| | | |]; try reflexivity.
        apply not_filtered_iff. rewrite <- !in_rev.
        specialize (H 0 d s k eq_refl). simpl firstn in H. rewrite app_nil_r in H. exact H.
      * intros i d s k Hnth. specialize (H (S i) d s k Hnth).
        simpl firstn in H. rewrite <- app_assoc. exact H.
Qed.

Lemma writes_of_In d s k log : In k (writes_of d s log) -> In (DestWrite d s k) log.
Proof.
  unfold writes_of. intros Hi. apply in_flat_map in Hi.
  destruct Hi as [e [Hin He]]. destruct e as [| |d' s' k'| | | |]; try contradiction.
  destruct ((d =? d') && (s =? s')) eqn:E; [|contradiction].
  apply andb_prop in E as [E1 E2]. apply Nat.eqb_eq in E1, E2. subst.
  destruct He as [->|[]]. exact Hin.
Qed.

Theorem mon05_sound t log : Mon_C05 t log = true <-> C05_holds t log.
Proof.
  unfold Mon_C05, C05_holds. rewrite !andb_true_iff, !forallb_forall.
  change (@nil event) with (rev (@nil event)). rewrite filt_absent_from_iff. simpl app.
  split.
  - intros [[Hid Hinc] Hf]. split; [|split; [|exact Hf]].
    + intros d s k Hin. specialize (Hid _ Hin). simpl in Hid.
      apply andb_prop in Hid as [H1 H2]. apply Nat.ltb_lt in H1, H2. split; assumption.
    + intros d s i j a b Hij Hi Hj.
      assert (Hw : In (DestWrite d s a) log) by (apply writes_of_In; eapply nth_error_In, Hi).
      specialize (Hid _ Hw). simpl in Hid. apply andb_prop in Hid as [Hd Hs].
      apply Nat.ltb_lt in Hd, Hs.
      specialize (Hinc d). rewrite in_seq in Hinc. specialize (Hinc ltac:(lia)).
      rewrite forallb_forall in Hinc. specialize (Hinc s). rewrite in_seq in Hinc.
      specialize (Hinc ltac:(lia)). rewrite incrb_iff in Hinc.
      eapply Hinc; [exact Hij|exact Hi|exact Hj].
  - intros [Hid [Hinc Hf]]. split; [split|exact Hf].
    + intros e Hin. destruct e as [| |d s k| | | |]; try reflexivity. simpl.
      destruct (Hid d s k Hin) as [H1 H2]. apply Nat.ltb_lt in H1, H2. rewrite H1, H2. reflexivity.
    + intros d _. apply forallb_forall. intros s _. apply incrb_iff. apply Hinc.
Qed.
