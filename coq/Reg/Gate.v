(* C19 - the install pipeline as a sequential program over scripted step outcomes.

   Modelled code (pkg/registry): install.go installArtifact / downloadVerifyAndInstall /
   stageArtifact / runVerificationGate / unsignedInstallGate / finalizeArtifactInstall /
   extractAndGuard / writeManifestEntry, corruption.go CheckCorruption (as the fact
   "digest of the staged bytes = digest the index declares"), cache.go (lookup / populate as
   facts and writes), policy/gate.go Decide (exactly), audit.go AppendAuditEvent (as a write).
   The order of the steps is the order of the code:

     fetch+verify index, resolve -> target lock -> manifest lookup -> staging dir ->
     stage (cache hit | download) -> corruption check -> cache populate ->
     gate (AllowUnsigned: policy.Decide + unsigned-install log | fetch bundles + verifier) ->
     extract (Reg/Extract.v) -> fd guard -> validate hook -> rename -> chmod ->
     [staging removed] -> manifest -> audit

   Every write carries the place it goes to.  Definitions only; proofs in GateProofs.v. *)
From Verif Require Export Reg.Extract.

Inductive loc :=
| LLock         (* <target>/.registry/locks/...                       *)
| LStagingDir   (* <target>/.registry/staging/install-*               *)
| LStaging      (* .../install-*/artifact.tar.gz                      *)
| LExtract      (* .../install-*/extracted/...                        *)
| LCache        (* <target>/.registry/cache/<digest>/                 *)
| LUnsignedLog  (* <target>/.registry/unsigned-installs.log           *)
| LFinal        (* <target>/<final name>  - the installed artifact    *)
| LManifest     (* <target>/.registry/manifest.json                   *)
| LAudit.       (* <target>/.registry/audit.jsonl                     *)

Inductive fetch := FIndex | FArtifact | FSig | FProv.
Inductive point := PDownload | PExtract | PPrerename | PPostRename.   (* chaos.go points *)
Inductive vres := VSigned | VUnsigned | VReject.   (* verifier: accepts as signed / returns success
                                                      without Signed / returns an error *)

Inductive ev :=
| EFetch (f : fetch)
| EWrite (l : loc)
| EVerify                 (* ArtifactVerifier.VerifyArtifact is called *)
| EValidate               (* the target's install-time validation hook is called *)
| EHook (p : point)
| ERemoveStaging.         (* the deferred os.RemoveAll(stagingDir) *)

Record policy := mkPol { p_tty : bool; p_ci : bool; p_mcp : bool; p_operator : bool; p_env : bool; p_typed : bool }.

(* policy.Decide *)
Definition decide (p : policy) : bool :=
  if negb (p_operator p) then false
  else if p_mcp p then false
  else if negb (p_tty p) || p_ci p then p_env p
  else p_typed p.

Record script := mkS {
  s_resolve : bool;        (* index fetched, verified by the IndexVerifier, name/version/platform resolved *)
  s_installed : bool;      (* the manifest already holds name@version *)
  s_cache_hit : bool;
  s_download_ok : bool;
  s_digest_ok : bool;      (* sha256 of the staged bytes = declared sha256 *)
  s_allow_unsigned : bool;
  s_pol : policy;
  s_ulog_ok : bool;        (* appending to unsigned-installs.log succeeds *)
  s_has_sig : bool; s_sig_ok : bool;
  s_has_prov : bool; s_prov_ok : bool;
  s_verifier : vres;
  s_archive : list entry;  (* what the staged archive holds *)
  s_validate : option bool;(* None: the target has no validation hook *)
  s_rename_ok : bool; s_chmod_ok : bool; s_manifest_ok : bool; s_audit_ok : bool }.

Inductive res := ROk | RAlready | RErr.

Definition gate_ok (s : script) : bool :=
  if s_allow_unsigned s then decide (s_pol s)
  else match s_verifier s with VSigned => true | _ => false end.

(* Every stage yields the events it appends and how it ends; [pre l x] puts l in front. *)
Definition outcome := (list ev * res)%type.
Definition pre (l : list ev) (x : outcome) : outcome := (l ++ fst x, snd x).

(* after the staging directory exists every failing exit removes it (deferred RemoveAll) *)
Definition fail_staged : outcome := ([ERemoveStaging], RErr).

(* rename, chmod, [leave downloadVerifyAndInstall], manifest, audit *)
Definition run_commit (s : script) : outcome :=
  if negb (s_rename_ok s) then fail_staged else
  pre [EWrite LFinal]
    (if negb (s_chmod_ok s) then fail_staged else
     pre [EHook PPostRename; ERemoveStaging]
       (if negb (s_manifest_ok s) then ([], RErr) else
        pre [EWrite LManifest]
          (if negb (s_audit_ok s) then ([], RErr) else ([EWrite LAudit], ROk)))).

(* finalizeArtifactInstall after a successful extraction *)
Definition run_tail (s : script) : outcome :=
  pre [EHook PExtract; EHook PPrerename]
    match s_validate s with
    | None => run_commit s
    | Some true => pre [EValidate] (run_commit s)
    | Some false => pre [EValidate] fail_staged
    end.

Definition run_extract (cap : N) (s : script) : outcome :=
  pre [EWrite LExtract]
    match fst (xrun cap (s_archive s)) with
    | XErr _ => fail_staged
    | XOk _ => run_tail s
    end.

Definition run_verify (cap : N) (s : script) : outcome :=
  pre [EVerify]
    match s_verifier s with
    | VSigned => run_extract cap s
    | _ => fail_staged
    end.

Definition run_prov (cap : N) (s : script) : outcome :=
  if s_has_prov s then
    pre [EFetch FProv] (if s_prov_ok s then run_verify cap s else fail_staged)
  else run_verify cap s.

Definition run_gate (cap : N) (s : script) : outcome :=
  if s_allow_unsigned s then
    if negb (decide (s_pol s)) then fail_staged else
    if negb (s_ulog_ok s) then fail_staged else
    pre [EWrite LUnsignedLog] (run_extract cap s)
  else
    if s_has_sig s then
      pre [EFetch FSig] (if s_sig_ok s then run_prov cap s else fail_staged)
    else run_prov cap s.

(* corruption check, cache populate, gate *)
Definition run_checked (cap : N) (s : script) : outcome :=
  if negb (s_digest_ok s) then fail_staged else
  if s_cache_hit s then run_gate cap s else pre [EWrite LCache] (run_gate cap s).

Definition run_stage (cap : N) (s : script) : outcome :=
  if s_cache_hit s then pre [EWrite LStaging] (run_checked cap s)
  else pre [EFetch FArtifact]
         (if s_download_ok s then pre [EWrite LStaging; EHook PDownload] (run_checked cap s)
          else fail_staged).

Definition run (cap : N) (s : script) : outcome :=
  pre [EFetch FIndex]
    (if negb (s_resolve s) then ([], RErr) else
     pre [EWrite LLock]
       (if s_installed s then ([], RAlready) else
        pre [EWrite LStagingDir] (run_stage cap s))).

(* ---- acceptor for the order of effects ----
   scanning a trace: [gated] becomes true at the point where the gate is known to be passed
   (EVerify or the unsigned-install log write); before the first write of the final artifact only
   bookkeeping below .registry may be written; extraction needs the gate; the manifest needs
   the final artifact; the audit entry needs the manifest. *)
Record ostate := mkO { o_gated : bool; o_extracted : bool; o_final : bool; o_manifest : bool }.

Definition ostep (o : ostate) (e : ev) : option ostate :=
  match e with
  | EVerify => if o_extracted o || o_final o then None else Some (mkO true (o_extracted o) (o_final o) (o_manifest o))
  | EWrite LUnsignedLog => if o_extracted o || o_final o then None else Some (mkO true (o_extracted o) (o_final o) (o_manifest o))
  | EWrite LExtract => if o_gated o then Some (mkO true true (o_final o) (o_manifest o)) else None
  | EValidate => if o_final o then None else Some o
  | EWrite LFinal => if o_gated o && o_extracted o then Some (mkO true true true (o_manifest o)) else None
  | EWrite LManifest => if o_final o then Some (mkO true true true true) else None
  | EWrite LAudit => if o_manifest o then Some o else None
  | _ => Some o
  end.

Fixpoint ordered_from (o : ostate) (t : list ev) : bool :=
  match t with
  | [] => true
  | e :: r => match ostep o e with Some o' => ordered_from o' r | None => false end
  end.
Definition ordered (t : list ev) : bool := ordered_from (mkO false false false false) t.

(* ---- what the harness can see ----
   It cannot see writes as events; at every event it can see (a fetch reaching its server, the
   verifier or the validation hook being called, a chaos point) it records which places hold
   something new. *)
Record bits := mkB { b_staged : bool; b_extract : bool; b_cache : bool; b_ulog : bool;
                     b_final : bool; b_manifest : bool; b_audit : bool }.
Definition bits0 := mkB false false false false false false false.

Definition apply_ev (b : bits) (e : ev) : bits :=
  match e with
  | EWrite LStaging => mkB true (b_extract b) (b_cache b) (b_ulog b) (b_final b) (b_manifest b) (b_audit b)
  | EWrite LExtract => mkB (b_staged b) true (b_cache b) (b_ulog b) (b_final b) (b_manifest b) (b_audit b)
  | EWrite LCache => mkB (b_staged b) (b_extract b) true (b_ulog b) (b_final b) (b_manifest b) (b_audit b)
  | EWrite LUnsignedLog => mkB (b_staged b) (b_extract b) (b_cache b) true (b_final b) (b_manifest b) (b_audit b)
  | EWrite LFinal => mkB (b_staged b) (b_extract b) (b_cache b) (b_ulog b) true (b_manifest b) (b_audit b)
  | EWrite LManifest => mkB (b_staged b) (b_extract b) (b_cache b) (b_ulog b) (b_final b) true (b_audit b)
  | EWrite LAudit => mkB (b_staged b) (b_extract b) (b_cache b) (b_ulog b) (b_final b) (b_manifest b) true
  | ERemoveStaging => mkB false false (b_cache b) (b_ulog b) (b_final b) (b_manifest b) (b_audit b)
  | _ => b
  end.

Inductive oev := OFetch (f : fetch) | OVerify | OValidate | OHook (p : point).

Definition visible (e : ev) : option oev :=
  match e with
  | EFetch f => Some (OFetch f)
  | EVerify => Some OVerify
  | EValidate => Some OValidate
  | EHook p => Some (OHook p)
  | _ => None
  end.

Fixpoint observe (b : bits) (t : list ev) : list (oev * bits) * bits :=
  match t with
  | [] => ([], b)
  | e :: r =>
      let b' := apply_ev b e in
      let '(l, bend) := observe b' r in
      match visible e with
      | Some o => ((o, b') :: l, bend)
      | None => (l, bend)
      end
  end.

(* ---- the property, on what was observed ----
   [obs] the observed events, each with the places that held something new at that moment;
   [bend] the places that hold something new when Install has returned; [v]: the verifier has
   been called. *)
Definition gates (s : script) : bool := s_digest_ok s && gate_ok s.

Definition bits_ok (s : script) (v : bool) (b : bits) : bool :=
  (* the artifact is there only if the bytes match the declared digest and the gate was passed
     (the configured verifier was really asked, unless an unsigned install was requested) *)
  (negb (b_final b) || (gates s && (s_allow_unsigned s || v)))
  (* extraction only behind the gates *)
  && (negb (b_extract b) || gates s)
  (* the cache is only filled with bytes that match the declared digest *)
  && (negb (b_cache b) || s_digest_ok s)
  (* manifest and audit entries only for an installed artifact *)
  && (negb (b_manifest b) || b_final b)
  && (negb (b_audit b) || b_manifest b).

(* verification precedes extraction and installation; validation precedes installation *)
Definition ev_ok (o : oev) (b : bits) : bool :=
  match o with
  | OVerify => negb (b_extract b) && negb (b_final b)
  | OValidate => negb (b_final b)
  | _ => true
  end.

Definition is_verify (o : oev) : bool := match o with OVerify => true | _ => false end.

Fixpoint mon_obs (s : script) (v : bool) (obs : list (oev * bits)) (bend : bits) : bool :=
  match obs with
  | [] => bits_ok s v bend
  | (o, b) :: r =>
      let v' := v || is_verify o in
      ev_ok o b && bits_ok s v' b && mon_obs s v' r bend
  end.

Definition mon_install (s : script) (obs : list (oev * bits)) (bend : bits) : bool :=
  mon_obs s false obs bend.

(* the same monitor run directly over a trace of the model *)
Fixpoint mon_tr (s : script) (v : bool) (b : bits) (t : list ev) : bool :=
  match t with
  | [] => bits_ok s v b
  | e :: r =>
      let b' := apply_ev b e in
      match visible e with
      | Some o => let v' := v || is_verify o in
                  ev_ok o b' && bits_ok s v' b' && mon_tr s v' b' r
      | None => mon_tr s v b' r
      end
  end.

(* ---- histories: several installs on the same install directory, sharing its cache ----
   All steps install the same bytes (digest D).  [c]: the cache holds D.  A step whose index
   declares D finds it there (cache hit: only the download is skipped); a step fills the cache
   when its trace writes it.  Everything else about a step is its own script - in particular
   the verdict of the verifier configured for THAT install. *)
Definition with_cache (s : script) (c : bool) : script :=
  mkS (s_resolve s) (s_installed s) (c && s_digest_ok s) (s_download_ok s) (s_digest_ok s)
      (s_allow_unsigned s) (s_pol s) (s_ulog_ok s) (s_has_sig s) (s_sig_ok s) (s_has_prov s) (s_prov_ok s)
      (s_verifier s) (s_archive s) (s_validate s) (s_rename_ok s) (s_chmod_ok s) (s_manifest_ok s) (s_audit_ok s).

Definition is_cache_write (e : ev) : bool := match e with EWrite LCache => true | _ => false end.

Fixpoint hist_run (cap : N) (c : bool) (ss : list script) : list (script * outcome) :=
  match ss with
  | [] => []
  | s :: r =>
      let s' := with_cache s c in
      let o := run cap s' in
      (s', o) :: hist_run cap (c || existsb is_cache_write (fst o)) r
  end.

Definition is_verify_ev (e : ev) : bool := match e with EVerify => true | _ => false end.
