(* C19 - proofs about the lexical path model (Reg/Path.v). *)
From Verif Require Import Reg.Path.

(* ---------- equality tests ---------- *)
Lemma ch_eqb_eq a b : ch_eqb a b = true <-> a = b.
Proof.
  destruct a, b; simpl; try (split; congruence).
  rewrite N.eqb_eq. split; congruence.
Qed.

Lemma name_eqb_eq a : forall b, name_eqb a b = true <-> a = b.
Proof.
  induction a as [|x a IH]; intros [|y b]; simpl; try (split; congruence).
  rewrite andb_true_iff, ch_eqb_eq, IH. split; [intros [-> ->]; reflexivity|].
  intros E; inversion E; auto.
Qed.

(* ---------- split / join ---------- *)
Lemma split_nonnil s : split s <> [].
Proof.
  induction s as [|c s IH]; simpl; [discriminate|].
  destruct c; try discriminate; destruct (split s); discriminate.
Qed.

Lemma split_cons_other c s :
  is_sl c = false -> exists h t, split s = h :: t /\ split (c :: s) = (c :: h) :: t.
Proof.
  intros Hc. destruct (split s) as [|h t] eqn:E; [exfalso; eapply split_nonnil; eauto|].
  exists h, t. split; [reflexivity|]. destruct c; simpl in *; try discriminate; rewrite E; reflexivity.
Qed.

Lemma split_no_sl s : Forall (fun c => existsb is_sl c = false) (split s).
Proof.
  induction s as [|c s IH]; simpl.
  - constructor; [reflexivity|constructor].
  - destruct (is_sl c) eqn:Hc.
    + destruct c; try discriminate. constructor; [reflexivity|exact IH].
    + destruct (split_cons_other c s Hc) as (h & t & E1 & E2).
      simpl in E2. rewrite E2. rewrite E1 in IH. inversion IH as [|? ? H1 H2]; subst.
      constructor; [simpl; rewrite Hc; exact H1|exact H2].
Qed.

Lemma split_app_sl c r :
  existsb is_sl c = false -> split (c ++ Sl :: r) = c :: split r.
Proof.
  induction c as [|x c IH]; intros H; simpl in *; [reflexivity|].
  apply orb_false_iff in H as [Hx Hc].
  destruct (split_cons_other x (c ++ Sl :: r) Hx) as (h & t & E1 & E2).
  simpl in E2. rewrite E2. rewrite (IH Hc) in E1. inversion E1; subst. reflexivity.
Qed.

Lemma split_nosl c : existsb is_sl c = false -> split c = [c].
Proof.
  induction c as [|x c IH]; intros H; simpl in *; [reflexivity|].
  apply orb_false_iff in H as [Hx Hc].
  destruct (split_cons_other x c Hx) as (h & t & E1 & E2).
  simpl in E2. rewrite E2. rewrite (IH Hc) in E1. inversion E1; subst. reflexivity.
Qed.

Lemma split_join cs :
  cs <> [] -> Forall (fun c => existsb is_sl c = false) cs -> split (join cs) = cs.
Proof.
  induction cs as [|c cs IH]; intros Hn HF; [congruence|].
  inversion HF as [|? ? Hc HF']; subst.
  destruct cs as [|c2 cs]; simpl.
  - apply split_nosl; exact Hc.
  - rewrite split_app_sl by exact Hc. f_equal. apply IH; [discriminate|exact HF'].
Qed.

Lemma join_app a b : a <> [] -> b <> [] -> join (a ++ b) = join a ++ Sl :: join b.
Proof.
  induction a as [|x a IH]; intros Ha Hb; [congruence|].
  destruct a as [|y a].
  - simpl. destruct b; [congruence|reflexivity].
  - change (join ((x :: y :: a) ++ b)) with (x ++ Sl :: join ((y :: a) ++ b)).
    rewrite IH by (auto; discriminate).
    change (join (x :: y :: a)) with (x ++ Sl :: join (y :: a)).
    rewrite <- app_assoc. reflexivity.
Qed.

(* ---------- one step of Clean ---------- *)
Lemma cstep_cases r st c :
  (c = [] /\ cstep r st c = st) \/
  (c = [Dt] /\ cstep r st c = st) \/
  (c = dotdot /\ cstep r st c =
     match real st with
     | _ :: rest => mkC (dd st) rest
     | [] => if r then st else mkC (S (dd st)) []
     end) \/
  (c <> [] /\ c <> [Dt] /\ c <> dotdot /\ cstep r st c = mkC (dd st) (c :: real st)).
Proof.
  unfold dotdot.
  destruct c as [|[| |n] [|[| |m] [|x t]]]; simpl; auto;
    right; right; right; repeat split; congruence.
Qed.

Record cinv (r : bool) (st : cstate) : Prop := {
  ci_real : Forall real_elem (real st);
  ci_rooted : r = true -> dd st = 0;
}.

Lemma cstep_inv r st c :
  existsb is_sl c = false -> cinv r st -> cinv r (cstep r st c).
Proof.
  intros Hc [HR HD].
  destruct (cstep_cases r st c) as [[_ ->]|[[_ ->]|[[_ ->]|(H1 & H2 & H3 & ->)]]];
    try (constructor; assumption).
  - destruct (real st) as [|x rest] eqn:E.
    + destruct r.
      * constructor; [rewrite E; constructor|assumption].
      * constructor; simpl; [constructor|discriminate].
    + constructor; simpl; auto. inversion HR; assumption.
  - constructor; simpl; auto. constructor; [|assumption]. repeat split; assumption.
Qed.

Lemma fold_inv r cs : forall st,
  Forall (fun c => existsb is_sl c = false) cs -> cinv r st -> cinv r (fold_left (cstep r) cs st).
Proof.
  induction cs as [|c cs IH]; intros st HF HI; simpl; [exact HI|].
  inversion HF; subst. apply IH; [assumption|]. apply cstep_inv; assumption.
Qed.

Lemma cstep_real r st c : real_elem c -> cstep r st c = mkC (dd st) (c :: real st).
Proof.
  intros (H1 & H2 & H3 & _).
  destruct (cstep_cases r st c) as [[E _]|[[E _]|[[E _]|(_ & _ & _ & E)]]];
    [contradiction|contradiction|contradiction|exact E].
Qed.

Lemma fold_real r cs : forall d l,
  Forall real_elem cs -> fold_left (cstep r) cs (mkC d l) = mkC d (rev cs ++ l).
Proof.
  induction cs as [|c cs IH]; intros d l HF; simpl; [reflexivity|].
  inversion HF; subst. rewrite cstep_real by assumption. simpl. rewrite IH by assumption.
  rewrite <- app_assoc. reflexivity.
Qed.

(* ---------- the guard confines every accepted name ---------- *)
Lemma is_rooted_clean s : is_rooted s = true -> is_rooted (clean s) = true.
Proof. intros H. unfold clean. rewrite H. reflexivity. Qed.

Lemma join_dotdot_more c rest :
  exists t, join (dotdot :: c :: rest) = Dt :: Dt :: Sl :: t.
Proof. eexists. reflexivity. Qed.

Theorem extract_confined_elems : forall nm,
  guard nm = true -> confined (clean nm) (celems nm).
Proof.
  intros nm G. unfold guard in G. apply negb_true_iff in G.
  unfold escapes in G. apply orb_false_iff in G as [G G3]. apply orb_false_iff in G as [G1 G2].
  destruct (is_rooted nm) eqn:R.
  { unfold is_abs in G1. rewrite (is_rooted_clean nm R) in G1. discriminate. }
  assert (I : cinv false (fold_left (cstep false) (split nm) (mkC 0 []))).
  { apply fold_inv; [apply split_no_sl|]. constructor; simpl; [constructor|reflexivity]. }
  unfold clean in *. unfold celems in *. rewrite R in *.
  set (st := fold_left (cstep false) (split nm) (mkC 0 [])) in *.
  destruct I as [HR _].
  destruct (dd st) as [|k] eqn:Ed.
  - simpl in *. assert (HF : Forall real_elem (rev (real st))).
    { apply Forall_forall. intros x Hx. rewrite <- in_rev in Hx.
      rewrite Forall_forall in HR. auto. }
    split; [exact HF|].
    destruct (rev (real st)) as [|e es]; [left; auto|right; split; [discriminate|reflexivity]].
  - exfalso.
    change (repeat dotdot (S k) ++ rev (real st))
      with (dotdot :: (repeat dotdot k ++ rev (real st))) in *.
    cbv iota in G2, G3.
    destruct (repeat dotdot k ++ rev (real st)) as [|c rest].
    + vm_compute in G2. discriminate.
    + destruct (join_dotdot_more c rest) as [t Ht]. rewrite Ht in G3. discriminate.
Qed.

(* the directory an accepted entry is written to: filepath.Join(dest, cleanName) *)
Lemma fold_skip_root r cs st : fold_left (cstep r) ([] :: cs) st = fold_left (cstep r) cs st.
Proof. reflexivity. Qed.

Lemma real_elem_nosl cs :
  Forall real_elem cs -> Forall (fun c => existsb is_sl c = false) cs.
Proof. intros H. eapply Forall_impl; [|exact H]. intros c (_ & _ & _ & E); exact E. Qed.

Lemma clean_abs_joined xs :
  xs <> [] -> Forall real_elem xs -> clean (Sl :: join xs) = Sl :: join xs.
Proof.
  intros Hn HF. unfold clean, celems. simpl is_rooted. cbv iota.
  change (split (Sl :: join xs)) with ([] :: split (join xs)).
  rewrite split_join by (auto using real_elem_nosl).
  rewrite fold_skip_root, fold_real by assumption.
  simpl. rewrite app_nil_r, rev_involutive. reflexivity.
Qed.

Lemma clean_abs_joined_dot xs :
  xs <> [] -> Forall real_elem xs -> clean (Sl :: join xs ++ [Sl; Dt]) = Sl :: join xs.
Proof.
  intros Hn HF. unfold clean, celems.
  change (is_rooted (Sl :: join xs ++ [Sl; Dt])) with true. cbv iota.
  assert (E : Sl :: join xs ++ [Sl; Dt] = Sl :: join (xs ++ [[Dt]])).
  { rewrite join_app by (auto; discriminate). reflexivity. }
  rewrite E. change (split (Sl :: join (xs ++ [[Dt]]))) with ([] :: split (join (xs ++ [[Dt]]))).
  rewrite split_join.
  - rewrite fold_skip_root, fold_left_app, fold_real by assumption.
    simpl. rewrite app_nil_r, rev_involutive. reflexivity.
  - destruct xs; discriminate.
  - apply Forall_app. split; [auto using real_elem_nosl|]. constructor; [reflexivity|constructor].
Qed.

Theorem join_below_dest : forall d ds cn es,
  clean_abs d ds -> confined cn es ->
  fjoin d cn = Sl :: join (ds ++ es) /\ Forall real_elem (ds ++ es).
Proof.
  intros d ds cn es (Hn & HD & ->) (HE & [[-> ->]|[Hes ->]]).
  - rewrite app_nil_r. split; [|assumption]. unfold fjoin.
    change ((Sl :: join ds) ++ [Sl; Dt]) with (Sl :: join ds ++ [Sl; Dt]).
    apply clean_abs_joined_dot; assumption.
  - split; [|apply Forall_app; auto]. unfold fjoin.
    change ((Sl :: join ds) ++ Sl :: join es) with (Sl :: (join ds ++ Sl :: join es)).
    rewrite <- join_app by assumption.
    apply clean_abs_joined; [destruct ds; [congruence|discriminate]|apply Forall_app; auto].
Qed.

(* The statement used in Properties/C19.v: for EVERY entry name the guard accepts, the path
   the extractor opens is dest followed by a list of ordinary elements (no "..", no empty
   element, no separator inside) - i.e. lexically dest itself or strictly below it. *)
Theorem extract_confined : forall nm d ds,
  clean_abs d ds -> guard nm = true ->
  exists es, Forall real_elem es /\
             fjoin d (clean nm) = Sl :: join (ds ++ es) /\
             (es = [] <-> clean nm = [Dt]).
Proof.
  intros nm d ds HD G. pose proof (extract_confined_elems nm G) as C.
  exists (celems nm). destruct (join_below_dest d ds _ _ HD C) as [J _].
  destruct C as [HF HC]. split; [exact HF|]. split; [exact J|].
  destruct HC as [[E1 E2]|[E1 E2]]; split; intros H; try congruence.
  exfalso. rewrite H in E2. destruct (celems nm) as [|c [|c2 r]]; [congruence| |].
  - simpl in E2. subst c. inversion HF as [|? ? (_ & K & _) _]. congruence.
  - inversion HF as [|? ? (K & _) _]; subst. destruct c; [congruence|]. simpl in E2.
    injection E2 as _ E4. destruct c0; discriminate.
Qed.

(* escapes really is about "..": a name whose cleaned form has a ".." element is refused *)
Theorem dotdot_refused : forall nm, In dotdot (celems nm) -> is_rooted nm = false -> guard nm = false.
Proof.
  intros nm Hin R. destruct (guard nm) eqn:G; [|reflexivity]. exfalso.
  destruct (extract_confined_elems nm G) as [HF _].
  rewrite Forall_forall in HF. destruct (HF _ Hin) as (_ & _ & K & _). congruence.
Qed.

Theorem absolute_refused : forall nm, is_rooted nm = true -> guard nm = false.
Proof.
  intros nm R. unfold guard, escapes, is_abs. rewrite (is_rooted_clean nm R). reflexivity.
Qed.

(* the weakened guard (Clean dropped) is NOT confining: a witness, for the record *)
Example noclean_guard_escapes :
  let nm := [Ch 97; Sl; Dt; Dt; Sl; Dt; Dt; Sl; Ch 120] in   (* a/../../x *)
  guard_noclean nm = true /\ guard nm = false /\ clean nm = [Dt; Dt; Sl; Ch 120].
Proof. vm_compute. repeat split. Qed.

(* ---------- the guard is exactly "never leaves dest" ---------- *)
Lemma walk_cases depth c r :
  (c = [] /\ walk depth (c :: r) = walk depth r) \/
  (c = [Dt] /\ walk depth (c :: r) = walk depth r) \/
  (c = dotdot /\ walk depth (c :: r) = match depth with 0 => false | S d => walk d r end) \/
  (c <> [] /\ c <> [Dt] /\ c <> dotdot /\ walk depth (c :: r) = walk (S depth) r).
Proof.
  unfold dotdot.
  destruct c as [|[| |n] [|[| |m] [|x t]]]; simpl; auto;
    right; right; right; repeat split; congruence.
Qed.

Lemma dd_monotone cs : forall st, dd st <= dd (fold_left (cstep false) cs st).
Proof.
  induction cs as [|c cs IH]; intros st; simpl; [lia|].
  etransitivity; [|apply IH].
  destruct (cstep_cases false st c) as [[_ ->]|[[_ ->]|[[_ ->]|(_ & _ & _ & ->)]]]; simpl; try lia.
  destruct (real st); simpl; lia.
Qed.

Lemma walk_fold cs : forall st,
  dd st = 0 ->
  walk (length (real st)) cs = (dd (fold_left (cstep false) cs st) =? 0).
Proof.
  induction cs as [|c cs IH]; intros st H0; [simpl; rewrite H0; reflexivity|].
  pose proof (walk_cases (length (real st)) c cs) as W.
  pose proof (cstep_cases false st c) as Q.
  simpl fold_left.
  destruct W as [[E W]|[[E W]|[[E W]|(E1 & E2 & E3 & W)]]];
    destruct Q as [[F Q]|[[F Q]|[[F Q]|(F1 & F2 & F3 & Q)]]];
    try (unfold dotdot in *; congruence); refine (eq_trans W _); rewrite Q.
  - apply IH; assumption.
  - apply IH; assumption.
  - destruct (real st) as [|x rest] eqn:R; simpl.
    + symmetry. apply Nat.eqb_neq.
      pose proof (dd_monotone cs (mkC (S (dd st)) [])) as M. simpl in M. lia.
    + exact (IH (mkC (dd st) rest) H0).
  - exact (IH (mkC (dd st) (c :: real st)) H0).
Qed.

Lemma real_head_not_escape e tl : real_elem e -> escapes (e ++ tl) = false.
Proof.
  intros (K1 & K2 & K3 & K4). unfold escapes, is_abs, dotdot in *.
  destruct e as [|x e]; [congruence|].
  destruct x; simpl in K4; try discriminate; [|reflexivity].
  destruct e as [|y e]; [congruence|].
  destruct y; simpl in K4; try discriminate; [|reflexivity].
  destruct e as [|z e]; [congruence|].
  destruct z; simpl in K4; try discriminate; reflexivity.
Qed.

Lemma real_join_not_escape es : es <> [] -> Forall real_elem es -> escapes (join es) = false.
Proof.
  intros Hn HF. destruct es as [|e [|e2 r]]; [congruence| |]; inversion HF; subst.
  - simpl. rewrite <- (app_nil_r e). apply real_head_not_escape; assumption.
  - change (join (e :: e2 :: r)) with (e ++ Sl :: join (e2 :: r)).
    apply real_head_not_escape; assumption.
Qed.

Lemma escapes_relative_iff nm :
  is_rooted nm = false ->
  escapes (clean nm) = negb (dd (fold_left (cstep false) (split nm) (mkC 0 [])) =? 0).
Proof.
  intros R.
  assert (I : cinv false (fold_left (cstep false) (split nm) (mkC 0 []))).
  { apply fold_inv; [apply split_no_sl|]. constructor; simpl; [constructor|reflexivity]. }
  unfold clean, celems. rewrite R.
  set (st := fold_left (cstep false) (split nm) (mkC 0 [])) in *.
  destruct I as [HR _].
  destruct (dd st) as [|k] eqn:Ed.
  - simpl.
    assert (HF : Forall real_elem (rev (real st))).
    { apply Forall_forall. intros x Hx. rewrite <- in_rev in Hx. rewrite Forall_forall in HR. auto. }
    destruct (rev (real st)) as [|e es] eqn:Er; [reflexivity|].
    apply real_join_not_escape; [discriminate|assumption].
  - change (repeat dotdot (S k) ++ rev (real st))
      with (dotdot :: (repeat dotdot k ++ rev (real st))).
    cbv iota. destruct (repeat dotdot k ++ rev (real st)) as [|c rest]; [reflexivity|].
    destruct (join_dotdot_more c rest) as [t Ht]. rewrite Ht. reflexivity.
Qed.

Theorem guard_iff_never_leaves : forall nm, guard nm = lexically_inside nm.
Proof.
  intros nm. unfold lexically_inside. destruct (is_rooted nm) eqn:R.
  - rewrite absolute_refused by assumption. reflexivity.
  - unfold guard. rewrite escapes_relative_iff by assumption. rewrite negb_involutive.
    simpl. symmetry. apply (walk_fold (split nm) (mkC 0 [])). reflexivity.
Qed.
