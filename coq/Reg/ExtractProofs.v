(* C19 - proofs about the extraction loop (Reg/Extract.v). *)
From Verif Require Import Reg.Path Reg.PathProofs Reg.Extract.

Definition okpath (p : path) : Prop := p <> [] /\ Forall real_elem p.
Definition fs_ok (f : fs) : Prop := Forall (fun pn => okpath (fst pn)) f.

Lemma join_real_not_dot es : es <> [] -> Forall real_elem es -> join es <> [Dt].
Proof.
  intros Hn HF E. destruct es as [|c [|c2 r]]; [congruence| |].
  - simpl in E. subst c. inversion HF as [|? ? (_ & K & _) _]. congruence.
  - inversion HF as [|? ? (K & _) _]; subst. destruct c as [|x c0]; [congruence|]. simpl in E.
    injection E as _ E4. destruct c0; discriminate.
Qed.

Lemma elems_of_confined cn es : confined cn es -> elems_of cn = es.
Proof.
  intros [HF [[-> ->]|[Hn ->]]]; unfold elems_of.
  - reflexivity.
  - destruct (name_eqb (join es) [Dt]) eqn:E.
    + apply name_eqb_eq in E. exfalso. eapply join_real_not_dot; eauto.
    + apply split_join; [assumption|apply real_elem_nosl; assumption].
Qed.

Lemma removelast_Forall {A} (P : A -> Prop) l : Forall P l -> Forall P (removelast l).
Proof.
  induction l as [|x l IH]; intros H; simpl; [constructor|].
  inversion H; subst. destruct l; [constructor|]. constructor; auto.
Qed.

Lemma prefixes_ok q : forall acc,
  Forall real_elem acc -> Forall real_elem q -> Forall okpath (prefixes_from acc q).
Proof.
  induction q as [|x q IH]; intros acc Ha Hq; simpl; [constructor|].
  inversion Hq; subst.
  assert (H : Forall real_elem (acc ++ [x])) by (apply Forall_app; split; auto).
  constructor; [|apply IH; assumption].
  split; [destruct acc; discriminate|exact H].
Qed.

Lemma mkdirs_ok ps : forall f f',
  mkdirs f ps = Some f' -> fs_ok f -> Forall okpath ps -> fs_ok f'.
Proof.
  induction ps as [|p ps IH]; intros f f' H Hf Hp; simpl in H.
  - inversion H; subst; assumption.
  - inversion Hp; subst. destruct (lookup p f) as [[|cid len| |]|] eqn:L; try discriminate.
    + eapply IH; eauto.
    + eapply IH; [exact H| |assumption]. apply Forall_app. split; [assumption|].
      constructor; [assumption|constructor].
Qed.

Lemma fs_ok_add f p n : fs_ok f -> okpath p -> fs_ok (f ++ [(p, n)]).
Proof. intros Hf Hp. apply Forall_app. split; [assumption|]. constructor; [exact Hp|constructor]. Qed.

Lemma xstep_ok cap st e :
  fs_ok (x_fs st) ->
  match xstep cap st e with
  | inl st' => fs_ok (x_fs st')
  | inr (_, f) => fs_ok f
  end.
Proof.
  intros Hf. unfold xstep.
  destruct (e_type e) eqn:T; try exact Hf;
  destruct (escapes (clean (e_name e))) eqn:G; try exact Hf.
  assert (Gd : guard (e_name e) = true) by (unfold guard; rewrite G; reflexivity).
  pose proof (extract_confined_elems _ Gd) as C.
  rewrite (elems_of_confined _ _ C). destruct C as [HF _].
  destruct (mkdirs (x_fs st) (prefixes_from [] (removelast (celems (e_name e))))) as [f1|] eqn:M;
    [|exact Hf].
  assert (Hf1 : fs_ok f1).
  { eapply mkdirs_ok; eauto. apply prefixes_ok; [constructor|apply removelast_Forall; assumption]. }
  destruct (celems (e_name e)) as [|c0 r0] eqn:Ec; [exact Hf1|].
  destruct (lookup (c0 :: r0) f1); [exact Hf1|].
  assert (Hf2 : forall cid len, fs_ok (f1 ++ [(c0 :: r0, NFile cid len)])).
  { intros. apply fs_ok_add; [assumption|]. split; [discriminate|assumption]. }
  destruct ((e_avail e <? e_size e)%N && _); [apply Hf2|].
  destruct (cap <? _)%N; [apply Hf2|].
  destruct (has_sl _); [apply Hf2|].
  destruct (x_cand st); apply Hf2.
Qed.

Lemma xloop_ok cap es : forall st r f,
  fs_ok (x_fs st) -> xloop cap st es = (r, f) -> fs_ok f.
Proof.
  induction es as [|e es IH]; intros st r f Hf H; simpl in H.
  - destruct (x_cand st); inversion H; subst; assumption.
  - pose proof (xstep_ok cap st e Hf) as S. destruct (xstep cap st e) as [st'|[err f']].
    + eapply IH; eauto.
    + inversion H; subst; assumption.
Qed.

(* Every node the extraction leaves behind - whether it ends in success or in a refusal half way -
   lies strictly below the extraction directory: its path is a non-empty list of ordinary
   elements.  For every archive, every cap. *)
Theorem extract_tree_confined : forall cap es r f,
  xrun cap es = (r, f) -> Forall (fun pn => okpath (fst pn)) f.
Proof. intros cap es r f H. eapply xloop_ok; [|exact H]. constructor. Qed.

(* ---- what an accepted archive looks like ---- *)
Lemma xstep_inl cap st e st' :
  xstep cap st e = inl st' ->
  is_link (e_type e) = false /\ e_type e <> TCorrupt /\ guard (e_name e) = true.
Proof.
  unfold xstep, guard. intros H.
  destruct (e_type e) eqn:T; try discriminate;
  destruct (escapes (clean (e_name e))); try discriminate; repeat split; congruence.
Qed.

Theorem accepted_archive_shape : forall cap es c f,
  xrun cap es = (XOk c, f) ->
  Forall (fun e => is_link (e_type e) = false /\ e_type e <> TCorrupt /\ guard (e_name e) = true) es.
Proof.
  intros cap es c f. unfold xrun. generalize (mkX [] None 0%N).
  induction es as [|e es IH]; intros st H; simpl in H; [constructor|].
  destruct (xstep cap st e) as [st'|[err f']] eqn:S; [|discriminate].
  constructor; [eapply xstep_inl; eauto|eapply IH; eauto].
Qed.

Theorem links_refused : forall cap es e,
  In e es -> is_link (e_type e) = true -> forall c f, xrun cap es <> (XOk c, f).
Proof.
  intros cap es e Hin Hl c f H. pose proof (accepted_archive_shape _ _ _ _ H) as A.
  rewrite Forall_forall in A. destruct (A e Hin) as [K _]. congruence.
Qed.

(* the candidate handed to the installer is one ordinary element: dest/<candidate> *)
Definition cand_ok (oc : option name) : Prop :=
  match oc with Some c => real_elem c | None => True end.

Lemma single_of_nosl es : es <> [] -> has_sl (join es) = false -> exists c, es = [c].
Proof.
  intros Hn H. destruct es as [|c [|c2 r]]; [congruence|eauto|].
  exfalso. change (join (c :: c2 :: r)) with (c ++ Sl :: join (c2 :: r)) in H.
  unfold has_sl in H. rewrite existsb_app in H. simpl in H.
  rewrite orb_true_r in H. discriminate.
Qed.

Lemma xstep_cand cap st e st' :
  cand_ok (x_cand st) -> xstep cap st e = inl st' -> cand_ok (x_cand st').
Proof.
  intros Hc. unfold xstep.
  destruct (e_type e) eqn:T; try discriminate;
  destruct (escapes (clean (e_name e))) eqn:G; try discriminate;
    try (intros H; inversion H; subst; exact Hc).
  assert (Gd : guard (e_name e) = true) by (unfold guard; rewrite G; reflexivity).
  pose proof (extract_confined_elems _ Gd) as C.
  rewrite (elems_of_confined _ _ C).
  destruct (mkdirs _ _); [|discriminate].
  destruct (celems (e_name e)) as [|c0 r0] eqn:Ec; [discriminate|].
  destruct (lookup _ _); [discriminate|].
  destruct (_ && _); [discriminate|]. destruct (_ <? _)%N; [discriminate|].
  destruct (has_sl (clean (e_name e))) eqn:HS.
  - intros H; inversion H; subst; exact Hc.
  - destruct (x_cand st); [discriminate|]. intros H; inversion H; subst. simpl.
    destruct C as [HF [[K _]|[Hn E]]]; [discriminate|].
    rewrite E in HS. destruct (single_of_nosl _ Hn HS) as [c Ec1].
    rewrite E, Ec1. simpl. rewrite Ec1 in HF. inversion HF; assumption.
Qed.

Theorem candidate_is_one_element : forall cap es c f,
  xrun cap es = (XOk c, f) -> real_elem c.
Proof.
  intros cap es c f. unfold xrun.
  assert (H0 : cand_ok (x_cand (mkX [] None 0%N))) by exact I.
  revert H0. generalize (mkX [] None 0%N).
  induction es as [|e es IH]; intros st Hc H; simpl in H.
  - destruct (x_cand st) eqn:E; inversion H; subst. exact Hc.
  - destruct (xstep cap st e) as [st'|[err f']] eqn:S; [|discriminate].
    eapply IH; [eapply xstep_cand; eauto|exact H].
Qed.

(* size cap: a run never keeps going once more than cap bytes were written *)
Lemma xstep_total cap st e st' :
  (x_total st <= cap)%N -> xstep cap st e = inl st' -> (x_total st' <= cap)%N.
Proof.
  intros Ht. unfold xstep.
  destruct (e_type e); try discriminate;
  destruct (escapes _); try discriminate; try (intros H; inversion H; subst; exact Ht).
  destruct (mkdirs _ _); [|discriminate]. destruct (elems_of _); [discriminate|].
  destruct (lookup _ _); [discriminate|].
  destruct (_ && _); [discriminate|].
  destruct (cap <? _)%N eqn:L; [discriminate|]. apply N.ltb_ge in L.
  destruct (has_sl _); [intros H; inversion H; subst; exact L|].
  destruct (x_cand st); [discriminate|]. intros H; inversion H; subst; exact L.
Qed.

(* ---- the size cap: never more than cap + 1 bytes are written, whatever the archive ---- *)
Definition node_len (n : node) : N := match n with NFile _ l => l | _ => 0%N end.
Fixpoint sum_len (f : fs) : N :=
  match f with [] => 0%N | (_, n) :: r => (node_len n + sum_len r)%N end.

Lemma sum_len_app f g : sum_len (f ++ g) = (sum_len f + sum_len g)%N.
Proof. induction f as [|[p n] f IH]; simpl; [reflexivity|]. rewrite IH. lia. Qed.

Lemma mkdirs_len ps : forall f f', mkdirs f ps = Some f' -> sum_len f' = sum_len f.
Proof.
  induction ps as [|p ps IH]; intros f f' H; simpl in H; [inversion H; reflexivity|].
  destruct (lookup p f) as [[| | |]|]; try discriminate; try (apply IH; exact H).
  rewrite (IH _ _ H), sum_len_app. simpl. lia.
Qed.

Definition size_inv (cap : N) (st : xst) : Prop :=
  sum_len (x_fs st) = x_total st /\ (x_total st <= cap)%N.

Lemma xstep_size cap st e :
  size_inv cap st ->
  match xstep cap st e with
  | inl st' => size_inv cap st'
  | inr (_, f) => (sum_len f <= cap + 1)%N
  end.
Proof.
  intros [Hs Ht]. unfold xstep.
  destruct (e_type e); try (simpl; lia);
  destruct (escapes (clean (e_name e))); try (simpl; lia); try (split; assumption).
  destruct (mkdirs (x_fs st) _) as [f1|] eqn:M; [|simpl; lia].
  pose proof (mkdirs_len _ _ _ M) as L1.
  destruct (elems_of _) as [|c0 r0]; [simpl; lia|].
  destruct (lookup _ f1); [simpl; lia|].
  set (limit := (cap - x_total st + 1)%N).
  set (n := N.min (N.min (e_avail e) (e_size e)) limit).
  assert (Hn : (n <= limit)%N) by (unfold n; lia).
  assert (L2 : sum_len (f1 ++ [(c0 :: r0, NFile (e_cid e) n)]) = (x_total st + n)%N).
  { rewrite sum_len_app. simpl. lia. }
  destruct (_ && _); [cbv beta iota; replace (sum_len _) with (x_total st + n)%N by (symmetry; exact L2); unfold limit in Hn; lia|].
  destruct (cap <? x_total st + n)%N eqn:Lt; [cbv beta iota; replace (sum_len _) with (x_total st + n)%N by (symmetry; exact L2); unfold limit in Hn; lia|].
  apply N.ltb_ge in Lt.
  destruct (has_sl _); [split; simpl; [exact L2|exact Lt]|].
  destruct (x_cand st); [cbv beta iota; replace (sum_len _) with (x_total st + n)%N by (symmetry; exact L2); lia|split; simpl; [exact L2|exact Lt]].
Qed.

Theorem extract_size_bounded : forall cap es r f,
  xrun cap es = (r, f) -> (sum_len f <= cap + 1)%N.
Proof.
  intros cap es r f. unfold xrun.
  assert (I : size_inv cap (mkX [] None 0%N)) by (split; simpl; lia).
  revert I. generalize (mkX [] None 0%N).
  induction es as [|e es IH]; intros st I H; simpl in H.
  - destruct I as [Hs Ht]. destruct (x_cand st); inversion H; subst; lia.
  - pose proof (xstep_size cap st e I) as S. destruct (xstep cap st e) as [st'|[err f']].
    + eapply IH; eauto.
    + inversion H; subst. exact S.
Qed.
