(* C19 - lexical path handling of the archive extractor.

   Modelled code
     path/filepath.Clean, IsAbs, Join on Unix ('/' is the only separator, no volume names)
     pkg/registry/extract.go ExtractBinary: the name guard
         cleanName := filepath.Clean(hdr.Name)
         if filepath.IsAbs(cleanName) || cleanName == ".." ||
            strings.HasPrefix(cleanName, ".."+string(filepath.Separator)) { refuse }

   A name is a list of characters; only '/' and '.' have a meaning for Clean, every other
   byte (NUL, backslash, bytes of a UTF-8 sequence, ...) is [Ch n] with n its value.
   Definitions only; the proofs are in PathProofs.v. *)
From Coq Require Export List Bool NArith Arith Lia.
Export ListNotations.

Inductive ch := Sl | Dt | Ch (n : N).
Definition name := list ch.

Definition ch_eqb (a b : ch) : bool :=
  match a, b with
  | Sl, Sl => true
  | Dt, Dt => true
  | Ch x, Ch y => N.eqb x y
  | _, _ => false
  end.

Fixpoint name_eqb (a b : name) : bool :=
  match a, b with
  | [], [] => true
  | x :: r, y :: s => ch_eqb x y && name_eqb r s
  | _, _ => false
  end.

Definition is_sl (c : ch) : bool := match c with Sl => true | _ => false end.

(* strings.Split(s, "/"): the components between separators, empty ones included *)
Fixpoint split (s : name) : list name :=
  match s with
  | [] => [[]]
  | Sl :: r => [] :: split r
  | c :: r => match split r with
              | h :: t => (c :: h) :: t
              | [] => [[c]]
              end
  end.

(* strings.Join(cs, "/") *)
Fixpoint join (cs : list name) : name :=
  match cs with
  | [] => []
  | [c] => c
  | c :: r => c ++ Sl :: join r
  end.

Definition dotdot : name := [Dt; Dt].

(* State of Clean's loop seen at the level of path elements:
   [dd]   number of leading ".." elements written so far (what the index [dotdot] of the Go
          code protects when the path is not rooted),
   [real] the ordinary elements written after them, last one first. *)
Record cstate := mkC { dd : nat; real : list name }.

Definition cstep (rooted : bool) (st : cstate) (c : name) : cstate :=
  match c with
  | [] => st                                   (* empty path element *)
  | [Dt] => st                                 (* . element *)
  | [Dt; Dt] =>                                (* .. element *)
      match real st with
      | _ :: rest => mkC (dd st) rest          (* out.w > dotdot: can backtrack *)
      | [] => if rooted then st                (* rooted: drop it *)
              else mkC (S (dd st)) []          (* append .. and move the mark *)
      end
  | _ => mkC (dd st) (c :: real st)            (* real path element *)
  end.

Definition is_rooted (s : name) : bool :=
  match s with Sl :: _ => true | _ => false end.

Definition celems (s : name) : list name :=
  let st := fold_left (cstep (is_rooted s)) (split s) (mkC 0 []) in
  repeat dotdot (dd st) ++ rev (real st).

(* filepath.Clean *)
Definition clean (s : name) : name :=
  let es := celems s in
  if is_rooted s then Sl :: join es
  else match es with [] => [Dt] | _ => join es end.

(* filepath.IsAbs on Unix: strings.HasPrefix(path, "/") *)
Definition is_abs (s : name) : bool := is_rooted s.

(* filepath.Join(a, b) for two non-empty elements: Clean(a + "/" + b) *)
Definition fjoin (a b : name) : name := clean (a ++ Sl :: b).

(* the guard of ExtractBinary, on the already cleaned name *)
Definition escapes (cn : name) : bool :=
  is_abs cn
  || name_eqb cn dotdot
  || match cn with Dt :: Dt :: Sl :: _ => true | _ => false end.

Definition guard (nm : name) : bool := negb (escapes (clean nm)).   (* true = accept *)

(* strings.Contains(cleanName, "/") *)
Definition has_sl (s : name) : bool := existsb is_sl s.

(* ---- what "confined" means ---- *)

(* an ordinary path element: not empty, not ".", not "..", no separator inside *)
Definition real_elem (c : name) : Prop :=
  c <> [] /\ c <> [Dt] /\ c <> dotdot /\ existsb is_sl c = false.

(* a relative path that names the directory itself or something below it, with no ".."
   anywhere: either "." or a '/'-joined non-empty list of ordinary elements *)
Definition confined (cn : name) (es : list name) : Prop :=
  Forall real_elem es /\
  ((es = [] /\ cn = [Dt]) \/ (es <> [] /\ cn = join es)).

(* an absolute clean directory path: "/" followed by joined ordinary elements *)
Definition clean_abs (d : name) (ds : list name) : Prop :=
  ds <> [] /\ Forall real_elem ds /\ d = Sl :: join ds.

(* ---- weaker guards, kept for the record: what the known bad variants let through ---- *)
(* strings.HasPrefix(name, "../") on the raw name, Clean dropped *)
Definition guard_noclean (nm : name) : bool :=
  negb (is_abs nm || name_eqb nm dotdot
        || match nm with Dt :: Dt :: Sl :: _ => true | _ => false end).

(* ---- the specification the guard is measured against ----
   Resolve the name element by element starting in dest, keeping the depth below dest:
   "" and "." stay, ".." goes up (and fails when already at dest), anything else goes down.
   A name is lexically inside when it is relative and the walk never tries to leave dest. *)
Fixpoint walk (depth : nat) (cs : list name) : bool :=
  match cs with
  | [] => true
  | c :: r =>
      match c with
      | [] => walk depth r
      | [Dt] => walk depth r
      | [Dt; Dt] => match depth with 0 => false | S d => walk d r end
      | _ => walk (S depth) r
      end
  end.

Definition lexically_inside (nm : name) : bool := negb (is_rooted nm) && walk 0 (split nm).
