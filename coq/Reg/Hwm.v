(* C19 - the rollback high-water mark.

   Modelled code: pkg/registry/trustverifier.go TrustedVerifier.VerifyIndex
       lock(index-state.json.lock); state := LoadState; Verify(raw, anchors, ...);
       CheckRollback(version, state.Version)   -- refuses version < state.Version
       CheckStaleness(timestamp, now, max); SaveState{Version: version}; unlock
   index/freeze.go CheckRollback, index/state.go LoadState/SaveState (a missing file is mark 0).

   [verify_index] is one locked critical section; [tstep] is the same section cut into its
   atomic pieces for an arbitrary number of concurrent callers (the flock is what serialises
   them in the code; [uselock = false] is the system without it, kept to show the lock matters).
   Definitions only; proofs in HwmProofs.v. *)
From Coq Require Export List Bool ZArith Lia.
Export ListNotations.
Local Open Scope Z_scope.

Record hop := mkH {
  h_version : Z;      (* payload.index.version of the fetched index *)
  h_sig_ok : bool;    (* index.Verify accepts the envelope (root signature by a trusted anchor) *)
  h_fresh : bool;     (* CheckStaleness passes *)
  h_save_ok : bool }. (* SaveState succeeds *)

Inductive hres := HAccept | HIntegrity | HRollback | HStale | HSaveFail.

Definition hres_eqb (a b : hres) : bool :=
  match a, b with
  | HAccept, HAccept | HIntegrity, HIntegrity | HRollback, HRollback
  | HStale, HStale | HSaveFail, HSaveFail => true
  | _, _ => false
  end.

(* the decision taken with the mark [m] that was loaded *)
Definition decide_index (m : Z) (o : hop) : hres + Z :=
  if negb (h_sig_ok o) then inl HIntegrity
  else if h_version o <? m then inl HRollback
  else if negb (h_fresh o) then inl HStale
  else inr (h_version o).

Definition verify_index (m : Z) (o : hop) : hres * Z :=
  match decide_index m o with
  | inl r => (r, m)
  | inr v => if h_save_ok o then (HAccept, v) else (HSaveFail, m)
  end.

(* a sequence of calls one after the other: results and the mark after each call *)
Fixpoint hrun (m : Z) (ops : list hop) : list (hres * Z) :=
  match ops with
  | [] => []
  | o :: r => let '(res, m') := verify_index m o in (res, m') :: hrun m' r
  end.

(* ---------- concurrent callers ---------- *)
Inductive pc := PIdle | PLocked | PLoaded (m : Z) | PSaving (v : Z) | PDone (r : hres).

Record sys := mkSys { lock : option nat; mark : Z; pcs : nat -> pc }.

Definition upd (f : nat -> pc) (i : nat) (x : pc) : nat -> pc :=
  fun j => if Nat.eqb j i then x else f j.

Definition release (uselock : bool) (l : option nat) : option nat := if uselock then None else l.

(* caller i takes its next atomic step (or waits / has finished) *)
Definition tstep (uselock : bool) (ops : nat -> hop) (sy : sys) (i : nat) : sys :=
  match pcs sy i with
  | PIdle =>
      if uselock then
        match lock sy with
        | None => mkSys (Some i) (mark sy) (upd (pcs sy) i PLocked)
        | Some _ => sy
        end
      else mkSys (lock sy) (mark sy) (upd (pcs sy) i PLocked)
  | PLocked => mkSys (lock sy) (mark sy) (upd (pcs sy) i (PLoaded (mark sy)))
  | PLoaded m =>
      match decide_index m (ops i) with
      | inl r => mkSys (release uselock (lock sy)) (mark sy) (upd (pcs sy) i (PDone r))
      | inr v => mkSys (lock sy) (mark sy) (upd (pcs sy) i (PSaving v))
      end
  | PSaving v =>
      if h_save_ok (ops i)
      then mkSys (release uselock (lock sy)) v (upd (pcs sy) i (PDone HAccept))
      else mkSys (release uselock (lock sy)) (mark sy) (upd (pcs sy) i (PDone HSaveFail))
  | PDone _ => sy
  end.

Definition init (m0 : Z) : sys := mkSys None m0 (fun _ => PIdle).

Fixpoint exec (uselock : bool) (ops : nat -> hop) (sy : sys) (sched : list nat) : sys :=
  match sched with
  | [] => sy
  | i :: r => exec uselock ops (tstep uselock ops sy i) r
  end.

(* the marks visible after every step of a schedule *)
Fixpoint marks (uselock : bool) (ops : nat -> hop) (sy : sys) (sched : list nat) : list Z :=
  match sched with
  | [] => []
  | i :: r => let sy' := tstep uselock ops sy i in mark sy' :: marks uselock ops sy' r
  end.

Fixpoint nondecreasing (m : Z) (l : list Z) : bool :=
  match l with
  | [] => true
  | x :: r => (m <=? x) && nondecreasing x r
  end.

(* ---------- what is checked on observed calls ---------- *)
Definition accepted (r : hres) : bool := match r with HAccept => true | _ => false end.

(* a batch of concurrent calls that started with mark m0 and ended with mark mend: the exact
   condition for the observed results to be explained by SOME order of the critical sections *)
Definition batch_explained (m0 : Z) (log : list (hop * hres)) (mend : Z) : bool :=
  let acc := map (fun x => h_version (fst x)) (filter (fun x => accepted (snd x)) log) in
  let top := fold_left Z.max acc m0 in
  (mend =? top)
  && forallb (fun x =>
       let o := fst x in
       match snd x with
       | HAccept => h_sig_ok o && h_fresh o && h_save_ok o && (m0 <=? h_version o)
       | HIntegrity => negb (h_sig_ok o)
       | HRollback => h_sig_ok o && (h_version o <? top)
       | HStale => h_sig_ok o && negb (h_fresh o) && (m0 <=? h_version o)
       | HSaveFail => h_sig_ok o && h_fresh o && negb (h_save_ok o) && (m0 <=? h_version o)
       end) log.

(* the property itself, trusting only which calls returned without error: the mark never
   decreases, it only ever becomes the version of a call that passed every check, and no index
   older than the mark the batch started with is accepted *)
Definition batch_monitor (m0 : Z) (log : list (hop * hres)) (mend : Z) : bool :=
  (m0 <=? mend)
  && forallb (fun x => negb (accepted (snd x))
                       || (h_sig_ok (fst x) && h_fresh (fst x) && (m0 <=? h_version (fst x))
                           && (h_version (fst x) <=? mend))) log
  && ((mend =? m0)
      || existsb (fun x => accepted (snd x) && h_sig_ok (fst x) && h_fresh (fst x)
                           && (h_version (fst x) =? mend)) log).

(* sequential calls: marks never decrease, move only on an accepted call that passed every
   check, to that call's version *)
Fixpoint seq_monitor (m : Z) (log : list (hop * (bool * Z))) : bool :=   (* (op, (returned nil, mark after)) *)
  match log with
  | [] => true
  | (o, (ok, m')) :: r =>
      (m <=? m')
      && (negb ok || (h_sig_ok o && h_fresh o && (m <=? h_version o) && (m' =? h_version o)))
      && (ok || (m' =? m))
      && seq_monitor m' r
  end.
