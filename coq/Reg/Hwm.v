(* C19 - the rollback high-water mark.

   Modelled code: pkg/registry/trustverifier.go TrustedVerifier.VerifyIndex
       lock(index-state.json.lock); state := LoadState
       index.Verify(raw, anchors, state.LastVerifiedContentHash)
            accepted when a trusted ROOT key signed the payload, or when a trusted FRESHNESS key
            signed it and its content subtree hashes to the last root-verified content on record
       CheckRollback(version, state.Version)   -- refuses version < state.Version
       CheckStaleness(timestamp, now, max)
       SaveState{Version: version, LastVerifiedContentHash: (new hash iff root-verified)}; unlock
   index/verify.go Verify, index/freeze.go CheckRollback, index/state.go LoadState/SaveState
   (a missing file is mark 0 with no content on record).

   [verify_index] is one locked critical section; [tstep] is the same section cut into its
   atomic pieces for an arbitrary number of concurrent callers (the flock is what serialises
   them in the code; [uselock = false] is the system without it, kept to show the lock matters).
   Definitions only; proofs in HwmProofs.v. *)
From Coq Require Export List Bool ZArith Lia.
Export ListNotations.
Local Open Scope Z_scope.

Record hop := mkH {
  h_version : Z;      (* payload.index.version of the fetched index *)
  h_root : bool;      (* a trusted root key's signature verifies *)
  h_fsig : bool;      (* a trusted freshness key's signature verifies *)
  h_content : nat;    (* identifies the content subtree (connectors + processors) *)
  h_fresh : bool;     (* CheckStaleness passes *)
  h_save_ok : bool }. (* SaveState succeeds *)

(* index-state.json: the mark and the last root-verified content (None: nothing on record) *)
Record hst := mkSt { st_mark : Z; st_hash : option nat }.

Inductive hres := HAccept | HIntegrity | HRollback | HStale | HSaveFail.

Definition hres_eqb (a b : hres) : bool :=
  match a, b with
  | HAccept, HAccept | HIntegrity, HIntegrity | HRollback, HRollback
  | HStale, HStale | HSaveFail, HSaveFail => true
  | _, _ => false
  end.

Definition hash_is (h : option nat) (c : nat) : bool :=
  match h with Some x => Nat.eqb x c | None => false end.

(* index.Verify: root-verified, or freshness-verified over unchanged content *)
Definition sig_ok (h : option nat) (o : hop) : bool :=
  h_root o || (h_fsig o && hash_is h (h_content o)).

(* the decision taken with the state that was loaded: a refusal, or the state to persist -
   the version ALWAYS, the content only when root-verified *)
Definition decide_index (st : hst) (o : hop) : hres + hst :=
  if negb (sig_ok (st_hash st) o) then inl HIntegrity
  else if h_version o <? st_mark st then inl HRollback
  else if negb (h_fresh o) then inl HStale
  else inr (mkSt (h_version o) (if h_root o then Some (h_content o) else st_hash st)).

Definition verify_index (st : hst) (o : hop) : hres * hst :=
  match decide_index st o with
  | inl r => (r, st)
  | inr st' => if h_save_ok o then (HAccept, st') else (HSaveFail, st)
  end.

(* a sequence of calls one after the other: results and the state after each call *)
Fixpoint hrun (st : hst) (ops : list hop) : list (hres * hst) :=
  match ops with
  | [] => []
  | o :: r => let '(res, st') := verify_index st o in (res, st') :: hrun st' r
  end.

Fixpoint hfinal (st : hst) (ops : list hop) : hst :=
  match ops with
  | [] => st
  | o :: r => hfinal (snd (verify_index st o)) r
  end.

Definition accepted (r : hres) : bool := match r with HAccept => true | _ => false end.

(* versions of the calls that were accepted, in order *)
Fixpoint accepted_versions (st : hst) (ops : list hop) : list Z :=
  match ops with
  | [] => []
  | o :: r => let '(res, st') := verify_index st o in
              (if accepted res then [h_version o] else []) ++ accepted_versions st' r
  end.

(* ---------- concurrent callers ---------- *)
Inductive pc := PIdle | PLocked | PLoaded (s : hst) | PSaving (s : hst) | PDone (r : hres).

Record sys := mkSys { lock : option nat; cur : hst; pcs : nat -> pc }.
Definition mark (sy : sys) : Z := st_mark (cur sy).

Definition upd (f : nat -> pc) (i : nat) (x : pc) : nat -> pc :=
  fun j => if Nat.eqb j i then x else f j.

Definition release (uselock : bool) (l : option nat) : option nat := if uselock then None else l.

(* caller i takes its next atomic step (or waits / has finished) *)
Definition tstep (uselock : bool) (ops : nat -> hop) (sy : sys) (i : nat) : sys :=
  match pcs sy i with
  | PIdle =>
      if uselock then
        match lock sy with
        | None => mkSys (Some i) (cur sy) (upd (pcs sy) i PLocked)
        | Some _ => sy
        end
      else mkSys (lock sy) (cur sy) (upd (pcs sy) i PLocked)
  | PLocked => mkSys (lock sy) (cur sy) (upd (pcs sy) i (PLoaded (cur sy)))
  | PLoaded s =>
      match decide_index s (ops i) with
      | inl r => mkSys (release uselock (lock sy)) (cur sy) (upd (pcs sy) i (PDone r))
      | inr s' => mkSys (lock sy) (cur sy) (upd (pcs sy) i (PSaving s'))
      end
  | PSaving s' =>
      if h_save_ok (ops i)
      then mkSys (release uselock (lock sy)) s' (upd (pcs sy) i (PDone HAccept))
      else mkSys (release uselock (lock sy)) (cur sy) (upd (pcs sy) i (PDone HSaveFail))
  | PDone _ => sy
  end.

Definition init (s0 : hst) : sys := mkSys None s0 (fun _ => PIdle).

Fixpoint exec (uselock : bool) (ops : nat -> hop) (sy : sys) (sched : list nat) : sys :=
  match sched with
  | [] => sy
  | i :: r => exec uselock ops (tstep uselock ops sy i) r
  end.

(* the marks visible after every step of a schedule *)
Fixpoint marks (uselock : bool) (ops : nat -> hop) (sy : sys) (sched : list nat) : list Z :=
  match sched with
  | [] => []
  | i :: r => let sy' := tstep uselock ops sy i in mark sy' :: marks uselock ops sy' r
  end.

Fixpoint nondecreasing (m : Z) (l : list Z) : bool :=
  match l with
  | [] => true
  | x :: r => (m <=? x) && nondecreasing x r
  end.

(* ---------- what is checked on observed calls ---------- *)

(* could the signatures of [o] have been accepted at some moment of a batch that started with
   content [h0] on record?  root-signed: always; freshness-only: when its content is the one on
   record at the start or the content of a root-signed call accepted in the batch *)
Definition sig_possible (h0 : option nat) (log : list (hop * hres)) (o : hop) : bool :=
  h_root o
  || (h_fsig o && (hash_is h0 (h_content o)
                   || existsb (fun x => accepted (snd x) && h_root (fst x)
                                        && Nat.eqb (h_content (fst x)) (h_content o)) log)).

(* ... and could they have been refused: not root-signed, and no freshness signature, or other
   content on record at the start, or a root-signed call with other content accepted in the batch *)
Definition sig_refusable (h0 : option nat) (log : list (hop * hres)) (o : hop) : bool :=
  negb (h_root o)
  && (negb (h_fsig o) || negb (hash_is h0 (h_content o))
      || existsb (fun x => accepted (snd x) && h_root (fst x)
                           && negb (Nat.eqb (h_content (fst x)) (h_content o))) log).

(* a batch of concurrent calls that started in state (m0, h0) and ended with mark mend:
   conditions every order of the critical sections satisfies (they are also sufficient when no
   call of the batch is freshness-only) *)
Definition batch_explained (m0 : Z) (h0 : option nat) (log : list (hop * hres)) (mend : Z) : bool :=
  let acc := map (fun x => h_version (fst x)) (filter (fun x => accepted (snd x)) log) in
  let top := fold_left Z.max acc m0 in
  (mend =? top)
  && forallb (fun x =>
       let o := fst x in
       match snd x with
       | HAccept => sig_possible h0 log o && h_fresh o && h_save_ok o && (m0 <=? h_version o)
       | HIntegrity => sig_refusable h0 log o
       | HRollback => sig_possible h0 log o && (h_version o <? top)
       | HStale => sig_possible h0 log o && negb (h_fresh o) && (m0 <=? h_version o)
       | HSaveFail => sig_possible h0 log o && h_fresh o && negb (h_save_ok o) && (m0 <=? h_version o)
       end) log.

(* the property itself, trusting only which calls returned without error: the mark never
   decreases, it ends as the highest accepted version (or stays), only calls whose signatures
   could be accepted and that are fresh and not older than the starting mark are accepted *)
Definition batch_monitor (m0 : Z) (h0 : option nat) (log : list (hop * hres)) (mend : Z) : bool :=
  (m0 <=? mend)
  && forallb (fun x => negb (accepted (snd x))
                       || (sig_possible h0 log (fst x) && h_fresh (fst x) && (m0 <=? h_version (fst x))
                           && (h_version (fst x) <=? mend))) log
  && ((mend =? m0)
      || existsb (fun x => accepted (snd x) && (h_version (fst x) =? mend)) log).

(* sequential calls, log = (call, (returned nil, mark in the state file afterwards)).
   [m] the mark before, [top] the highest version accepted so far (or the initial mark),
   [h] the content of the last accepted root-signed call (or the initial one):
   - the mark never decreases and moves only on an accepted call,
   - after EVERY accepted call the persisted mark is that call's version,
   - an index older than ANY previously accepted version is refused,
   - only calls that are fresh and carry acceptable signatures are accepted *)
Fixpoint seq_monitor (m top : Z) (h : option nat) (log : list (hop * (bool * Z))) : bool :=
  match log with
  | [] => true
  | (o, (ok, m')) :: r =>
      (m <=? m')
      && (negb ok || (sig_ok h o && h_fresh o && (top <=? h_version o) && (m' =? h_version o)))
      && (ok || (m' =? m))
      && seq_monitor m' (if ok then Z.max top (h_version o) else top)
                     (if ok && h_root o then Some (h_content o) else h) r
  end.
