(* C19 - model of pkg/registry/extract.go ExtractBinary: the loop over the archive entries.

   The archive is the list of headers the tar reader yields (name, type flag, declared size,
   bytes really available before the stream breaks, an identifier of the content).  The
   extraction directory is private and freshly created (install.go extractAndGuard), so
   the file tree below it starts empty and holds only what the loop itself created; it is
   modelled as an association list from paths (lists of path elements below dest) to nodes.

   Definitions only; proofs in ExtractProofs.v. *)
From Verif Require Export Reg.Path.

Inductive etype :=
| TReg            (* tar.TypeReg (and TypeRegA, which the reader rewrites) *)
| TDir            (* tar.TypeDir *)
| TSym | TLink    (* tar.TypeSymlink, tar.TypeLink *)
| TOther          (* char/block device, fifo, cont, GNU sparse, ... : the default arm *)
| TCorrupt.       (* tr.Next() returned an error other than io.EOF at this point *)

Record entry := mkE {
  e_name : name; e_type : etype;
  e_size : N;       (* hdr.Size *)
  e_avail : N;      (* bytes the reader can deliver for this entry (= e_size unless the stream is cut) *)
  e_cid : nat }.    (* identifies the content *)

(* NLink / NOdd only ever appear in OBSERVED trees (symlink, device, socket ...): the model
   creates directories and regular files only *)
Inductive node := NDir | NFile (cid : nat) (len : N) | NLink | NOdd.
Definition path := list name.
Definition fs := list (path * node).

Fixpoint path_eqb (a b : path) : bool :=
  match a, b with
  | [], [] => true
  | x :: r, y :: s => name_eqb x y && path_eqb r s
  | _, _ => false
  end.

Fixpoint lookup (p : path) (f : fs) : option node :=
  match f with
  | [] => None
  | (q, n) :: r => if path_eqb p q then Some n else lookup p r
  end.

Inductive xerr := EEscape | ELink | EMkdir | ECreate | ECopy | ETooBig | EMultiple | ENoCandidate | ECorruptTar.
Inductive xres := XOk (cand : name) | XErr (e : xerr).

(* all non-empty prefixes of p, shortest first, each prepended by acc *)
Fixpoint prefixes_from (acc p : path) : list path :=
  match p with
  | [] => []
  | x :: r => (acc ++ [x]) :: prefixes_from (acc ++ [x]) r
  end.

(* os.MkdirAll over the chain of ancestors: an ancestor that is a regular file fails (ENOTDIR),
   an existing directory is kept, a missing one is created *)
Fixpoint mkdirs (f : fs) (ps : list path) : option fs :=
  match ps with
  | [] => Some f
  | p :: r =>
      match lookup p f with
      | Some NDir => mkdirs f r
      | Some _ => None
      | None => mkdirs (f ++ [(p, NDir)]) r
      end
  end.

(* the elements of destPath below destDir: filepath.Join(destDir, ".") is destDir itself *)
Definition elems_of (cn : name) : path := if name_eqb cn [Dt] then [] else split cn.

Record xst := mkX { x_fs : fs; x_cand : option name; x_total : N }.

Definition xstep (cap : N) (st : xst) (e : entry) : xst + (xerr * fs) :=
  match e_type e with
  | TCorrupt => inr (ECorruptTar, x_fs st)
  | ty =>
  let cn := clean (e_name e) in
  if escapes cn then inr (EEscape, x_fs st) else
  match ty with
  | TDir | TOther | TCorrupt => inl st
  | TSym | TLink => inr (ELink, x_fs st)
  | TReg =>
      let p := elems_of cn in
      match mkdirs (x_fs st) (prefixes_from [] (removelast p)) with
      | None => inr (EMkdir, x_fs st)
      | Some f1 =>
          match p with
          | [] => inr (ECreate, f1)                      (* O_EXCL on dest itself *)
          | _ =>
              match lookup p f1 with
              | Some _ => inr (ECreate, f1)              (* O_EXCL: file or directory exists *)
              | None =>
                  let limit := (cap - x_total st + 1)%N in   (* io.LimitReader(tr, max-total+1) *)
                  let n := N.min (N.min (e_avail e) (e_size e)) limit in
                  let f2 := f1 ++ [(p, NFile (e_cid e) n)] in
                  let tot := (x_total st + n)%N in
                  if (e_avail e <? e_size e)%N && (e_avail e <? limit)%N then inr (ECopy, f2)
                  else if (cap <? tot)%N then inr (ETooBig, f2)
                  else if has_sl cn then inl (mkX f2 (x_cand st) tot)
                  else match x_cand st with
                       | Some _ => inr (EMultiple, f2)
                       | None => inl (mkX f2 (Some cn) tot)
                       end
              end
          end
      end
  end
  end.

Fixpoint xloop (cap : N) (st : xst) (es : list entry) : xres * fs :=
  match es with
  | [] => match x_cand st with
          | Some c => (XOk c, x_fs st)
          | None => (XErr ENoCandidate, x_fs st)
          end
  | e :: r => match xstep cap st e with
              | inl st' => xloop cap st' r
              | inr (err, f) => (XErr err, f)
              end
  end.

Definition xrun (cap : N) (es : list entry) : xres * fs := xloop cap (mkX [] None 0%N) es.

Definition is_link (t : etype) : bool := match t with TSym | TLink => true | _ => false end.
