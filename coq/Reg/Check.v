(* C19 - executable correspondence + property monitors for the case files written by
   harness/cmd/c19.  [chk c] = code agree monitor_ok  (Base/CaseCheck.v). *)
From Verif Require Import Base.CaseCheck Reg.Path Reg.Extract Reg.Gate Reg.Hwm Reg.AtomicFile.

Definition bool_eqb := Bool.eqb.

(* ---------- helpers on observed trees ---------- *)
Definition node_eqb (a b : node) : bool :=
  match a, b with
  | NDir, NDir => true
  | NFile c l, NFile c' l' => N.eqb l l' && (N.eqb l 0 || Nat.eqb c c')
  | NLink, NLink => true
  | NOdd, NOdd => true
  | _, _ => false
  end.

Definition pn_eqb (a b : path * node) : bool := path_eqb (fst a) (fst b) && node_eqb (snd a) (snd b).

Definition subset (l1 l2 : list (path * node)) : bool :=
  forallb (fun x => existsb (pn_eqb x) l2) l1.
Definition same_set (l1 l2 : list (path * node)) : bool := subset l1 l2 && subset l2 l1.

(* strip [pre] from the front of [p] *)
Fixpoint strip (pre p : path) : option path :=
  match pre, p with
  | [], _ => Some p
  | x :: r, y :: s => if name_eqb x y then strip r s else None
  | _ :: _, [] => None
  end.

(* nodes strictly below pre, with paths relative to pre / everything else *)
Fixpoint inside (pre : path) (t : list (path * node)) : list (path * node) :=
  match t with
  | [] => []
  | (p, n) :: r => match strip pre p with
                   | Some (x :: q) => (x :: q, n) :: inside pre r
                   | _ => inside pre r
                   end
  end.
Fixpoint outside (pre : path) (t : list (path * node)) : list (path * node) :=
  match t with
  | [] => []
  | (p, n) :: r => match strip pre p with
                   | Some (_ :: _) => outside pre r
                   | _ => (p, n) :: outside pre r
                   end
  end.

Definition plain (n : node) : bool := match n with NDir | NFile _ _ => true | _ => false end.

(* result classes the harness can tell apart without reading error text (conduiterr codes) *)
Inductive ores := OAcc | OInt | ORoll | OStale | OErr.
Definition ores_of (r : hres) : ores :=
  match r with HAccept => OAcc | HIntegrity => OInt | HRollback => ORoll | HStale => OStale | HSaveFail => OErr end.
Definition ores_eqb (a b : ores) : bool :=
  match a, b with
  | OAcc, OAcc | OInt, OInt | ORoll, ORoll | OStale, OStale | OErr, OErr => true
  | _, _ => false
  end.
Definition hres_of (o : ores) : hres :=
  match o with OAcc => HAccept | OInt => HIntegrity | ORoll => HRollback | OStale => HStale | OErr => HSaveFail end.

Definition fetch_eqb (a b : fetch) : bool :=
  match a, b with FIndex, FIndex | FArtifact, FArtifact | FSig, FSig | FProv, FProv => true | _, _ => false end.
Definition point_eqb (a b : point) : bool :=
  match a, b with
  | PDownload, PDownload | PExtract, PExtract | PPrerename, PPrerename | PPostRename, PPostRename => true
  | _, _ => false
  end.
Definition oev_eqb (a b : oev) : bool :=
  match a, b with
  | OFetch f, OFetch g => fetch_eqb f g
  | OVerify, OVerify | OValidate, OValidate => true
  | OHook p, OHook q => point_eqb p q
  | _, _ => false
  end.
Definition bits_eqb (a b : bits) : bool :=
  bool_eqb (b_staged a) (b_staged b) && bool_eqb (b_extract a) (b_extract b)
  && bool_eqb (b_cache a) (b_cache b) && bool_eqb (b_ulog a) (b_ulog b)
  && bool_eqb (b_final a) (b_final b) && bool_eqb (b_manifest a) (b_manifest b)
  && bool_eqb (b_audit a) (b_audit b).
Definition res_eqb (a b : res) : bool :=
  match a, b with ROk, ROk | RAlready, RAlready | RErr, RErr => true | _, _ => false end.
Definition seen_eqb (a b : seen) : bool :=
  match a, b with SeenOld, SeenOld | SeenNew, SeenNew | SeenOther, SeenOther => true | _, _ => false end.

Record hstep := mkStep { hs_script : script; hs_obs : list (oev * bits); hs_end : bits; hs_res : res;
                         hs_outside : bool; hs_stray : bool }.

(* ---------- cases ---------- *)
Inductive ccase :=
(* (a) filepath.Clean / IsAbs / Join(dest, Clean(name)) against the model; dest = "/d/e" *)
| KClean (nm oclean : name) (oabs : bool) (ojoin : name)
(* (b) registry.ExtractBinary on an archive: entries as the tar reader yields them; observed
   result, returned path below dest, file tree of the grand-parent W of dest afterwards.
   Before the call W always is (the harness checks it and refuses to run otherwise):
     W/archive.tgz  W/p/  W/p/d/ (dest, empty)  W/p/sentinel  W/p/sib/  W/p/sib/keep *)
| KExtract (cap : N) (es : list entry) (ok : bool) (cand : name) (arclen : N)
           (after : list (path * node))
(* (c) registry.Install against an in-process index/artifact server with scripted verifier,
   policy context and pre-arranged install directory. obs: every observable event with the
   places that held something new at that moment; bend: the same when Install had returned;
   outside: something outside the install directory changed; stray: something inside it other
   than .registry/ and the final artifact changed *)
| KInstall (cap : N) (s : script) (obs : list (oev * bits)) (bend : bits) (r : res)
           (outside stray : bool)
(* several installs one after the other on the SAME install directory (uninstalled in between
   when the previous one succeeded), each with its own script - in particular its own verifier
   verdict; c0: the cache holds the digest before the first step *)
| KHistory (cap : N) (c0 : bool) (steps : list hstep)
(* (d) TrustedVerifier.VerifyIndex: calls one after the other (class of the result and the
   mark in the state file after each), starting with mark m0 and content h0 on record *)
| KHwmSeq (m0 : Z) (h0 : option nat) (ops : list hop) (obs : list (ores * Z))
(* ... and a batch of concurrent calls: result classes, final mark, marks a poller read meanwhile *)
| KHwmBatch (m0 : Z) (h0 : option nat) (log : list (hop * ores)) (mend : Z) (polled : list Z)
(* (e) atomicfile.WriteFile (variant 0), SaveManifest (1), SaveState (2) in a traced child:
   system calls on the directory, and what path held after a kill at each of them *)
| KAtomic (variant : nat) (ops : list sysop) (kills : list seen)
(* Install killed at a chaos point or system call: what the final artifact / the manifest look
   like afterwards, whether the manifest lists the artifact, whether the verifier had accepted *)
| KKill (final manifest : seen) (entry verified : bool).

Definition obs_eqb (a b : list (oev * bits)) : bool :=
  list_eqb (fun x y => oev_eqb (fst x) (fst y) && bits_eqb (snd x) (snd y)) a b.

(* (agreement, monitor) of a history: every step against the model's step with the cache state
   the model's history has reached *)
Fixpoint chk_history (cap : N) (c : bool) (steps : list hstep) : bool * bool :=
  match steps with
  | [] => (true, true)
  | st :: r =>
      let s := with_cache (hs_script st) c in
      let '(t, mr) := run cap s in
      let '(mobs, mbend) := observe bits0 t in
      let '(a, m) := chk_history cap (c || existsb is_cache_write t) r in
      (obs_eqb mobs (hs_obs st) && bits_eqb mbend (hs_end st) && res_eqb mr (hs_res st) && a,
       mon_install s (hs_obs st) (hs_end st) && negb (hs_outside st) && negb (hs_stray st) && m)
  end.

Definition dest_de : name := [Sl; Ch 100; Sl; Ch 101].

Definition nm_p : name := [Ch 112].
Definition nm_d : name := [Ch 100].
Definition x_pre : path := [nm_p; nm_d].
Definition x_before (arclen : N) : list (path * node) :=
  [ ([[Ch 97; Ch 114; Ch 99; Ch 104; Ch 105; Ch 118; Ch 101; Dt; Ch 116; Ch 103; Ch 122]], NFile 901 arclen);
    ([nm_p], NDir);
    ([nm_p; nm_d], NDir);
    ([nm_p; [Ch 115; Ch 101; Ch 110; Ch 116; Ch 105; Ch 110; Ch 101; Ch 108]], NFile 251 1);
    ([nm_p; [Ch 115; Ch 105; Ch 98]], NDir);
    ([nm_p; [Ch 115; Ch 105; Ch 98]; [Ch 107; Ch 101; Ch 101; Ch 112]], NFile 252 2) ].

Definition chk (c : ccase) : nat :=
  match c with
  | KClean nm oc oabs oj =>
      code (name_eqb (clean nm) oc && bool_eqb (is_abs nm) oabs
            && name_eqb (fjoin dest_de (clean nm)) oj)
           true
  | KExtract cap es ok cand arclen after =>
      let pre := x_pre in let before := x_before arclen in
      let '(r, f) := xrun cap es in
      let agree :=
        match r with
        | XOk c => ok && name_eqb c cand
        | XErr _ => negb ok
        end && same_set (inside pre after) f in
      let monitor :=
        (* nothing outside the extraction directory was created, removed or changed *)
        same_set (outside pre before) (outside pre after)
        (* nothing but directories and regular files inside it *)
        && forallb (fun pn => plain (snd pn)) (inside pre after)
        (* an archive is accepted only if it has no link entry and no entry whose name
           leaves the directory at any point of its lexical resolution *)
        && (negb ok || forallb (fun e => negb (is_link (e_type e)) && lexically_inside (e_name e)) es)
      in code agree monitor
  | KInstall cap s obs bend r outside stray =>
      let '(t, mr) := run cap s in
      let '(mobs, mbend) := observe bits0 t in
      code (list_eqb (fun a b => oev_eqb (fst a) (fst b) && bits_eqb (snd a) (snd b)) mobs obs
            && bits_eqb mbend bend && res_eqb mr r)
           (mon_install s obs bend && negb outside && negb stray)
  | KHistory cap c0 steps =>
      let '(a, m) := chk_history cap c0 steps in code a m
  | KHwmSeq m0 h0 ops obs =>
      code (list_eqb (fun a b => ores_eqb (fst a) (fst b) && Z.eqb (snd a) (snd b))
                     (map (fun x => (ores_of (fst x), st_mark (snd x))) (hrun (mkSt m0 h0) ops)) obs)
           (Nat.eqb (length ops) (length obs)
            && seq_monitor m0 m0 h0 (combine ops (map (fun x => (ores_eqb (fst x) OAcc, snd x)) obs)))
  | KHwmBatch m0 h0 log mend polled =>
      let l := map (fun x => (fst x, hres_of (snd x))) log in
      code (batch_explained m0 h0 l mend)
           (batch_monitor m0 h0 l mend && nondecreasing m0 polled && forallb (fun x => Z.leb x mend) polled)
  | KAtomic _ ops kills =>
      code (list_eqb sysop_eqb (map shape (write_file nat [[0]])) ops)
           (forallb seen_ok kills)
  | KKill final manifest entry verified =>
      code true
           (seen_ok final && seen_ok manifest
            && (negb entry || seen_eqb final SeenNew)
            && (negb (seen_eqb final SeenNew) || verified))
  end.
