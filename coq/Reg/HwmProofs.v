(* C19 - proofs about the high-water mark (Reg/Hwm.v). *)
From Verif Require Import Reg.Hwm.
Local Open Scope Z_scope.

(* ---------- one critical section ---------- *)
Lemma decide_inr st o st' : decide_index st o = inr st' ->
  st' = mkSt (h_version o) (if h_root o then Some (h_content o) else st_hash st)
  /\ sig_ok (st_hash st) o = true /\ h_fresh o = true /\ st_mark st <= h_version o.
Proof.
  unfold decide_index. destruct (sig_ok (st_hash st) o); cbn [negb]; [|discriminate].
  destruct (h_version o <? st_mark st) eqn:L; [discriminate|]. apply Z.ltb_ge in L.
  destruct (h_fresh o); cbn [negb]; [|discriminate]. intros H; inversion H; auto.
Qed.

Lemma decide_inl_not_accept st o r : decide_index st o = inl r -> r <> HAccept.
Proof.
  unfold decide_index. destruct (sig_ok _ o); cbn [negb]; [|intros H; inversion H; discriminate].
  destruct (h_version o <? st_mark st); [intros H; inversion H; discriminate|].
  destruct (h_fresh o); cbn [negb]; intros H; inversion H; discriminate.
Qed.

Lemma verify_index_mono st o : st_mark st <= st_mark (snd (verify_index st o)).
Proof.
  unfold verify_index. destruct (decide_index st o) as [r|st'] eqn:D; simpl; [lia|].
  apply decide_inr in D. destruct D as (-> & _ & _ & L). destruct (h_save_ok o); simpl; lia.
Qed.

(* an accepted call: signatures acceptable with the content on record, fresh, not older than
   the mark; the state becomes that version (always) and that content (only if root-verified) *)
Lemma verify_index_accept st o st' :
  verify_index st o = (HAccept, st') ->
  sig_ok (st_hash st) o = true /\ h_fresh o = true /\ st_mark st <= h_version o
  /\ st' = mkSt (h_version o) (if h_root o then Some (h_content o) else st_hash st).
Proof.
  unfold verify_index. destruct (decide_index st o) as [r|s1] eqn:D.
  - intros H. inversion H as [[E1 E2]]. exfalso. rewrite E1 in D.
    exact (decide_inl_not_accept _ _ _ D eq_refl).
  - apply decide_inr in D. destruct D as (-> & S & F & L).
    destruct (h_save_ok o); intros H; inversion H; subst; auto.
Qed.

Lemma verify_index_older_refused st o :
  h_version o < st_mark st -> fst (verify_index st o) <> HAccept /\ snd (verify_index st o) = st.
Proof.
  intros L. unfold verify_index, decide_index.
  destruct (sig_ok _ o); cbn [negb]; [|split; [discriminate|reflexivity]].
  apply Z.ltb_lt in L. rewrite L. split; [discriminate|reflexivity].
Qed.

Lemma verify_index_not_accept_keeps st o :
  fst (verify_index st o) <> HAccept -> snd (verify_index st o) = st.
Proof.
  unfold verify_index. destruct (decide_index st o); simpl; [reflexivity|].
  destruct (h_save_ok o); simpl; [congruence|reflexivity].
Qed.

(* sequential calls satisfy the sequential monitor (in the model the mark IS the highest
   accepted version, so the monitor's [top] and [m] coincide) *)
Theorem hrun_monitor : forall ops st,
  seq_monitor (st_mark st) (st_mark st) (st_hash st)
    (combine ops (map (fun rm => (accepted (fst rm), st_mark (snd rm))) (hrun st ops))) = true.
Proof.
  induction ops as [|o ops IH]; intros st; simpl; [reflexivity|].
  destruct (verify_index st o) as [res st'] eqn:V. simpl.
  pose proof (verify_index_mono st o) as M. rewrite V in M. simpl in M.
  destruct res; simpl;
    try (pose proof (verify_index_not_accept_keeps st o) as K; rewrite V in K; simpl in K;
         rewrite K by discriminate; rewrite Z.leb_refl, Z.eqb_refl; simpl; apply IH).
  destruct (verify_index_accept _ _ _ V) as (S & F & L & ->). simpl in *.
  rewrite S, F, Z.eqb_refl. apply Z.leb_le in L. rewrite L. simpl.
  apply Z.leb_le in L. rewrite Z.max_r by exact L.
  specialize (IH (mkSt (h_version o) (if h_root o then Some (h_content o) else st_hash st))).
  simpl in IH. destruct (h_root o); exact IH.
Qed.

(* over ANY history of calls the recorded mark is the maximum of the initial mark and the
   versions of the accepted calls *)
Theorem hrun_mark_is_max : forall ops st,
  st_mark (hfinal st ops) = fold_left Z.max (accepted_versions st ops) (st_mark st).
Proof.
  induction ops as [|o ops IH]; intros st; simpl; [reflexivity|].
  destruct (verify_index st o) as [res st'] eqn:V. simpl. rewrite IH.
  destruct res; simpl;
    try (pose proof (verify_index_not_accept_keeps st o) as K; rewrite V in K; simpl in K;
         rewrite K by discriminate; reflexivity).
  destruct (verify_index_accept _ _ _ V) as (_ & _ & L & ->). simpl.
  rewrite Z.max_r by exact L. reflexivity.
Qed.

(* ---------- concurrent callers under the lock ---------- *)
Definition quiet (p : pc) : Prop := p = PIdle \/ exists r, p = PDone r.

Definition saving_ok (ops : nat -> hop) (sy : sys) (i : nat) (s' : hst) : Prop :=
  mark sy <= st_mark s' /\ st_mark s' = h_version (ops i)
  /\ sig_ok (st_hash (cur sy)) (ops i) = true /\ h_fresh (ops i) = true
  /\ st_hash s' = (if h_root (ops i) then Some (h_content (ops i)) else st_hash (cur sy)).

Definition inv (ops : nat -> hop) (sy : sys) : Prop :=
  match lock sy with
  | None => forall j, quiet (pcs sy j)
  | Some i =>
      (pcs sy i = PLocked \/ pcs sy i = PLoaded (cur sy)
       \/ exists s', pcs sy i = PSaving s' /\ saving_ok ops sy i s')
      /\ forall j, j <> i -> quiet (pcs sy j)
  end.

Lemma upd_same f i x : upd f i x i = x.
Proof. unfold upd. rewrite Nat.eqb_refl. reflexivity. Qed.
Lemma upd_other f i x j : j <> i -> upd f i x j = f j.
Proof. intros H. unfold upd. apply Nat.eqb_neq in H. rewrite H. reflexivity. Qed.

Lemma quiet_upd_done f i r j : (forall k, k <> i -> quiet (f k)) -> quiet (upd f i (PDone r) j).
Proof.
  intros H. destruct (Nat.eq_dec j i) as [->|N].
  - rewrite upd_same. right. eauto.
  - rewrite upd_other by assumption. auto.
Qed.

Lemma inv_init ops s0 : inv ops (init s0).
Proof. intros j. left. reflexivity. Qed.

(* the holder of the lock is the only caller that is not idle or done *)
Lemma holder ops sy i :
  inv ops sy -> ~ quiet (pcs sy i) ->
  lock sy = Some i /\
  (pcs sy i = PLocked \/ pcs sy i = PLoaded (cur sy)
   \/ exists s', pcs sy i = PSaving s' /\ saving_ok ops sy i s')
  /\ forall j, j <> i -> quiet (pcs sy j).
Proof.
  unfold inv. intros I Q. destruct (lock sy) as [h|].
  - destruct I as [Hh Ho]. destruct (Nat.eq_dec i h) as [->|N]; [auto|].
    exfalso. apply Q. apply Ho. exact N.
  - exfalso. apply Q. apply I.
Qed.

Lemma tstep_inv ops sy i :
  inv ops sy -> inv ops (tstep true ops sy i) /\ mark sy <= mark (tstep true ops sy i).
Proof.
  intros I. unfold tstep, mark.
  destruct (pcs sy i) as [| |s|s'|r] eqn:P.
  - (* idle: take the lock if it is free *)
    unfold inv in I. destruct (lock sy) as [h|] eqn:L; [split; [unfold inv; rewrite L; exact I|lia]|].
    split; [|simpl; lia]. unfold inv. simpl. split; [left; apply upd_same|].
    intros j N. rewrite upd_other by assumption. apply I.
  - (* locked: load the state *)
    destruct (holder ops sy i I) as (L & _ & Ho); [rewrite P; intros [Q|[r Q]]; discriminate|].
    split; [|simpl; lia]. unfold inv. simpl. rewrite L. split; [right; left; apply upd_same|].
    intros j Nj. rewrite upd_other by assumption. auto.
  - (* loaded: decide *)
    destruct (holder ops sy i I) as (L & Hh & Ho); [rewrite P; intros [Q|[r Q]]; discriminate|].
    assert (Em : s = cur sy).
    { destruct Hh as [Q|[Q|[v [Q _]]]]; congruence. }
    subst s. destruct (decide_index (cur sy) (ops i)) as [r|s1] eqn:D.
    + split; [|simpl; lia]. unfold inv. simpl. intros j. apply quiet_upd_done. exact Ho.
    + split; [|simpl; lia]. unfold inv. simpl. rewrite L.
      apply decide_inr in D. destruct D as (-> & Sg & Fr & Le).
      split; [right; right; eexists; split; [apply upd_same|]|].
      * unfold saving_ok, mark. simpl. repeat split; auto.
      * intros j Nj. rewrite upd_other by assumption. auto.
  - (* saving *)
    destruct (holder ops sy i I) as (L & Hh & Ho); [rewrite P; intros [Q|[r Q]]; discriminate|].
    assert (Sv : saving_ok ops sy i s').
    { destruct Hh as [Q|[Q|[v' [Q Sv]]]]; congruence. }
    destruct Sv as (Le & _). unfold mark in Le.
    destruct (h_save_ok (ops i)); (split; [|simpl; lia]); unfold inv; simpl;
      intros j; apply quiet_upd_done; exact Ho.
  - split; [exact I|lia].
Qed.

Lemma exec_inv ops sched : forall sy, inv ops sy -> inv ops (exec true ops sy sched).
Proof.
  induction sched as [|i r IH]; intros sy I; simpl; [exact I|].
  apply IH. apply tstep_inv. exact I.
Qed.

(* For every number of callers, every assignment of indexes (root-signed or freshness-only) to
   them and EVERY interleaving of their atomic steps, the mark never decreases. *)
Theorem hwm_monotone : forall ops s0 sched,
  nondecreasing (st_mark s0) (marks true ops (init s0) sched) = true.
Proof.
  intros ops s0 sched. pose proof (inv_init ops s0) as I. revert I.
  change (st_mark s0) with (mark (init s0)). generalize (init s0).
  induction sched as [|i r IH]; intros sy I; simpl; [reflexivity|].
  destruct (tstep_inv ops sy i I) as [I' Le].
  apply andb_true_iff. split; [apply Z.leb_le; exact Le|apply IH; exact I'].
Qed.

(* A call returns success only at its saving step, with the state it read still in force, with
   signatures acceptable for the content on record (root, or freshness over unchanged
   content), fresh, for a version not older than the mark; the mark then becomes exactly that
   version - for BOTH kinds of acceptance - and the content on record changes only when the
   call was root-verified.  Whatever the interleaving. *)
Theorem hwm_accept_sound : forall ops s0 sched i,
  let sy := exec true ops (init s0) sched in
  let sy' := tstep true ops sy i in
  pcs sy i <> PDone HAccept -> pcs sy' i = PDone HAccept ->
  mark sy <= h_version (ops i) /\ mark sy' = h_version (ops i)
  /\ sig_ok (st_hash (cur sy)) (ops i) = true /\ h_fresh (ops i) = true
  /\ st_hash (cur sy') = (if h_root (ops i) then Some (h_content (ops i)) else st_hash (cur sy)).
Proof.
  intros ops s0 sched i sy sy' Hn Hd.
  assert (I : inv ops sy) by (apply exec_inv, inv_init).
  subst sy'. unfold tstep in Hd |- *. unfold mark.
  destruct (pcs sy i) as [| |s|s'|r] eqn:P.
  - destruct (lock sy); simpl in Hd; [congruence|rewrite upd_same in Hd; discriminate].
  - simpl in Hd. rewrite upd_same in Hd. discriminate.
  - destruct (decide_index s (ops i)) as [r|s1] eqn:D; simpl in Hd; rewrite upd_same in Hd.
    + inversion Hd; subst. exfalso. exact (decide_inl_not_accept _ _ _ D eq_refl).
    + discriminate.
  - destruct (holder ops sy i I) as (L & Hh & Ho); [rewrite P; intros [Q|[r Q]]; discriminate|].
    assert (Sv : saving_ok ops sy i s').
    { destruct Hh as [Q|[Q|[v' [Q Sv]]]]; congruence. }
    destruct Sv as (Le & Ev & Sg & Fr & Eh). unfold mark in Le.
    destruct (h_save_ok (ops i)); simpl in *.
    + rewrite <- Ev. auto.
    + rewrite upd_same in Hd. discriminate.
  - congruence.
Qed.

(* an index older than the mark in force is refused: the caller that read the state with a
   version below its mark ends with the rollback refusal (or the integrity refusal), never success *)
Theorem hwm_older_refused : forall st o,
  h_version o < st_mark st -> exists r, decide_index st o = inl r /\ (r = HRollback \/ r = HIntegrity).
Proof.
  intros st o L. unfold decide_index. destruct (sig_ok _ o); cbn [negb]; [|eauto].
  apply Z.ltb_lt in L. rewrite L. eauto.
Qed.

(* In every reachable state the mark is the maximum of the initial mark and the versions of
   the calls that have returned success: none of them exceeds it, and it is the initial mark
   or one of them. *)
Definition max_accepted (ops : nat -> hop) (m0 : Z) (sy : sys) : Prop :=
  m0 <= mark sy
  /\ (forall j, pcs sy j = PDone HAccept -> h_version (ops j) <= mark sy)
  /\ (mark sy = m0 \/ exists j, pcs sy j = PDone HAccept /\ h_version (ops j) = mark sy).

Lemma tstep_max ops m0 sy i :
  inv ops sy -> max_accepted ops m0 sy -> max_accepted ops m0 (tstep true ops sy i).
Proof.
  intros I (M0 & Hle & Hex). unfold tstep.
  (* a caller that already returned success keeps that state under any update of another pc *)
  assert (Keep : forall x, x <> PDone HAccept -> pcs sy i <> PDone HAccept ->
            max_accepted ops m0 (mkSys (lock sy) (cur sy) (upd (pcs sy) i x))
            /\ forall l, max_accepted ops m0 (mkSys l (cur sy) (upd (pcs sy) i x))).
  { intros x Hx Hi.
    assert (K : forall l, max_accepted ops m0 (mkSys l (cur sy) (upd (pcs sy) i x))).
    { intros l. unfold max_accepted, mark in *. simpl. split; [exact M0|]. split.
      - intros j Hj. destruct (Nat.eq_dec j i) as [->|N]; [rewrite upd_same in Hj; congruence|].
        rewrite upd_other in Hj by assumption. auto.
      - destruct Hex as [E|(j & Hj & Ej)]; [left; exact E|right].
        exists j. split; [|exact Ej]. destruct (Nat.eq_dec j i) as [->|N]; [congruence|].
        rewrite upd_other by assumption. exact Hj. }
    split; apply K. }
  destruct (pcs sy i) as [| |s|s'|r] eqn:P.
  - destruct (lock sy); [split; [exact M0|split; [exact Hle|exact Hex]]|].
    apply Keep; discriminate.
  - apply (Keep (PLoaded (cur sy))); discriminate.
  - destruct (decide_index s (ops i)) as [r|s1] eqn:D.
    + apply Keep; [|discriminate]. intros E. inversion E; subst.
      exact (decide_inl_not_accept _ _ _ D eq_refl).
    + apply (Keep (PSaving s1)); discriminate.
  - destruct (holder ops sy i I) as (L & Hh & Ho); [rewrite P; intros [Q|[r Q]]; discriminate|].
    assert (Sv : saving_ok ops sy i s').
    { destruct Hh as [Q|[Q|[v' [Q Sv]]]]; congruence. }
    destruct Sv as (Le & Ev & _).
    destruct (h_save_ok (ops i)).
    + unfold max_accepted, mark in *. simpl. split; [lia|]. split.
      * intros j Hj. destruct (Nat.eq_dec j i) as [->|N]; [lia|].
        rewrite upd_other in Hj by assumption. specialize (Hle j Hj). lia.
      * right. exists i. split; [apply upd_same|symmetry; exact Ev].
    + apply Keep; discriminate.
  - split; [exact M0|split; [exact Hle|exact Hex]].
Qed.

Theorem hwm_mark_is_max_accepted : forall ops s0 sched,
  max_accepted ops (st_mark s0) (exec true ops (init s0) sched).
Proof.
  intros ops s0 sched.
  assert (I : inv ops (init s0)) by apply inv_init.
  assert (M : max_accepted ops (st_mark s0) (init s0)).
  { unfold max_accepted, mark. simpl. split; [lia|]. split; [intros j H; discriminate|left; reflexivity]. }
  revert I M. generalize (init s0).
  induction sched as [|i r IH]; intros sy I M; simpl; [exact M|].
  apply IH; [apply tstep_inv; exact I|apply tstep_max; assumption].
Qed.

(* without the lock the mark CAN decrease: two callers, versions 5 and 3, both load mark 0 *)
Example hwm_unlocked_refuted :
  let ops := fun i => match i with 0%nat => mkH 5 true false 0 true true | _ => mkH 3 true false 0 true true end in
  marks false ops (init (mkSt 0 None)) [0; 1; 0; 1; 0; 1; 0; 1]%nat = [0; 0; 0; 0; 0; 0; 5; 3].
Proof. vm_compute. reflexivity. Qed.

(* a freshness-only index advances the mark and keeps the content on record; a later index
   older than it is refused even though it is validly root-signed *)
Example hwm_freshness_advances_mark :
  map (fun rs => (fst rs, st_mark (snd rs)))
      (hrun (mkSt 0 None) [mkH 5 true false 1 true true; mkH 9 false true 1 true true;
                           mkH 7 true false 1 true true; mkH 9 false true 2 true true])
  = [(HAccept, 5); (HAccept, 9); (HRollback, 9); (HIntegrity, 9)].
Proof. vm_compute. reflexivity. Qed.

(* ---------- any batch the acceptor explains satisfies the property monitor ---------- *)
Lemma fold_max_ge l : forall a, a <= fold_left Z.max l a.
Proof. induction l as [|x l IH]; intros a; simpl; [lia|]. specialize (IH (Z.max a x)). lia. Qed.

Lemma fold_max_in l : forall a x, In x l -> x <= fold_left Z.max l a.
Proof.
  induction l as [|y l IH]; intros a x H; simpl; [contradiction|].
  destruct H as [->|H]; [|apply IH; exact H].
  pose proof (fold_max_ge l (Z.max a x)). lia.
Qed.

Lemma fold_max_cases l : forall a, fold_left Z.max l a = a \/ In (fold_left Z.max l a) l.
Proof.
  induction l as [|y l IH]; intros a; simpl; [left; reflexivity|].
  destruct (IH (Z.max a y)) as [E|H]; [|right; right; exact H].
  rewrite E. destruct (Z.max_spec a y) as [[_ ->]|[_ ->]]; [right; left; reflexivity|left; reflexivity].
Qed.

Theorem batch_explained_monitor : forall m0 h0 log mend,
  batch_explained m0 h0 log mend = true -> batch_monitor m0 h0 log mend = true.
Proof.
  intros m0 h0 log mend H. unfold batch_explained in H. apply andb_true_iff in H as [Ht Hf].
  set (acc := map (fun x => h_version (fst x)) (filter (fun x => accepted (snd x)) log)) in *.
  apply Z.eqb_eq in Ht. rewrite forallb_forall in Hf.
  unfold batch_monitor. apply andb_true_iff. split; [apply andb_true_iff; split|].
  - apply Z.leb_le. rewrite Ht. apply fold_max_ge.
  - apply forallb_forall. intros [o r] Hin. specialize (Hf _ Hin). simpl in *.
    destruct r; simpl; try reflexivity.
    apply andb_true_iff in Hf as [Hf L]. apply andb_true_iff in Hf as [Hf _].
    apply andb_true_iff in Hf as [S F]. rewrite S, F, L. simpl.
    apply Z.leb_le. rewrite Ht. apply fold_max_in. unfold acc.
    apply in_map_iff. exists (o, HAccept). split; [reflexivity|].
    apply filter_In. split; [exact Hin|reflexivity].
  - destruct (fold_max_cases acc m0) as [E|Hi].
    + rewrite Ht, E, Z.eqb_refl. reflexivity.
    + apply orb_true_iff. right. apply existsb_exists.
      unfold acc in Hi. apply in_map_iff in Hi. destruct Hi as ([o r] & Ev & Hi).
      apply filter_In in Hi. destruct Hi as [Hin Ha]. simpl in *.
      exists (o, r). split; [exact Hin|]. simpl. rewrite Ha. simpl.
      apply Z.eqb_eq. rewrite Ht. fold acc. exact Ev.
Qed.
