(* C19 - proofs about the high-water mark (Reg/Hwm.v). *)
From Verif Require Import Reg.Hwm.
Local Open Scope Z_scope.

(* ---------- one critical section ---------- *)
Lemma decide_inr m o v : decide_index m o = inr v ->
  v = h_version o /\ h_sig_ok o = true /\ h_fresh o = true /\ m <= v.
Proof.
  unfold decide_index. destruct (h_sig_ok o); cbn [negb]; [|discriminate].
  destruct (h_version o <? m) eqn:L; [discriminate|]. apply Z.ltb_ge in L.
  destruct (h_fresh o); cbn [negb]; [|discriminate]. intros H; inversion H; auto.
Qed.

Lemma verify_index_mono m o : m <= snd (verify_index m o).
Proof.
  unfold verify_index. destruct (decide_index m o) as [r|v] eqn:D; simpl; [lia|].
  apply decide_inr in D. destruct (h_save_ok o); simpl; lia.
Qed.

Lemma verify_index_accept m o m' :
  verify_index m o = (HAccept, m') ->
  h_sig_ok o = true /\ h_fresh o = true /\ m <= h_version o /\ m' = h_version o.
Proof.
  unfold verify_index. destruct (decide_index m o) as [r|v] eqn:D.
  - intros H. inversion H as [[E1 E2]]. exfalso. rewrite E1 in D. unfold decide_index in D.
    destruct (h_sig_ok o); cbn [negb] in D; [|discriminate].
    destruct (h_version o <? m); [discriminate|]. destruct (h_fresh o); discriminate.
  - apply decide_inr in D. destruct D as (-> & S & F & L).
    destruct (h_save_ok o); intros H; inversion H; subst; auto.
Qed.

Lemma verify_index_older_refused m o :
  h_version o < m -> fst (verify_index m o) <> HAccept /\ snd (verify_index m o) = m.
Proof.
  intros L. unfold verify_index, decide_index.
  destruct (h_sig_ok o); cbn [negb]; [|split; [discriminate|reflexivity]].
  apply Z.ltb_lt in L. rewrite L. split; [discriminate|reflexivity].
Qed.

Lemma verify_index_not_accept_keeps m o :
  fst (verify_index m o) <> HAccept -> snd (verify_index m o) = m.
Proof.
  unfold verify_index. destruct (decide_index m o); simpl; [reflexivity|].
  destruct (h_save_ok o); simpl; [congruence|reflexivity].
Qed.

(* sequential calls satisfy the sequential monitor *)
Theorem hrun_monitor : forall ops m,
  seq_monitor m (combine ops (map (fun rm => (accepted (fst rm), snd rm)) (hrun m ops))) = true.
Proof.
  induction ops as [|o ops IH]; intros m; simpl; [reflexivity|].
  destruct (verify_index m o) as [res m'] eqn:V. simpl.
  pose proof (verify_index_mono m o) as M. rewrite V in M. simpl in M.
  rewrite IH, andb_true_r. apply andb_true_iff. split; [apply andb_true_iff; split|].
  - apply Z.leb_le. exact M.
  - destruct res; simpl; try reflexivity.
    destruct (verify_index_accept _ _ _ V) as (S & F & L & ->).
    rewrite S, F, Z.eqb_refl. simpl. rewrite andb_true_r. apply Z.leb_le. exact L.
  - destruct res; simpl; try reflexivity;
      pose proof (verify_index_not_accept_keeps m o) as K; rewrite V in K; simpl in K;
      rewrite K by discriminate; apply Z.eqb_refl.
Qed.

(* ---------- concurrent callers under the lock ---------- *)
Definition quiet (p : pc) : Prop := p = PIdle \/ exists r, p = PDone r.

Definition saving_ok (ops : nat -> hop) (sy : sys) (i : nat) (v : Z) : Prop :=
  mark sy <= v /\ v = h_version (ops i) /\ h_sig_ok (ops i) = true /\ h_fresh (ops i) = true.

Definition inv (ops : nat -> hop) (sy : sys) : Prop :=
  match lock sy with
  | None => forall j, quiet (pcs sy j)
  | Some i =>
      (pcs sy i = PLocked \/ pcs sy i = PLoaded (mark sy)
       \/ exists v, pcs sy i = PSaving v /\ saving_ok ops sy i v)
      /\ forall j, j <> i -> quiet (pcs sy j)
  end.

Lemma upd_same f i x : upd f i x i = x.
Proof. unfold upd. rewrite Nat.eqb_refl. reflexivity. Qed.
Lemma upd_other f i x j : j <> i -> upd f i x j = f j.
Proof. intros H. unfold upd. apply Nat.eqb_neq in H. rewrite H. reflexivity. Qed.

Lemma quiet_upd_done f i r j : (forall k, k <> i -> quiet (f k)) -> quiet (upd f i (PDone r) j).
Proof.
  intros H. destruct (Nat.eq_dec j i) as [->|N].
  - rewrite upd_same. right. eauto.
  - rewrite upd_other by assumption. auto.
Qed.

Lemma inv_init ops m0 : inv ops (init m0).
Proof. intros j. left. reflexivity. Qed.

(* the holder of the lock is the only caller that is not idle or done *)
Lemma holder ops sy i :
  inv ops sy -> ~ quiet (pcs sy i) ->
  lock sy = Some i /\
  (pcs sy i = PLocked \/ pcs sy i = PLoaded (mark sy)
   \/ exists v, pcs sy i = PSaving v /\ saving_ok ops sy i v)
  /\ forall j, j <> i -> quiet (pcs sy j).
Proof.
  unfold inv. intros I Q. destruct (lock sy) as [h|].
  - destruct I as [Hh Ho]. destruct (Nat.eq_dec i h) as [->|N]; [auto|].
    exfalso. apply Q. apply Ho. exact N.
  - exfalso. apply Q. apply I.
Qed.

Lemma tstep_inv ops sy i :
  inv ops sy -> inv ops (tstep true ops sy i) /\ mark sy <= mark (tstep true ops sy i).
Proof.
  intros I. unfold tstep.
  destruct (pcs sy i) as [| |m|v|r] eqn:P.
  - (* idle: take the lock if it is free *)
    unfold inv in I. destruct (lock sy) as [h|] eqn:L; [split; [unfold inv; rewrite L; exact I|lia]|].
    split; [|simpl; lia]. unfold inv. simpl. split; [left; apply upd_same|].
    intros j N. rewrite upd_other by assumption. apply I.
  - (* locked: load the mark *)
    destruct (holder ops sy i I) as (L & _ & Ho); [rewrite P; intros [Q|[r Q]]; discriminate|].
    split; [|simpl; lia]. unfold inv. simpl. rewrite L. split; [right; left; apply upd_same|].
    intros j Nj. rewrite upd_other by assumption. auto.
  - (* loaded: decide *)
    destruct (holder ops sy i I) as (L & Hh & Ho); [rewrite P; intros [Q|[r Q]]; discriminate|].
    assert (Em : m = mark sy).
    { destruct Hh as [Q|[Q|[v [Q _]]]]; congruence. }
    subst m. destruct (decide_index (mark sy) (ops i)) as [r|v] eqn:D.
    + split; [|simpl; lia]. unfold inv. simpl. intros j. apply quiet_upd_done. exact Ho.
    + split; [|simpl; lia]. unfold inv. simpl. rewrite L.
      apply decide_inr in D. destruct D as (Ev & Sg & Fr & Le).
      split; [right; right; exists v; split; [apply upd_same|repeat split; assumption]|].
      intros j Nj. rewrite upd_other by assumption. auto.
  - (* saving *)
    destruct (holder ops sy i I) as (L & Hh & Ho); [rewrite P; intros [Q|[r Q]]; discriminate|].
    assert (Sv : saving_ok ops sy i v).
    { destruct Hh as [Q|[Q|[v' [Q Sv]]]]; congruence. }
    destruct Sv as (Le & _).
    destruct (h_save_ok (ops i)); (split; [|simpl; lia]); unfold inv; simpl;
      intros j; apply quiet_upd_done; exact Ho.
  - split; [exact I|lia].
Qed.

Lemma exec_inv ops sched : forall sy, inv ops sy -> inv ops (exec true ops sy sched).
Proof.
  induction sched as [|i r IH]; intros sy I; simpl; [exact I|].
  apply IH. apply tstep_inv. exact I.
Qed.

(* For every number of callers, every assignment of indexes to them and EVERY interleaving of
   their atomic steps, the mark never decreases. *)
Theorem hwm_monotone : forall ops m0 sched,
  nondecreasing m0 (marks true ops (init m0) sched) = true.
Proof.
  intros ops m0 sched. pose proof (inv_init ops m0) as I. revert I.
  change m0 with (mark (init m0)) at 2. generalize (init m0).
  induction sched as [|i r IH]; intros sy I; simpl; [reflexivity|].
  destruct (tstep_inv ops sy i I) as [I' Le].
  apply andb_true_iff. split; [apply Z.leb_le; exact Le|apply IH; exact I'].
Qed.

(* A call returns success only at its saving step, with the mark it read still in force, for a
   version that is not older than that mark and passed every check; the mark then becomes
   exactly that version (it is persisted only after every check).  Whatever the interleaving. *)
Theorem hwm_accept_sound : forall ops m0 sched i,
  let sy := exec true ops (init m0) sched in
  let sy' := tstep true ops sy i in
  pcs sy i <> PDone HAccept -> pcs sy' i = PDone HAccept ->
  mark sy <= h_version (ops i) /\ mark sy' = h_version (ops i)
  /\ h_sig_ok (ops i) = true /\ h_fresh (ops i) = true.
Proof.
  intros ops m0 sched i sy sy' Hn Hd.
  assert (I : inv ops sy) by (apply exec_inv, inv_init).
  subst sy'. unfold tstep in Hd |- *.
  destruct (pcs sy i) as [| |m|v|r] eqn:P.
  - destruct (lock sy); simpl in Hd; [congruence|rewrite upd_same in Hd; discriminate].
  - simpl in Hd. rewrite upd_same in Hd. discriminate.
  - destruct (decide_index m (ops i)) as [r|v] eqn:D; simpl in Hd; rewrite upd_same in Hd.
    + inversion Hd; subst. unfold decide_index in D.
      destruct (h_sig_ok (ops i)); cbn [negb] in D; [|discriminate].
      destruct (h_version (ops i) <? m); [discriminate|]. destruct (h_fresh (ops i)); discriminate.
    + discriminate.
  - destruct (holder ops sy i I) as (L & Hh & Ho); [rewrite P; intros [Q|[r Q]]; discriminate|].
    assert (Sv : saving_ok ops sy i v).
    { destruct Hh as [Q|[Q|[v' [Q Sv]]]]; congruence. }
    destruct Sv as (Le & Ev & Sg & Fr).
    destruct (h_save_ok (ops i)); simpl in *.
    + subst v. auto.
    + rewrite upd_same in Hd. discriminate.
  - congruence.
Qed.

(* an index older than the mark in force is refused: the caller that read mark m with a
   version below it ends with the rollback refusal (or the integrity refusal), never success *)
Theorem hwm_older_refused : forall m o,
  h_version o < m -> exists r, decide_index m o = inl r /\ (r = HRollback \/ r = HIntegrity).
Proof.
  intros m o L. unfold decide_index. destruct (h_sig_ok o); cbn [negb]; [|eauto].
  apply Z.ltb_lt in L. rewrite L. eauto.
Qed.

(* without the lock the mark CAN decrease: two callers, versions 5 and 3, both load mark 0 *)
Example hwm_unlocked_refuted :
  let ops := fun i => match i with 0%nat => mkH 5 true true true | _ => mkH 3 true true true end in
  marks false ops (init 0) [0; 1; 0; 1; 0; 1; 0; 1]%nat = [0; 0; 0; 0; 0; 0; 5; 3].
Proof. vm_compute. reflexivity. Qed.

(* ---------- any batch the acceptor explains satisfies the property monitor ---------- *)
Lemma fold_max_ge l : forall a, a <= fold_left Z.max l a.
Proof. induction l as [|x l IH]; intros a; simpl; [lia|]. specialize (IH (Z.max a x)). lia. Qed.

Lemma fold_max_in l : forall a x, In x l -> x <= fold_left Z.max l a.
Proof.
  induction l as [|y l IH]; intros a x H; simpl; [contradiction|].
  destruct H as [->|H]; [|apply IH; exact H].
  pose proof (fold_max_ge l (Z.max a x)). lia.
Qed.

Lemma fold_max_cases l : forall a, fold_left Z.max l a = a \/ In (fold_left Z.max l a) l.
Proof.
  induction l as [|y l IH]; intros a; simpl; [left; reflexivity|].
  destruct (IH (Z.max a y)) as [E|H]; [|right; right; exact H].
  rewrite E. destruct (Z.max_spec a y) as [[_ ->]|[_ ->]]; [right; left; reflexivity|left; reflexivity].
Qed.

Theorem batch_explained_monitor : forall m0 log mend,
  batch_explained m0 log mend = true -> batch_monitor m0 log mend = true.
Proof.
  intros m0 log mend H. unfold batch_explained in H. apply andb_true_iff in H as [Ht Hf].
  set (acc := map (fun x => h_version (fst x)) (filter (fun x => accepted (snd x)) log)) in *.
  apply Z.eqb_eq in Ht. rewrite forallb_forall in Hf.
  unfold batch_monitor. apply andb_true_iff. split; [apply andb_true_iff; split|].
  - apply Z.leb_le. rewrite Ht. apply fold_max_ge.
  - apply forallb_forall. intros [o r] Hin. specialize (Hf _ Hin). simpl in *.
    destruct r; simpl; try reflexivity.
    apply andb_true_iff in Hf as [Hf L]. apply andb_true_iff in Hf as [Hf _].
    apply andb_true_iff in Hf as [S F]. rewrite S, F, L. simpl.
    apply Z.leb_le. rewrite Ht. apply fold_max_in. unfold acc.
    apply in_map_iff. exists (o, HAccept). split; [reflexivity|].
    apply filter_In. split; [exact Hin|reflexivity].
  - destruct (fold_max_cases acc m0) as [E|Hi].
    + rewrite Ht, E, Z.eqb_refl. reflexivity.
    + apply orb_true_iff. right. apply existsb_exists.
      unfold acc in Hi. apply in_map_iff in Hi. destruct Hi as ([o r] & Ev & Hi).
      apply filter_In in Hi. destruct Hi as [Hin Ha]. simpl in *.
      exists (o, r). split; [exact Hin|]. simpl. rewrite Ha.
      specialize (Hf _ Hin). simpl in Hf. destruct r; try discriminate.
      apply andb_true_iff in Hf as [Hf _]. apply andb_true_iff in Hf as [Hf _].
      apply andb_true_iff in Hf as [S F]. rewrite S, F. simpl.
      apply Z.eqb_eq. rewrite Ht. fold acc. exact Ev.
Qed.
