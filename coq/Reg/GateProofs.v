(* C19 - proofs about the install pipeline model (Reg/Gate.v).
   Every stage is [pre l (...)]; the lemmas below are proved stage by stage. *)
From Verif Require Import Reg.Gate.

Lemma in_pre e l x : In e (fst (pre l x)) <-> In e l \/ In e (fst x).
Proof. unfold pre. simpl. apply in_app_iff. Qed.

Definition Fin := EWrite LFinal.

Ltac inl H := cbn [In] in H;
  repeat match type of H with _ \/ _ => destruct H as [H|H] end;
  try discriminate H; try contradiction.

Lemma fail_no_final : ~ In Fin (fst fail_staged).
Proof. intros H. unfold fail_staged in H. simpl in H. inl H. Qed.

(* ---- (1) the final artifact is written only behind both gates ---- *)
Lemma gate_final cap s : In Fin (fst (run_gate cap s)) -> gate_ok s = true.
Proof.
  unfold run_gate, gate_ok, run_prov, run_verify.
  destruct (s_allow_unsigned s).
  - destruct (decide (s_pol s)); cbn [negb]; [reflexivity|]. intros H; exfalso; exact (fail_no_final H).
  - destruct (s_has_sig s), (s_sig_ok s), (s_has_prov s), (s_prov_ok s), (s_verifier s);
      intros H; repeat (apply in_pre in H; destruct H as [H|H]; [inl H|]);
      try reflexivity; exfalso; exact (fail_no_final H).
Qed.

Lemma checked_final cap s :
  In Fin (fst (run_checked cap s)) -> s_digest_ok s = true /\ gate_ok s = true.
Proof.
  unfold run_checked. destruct (s_digest_ok s); cbn [negb].
  - destruct (s_cache_hit s); intros H; [split; [reflexivity|eapply gate_final; eauto]|].
    apply in_pre in H. destruct H as [H|H]; [inl H|]. split; [reflexivity|eapply gate_final; eauto].
  - intros H; exfalso; exact (fail_no_final H).
Qed.

Theorem install_only_after_gates : forall cap s,
  In (EWrite LFinal) (fst (run cap s)) ->
  s_digest_ok s = true /\ gate_ok s = true.
Proof.
  intros cap s H. unfold run, run_stage in H.
  apply in_pre in H. destruct H as [H|H]; [inl H|].
  destruct (s_resolve s); cbn [negb] in H; [|inl H].
  apply in_pre in H. destruct H as [H|H]; [inl H|].
  destruct (s_installed s); [inl H|].
  apply in_pre in H. destruct H as [H|H]; [inl H|].
  destruct (s_cache_hit s) eqn:C.
  - apply in_pre in H. destruct H as [H|H]; [inl H|]. eapply checked_final; eauto.
  - apply in_pre in H. destruct H as [H|H]; [inl H|].
    destruct (s_download_ok s); [|exfalso; exact (fail_no_final H)].
    apply in_pre in H. destruct H as [H|H]; [inl H|]. eapply checked_final; eauto.
Qed.

(* spelled out: digest matches, and either the verifier accepted the artifact as signed or the
   operator asked for an unsigned install and policy.Decide allowed it *)
Corollary install_only_after_gates' : forall cap s,
  In (EWrite LFinal) (fst (run cap s)) ->
  s_digest_ok s = true /\
  ((s_allow_unsigned s = false /\ s_verifier s = VSigned) \/
   (s_allow_unsigned s = true /\ decide (s_pol s) = true)).
Proof.
  intros cap s H. destruct (install_only_after_gates cap s H) as [D G]. split; [exact D|].
  unfold gate_ok in G. destruct (s_allow_unsigned s); [right; auto|left].
  destruct (s_verifier s); try discriminate. auto.
Qed.

(* ---- (2) the order of effects ---- *)
Fixpoint orun (o : ostate) (l : list ev) : option ostate :=
  match l with
  | [] => Some o
  | e :: r => match ostep o e with Some o' => orun o' r | None => None end
  end.

Lemma ordered_app l : forall o r,
  ordered_from o (l ++ r) = match orun o l with Some o' => ordered_from o' r | None => false end.
Proof.
  induction l as [|e l IH]; intros o r; simpl; [reflexivity|].
  destruct (ostep o e); [apply IH|reflexivity].
Qed.

Lemma ordered_pre o l x :
  ordered_from o (fst (pre l x)) = match orun o l with Some o' => ordered_from o' (fst x) | None => false end.
Proof. unfold pre. simpl. apply ordered_app. Qed.

Ltac opre := rewrite ordered_pre; cbn [orun ostep o_gated o_extracted o_final o_manifest andb orb].

Lemma commit_ordered s m : ordered_from (mkO true true false m) (fst (run_commit s)) = true.
Proof.
  unfold run_commit, fail_staged.
  destruct (s_rename_ok s); cbn [negb]; [|reflexivity]. opre.
  destruct (s_chmod_ok s); cbn [negb]; [|reflexivity]. opre.
  destruct (s_manifest_ok s); cbn [negb]; [|reflexivity]. opre.
  destruct (s_audit_ok s); reflexivity.
Qed.

Lemma tail_ordered s m : ordered_from (mkO true true false m) (fst (run_tail s)) = true.
Proof.
  unfold run_tail. opre.
  destruct (s_validate s) as [[|]|]; [opre; apply commit_ordered|opre; reflexivity|apply commit_ordered].
Qed.

Lemma extract_ordered cap s m : ordered_from (mkO true false false m) (fst (run_extract cap s)) = true.
Proof.
  unfold run_extract. opre. destruct (fst (xrun cap (s_archive s))); [apply tail_ordered|reflexivity].
Qed.

Lemma verify_ordered cap s g m : ordered_from (mkO g false false m) (fst (run_verify cap s)) = true.
Proof.
  unfold run_verify. opre. destruct (s_verifier s); [apply extract_ordered|reflexivity|reflexivity].
Qed.

Lemma prov_ordered cap s g m : ordered_from (mkO g false false m) (fst (run_prov cap s)) = true.
Proof.
  unfold run_prov. destruct (s_has_prov s); [|apply verify_ordered]. opre.
  destruct (s_prov_ok s); [apply verify_ordered|reflexivity].
Qed.

Lemma gate_ordered cap s g m : ordered_from (mkO g false false m) (fst (run_gate cap s)) = true.
Proof.
  unfold run_gate. destruct (s_allow_unsigned s).
  - destruct (decide (s_pol s)); cbn [negb]; [|reflexivity].
    destruct (s_ulog_ok s); cbn [negb]; [|reflexivity]. opre. apply extract_ordered.
  - destruct (s_has_sig s); [|apply prov_ordered]. opre.
    destruct (s_sig_ok s); [apply prov_ordered|reflexivity].
Qed.

Lemma checked_ordered cap s g m : ordered_from (mkO g false false m) (fst (run_checked cap s)) = true.
Proof.
  unfold run_checked. destruct (s_digest_ok s); cbn [negb]; [|reflexivity].
  destruct (s_cache_hit s); [apply gate_ordered|opre; apply gate_ordered].
Qed.

Theorem run_ordered : forall cap s, ordered (fst (run cap s)) = true.
Proof.
  intros cap s. unfold ordered, run, run_stage. opre.
  destruct (s_resolve s); cbn [negb]; [|reflexivity]. opre.
  destruct (s_installed s); [reflexivity|]. opre.
  destruct (s_cache_hit s).
  - opre. apply checked_ordered.
  - opre. destruct (s_download_ok s); [opre; apply checked_ordered|reflexivity].
Qed.

(* what [ordered] gives: before the first write of the final artifact nothing is written but
   bookkeeping below .registry (locks, staging, cache, the unsigned-install log) *)
Definition bookkeeping (e : ev) : Prop :=
  match e with
  | EWrite LFinal | EWrite LManifest | EWrite LAudit => False
  | _ => True
  end.

Lemma ordered_prefix_bookkeeping pre : forall o post,
  o_final o = false -> o_manifest o = false ->
  ordered_from o (pre ++ Fin :: post) = true -> ~ In Fin pre -> Forall bookkeeping pre.
Proof.
  induction pre as [|e pre IH]; intros o post Hf Hm H Hn; [constructor|].
  simpl in H. destruct (ostep o e) as [o'|] eqn:E; [|discriminate].
  assert (Hne : e <> Fin) by (intros ->; apply Hn; left; reflexivity).
  assert (Hn' : ~ In Fin pre) by (intros K; apply Hn; right; exact K).
  destruct o as [g x f m]. simpl in Hf, Hm. subst f m.
  assert (K : bookkeeping e /\ o_final o' = false /\ o_manifest o' = false).
  { destruct e as [ | [] | | | | ]; simpl in E |- *;
      repeat match type of E with context [if ?b then _ else _] => destruct b end;
      try discriminate; inversion E; subst; simpl; auto; exfalso; apply Hne; reflexivity. }
  destruct K as (K1 & K2 & K3). constructor; [exact K1|]. eapply IH; eauto.
Qed.

Theorem nothing_outside_staging_before_rename : forall cap s pre post,
  fst (run cap s) = pre ++ EWrite LFinal :: post -> ~ In (EWrite LFinal) pre ->
  Forall bookkeeping pre.
Proof.
  intros cap s pre post E Hn. pose proof (run_ordered cap s) as O. unfold ordered in O.
  rewrite E in O. eapply ordered_prefix_bookkeeping; [| |exact O|exact Hn]; reflexivity.
Qed.

(* ---- (3) a failing run ---- *)
Lemma commit_err s : snd (run_commit s) = RErr -> In Fin (fst (run_commit s)) ->
  s_rename_ok s = true /\ (s_chmod_ok s = false \/ s_manifest_ok s = false \/ s_audit_ok s = false).
Proof.
  unfold run_commit, fail_staged, pre.
  destruct (s_rename_ok s), (s_chmod_ok s), (s_manifest_ok s), (s_audit_ok s); simpl;
    intros H1 H2; try discriminate; inl H2; auto.
Qed.

Lemma in_pre_snd l x : snd (pre l x) = snd x.
Proof. reflexivity. Qed.

Theorem failure_leaves_no_final : forall cap s,
  snd (run cap s) = RErr -> In (EWrite LFinal) (fst (run cap s)) ->
  s_rename_ok s = true /\ (s_chmod_ok s = false \/ s_manifest_ok s = false \/ s_audit_ok s = false).
Proof.
  intros cap s. unfold run, run_stage, run_checked, run_gate, run_prov, run_verify, run_extract, run_tail.
  repeat match goal with
         | |- context [if negb ?b then _ else _] => destruct b; cbn [negb]
         | |- context [if ?b then _ else _] => destruct b
         | |- context [match ?v with VSigned => _ | VUnsigned => _ | VReject => _ end] => destruct v
         | |- context [match ?v with XOk _ => _ | XErr _ => _ end] => destruct v
         | |- context [match ?v with Some _ => _ | None => _ end] => destruct v as [[|]|]
         end;
    rewrite ?in_pre_snd; intros R H;
    repeat (apply in_pre in H; destruct H as [H|H]; [inl H|]);
    try (exfalso; exact (fail_no_final H)); try (inl H; fail);
    try (eapply commit_err; eauto; fail).
Qed.

Theorem already_installed_touches_nothing : forall cap s,
  snd (run cap s) = RAlready -> fst (run cap s) = [EFetch FIndex; EWrite LLock].
Proof.
  intros cap s. unfold run.
  destruct (s_resolve s); cbn [negb]; [|discriminate].
  destruct (s_installed s); [reflexivity|].
  unfold run_stage, run_checked, run_gate, run_prov, run_verify, run_extract, run_tail, run_commit, fail_staged.
  repeat match goal with
         | |- context [if negb ?b then _ else _] => destruct b; cbn [negb]
         | |- context [if ?b then _ else _] => destruct b
         | |- context [match ?v with VSigned => _ | VUnsigned => _ | VReject => _ end] => destruct v
         | |- context [match ?v with XOk _ => _ | XErr _ => _ end] => destruct v
         | |- context [match ?v with Some _ => _ | None => _ end] => destruct v as [[|]|]
         end; simpl; discriminate.
Qed.

(* ---- (4) every run of the model satisfies the property monitor ---- *)
Lemma mon_tr_observe s : forall t v b,
  mon_tr s v b t = mon_obs s v (fst (observe b t)) (snd (observe b t)).
Proof.
  induction t as [|e t IH]; intros v b; simpl; [reflexivity|].
  destruct (observe (apply_ev b e) t) as [l bend] eqn:E.
  destruct (visible e) as [o|]; simpl; rewrite IH, E; reflexivity.
Qed.

Ltac mstep :=
  cbn [fst snd pre app mon_tr visible apply_ev is_verify ev_ok negb andb orb
       b_staged b_extract b_cache b_ulog b_final b_manifest b_audit].

Ltac bits :=
  unfold bits_ok;
  cbn [b_staged b_extract b_cache b_ulog b_final b_manifest b_audit negb andb orb].

Section Mon.
  Variable cap : N.
  Variable s : script.

  Section Gated.
    Hypothesis Hg : gates s = true.
    Variable v : bool.
    Hypothesis Hv : s_allow_unsigned s || v = true.

    Lemma bits_ok_gated b :
      negb (b_manifest b) || b_final b = true -> negb (b_audit b) || b_manifest b = true ->
      bits_ok s v b = true.
    Proof.
      intros H1 H2. unfold bits_ok. rewrite Hg, Hv, H1, H2.
      unfold gates in Hg. apply andb_true_iff in Hg. destruct Hg as [Hd _]. rewrite Hd.
      rewrite !orb_true_r. reflexivity.
    Qed.

    Ltac g := rewrite ?orb_false_r; repeat (rewrite bits_ok_gated by reflexivity); cbn [andb].

    Lemma commit_mon st ex ca ul :
      mon_tr s v (mkB st ex ca ul false false false) (fst (run_commit s)) = true.
    Proof.
      unfold run_commit, fail_staged.
      destruct (s_rename_ok s); cbn [negb]; [|mstep; g; reflexivity]. mstep.
      destruct (s_chmod_ok s); cbn [negb]; [|mstep; g; reflexivity]. mstep. g.
      destruct (s_manifest_ok s); cbn [negb]; [|mstep; g; reflexivity]. mstep.
      destruct (s_audit_ok s); cbn [negb]; mstep; g; reflexivity.
    Qed.

    Lemma tail_mon st ex ca ul :
      mon_tr s v (mkB st ex ca ul false false false) (fst (run_tail s)) = true.
    Proof.
      unfold run_tail. mstep. g.
      destruct (s_validate s) as [[|]|]; mstep; g.
      - apply commit_mon.
      - unfold fail_staged. mstep. g. reflexivity.
      - apply commit_mon.
    Qed.

    Lemma extract_mon st ex ca ul :
      mon_tr s v (mkB st ex ca ul false false false) (fst (run_extract cap s)) = true.
    Proof.
      unfold run_extract. mstep.
      destruct (fst (xrun cap (s_archive s))); [apply tail_mon|unfold fail_staged; mstep; g; reflexivity].
    Qed.
  End Gated.

  Hypothesis Hd : s_digest_ok s = true.

  Lemma bits_ok_early v b :
    b_final b = false -> b_extract b = false -> b_manifest b = false -> b_audit b = false ->
    bits_ok s v b = true.
  Proof.
    intros H1 H2 H3 H4. unfold bits_ok. rewrite H1, H2, H3, H4, Hd, orb_true_r. reflexivity.
  Qed.

  Ltac e := rewrite ?orb_false_r, ?orb_true_r; repeat (rewrite bits_ok_early by reflexivity); cbn [andb].

  Lemma verify_mon (Ha : s_allow_unsigned s = false) v st ca ul :
    mon_tr s v (mkB st false ca ul false false false) (fst (run_verify cap s)) = true.
  Proof.
    unfold run_verify. mstep. e.
    destruct (s_verifier s) eqn:V; try (unfold fail_staged; mstep; e; reflexivity).
    apply extract_mon; [|apply orb_true_r].
    unfold gates, gate_ok. rewrite Hd, Ha, V. reflexivity.
  Qed.

  Lemma prov_mon (Ha : s_allow_unsigned s = false) v st ca ul :
    mon_tr s v (mkB st false ca ul false false false) (fst (run_prov cap s)) = true.
  Proof.
    unfold run_prov. destruct (s_has_prov s); [|apply verify_mon; assumption].
    mstep. e.
    destruct (s_prov_ok s); [apply verify_mon; assumption|unfold fail_staged; mstep; e; reflexivity].
  Qed.

  Lemma gate_mon v st ca ul :
    mon_tr s v (mkB st false ca ul false false false) (fst (run_gate cap s)) = true.
  Proof.
    unfold run_gate. destruct (s_allow_unsigned s) eqn:Ha.
    - destruct (decide (s_pol s)) eqn:Dc; cbn [negb]; [|unfold fail_staged; mstep; e; reflexivity].
      destruct (s_ulog_ok s); cbn [negb]; [|unfold fail_staged; mstep; e; reflexivity].
      mstep. apply extract_mon; [|rewrite Ha; reflexivity].
      unfold gates, gate_ok. rewrite Hd, Ha, Dc. reflexivity.
    - destruct (s_has_sig s); [|apply prov_mon; assumption].
      mstep. e.
      destruct (s_sig_ok s); [apply prov_mon; assumption|unfold fail_staged; mstep; e; reflexivity].
  Qed.
End Mon.

Lemma checked_mon cap s v st ul :
  mon_tr s v (mkB st false false ul false false false) (fst (run_checked cap s)) = true.
Proof.
  unfold run_checked. destruct (s_digest_ok s) eqn:Hd; cbn [negb].
  - destruct (s_cache_hit s); [apply gate_mon; assumption|mstep; apply gate_mon; assumption].
  - unfold fail_staged. mstep. bits. reflexivity.
Qed.

Theorem run_satisfies_monitor : forall cap s,
  mon_install s (fst (observe bits0 (fst (run cap s)))) (snd (observe bits0 (fst (run cap s)))) = true.
Proof.
  intros cap s. unfold mon_install. rewrite <- mon_tr_observe.
  unfold run, run_stage, bits0. mstep.
  replace (bits_ok s false _) with true by (symmetry; bits; reflexivity). cbn [andb].
  destruct (s_resolve s); cbn [negb]; [|mstep; bits; reflexivity]. mstep.
  destruct (s_installed s); [mstep; bits; reflexivity|]. mstep.
  destruct (s_cache_hit s).
  - mstep. apply checked_mon.
  - mstep. replace (bits_ok s false _) with true by (symmetry; bits; reflexivity). cbn [andb].
    destruct (s_download_ok s); [|unfold fail_staged; mstep; bits; reflexivity].
    mstep. replace (bits_ok s false _) with true by (symmetry; bits; reflexivity). cbn [andb].
    apply checked_mon.
Qed.

(* ---- (5) the verifier is really asked, in every step of every history ---- *)
Lemma verify_called cap s : In EVerify (fst (run_verify cap s)).
Proof. unfold run_verify. apply in_pre. left. left. reflexivity. Qed.

Lemma prov_final_verify cap s : In Fin (fst (run_prov cap s)) -> In EVerify (fst (run_prov cap s)).
Proof.
  unfold run_prov. destruct (s_has_prov s); [|intros _; apply verify_called].
  intros H. apply in_pre in H. destruct H as [H|H]; [inl H|]. apply in_pre. right.
  destruct (s_prov_ok s); [apply verify_called|exfalso; exact (fail_no_final H)].
Qed.

Lemma gate_final_verify cap s :
  s_allow_unsigned s = false -> In Fin (fst (run_gate cap s)) -> In EVerify (fst (run_gate cap s)).
Proof.
  intros A. unfold run_gate. rewrite A.
  destruct (s_has_sig s); [|apply prov_final_verify].
  intros H. apply in_pre in H. destruct H as [H|H]; [inl H|]. apply in_pre. right.
  destruct (s_sig_ok s); [apply prov_final_verify; exact H|exfalso; exact (fail_no_final H)].
Qed.

Lemma checked_final_verify cap s :
  s_allow_unsigned s = false -> In Fin (fst (run_checked cap s)) -> In EVerify (fst (run_checked cap s)).
Proof.
  intros A. unfold run_checked. destruct (s_digest_ok s); cbn [negb];
    [|intros H; exfalso; exact (fail_no_final H)].
  destruct (s_cache_hit s); [apply gate_final_verify; exact A|].
  intros H. apply in_pre in H. destruct H as [H|H]; [inl H|]. apply in_pre. right.
  apply gate_final_verify; assumption.
Qed.

(* whether or not the bytes came from the cache: without an unsigned-install request the final
   artifact is only written in a run in which the verifier was called *)
Theorem final_implies_verifier_called : forall cap s,
  s_allow_unsigned s = false -> In (EWrite LFinal) (fst (run cap s)) -> In EVerify (fst (run cap s)).
Proof.
  intros cap s A H. unfold run, run_stage in *.
  apply in_pre in H. destruct H as [H|H]; [inl H|]. apply in_pre. right.
  destruct (s_resolve s); cbn [negb] in *; [|inl H].
  apply in_pre in H. destruct H as [H|H]; [inl H|]. apply in_pre. right.
  destruct (s_installed s); [inl H|].
  apply in_pre in H. destruct H as [H|H]; [inl H|]. apply in_pre. right.
  destruct (s_cache_hit s).
  - apply in_pre in H. destruct H as [H|H]; [inl H|]. apply in_pre. right.
    apply checked_final_verify; assumption.
  - apply in_pre in H. destruct H as [H|H]; [inl H|]. apply in_pre. right.
    destruct (s_download_ok s); [|exfalso; exact (fail_no_final H)].
    apply in_pre in H. destruct H as [H|H]; [inl H|]. apply in_pre. right.
    apply checked_final_verify; assumption.
Qed.

(* For every history of installs on one install directory sharing its cache, every step: the
   final artifact is written in that step only if the digest matched and the gate of THAT step
   passed - the verifier configured for that step was called in that step and accepted, or an
   unsigned install was requested and allowed.  A cache hit never stands in for the gate. *)
Theorem history_only_after_gates : forall cap ss c,
  Forall (fun so =>
            In (EWrite LFinal) (fst (snd so)) ->
            s_digest_ok (fst so) = true /\ gate_ok (fst so) = true
            /\ (s_allow_unsigned (fst so) = true \/ In EVerify (fst (snd so))))
         (hist_run cap c ss).
Proof.
  intros cap ss. induction ss as [|s r IH]; intros c; cbn [hist_run]; constructor; [|apply IH].
  cbn [fst snd]. intros H. destruct (install_only_after_gates cap _ H) as [D G].
  split; [exact D|]. split; [exact G|].
  destruct (s_allow_unsigned (with_cache s c)) eqn:A; [left; reflexivity|right].
  apply final_implies_verifier_called; assumption.
Qed.
