(* C19 - replacing a file through a temporary file and rename.

   Modelled code: pkg/foundation/atomicfile/atomicfile.go WriteFile (used by
   registry.SaveManifest and index.SaveState):
       tmp := os.CreateTemp(dir(path), ".atomicfile-*.tmp"); defer os.Remove(tmp)
       tmp.Write(content); tmp.Sync(); tmp.Close(); os.Chmod(tmp, perm); os.Rename(tmp, path)

   A tiny file system: what is visible at [path] and what the temporary file of the same
   directory holds.  The process can be killed between any two operations and in the middle of
   one; what a kill in the middle of rename(2) can leave behind is not defined here but taken
   as a parameter [rename_mid] with the assumption [rename_atomic] (the kernel's promise). *)
From Coq Require Export List Bool Arith Lia.
Export ListNotations.

Section AtomicFile.
  Variable byte : Type.
  Definition content := list byte.

  Record afs := mkA { at_path : option content; tmp : option content }.

  Inductive aop :=
  | ACreateTmp            (* open(O_CREAT|O_EXCL) of a fresh name in the directory of path *)
  | AWrite (c : content)  (* one write(2) that completes: c is appended *)
  | AFsync | AClose | AChmod
  | ARename               (* rename(tmp, path) *)
  | ARemoveTmp            (* the deferred os.Remove(tmp): a no-op after a successful rename *)
  | ATruncOpen            (* NOT used by WriteFile: open(path, O_TRUNC), the write-in-place variant *)
  | AWriteInPlace (c : content).

  Definition app_opt (o : option content) (c : content) : option content :=
    match o with Some x => Some (x ++ c) | None => None end.

  Definition astep (f : afs) (op : aop) : afs :=
    match op with
    | ACreateTmp => mkA (at_path f) (Some [])
    | AWrite c => mkA (at_path f) (app_opt (tmp f) c)
    | AFsync | AClose | AChmod => f
    | ARename => match tmp f with Some c => mkA (Some c) None | None => f end
    | ARemoveTmp => mkA (at_path f) None
    | ATruncOpen => mkA (Some []) (tmp f)
    | AWriteInPlace c => mkA (app_opt (at_path f) c) (tmp f)
    end.

  (* what rename(2) may show at path if the process dies inside it: old visible content,
     content of the temporary file, what is visible *)
  Variable rename_mid : option content -> content -> option content -> Prop.

  (* states a kill in the middle of [op] can leave *)
  Definition during (op : aop) (f x : afs) : Prop :=
    match op with
    | AWrite c => exists k, x = mkA (at_path f) (app_opt (tmp f) (firstn k c))     (* a short write *)
    | AWriteInPlace c => exists k, x = mkA (app_opt (at_path f) (firstn k c)) (tmp f)
    | ARename => match tmp f with
                 | Some c => exists v, rename_mid (at_path f) c v /\
                                       (x = mkA v (Some c) \/ x = mkA v None)
                 | None => x = f
                 end
    | _ => x = f \/ x = astep f op
    end.

  (* every state the file system can be in when the process running [prog] is killed *)
  Fixpoint crashes (prog : list aop) (f : afs) (x : afs) : Prop :=
    match prog with
    | [] => x = f
    | op :: r => x = f \/ during op f x \/ crashes r (astep f op) x
    end.

  (* WriteFile, with the content handed to the kernel in any number of pieces *)
  Definition write_file (chunks : list content) : list aop :=
    [ACreateTmp] ++ map AWrite chunks ++ [AFsync; AClose; AChmod; ARename; ARemoveTmp].

  (* the write-in-place variant (os.WriteFile): truncate, then write *)
  Definition write_in_place (chunks : list content) : list aop :=
    [ATruncOpen] ++ map AWriteInPlace chunks ++ [AClose].

  (* ---- proofs ---- *)
  Hypothesis rename_atomic : forall old c v, rename_mid old c v -> v = old \/ v = Some c.

  Definition old_or_new (old : option content) (new : content) (x : afs) : Prop :=
    at_path x = old \/ at_path x = Some new.

  Lemma tail_old_or_new old new x :
    crashes [AFsync; AClose; AChmod; ARename; ARemoveTmp] (mkA old (Some new)) x ->
    old_or_new old new x.
  Proof.
    unfold old_or_new. simpl.
    intros [->|[[->| ->]|[->|[[->| ->]|[->|[[->| ->]|[->|[H|[->|[[->| ->]| ->]]]]]]]]]]; simpl; auto.
    destruct H as (v & Hm & [->| ->]); simpl; apply rename_atomic in Hm; destruct Hm; auto.
  Qed.

  Lemma writes_old_or_new old new chunks : forall acc x,
    acc ++ concat chunks = new ->
    crashes (map AWrite chunks ++ [AFsync; AClose; AChmod; ARename; ARemoveTmp]) (mkA old (Some acc)) x ->
    old_or_new old new x.
  Proof.
    induction chunks as [|c chunks IH]; intros acc x E H.
    - simpl in E. rewrite app_nil_r in E. subst acc. apply tail_old_or_new. exact H.
    - simpl map in H. simpl app in H. simpl crashes in H. destruct H as [->|[[k ->]|H]].
      + left. reflexivity.
      + left. reflexivity.
      + eapply IH; [|exact H]. simpl in E. rewrite <- app_assoc. exact E.
  Qed.

  (* Whatever is visible at path when the process is killed - between any two operations or
     inside one, with the content written in any number of pieces - is the complete old file
     (or still nothing) or the complete new content. *)
  Theorem atomic_write_old_or_new : forall old new chunks x,
    concat chunks = new ->
    crashes (write_file chunks) (mkA old None) x -> old_or_new old new x.
  Proof.
    intros old new chunks x E H. unfold write_file in H. simpl app in H. simpl crashes in H.
    destruct H as [->|[[->| ->]|H]]; try (left; reflexivity).
    eapply writes_old_or_new; [|exact H]. exact E.
  Qed.
End AtomicFile.

(* the write-in-place variant is NOT atomic: killed after the truncation, path shows an empty
   file that is neither the old nor the new content *)
Example write_in_place_refuted :
  exists x, crashes nat (fun _ _ _ => False) (write_in_place nat [[1; 2; 3]]) (mkA nat (Some [7; 7]) None) x
            /\ ~ old_or_new nat (Some [7; 7]) [1; 2; 3] x.
Proof.
  exists (mkA nat (Some []) None). split.
  - simpl. right. left. right. reflexivity.
  - unfold old_or_new. simpl. intros [H|H]; discriminate.
Qed.

(* ---------- what is checked on observed runs ---------- *)
(* the system calls the traced process made on the directory, in order *)
Inductive sysop := SCreateTmp | SWrite | SFsync | SClose | SChmod | SRename | SRemoveTmp
                 | STruncOpen | SWriteInPlace | SOther.

Definition sysop_eqb (a b : sysop) : bool :=
  match a, b with
  | SCreateTmp, SCreateTmp | SWrite, SWrite | SFsync, SFsync | SClose, SClose | SChmod, SChmod
  | SRename, SRename | SRemoveTmp, SRemoveTmp | STruncOpen, STruncOpen
  | SWriteInPlace, SWriteInPlace | SOther, SOther => true
  | _, _ => false
  end.

Definition shape {byte} (op : aop byte) : sysop :=
  match op with
  | ACreateTmp _ => SCreateTmp | AWrite _ _ => SWrite | AFsync _ => SFsync | AClose _ => SClose
  | AChmod _ => SChmod | ARename _ => SRename | ARemoveTmp _ => SRemoveTmp
  | ATruncOpen _ => STruncOpen | AWriteInPlace _ _ => SWriteInPlace
  end.

(* what was found at path after a kill *)
Inductive seen := SeenOld | SeenNew | SeenOther.
Definition seen_ok (s : seen) : bool := match s with SeenOther => false | _ => true end.
