(* C19 - the install steps as DATA: an interpreter for an arbitrary ordered list of steps, and
   the condition on such a list under which the final artifact is only written behind both
   gates.  The list the source really has is regenerated from install.go on every run
   (out/C19/gen/GenC19.v) and the condition is re-checked on it (GenObligations.v), so that a
   re-ordered or no-longer-checked step breaks a named obligation.

   Likewise for the shape of ExtractBinary's name guard and of its switch over entry types. *)
From Verif Require Import Reg.Path Reg.PathProofs Reg.Extract Reg.Gate.

Inductive step :=
| SStage | SCorruption | SCachePopulate | SGate | SExtract | SValidate
| SRename | SChmod | SManifest | SAudit.

Definition step_eqb (a b : step) : bool :=
  match a, b with
  | SStage, SStage | SCorruption, SCorruption | SCachePopulate, SCachePopulate | SGate, SGate
  | SExtract, SExtract | SValidate, SValidate | SRename, SRename | SChmod, SChmod
  | SManifest, SManifest | SAudit, SAudit => true
  | _, _ => false
  end.

(* does the step succeed under the script / what does it write *)
Definition step_ok (cap : N) (s : script) (st : step) : bool :=
  match st with
  | SStage => s_cache_hit s || s_download_ok s
  | SCorruption => s_digest_ok s
  | SCachePopulate => true
  | SGate => gate_ok s && (negb (s_allow_unsigned s) || s_ulog_ok s)
  | SExtract => match fst (xrun cap (s_archive s)) with XOk _ => true | XErr _ => false end
  | SValidate => match s_validate s with Some false => false | _ => true end
  | SRename => s_rename_ok s
  | SChmod => s_chmod_ok s
  | SManifest => s_manifest_ok s
  | SAudit => s_audit_ok s
  end.

Definition step_writes (cap : N) (s : script) (st : step) : list ev :=
  match st with
  | SStage => [EWrite LStaging]
  | SCorruption => []
  | SCachePopulate => [EWrite LCache]
  | SGate => if s_allow_unsigned s then (if decide (s_pol s) && s_ulog_ok s then [EWrite LUnsignedLog] else [])
             else [EVerify]
  | SExtract => [EWrite LExtract]
  | SValidate => [EValidate]
  | SRename => if s_rename_ok s then [EWrite LFinal] else []
  | SChmod => []
  | SManifest => if s_manifest_ok s then [EWrite LManifest] else []
  | SAudit => if s_audit_ok s then [EWrite LAudit] else []
  end.

(* a step whose error is checked stops the program when it fails; an unchecked one does not *)
Fixpoint run_steps (cap : N) (s : script) (l : list (step * bool)) : list ev :=
  match l with
  | [] => []
  | (st, checked) :: r =>
      step_writes cap s st ++
      (if checked && negb (step_ok cap s st) then [] else run_steps cap s r)
  end.

(* the condition: scanning the list, a rename is only met after a checked corruption step and a
   checked gate step *)
Fixpoint gates_guard_from (seen_c seen_g : bool) (l : list (step * bool)) : bool :=
  match l with
  | [] => true
  | (SRename, _) :: r => seen_c && seen_g && gates_guard_from seen_c seen_g r
  | (SCorruption, c) :: r => gates_guard_from (seen_c || c) seen_g r
  | (SGate, c) :: r => gates_guard_from seen_c (seen_g || c) r
  | _ :: r => gates_guard_from seen_c seen_g r
  end.
Definition gates_guard (l : list (step * bool)) : bool := gates_guard_from false false l.

Lemma writes_final cap s st : In (EWrite LFinal) (step_writes cap s st) -> st = SRename.
Proof.
  destruct st; simpl; try (intros []; try discriminate; contradiction); try contradiction; auto.
  - destruct (s_allow_unsigned s); [destruct (decide (s_pol s) && s_ulog_ok s)|]; simpl;
      intros H; repeat (destruct H as [H|H]; try discriminate); contradiction.
  - destruct (s_manifest_ok s); simpl; intros H; repeat (destruct H as [H|H]; try discriminate); contradiction.
  - destruct (s_audit_ok s); simpl; intros H; repeat (destruct H as [H|H]; try discriminate); contradiction.
Qed.

Lemma gate_step_ok cap s : step_ok cap s SGate = true -> gate_ok s = true.
Proof. simpl. intros H. apply andb_true_iff in H. tauto. Qed.

Lemma run_steps_final cap s l : forall sc sg,
  (sc = true -> s_digest_ok s = true) -> (sg = true -> gate_ok s = true) ->
  gates_guard_from sc sg l = true ->
  In (EWrite LFinal) (run_steps cap s l) -> s_digest_ok s = true /\ gate_ok s = true.
Proof.
  induction l as [|[st c] r IH]; intros sc sg Hc Hg G H; simpl in H; [contradiction|].
  apply in_app_iff in H. destruct H as [H|H].
  - apply writes_final in H. subst st. simpl in G.
    apply andb_true_iff in G as [G _]. apply andb_true_iff in G as [G1 G2]. auto.
  - destruct (c && negb (step_ok cap s st)) eqn:E; [contradiction|].
    assert (K : c = true -> step_ok cap s st = true).
    { intros ->. simpl in E. apply negb_false_iff in E. exact E. }
    destruct st; simpl in G;
      try (eapply IH; [exact Hc|exact Hg|exact G|exact H]).
    + (* corruption *)
      eapply IH; [|exact Hg|exact G|exact H].
      intros Q. apply orb_true_iff in Q as [Q|Q]; [auto|]. exact (K Q).
    + (* gate *)
      eapply IH; [exact Hc| |exact G|exact H].
      intros Q. apply orb_true_iff in Q as [Q|Q]; [auto|]. apply (gate_step_ok cap). exact (K Q).
    + (* rename *)
      apply andb_true_iff in G as [_ G]. eapply IH; [exact Hc|exact Hg|exact G|exact H].
Qed.

(* For EVERY ordered list of steps with checked/unchecked errors that satisfies [gates_guard],
   every script: the final artifact is written only if the digest matched and the gate passed. *)
Theorem steps_only_after_gates : forall cap s l,
  gates_guard l = true ->
  In (EWrite LFinal) (run_steps cap s l) -> s_digest_ok s = true /\ gate_ok s = true.
Proof.
  intros cap s l G H. eapply run_steps_final; [| |exact G|exact H]; discriminate.
Qed.

(* the remaining order facts the model relies on, as a decidable condition on the list:
   a occurs, and every b occurs after the first a *)
Fixpoint index_of (x : step) (l : list (step * bool)) : option nat :=
  match l with
  | [] => None
  | (y, _) :: r => if step_eqb x y then Some 0 else option_map S (index_of x r)
  end.
Definition before (a b : step) (l : list (step * bool)) : bool :=
  match index_of a l, index_of b l with
  | Some i, Some j => Nat.ltb i j
  | _, _ => false
  end.
Definition checked_step (a : step) (l : list (step * bool)) : bool :=
  existsb (fun p => step_eqb (fst p) a && snd p) l.

Definition order_ok (l : list (step * bool)) : bool :=
  before SStage SCorruption l && before SCorruption SCachePopulate l && before SCorruption SGate l
  && before SGate SExtract l && before SExtract SRename l && before SRename SManifest l
  && before SManifest SAudit l
  && (match index_of SValidate l with Some _ => before SExtract SValidate l && before SValidate SRename l | None => true end)
  && checked_step SStage l && checked_step SCorruption l && checked_step SGate l && checked_step SExtract l
  && checked_step SRename l && checked_step SManifest l.

(* the order the model [Gate.run] implements *)
Definition model_steps : list (step * bool) :=
  [(SStage, true); (SCorruption, true); (SCachePopulate, false); (SGate, true); (SExtract, true);
   (SValidate, true); (SRename, true); (SChmod, true); (SManifest, true); (SAudit, true)].

Example model_steps_ok : gates_guard model_steps = true /\ order_ok model_steps = true.
Proof. vm_compute. split; reflexivity. Qed.

(* ---------- the shape of ExtractBinary's guard ---------- *)
Inductive gsubject := GRaw | GCleaned.     (* which string the test looks at *)
Inductive gatom :=
| GIsAbs (x : gsubject)
| GEqDotDot (x : gsubject)
| GPrefixDotDotSep (x : gsubject)          (* strings.HasPrefix(x, ".."+"/") *)
| GPrefixDotDot (x : gsubject)             (* strings.HasPrefix(x, "..")  - too wide AND not the same *)
| GUnknown.

Definition subj (x : gsubject) (nm : name) : name := match x with GRaw => nm | GCleaned => clean nm end.

Definition atom_eval (a : gatom) (nm : name) : bool :=
  match a with
  | GIsAbs x => is_abs (subj x nm)
  | GEqDotDot x => name_eqb (subj x nm) dotdot
  | GPrefixDotDotSep x => match subj x nm with Dt :: Dt :: Sl :: _ => true | _ => false end
  | GPrefixDotDot x => match subj x nm with Dt :: Dt :: _ => true | _ => false end
  | GUnknown => false
  end.

(* the refusal condition is the disjunction of the atoms *)
Definition atoms_refuse (l : list gatom) (nm : name) : bool := existsb (fun a => atom_eval a nm) l.

Definition is_atom (a b : gatom) : bool :=
  match a, b with
  | GIsAbs GCleaned, GIsAbs GCleaned | GEqDotDot GCleaned, GEqDotDot GCleaned
  | GPrefixDotDotSep GCleaned, GPrefixDotDotSep GCleaned => true
  | _, _ => false
  end.

(* exactly the three tests of the model, on the cleaned name, in any order, nothing else *)
Definition atoms_cover (l : list gatom) : bool :=
  existsb (is_atom (GIsAbs GCleaned)) l && existsb (is_atom (GEqDotDot GCleaned)) l
  && existsb (is_atom (GPrefixDotDotSep GCleaned)) l
  && forallb (fun a => is_atom (GIsAbs GCleaned) a || is_atom (GEqDotDot GCleaned) a
                       || is_atom (GPrefixDotDotSep GCleaned) a) l.

Lemma is_atom_eq a b : is_atom a b = true -> a = b.
Proof. destruct a as [[]|[]|[]|[]|], b as [[]|[]|[]|[]|]; simpl; congruence. Qed.

Theorem atoms_cover_sound : forall l, atoms_cover l = true ->
  forall nm, atoms_refuse l nm = escapes (clean nm).
Proof.
  intros l H nm. unfold atoms_cover in H.
  apply andb_true_iff in H as [H Hall]. apply andb_true_iff in H as [H H3]. apply andb_true_iff in H as [H1 H2].
  apply existsb_exists in H1 as (a1 & I1 & E1). apply is_atom_eq in E1. subst a1.
  apply existsb_exists in H2 as (a2 & I2 & E2). apply is_atom_eq in E2. subst a2.
  apply existsb_exists in H3 as (a3 & I3 & E3). apply is_atom_eq in E3. subst a3.
  rewrite forallb_forall in Hall.
  unfold atoms_refuse, escapes.
  destruct (is_abs (clean nm)) eqn:A.
  { simpl. apply existsb_exists. exists (GIsAbs GCleaned). split; [exact I1|exact A]. }
  destruct (name_eqb (clean nm) dotdot) eqn:B.
  { simpl. apply existsb_exists. exists (GEqDotDot GCleaned). split; [exact I2|exact B]. }
  destruct (match clean nm with Dt :: Dt :: Sl :: _ => true | _ => false end) eqn:C.
  { simpl. apply existsb_exists. exists (GPrefixDotDotSep GCleaned). split; [exact I3|exact C]. }
  simpl. destruct (existsb (fun a => atom_eval a nm) l) eqn:X; [|reflexivity]. exfalso.
  apply existsb_exists in X as (a & Ia & Ea). specialize (Hall a Ia).
  apply orb_true_iff in Hall as [Hall|Hall]; [apply orb_true_iff in Hall as [Hall|Hall]|];
    apply is_atom_eq in Hall; subst a; simpl in Ea; congruence.
Qed.

(* ... so a guard with that shape accepts exactly the names that never leave the directory *)
Corollary atoms_cover_confines : forall l, atoms_cover l = true ->
  forall nm, negb (atoms_refuse l nm) = lexically_inside nm.
Proof.
  intros l H nm. rewrite (atoms_cover_sound l H). rewrite <- guard_iff_never_leaves. reflexivity.
Qed.

(* the switch over the entry type *)
Inductive arm_action := AExtract | ASkip | ARefuse | AOtherAction.
Inductive tflag := FReg | FDir | FSymlink | FLink | FDefault | FOtherFlag.

Definition tflag_eqb (a b : tflag) : bool :=
  match a, b with
  | FReg, FReg | FDir, FDir | FSymlink, FSymlink | FLink, FLink | FDefault, FDefault | FOtherFlag, FOtherFlag => true
  | _, _ => false
  end.
Definition action_eqb (a b : arm_action) : bool :=
  match a, b with
  | AExtract, AExtract | ASkip, ASkip | ARefuse, ARefuse | AOtherAction, AOtherAction => true
  | _, _ => false
  end.

Fixpoint arm_of (f : tflag) (arms : list (tflag * arm_action)) : option arm_action :=
  match arms with
  | [] => None
  | (g, a) :: r => if tflag_eqb f g then Some a else arm_of f r
  end.

(* links refused, directories and unknown types skipped, only regular files extracted *)
Definition arms_ok (arms : list (tflag * arm_action)) : bool :=
  match arm_of FSymlink arms, arm_of FLink arms, arm_of FReg arms with
  | Some ARefuse, Some ARefuse, Some AExtract =>
      forallb (fun p => match snd p with
                        | AExtract => tflag_eqb (fst p) FReg
                        | AOtherAction => false
                        | _ => true
                        end) arms
  | _, _, _ => false
  end.
