(* C13, service side: the running flag is set exactly while a live node holds the instance, for
   every operation history; every behaviour of the model is accepted by the monitor. *)
From Coq Require Import List Bool Arith Lia.
Import ListNotations.
From Verif Require Import Swap.Flag.

Definition FInv (s : fstate) : Prop :=
  flag s = negb (fnone (node s)) /\
  (there s = false -> node s = None) /\
  (forall g, node s = Some g -> g < nbuilt s).

Definition fabs (s : fstate) : mstate := (node s, negb (there s)).

Lemma finit_inv : FInv finit.
Proof. unfold FInv, finit; cbn. repeat split; intros; discriminate. Qed.

Ltac fcrush :=
  repeat match goal with
  | |- _ /\ _ => split
  | |- forall _, _ => intro
  | H : Some _ = Some _ |- _ => inversion H; subst; clear H
  | H : _ /\ _ |- _ => destruct H
  end; cbn in *; try reflexivity; try congruence; try discriminate; try lia.

Lemma fstep_ok s op : FInv s ->
  FInv (fst (fstep s op)) /\ fmstep (fabs s) op (snd (fstep s op)) = Some (fabs (fst (fstep s op))).
Proof.
  destruct s as [f n b t]. unfold FInv, fabs. cbn [flag node nbuilt there].
  intros (Hf & Ht & Hg).
  destruct n as [g0|]; cbn [fnone negb] in Hf; subst f.
  - (* a run is live *)
    assert (Hlt : g0 < b) by (apply Hg; reflexivity).
    assert (Hne : Nat.eqb b g0 = false) by (apply Nat.eqb_neq; lia).
    destruct t; [|specialize (Ht eq_refl); discriminate].
    destruct op as [[k|]| |[| |k]| | | | |]; try destruct k; cbn; rewrite ?Hne, ?Nat.eqb_refl; cbn; fcrush.
  - (* no live run *)
    destruct t; destruct op as [[k|]| |[| |k]| | | | |]; try destruct k; cbn;
      rewrite ?Nat.eqb_refl; fcrush.
Qed.

Lemma frun_from_inv : forall ops s, FInv s -> FInv (fst (frun_from s ops)).
Proof.
  induction ops as [|op r IH]; intros s Hs; cbn [frun_from]; [exact Hs|].
  destruct (fstep s op) as [s1 o] eqn:E1. destruct (frun_from s1 r) as [s2 os] eqn:E2. cbn [fst].
  pose proof (fstep_ok s op Hs) as [H1 _]. rewrite E1 in H1. cbn [fst] in H1.
  specialize (IH s1 H1). rewrite E2 in IH. exact IH.
Qed.

Lemma fmon_from_model : forall ops s, FInv s -> fmon_from (fabs s) ops (snd (frun_from s ops)) = true.
Proof.
  induction ops as [|op r IH]; intros s Hs; cbn [frun_from]; [reflexivity|].
  destruct (fstep s op) as [s1 o] eqn:E1. destruct (frun_from s1 r) as [s2 os] eqn:E2. cbn [snd fmon_from].
  pose proof (fstep_ok s op Hs) as [H1 H2]. rewrite E1 in H1, H2. cbn [fst snd] in H1, H2.
  rewrite H2. specialize (IH s1 H1). rewrite E2 in IH. exact IH.
Qed.

(* the invariant, for every history *)
Theorem flag_iff_live_node : forall ops,
  flag (fend ops) = negb (fnone (node (fend ops))) /\
  (there (fend ops) = false -> node (fend ops) = None) /\
  (forall g, node (fend ops) = Some g -> g < nbuilt (fend ops)).
Proof. intro ops. exact (frun_from_inv ops finit finit_inv). Qed.

Theorem service_model_satisfies_monitor : forall ops, fmon ops (frun ops) = true.
Proof. intro ops. exact (fmon_from_model ops finit finit_inv). Qed.

(* a FAILED live reconfiguration (the new runnable cannot be built, or refuses to open) after any
   history: the caller gets an error, the same runnable stays in the node, the flag stays set, and
   the guards still hold: Update, Delete and MakeRunnableProcessor are refused *)
Theorem failed_reconfigure_keeps_node_and_guards : forall ops o g0,
  node (fend ops) = Some g0 -> o <> OOk ->
  let s' := fst (fstep (fend ops) (FReconf o)) in
  snd (fstep (fend ops) (FReconf o)) = RErr /\
  node s' = Some g0 /\ flag s' = true /\ there s' = true /\
  snd (fstep s' FUpdate) = RRunning /\ snd (fstep s' FDelete) = RRunning /\ snd (fstep s' FMake) = RRunning /\
  snd (fstep s' FEmit) = RStamp (Some g0).
Proof.
  intros ops o g0 Hn Ho. destruct (flag_iff_live_node ops) as (Hf & Ht & _).
  destruct (fend ops) as [f n b t]. cbn [flag node there] in *. subst n. cbn in Hf. subst f.
  destruct t; [|specialize (Ht eq_refl); discriminate].
  destruct o as [| |k]; [congruence| |]; cbn; repeat split; reflexivity.
Qed.

(* a successful one: a NEW runnable is in the node, the flag is still set (held once: the next
   fresh-start reservation is refused) *)
Theorem successful_reconfigure_keeps_flag : forall ops g0,
  node (fend ops) = Some g0 ->
  let s' := fst (fstep (fend ops) (FReconf OOk)) in
  exists g, snd (fstep (fend ops) (FReconf OOk)) = RGen g /\ g <> g0 /\
  node s' = Some g /\ flag s' = true /\
  snd (fstep s' FUpdate) = RRunning /\ snd (fstep s' FDelete) = RRunning /\ snd (fstep s' FMake) = RRunning.
Proof.
  intros ops g0 Hn. destruct (flag_iff_live_node ops) as (Hf & Ht & Hg).
  destruct (fend ops) as [f n b t]. cbn [flag node there nbuilt] in *. subst n. cbn in Hf. subst f.
  destruct t; [|specialize (Ht eq_refl); discriminate].
  specialize (Hg g0 eq_refl). exists b. cbn. repeat split; try reflexivity. lia.
Qed.

(* the stop releases the flag: the guards open again, and a fresh start can reserve the instance *)
Theorem stop_releases_flag : forall ops g0,
  node (fend ops) = Some g0 ->
  let s' := fst (fstep (fend ops) FStop) in
  snd (fstep (fend ops) FStop) = RNil /\ node s' = None /\ flag s' = false /\
  snd (fstep s' FUpdate) = RNil /\
  exists g, snd (fstep s' (FStart None)) = RGen g /\ g <> g0.
Proof.
  intros ops g0 Hn. destruct (flag_iff_live_node ops) as (Hf & Ht & Hg).
  destruct (fend ops) as [f n b t]. cbn [flag node there nbuilt] in *. subst n. cbn in Hf. subst f.
  destruct t; [|specialize (Ht eq_refl); discriminate].
  specialize (Hg g0 eq_refl). cbn. repeat split; try reflexivity. exists b. split; [reflexivity|lia].
Qed.

(* a start whose runnable cannot be built releases the reservation it took *)
Theorem failed_start_releases_flag : forall ops k,
  node (fend ops) = None -> there (fend ops) = true ->
  let s' := fst (fstep (fend ops) (FStart (Some k))) in
  snd (fstep (fend ops) (FStart (Some k))) = RErr /\ flag s' = false /\ node s' = None /\
  snd (fstep s' FUpdate) = RNil.
Proof.
  intros ops k Hn Ht. destruct (flag_iff_live_node ops) as (Hf & _ & _).
  destruct (fend ops) as [f n b t]. cbn [flag node there nbuilt] in *. subst n t. cbn in Hf. subst f.
  cbn. repeat split; reflexivity.
Qed.
