(* C13: the model satisfies the property monitor, the named theorems, and the lock-step
   schedule of the correspondence is one of the schedules the theorems quantify over. *)
From Verif Require Import Swap.Swap Swap.SwapProofs.

(* ---------- G5: the monitor automaton simulates the run loop ---------- *)
Definition abs (s : st) : mst :=
  mkm (match ph s with POpening q => if okflag s q then S q else cur s | _ => cur s end)
      (length (out s) + length (nack s) + length (flight (ph s)))
      (match ph s with PProc r g | PFwd r g => Some (r, g) | _ => None end)
      (match ph s with POpening q => Some (if okflag s q then cur s else S q, true) | _ => None end)
      (opens s)
      (match ph s with PInit => false | _ => true end)
      (match ph s with PEnd => true | _ => false end).

Definition G5 (s : st) : Prop := mrun (evs s) = Some (abs s).

Lemma G5_init : G5 init.
Proof. reflexivity. Qed.

Lemma abs_ext s s' :
  ph s' = ph s -> cur s' = cur s -> out s' = out s -> nack s' = nack s -> opens s' = opens s ->
  (forall q, ph s = POpening q -> okflag s' q = okflag s q) -> abs s' = abs s.
Proof.
  intros Hp Hc Ho Hn Hop Hok. unfold abs. rewrite Hp, Hc, Ho, Hn, Hop.
  destruct (ph s) eqn:E; try reflexivity. rewrite (Hok _ eq_refl). reflexivity.
Qed.

Lemma okflag_api s pend' wake' reqs' q : okflag (w_api s pend' wake' reqs') q = okl reqs' q.
Proof. reflexivity. Qed.

Lemma mid_len (l1 l2 : list nat) r t n : l1 ++ l2 ++ r :: t = seq 0 n -> r = length l1 + length l2.
Proof. intros H. rewrite app_assoc in H. apply mid_seq in H. rewrite app_length in H. exact H. Qed.

Lemma G5_step s a s' : G1 s -> G2 s -> G3 s -> G5 s -> step s a = Some s' -> G5 s'.
Proof.
  intros [HG1 HG1n] HG2 HG3 H5 Hs. unfold G5 in *.
  pose proof (fun q => pend_staged s q HG2 HG3) as Hps.
  pose proof (g3_fate _ HG3) as Hfate.
  destruct HG2 as (_ & _ & _ & Hcl & Hpl & Hol & Hinit).
  assert (Hopen_lt : forall q, ph s = POpening q -> q < length (reqs s))
    by (intros q Hq; destruct (Hol _ Hq) as (_ & ? & _); assumption).
  assert (Hkeep : forall l, (forall q, q < length (reqs s) -> okl l q = okl (reqs s) q) ->
                  forall q, ph s = POpening q -> okl l q = okflag s q)
    by (intros l Hl q Hq; rewrite okflag_okl; apply Hl; apply Hopen_lt; exact Hq).
  destruct a; unfold step in Hs.
  - (* AArrive *) destruct (closed s); [discriminate|]. inversion Hs; subst; clear Hs. cbn [evs w_env].
    rewrite H5. apply f_equal. symmetry. apply abs_ext; reflexivity.
  - (* AClose *) inversion Hs; subst; clear Hs. cbn [evs w_env]. rewrite H5. apply f_equal. symmetry. apply abs_ext; reflexivity.
  - (* AKill *) inversion Hs; subst; clear Hs. cbn [evs w_env]. rewrite H5. apply f_equal. symmetry. apply abs_ext; reflexivity.
  - (* AReq *) destruct (pend s); inversion Hs; subst; clear Hs; cbn [evs w_api]; rewrite H5; apply f_equal; symmetry;
      (apply abs_ext; try reflexivity; intros q Hq; rewrite okflag_api; apply Hkeep; [|exact Hq];
       intros q0 Hq0; rewrite okl_app; destruct (Nat.ltb_spec q0 (length (reqs s))); [reflexivity|lia]).
  - (* ACancel *)
    destruct (call_of s q) as [[|]|]; try discriminate.
    destruct (fate_of s q) as [[]|]; try discriminate; inversion Hs; subst; clear Hs; cbn [evs w_api];
      rewrite H5; apply f_equal; symmetry;
      (apply abs_ext; try reflexivity; intros q1 Hq1; rewrite okflag_api; apply Hkeep; [|exact Hq1];
       intros q0 Hq0; rewrite ?okl_set_call, ?okl_set_fate; reflexivity).
  - (* AReturn *)
    destruct (call_of s q) as [[|]|]; try discriminate.
    destruct (fate_of s q) as [[]|]; try discriminate; inversion Hs; subst; clear Hs; cbn [evs w_api];
      rewrite H5; apply f_equal; symmetry;
      (apply abs_ext; try reflexivity; intros q1 Hq1; rewrite okflag_api; apply Hkeep; [|exact Hq1];
       intros q0 Hq0; rewrite ?okl_set_call, ?okl_set_fate; reflexivity).
  - (* LStart *)
    destruct (ph s) eqn:Hph; try discriminate. destruct ok; inversion Hs; subst; clear Hs; cbn [evs mrun];
      rewrite H5; unfold abs; rewrite Hph; cbn [mstep mended mstarted negb Nat.eqb]; fsimpl; cbn [flight length];
      [reflexivity|]. cbn [mstep mended mdue Nat.eqb Bool.eqb andb negb mcur mnext mfl mopens]. reflexivity.
  - (* LApply *)
    destruct (ph s) eqn:Hph; try discriminate. destruct (pend s) as [q|] eqn:Hpe; inversion Hs; subst; clear Hs.
    + cbn [evs mrun]. rewrite H5. unfold abs. rewrite Hph. fsimpl. cbn [mstep mended mstarted negb mfl mdue isnone andb mcur mopens mnext].
      destruct (Hpl _ eq_refl) as [Hle Hlt]. pose proof (Hfate _ _ (Hps _ eq_refl)) as Hok. cbn [fate_ok] in Hok.
      destruct Hok as (_ & Hnin & _). apply memb_nIn in Hnin. rewrite Hnin. cbn [negb andb].
      assert (Hltb : Nat.ltb (cur s) (S q) = true) by (apply Nat.ltb_lt; lia). rewrite Hltb.
      unfold okflag at 2 3 4. fsimpl. fold (okl (set_fate q FClaimed (reqs s)) q). rewrite okl_set_fate.
      rewrite <- okflag_okl. cbn [flight length]. destruct (okflag s q); reflexivity.
    + cbn [evs]. rewrite H5. apply f_equal. unfold abs. rewrite Hph. fsimpl. reflexivity.
  - (* LOpened *)
    destruct (ph s) eqn:Hph; try discriminate. destruct (okflag s q) eqn:Hok; inversion Hs; subst; clear Hs;
      cbn [evs mrun]; rewrite H5; unfold abs; rewrite Hph, Hok; fsimpl;
      cbn [mstep mended mdue mcur mnext mfl mopens]; rewrite Nat.eqb_refl; cbn [Bool.eqb andb negb flight length]; reflexivity.
  - (* LWake *)
    destruct (ph s) eqn:Hph; try discriminate. destruct (wake s); inversion Hs; subst; clear Hs.
    cbn [evs]. rewrite H5. apply f_equal. unfold abs. rewrite Hph. fsimpl. reflexivity.
  - (* LRecv *)
    destruct (ph s) eqn:Hph; try discriminate. destruct (inq s) as [|r rest] eqn:Hin; inversion Hs; subst; clear Hs.
    cbn [evs mrun]. rewrite H5. unfold abs. rewrite Hph. fsimpl. cbn [flight length].
    cbn [mstep mended mstarted mfl mdue isnone andb mnext mcur mopens].
    cbn [flight app] in HG1. apply mid_len in HG1. rewrite rev_length, map_length in HG1.
    replace (length (out s) + length (nack s) + 0) with r by lia. rewrite !Nat.eqb_refl. cbn [andb].
    f_equal. f_equal. lia.
  - (* LProcDone *)
    destruct (ph s) eqn:Hph; try discriminate. inversion Hs; subst; clear Hs.
    cbn [evs]. rewrite H5. apply f_equal. unfold abs. rewrite Hph. fsimpl. reflexivity.
  - (* LSend *)
    destruct (ph s) eqn:Hph; try discriminate. inversion Hs; subst; clear Hs.
    cbn [evs mrun]. rewrite H5. unfold abs. rewrite Hph. fsimpl. cbn [flight length].
    cbn [mstep mended mfl mdue oeqb isnone andb mcur mnext mopens]. rewrite !Nat.eqb_refl. cbn [andb].
    f_equal. f_equal. lia.
  - (* LQuit *)
    destruct (ph s) eqn:Hph; try discriminate.
    destruct (killed s || (closed s && match inq s with [] => true | _ :: _ => false end)); inversion Hs; subst; clear Hs.
    cbn [evs mrun]. rewrite H5. unfold abs. rewrite Hph. fsimpl. cbn [flight length].
    cbn [mstep mended mdue mstarted mfl isnone andb mcur mnext mopens]. rewrite Nat.eqb_refl. cbn [andb negb]. reflexivity.
  - (* LAbort *)
    destruct (ph s) eqn:Hph; try discriminate. destruct (killed s); inversion Hs; subst; clear Hs.
    cbn [evs mrun]. rewrite H5. unfold abs. rewrite Hph. fsimpl. cbn [flight length].
    cbn [mstep mended mfl mdue isnone andb mcur mnext mopens]. rewrite Nat.eqb_refl. cbn [andb].
    cbn [mstep mended mdue mstarted mfl isnone andb mcur mnext mopens]. rewrite Nat.eqb_refl. cbn [andb negb].
    f_equal. f_equal. lia.
Qed.

(* ---------- G6: Open calls in the event log = the ghost list of opened generations ---------- *)
Definition G6 (s : st) : Prop :=
  forall q, opened_as (S q) (evs s) = if memb (S q) (opens s) then Some (okflag s q) else None.

Lemma G6_init : G6 init.
Proof. intros q. reflexivity. Qed.

Lemma G6_step s a s' : G2 s -> G3 s -> G6 s -> step s a = Some s' -> G6 s'.
Proof.
  intros HG2 HG3 H6 Hs q. specialize (H6 q).
  pose proof (g3_range _ HG3 q) as Hr. pose proof (g3_init _ HG3) as Hi.
  assert (Hm : memb (S q) (opens s) = true -> q < length (reqs s))
    by (intros Hm; apply Hr; apply memb_In; exact Hm).
  step_cases Hs; fsimpl; cbn [opened_as memb]; unfold okflag in *; fsimpl; fold (okl (reqs s) q) in *;
    try exact H6.
  - (* AReq refused *) fold (okl (reqs s ++ [{| rok := ok; rfate := FRefused; rcall := Some RBusy |}]) q).
    rewrite okl_app. destruct (memb (S q) (opens s)) eqn:E; [|exact H6].
    destruct (Nat.ltb_spec q (length (reqs s))); [exact H6|specialize (Hm eq_refl); lia].
  - (* AReq staged *) fold (okl (reqs s ++ [{| rok := ok; rfate := FStaged; rcall := None |}]) q).
    rewrite okl_app. destruct (memb (S q) (opens s)) eqn:E; [|exact H6].
    destruct (Nat.ltb_spec q (length (reqs s))); [exact H6|specialize (Hm eq_refl); lia].
  - fold (okl (set_call q0 RCancelled (set_fate q0 FWithdrawn (reqs s))) q). rewrite okl_set_call, okl_set_fate. exact H6.
  - fold (okl (set_call q0 RCancelled (reqs s)) q). rewrite okl_set_call. exact H6.
  - fold (okl (set_call q0 RCancelled (reqs s)) q). rewrite okl_set_call. exact H6.
  - fold (okl (set_call q0 RCancelled (reqs s)) q). rewrite okl_set_call. exact H6.
  - fold (okl (set_call q0 RCancelled (reqs s)) q). rewrite okl_set_call. exact H6.
  - fold (okl (set_call q0 RCancelled (reqs s)) q). rewrite okl_set_call. exact H6.
  - fold (okl (set_call q0 ROk (reqs s)) q). rewrite okl_set_call. exact H6.
  - fold (okl (set_call q0 RErrOpen (reqs s)) q). rewrite okl_set_call. exact H6.
  - (* LStart ok *) destruct (Hi eq_refl) as (Ho & _ & _). rewrite Ho in H6. cbn [memb] in H6. exact H6.
  - (* LStart fail *) destruct (Hi eq_refl) as (Ho & _ & _). rewrite Ho in H6. cbn [memb] in H6. exact H6.
  - (* LApply claim *)
    fold (okl (set_fate n FClaimed (reqs s)) q). fold (okl (reqs s) n). rewrite okl_set_fate.
    cbn [Nat.eqb]. destruct (Nat.eqb_spec q n) as [->|Hne]; cbn [orb]; [reflexivity|exact H6].
  - (* LOpened ok *) fold (okl (set_fate q0 FApplied (reqs s)) q). rewrite okl_set_fate. exact H6.
  - (* LOpened fail *) fold (okl (set_fate q0 FFailed (reqs s)) q). rewrite okl_set_fate. exact H6.
Qed.

Record Inv (s : st) : Prop := mkInv {
  i1 : G1 s; i2 : G2 s; i3 : G3 s; i5 : G5 s; i6 : G6 s }.

Lemma Inv_reach s : reach s -> Inv s.
Proof.
  revert s. apply (inv_reach Inv).
  - constructor; [exact G1_init|exact G2_init|exact G3_init|exact G5_init|exact G6_init].
  - intros s a s' [H1 H2 H3 H5 H6] Hs. constructor.
    + eapply G1_step; eauto.
    + eapply G2_step; eauto.
    + eapply G3_step; eauto.
    + eapply G5_step; eauto.
    + eapply G6_step; eauto.
Qed.

(* ---------- G4: Open / Teardown accounting, running flag ---------- *)
Definition live (s : st) : Prop :=
  match ph s with
  | PInit => True
  | PEnd => (forall g, In g (opens s) -> In g (tears s)) /\ runflag s = false
  | p => ~ In (cur s) (tears s) /\ runflag s = true /\
         forall g, In g (opens s) -> In g (tears s) \/ g = cur s \/ p = POpening (pred g) /\ g <> 0
  end.

Definition G4 (s : st) : Prop :=
  NoDup (opens s) /\ NoDup (tears s) /\ live s /\ (ph s = PInit -> runflag s = true).

Lemma G4_init : G4 init.
Proof. repeat split; simpl; auto; constructor. Qed.

Lemma G4_step s a s' : G2 s -> G3 s -> G4 s -> step s a = Some s' -> G4 s'.
Proof.
  intros HG2 HG3 (Hno & Hnt & Hl & Hri) Hs.
  pose proof (fun q => pend_staged s q HG2 HG3) as Hps.
  pose proof (fun q => opening_claimed s q HG2 HG3) as Hoc.
  pose proof (g3_fate _ HG3) as Hfate. pose proof (g3_init _ HG3) as Hi.
  pose proof (g3_tears _ HG3) as Ht.
  destruct HG2 as (_ & _ & _ & Hcl & Hpl & Hol & Hinit).
  unfold G4, live in *.
  destruct a; unfold step in Hs.
  - destruct (closed s); [discriminate|]. inversion Hs; subst; clear Hs; fsimpl. tauto.
  - inversion Hs; subst; clear Hs; fsimpl. tauto.
  - inversion Hs; subst; clear Hs; fsimpl. tauto.
  - destruct (pend s); inversion Hs; subst; clear Hs; fsimpl; tauto.
  - destruct (call_of s q) as [[|]|]; try discriminate.
    destruct (fate_of s q) as [[]|]; try discriminate; inversion Hs; subst; clear Hs; fsimpl; tauto.
  - destruct (call_of s q) as [[|]|]; try discriminate.
    destruct (fate_of s q) as [[]|]; try discriminate; inversion Hs; subst; clear Hs; fsimpl; tauto.
  - (* LStart *) destruct (ph s) eqn:Hph; try discriminate.
    destruct ok; inversion Hs; subst; clear Hs; fsimpl.
    + split; [constructor; [simpl; tauto|constructor]|]. split; [constructor|].
      split; [|congruence]. split; [simpl; tauto|]. split; [reflexivity|].
      intros g [<-|[]]. right; left; reflexivity.
    + split; [constructor; [simpl; tauto|constructor]|]. split; [constructor; [simpl; tauto|constructor]|].
      split; [|congruence]. split; [|reflexivity]. intros g Hg. exact Hg.
  - (* LApply *) destruct (ph s) eqn:Hph; try discriminate.
    destruct (pend s) as [q|] eqn:Hpe; inversion Hs; subst; clear Hs; fsimpl;
      [|destruct Hl as (Hct & Hrf & Hall); repeat split; try assumption; try congruence;
        intros g Hg; destruct (Hall g Hg) as [?|[?|[? _]]]; [tauto|tauto|discriminate]].
    pose proof (Hfate _ _ (Hps _ eq_refl)) as Hok. cbn [fate_ok] in Hok. destruct Hok as (_ & Hnin & _).
    destruct Hl as (Hct & Hrf & Hall).
    repeat split; try assumption; try congruence.
    + constructor; assumption.
    + intros g [<-|Hg]; [right; right; split; [reflexivity|discriminate]|].
      destruct (Hall g Hg) as [?|[?|[? _]]]; [left; assumption|right; left; assumption|discriminate].
  - (* LOpened *) destruct (ph s) eqn:Hph; try discriminate.
    pose proof (Hfate _ _ (Hoc _ eq_refl)) as Hok. cbn [fate_ok] in Hok.
    destruct Hok as (_ & _ & Hin & Hnap & Hnt2). destruct (Hol _ eq_refl) as (Hle & _ & _).
    destruct Hl as (Hct & Hrf & Hall).
    destruct (okflag s q); inversion Hs; subst; clear Hs; fsimpl.
    + repeat split; try assumption; try congruence.
      * constructor; assumption.
      * simpl. intros [E|E]; [lia|contradiction].
      * intros g Hg. destruct (Hall g Hg) as [?|[->|[E Hg0]]]; [left; right; assumption|left; left; reflexivity|].
        inversion E; subst. right; left. destruct g; [congruence|reflexivity].
    + repeat split; try assumption; try congruence.
      * constructor; assumption.
      * simpl. intros [E|E]; [lia|contradiction].
      * intros g Hg. destruct (Hall g Hg) as [?|[->|[E Hg0]]]; [left; right; assumption|right; left; reflexivity|].
        inversion E; subst. left; left. destruct g; [congruence|reflexivity].
  - (* LWake *) destruct (ph s) eqn:Hph; try discriminate. destruct (wake s); inversion Hs; subst; clear Hs; fsimpl.
    destruct Hl as (Hct & Hrf & Hall). repeat split; try assumption; try congruence.
    intros g Hg. destruct (Hall g Hg) as [?|[?|[? _]]]; [tauto|tauto|discriminate].
  - (* LRecv *) destruct (ph s) eqn:Hph; try discriminate. destruct (inq s); inversion Hs; subst; clear Hs; fsimpl.
    destruct Hl as (Hct & Hrf & Hall). repeat split; try assumption; try congruence.
    intros g Hg. destruct (Hall g Hg) as [?|[?|[? _]]]; [tauto|tauto|discriminate].
  - (* LProcDone *) destruct (ph s) eqn:Hph; try discriminate. inversion Hs; subst; clear Hs; fsimpl.
    destruct Hl as (Hct & Hrf & Hall). repeat split; try assumption; try congruence.
    intros g0 Hg. destruct (Hall g0 Hg) as [?|[?|[? _]]]; [tauto|tauto|discriminate].
  - (* LSend *) destruct (ph s) eqn:Hph; try discriminate. inversion Hs; subst; clear Hs; fsimpl.
    destruct Hl as (Hct & Hrf & Hall). repeat split; try assumption; try congruence.
    intros g0 Hg. destruct (Hall g0 Hg) as [?|[?|[? _]]]; [tauto|tauto|discriminate].
  - (* LQuit *) destruct (ph s) eqn:Hph; try discriminate.
    destruct (killed s || (closed s && match inq s with [] => true | _ :: _ => false end)); inversion Hs; subst; clear Hs; fsimpl.
    destruct Hl as (Hct & Hrf & Hall). repeat split; try assumption; try congruence.
    + constructor; assumption.
    + intros g Hg. destruct (Hall g Hg) as [?|[->|[? _]]]; [right; assumption|left; reflexivity|discriminate].
  - (* LAbort *) destruct (ph s) eqn:Hph; try discriminate. destruct (killed s); inversion Hs; subst; clear Hs; fsimpl.
    destruct Hl as (Hct & Hrf & Hall). repeat split; try assumption; try congruence.
    + constructor; assumption.
    + intros g0 Hg. destruct (Hall g0 Hg) as [?|[->|[? _]]]; [right; assumption|left; reflexivity|discriminate].
Qed.

Lemma G4_reach s : reach s -> G4 s.
Proof.
  intros Hr. assert (H : Inv s /\ G4 s); [|tauto].
  revert s Hr. apply (inv_reach (fun s => Inv s /\ G4 s)).
  - split; [apply Inv_reach; exact reach_init|exact G4_init].
  - intros s a s' [[H1 H2 H3 H5 H6] H4] Hs. split.
    + constructor; [eapply G1_step|eapply G2_step|eapply G3_step|eapply G5_step|eapply G6_step]; eauto.
    + eapply G4_step; eauto.
Qed.

(* ============================ theorems ============================ *)
Lemma reach_of_run l s : run init l = Some s -> reach s.
Proof. intros H. exists l. exact H. Qed.

(* the property monitor accepts every behaviour of the model *)
Lemma res_ok_from_all evs : forall l q0,
  (forall i r c, nth_error l i = Some r -> rcall r = Some c -> res_ok1 evs (q0 + i) (rok r) c = true) ->
  res_ok_from evs q0 (map ret_of l) = true.
Proof.
  induction l as [|r l IH]; intros q0 H; [reflexivity|].
  assert (Ht : res_ok_from evs (S q0) (map ret_of l) = true).
  { apply IH. intros i r0 c Hn Hc. replace (S q0 + i) with (q0 + S i) by lia. apply H; assumption. }
  cbn [map]. unfold ret_of at 1. destruct (rcall r) as [c|] eqn:Ec; cbn [res_ok_from]; [|exact Ht].
  rewrite Ht, andb_true_r. specialize (H 0 r c eq_refl Ec). rewrite Nat.add_0_r in H. exact H.
Qed.

Theorem model_satisfies_monitor : forall l s, run init l = Some s ->
  mrun (evs s) <> None /\ res_ok_from (evs s) 0 (map ret_of (reqs s)) = true.
Proof.
  intros l s Hr. destruct (Inv_reach s (reach_of_run _ _ Hr)) as [_ H2 H3 H5 H6]. split.
  - unfold G5 in H5. rewrite H5. discriminate.
  - apply res_ok_from_all. intros i r c Hn Hc. cbn [plus].
    assert (Hf : fatel (reqs s) i = Some (rfate r)) by (unfold fatel; rewrite Hn; reflexivity).
    assert (Hcl : calll (reqs s) i = Some (Some c)) by (unfold calll; rewrite Hn; cbn [option_map]; rewrite Hc; reflexivity).
    assert (Hok : okl (reqs s) i = rok r) by (unfold okl; rewrite Hn; reflexivity).
    pose proof (g3_fate _ H3 _ _ Hf) as Hfo. pose proof (g3_call _ H3 _ _ _ Hf Hcl) as Hco.
    unfold res_ok1. rewrite (H6 i), okflag_okl, Hok.
    destruct c; cbn [call_ok] in Hco.
    + rewrite Hco in Hfo. cbn [fate_ok] in Hfo. destruct Hfo as (_ & _ & Hin & Hk & _).
      apply memb_In in Hin. rewrite Hin. rewrite Hok in Hk. rewrite Hk. reflexivity.
    + rewrite Hco in Hfo. cbn [fate_ok] in Hfo. destruct Hfo as (_ & _ & Hin & Hk & _).
      apply memb_In in Hin. rewrite Hin. rewrite Hok in Hk. rewrite Hk. reflexivity.
    + rewrite Hco in Hfo. cbn [fate_ok] in Hfo. destruct Hfo as (_ & Hnin & _).
      apply memb_nIn in Hnin. rewrite Hnin. reflexivity.
    + destruct (memb (S i) (opens s)); [apply eqb_reflx|reflexivity].
Qed.

Theorem no_record_lost : forall l s, run init l = Some s ->
  rev (map fst (out s)) ++ nack s ++ flight (ph s) ++ inq s = seq 0 (nextr s).
Proof. intros l s Hr. apply (G1_reach s (reach_of_run _ _ Hr)). Qed.

Theorem one_generation_per_record : forall l s, run init l = Some s ->
  NoDup (map fst (out s)) /\
  (forall r g g', In (r, g) (out s) -> In (r, g') (out s) -> g = g').
Proof.
  intros l s Hr. destruct (G1_reach s (reach_of_run _ _ Hr)) as [H1 _].
  assert (Hnd : NoDup (map fst (out s))).
  { apply prefix_seq_NoDup in H1. apply NoDup_rev in H1. rewrite rev_involutive in H1. exact H1. }
  split; [exact Hnd|]. clear H1. induction (out s) as [|[r0 g0] o IH]; intros r g g' H1 H2; [contradiction|].
  cbn [map fst] in Hnd. inversion Hnd as [|? ? Hni Hnd']; subst.
  destruct H1 as [E1|H1]; destruct H2 as [E2|H2].
  - congruence.
  - inversion E1; subst. exfalso. apply Hni. apply in_map_iff. exists (r, g'). split; [reflexivity|exact H2].
  - inversion E2; subst. exfalso. apply Hni. apply in_map_iff. exists (r, g). split; [reflexivity|exact H1].
  - eapply IH; eauto.
Qed.

Theorem generations_monotone_in_record_order : forall l s, run init l = Some s ->
  rev (map fst (out s)) = seq 0 (length (out s)) /\      (* output order = arrival order, no gap *)
  nonincr (map snd (out s)) /\                            (* [out] is newest first: stamps never decrease *)
  (forall r g, In (r, g) (out s) -> g = 0 \/ In g (applied s)).   (* only switched-in generations stamp *)
Proof.
  intros l s Hr. pose proof (reach_of_run _ _ Hr) as Hre.
  destruct (G1_reach s Hre) as [H1 _]. destruct (G2_reach s Hre) as (Hn & Hle & Hb & _).
  pose proof (G3_reach s Hre) as H3. split; [|split; [exact Hn|]].
  - apply prefix_seq_eq in H1. rewrite rev_length, map_length in H1. exact H1.
  - (* stamps: by a separate invariant *)
    clear H1 Hn Hle Hb H3 Hre. revert s Hr.
    assert (Hinv : forall s, reach s ->
              (forall r g, In (r, g) (out s) -> g = 0 \/ In g (applied s)) /\
              (forall r g, ph s = PProc r g \/ ph s = PFwd r g -> g = 0 \/ In g (applied s)) /\
              (cur s = 0 \/ In (cur s) (applied s)) /\ (ph s = PInit -> out s = [])).
    { apply (inv_reach (fun s => (forall r g, In (r, g) (out s) -> g = 0 \/ In g (applied s)) /\
              (forall r g, ph s = PProc r g \/ ph s = PFwd r g -> g = 0 \/ In g (applied s)) /\
              (cur s = 0 \/ In (cur s) (applied s)) /\ (ph s = PInit -> out s = []))).
      - simpl. repeat split; intros; try contradiction; try tauto. destruct H; discriminate.
      - intros s a s' (Ho & Hf & Hc & Hi) Hs. step_cases Hs; fsimpl;
          try (rewrite (Hi eq_refl) in * );
          repeat split; intros; cbn [In] in *;
          repeat match goal with H : _ \/ _ |- _ => destruct H end; inv_eqs; try discriminate; try contradiction;
          try (match goal with H : In _ (out _) |- _ => destruct (Ho _ _ H); tauto end);
          try (match goal with H : ph _ = PProc _ _ |- _ => destruct (Hf _ _ (or_introl H)); tauto end);
          try (match goal with H : ph _ = PFwd _ _ |- _ => destruct (Hf _ _ (or_intror H)); tauto end);
          try (match goal with H : ?p = PProc _ _ |- _ => inversion H; subst end);
          try (match goal with H : ?p = PFwd _ _ |- _ => inversion H; subst end);
          try tauto; try congruence; auto;
          try (destruct (Hf _ _ (or_introl eq_refl)); tauto);
          try (destruct (Hf _ _ (or_intror eq_refl)); tauto). }
    intros s Hr. apply Hinv. eapply reach_of_run; eauto.
Qed.

Theorem failed_open_keeps_old : forall l s q, run init l = Some s -> okflag s q = false ->
  ~ In (S q) (applied s) /\ cur s <> S q /\
  (forall r g, In (r, g) (out s) -> g <> S q) /\
  (* the caller gets the error: once the node touched the request, the call can only report the failure
     (or that the caller itself gave up) *)
  (forall c, call_of s q = Some (Some c) -> In (S q) (opens s) -> c = RErrOpen \/ c = RCancelled).
Proof.
  intros l s q Hr Hok. pose proof (reach_of_run _ _ Hr) as Hre.
  pose proof (G3_reach s Hre) as H3.
  assert (Hna : ~ In (S q) (applied s)).
  { intros Hin. destruct (g3_applied _ H3 _ Hin) as (q' & E & Hop). inversion E; subst q'.
    pose proof (g3_range _ H3 _ Hop) as Hlt. destruct (fatel_some _ _ Hlt) as [f Hf].
    pose proof (g3_fate _ H3 _ _ Hf) as Hfo. rewrite okflag_okl in Hok.
    destruct f; cbn [fate_ok] in Hfo; try tauto. destruct Hfo as (_ & _ & _ & Hk & _). congruence. }
  split; [exact Hna|]. split.
  - rewrite (g3_cur _ H3). destruct (applied s) as [|a t] eqn:E; cbn [hd]; [discriminate|].
    intros ->. apply Hna. left. reflexivity.
  - split.
    + intros r g Hin ->. destruct (generations_monotone_in_record_order _ _ Hr) as (_ & _ & Hst).
      destruct (Hst _ _ Hin) as [?|?]; [discriminate|contradiction].
    + intros c Hc Hop. rewrite call_of_calll in Hc.
      pose proof (calll_lt _ _ _ Hc) as Hlt. destruct (fatel_some _ _ Hlt) as [f Hf].
      pose proof (g3_fate _ H3 _ _ Hf) as Hfo. pose proof (g3_call _ H3 _ _ _ Hf Hc) as Hco.
      rewrite okflag_okl in Hok.
      destruct c; cbn [call_ok] in Hco; subst; cbn [fate_ok] in Hfo; try tauto;
        try (destruct Hfo as (_ & _ & _ & Hk & _); congruence).
Qed.

(* one step: a failed Open changes neither the processor nor any record, and marks the request failed *)
Theorem failed_open_step : forall s q s', ph s = POpening q -> okflag s q = false ->
  step s LOpened = Some s' ->
  cur s' = cur s /\ out s' = out s /\ inq s' = inq s /\ applied s' = applied s /\
  tears s' = S q :: tears s /\ evs s' = NTear (S q) true :: evs s.
Proof.
  intros s q s' Hp Hok Hs. unfold step in Hs. rewrite Hp, Hok in Hs. inversion Hs; subst. simpl. tauto.
Qed.

Theorem at_most_one_pending : forall l s, run init l = Some s ->
  (forall q1 q2, fate_of s q1 = Some FStaged -> fate_of s q2 = Some FStaged -> q1 = q2) /\
  (forall q, fate_of s q = Some FStaged <-> pend s = Some q) /\
  (* a request arriving while one is staged is refused and touches nothing *)
  (forall ok s', pend s <> None -> step s (AReq ok) = Some s' ->
     pend s' = pend s /\ cur s' = cur s /\ ph s' = ph s /\ opens s' = opens s /\ evs s' = evs s /\
     call_of s' (length (reqs s)) = Some (Some RBusy)).
Proof.
  intros l s Hr. pose proof (reach_of_run _ _ Hr) as Hre.
  pose proof (G3_reach s Hre) as H3. pose proof (G2_reach s Hre) as H2.
  assert (Hst : forall q, fate_of s q = Some FStaged -> pend s = Some q).
  { intros q Hq. rewrite fate_of_fatel in Hq. pose proof (g3_fate _ H3 _ _ Hq) as Hf. cbn [fate_ok] in Hf. tauto. }
  split; [|split].
  - intros q1 q2 Ha Hb. apply Hst in Ha. apply Hst in Hb. congruence.
  - intros q. split; [apply Hst|]. intros Hp. rewrite fate_of_fatel. apply pend_staged; assumption.
  - intros ok s' Hp Hs. unfold step in Hs. destruct (pend s) eqn:E; [|congruence]. inversion Hs; subst. simpl.
    repeat split; try reflexivity. unfold call_of. simpl. rewrite nth_error_app2 by lia.
    rewrite Nat.sub_diag. reflexivity.
Qed.

(* fates that never change again *)
Definition terminal (f : fate) : Prop := f = FWithdrawn \/ f = FRefused \/ f = FApplied \/ f = FFailed.

Lemma terminal_stable s a s' q f : G2 s -> G3 s -> terminal f ->
  fatel (reqs s) q = Some f -> step s a = Some s' -> fatel (reqs s') q = Some f.
Proof.
  intros H2 H3 Ht Hf Hs.
  pose proof (fun q => pend_staged s q H2 H3) as Hps.
  pose proof (fun q => opening_claimed s q H2 H3) as Hoc.
  pose proof (fatel_lt _ _ _ Hf) as Hlt.
  step_cases Hs; fsimpl; try exact Hf; rewrite ?fate_of_fatel, ?call_of_calll in *; req_rw; eqb_cases; try exact Hf;
    try lia; try congruence.
  - (* ACancel of a staged one *) rewrite Hf in *. inv_eqs. destruct Ht as [?|[?|[?|?]]]; discriminate.
  - (* LApply *) rewrite (Hps _ eq_refl) in Hf. inv_eqs. destruct Ht as [?|[?|[?|?]]]; discriminate.
  - (* LOpened ok *) rewrite (Hoc _ eq_refl) in Hf. inv_eqs. destruct Ht as [?|[?|[?|?]]]; discriminate.
  - (* LOpened fail *) rewrite (Hoc _ eq_refl) in Hf. inv_eqs. destruct Ht as [?|[?|[?|?]]]; discriminate.
Qed.

Lemma terminal_forever l : forall s s' q f, reach s -> terminal f ->
  fatel (reqs s) q = Some f -> run s l = Some s' -> fatel (reqs s') q = Some f.
Proof.
  induction l as [|a l IH]; intros s s' q f Hre Ht Hf Hr; simpl in Hr.
  - inversion Hr; subst; exact Hf.
  - destruct (step s a) as [s1|] eqn:E; [|discriminate].
    eapply IH; [eapply reach_step; eauto|exact Ht| |exact Hr].
    eapply terminal_stable; eauto; [apply G2_reach|apply G3_reach]; assumption.
Qed.

(* A Reconfigure call that returned because its context was cancelled either had no effect at all,
   now and in every continuation (withdrawn), or its swap runs to completion exactly like an
   uncancelled one: in progress inside applyPendingSwap, fully applied, or fully failed. *)
Theorem cancelled_reconfigure_is_all_or_nothing : forall l s q, run init l = Some s ->
  call_of s q = Some (Some RCancelled) ->
  (fate_of s q = Some FWithdrawn /\
     forall l2 s2, run s l2 = Some s2 ->
       ~ In (S q) (opens s2) /\ pend s2 <> Some q /\ cur s2 <> S q /\ opened_as (S q) (evs s2) = None)
  \/ (fate_of s q = Some FClaimed /\ ph s = POpening q)
  \/ (fate_of s q = Some FApplied /\ okflag s q = true /\ In (S q) (applied s) /\ In (S q) (opens s))
  \/ (fate_of s q = Some FFailed /\ okflag s q = false /\ ~ In (S q) (applied s) /\ In (S q) (tears s)).
Proof.
  intros l s q Hr Hc. pose proof (reach_of_run _ _ Hr) as Hre. pose proof (G3_reach s Hre) as H3.
  rewrite call_of_calll in Hc. pose proof (calll_lt _ _ _ Hc) as Hlt. destruct (fatel_some _ _ Hlt) as [f Hf].
  pose proof (g3_fate _ H3 _ _ Hf) as Hfo. pose proof (g3_call _ H3 _ _ _ Hf Hc) as Hco. cbn [call_ok] in Hco.
  rewrite !fate_of_fatel, okflag_okl.
  destruct f; cbn [fate_ok] in Hfo; try tauto.
  left. split; [exact Hf|]. intros l2 s2 Hr2.
  assert (Hre2 : reach s2).
  { destruct Hre as [l0 Hl0]. exists (l0 ++ l2). rewrite run_app, Hl0. exact Hr2. }
  pose proof (terminal_forever l2 s s2 q FWithdrawn Hre (or_introl eq_refl) Hf Hr2) as Hf2.
  destruct (Inv_reach s2 Hre2) as [_ _ H32 _ H62].
  pose proof (g3_fate _ H32 _ _ Hf2) as Hfo2. cbn [fate_ok] in Hfo2. destruct Hfo2 as (Hp2 & Hn2 & _).
  split; [exact Hn2|]. split; [exact Hp2|]. split.
  - intros Hcur. apply Hn2. rewrite <- Hcur. apply (g3_curopen _ H32). intros Hpi.
    destruct (G2_reach s2 Hre2) as (_ & _ & _ & _ & _ & _ & Hi0). rewrite (Hi0 Hpi) in Hcur. discriminate.
  - rewrite (H62 q). apply memb_nIn in Hn2. rewrite Hn2. reflexivity.
Qed.

(* the swap touches no message state *)
Theorem swap_preserves_acks_and_positions : forall s a s', (a = LApply \/ a = LOpened) ->
  step s a = Some s' ->
  inq s' = inq s /\ nextr s' = nextr s /\ out s' = out s /\ nack s' = nack s /\
  flight (ph s) = [] /\ flight (ph s') = [].
Proof.
  intros s a s' [-> | ->] Hs; step_cases Hs; fsimpl; ph_rw; cbn [flight]; tauto.
Qed.

Theorem running_flag_stays_set : forall l s, run init l = Some s ->
  (ph s <> PEnd -> runflag s = true) /\ (ph s = PEnd -> runflag s = false).
Proof.
  intros l s Hr. destruct (G4_reach s (reach_of_run _ _ Hr)) as (_ & _ & Hl & Hi). unfold live in Hl.
  destruct (ph s) eqn:E; split; intros; try congruence; try tauto.
Qed.

Theorem every_opened_processor_torn_down_once : forall l s, run init l = Some s -> ph s = PEnd ->
  NoDup (opens s) /\ NoDup (tears s) /\ forall g, In g (opens s) <-> In g (tears s).
Proof.
  intros l s Hr Hp. pose proof (reach_of_run _ _ Hr) as Hre.
  destruct (G4_reach s Hre) as (Hno & Hnt & Hl & _). unfold live in Hl. rewrite Hp in Hl.
  split; [exact Hno|]. split; [exact Hnt|]. intros g. split; [apply Hl|apply (g3_tears _ (G3_reach s Hre))].
Qed.

(* ---------- the lock-step schedule is one of the schedules ---------- *)
Lemma reach_try s a : reach s -> reach (try s a).
Proof. intros H. unfold try. destruct (step s a) eqn:E; [eapply reach_step; eauto|exact H]. Qed.

Lemma reach_settle g : forall fuel s, reach s -> reach (settle g fuel s).
Proof.
  induction fuel as [|f IH]; intros s H; simpl; [exact H|].
  destruct (next_auto g s) as [a|]; [|exact H]. destruct (step s a) eqn:E; [|exact H].
  apply IH. eapply reach_step; eauto.
Qed.

Lemma reach_env_step s e : reach s -> reach (env_step s e).
Proof.
  intros H. unfold env_step. destruct (killed s); [exact H|].
  destruct e; repeat match goal with
                     | |- reach (if ?b then _ else _) => destruct b
                     | |- reach (match ph ?s with _ => _ end) => destruct (ph s)
                     end; try exact H; try (apply reach_settle; apply reach_try; exact H); apply reach_try; exact H.
Qed.

Lemma reach_cancel_all n : forall s, reach s -> reach (cancel_all n s).
Proof. induction n as [|n IH]; intros s H; simpl; [exact H|]. apply reach_try. apply IH. exact H. Qed.

Theorem lockstep_is_a_schedule : forall es, exists l, run init l = Some (run_env es).
Proof.
  intros es. change (reach (run_env es)). unfold run_env, finish.
  assert (H : reach (fold_left env_step es (settle false 4 init))).
  { assert (H0 : reach (settle false 4 init)) by (apply reach_settle; exact reach_init).
    revert H0. generalize (settle false 4 init). induction es as [|e es IH]; intros s0 H0; simpl; [exact H0|].
    apply IH. apply reach_env_step. exact H0. }
  destruct (killed _); [exact H|]. apply reach_cancel_all. apply reach_settle. apply reach_try. apply reach_settle. exact H.
Qed.
