(* Proofs about the live-swap model (C13): invariants of the interleaving system over arbitrary
   action lists, and the simulation of the property monitor. *)
From Verif Require Import Swap.Swap.

(* ---------- generic ---------- *)
Lemma run_app l1 : forall s l2, run s (l1 ++ l2) = match run s l1 with Some s' => run s' l2 | None => None end.
Proof.
  induction l1 as [|a l1 IH]; intros s l2; simpl; [reflexivity|].
  destruct (step s a); [apply IH|reflexivity].
Qed.

Definition reach (s : st) : Prop := exists l, run init l = Some s.

Lemma reach_init : reach init.
Proof. exists []. reflexivity. Qed.

Lemma reach_step s a s' : reach s -> step s a = Some s' -> reach s'.
Proof.
  intros [l Hl] Hs. exists (l ++ [a]). rewrite run_app, Hl. simpl. rewrite Hs. reflexivity.
Qed.

Lemma inv_run (P : st -> Prop) :
  (forall s a s', P s -> step s a = Some s' -> P s') ->
  forall l s0 s, P s0 -> run s0 l = Some s -> P s.
Proof.
  intros Hstep. induction l as [|a l IH]; intros s0 s H0 Hr; simpl in Hr.
  - inversion Hr; subst; exact H0.
  - destruct (step s0 a) as [s1|] eqn:E; [|discriminate]. eapply IH; [|exact Hr]. eapply Hstep; eauto.
Qed.

Lemma inv_reach (P : st -> Prop) :
  P init -> (forall s a s', P s -> step s a = Some s' -> P s') -> forall s, reach s -> P s.
Proof. intros H0 Hs s [l Hl]. eapply inv_run; eauto. Qed.

(* case analysis of one step *)
Ltac step_cases H :=
  unfold step in H;
  repeat match type of H with
         | context [match ?x with _ => _ end] => destruct x eqn:?
         end;
  try discriminate; inversion H; subst; clear H.

(* ---------- the request table ---------- *)
Definition fatel (l : list req) (q : nat) : option fate := option_map rfate (nth_error l q).
Definition calll (l : list req) (q : nat) : option (option res) := option_map rcall (nth_error l q).
Definition okl (l : list req) (q : nat) : bool :=
  match nth_error l q with Some r => rok r | None => false end.

Lemma fate_of_fatel s q : fate_of s q = fatel (reqs s) q.
Proof. reflexivity. Qed.
Lemma call_of_calll s q : call_of s q = calll (reqs s) q.
Proof. reflexivity. Qed.
Lemma okflag_okl s q : okflag s q = okl (reqs s) q.
Proof. reflexivity. Qed.

Lemma upd_length {A} (f : A -> A) l : forall n, length (upd n f l) = length l.
Proof. induction l as [|x l IH]; intros [|n]; simpl; auto. Qed.

Lemma nth_upd_same {A} (f : A -> A) l : forall n, nth_error (upd n f l) n = option_map f (nth_error l n).
Proof. induction l as [|x l IH]; intros [|n]; simpl; auto. Qed.

Lemma nth_upd_other {A} (f : A -> A) l : forall n m, n <> m -> nth_error (upd n f l) m = nth_error l m.
Proof.
  induction l as [|x l IH]; intros [|n] [|m] H; simpl; auto; try congruence.
Qed.

Lemma nth_upd {A} (f : A -> A) l n m :
  nth_error (upd n f l) m = if Nat.eqb n m then option_map f (nth_error l n) else nth_error l m.
Proof.
  destruct (Nat.eqb_spec n m) as [->|H]; [apply nth_upd_same|apply nth_upd_other; exact H].
Qed.

Lemma nth_in_range {A} (l : list A) q : nth_error l q = if Nat.ltb q (length l) then nth_error l q else None.
Proof.
  destruct (Nat.ltb_spec q (length l)) as [H|H]; [reflexivity|]. apply nth_error_None. exact H.
Qed.

Lemma set_fate_length q f l : length (set_fate q f l) = length l.
Proof. apply upd_length. Qed.
Lemma set_call_length q c l : length (set_call q c l) = length l.
Proof. apply upd_length. Qed.

Lemma fatel_set_fate q f l q' :
  fatel (set_fate q f l) q' = if Nat.eqb q q' then (if Nat.ltb q (length l) then Some f else None) else fatel l q'.
Proof.
  unfold fatel, set_fate. rewrite nth_upd. destruct (Nat.eqb q q'); [|reflexivity].
  destruct (Nat.ltb_spec q (length l)) as [H|H].
  - apply nth_error_Some in H. destruct (nth_error l q); [reflexivity|congruence].
  - apply nth_error_None in H. rewrite H. reflexivity.
Qed.
Lemma fatel_set_call q c l q' : fatel (set_call q c l) q' = fatel l q'.
Proof.
  unfold fatel, set_call. rewrite nth_upd. destruct (Nat.eqb_spec q q') as [->|]; [|reflexivity].
  destruct (nth_error l q'); reflexivity.
Qed.
Lemma calll_set_fate q f l q' : calll (set_fate q f l) q' = calll l q'.
Proof.
  unfold calll, set_fate. rewrite nth_upd. destruct (Nat.eqb_spec q q') as [->|]; [|reflexivity].
  destruct (nth_error l q'); reflexivity.
Qed.
Lemma calll_set_call q c l q' :
  calll (set_call q c l) q' = if Nat.eqb q q' then (if Nat.ltb q (length l) then Some (Some c) else None) else calll l q'.
Proof.
  unfold calll, set_call. rewrite nth_upd. destruct (Nat.eqb q q'); [|reflexivity].
  destruct (Nat.ltb_spec q (length l)) as [H|H].
  - apply nth_error_Some in H. destruct (nth_error l q); [reflexivity|congruence].
  - apply nth_error_None in H. rewrite H. reflexivity.
Qed.
Lemma okl_set_fate q f l q' : okl (set_fate q f l) q' = okl l q'.
Proof.
  unfold okl, set_fate. rewrite nth_upd. destruct (Nat.eqb_spec q q') as [->|]; [|reflexivity].
  destruct (nth_error l q'); reflexivity.
Qed.
Lemma okl_set_call q c l q' : okl (set_call q c l) q' = okl l q'.
Proof.
  unfold okl, set_call. rewrite nth_upd. destruct (Nat.eqb_spec q q') as [->|]; [|reflexivity].
  destruct (nth_error l q'); reflexivity.
Qed.

Lemma nth_app1 {A} (l : list A) p q :
  nth_error (l ++ [p]) q = if Nat.ltb q (length l) then nth_error l q else if Nat.eqb q (length l) then Some p else None.
Proof.
  destruct (Nat.ltb_spec q (length l)) as [Hlt|Hge]; [apply nth_error_app1; exact Hlt|].
  destruct (Nat.eqb_spec q (length l)) as [->|Hne].
  - rewrite nth_error_app2 by lia. rewrite Nat.sub_diag. reflexivity.
  - apply nth_error_None. rewrite app_length. simpl. lia.
Qed.
Lemma fatel_app l p q :
  fatel (l ++ [p]) q = if Nat.ltb q (length l) then fatel l q else if Nat.eqb q (length l) then Some (rfate p) else None.
Proof. unfold fatel. rewrite nth_app1. destruct (Nat.ltb q (length l)); [reflexivity|]. destruct (Nat.eqb q (length l)); reflexivity. Qed.
Lemma calll_app l p q :
  calll (l ++ [p]) q = if Nat.ltb q (length l) then calll l q else if Nat.eqb q (length l) then Some (rcall p) else None.
Proof. unfold calll. rewrite nth_app1. destruct (Nat.ltb q (length l)); [reflexivity|]. destruct (Nat.eqb q (length l)); reflexivity. Qed.
Lemma okl_app l p q :
  okl (l ++ [p]) q = if Nat.ltb q (length l) then okl l q else if Nat.eqb q (length l) then rok p else false.
Proof. unfold okl. rewrite nth_app1. destruct (Nat.ltb q (length l)); [reflexivity|]. destruct (Nat.eqb q (length l)); reflexivity. Qed.

Lemma fatel_lt l q x : fatel l q = Some x -> q < length l.
Proof.
  unfold fatel. intros H. apply nth_error_Some. destruct (nth_error l q); simpl in H; congruence.
Qed.
Lemma fatel_none l q : length l <= q -> fatel l q = None.
Proof. intros H. unfold fatel. apply nth_error_None in H. rewrite H. reflexivity. Qed.
Lemma calll_lt l q x : calll l q = Some x -> q < length l.
Proof.
  unfold calll. intros H. apply nth_error_Some. destruct (nth_error l q); simpl in H; congruence.
Qed.
Lemma fatel_some l q : q < length l -> exists f, fatel l q = Some f.
Proof.
  intros H. apply nth_error_Some in H. unfold fatel. destruct (nth_error l q) as [r|]; [|congruence].
  exists (rfate r). reflexivity.
Qed.
Lemma fatel_calll l q f : fatel l q = Some f -> exists c, calll l q = Some c.
Proof. unfold fatel, calll. destruct (nth_error l q) as [r|]; simpl; [eauto|discriminate]. Qed.

Lemma memb_In x l : memb x l = true <-> In x l.
Proof.
  induction l as [|y l IH]; simpl; [split; [discriminate|tauto]|].
  rewrite orb_true_iff, Nat.eqb_eq, IH. split; intros [H|H]; auto.
Qed.
Lemma memb_nIn x l : memb x l = false <-> ~ In x l.
Proof. rewrite <- memb_In. destruct (memb x l); split; congruence. Qed.

(* ---------- G1: conservation and order of records ---------- *)
Definition G1 (s : st) : Prop :=
  rev (map fst (out s)) ++ nack s ++ flight (ph s) ++ inq s = seq 0 (nextr s)
  /\ (ph s <> PEnd -> nack s = []).

Lemma G1_init : G1 init.
Proof. split; reflexivity. Qed.

Ltac fsimpl :=
  cbn [ph cur pend wake inq nextr reqs closed killed evs out nack applied opens tears runflag
       w_env w_api] in *.

Ltac ph_rw := repeat match goal with H : ph ?s = _ |- _ => rewrite H in * end.

Lemma G1_step s a s' : G1 s -> step s a = Some s' -> G1 s'.
Proof.
  intros [H1 H2] Hs. step_cases Hs; unfold G1 in *; fsimpl; ph_rw; cbn [flight] in *;
    try (split; [assumption|assumption]);
    try (assert (Hn : nack s = []) by (apply H2; congruence); rewrite Hn in *; cbn [app] in *).
  all: try (split; [ first [ assumption
                           | rewrite Heql in H1; exact H1
                           | cbn [map fst rev]; rewrite <- app_assoc; exact H1 ]
                   | intros; first [reflexivity | congruence | auto] ]; fail).
  (* AArrive *) split; [|assumption].
  rewrite seq_S. cbn [plus]. rewrite <- H1. repeat rewrite <- app_assoc. reflexivity.
Qed.

Lemma G1_reach s : reach s -> G1 s.
Proof. apply inv_reach; [exact G1_init|intros; eapply G1_step; eauto]. Qed.

Lemma prefix_seq_NoDup (l t : list nat) n : l ++ t = seq 0 n -> NoDup l.
Proof.
  intros H. pose proof (seq_NoDup n 0) as Hn. rewrite <- H in Hn. clear H.
  induction l as [|x l IH]; [constructor|]. simpl in Hn. inversion Hn; subst.
  constructor; [|apply IH; assumption]. intros Hin. apply H1. apply in_or_app. left. exact Hin.
Qed.

Lemma prefix_seq_eq (l t : list nat) : forall a n, l ++ t = seq a n -> l = seq a (length l).
Proof.
  induction l as [|x l IH]; intros a n H; [reflexivity|].
  destruct n as [|n]; simpl in H; [discriminate|]. inversion H; subst. simpl. f_equal. eapply IH; eauto.
Qed.

Lemma mid_seq (l : list nat) r t n : l ++ r :: t = seq 0 n -> r = length l.
Proof.
  intros H. pose proof (prefix_seq_eq (l ++ [r]) t 0 n) as P.
  rewrite <- app_assoc in P. specialize (P H). rewrite app_length in P. simpl in P.
  rewrite Nat.add_1_r, seq_S in P. simpl in P. apply app_inj_tail in P. tauto.
Qed.

(* ---------- G2: generations only grow ---------- *)
Fixpoint nonincr (l : list nat) : Prop :=
  match l with
  | a :: (b :: _) as t => b <= a /\ nonincr t
  | _ => True
  end.

Definition bound (s : st) : nat := match ph s with PProc _ g | PFwd _ g => g | _ => cur s end.

Definition G2 (s : st) : Prop :=
  nonincr (map snd (out s))
  /\ (forall r g, In (r, g) (out s) -> g <= bound s)
  /\ bound s <= cur s
  /\ cur s <= length (reqs s)
  /\ (forall q, pend s = Some q -> cur s <= q /\ q < length (reqs s))
  /\ (forall q, ph s = POpening q -> cur s <= q /\ q < length (reqs s) /\
                                    forall q2, pend s = Some q2 -> q < q2)
  /\ (ph s = PInit -> cur s = 0).

Lemma G2_init : G2 init.
Proof. unfold G2, bound; simpl. repeat split; intros; try lia; try contradiction; try discriminate. Qed.

Lemma nonincr_cons a l : (forall b, In b l -> b <= a) -> nonincr l -> nonincr (a :: l).
Proof. intros H Hn. destruct l as [|b l]; simpl; [exact I|]. split; [apply H; left; reflexivity|exact Hn]. Qed.

Ltac inv_eqs :=
  repeat match goal with
         | H : Some _ = Some _ |- _ => inversion H; subst; clear H
         | H : None = Some _ |- _ => discriminate H
         | H : Some _ = None |- _ => discriminate H
         | H : ?X = POpening _ |- _ =>
             lazymatch X with ph _ => fail | _ => first [discriminate H | inversion H; subst; clear H] end
         | H : (_, _) = (_, _) |- _ => inversion H; subst; clear H
         end.

Lemma G2_step s a s' : G2 s -> step s a = Some s' -> G2 s'.
Proof.
  intros (Hn & Hle & Hb & Hc & Hp & Ho & Hi) Hs.
  step_cases Hs; unfold G2, bound in *; fsimpl; ph_rw;
    repeat rewrite app_length; repeat rewrite ?set_fate_length, ?set_call_length; simpl in *.
  all: try pose proof (Hp _ eq_refl) as Hp1; try pose proof (Ho _ eq_refl) as Ho1; try pose proof (Hi eq_refl) as Hi1.
  all: repeat split; intros; inv_eqs;
    try (match goal with H : context [opt_eqb ?a ?b] |- _ => destruct (opt_eqb a b); inv_eqs end);
    try (match goal with H : pend _ = Some _ |- _ => pose proof (Hp _ H) end);
    try (match goal with H : ph _ = POpening _ |- _ => pose proof (Ho _ H) end);
    try (match goal with H : In _ (out _) |- _ => pose proof (Hle _ _ H) end);
    try assumption; try lia; try congruence; try (apply Hi; assumption);
    try (match goal with H : _ /\ _ /\ (forall q2, _ -> _) |- _ => destruct H as (? & ? & Hq) end;
         try lia; try (apply Hq; assumption); try (match goal with H : pend _ = Some _ |- _ => specialize (Hq _ H) end; lia);
         try (specialize (Hq _ eq_refl); lia)).
  all: try (destruct H; inv_eqs; try lia; match goal with H : In _ (out _) |- _ => pose proof (Hle _ _ H); lia end).
  - (* LSend: nonincr *)
    destruct (map snd (out s)) as [|b0 t] eqn:E; [exact I|]. split; [|exact Hn].
    assert (Hin : In b0 (map snd (out s))) by (rewrite E; left; reflexivity).
    apply in_map_iff in Hin as [[r0 g0] [E' Hin]]. simpl in E'; subst. eapply Hle; eauto.
Qed.

Lemma G2_reach s : reach s -> G2 s.
Proof. apply inv_reach; [exact G2_init|intros; eapply G2_step; eauto]. Qed.

(* ---------- G3: requests, generations opened / switched in / torn down ---------- *)
Definition fate_ok (s : st) (q : nat) (f : fate) : Prop :=
  match f with
  | FStaged => pend s = Some q /\ ~ In (S q) (opens s) /\ ph s <> POpening q
  | FWithdrawn | FRefused => pend s <> Some q /\ ~ In (S q) (opens s) /\ ph s <> POpening q
  | FClaimed => ph s = POpening q /\ pend s <> Some q /\ In (S q) (opens s) /\
                ~ In (S q) (applied s) /\ ~ In (S q) (tears s)
  | FApplied => ph s <> POpening q /\ pend s <> Some q /\ In (S q) (opens s) /\
                okl (reqs s) q = true /\ In (S q) (applied s)
  | FFailed => ph s <> POpening q /\ pend s <> Some q /\ In (S q) (opens s) /\
               okl (reqs s) q = false /\ ~ In (S q) (applied s) /\ In (S q) (tears s)
  end.

(* what the caller was told is consistent with what the node did *)
Definition call_ok (f : fate) (c : option res) : Prop :=
  match c with
  | None => f <> FRefused /\ f <> FWithdrawn
  | Some ROk => f = FApplied
  | Some RErrOpen => f = FFailed
  | Some RBusy => f = FRefused
  | Some RCancelled => f <> FStaged /\ f <> FRefused
  end.

Record G3 (s : st) : Prop := mkG3 {
  g3_init : ph s = PInit -> opens s = [] /\ applied s = [] /\ tears s = [];
  g3_cur : cur s = hd 0 (applied s);
  g3_fate : forall q f, fatel (reqs s) q = Some f -> fate_ok s q f;
  g3_call : forall q f c, fatel (reqs s) q = Some f -> calll (reqs s) q = Some c -> call_ok f c;
  g3_range : forall q, In (S q) (opens s) -> q < length (reqs s);
  g3_applied : forall g, In g (applied s) -> exists q, g = S q /\ In g (opens s);
  g3_tears : forall g, In g (tears s) -> In g (opens s);
  g3_curopen : ph s <> PInit -> In (cur s) (opens s)
}.

Lemma G3_init : G3 init.
Proof.
  constructor; simpl; intros; try tauto; try contradiction; try congruence;
    try (destruct q; discriminate).
Qed.

Lemma pend_staged s q : G2 s -> G3 s -> pend s = Some q -> fatel (reqs s) q = Some FStaged.
Proof.
  intros (_ & _ & _ & _ & Hp & _) HG Hq. destruct (Hp _ Hq) as [_ Hlt].
  destruct (fatel_some _ _ Hlt) as [f Hf]. pose proof (g3_fate _ HG _ _ Hf) as Hok.
  destruct f; cbn [fate_ok] in Hok; try tauto; exact Hf.
Qed.

Lemma opening_claimed s q : G2 s -> G3 s -> ph s = POpening q -> fatel (reqs s) q = Some FClaimed.
Proof.
  intros (_ & _ & _ & _ & _ & Ho & _) HG Hq. destruct (Ho _ Hq) as (_ & Hlt & _).
  destruct (fatel_some _ _ Hlt) as [f Hf]. pose proof (g3_fate _ HG _ _ Hf) as Hok.
  destruct f; cbn [fate_ok] in Hok; try tauto; exact Hf.
Qed.

Ltac req_rw := repeat first
  [ rewrite okl_set_fate in * | rewrite okl_set_call in *
  | rewrite fatel_set_fate in * | rewrite fatel_set_call in *
  | rewrite calll_set_fate in * | rewrite calll_set_call in *
  | rewrite fatel_app in * | rewrite calll_app in * | rewrite okl_app in *
  | rewrite set_fate_length in * | rewrite set_call_length in * | rewrite app_length in * ].

Ltac eqb_cases :=
  repeat match goal with
  | H : context [Nat.eqb ?a ?b] |- _ => destruct (Nat.eqb_spec a b); subst
  | |- context [Nat.eqb ?a ?b] => destruct (Nat.eqb_spec a b); subst
  | H : context [Nat.ltb ?a ?b] |- _ => destruct (Nat.ltb_spec a b)
  | |- context [Nat.ltb ?a ?b] => destruct (Nat.ltb_spec a b)
  end.

Inductive Learnt {A : Prop} (a : A) : Prop := mkLearnt.
Ltac learn fact :=
  lazymatch goal with
  | _ : Learnt fact |- _ => fail
  | _ => pose proof (mkLearnt fact); pose proof fact
  end.

Ltac inst Hfate Hcall Hps Hoc Hr Hpl Hol :=
  repeat match goal with
  | H : pend _ = Some ?q |- _ => first [learn (Hps q H) | learn (Hpl q H)]
  | H : ph _ = POpening ?q |- _ => first [learn (Hoc q H) | learn (Hol q H)]
  | H : fatel (reqs ?s) ?q = Some ?f |- _ => learn (Hfate q f H)
  | H1 : fatel (reqs ?s) ?q = Some ?f, H2 : calll (reqs ?s) ?q = Some ?c |- _ => learn (Hcall q f c H1 H2)
  | H : In (S ?q) (opens _) |- _ => learn (Hr q H)
  | H : fatel ?l ?q = Some _ |- _ => learn (fatel_lt l q _ H)
  | H : calll ?l ?q = Some _ |- _ => learn (calll_lt l q _ H)
  end.

Ltac split_vars :=
  repeat match goal with
         | f : fate |- _ => destruct f
         | c : option res |- _ => destruct c
         | r : res |- _ => destruct r
         end.

Lemma G3_step s a s' : G2 s -> G3 s -> step s a = Some s' -> G3 s'.
Proof.
  intros HG2 HG3 Hs.
  step_cases Hs;
    pose proof (fun q => pend_staged s q HG2 HG3) as Hps;
    pose proof (fun q => opening_claimed s q HG2 HG3) as Hoc;
    destruct HG2 as (_ & _ & _ & Hcl & Hpl & Hol & _); destruct HG3 as [Hi Hc Hfate Hcall Hr Ha Ht Hco];
    constructor; fsimpl; intros;
    rewrite ?fate_of_fatel, ?call_of_calll, ?okflag_okl in *; req_rw; cbn [length plus rok rfate rcall In hd] in *;
    eqb_cases; inv_eqs; inst Hfate Hcall Hps Hoc Hr Hpl Hol; split_vars; inv_eqs;
    cbn [fate_ok call_ok In hd] in *; fsimpl; rewrite ?okflag_okl in *; req_rw; eqb_cases;
    try tauto; try congruence; try lia; eauto;
    try (timeout 30 (intuition (inv_eqs; try congruence; try lia)); fail).
  all: try (match goal with H : ph _ = PInit |- _ => destruct (Hi H) as (Ho1 & Ho2 & Ho3); rewrite ?Ho1, ?Ho2, ?Ho3 in * end).
  all: cbn [In] in *; repeat match goal with H : _ /\ _ |- _ => destruct H end.
  all: try (assert (Hnop : ph s <> POpening (length (reqs s)))
              by (intro Hx; destruct (Hol _ Hx) as (_ & ? & _); lia)).
  all: try (repeat split; try intro; inv_eqs;
            repeat match goal with H : _ \/ _ |- _ => destruct H end; inv_eqs;
            try (match goal with H : In (S ?q) (opens _) |- _ => pose proof (Hr q H) end);
            try (match goal with H : In _ (tears _) |- _ => pose proof (Ht _ H) end);
            try (match goal with H : In (S _) (applied _) |- _ => destruct (Ha _ H) as (? & ? & ?); inv_eqs end);
            try congruence; try lia; try tauto; auto;
            try (match goal with |- In _ (opens _) => first [apply Ht; assumption | apply Hco; congruence] end); fail).
  all: try (match goal with
            | H : In ?g (applied _) |- exists _, _ =>
                destruct (Ha g H) as (qq & -> & Hin); exists qq; split; [reflexivity|cbn [In]; auto]
            | H : _ = ?g \/ In ?g (applied _) |- exists _, _ =>
                destruct H as [<-|H];
                [eexists; split; [reflexivity|cbn [In]; auto]
                |destruct (Ha _ H) as (qq & -> & Hin); exists qq; split; [reflexivity|cbn [In]; auto]]
            end; fail).
  all: match goal with H : cur _ = ?g \/ In ?g (tears _) |- In ?g (opens _) =>
         destruct H as [<-|H]; [apply Hco; congruence|apply Ht; exact H] end.
Qed.

Lemma G23_reach s : reach s -> G2 s /\ G3 s.
Proof.
  revert s. apply (inv_reach (fun s => G2 s /\ G3 s)); [split; [exact G2_init|exact G3_init]|].
  intros s0 a s1 [H2 H3] Hs. split; [eapply G2_step; eauto|eapply G3_step; eauto].
Qed.
Lemma G3_reach s : reach s -> G3 s.
Proof. intros H. apply G23_reach. exact H. Qed.
