(* C13, service side of a live reconfiguration: the bookkeeping of processor.Instance.running
   ("a live node holds this instance") over whole operation histories.

   Modelled code (pkg/processor/service.go, pkg/processor/runnable_processor.go,
   pkg/lifecycle/reconfigure.go, pkg/lifecycle/service.go buildProcessorNodes, stream.ProcessorNode):
     MakeRunnableProcessor             CompareAndSwap(false,true); every build failure Store(false)
     MakeRunnableProcessorForReconfigure   builds, never touches the flag
     build = resolveEgressPolicy ; registry.NewProcessor ; newProcessorCondition   (in this order)
     RunnableProcessor.Teardown        Store(false)          (node end = pipeline stop, failed first Open)
     RunnableProcessor.TeardownForReconfigure   leaves the flag (old runnable after a swap, new one after a failed Open)
     Service.Update / Delete           refuse with ErrProcessorRunning iff the flag is set
     lifecycle.ReconfigureProcessor    running pipeline -> node -> Get -> ForReconfigure -> node.Reconfigure
   One instance; a chain is judged instance by instance (an operation on another instance is no
   operation of this one).  The node-level hand-off itself is coq/Swap/Swap.v. *)
From Coq Require Import List Bool Arith Lia.
Import ListNotations.

(* why a runnable cannot be BUILT *)
Inductive bfail := BPlugin (* the registry cannot dispense the plugin *)
                 | BEgress (* malformed sdk.egress.* setting *)
                 | BCond.  (* invalid condition template *)

(* scripted outcome of a live reconfiguration *)
Inductive rout := OOk | OOpenFail | OBuildFail (k : bfail).

Inductive fop :=
| FStart (o : option bfail)   (* lifecycle.Start; Some k: this instance's runnable cannot be built *)
| FStartSkip                  (* a Start that failed before it reached this instance *)
| FReconf (o : rout)          (* UpdateWhileRunning + lifecycle.ReconfigureProcessor (+ the caller's roll back) *)
| FStop                       (* StopAndWait *)
| FUpdate | FDelete           (* ordinary API calls: the guards *)
| FMake                       (* MakeRunnableProcessor for a fresh start; a runnable handed out is torn down at once *)
| FEmit.                      (* one record flows through the pipeline *)

Inductive fobs :=
| RNil                   (* nil *)
| RGen (g : nat)         (* nil, and runnable number g (per instance, in dispense order) is now in the node *)
| RErr                   (* an error other than the ones below *)
| RRunning               (* ErrProcessorRunning *)
| RNotLive               (* the pipeline has no live run *)
| RGone                  (* ErrInstanceNotFound *)
| RStamp (g : option nat). (* the record reached the destination stamped by runnable g / no live run *)

Record fstate := mkF {
  flag : bool;          (* Instance.running *)
  node : option nat;    (* the runnable the live ProcessorNode holds; None: no live node *)
  nbuilt : nat;         (* plugins dispensed for this instance so far *)
  there : bool          (* the instance exists *)
}.

Definition finit : fstate := mkF false None 0 true.

(* does a failing build get as far as dispensing a plugin? *)
Definition dispensed (k : bfail) : nat := match k with BCond => 1 | _ => 0 end.

Definition fnone {A} (o : option A) : bool := match o with None => true | Some _ => false end.

Definition fstep (s : fstate) (op : fop) : fstate * fobs :=
  match op with
  | FStart o =>
      if negb (fnone (node s)) then (s, RErr)                 (* ErrPipelineRunning *)
      else if negb (there s) then (s, RErr)                     (* processors.Get fails *)
      else if flag s then (s, RRunning)                         (* the CompareAndSwap fails *)
      else match o with
           | None => (mkF true (Some (nbuilt s)) (S (nbuilt s)) true, RGen (nbuilt s))
           | Some k => (mkF false None (dispensed k + nbuilt s) true, RErr)   (* reserved, then released *)
           end
  | FStartSkip => (s, RErr)
  | FReconf o =>
      match node s with
      | None => (s, RNotLive)
      | Some g0 =>
          if negb (there s) then (s, RErr)
          else match o with
               | OOk => (mkF (flag s) (Some (nbuilt s)) (S (nbuilt s)) true, RGen (nbuilt s))
               | OOpenFail => (mkF (flag s) (Some g0) (S (nbuilt s)) true, RErr)
               | OBuildFail k => (mkF (flag s) (Some g0) (dispensed k + nbuilt s) true, RErr)
               end
      end
  | FStop =>
      match node s with
      | None => (s, RNotLive)
      | Some _ => (mkF false None (nbuilt s) (there s), RNil)
      end
  | FUpdate =>
      if negb (there s) then (s, RGone) else if flag s then (s, RRunning) else (s, RNil)
  | FDelete =>
      if negb (there s) then (s, RGone) else if flag s then (s, RRunning)
      else (mkF (flag s) (node s) (nbuilt s) false, RNil)
  | FMake =>
      if negb (there s) then (s, RGone) else if flag s then (s, RRunning)
      else (mkF false (node s) (S (nbuilt s)) true, RNil)      (* reserved, built, torn down: released *)
  | FEmit => (s, RStamp (node s))
  end.

Fixpoint frun_from (s : fstate) (ops : list fop) : fstate * list fobs :=
  match ops with
  | [] => (s, [])
  | op :: r => let '(s1, o) := fstep s op in let '(s2, os) := frun_from s1 r in (s2, o :: os)
  end.

Definition frun (ops : list fop) : list fobs := snd (frun_from finit ops).
Definition fend (ops : list fop) : fstate := fst (frun_from finit ops).

(* ---------- the property on what was observed ----------
   The monitor knows nothing of the flag: it follows which runnable is LIVE from the answers of
   Start / ReconfigureProcessor / StopAndWait alone and demands
     - a reconfiguration scripted to fail answers an error and changes nothing;
       one scripted to work answers nil with a NEW runnable in the node;
     - Update, Delete and MakeRunnableProcessor are refused with ErrProcessorRunning exactly
       while a run is live (also after any number of failed and successful reconfigurations),
       and accepted again after the stop;
     - a start that can work (no live run, instance there, buildable) works - no leaked flag;
     - every record is stamped by the live runnable. *)
Definition mstate := (option nat * bool)%type.   (* live runnable, instance deleted *)

Definition onat_eqb (a b : option nat) : bool :=
  match a, b with Some x, Some y => Nat.eqb x y | None, None => true | _, _ => false end.

Definition guard_ok (m : mstate) (r : fobs) : bool :=
  let '(live, gone) := m in
  match r with
  | RRunning => negb (fnone live) && negb gone
  | RNil => fnone live && negb gone
  | RGone => fnone live && gone
  | _ => false
  end.

Definition fmstep (m : mstate) (op : fop) (r : fobs) : option mstate :=
  let '(live, gone) := m in
  match op, r with
  | FStart None, RGen g => if fnone live && negb gone then Some (Some g, gone) else None
  | FStart None, RErr => if fnone live && negb gone then None else Some m
  | FStart (Some _), RErr => Some m
  | FStartSkip, RErr => Some m
  | FReconf _, RNotLive => if fnone live then Some m else None
  | FReconf OOk, RGen g =>
      match live with Some g0 => if Nat.eqb g g0 || gone then None else Some (Some g, gone) | None => None end
  | FReconf OOk, RErr => None
  | FReconf _, RErr => if fnone live || gone then None else Some m
  | FStop, RNil => if fnone live then None else Some (None, gone)
  | FStop, RNotLive => if fnone live then Some m else None
  | FUpdate, _ => if guard_ok m r then Some m else None
  | FMake, _ => if guard_ok m r then Some m else None
  | FDelete, RNil => if guard_ok m r then Some (live, true) else None
  | FDelete, _ => if guard_ok m r then Some m else None
  | FEmit, RStamp x => if onat_eqb x live then Some m else None
  | _, _ => None
  end.

Fixpoint fmon_from (m : mstate) (ops : list fop) (obs : list fobs) : bool :=
  match ops, obs with
  | [], [] => true
  | op :: ops', r :: obs' =>
      match fmstep m op r with Some m' => fmon_from m' ops' obs' | None => false end
  | _, _ => false
  end.

Definition fmon (ops : list fop) (obs : list fobs) : bool := fmon_from (None, false) ops obs.

Definition fobs_eqb (a b : fobs) : bool :=
  match a, b with
  | RNil, RNil | RErr, RErr | RRunning, RRunning | RNotLive, RNotLive | RGone, RGone => true
  | RGen g, RGen g' => Nat.eqb g g'
  | RStamp x, RStamp y => onat_eqb x y
  | _, _ => false
  end.
