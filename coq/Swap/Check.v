(* Executable correspondence + monitor for the C13 cases written by harness/cmd/c13. *)
From Verif Require Import Base.CaseCheck Swap.Swap Swap.Flag.

Definition res_eqb (a b : res) : bool :=
  match a, b with
  | ROk, ROk | RErrOpen, RErrOpen | RBusy, RBusy | RCancelled, RCancelled => true
  | _, _ => false
  end.
Definition ores_eqb (a b : option res) : bool :=
  match a, b with Some x, Some y => res_eqb x y | None, None => true | _, _ => false end.
Definition rr_eqb (a b : bool * option res) : bool := Bool.eqb (fst a) (fst b) && ores_eqb (snd a) (snd b).

Definition nev_eqb (a b : nev) : bool :=
  match a, b with
  | NOpen g o, NOpen g' o' => Nat.eqb g g' && Bool.eqb o o'
  | NTear g r, NTear g' r' => Nat.eqb g g' && Bool.eqb r r'
  | NProc r g, NProc r' g' => Nat.eqb r r' && Nat.eqb g g'
  | NOut r g, NOut r' g' => Nat.eqb r r' && Nat.eqb g g'
  | NNack r, NNack r' => Nat.eqb r r'
  | _, _ => false
  end.

Fixpoint is_prefix {A} (eqb : A -> A -> bool) (p l : list A) : bool :=
  match p, l with
  | [], _ => true
  | a :: p', b :: l' => eqb a b && is_prefix eqb p' l'
  | _ :: _, [] => false
  end.

Definition outs_of (chron : list nev) : list nat :=
  flat_map (fun e => match e with NOut r _ => [r] | _ => [] end) chron.

(* the safety part of the property, on what was observed (events in chronological order) *)
Definition mon_safe (chron : list nev) (results : list (bool * option res)) (acks : list nat) : bool :=
  match mrun (rev chron) with
  | None => false
  | Some _ => res_ok_from (rev chron) 0 results && list_eqb Nat.eqb acks (outs_of chron)
  end.

(* plus what the harness can only see at the end of a run:
   every record the node took was handed on (or nacked on a kill), every call got an answer,
   positions untouched, nothing hung, and a node that was closed has ended *)
Definition mon (chron : list nev) (results : list (bool * option res)) (acks : list nat)
    (taken : nat) (posok hung must_end : bool) : bool :=
  mon_safe chron results acks && posok && negb hung &&
  forallb (fun p => negb (isnone (snd p))) results &&
  match mrun (rev chron) with
  | Some m => Nat.eqb (mnext m) taken && isnone (mfl m) && (if must_end then mended m else true)
  | None => false
  end.

(* a result the model has already determined must be the observed one *)
Fixpoint res_compat (model obs : list (bool * option res)) : bool :=
  match model, obs with
  | [], _ => true
  | (ok, None) :: m, (ok', _) :: o => Bool.eqb ok ok' && res_compat m o
  | (ok, Some r) :: m, (ok', Some r') :: o => Bool.eqb ok ok' && res_eqb r r' && res_compat m o
  | _, _ => false
  end.

Inductive scase :=
(* lock-step schedule: env actions, observed node calls, results, acks (record ids), records taken by the node *)
| SLock (es : list env) (chron : list nev) (results : list (bool * option res)) (acks : list nat)
        (taken : nat) (posok hung : bool)
(* free running: concurrent requesters, records flowing; only the monitor decides *)
| SRace (chron : list nev) (results : list (bool * option res)) (acks : list nat)
        (taken : nat) (posok hung must_end : bool)
(* service level, a chain of processors: one projection (calls, results, acks, records taken) per
   processor node; posok: every record reached the destination once, in order, with exactly one stamp
   per processor of the chain in chain order, and the running flags are right *)
| SChain (per : list (list nev * list (bool * option res) * list nat * nat)) (posok hung : bool)
(* service side, operation histories (coq/Swap/Flag.v): per processor instance of the pipeline the
   operations that concern it and what the real processor.Service / lifecycle.Service answered *)
| SFlag (per : list (list fop * list fobs)) (hung : bool)
(* engine v2: ReconfigureProcessor is the constant "not live-reconfigurable" answer *)
| SV2 (sentinel unchanged : bool).

Definition chk (c : scase) : nat :=
  match c with
  | SLock es chron results acks taken posok hung =>
      let s := run_env es in
      if killed s then
        (* the model predicts the run up to the kill; after it only the monitor speaks *)
        code (is_prefix nev_eqb (rev (evs s)) chron && res_compat (map ret_of (reqs s)) results)
             (mon chron results acks taken posok hung false)
      else
        code (list_eqb nev_eqb (rev (evs s)) chron && list_eqb rr_eqb (map ret_of (reqs s)) results
              && list_eqb Nat.eqb (rev (map fst (out s))) acks)
             (mon chron results acks taken posok hung true)
  | SRace chron results acks taken posok hung must_end =>
      code true (mon chron results acks taken posok hung must_end)
  | SChain per posok hung =>
      code true (forallb (fun p => match p with (chron, results, acks, taken) =>
                                     mon chron results acks taken posok hung true end) per
                 && posok && negb hung)
  | SFlag per hung =>
      code (forallb (fun p => list_eqb fobs_eqb (frun (fst p)) (snd p)) per)
           (forallb (fun p => fmon (fst p) (snd p)) per && negb hung)
  | SV2 sentinel unchanged => code (sentinel && unchanged) (sentinel && unchanged)
  end.
