(* The monitor used on observed runs accepts every behaviour of the model. *)
From Verif Require Import Base.CaseCheck Swap.Swap Swap.SwapProofs Swap.SwapThms Swap.Check.

Lemma outs_of_app a b : outs_of (a ++ b) = outs_of a ++ outs_of b.
Proof. unfold outs_of. apply flat_map_app. Qed.

Lemma outs_inv s : reach s -> outs_of (rev (evs s)) = rev (map fst (out s)).
Proof.
  revert s. apply (inv_reach (fun s => outs_of (rev (evs s)) = rev (map fst (out s)))); [reflexivity|].
  intros s a s' IH Hs. step_cases Hs; fsimpl; cbn [rev map fst]; rewrite ?outs_of_app, ?IH; cbn [outs_of flat_map app];
    rewrite ?app_nil_r; try reflexivity.
Qed.

Lemma list_eqb_nat_refl l : list_eqb Nat.eqb l l = true.
Proof. induction l as [|a l IH]; simpl; [reflexivity|]. rewrite Nat.eqb_refl, IH. reflexivity. Qed.

Theorem mon_safe_model : forall l s, run init l = Some s ->
  mon_safe (rev (evs s)) (map ret_of (reqs s)) (rev (map fst (out s))) = true.
Proof.
  intros l s Hr. destruct (model_satisfies_monitor l s Hr) as [Hm Hres].
  unfold mon_safe. rewrite rev_involutive. destruct (mrun (evs s)); [|congruence].
  rewrite Hres. rewrite (outs_inv s (reach_of_run _ _ Hr)). rewrite list_eqb_nat_refl. reflexivity.
Qed.
