(* Model of the live processor swap of the v1 engine (property C13).

   Code modelled: pkg/lifecycle/stream/processor.go
     ProcessorNode.Run            the run loop, one goroutine:
                                    Open initial processor;
                                    for { applyPendingSwap; select{ctx.Done, wake, in}; Process; forward }
                                    deferred plain Teardown of the current processor
     ProcessorNode.Reconfigure    API goroutine(s): stage under swapMu unless one is pending
                                    (else "already in progress"); nudge wakeCh; wait done | ctx.Done
                                    (withdraw under swapMu iff still pending with this done channel)
     ProcessorNode.applyPendingSwap  claim pending under swapMu; Open(new);
                                    fail: teardownForReconfigure(new), done <- err, old kept
                                    ok:   Processor := new, teardownForReconfigure(old), done <- nil
   and pkg/processor/runnable_processor.go Teardown / TeardownForReconfigure (Instance.running).

   The system is an interleaving transition system.  Atomicity of every action is justified by
     swapMu            (AReq staging, ACancel withdrawal, LApply claim: each one critical section)
     single ownership  (only the Run goroutine touches Processor: LApply..LOpened, LRecv..LSend)
     channel hand-off  (done is buffered(1): LOpened never blocks; AReturn/ACancel is the caller's select)
   A record is identified by its arrival index; the processor that a request q would install has
   generation S q (the initial processor has generation 0); the fake processors of the harness stamp
   exactly this number into the record.  Definitions only; proofs are in SwapProofs.v. *)
From Coq Require Export List Arith Bool Lia.
Export ListNotations.

Inductive res := ROk | RErrOpen | RBusy | RCancelled.

(* what the node did with a Reconfigure request *)
Inductive fate :=
| FStaged              (* sits in n.pending *)
| FWithdrawn           (* removed from n.pending by its caller after ctx was cancelled *)
| FRefused             (* never staged: another request was pending *)
| FClaimed             (* taken by applyPendingSwap, Open of the new processor in progress *)
| FApplied             (* new processor switched in, old one torn down, done <- nil *)
| FFailed.             (* Open failed, new one torn down, old kept, done <- err *)

(* one Reconfigure call: can the new processor be opened, what happened to the request in the
   node, and what the call returned (None: the caller is still blocked in its final select) *)
Record req := mkreq { rok : bool; rfate : fate; rcall : option res }.

Inductive phase :=
| PInit                          (* Run not yet at Open *)
| PTop                           (* top of the loop, before applyPendingSwap *)
| POpening (q : nat)             (* inside applyPendingSwap: Open of generation S q running *)
| PSelect                        (* blocked in select{ctx.Done, wake, in} *)
| PProc (r g : nat)              (* Process(record r) running on generation g *)
| PFwd (r g : nat)               (* result of r being sent downstream *)
| PEnd.                          (* Run returned (deferred Teardown done) *)

(* observable calls made by the Run goroutine, in its program order *)
Inductive nev :=
| NOpen (g : nat) (ok : bool)        (* Processor.Open of generation g entered; ok = what it will return *)
| NTear (g : nat) (reconf : bool)    (* Teardown (reconf=false) / TeardownForReconfigure (true) of g *)
| NProc (r g : nat)                  (* generation g's Process called with record r *)
| NOut (r g : nat)                   (* record r, stamped g, handed to the next node *)
| NNack (r : nat).                   (* record r nacked because ctx was cancelled while forwarding *)

Record st := mk {
  ph : phase;
  cur : nat;                       (* generation of n.Processor *)
  pend : option nat;               (* n.pending (request id) *)
  wake : bool;                     (* token in wakeCh *)
  inq : list nat;                  (* records offered on the inbound channel, oldest first *)
  nextr : nat;                     (* number of records that arrived so far *)
  reqs : list req;                 (* the Reconfigure calls, in the order they took swapMu *)
  closed : bool;                   (* upstream closed the inbound channel (graceful stop) *)
  killed : bool;                   (* node context cancelled (error elsewhere / force stop) *)
  evs : list nev;                  (* newest first *)
  (* ghost projections used by the theorems *)
  out : list (nat * nat);          (* (record, generation stamp), newest first *)
  nack : list nat;                 (* records nacked on abort *)
  applied : list nat;              (* generations switched in, newest first *)
  opens : list nat;                (* generations whose Open was called *)
  tears : list nat;                (* generations torn down *)
  runflag : bool                   (* processor.Instance.running *)
}.

Definition init : st :=
  mk PInit 0 None false [] 0 [] false false [] [] [] [] [] [] true.

Inductive act :=
(* environment *)
| AArrive | AClose | AKill
(* API goroutines *)
| AReq (ok : bool) | ACancel (q : nat) | AReturn (q : nat)
(* Run goroutine *)
| LStart (ok : bool) | LApply | LOpened | LWake | LRecv | LProcDone | LSend | LQuit | LAbort.

Fixpoint upd {A} (n : nat) (f : A -> A) (l : list A) : list A :=
  match l, n with
  | [], _ => []
  | x :: r, 0 => f x :: r
  | x :: r, S n' => x :: upd n' f r
  end.

Definition fate_of (s : st) (q : nat) : option fate := option_map rfate (nth_error (reqs s) q).
Definition call_of (s : st) (q : nat) : option (option res) := option_map rcall (nth_error (reqs s) q).
Definition okflag (s : st) (q : nat) : bool :=
  match nth_error (reqs s) q with Some r => rok r | None => false end.

Definition set_fate (q : nat) (f : fate) (l : list req) := upd q (fun r => mkreq (rok r) f (rcall r)) l.
Definition set_call (q : nat) (c : res) (l : list req) := upd q (fun r => mkreq (rok r) (rfate r) (Some c)) l.

Definition opt_eqb (a : option nat) (q : nat) : bool :=
  match a with Some x => Nat.eqb x q | None => false end.

(* record update helpers (one per group of fields an action touches) *)
Definition w_env (s : st) inq' nextr' closed' killed' :=
  mk (ph s) (cur s) (pend s) (wake s) inq' nextr' (reqs s) closed' killed' (evs s)
     (out s) (nack s) (applied s) (opens s) (tears s) (runflag s).
Definition w_api (s : st) pend' wake' reqs' :=
  mk (ph s) (cur s) pend' wake' (inq s) (nextr s) reqs' (closed s) (killed s) (evs s)
     (out s) (nack s) (applied s) (opens s) (tears s) (runflag s).

Definition step (s : st) (a : act) : option st :=
  match a with
  | AArrive =>
      if closed s then None
      else Some (w_env s (inq s ++ [nextr s]) (S (nextr s)) (closed s) (killed s))
  | AClose => Some (w_env s (inq s) (nextr s) true (killed s))
  | AKill => Some (w_env s (inq s) (nextr s) (closed s) true)
  | AReq ok =>
      match pend s with
      | Some _ => Some (w_api s (pend s) (wake s) (reqs s ++ [mkreq ok FRefused (Some RBusy)]))
      | None => Some (w_api s (Some (length (reqs s))) true (reqs s ++ [mkreq ok FStaged None]))
      end
  | ACancel q =>
      (* ctx.Done wins the caller's select; the request is withdrawn iff it is still staged *)
      match call_of s q, fate_of s q with
      | Some None, Some FStaged =>
          Some (w_api s None (wake s) (set_call q RCancelled (set_fate q FWithdrawn (reqs s))))
      | Some None, Some _ => Some (w_api s (pend s) (wake s) (set_call q RCancelled (reqs s)))
      | _, _ => None
      end
  | AReturn q =>
      (* the caller takes the outcome out of the buffered done channel *)
      match call_of s q, fate_of s q with
      | Some None, Some FApplied => Some (w_api s (pend s) (wake s) (set_call q ROk (reqs s)))
      | Some None, Some FFailed => Some (w_api s (pend s) (wake s) (set_call q RErrOpen (reqs s)))
      | _, _ => None
      end
  | LStart ok =>
      match ph s with
      | PInit =>
          if ok then
            Some (mk PTop 0 (pend s) (wake s) (inq s) (nextr s) (reqs s) (closed s) (killed s)
                     (NOpen 0 true :: evs s) (out s) (nack s) [] [0] [] true)
          else
            Some (mk PEnd 0 (pend s) (wake s) (inq s) (nextr s) (reqs s) (closed s) (killed s)
                     (NTear 0 false :: NOpen 0 false :: evs s) (out s) (nack s) [] [0] [0] false)
      | _ => None
      end
  | LApply =>
      match ph s with
      | PTop =>
          match pend s with
          | None =>
              Some (mk PSelect (cur s) None (wake s) (inq s) (nextr s) (reqs s) (closed s) (killed s)
                       (evs s) (out s) (nack s) (applied s) (opens s) (tears s) (runflag s))
          | Some q =>
              Some (mk (POpening q) (cur s) None (wake s) (inq s) (nextr s) (set_fate q FClaimed (reqs s))
                       (closed s) (killed s) (NOpen (S q) (okflag s q) :: evs s)
                       (out s) (nack s) (applied s) (S q :: opens s) (tears s) (runflag s))
          end
      | _ => None
      end
  | LOpened =>
      match ph s with
      | POpening q =>
          if okflag s q then
            Some (mk PSelect (S q) (pend s) (wake s) (inq s) (nextr s) (set_fate q FApplied (reqs s))
                     (closed s) (killed s) (NTear (cur s) true :: evs s)
                     (out s) (nack s) (S q :: applied s) (opens s) (cur s :: tears s) (runflag s))
          else
            Some (mk PSelect (cur s) (pend s) (wake s) (inq s) (nextr s) (set_fate q FFailed (reqs s))
                     (closed s) (killed s) (NTear (S q) true :: evs s)
                     (out s) (nack s) (applied s) (opens s) (S q :: tears s) (runflag s))
      | _ => None
      end
  | LWake =>
      match ph s with
      | PSelect =>
          if wake s then
            Some (mk PTop (cur s) (pend s) false (inq s) (nextr s) (reqs s) (closed s) (killed s)
                     (evs s) (out s) (nack s) (applied s) (opens s) (tears s) (runflag s))
          else None
      | _ => None
      end
  | LRecv =>
      match ph s, inq s with
      | PSelect, r :: rest =>
          Some (mk (PProc r (cur s)) (cur s) (pend s) (wake s) rest (nextr s) (reqs s) (closed s)
                   (killed s) (NProc r (cur s) :: evs s)
                   (out s) (nack s) (applied s) (opens s) (tears s) (runflag s))
      | _, _ => None
      end
  | LProcDone =>
      match ph s with
      | PProc r g =>
          Some (mk (PFwd r g) (cur s) (pend s) (wake s) (inq s) (nextr s) (reqs s) (closed s)
                   (killed s) (evs s) (out s) (nack s) (applied s) (opens s) (tears s) (runflag s))
      | _ => None
      end
  | LSend =>
      match ph s with
      | PFwd r g =>
          Some (mk PTop (cur s) (pend s) (wake s) (inq s) (nextr s) (reqs s) (closed s)
                   (killed s) (NOut r g :: evs s)
                   ((r, g) :: out s) (nack s) (applied s) (opens s) (tears s) (runflag s))
      | _ => None
      end
  | LQuit =>
      match ph s with
      | PSelect =>
          if killed s || (closed s && match inq s with [] => true | _ => false end) then
            Some (mk PEnd (cur s) (pend s) (wake s) (inq s) (nextr s) (reqs s) (closed s)
                     (killed s) (NTear (cur s) false :: evs s)
                     (out s) (nack s) (applied s) (opens s) (cur s :: tears s) false)
          else None
      | _ => None
      end
  | LAbort =>
      match ph s with
      | PFwd r g =>
          if killed s then
            Some (mk PEnd (cur s) (pend s) (wake s) (inq s) (nextr s) (reqs s) (closed s)
                     (killed s) (NTear (cur s) false :: NNack r :: evs s)
                     (out s) (r :: nack s) (applied s) (opens s) (cur s :: tears s) false)
          else None
      | _ => None
      end
  end.

Fixpoint run (s : st) (l : list act) : option st :=
  match l with
  | [] => Some s
  | a :: r => match step s a with Some s' => run s' r | None => None end
  end.

Definition flight (p : phase) : list nat :=
  match p with PProc r _ | PFwd r _ => [r] | _ => [] end.

(* ---------------------------------------------------------------------------------------------
   The property monitor: an automaton over the calls of the Run goroutine (chronological).
   It states C13 on the observed behaviour:
     - records are processed in arrival order, each exactly once, none skipped (mnext);
     - a record is processed by the generation that is current (mcur), the current generation
       changes only by a successful Open of a fresh, larger generation, at a record boundary
       (no record in flight inside the node: mfl = None);
     - a failed Open leaves the current generation and is followed by the teardown of the new one;
       a successful one is followed by the (reconfigure-)teardown of the old one;
     - what leaves the node is the in-flight record with the stamp of the generation that processed it;
     - the final teardown is the plain one, of the current generation, exactly once.              *)
Record mst := mkm {
  mcur : nat; mnext : nat; mfl : option (nat * nat); mdue : option (nat * bool);
  mopens : list nat; mstarted : bool; mended : bool }.

Definition m0 : mst := mkm 0 0 None None [] false false.

Definition oeqb (a : option (nat * nat)) (r g : nat) : bool :=
  match a with Some (r', g') => Nat.eqb r r' && Nat.eqb g g' | None => false end.
Definition isnone {A} (a : option A) : bool := match a with None => true | _ => false end.
Fixpoint memb (x : nat) (l : list nat) : bool :=
  match l with [] => false | y :: r => Nat.eqb x y || memb x r end.

Definition mstep (m : mst) (e : nev) : option mst :=
  if mended m then None else
  match e with
  | NOpen g ok =>
      if negb (mstarted m) then
        if Nat.eqb g 0 then
          Some (mkm 0 (mnext m) None (if ok then None else Some (0, false)) [0] true false)
        else None
      else if isnone (mfl m) && isnone (mdue m) && negb (memb g (mopens m)) && Nat.ltb (mcur m) g then
        if ok then Some (mkm g (mnext m) None (Some (mcur m, true)) (g :: mopens m) true false)
        else Some (mkm (mcur m) (mnext m) None (Some (g, true)) (g :: mopens m) true false)
      else None
  | NTear g reconf =>
      match mdue m with
      | Some (g', rc) =>
          if Nat.eqb g g' && Bool.eqb reconf rc then
            Some (mkm (mcur m) (mnext m) (mfl m) None (mopens m) true (negb rc))
          else None
      | None =>
          if mstarted m && isnone (mfl m) && Nat.eqb g (mcur m) && negb reconf then
            Some (mkm (mcur m) (mnext m) None None (mopens m) true true)
          else None
      end
  | NProc r g =>
      if mstarted m && isnone (mfl m) && isnone (mdue m) && Nat.eqb r (mnext m) && Nat.eqb g (mcur m) then
        Some (mkm (mcur m) (S r) (Some (r, g)) None (mopens m) true false)
      else None
  | NOut r g =>
      if oeqb (mfl m) r g && isnone (mdue m) then
        Some (mkm (mcur m) (mnext m) None None (mopens m) true false)
      else None
  | NNack r =>
      match mfl m with
      | Some (r', _) =>
          if Nat.eqb r r' && isnone (mdue m) then
            Some (mkm (mcur m) (mnext m) None None (mopens m) true false)
          else None
      | None => None
      end
  end.

(* events newest first *)
Fixpoint mrun (evs : list nev) : option mst :=
  match evs with
  | [] => Some m0
  | e :: r => match mrun r with Some m => mstep m e | None => None end
  end.

(* outcome of the Reconfigure calls against the node's calls *)
Fixpoint opened_as (g : nat) (evs : list nev) : option bool :=
  match evs with
  | [] => None
  | NOpen g' ok :: r => if Nat.eqb g g' then Some ok else opened_as g r
  | _ :: r => opened_as g r
  end.

(* result r of request q (ok = whether its processor can be opened) is right for the node events *)
Definition res_ok1 (evs : list nev) (q : nat) (ok : bool) (r : res) : bool :=
  match opened_as (S q) evs, r with
  | None, RBusy => true                  (* refused: never touched *)
  | None, RCancelled => true             (* withdrawn: never touched *)
  | Some o, ROk => o && ok               (* reported success: it was opened successfully *)
  | Some o, RErrOpen => negb o && negb ok   (* the caller got the error of the failed Open *)
  | Some o, RCancelled => Bool.eqb o ok  (* caller gave up after the loop had claimed the request *)
  | _, _ => false
  end.

Fixpoint res_ok_from (evs : list nev) (q : nat) (l : list (bool * option res)) : bool :=
  match l with
  | [] => true
  | (ok, Some r) :: t => res_ok1 evs q ok r && res_ok_from evs (S q) t
  | (ok, None) :: t =>
      (* no answer yet: fine only while the request is still staged or being opened *)
      res_ok_from evs (S q) t
  end.

Definition ret_of (p : req) : bool * option res := (rok p, rcall p).

(* ---------------------------------------------------------------------------------------------
   Lock-step schedule used by the correspondence: the harness holds the gates of the fake
   processors (Open of a new generation, Process), the collector is always ready, and after
   every environment action the harness waits until the node is quiescent.  Under these gates
   the node is deterministic; [settle] runs the enabled engine steps.                          *)
Inductive env :=
| EArrive | EReq (ok : bool) | EOpenRel | EProcRel | ECancel (q : nat) | EClose | EKill.

Fixpoint first_done (l : list req) (q : nat) : option nat :=
  match l with
  | [] => None
  | r :: t =>
      match rcall r, rfate r with
      | None, FApplied | None, FFailed => Some q
      | _, _ => first_done t (S q)
      end
  end.

Definition next_auto (gates_open : bool) (s : st) : option act :=
  match first_done (reqs s) 0 with
  | Some q => Some (AReturn q)
  | None =>
      match ph s with
      | PInit => Some (LStart true)
      | PTop => Some LApply
      | POpening _ => if gates_open then Some LOpened else None
      | PSelect =>
          match pend s with
          | Some _ => if wake s then Some LWake else None
          | None =>
              match inq s with
              | _ :: _ => Some LRecv
              | [] => if closed s then Some LQuit else if wake s then Some LWake else None
              end
          end
      | PProc _ _ => if gates_open then Some LProcDone else None
      | PFwd _ _ => Some LSend
      | PEnd => None
      end
  end.

Fixpoint settle (gates_open : bool) (fuel : nat) (s : st) : st :=
  match fuel with
  | 0 => s
  | S f =>
      match next_auto gates_open s with
      | Some a => match step s a with Some s' => settle gates_open f s' | None => s end
      | None => s
      end
  end.

Definition fuel_of (s : st) : nat := 8 * (length (inq s) + length (reqs s) + 4).

Definition try (s : st) (a : act) : st := match step s a with Some s' => s' | None => s end.

(* Go's select picks at random among ready cases.  Under the gates the only place where that
   choice is observable is a request staged while another one is being opened, together with a
   record (or the closing of the input) offered at the same time.  The harness does not produce
   that combination (the same rule is applied on both sides); free-running cases cover it. *)
Definition opening (s : st) : bool := match ph s with POpening _ => true | _ => false end.
Definition nonempty {A} (l : list A) : bool := match l with [] => false | _ => true end.

Definition env_step (s : st) (e : env) : st :=
  if killed s then s else
  match e with
  | EArrive =>
      if opening s && negb (isnone (pend s)) then s else
      let s1 := try s AArrive in settle false (fuel_of s1) s1
  | EReq ok =>
      if opening s && (nonempty (inq s) || closed s) then s else
      let s1 := try s (AReq ok) in settle false (fuel_of s1) s1
  | EOpenRel =>
      match ph s with POpening _ => let s1 := try s LOpened in settle false (fuel_of s1) s1 | _ => s end
  | EProcRel =>
      match ph s with PProc _ _ => let s1 := try s LProcDone in settle false (fuel_of s1) s1 | _ => s end
  | ECancel q => let s1 := try s (ACancel q) in settle false (fuel_of s1) s1
  | EClose =>
      if opening s && negb (isnone (pend s)) then s else
      let s1 := try s AClose in settle false (fuel_of s1) s1
  | EKill => try s AKill
  end.

Fixpoint cancel_all (n : nat) (s : st) : st :=
  match n with
  | 0 => s
  | S k => try (cancel_all k s) (ACancel k)
  end.

(* end of a schedule without kill: open all gates and let the node work off what it has, then
   close the input, let the node finish, then cancel whatever call is still waiting *)
Definition finish (s : st) : st :=
  if killed s then s else
  let s1 := settle true (fuel_of s) s in
  let s2 := try s1 AClose in
  let s3 := settle true (fuel_of s2) s2 in
  cancel_all (length (reqs s3)) s3.

Definition run_env (l : list env) : st :=
  finish (fold_left env_step l (settle false 4 init)).
