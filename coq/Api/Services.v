(* C14 - the three services as functions on (memory, store), transcribed from
     pkg/pipeline/service.go   (Create Update UpdateDLQ AddConnector RemoveConnector AddProcessor RemoveProcessor Delete)
     pkg/connector/service.go  (Create Delete Update AddProcessor RemoveProcessor)
     pkg/processor/service.go  (Create Update Delete)
   with their ACTUAL order of in-memory mutation and store.Set and their error returns.
   Every store operation (db.Set; a delete is db.Set(key, nil); NewTransaction; Commit) takes one
   tick of a counter; with fault [Some n] the operation that takes tick n fails (0-based).
   The services never read the store while serving a call (Get/List are in-memory).

   Transactions (conduit-commons/database/inmemory): a transaction buffers the writes made through
   its context and Commit applies them, Discard drops them.  No other writer exists during one API
   call, so this is modelled as write-through with undo: NewTransaction saves the three store maps,
   writes go to the store maps, Commit forgets the saved copy, Discard restores it.
   Definitions only. *)
From Verif Require Export Api.Entities.

Inductive err :=
| ENotFound      (* pipeline/connector/processor ErrInstanceNotFound *)
| ERunning       (* pipeline.ErrPipelineRunning *)
| EImmutable     (* orchestrator.ErrImmutableProvisionedByConfig *)
| EHasConns      (* ErrPipelineHasConnectorsAttached *)
| EHasProcs      (* ErrPipelineHasProcessorsAttached / ErrConnectorHasProcessorsAttached *)
| EParent        (* ErrInvalidProcessorParentType *)
| EProcRunning   (* processor.ErrProcessorRunning *)
| EStore         (* the injected store failure *)
| EInvalid.      (* every other refusal (validation) *)

Inductive res (A : Type) := Ok (a : A) | Err (e : err).
Arguments Ok {A} a.
Arguments Err {A} e.

Definition stores : Type := (list (id * pipeline) * list (id * connector) * list (id * processor))%type.

Record exec := mkEx { st : state; saved : option stores; ctr : nat }.

Definition on_st (g : state -> state) (e : exec) : exec := mkEx (g (st e)) (saved e) (ctr e).

(* one store operation: does it fail, and the advanced counter *)
Definition tick (f : option nat) (e : exec) : bool * exec :=
  (match f with Some n => Nat.eqb n (ctr e) | None => false end, mkEx (st e) (saved e) (S (ctr e))).

(* ---------- pipeline.Service ---------- *)

Definition pl_create (f : option nat) (k : id) (name desc : nat) (pv : prov) (e : exec) : res pipeline * exec :=
  (* validatePipeline (the id is a fresh uuid: its checks cannot fail) *)
  if (name =? 0) || memb name (names (st e)) || long name || long desc then (Err EInvalid, e) else
  let pl := mkPl k name desc StUserStopped pv default_dlq [] [] (clock (st e)) in
  let (fail, e1) := tick f e in                     (* s.store.Set *)
  if fail then (Err EStore, e1) else
  (Ok pl, on_st (fun s => w_names (cons name) (w_pm (set k pl) (w_ps (set k pl) s))) e1).

Definition pl_update (f : option nat) (k : id) (name desc : nat) (e : exec) : res pipeline * exec :=
  match lookup k (pm (st e)) with
  | None => (Err ENotFound, e)
  | Some pl =>
    if name =? 0 then (Err EInvalid, e) else
    if memb name (names (st e)) && negb (p_name pl =? name) then (Err EInvalid, e) else
    let pl' := pl_with_cfg pl name desc in
    (* delete(instanceNames, old); pl.Config = cfg; instanceNames[new] = true -- before the Set *)
    let e0 := on_st (fun s => w_names (fun l => name :: remove_all (p_name pl) l) (w_pm (set k pl') s)) e in
    let (fail, e1) := tick f e0 in                  (* s.store.Set *)
    if fail then (Err EStore, e1) else
    (Ok pl', on_st (w_ps (set k pl')) e1)
  end.

Definition dlq_ok (d : dlq) : bool :=
  negb (d_plugin d =? 0) && (0 <=? d_size d)%Z && (0 <=? d_thr d)%Z
  && negb ((0 <? d_size d)%Z && (d_size d <=? d_thr d)%Z).

(* the shape shared by UpdateDLQ / AddConnector / RemoveConnector / AddProcessor / RemoveProcessor:
   Get, (check), assign the field in memory, store.Set, return *)
Definition pl_modify (f : option nat) (k : id) (g : pipeline -> option pipeline) (e : exec) : res pipeline * exec :=
  match lookup k (pm (st e)) with
  | None => (Err ENotFound, e)
  | Some pl =>
    match g pl with
    | None => (Err EInvalid, e)
    | Some pl' =>
      let e0 := on_st (w_pm (set k pl')) e in
      let (fail, e1) := tick f e0 in                (* s.store.Set *)
      if fail then (Err EStore, e1) else
      (Ok pl', on_st (w_ps (set k pl')) e1)
    end
  end.

Definition pl_update_dlq f k d := pl_modify f k (fun pl => if dlq_ok d then Some (pl_with_dlq pl d) else None).
Definition pl_add_conn f k c := pl_modify f k (fun pl => Some (pl_with_conns pl (p_conns pl ++ [c]))).
Definition pl_remove_conn f k c :=
  pl_modify f k (fun pl => if memb c (p_conns pl) then Some (pl_with_conns pl (remove_first c (p_conns pl))) else None).
Definition pl_add_proc f k r := pl_modify f k (fun pl => Some (pl_with_procs pl (p_procs pl ++ [r]))).
Definition pl_remove_proc f k r :=
  pl_modify f k (fun pl => if memb r (p_procs pl) then Some (pl_with_procs pl (remove_first r (p_procs pl))) else None).

Definition pl_delete (f : option nat) (k : id) (e : exec) : res unit * exec :=
  match lookup k (pm (st e)) with
  | None => (Err ENotFound, e)
  | Some pl =>
    let (fail, e1) := tick f e in                   (* s.store.Delete *)
    if fail then (Err EStore, e1) else
    (Ok tt, on_st (fun s => w_names (remove_all (p_name pl)) (w_pm (del k) (w_ps (del k) s))) e1)
  end.

(* ---------- connector.Service ---------- *)

Definition cn_create (f : option nat) (k : id) (t plugin : nat) (pid : id) (name settings : nat) (pv : prov)
           (e : exec) : res connector * exec :=
  if (name =? 0) || long name then (Err EInvalid, e) else    (* validateConnector *)
  if plugin =? 0 then (Err EInvalid, e) else                  (* "must provide a plugin" *)
  if negb ((t =? 1) || (t =? 2)) then (Err EInvalid, e) else  (* ErrInvalidConnectorType *)
  let c := mkCn k t name settings pid plugin [] 0 pv (clock (st e)) in
  let (fail, e1) := tick f e in                     (* s.store.Set *)
  if fail then (Err EStore, e1) else
  (Ok c, on_st (fun s => w_cm (set k c) (w_cs (set k c) s)) e1).

Definition cn_delete (f : option nat) (k : id) (e : exec) : res unit * exec :=
  match lookup k (cm (st e)) with
  | None => (Err ENotFound, e)
  | Some _ =>
    let (fail, e1) := tick f e in                   (* s.store.Delete *)
    if fail then (Err EStore, e1) else
    (Ok tt, on_st (fun s => w_cm (del k) (w_cs (del k) s)) e1)
  end.

Definition cn_modify (f : option nat) (k : id) (g : connector -> option connector) (e : exec) : res connector * exec :=
  match lookup k (cm (st e)) with
  | None => (Err ENotFound, e)
  | Some c =>
    match g c with
    | None => (Err EInvalid, e)
    | Some c' =>
      let e0 := on_st (w_cm (set k c')) e in        (* the fields are assigned first *)
      let (fail, e1) := tick f e0 in                (* s.store.Set *)
      if fail then (Err EStore, e1) else
      (Ok c', on_st (w_cs (set k c')) e1)
    end
  end.

Definition cn_update f k plugin name settings := cn_modify f k (fun c => Some (cn_with_cfg c plugin name settings)).
Definition cn_add_proc f k r := cn_modify f k (fun c => Some (cn_with_procs c (c_procs c ++ [r]))).
Definition cn_remove_proc f k r :=
  cn_modify f k (fun c => if memb r (c_procs c) then Some (cn_with_procs c (remove_first r (c_procs c))) else None).

(* ---------- processor.Service ---------- *)

Definition pr_create (f : option nat) (k : id) (plugin ptype : nat) (parent : id) (settings : nat) (workers : Z)
           (pv : prov) (cond : nat) (e : exec) : res processor * exec :=
  if (workers <? 0)%Z then (Err EInvalid, e) else
  let workers := if (workers =? 0)%Z then 1%Z else workers in
  if negb (proc_plugin_ok plugin) then (Err EInvalid, e) else   (* registry.NewProcessor *)
  let r := mkPr k plugin cond ptype parent settings workers pv (clock (st e)) in
  let (fail, e1) := tick f e in                     (* s.store.Set *)
  if fail then (Err EStore, e1) else
  (Ok r, on_st (fun s => w_rm (set k r) (w_rs (set k r) s)) e1).

Definition pr_update (f : option nat) (k : id) (plugin settings : nat) (workers : Z) (e : exec) : res processor * exec :=
  match lookup k (rm (st e)) with
  | None => (Err ENotFound, e)
  | Some r =>
    if memb k (prun (st e)) then (Err EProcRunning, e) else
    if plugin =? 0 then (Err EInvalid, e) else
    let r' := pr_with_cfg r plugin settings workers in
    let e0 := on_st (w_rm (set k r')) e in          (* the fields are assigned first *)
    let (fail, e1) := tick f e0 in                  (* s.store.Set *)
    if fail then (Err EStore, e1) else
    (Ok r', on_st (w_rs (set k r')) e1)
  end.

Definition pr_delete (f : option nat) (k : id) (e : exec) : res unit * exec :=
  match lookup k (rm (st e)) with
  | None => (Err ENotFound, e)
  | Some _ =>
    if memb k (prun (st e)) then (Err EProcRunning, e) else
    let (fail, e1) := tick f e in                   (* s.store.Delete *)
    if fail then (Err EStore, e1) else
    (Ok tt, on_st (fun s => w_rm (del k) (w_rs (del k) s)) e1)
  end.

(* ---------- database transactions ---------- *)
Definition get_stores (s : state) : stores := (ps s, cs s, rs s).
Definition put_stores (d : stores) (s : state) : state :=
  let '(a, b, c) := d in w_ps (fun _ => a) (w_cs (fun _ => b) (w_rs (fun _ => c) s)).

Definition new_txn (f : option nat) (e : exec) : bool * exec :=
  let (fail, e1) := tick f e in
  if fail then (false, e1) else (true, mkEx (st e1) (Some (get_stores (st e1))) (ctr e1)).
Definition commit (f : option nat) (e : exec) : bool * exec :=
  let (fail, e1) := tick f e in
  if fail then (false, e1) else (true, mkEx (st e1) None (ctr e1)).
Definition discard (e : exec) : exec :=
  match saved e with
  | Some d => mkEx (put_stores d (st e)) None (ctr e)
  | None => e
  end.
