(* C14 - which pipeline a resource belongs to, and which pipelines are guarded.  Shared by the
   theorems (Api/Guards.v) and the executable monitor (Api/Check.v). *)
From Verif Require Export Api.Entities.

(* resources of a running or config-provisioned pipeline must not be modified through the API *)
Definition guarded (p : pipeline) : bool := is_running p || negb (is_api (p_prov p)).

(* the pipeline a processor belongs to: its parent pipeline, or the pipeline of its parent connector *)
Definition owner_pr (s : state) (r : processor) : option id :=
  if r_ptype r =? 2 then Some (r_parent r)
  else if r_ptype r =? 1 then option_map c_pipeline (lookup (r_parent r) (cm s))
  else None.
