(* C14 - executable correspondence and property monitor for the case files of harness/cmd/c14.
   A case: the initial state the harness built through the services, the history (operation, optional
   fault index), and what the real orchestrator did: per call the outcome class, the in-memory
   view (List of the three services + the pipeline name set) and the reloaded view (fresh services
   Init'ed on the same DB).
     bit 0: the model's outcome / memory / store differ from the observation
     bit 1: the monitor (the property, stated on the observation alone) rejects it *)
From Verif Require Import Base.CaseCheck.
From Verif Require Export Api.Spec Api.Owner.

(* ---------- boolean equalities ---------- *)
Definition status_eqb (a b : status) : bool :=
  match a, b with
  | StRunning, StRunning | StSystemStopped, StSystemStopped | StUserStopped, StUserStopped
  | StDegraded, StDegraded | StRecovering, StRecovering => true
  | _, _ => false
  end.
Definition prov_eqb (a b : prov) : bool :=
  match a, b with ProvAPI, ProvAPI | ProvConfig, ProvConfig => true | _, _ => false end.
Definition dlq_eqb (a b : dlq) : bool :=
  (d_plugin a =? d_plugin b) && (d_settings a =? d_settings b) && (d_size a =? d_size b)%Z && (d_thr a =? d_thr b)%Z.
Definition ids_eqb := list_eqb Nat.eqb.
Definition pipeline_eqb (a b : pipeline) : bool :=
  (p_id a =? p_id b) && (p_name a =? p_name b) && (p_desc a =? p_desc b) && status_eqb (p_status a) (p_status b)
  && prov_eqb (p_prov a) (p_prov b) && dlq_eqb (p_dlq a) (p_dlq b) && ids_eqb (p_conns a) (p_conns b)
  && ids_eqb (p_procs a) (p_procs b) && (p_created a =? p_created b).
Definition connector_eqb (a b : connector) : bool :=
  (c_id a =? c_id b) && (c_type a =? c_type b) && (c_name a =? c_name b) && (c_settings a =? c_settings b)
  && (c_pipeline a =? c_pipeline b) && (c_plugin a =? c_plugin b) && ids_eqb (c_procs a) (c_procs b)
  && (c_state a =? c_state b) && prov_eqb (c_prov a) (c_prov b) && (c_created a =? c_created b).
Definition processor_eqb (a b : processor) : bool :=
  (r_id a =? r_id b) && (r_plugin a =? r_plugin b) && (r_cond a =? r_cond b) && (r_ptype a =? r_ptype b)
  && (r_parent a =? r_parent b) && (r_settings a =? r_settings b) && (r_workers a =? r_workers b)%Z
  && prov_eqb (r_prov a) (r_prov b) && (r_created a =? r_created b).
Definition err_eqb (a b : err) : bool :=
  match a, b with
  | ENotFound, ENotFound | ERunning, ERunning | EImmutable, EImmutable | EHasConns, EHasConns
  | EHasProcs, EHasProcs | EParent, EParent | EProcRunning, EProcRunning | EStore, EStore
  | EInvalid, EInvalid => true
  | _, _ => false
  end.
Definition outcome_eqb (a b : outcome) : bool :=
  match a, b with
  | OOk, OOk | OPanic, OPanic => true
  | OErr x, OErr y => err_eqb x y
  | _, _ => false
  end.

Definition opt_eqb {V} (eqb : V -> V -> bool) (a b : option V) : bool :=
  match a, b with Some x, Some y => eqb x y | None, None => true | _, _ => false end.

(* two association lists denote the same map: equal lookups on every key of either *)
Definition map_eqb {V} (eqb : V -> V -> bool) (l1 l2 : list (id * V)) : bool :=
  forallb (fun k => opt_eqb eqb (lookup k l1) (lookup k l2)) (map fst l1 ++ map fst l2).
Definition set_eqb (l1 l2 : list nat) : bool :=
  forallb (fun n => memb n l2) l1 && forallb (fun n => memb n l1) l2.

Definition norm_map (l : list (id * pipeline)) := map (fun kv => (fst kv, norm_status (snd kv))) l.

(* equality of everything the property speaks about: the three in-memory maps, the name set and the
   store as a restart loads it *)
Definition state_eqb (a b : state) : bool :=
  map_eqb pipeline_eqb (pm a) (pm b) && map_eqb connector_eqb (cm a) (cm b) && map_eqb processor_eqb (rm a) (rm b)
  && set_eqb (names a) (names b)
  && map_eqb pipeline_eqb (norm_map (ps a)) (norm_map (ps b)) && map_eqb connector_eqb (cs a) (cs b)
  && map_eqb processor_eqb (rs a) (rs b).

(* ---------- the property on one observed state ---------- *)

(* in-memory view = what a restart loads *)
Definition mem_eq_reload_b (s : state) : bool :=
  map_eqb pipeline_eqb (norm_map (pm s)) (norm_map (ps s)) && map_eqb connector_eqb (cm s) (cs s)
  && map_eqb processor_eqb (rm s) (rs s) && set_eqb (names s) (map (fun kv => p_name (snd kv)) (entries (ps s))).

Fixpoint nodupb (l : list nat) : bool :=
  match l with [] => true | a :: r => negb (memb a r) && nodupb r end.

(* references are exact in both directions (in-memory maps): one test per instance *)
Definition pl_refs_b (s : state) (k : id) (p : pipeline) : bool :=
  (k =? p_id p) && nodupb (p_conns p) && nodupb (p_procs p)
  && forallb (fun c => match lookup c (cm s) with Some cn => c_pipeline cn =? p_id p | None => false end) (p_conns p)
  && forallb (fun r => match lookup r (rm s) with Some pr => (r_ptype pr =? 2) && (r_parent pr =? p_id p) | None => false end) (p_procs p).
Definition cn_refs_b (s : state) (k : id) (c : connector) : bool :=
  (k =? c_id c) && nodupb (c_procs c)
  && match lookup (c_pipeline c) (pm s) with Some p => memb (c_id c) (p_conns p) | None => false end
  && forallb (fun r => match lookup r (rm s) with Some pr => (r_ptype pr =? 1) && (r_parent pr =? c_id c) | None => false end) (c_procs c).
Definition pr_refs_b (s : state) (k : id) (r : processor) : bool :=
  (k =? r_id r)
  && (if r_ptype r =? 2 then match lookup (r_parent r) (pm s) with Some p => memb (r_id r) (p_procs p) | None => false end
      else if r_ptype r =? 1 then match lookup (r_parent r) (cm s) with Some c => memb (r_id r) (c_procs c) | None => false end
      else false).
Definition refs_exact_b (s : state) : bool :=
  forallb (fun kv => pl_refs_b s (fst kv) (snd kv)) (entries (pm s))
  && forallb (fun kv => cn_refs_b s (fst kv) (snd kv)) (entries (cm s))
  && forallb (fun kv => pr_refs_b s (fst kv) (snd kv)) (entries (rm s)).

(* resources of a running or config-provisioned pipeline are untouched by the call: the pipeline,
   its connectors and its processors are the same before and after (memory and store), and nothing
   new belongs to it afterwards *)
Definition cn_kept_b (pid : id) (l from : list (id * connector)) : bool :=
  forallb (fun kc => if c_pipeline (snd kc) =? pid
                     then opt_eqb connector_eqb (lookup (fst kc) from) (Some (snd kc)) else true) (entries l).
Definition pr_kept_b (pid : id) (s : state) (l from : list (id * processor)) : bool :=
  forallb (fun kr => if opt_eqb Nat.eqb (owner_pr s (snd kr)) (Some pid)
                     then opt_eqb processor_eqb (lookup (fst kr) from) (Some (snd kr)) else true) (entries l).
Definition slice_same_b (p : pipeline) (a b : state) : bool :=
  let pid := p_id p in
  opt_eqb pipeline_eqb (lookup pid (pm b)) (Some p)
  && opt_eqb pipeline_eqb (lookup pid (norm_map (ps b))) (lookup pid (norm_map (ps a)))
  && cn_kept_b pid (cm b) (cm a) && cn_kept_b pid (cm a) (cm b)
  && cn_kept_b pid (cs b) (cs a) && cn_kept_b pid (cs a) (cs b)
  && pr_kept_b pid b (rm b) (rm a) && pr_kept_b pid a (rm a) (rm b)
  && pr_kept_b pid b (rs b) (rs a) && pr_kept_b pid a (rs a) (rs b).
Definition guards_b (a b : state) : bool :=
  forallb (fun kv => if guarded (snd kv) then slice_same_b (snd kv) a b else true) (entries (pm a)).

(* all-or-nothing for one call: it succeeded with the full effect the reference semantics gives
   it, or it failed and everything is as before.  A panic is neither. *)
Definition atomic_b (a : state) (o : op) (out : outcome) (b : state) : bool :=
  match out with
  | OOk => let (out2, s2) := spec_step a o in outcome_eqb out2 OOk && state_eqb b s2
  | OErr _ => state_eqb b a
  | OPanic => false
  end.

Definition monitor_step (a : state) (o : op) (out : outcome) (b : state) : bool :=
  atomic_b a o out b && mem_eq_reload_b b && refs_exact_b b && guards_b a b.

(* ---------- cases ---------- *)
(* numerals above 9 are written in binary in the case files (unary nat literals are slow to parse) *)
Definition nn (x : N) : nat := N.to_nat x.
Arguments nn _%N.

(* an observed view: the three maps and the pipeline name set *)
Record view := mkView {
  v_pl : list (id * pipeline); v_cn : list (id * connector); v_pr : list (id * processor); v_names : list nat }.

(* the harness writes every observed view as its difference from the previous one of the same kind:
   the instances that are new or changed, the ids that disappeared, and the name set if it changed *)
Record delta := mkDelta {
  d_pl : list pipeline; d_plx : list id; d_cn : list connector; d_cnx : list id;
  d_pr : list processor; d_prx : list id; d_names : option (list nat) }.
Definition d0 := mkDelta [] [] [] [] [] [] None.

Definition apply_delta (v : view) (d : delta) : view :=
  mkView (fold_left (fun l p => set (p_id p) p l) (d_pl d) (fold_left (fun l k => del k l) (d_plx d) (v_pl v)))
         (fold_left (fun l c => set (c_id c) c l) (d_cn d) (fold_left (fun l k => del k l) (d_cnx d) (v_cn v)))
         (fold_left (fun l r => set (r_id r) r l) (d_pr d) (fold_left (fun l k => del k l) (d_prx d) (v_pr v)))
         (match d_names d with Some l => l | None => v_names v end).

Record obs := mkObs { o_out : outcome; o_mem : delta; o_rel : delta }.
Record acase := mkCase {
  a_pl : list pipeline; a_cn : list connector; a_pr : list processor;   (* initial state, memory = store *)
  a_prun : list id; a_next : id;
  a_ops : list (op * option nat);
  a_obs0 : delta * delta;            (* memory view and reloaded view after the setup, as differences
                                        from the intended initial state *)
  a_obs : list obs }.                (* one per call *)

Definition assoc_pl (l : list pipeline) := map (fun p => (p_id p, p)) l.
Definition assoc_cn (l : list connector) := map (fun c => (c_id c, c)) l.
Definition assoc_pr (l : list processor) := map (fun r => (r_id r, r)) l.

Definition init_state (c : acase) : state :=
  mkState (assoc_pl (a_pl c)) (assoc_cn (a_cn c)) (assoc_pr (a_pr c)) (map p_name (a_pl c)) (a_prun c)
          (assoc_pl (a_pl c)) (assoc_cn (a_cn c)) (assoc_pr (a_pr c)) (a_next c) 0.
Definition init_view (c : acase) : view :=
  mkView (assoc_pl (a_pl c)) (assoc_cn (a_cn c)) (assoc_pr (a_pr c)) (map p_name (a_pl c)).

(* the state an observation denotes; the counters and the running-processor set are not observable
   and are taken from the harness's bookkeeping (they never influence what is compared) *)
Definition state_of_obs (m r : view) (prun : list id) (nxt clk : nat) : state :=
  mkState (v_pl m) (v_cn m) (v_pr m) (v_names m) prun (v_pl r) (v_cn r) (v_pr r) nxt clk.

(* model state vs observation (the reloaded view is what Init makes of the model's store) *)
Definition agrees (s : state) (m r : view) : bool :=
  state_eqb s (state_of_obs m r (prun s) (next s) (clock s))
  && set_eqb (v_names r) (map (fun kv => p_name (snd kv)) (entries (ps s))).

Fixpoint diff_run (s : state) (m r : view) (h : list (op * option nat)) (os : list obs) : bool :=
  match h, os with
  | [], [] => true
  | (o, f) :: h', ob :: os' =>
      let (out, s') := step f s o in
      let m' := apply_delta m (o_mem ob) in
      let r' := apply_delta r (o_rel ob) in
      outcome_eqb out (o_out ob) && agrees s' m' r' && diff_run s' m' r' h' os'
  | _, _ => false
  end.

(* None = every call satisfies the property; Some i = call i is the first that does not *)
Fixpoint mon_run (i : nat) (a : state) (m r : view) (h : list (op * option nat)) (os : list obs) : option nat :=
  match h, os with
  | (o, _) :: h', ob :: os' =>
      let m' := apply_delta m (o_mem ob) in
      let r' := apply_delta r (o_rel ob) in
      let b := state_of_obs m' r' (prun a) (if is_create o then S (next a) else next a) (S (clock a)) in
      if monitor_step a o (o_out ob) b then mon_run (S i) b m' r' h' os' else Some i
  | _, _ => None
  end.

(* code: bit 0 = model and implementation differ, bit 1 = the monitor rejects; when it rejects,
   4 * (1 + index of the first rejected call) is added (index 0 = the state after the setup, the
   calls count from 1) so that the driver can name the call *)
Definition chk (c : acase) : nat :=
  let s0 := init_state c in
  let m0 := apply_delta (init_view c) (fst (a_obs0 c)) in
  let r0 := apply_delta (init_view c) (snd (a_obs0 c)) in
  let o0 := state_of_obs m0 r0 (a_prun c) (a_next c) 0 in
  let agree := agrees s0 m0 r0 && diff_run s0 m0 r0 (a_ops c) (a_obs c) in
  let bad :=
    if mem_eq_reload_b o0 && refs_exact_b o0 then mon_run 1 o0 m0 r0 (a_ops c) (a_obs c) else Some 0 in
  match bad with
  | None => code agree true
  | Some i => code agree false + 4 * S i
  end.
