(* C14 - the damage of a failed call is confined, at EVERY store-failure index (the 11 bad sites
   included): the store is exactly as before, the running set is as before, the name set is as
   before (except for Pipelines.Update), and the in-memory maps differ from before at most at the
   call's own resource and its parent ([touched]); every other pipeline, connector and processor is
   unchanged in memory.  So an open finding can leave memory != store only for the entities the
   failed call was about. *)
From Verif Require Import Api.Invariant Api.SpecWf Api.Refine.

(* (pipelines, connectors, processors) a call may write; k is the id a create call draws *)
Definition touched (s : state) (k : id) (o : op) : list id * list id * list id :=
  match o with
  | PlCreate _ _ => ([k], [], [])
  | PlUpdate pid _ _ | PlDelete pid | PlUpdateDLQ pid _ => ([pid], [], [])
  | CnCreate _ _ pid _ _ => ([pid], [k], [])
  | CnUpdate cid _ _ _ => ([], [cid], [])
  | CnDelete cid => (match lookup cid (cm s) with Some c => [c_pipeline c] | None => [] end, [cid], [])
  | PrCreate _ ptype parent _ _ _ =>
      (if ptype =? 2 then [parent] else [], if ptype =? 1 then [parent] else [], [k])
  | PrUpdate rid _ _ _ => ([], [], [rid])
  | PrDelete rid =>
      match lookup rid (rm s) with
      | Some r => (if r_ptype r =? 2 then [r_parent r] else [], if r_ptype r =? 1 then [r_parent r] else [], [rid])
      | None => ([], [], [rid])
      end
  end.

Definition names_kept (o : op) (a b : state) : Prop :=
  match o with PlUpdate _ _ _ => True | _ => sameset (names b) (names a) end.

Record confined_to (t : list id * list id * list id) (o : op) (a b : state) : Prop := mkConfined {
  cf_ps : meq (ps b) (ps a); cf_cs : meq (cs b) (cs a); cf_rs : meq (rs b) (rs a);
  cf_prun : sameset (prun b) (prun a);
  cf_names : names_kept o a b;
  cf_pm : forall x, ~ In x (fst (fst t)) -> lookup x (pm b) = lookup x (pm a);
  cf_cm : forall x, ~ In x (snd (fst t)) -> lookup x (cm b) = lookup x (cm a);
  cf_rm : forall x, ~ In x (snd t) -> lookup x (rm b) = lookup x (rm a) }.

Definition confined (f : option nat) (k : id) (o : op) (s0 : state) : Prop :=
  let (out, e) := exec_op f k o (mkEx s0 None 0) in
  out <> OOk -> confined_to (touched s0 k o) o s0 (st (discard e)).

Ltac gkx Hx :=
  repeat first
    [ rewrite lookup_set_neq by (let E := fresh in intro E; apply Hx; rewrite E; simpl; tauto)
    | rewrite lookup_del_neq by (let E := fresh in intro E; apply Hx; rewrite E; simpl; tauto) ];
  reflexivity.

Ltac conf :=
  let Hne := fresh "Hne" in intros Hne;
  first
  [ exfalso; apply Hne; reflexivity
  | constructor; simpl; try (intros ?; reflexivity); try exact I;
    let x := fresh "x" in let Hx := fresh "Hx" in intros x Hx; simpl in Hx; gkx Hx ].

Ltac goc W := cbv [confined touched]; unf; simpl; repeat stepg; try conf; wfix W; try conf.

Lemma confined_all k o s0 f : wf s0 -> confined f k o s0.
Proof.
  intros W. destruct o; destruct f as [[|[|[|[|n]]]]|]; goc W.
Qed.

(* one API call, any injected store failure: if it did not succeed, the damage is confined *)
Theorem step_confined s o f : wf s ->
  fst (step f s o) <> OOk -> confined_to (touched s (next s) o) o s (snd (step f s o)).
Proof.
  intros W.
  pose proof (confined_all (next s) o (bump s o) f (wf_bump s o W)) as C.
  unfold confined in C. unfold step.
  destruct (exec_op f (next s) o {| st := bump s o; saved := None; ctr := 0 |}) as [out e]. simpl.
  intros H. specialize (C H). destruct C as [C1 C2 C3 C4 C5 C6 C7 C8].
  constructor; auto.
Qed.

(* ---------- the update calls: what the touched instance can look like afterwards ---------- *)
(* Whatever store failure is injected, after Connectors.Update the in-memory connector is the old one
   with SOME plugin/name/settings (id, type, pipeline, processor list, State, provisioning and
   CreatedAt are the old ones); likewise for Processors.Update, Pipelines.Update and UpdateDLQ. *)
Ltac shape Hc :=
  simpl; rewrite ?lookup_set_eq, ?Hc;
  first [ eexists _, _, _; reflexivity | eexists _, _; reflexivity | eexists; reflexivity ].

Lemma cn_update_shape f k cid plugin name settings s0 c :
  wf s0 -> lookup cid (cm s0) = Some c ->
  exists a b d, lookup cid (cm (st (discard (snd (exec_op f k (CnUpdate cid plugin name settings) (mkEx s0 None 0))))))
                = Some (cn_with_cfg c a b d).
Proof.
  intros W Hc. destruct c.
  destruct f as [[|[|[|[|n]]]]|]; unf; simpl; rewrite ?Hc; simpl; repeat stepg; shape Hc.
Qed.

Lemma pr_update_shape f k rid plugin settings workers s0 r :
  wf s0 -> lookup rid (rm s0) = Some r ->
  exists a b d, lookup rid (rm (st (discard (snd (exec_op f k (PrUpdate rid plugin settings workers) (mkEx s0 None 0))))))
                = Some (pr_with_cfg r a b d).
Proof.
  intros W Hr. destruct r.
  destruct f as [[|[|[|[|n]]]]|]; unf; simpl; rewrite ?Hr; simpl; repeat stepg; shape Hr.
Qed.

Lemma pl_update_shape f k pid name desc s0 pl :
  wf s0 -> lookup pid (pm s0) = Some pl ->
  exists a b, lookup pid (pm (st (discard (snd (exec_op f k (PlUpdate pid name desc) (mkEx s0 None 0))))))
              = Some (pl_with_cfg pl a b).
Proof.
  intros W Hp. destruct pl.
  destruct f as [[|[|[|[|n]]]]|]; unf; simpl; rewrite ?Hp; simpl; repeat stepg; shape Hp.
Qed.

Lemma pl_update_dlq_shape f k pid d s0 pl :
  wf s0 -> lookup pid (pm s0) = Some pl ->
  exists d', lookup pid (pm (st (discard (snd (exec_op f k (PlUpdateDLQ pid d) (mkEx s0 None 0))))))
             = Some (pl_with_dlq pl d').
Proof.
  intros W Hp. destruct pl.
  destruct f as [[|[|[|[|n]]]]|]; unf; simpl; rewrite ?Hp; simpl; repeat stepg; shape Hp.
Qed.

Lemma step_state f s o : snd (step f s o) = st (discard (snd (exec_op f (next s) o (mkEx (bump s o) None 0)))).
Proof. unfold step. destruct (exec_op f (next s) o _); reflexivity. Qed.

Theorem connectors_update_confined s f cid plugin name settings c :
  wf s -> lookup cid (cm s) = Some c ->
  exists a b d, lookup cid (cm (snd (step f s (CnUpdate cid plugin name settings)))) = Some (cn_with_cfg c a b d).
Proof. intros W H. rewrite step_state. apply cn_update_shape; [apply wf_bump; exact W|exact H]. Qed.

Theorem processors_update_confined s f rid plugin settings workers r :
  wf s -> lookup rid (rm s) = Some r ->
  exists a b d, lookup rid (rm (snd (step f s (PrUpdate rid plugin settings workers)))) = Some (pr_with_cfg r a b d).
Proof. intros W H. rewrite step_state. apply pr_update_shape; [apply wf_bump; exact W|exact H]. Qed.

Theorem pipelines_update_confined s f pid name desc pl :
  wf s -> lookup pid (pm s) = Some pl ->
  exists a b, lookup pid (pm (snd (step f s (PlUpdate pid name desc)))) = Some (pl_with_cfg pl a b).
Proof. intros W H. rewrite step_state. apply pl_update_shape; [apply wf_bump; exact W|exact H]. Qed.

Theorem pipelines_updatedlq_confined s f pid d pl :
  wf s -> lookup pid (pm s) = Some pl ->
  exists d', lookup pid (pm (snd (step f s (PlUpdateDLQ pid d)))) = Some (pl_with_dlq pl d').
Proof. intros W H. rewrite step_state. apply pl_update_dlq_shape; [apply wf_bump; exact W|exact H]. Qed.
