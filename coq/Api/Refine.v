(* C14 - the orchestrator refines the all-or-nothing reference semantics: without a store failure every
   call has exactly the outcome and effect of [spec_step]; with a failure injected at any store
   operation that is not one of the [bad_site]s, the call either still has that outcome and effect
   (the failing index was never reached) or returns the store error with memory and store as before.
   The proofs run the model symbolically, one case per (operation, fault index). *)
From Verif Require Import Api.Invariant Api.SpecWf.

Ltac atom b :=
  lazymatch b with
  | negb ?x => atom x
  | andb ?x ?y => first [atom x | atom y]
  | orb ?x ?y => first [atom x | atom y]
  | true => fail
  | false => fail
  | _ => destruct b eqn:?
  end.

Lemma memb_snoc_same k l : memb k (l ++ [k]) = true.
Proof. apply memb_In, in_app_iff. right. left. reflexivity. Qed.

Ltac stepg :=
  first
  [ progress (first [ rewrite lookup_set_eq | rewrite lookup_del_eq | rewrite memb_snoc_same
        | rewrite lookup_set_neq by (assumption || congruence)
        | rewrite lookup_del_neq by (assumption || congruence) ]); simpl
  | match goal with
    | |- context [match lookup ?k ?m with _ => _ end] => destruct (lookup k m) eqn:?
    | |- context [if ?b then _ else _] => atom b
    end; simpl ].

Ltac eqv := split; [constructor; intros ?; reflexivity|reflexivity].
Ltac clean := repeat match goal with H : Some _ = Some _ |- _ => inversion H; subst; clear H end.
Ltac fin := try discriminate; clean; first [ left; split; [reflexivity|eqv] | right; split; [reflexivity|eqv] ].

Definition refines (f : option nat) (k : id) (o : op) (s0 : state) : Prop :=
  let (out, e) := exec_op f k o (mkEx s0 None 0) in
  let (out2, s2) := spec_op k o s0 in
  (out = out2 /\ st_equiv (st (discard e)) s2 /\ next (st (discard e)) = next s0)
  \/ (out = OErr EStore /\ st_equiv (st (discard e)) s0 /\ next (st (discard e)) = next s0).

(* without a store failure: exactly the reference outcome and effect *)
Definition exact (k : id) (o : op) (s0 : state) : Prop :=
  let (out, e) := exec_op None k o (mkEx s0 None 0) in
  let (out2, s2) := spec_op k o s0 in
  out = out2 /\ st_equiv (st (discard e)) s2 /\ next (st (discard e)) = next s0.

Ltac unf := cbv [refines exact exec_op spec_op o_pl_create o_pl_update o_pl_delete o_pl_update_dlq o_cn_create o_cn_update o_cn_delete
  o_pr_create o_pr_update o_pr_delete pl_guard spec_pl_guard procs_pipeline spec_procs_pipeline
  pl_create pl_update pl_delete pl_update_dlq pl_modify pl_add_conn pl_remove_conn pl_add_proc pl_remove_proc
  cn_create cn_delete cn_modify cn_update cn_add_proc cn_remove_proc pr_create pr_update pr_delete
  new_txn commit tick fail_with validate both_pl both_cn both_pr rb_of run_rb rb_discard].

Ltac dedup :=
  repeat match goal with
  | H1 : lookup ?k ?m = Some ?a, H2 : lookup ?k ?m = Some ?b |- _ =>
      assert (a = b) by congruence; subst; clear H2
  | H1 : lookup ?k ?m = Some ?a, H2 : lookup ?k ?m = None |- _ => congruence
  end.

(* bring in what the invariant says about the instances at hand *)
Ltac wfix W :=
  repeat match goal with
  | H : lookup ?k (pm _) = Some ?p |- _ =>
      lazymatch k with
      | p_id p => fail
      | _ => lazymatch goal with
             | _ : p_id p = k |- _ => fail
             | _ => let E := fresh "Eid" in pose proof (proj1 (wf_key_p _ W _ _ H)) as E; rewrite ?E in *
             end
      end
  end; dedup;
  repeat match goal with
  | H : lookup ?k (cm _) = Some ?c |- _ =>
      lazymatch goal with
      | _ : In k (p_conns _) |- _ => fail
      | _ => let p := fresh "p" in let H1 := fresh in let H2 := fresh in
             destruct (wf_cp _ W _ _ H) as (p & H1 & H2 & _); dedup;
             pose proof (proj2 (memb_In _ _) H2)
      end
  end;
  repeat match goal with
  | H : lookup ?k (rm _) = Some ?r |- _ =>
      lazymatch goal with
      | _ : In k (p_procs _) |- _ => fail
      | _ : In k (c_procs _) |- _ => fail
      | _ => let x := fresh "x" in let H0 := fresh in let H1 := fresh in let H2 := fresh in
             destruct (wf_rp _ W _ _ H) as [(H0 & x & H1 & H2 & _)|(H0 & x & H1 & H2 & _)]; dedup;
             pose proof (proj2 (memb_In _ _) H2)
      end
  end.


Lemma meq_set_set_same {V} (m : list (id * V)) k v v' : lookup k m = Some v -> meq (set k v (set k v' m)) m.
Proof. intros H. eapply meq_trans; [apply meq_set_set|apply meq_set_same; exact H]. Qed.
Lemma pl_conns_eta p x : pl_with_conns (pl_with_conns p x) (p_conns p) = p.
Proof. destruct p; reflexivity. Qed.
Lemma pl_procs_eta p x : pl_with_procs (pl_with_procs p x) (p_procs p) = p.
Proof. destruct p; reflexivity. Qed.
Lemma cn_procs_eta c x : cn_with_procs (cn_with_procs c x) (c_procs c) = c.
Proof. destruct c; reflexivity. Qed.
Lemma pr_cfg_eta p a b c : pr_with_cfg (pr_with_cfg p a b c) (r_plugin p) (r_settings p) (r_workers p) = p.
Proof. destruct p; reflexivity. Qed.

Ltac wfix2 W :=
  repeat match goal with
  | H : lookup ?k (rm _) = Some ?r |- _ =>
      lazymatch goal with
      | _ : r_plugin r <> 0 |- _ => fail
      | _ => pose proof (proj2 (proj2 (wf_key_r _ W _ _ H)))
      end
  end;
  repeat match goal with
  | H : (_ =? _) = true |- _ => apply Nat.eqb_eq in H
  end.

(* a call that was rolled back by its inverse operations: everything is as before *)
Ltac undo W F :=
  right; split; [reflexivity|]; split; [|reflexivity];
  let NR1 := fresh "NR1" in let NR2 := fresh "NR2" in
  destruct (fresh_not_ref _ _ W F) as [NR1 NR2];
  constructor; simpl; try (intros ?; reflexivity);
  rewrite ?remove_first_snoc by (first [eapply NR1; eassumption | eapply NR2; eassumption]);
  rewrite ?pl_conns_eta, ?pl_procs_eta, ?cn_procs_eta, ?pr_cfg_eta;
  first [ apply meq_set_set_same; assumption
        | apply meq_del_set; apply F ].

Ltac finL := try discriminate; clean; split; [reflexivity|eqv].
Ltac goL W F := unf; simpl; repeat stepg; try finL; wfix W; try finL; try congruence; wfix2 W; try congruence;
  try solve [destruct F as (?&?&?&?); congruence].

Ltac go W F := unf; simpl; repeat stepg; try fin; wfix W; try fin; try congruence; wfix2 W; try congruence; try solve [undo W F]; try solve [destruct F as (?&?&?&?); congruence].



Lemma refines_PlCreate k name desc s0 f :
  wf s0 -> fresh k s0 -> good_fault (PlCreate name desc) f -> refines f k (PlCreate name desc) s0.
Proof.
  intros W F G.
  destruct f as [[|[|[|[|n]]]]|]; simpl in G; try discriminate G.
  all: go W F.
Qed.

Lemma exact_PlCreate k name desc s0 :
  wf s0 -> fresh k s0 -> exact k (PlCreate name desc) s0.
Proof. intros W F. goL W F. Qed.

Lemma refines_PlUpdate k pid name desc s0 f :
  wf s0 -> fresh k s0 -> good_fault (PlUpdate pid name desc) f -> refines f k (PlUpdate pid name desc) s0.
Proof.
  intros W F G.
  destruct f as [[|[|[|[|n]]]]|]; simpl in G; try discriminate G.
  all: go W F.
Qed.

Lemma exact_PlUpdate k pid name desc s0 :
  wf s0 -> fresh k s0 -> exact k (PlUpdate pid name desc) s0.
Proof. intros W F. goL W F. Qed.

Lemma refines_PlDelete k pid s0 f :
  wf s0 -> fresh k s0 -> good_fault (PlDelete pid) f -> refines f k (PlDelete pid) s0.
Proof.
  intros W F G.
  destruct f as [[|[|[|[|n]]]]|]; simpl in G; try discriminate G.
  all: go W F.
Qed.

Lemma exact_PlDelete k pid s0 :
  wf s0 -> fresh k s0 -> exact k (PlDelete pid) s0.
Proof. intros W F. goL W F. Qed.

Lemma refines_PlUpdateDLQ k pid d s0 f :
  wf s0 -> fresh k s0 -> good_fault (PlUpdateDLQ pid d) f -> refines f k (PlUpdateDLQ pid d) s0.
Proof.
  intros W F G.
  destruct f as [[|[|[|[|n]]]]|]; simpl in G; try discriminate G.
  all: go W F.
Qed.

Lemma exact_PlUpdateDLQ k pid d s0 :
  wf s0 -> fresh k s0 -> exact k (PlUpdateDLQ pid d) s0.
Proof. intros W F. goL W F. Qed.

Lemma refines_CnCreate k t plugin pid name settings s0 f :
  wf s0 -> fresh k s0 -> good_fault (CnCreate t plugin pid name settings) f -> refines f k (CnCreate t plugin pid name settings) s0.
Proof.
  intros W F G.
  destruct f as [[|[|[|[|n]]]]|]; simpl in G; try discriminate G.
  all: go W F.
Qed.

Lemma exact_CnCreate k t plugin pid name settings s0 :
  wf s0 -> fresh k s0 -> exact k (CnCreate t plugin pid name settings) s0.
Proof. intros W F. goL W F. Qed.

Lemma refines_CnUpdate k cid plugin name settings s0 f :
  wf s0 -> fresh k s0 -> good_fault (CnUpdate cid plugin name settings) f -> refines f k (CnUpdate cid plugin name settings) s0.
Proof.
  intros W F G.
  destruct f as [[|[|[|[|n]]]]|]; simpl in G; try discriminate G.
  all: go W F.
Qed.

Lemma exact_CnUpdate k cid plugin name settings s0 :
  wf s0 -> fresh k s0 -> exact k (CnUpdate cid plugin name settings) s0.
Proof. intros W F. goL W F. Qed.

Lemma refines_CnDelete k cid s0 f :
  wf s0 -> fresh k s0 -> good_fault (CnDelete cid) f -> refines f k (CnDelete cid) s0.
Proof.
  intros W F G.
  destruct f as [[|[|[|[|n]]]]|]; simpl in G; try discriminate G.
  all: go W F.
Qed.

Lemma exact_CnDelete k cid s0 :
  wf s0 -> fresh k s0 -> exact k (CnDelete cid) s0.
Proof. intros W F. goL W F. Qed.

Lemma refines_PrCreate k plugin ptype parent settings workers cond s0 f :
  wf s0 -> fresh k s0 -> good_fault (PrCreate plugin ptype parent settings workers cond) f -> refines f k (PrCreate plugin ptype parent settings workers cond) s0.
Proof.
  intros W F G.
  destruct f as [[|[|[|[|n]]]]|]; simpl in G; try discriminate G.
  all: go W F.
Qed.

Lemma exact_PrCreate k plugin ptype parent settings workers cond s0 :
  wf s0 -> fresh k s0 -> exact k (PrCreate plugin ptype parent settings workers cond) s0.
Proof. intros W F. goL W F. Qed.

Lemma refines_PrUpdate k rid plugin settings workers s0 f :
  wf s0 -> fresh k s0 -> good_fault (PrUpdate rid plugin settings workers) f -> refines f k (PrUpdate rid plugin settings workers) s0.
Proof.
  intros W F G.
  destruct f as [[|[|[|[|n]]]]|]; simpl in G; try discriminate G.
  all: go W F.
Qed.

Lemma exact_PrUpdate k rid plugin settings workers s0 :
  wf s0 -> fresh k s0 -> exact k (PrUpdate rid plugin settings workers) s0.
Proof. intros W F. goL W F. Qed.

Lemma refines_PrDelete k rid s0 f :
  wf s0 -> fresh k s0 -> good_fault (PrDelete rid) f -> refines f k (PrDelete rid) s0.
Proof.
  intros W F G.
  destruct f as [[|[|[|[|n]]]]|]; simpl in G; try discriminate G.
  all: go W F.
Qed.

Lemma exact_PrDelete k rid s0 :
  wf s0 -> fresh k s0 -> exact k (PrDelete rid) s0.
Proof. intros W F. goL W F. Qed.

Lemma exec_refines k o s0 f : wf s0 -> fresh k s0 -> good_fault o f -> refines f k o s0.
Proof.
  destruct o; intros W F G.
  - apply refines_PlCreate; auto.
  - apply refines_PlUpdate; auto.
  - apply refines_PlDelete; auto.
  - apply refines_PlUpdateDLQ; auto.
  - apply refines_CnCreate; auto.
  - apply refines_CnUpdate; auto.
  - apply refines_CnDelete; auto.
  - apply refines_PrCreate; auto.
  - apply refines_PrUpdate; auto.
  - apply refines_PrDelete; auto.
Qed.

Lemma exec_exact k o s0 : wf s0 -> fresh k s0 -> exact k o s0.
Proof.
  destruct o; intros W F.
  - apply exact_PlCreate; auto.
  - apply exact_PlUpdate; auto.
  - apply exact_PlDelete; auto.
  - apply exact_PlUpdateDLQ; auto.
  - apply exact_CnCreate; auto.
  - apply exact_CnUpdate; auto.
  - apply exact_CnDelete; auto.
  - apply exact_PrCreate; auto.
  - apply exact_PrUpdate; auto.
  - apply exact_PrDelete; auto.
Qed.

Lemma spec_op_next k o s : next (snd (spec_op k o s)) = next s.
Proof.
  destruct o; simpl;
    repeat match goal with
           | |- context [match ?x with _ => _ end] => destruct x; simpl
           end; reflexivity.
Qed.

(* one API call, with a store failure at any place that is not a bad site *)
Theorem step_refines s o f : wf s -> good_fault o f ->
  (fst (step f s o) = fst (spec_step s o) /\ st_equiv (snd (step f s o)) (snd (spec_step s o))
   /\ next (snd (step f s o)) = next (bump s o))
  \/ (fst (step f s o) = OErr EStore /\ st_equiv (snd (step f s o)) s
      /\ next (snd (step f s o)) = next (bump s o)).
Proof.
  intros W G.
  pose proof (exec_refines (next s) o (bump s o) f (wf_bump s o W) (fresh_bump _ _ o (wf_fresh s W)) G) as R.
  unfold refines in R. unfold step, spec_step.
  destruct (exec_op f (next s) o {| st := bump s o; saved := None; ctr := 0 |}) as [out e].
  destruct (spec_op (next s) o (bump s o)) as [out2 s2]. simpl.
  destruct R as [(R1 & R2 & R3)|(R1 & R2 & R3)];
    [left; split; [exact R1|split; [exact R2|]]|right; split; [exact R1|split]].
  - exact R3.
  - eapply st_equiv_trans; [exact R2|apply st_equiv_sym, bump_equiv].
  - exact R3.
Qed.

(* one API call without a store failure *)
Theorem step_exact s o : wf s ->
  fst (step None s o) = fst (spec_step s o) /\ st_equiv (snd (step None s o)) (snd (spec_step s o))
  /\ next (snd (step None s o)) = next (snd (spec_step s o)).
Proof.
  intros W.
  pose proof (exec_exact (next s) o (bump s o) (wf_bump s o W) (fresh_bump _ _ o (wf_fresh s W))) as R.
  unfold exact in R. unfold step, spec_step.
  destruct (exec_op None (next s) o {| st := bump s o; saved := None; ctr := 0 |}) as [out e].
  destruct (spec_op (next s) o (bump s o)) as [out2 s2] eqn:E2. simpl.
  destruct R as (R1 & R2 & R3). split; [exact R1|split; [exact R2|]].
  rewrite R3. pose proof (spec_op_next (next s) o (bump s o)) as N. rewrite E2 in N. simpl in N. auto.
Qed.

