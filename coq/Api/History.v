(* C14 - whole histories: induction over the list of calls with the invariant [wf]. *)
From Verif Require Import Api.Invariant Api.SpecWf Api.Refine.

(* every injected failure of the history hits a store operation that is not a bad site *)
Definition good_history (h : list (op * option nat)) : Prop :=
  Forall (fun x => good_fault (fst x) (snd x)) h.
Definition fault_free (h : list (op * option nat)) : Prop := Forall (fun x => snd x = None) h.

Lemma fault_free_good h : fault_free h -> good_history h.
Proof. intros H. eapply Forall_impl; [|exact H]. intros [o f] E. simpl in *. subst. exact I. Qed.

(* all-or-nothing for one call: the outcome and full effect of the reference semantics, or the
   store error with memory and store as before *)
Definition call_atomic (s : state) (o : op) (f : option nat) : Prop :=
  (fst (step f s o) = fst (spec_step s o) /\ st_equiv (snd (step f s o)) (snd (spec_step s o)))
  \/ (fst (step f s o) = OErr EStore /\ st_equiv (snd (step f s o)) s).

Lemma step_wf s o f : wf s -> good_fault o f -> wf (snd (step f s o)).
Proof.
  intros W G. destruct (step_refines s o f W G) as [(_ & E & N)|(_ & E & N)].
  - apply (wf_equiv (snd (spec_step s o))); [apply spec_step_wf; exact W|apply st_equiv_sym; exact E|].
    rewrite N. unfold spec_step. rewrite spec_op_next. lia.
  - apply (wf_equiv s); [exact W|apply st_equiv_sym; exact E|].
    rewrite N. unfold bump; simpl. destruct (is_create o); lia.
Qed.

Lemma step_atomic s o f : wf s -> good_fault o f -> call_atomic s o f.
Proof.
  intros W G. destruct (step_refines s o f W G) as [(A & E & _)|(A & E & _)]; [left|right]; auto.
Qed.

(* the property after every call of a history *)
Fixpoint all_calls (P : state -> op -> option nat -> Prop) (s : state) (h : list (op * option nat)) : Prop :=
  match h with
  | [] => True
  | (o, f) :: r => P s o f /\ all_calls P (snd (step f s o)) r
  end.

Theorem history_wf s h : wf s -> good_history h -> wf (final s h).
Proof.
  revert s. induction h as [|[o f] h IH]; intros s W G; simpl; [exact W|].
  inversion G as [|? ? G1 G2]; subst. apply IH; [apply step_wf; auto|exact G2].
Qed.

Theorem history_atomic s h : wf s -> good_history h ->
  all_calls (fun s o f => call_atomic s o f /\ wf (snd (step f s o))) s h.
Proof.
  revert s. induction h as [|[o f] h IH]; intros s W G; simpl; [exact I|].
  inversion G as [|? ? G1 G2]; subst. simpl in G1.
  split; [split; [apply step_atomic|apply step_wf]; auto|].
  apply IH; [apply step_wf; auto|exact G2].
Qed.

(* without store failures a call never ends in the store error: it has exactly the reference
   outcome and effect *)
Theorem history_exact s h : wf s -> fault_free h ->
  all_calls (fun s o f => fst (step f s o) = fst (spec_step s o)
                          /\ st_equiv (snd (step f s o)) (snd (spec_step s o))) s h.
Proof.
  revert s. induction h as [|[o f] h IH]; intros s W G; simpl; [exact I|].
  inversion G as [|? ? G1 G2]; subst. simpl in G1. subst f.
  destruct (step_exact s o W) as (A & E & _).
  split; [auto|]. apply IH; [apply step_wf; simpl; auto|exact G2].
Qed.

(* ---------- what the invariant says, in the words of the property ---------- *)

(* the in-memory view equals what a restarted server loads (a pipeline stored as running is
   loaded as system-stopped: that is pipeline.Service.Init's documented behaviour) *)
Theorem wf_reload_eq_mem s : wf s ->
  (forall k, lookup k (pm (reload s)) = option_map norm_status (lookup k (pm s)))
  /\ meq (cm (reload s)) (cm s) /\ meq (rm (reload s)) (rm s)
  /\ sameset (names (reload s)) (names s).
Proof.
  intros W. repeat split.
  - intros k. simpl. rewrite lookup_map. rewrite (wf_sync_p s W). reflexivity.
  - intros k. simpl. symmetry. apply (wf_sync_c s W).
  - intros k. simpl. symmetry. apply (wf_sync_r s W).
  - intros n. simpl.
    destruct (memb n (names s)) eqn:M.
    + apply (wf_names s W) in M. destruct M as (k & p & H & E).
      apply memb_In, in_map_iff. exists (k, p). split; [exact E|].
      apply entries_In. rewrite <- (wf_sync_p s W). exact H.
    + apply memb_false. intros HI. apply in_map_iff in HI. destruct HI as ([k p] & E & HI). simpl in E.
      apply entries_In in HI. rewrite <- (wf_sync_p s W) in HI.
      assert (memb n (names s) = true) by (apply (wf_names s W); eauto). congruence.
Qed.

(* pipelines reference exactly their existing connectors and processors, and vice versa *)
Record refs_exact (s : state) : Prop := mkRefs {
  re_pc : forall k p c, lookup k (pm s) = Some p -> In c (p_conns p) ->
                        exists cn, lookup c (cm s) = Some cn /\ c_pipeline cn = k;
  re_cp : forall k c, lookup k (cm s) = Some c ->
                      exists p, lookup (c_pipeline c) (pm s) = Some p /\ In k (p_conns p);
  re_pr : forall k p r, lookup k (pm s) = Some p -> In r (p_procs p) ->
                        exists pr, lookup r (rm s) = Some pr /\ r_ptype pr = 2 /\ r_parent pr = k;
  re_cr : forall k c r, lookup k (cm s) = Some c -> In r (c_procs c) ->
                        exists pr, lookup r (rm s) = Some pr /\ r_ptype pr = 1 /\ r_parent pr = k;
  re_rp : forall k r, lookup k (rm s) = Some r ->
      (r_ptype r = 2 /\ exists p, lookup (r_parent r) (pm s) = Some p /\ In k (p_procs p))
   \/ (r_ptype r = 1 /\ exists c, lookup (r_parent r) (cm s) = Some c /\ In k (c_procs c));
  re_nodup_p : forall k p, lookup k (pm s) = Some p -> NoDup (p_conns p) /\ NoDup (p_procs p);
  re_nodup_c : forall k c, lookup k (cm s) = Some c -> NoDup (c_procs c) }.

Theorem wf_refs_exact s : wf s -> refs_exact s.
Proof.
  intros W. constructor.
  - apply (wf_pc s W).
  - intros k c H. destruct (wf_cp s W k c H) as (p & ? & ? & _). eauto.
  - apply (wf_pr s W).
  - apply (wf_cr s W).
  - intros k r H. destruct (wf_rp s W k r H) as [(? & p & ? & ? & _)|(? & c & ? & ? & _)]; [left|right]; eauto.
  - apply (wf_nodup_p s W).
  - apply (wf_nodup_c s W).
Qed.

(* after any history whose injected failures avoid the bad sites *)
Theorem reload_eq_mem s h : wf s -> good_history h ->
  let s' := final s h in
  (forall k, lookup k (pm (reload s')) = option_map norm_status (lookup k (pm s')))
  /\ meq (cm (reload s')) (cm s') /\ meq (rm (reload s')) (rm s')
  /\ sameset (names (reload s')) (names s').
Proof. intros W G. apply wf_reload_eq_mem, history_wf; assumption. Qed.

Theorem refs_exact_after s h : wf s -> good_history h -> refs_exact (final s h).
Proof. intros W G. apply wf_refs_exact, history_wf; assumption. Qed.
