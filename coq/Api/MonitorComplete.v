(* C14 - the model's observation passes the whole monitor: for every well-formed state, every call
   and every injected store failure outside the bad sites, [monitor_step] accepts what the model does
   (corollary of step_refines, the invariant and guards_frame).  [observe] is the state as the
   harness sees it: the in-memory maps, and the store as a restart loads it. *)
From Verif Require Import Api.Invariant Api.SpecWf Api.Refine Api.History Api.Guards Api.Check Api.MonitorSound.

Definition observe (s : state) : state :=
  mkState (pm s) (cm s) (rm s) (names s) (prun s) (norm_map (ps s)) (cs s) (rs s) (next s) (clock s).

Lemma norm_idem p : norm_status (norm_status p) = norm_status p.
Proof. unfold norm_status. destruct p as [? ? ? st ? ? ? ? ?]; destruct st; reflexivity. Qed.
Lemma norm_name p : p_name (norm_status p) = p_name p.
Proof. unfold norm_status. destruct (is_running p); reflexivity. Qed.

Lemma lookup_norm l k : lookup k (norm_map l) = option_map norm_status (lookup k l).
Proof. unfold norm_map. apply lookup_map. Qed.

Lemma norm_norm l : meq (norm_map (norm_map l)) (norm_map l).
Proof. intros k. rewrite !lookup_norm. destruct (lookup k l); simpl; [rewrite norm_idem|]; reflexivity. Qed.

Lemma norm_meq a b : meq a b -> meq (norm_map a) (norm_map b).
Proof. intros E k. rewrite !lookup_norm, E. reflexivity. Qed.

(* ---------- equivalences ---------- *)
Lemma obs_equiv_refl a : obs_equiv a a.
Proof. constructor; intros k; reflexivity. Qed.
Lemma obs_equiv_trans a b c : obs_equiv a b -> obs_equiv b c -> obs_equiv a c.
Proof. intros [] []. constructor; intros k; etransitivity; eauto. Qed.
Lemma obs_equiv_sym a b : obs_equiv a b -> obs_equiv b a.
Proof. intros []. constructor; intros k; symmetry; auto. Qed.

Lemma st_equiv_observe a b : st_equiv a b -> obs_equiv (observe a) (observe b).
Proof.
  intros [Ep Ec Er En _ Esp Esc Esr]. constructor; simpl; auto.
  apply norm_meq, norm_meq. exact Esp.
Qed.

(* ---------- the reference semantics on an observation ---------- *)
Ltac keysplit x :=
  repeat match goal with
  | |- context [lookup x (set ?k _ _)] =>
      destruct (Nat.eq_dec x k); [subst x; rewrite ?lookup_set_eq, ?lookup_del_eq
                                 |rewrite ?lookup_set_neq, ?lookup_del_neq by assumption]
  | |- context [lookup x (del ?k _)] =>
      destruct (Nat.eq_dec x k); [subst x; rewrite ?lookup_set_eq, ?lookup_del_eq
                                 |rewrite ?lookup_set_neq, ?lookup_del_neq by assumption]
  end.

Ltac norm_ps :=
  let x := fresh "x" in
  intros x; rewrite !lookup_norm; keysplit x; rewrite ?lookup_norm; simpl; rewrite ?norm_idem;
  try reflexivity;
  match goal with
  | |- context [lookup ?k ?l] => destruct (lookup k l); simpl; rewrite ?norm_idem; reflexivity
  end.

Ltac obs_leaf := split; [reflexivity|constructor; simpl; try (intros ?; reflexivity); norm_ps].

Lemma spec_op_observe k o s :
  fst (spec_op k o (observe s)) = fst (spec_op k o s)
  /\ obs_equiv (observe (snd (spec_op k o s))) (snd (spec_op k o (observe s))).
Proof.
  destruct o; cbv [spec_op spec_pl_guard spec_procs_pipeline both_pl both_cn both_pr]; simpl;
    repeat match goal with
           | |- context [match ?x with _ => _ end] =>
               lazymatch x with
               | (if _ then _ else _) => fail
               | _ => destruct x eqn:?; simpl
               end
           end; obs_leaf.
Qed.

Lemma spec_step_observe s o :
  fst (spec_step (observe s) o) = fst (spec_step s o)
  /\ obs_equiv (observe (snd (spec_step s o))) (snd (spec_step (observe s) o)).
Proof. unfold spec_step. exact (spec_op_observe (next s) o (bump s o)). Qed.

(* a refused call of the reference semantics changes nothing, and it never panics *)
Lemma spec_op_refused k o s : fst (spec_op k o s) <> OOk -> snd (spec_op k o s) = s.
Proof.
  destruct o; cbv [spec_op spec_pl_guard spec_procs_pipeline]; simpl;
    repeat match goal with
           | |- context [match ?x with _ => _ end] =>
               lazymatch x with
               | (if _ then _ else _) => fail
               | _ => destruct x eqn:?; simpl
               end
           end; intros H; try reflexivity; exfalso; apply H; reflexivity.
Qed.

Lemma spec_op_no_panic k o s : fst (spec_op k o s) <> OPanic.
Proof.
  destruct o; cbv [spec_op spec_pl_guard spec_procs_pipeline]; simpl;
    repeat match goal with
           | |- context [match ?x with _ => _ end] =>
               lazymatch x with
               | (if _ then _ else _) => fail
               | _ => destruct x eqn:?; simpl
               end
           end; discriminate.
Qed.

(* ---------- the invariant gives the reload and reference clauses ---------- *)
Lemma memb_map_entries {V} (g : id * V -> nat) (l : list (id * V)) n :
  memb n (map g (entries l)) = true <-> exists k v, lookup k l = Some v /\ g (k, v) = n.
Proof.
  rewrite memb_In, in_map_iff. split.
  - intros ([k v] & E & HI). apply entries_In in HI. eauto.
  - intros (k & v & H & E). exists (k, v). split; [exact E|apply entries_In; exact H].
Qed.

Lemma wf_reload_ok s : wf s -> reload_ok (observe s).
Proof.
  intros W. constructor; simpl.
  - eapply meq_trans; [apply norm_meq, (wf_sync_p s W)|apply meq_sym, norm_norm].
  - apply (wf_sync_c s W).
  - apply (wf_sync_r s W).
  - intros n. destruct (memb n (names s)) eqn:M; symmetry.
    + apply (wf_names s W) in M. destruct M as (k & p & H & E).
      apply memb_map_entries. exists k, (norm_status p). split.
      * rewrite lookup_norm, <- (wf_sync_p s W), H. reflexivity.
      * simpl. rewrite norm_name. exact E.
    + destruct (memb n (map (fun kv => p_name (snd kv)) (entries (norm_map (ps s))))) eqn:M2; [|reflexivity].
      apply memb_map_entries in M2. destruct M2 as (k & p' & H & E). simpl in E.
      rewrite lookup_norm, <- (wf_sync_p s W) in H.
      destruct (lookup k (pm s)) as [p|] eqn:Hp; [|discriminate]. simpl in H. inversion H; subst p'.
      rewrite norm_name in E.
      assert (memb n (names s) = true) by (apply (wf_names s W); eauto). congruence.
Qed.

Lemma wf_refs_ok s : wf s -> refs_ok (observe s).
Proof.
  intros W. constructor; simpl.
  - intros k p H. destruct (wf_key_p s W k p H) as [Ek _]. destruct (wf_nodup_p s W k p H) as [N1 N2].
    unfold pl_refs. simpl. repeat split; auto.
    + intros c HI. destruct (wf_pc s W k p c H HI) as (cn & ? & ?). exists cn. split; congruence.
    + intros r HI. destruct (wf_pr s W k p r H HI) as (pr & ? & ? & ?). exists pr. repeat split; congruence.
  - intros k c H. destruct (wf_key_c s W k c H) as [Ek _].
    unfold cn_refs. simpl. repeat split; auto.
    + apply (wf_nodup_c s W k c H).
    + destruct (wf_cp s W k c H) as (p & ? & ? & _). exists p. split; congruence.
    + intros r HI. destruct (wf_cr s W k c r H HI) as (pr & ? & ? & ?). exists pr. repeat split; congruence.
  - intros k r H. destruct (wf_key_r s W k r H) as (Ek & _ & _).
    unfold pr_refs. simpl. split; [auto|].
    destruct (wf_rp s W k r H) as [(T & p & ? & ? & _)|(T & c & ? & ? & _)]; [left|right]; split; auto;
      [exists p|exists c]; split; congruence.
Qed.

(* ---------- guards ---------- *)
Lemma slice_same_of_unchanged s s' pid p :
  wf s -> wf s' -> lookup pid (pm s) = Some p -> slice_unchanged pid s s' ->
  slice_same p (observe s) (observe s').
Proof.
  intros W W' Hp (S1 & S2 & S3).
  destruct (wf_key_p s W pid p Hp) as [Eid _].
  assert (C1 : cn_kept pid (cm s') (cm s)).
  { intros k c H E. rewrite <- (S2 k); [exact H|left; eauto]. }
  assert (C2 : cn_kept pid (cm s) (cm s')).
  { intros k c H E. rewrite (S2 k); [exact H|right; eauto]. }
  assert (R1 : pr_kept pid s' (rm s') (rm s)).
  { intros k r H E. rewrite <- (S3 k); [exact H|left; eauto]. }
  assert (R2 : pr_kept pid s (rm s) (rm s')).
  { intros k r H E. rewrite (S3 k); [exact H|right; eauto]. }
  constructor; simpl; rewrite Eid.
  - rewrite S1. exact Hp.
  - rewrite !lookup_norm, <- (wf_sync_p s' W'), <- (wf_sync_p s W), S1. reflexivity.
  - exact C1.
  - exact C2.
  - intros k c H E. rewrite <- (wf_sync_c s W). rewrite <- (wf_sync_c s' W') in H. eauto.
  - intros k c H E. rewrite <- (wf_sync_c s' W'). rewrite <- (wf_sync_c s W) in H. eauto.
  - exact R1.
  - exact R2.
  - intros k r H E. rewrite <- (wf_sync_r s W). rewrite <- (wf_sync_r s' W') in H. apply (R1 k r H E).
  - intros k r H E. rewrite <- (wf_sync_r s' W'). rewrite <- (wf_sync_r s W) in H. apply (R2 k r H E).
Qed.

(* ---------- one call ---------- *)
Theorem model_satisfies_monitor_props s o f : wf s -> good_fault o f ->
  atomic_ok (observe s) o (fst (step f s o)) (observe (snd (step f s o)))
  /\ reload_ok (observe (snd (step f s o)))
  /\ refs_ok (observe (snd (step f s o)))
  /\ guards_ok (observe s) (observe (snd (step f s o))).
Proof.
  intros W G. pose proof (step_wf s o f W G) as W'.
  split; [|split; [apply wf_reload_ok; exact W'|split; [apply wf_refs_ok; exact W'|]]].
  - destruct (step_refines s o f W G) as [(A & E & _)|(A & E & _)].
    + destruct (spec_step_observe s o) as [O1 O2].
      destruct (fst (spec_step s o)) eqn:Out.
      * left. split; [exact A|split; [exact O1|]].
        eapply obs_equiv_trans; [apply st_equiv_observe; exact E|exact O2].
      * right. exists e. split; [exact A|].
        assert (R : snd (spec_step s o) = bump s o).
        { unfold spec_step in *. apply spec_op_refused. rewrite Out. discriminate. }
        rewrite R in E. apply st_equiv_observe.
        eapply st_equiv_trans; [exact E|apply st_equiv_sym, bump_equiv].
      * exfalso. unfold spec_step in Out. exact (spec_op_no_panic _ _ _ Out).
    + right. exists EStore. split; [exact A|apply st_equiv_observe; exact E].
  - intros k p Hp Hg. simpl in Hp.
    apply (slice_same_of_unchanged s (snd (step f s o)) k p W W' Hp).
    apply (guards_frame s o f k p W G Hp Hg).
Qed.

(* model_satisfies_monitor: the boolean monitor of the case files accepts the model's observation *)
Theorem model_satisfies_monitor s o f : wf s -> good_fault o f ->
  monitor_step (observe s) o (fst (step f s o)) (observe (snd (step f s o))) = true.
Proof.
  intros W G. apply monitor_step_iff. apply model_satisfies_monitor_props; assumption.
Qed.

(* and so for whole histories *)
Theorem history_satisfies_monitor s h : wf s -> good_history h ->
  all_calls (fun s o f => monitor_step (observe s) o (fst (step f s o)) (observe (snd (step f s o))) = true) s h.
Proof.
  revert s. induction h as [|[o f] h IH]; intros s W G; simpl; [exact I|].
  inversion G as [|? ? G1 G2]; subst. simpl in G1.
  split; [apply model_satisfies_monitor; assumption|].
  apply IH; [apply step_wf; assumption|exact G2].
Qed.
