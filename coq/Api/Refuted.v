(* C14 - the (operation, failing store operation) pairs at which the faithful model of the code is
   NOT all-or-nothing.  Each witness is a fault-free history from the empty state (so the state is
   reachable through the API and satisfies the invariant), then one call with one injected store
   failure after which the call neither has its reference outcome and effect nor leaves memory
   and store as before.  Every witness is replayed on the real orchestrator by harness/cmd/c14
   (corpus/C14/refuted.jsonl). *)
From Verif Require Import Api.Invariant Api.SpecWf Api.Refine Api.History.

Definition nofault (l : list op) : list (op * option nat) := map (fun o => (o, None)) l.

Lemma nofault_fault_free l : fault_free (nofault l).
Proof. induction l; constructor; auto. Qed.

Definition refuted_at (h : list op) (o : op) (n : nat) : Prop :=
  bad_site o n = true /\ wf (final empty_state (nofault h)) /\ ~ call_atomic (final empty_state (nofault h)) o (Some n).

Lemma reach_wf l : wf (final empty_state (nofault l)).
Proof. apply history_wf; [apply wf_empty|apply fault_free_good, nofault_fault_free]. Qed.

(* the call did not succeed, and memory or store differ from before at a concrete key *)
Ltac differs E :=
  destruct E as [Ep Ec Er En Eu Esp Esc Esr];
  first [ specialize (Ep 0); vm_compute in Ep; discriminate Ep
        | specialize (Ec 1); vm_compute in Ec; discriminate Ec
        | specialize (Er 1); vm_compute in Er; discriminate Er
        | specialize (Ep 1); vm_compute in Ep; discriminate Ep
        | specialize (Ec 2); vm_compute in Ec; discriminate Ec
        | specialize (Er 2); vm_compute in Er; discriminate Er
        | specialize (En 1); vm_compute in En; discriminate En
        | specialize (En 2); vm_compute in En; discriminate En ].
Ltac refute :=
  split; [reflexivity|split; [apply reach_wf|]];
  intros [[A _]|[A E]]; [vm_compute in A; discriminate A|first [vm_compute in A; discriminate A|differs E]].

(* one pipeline (id 0), optionally one connector / processor (id 1) *)
Definition h_pl := [PlCreate 1 0].
Definition h_cn := [PlCreate 1 0; CnCreate 1 1 0 1 1].
Definition h_pr := [PlCreate 1 0; PrCreate 1 2 0 1 1%Z 0].
Definition h_cn_pr := [PlCreate 1 0; CnCreate 1 1 0 1 1; PrCreate 1 1 1 1 1%Z 0].

(* Pipelines.Update: Config and instanceNames are assigned before store.Set; no transaction, no undo *)
Theorem api_atomic_refuted_pipelines_update_set : refuted_at h_pl (PlUpdate 0 2 3) 0.
Proof. refute. Qed.
(* Pipelines.UpdateDLQ: DLQ is assigned before store.Set *)
Theorem api_atomic_refuted_pipelines_updatedlq_set : refuted_at h_pl (PlUpdateDLQ 0 (mkDlq 1 1 5 2)) 0.
Proof. refute. Qed.
(* Connectors.Create: AddConnector appends the id in memory, then its Set fails; the rollback
   deletes the connector but RemoveConnector was not yet registered: dangling reference *)
Theorem api_atomic_refuted_connectors_create_set2 : refuted_at h_pl (CnCreate 1 1 0 1 1) 2.
Proof. refute. Qed.
(* Connectors.Update: plugin/config assigned before store.Set *)
Theorem api_atomic_refuted_connectors_update_set : refuted_at h_cn (CnUpdate 1 2 2 2) 1.
Proof. refute. Qed.
(* Connectors.Update: the rollback passes conn.Plugin, which is already the new plugin *)
Theorem api_atomic_refuted_connectors_update_commit : refuted_at h_cn (CnUpdate 1 2 2 2) 2.
Proof. refute. Qed.
(* Connectors.Delete: RemoveConnector's Set fails after the id left the in-memory list; the connector
   is re-created from its config only *)
Theorem api_atomic_refuted_connectors_delete_set2 : refuted_at h_cn (CnDelete 1) 2.
Proof. refute. Qed.
Theorem api_atomic_refuted_connectors_delete_commit : refuted_at h_cn (CnDelete 1) 3.
Proof. refute. Qed.
(* Processors.Create: AddProcessor's Set fails (pipeline parent, connector parent) *)
Theorem api_atomic_refuted_processors_create_set2 : refuted_at h_pl (PrCreate 1 2 0 1 1%Z 0) 2.
Proof. refute. Qed.
Theorem api_atomic_refuted_processors_create_set2_connector : refuted_at h_cn (PrCreate 1 1 1 1 1%Z 0) 2.
Proof. refute. Qed.
(* Processors.Update: plugin/config assigned before store.Set *)
Theorem api_atomic_refuted_processors_update_set : refuted_at h_pr (PrUpdate 1 2 2 2%Z) 1.
Proof. refute. Qed.
(* Processors.Delete: the processor is re-created (fresh CreatedAt) and, when the parent's Set failed,
   the parent no longer lists it *)
Theorem api_atomic_refuted_processors_delete_set2 : refuted_at h_pr (PrDelete 1) 2.
Proof. refute. Qed.
Theorem api_atomic_refuted_processors_delete_commit : refuted_at h_pr (PrDelete 1) 3.
Proof. refute. Qed.
Theorem api_atomic_refuted_processors_delete_set2_connector : refuted_at h_cn_pr (PrDelete 2) 2.
Proof. refute. Qed.

(* the rollback itself can fail, and rollback.R.MustExecute then panics: Connectors.Update accepts an
   empty name (no validation), the Delete rollback's Create refuses it *)
Theorem api_panic_connectors_delete :
  let s := final empty_state (nofault [PlCreate 1 0; CnCreate 1 1 0 1 1; CnUpdate 1 1 0 1]) in
  wf s /\ fst (step (Some 3) s (CnDelete 1)) = OPanic.
Proof. split; [apply reach_wf|vm_compute; reflexivity]. Qed.

(* Processors.Update accepts a plugin the registry does not know and negative workers; the Delete
   rollback's Create refuses them *)
Theorem api_panic_processors_delete :
  let s := final empty_state (nofault [PlCreate 1 0; PrCreate 1 2 0 1 1%Z 0; PrUpdate 1 5 1 1%Z]) in
  wf s /\ fst (step (Some 3) s (PrDelete 1)) = OPanic.
Proof. split; [apply reach_wf|vm_compute; reflexivity]. Qed.

(* S8(b): the connector's persisted position.  The connector service's SetState (the running
   pipeline's acks) stores a position in memory and in the store; a failed Delete afterwards leaves
   the in-memory connector without it while the store keeps it. *)
Definition cn_with_state (c : connector) (n : nat) :=
  mkCn (c_id c) (c_type c) (c_name c) (c_settings c) (c_pipeline c) (c_plugin c) (c_procs c) n (c_prov c) (c_created c).
Definition set_state (k : id) (n : nat) (s : state) : state :=
  match lookup k (cm s) with Some c => both_cn k (cn_with_state c n) s | None => s end.

Lemma set_state_wf k n s : wf s -> wf (set_state k n s).
Proof.
  intros W. unfold set_state. destruct (lookup k (cm s)) as [c|] eqn:H; [|exact W].
  apply (upd_cn_wf s k c); auto.
Qed.

Theorem api_atomic_refuted_connectors_delete_loses_position :
  let s := set_state 1 7 (final empty_state (nofault h_cn)) in
  wf s
  /\ fst (step (Some 3) s (CnDelete 1)) = OErr EStore
  /\ option_map c_state (lookup 1 (cm s)) = Some 7
  /\ option_map c_state (lookup 1 (cm (snd (step (Some 3) s (CnDelete 1))))) = Some 0
  /\ option_map c_state (lookup 1 (cs (snd (step (Some 3) s (CnDelete 1))))) = Some 7.
Proof.
  split; [apply set_state_wf, reach_wf|]. vm_compute. repeat split; reflexivity.
Qed.
