(* C14 - the executable monitor of Api/Check.v states the property: what [refs_exact_b] accepts
   has exact references in the sense of the theorems ([refs_exact] of Api/History.v). *)
From Verif Require Import Api.Invariant Api.History Api.Check.

Lemma nodupb_NoDup l : nodupb l = true -> NoDup l.
Proof.
  induction l as [|a l IH]; simpl; [constructor|].
  rewrite andb_true_iff, negb_true_iff. intros [H1 H2].
  constructor; [apply memb_false; exact H1|apply IH; exact H2].
Qed.

Lemma forallb_In {A} (g : A -> bool) l x : forallb g l = true -> In x l -> g x = true.
Proof. intros H HI. rewrite forallb_forall in H. apply H; exact HI. Qed.

Theorem refs_exact_b_sound s : refs_exact_b s = true -> refs_exact s.
Proof.
  unfold refs_exact_b. rewrite !andb_true_iff. intros [[HP HC] HR].
  assert (P : forall k p, lookup k (pm s) = Some p ->
     k = p_id p /\ NoDup (p_conns p) /\ NoDup (p_procs p)
     /\ (forall c, In c (p_conns p) -> exists cn, lookup c (cm s) = Some cn /\ c_pipeline cn = p_id p)
     /\ (forall r, In r (p_procs p) -> exists pr, lookup r (rm s) = Some pr /\ r_ptype pr = 2 /\ r_parent pr = p_id p)).
  { intros k p H. apply lookup_In in H. pose proof (forallb_In _ _ _ HP H) as E. simpl in E.
    rewrite !andb_true_iff in E. destruct E as [[[[E1 E2] E3] E4] E5].
    apply Nat.eqb_eq in E1. repeat split; auto using nodupb_NoDup.
    - intros c HI. pose proof (forallb_In _ _ _ E4 HI) as E. simpl in E.
      destruct (lookup c (cm s)) as [cn|]; [|discriminate]. apply Nat.eqb_eq in E. eauto.
    - intros r HI. pose proof (forallb_In _ _ _ E5 HI) as E. simpl in E.
      destruct (lookup r (rm s)) as [pr|]; [|discriminate]. rewrite andb_true_iff, !Nat.eqb_eq in E. destruct E. eauto. }
  assert (C : forall k c, lookup k (cm s) = Some c ->
     k = c_id c /\ NoDup (c_procs c)
     /\ (exists p, lookup (c_pipeline c) (pm s) = Some p /\ In (c_id c) (p_conns p))
     /\ (forall r, In r (c_procs c) -> exists pr, lookup r (rm s) = Some pr /\ r_ptype pr = 1 /\ r_parent pr = c_id c)).
  { intros k c H. apply lookup_In in H. pose proof (forallb_In _ _ _ HC H) as E. simpl in E.
    rewrite !andb_true_iff in E. destruct E as [[[E1 E2] E3] E4].
    apply Nat.eqb_eq in E1. repeat split; auto using nodupb_NoDup.
    - destruct (lookup (c_pipeline c) (pm s)) as [p|]; [|discriminate]. apply memb_In in E3. eauto.
    - intros r HI. pose proof (forallb_In _ _ _ E4 HI) as E. simpl in E.
      destruct (lookup r (rm s)) as [pr|]; [|discriminate]. rewrite andb_true_iff, !Nat.eqb_eq in E. destruct E. eauto. }
  constructor.
  - intros k p c H HI. destruct (P k p H) as (-> & _ & _ & Q & _). eauto.
  - intros k c H. destruct (C k c H) as (-> & _ & Q & _). exact Q.
  - intros k p r H HI. destruct (P k p H) as (-> & _ & _ & _ & Q). eauto.
  - intros k c r H HI. destruct (C k c H) as (-> & _ & _ & Q). eauto.
  - intros k r H. apply lookup_In in H. pose proof (forallb_In _ _ _ HR H) as E. simpl in E.
    rewrite andb_true_iff in E. destruct E as [E1 E2]. apply Nat.eqb_eq in E1. subst k.
    destruct (Nat.eqb_spec (r_ptype r) 2) as [T2|N2].
    + left. split; [exact T2|]. destruct (lookup (r_parent r) (pm s)) as [p|]; [|discriminate]. apply memb_In in E2. eauto.
    + destruct (Nat.eqb_spec (r_ptype r) 1) as [T1|N1]; [|discriminate].
      right. split; [exact T1|]. destruct (lookup (r_parent r) (cm s)) as [c|]; [|discriminate]. apply memb_In in E2. eauto.
  - intros k p H. destruct (P k p H) as (_ & Q1 & Q2 & _). auto.
  - intros k c H. destruct (C k c H) as (_ & Q & _). exact Q.
Qed.
