(* C14 - the executable monitor of Api/Check.v IS the property: every boolean clause is equivalent to
   a proposition stated through lookups ([obs_equiv], [reload_ok], [refs_ok], [guards_ok],
   [atomic_ok]), and [refs_ok] gives [refs_exact] of Api/History.v. *)
From Verif Require Import Api.Invariant Api.History Api.Check.
From Verif Require Import Base.CaseCheck.

(* ---------- boolean equalities decide equality ---------- *)
Lemma status_eqb_eq a b : status_eqb a b = true <-> a = b.
Proof. destruct a, b; simpl; split; congruence. Qed.
Lemma prov_eqb_eq a b : prov_eqb a b = true <-> a = b.
Proof. destruct a, b; simpl; split; congruence. Qed.
Lemma err_eqb_eq a b : err_eqb a b = true <-> a = b.
Proof. destruct a, b; simpl; split; congruence. Qed.
Lemma outcome_eqb_eq a b : outcome_eqb a b = true <-> a = b.
Proof.
  destruct a as [|x|], b as [|y|]; simpl; try (split; congruence).
  rewrite err_eqb_eq. split; congruence.
Qed.
Lemma ids_eqb_eq a b : ids_eqb a b = true <-> a = b.
Proof. apply list_eqb_eq. intros x y. apply Nat.eqb_eq. Qed.
Lemma dlq_eqb_eq a b : dlq_eqb a b = true <-> a = b.
Proof.
  destruct a, b; unfold dlq_eqb; simpl. rewrite !andb_true_iff, !Nat.eqb_eq, !Z.eqb_eq.
  split; [intros [[[-> ->] ->] ->]; reflexivity|intros E; inversion E; auto].
Qed.
Lemma pipeline_eqb_eq a b : pipeline_eqb a b = true <-> a = b.
Proof.
  destruct a, b; unfold pipeline_eqb; simpl.
  rewrite !andb_true_iff, !Nat.eqb_eq, status_eqb_eq, prov_eqb_eq, dlq_eqb_eq, !ids_eqb_eq.
  split; [intros [[[[[[[[-> ->] ->] ->] ->] ->] ->] ->] ->]; reflexivity|intros E; inversion E; repeat split; auto].
Qed.
Lemma connector_eqb_eq a b : connector_eqb a b = true <-> a = b.
Proof.
  destruct a, b; unfold connector_eqb; simpl.
  rewrite !andb_true_iff, !Nat.eqb_eq, prov_eqb_eq, !ids_eqb_eq.
  split; [intros [[[[[[[[[-> ->] ->] ->] ->] ->] ->] ->] ->] ->]; reflexivity|intros E; inversion E; repeat split; auto].
Qed.
Lemma processor_eqb_eq a b : processor_eqb a b = true <-> a = b.
Proof.
  destruct a, b; unfold processor_eqb; simpl.
  rewrite !andb_true_iff, !Nat.eqb_eq, prov_eqb_eq, Z.eqb_eq.
  split; [intros [[[[[[[[-> ->] ->] ->] ->] ->] ->] ->] ->]; reflexivity|intros E; inversion E; repeat split; auto].
Qed.

Lemma opt_eqb_eq {V} (eqb : V -> V -> bool) :
  (forall a b, eqb a b = true <-> a = b) -> forall a b, opt_eqb eqb a b = true <-> a = b.
Proof.
  intros H [x|] [y|]; simpl; try (split; congruence).
  rewrite H. split; congruence.
Qed.

(* ---------- maps and sets ---------- *)
Lemma lookup_notin {V} (l : list (id * V)) k : ~ In k (map fst l) -> lookup k l = None.
Proof.
  induction l as [|[k2 v2] l IH]; simpl; [reflexivity|]. intros H.
  destruct (Nat.eqb_spec k2 k); [tauto|]. apply IH. tauto.
Qed.

Lemma map_eqb_iff {V} (eqb : V -> V -> bool) :
  (forall a b, eqb a b = true <-> a = b) -> forall l1 l2, map_eqb eqb l1 l2 = true <-> meq l1 l2.
Proof.
  intros H l1 l2. unfold map_eqb. rewrite forallb_forall. split.
  - intros A k. destruct (in_dec Nat.eq_dec k (map fst l1 ++ map fst l2)) as [HI|HN].
    + apply (opt_eqb_eq eqb H). apply A. exact HI.
    + rewrite in_app_iff in HN. rewrite !lookup_notin by tauto. reflexivity.
  - intros E k _. apply (opt_eqb_eq eqb H). apply E.
Qed.

Lemma set_eqb_iff l1 l2 : set_eqb l1 l2 = true <-> sameset l1 l2.
Proof.
  unfold set_eqb. rewrite andb_true_iff, !forallb_forall. split.
  - intros [A B] n. destruct (memb n l1) eqn:M1.
    + symmetry. apply A. apply memb_In. exact M1.
    + destruct (memb n l2) eqn:M2; [|reflexivity]. rewrite (B n) in M1; [discriminate|apply memb_In; exact M2].
  - intros E. split; intros n HI; apply memb_In in HI; [rewrite <- E|rewrite E]; exact HI.
Qed.

Lemma forallb_entries {V} (g : id * V -> bool) (l : list (id * V)) :
  forallb g (entries l) = true <-> forall k v, lookup k l = Some v -> g (k, v) = true.
Proof.
  rewrite forallb_forall. split.
  - intros A k v H. apply A. apply entries_In. exact H.
  - intros A [k v] HI. apply A. apply entries_In. exact HI.
Qed.

Lemma nodupb_iff l : nodupb l = true <-> NoDup l.
Proof.
  induction l as [|a l IH]; simpl; [split; [constructor|reflexivity]|].
  rewrite andb_true_iff, negb_true_iff, memb_false, IH. split.
  - intros [A B]; constructor; auto.
  - intros A; inversion A; auto.
Qed.

(* ---------- state equality as the monitor sees it ---------- *)
Record obs_equiv (a b : state) : Prop := mkObsEq {
  oe_pm : meq (pm a) (pm b); oe_cm : meq (cm a) (cm b); oe_rm : meq (rm a) (rm b);
  oe_names : sameset (names a) (names b);
  oe_ps : meq (norm_map (ps a)) (norm_map (ps b)); oe_cs : meq (cs a) (cs b); oe_rs : meq (rs a) (rs b) }.

Theorem state_eqb_iff a b : state_eqb a b = true <-> obs_equiv a b.
Proof.
  unfold state_eqb. rewrite !andb_true_iff.
  rewrite !(map_eqb_iff pipeline_eqb pipeline_eqb_eq), !(map_eqb_iff connector_eqb connector_eqb_eq),
          !(map_eqb_iff processor_eqb processor_eqb_eq), set_eqb_iff.
  split; [intros [[[[[[? ?] ?] ?] ?] ?] ?]; constructor; auto|intros []; repeat split; auto].
Qed.

(* ---------- reload ---------- *)
Record reload_ok (s : state) : Prop := mkReloadOk {
  ro_p : meq (norm_map (pm s)) (norm_map (ps s));
  ro_c : meq (cm s) (cs s);
  ro_r : meq (rm s) (rs s);
  ro_n : sameset (names s) (map (fun kv => p_name (snd kv)) (entries (ps s))) }.

Theorem mem_eq_reload_b_iff s : mem_eq_reload_b s = true <-> reload_ok s.
Proof.
  unfold mem_eq_reload_b. rewrite !andb_true_iff.
  rewrite (map_eqb_iff pipeline_eqb pipeline_eqb_eq), (map_eqb_iff connector_eqb connector_eqb_eq),
          (map_eqb_iff processor_eqb processor_eqb_eq), set_eqb_iff.
  split; [intros [[[? ?] ?] ?]; constructor; auto|intros []; repeat split; auto].
Qed.

(* ---------- references ---------- *)
Definition pl_refs (s : state) (k : id) (p : pipeline) : Prop :=
  k = p_id p /\ NoDup (p_conns p) /\ NoDup (p_procs p)
  /\ (forall c, In c (p_conns p) -> exists cn, lookup c (cm s) = Some cn /\ c_pipeline cn = p_id p)
  /\ (forall r, In r (p_procs p) -> exists pr, lookup r (rm s) = Some pr /\ r_ptype pr = 2 /\ r_parent pr = p_id p).
Definition cn_refs (s : state) (k : id) (c : connector) : Prop :=
  k = c_id c /\ NoDup (c_procs c)
  /\ (exists p, lookup (c_pipeline c) (pm s) = Some p /\ In (c_id c) (p_conns p))
  /\ (forall r, In r (c_procs c) -> exists pr, lookup r (rm s) = Some pr /\ r_ptype pr = 1 /\ r_parent pr = c_id c).
Definition pr_refs (s : state) (k : id) (r : processor) : Prop :=
  k = r_id r
  /\ ((r_ptype r = 2 /\ exists p, lookup (r_parent r) (pm s) = Some p /\ In (r_id r) (p_procs p))
      \/ (r_ptype r = 1 /\ exists c, lookup (r_parent r) (cm s) = Some c /\ In (r_id r) (c_procs c))).
Record refs_ok (s : state) : Prop := mkRefsOk {
  rk_p : forall k p, lookup k (pm s) = Some p -> pl_refs s k p;
  rk_c : forall k c, lookup k (cm s) = Some c -> cn_refs s k c;
  rk_r : forall k r, lookup k (rm s) = Some r -> pr_refs s k r }.

Lemma forallb_In_iff {A} (g : A -> bool) l : forallb g l = true <-> forall x, In x l -> g x = true.
Proof. apply forallb_forall. Qed.

Lemma pl_refs_b_iff s k p : pl_refs_b s k p = true <-> pl_refs s k p.
Proof.
  unfold pl_refs_b, pl_refs. rewrite !andb_true_iff, Nat.eqb_eq, !nodupb_iff, !forallb_In_iff.
  split.
  - intros [[[[E N1] N2] A] B]. repeat split; auto.
    + intros c HI. specialize (A c HI). destruct (lookup c (cm s)) as [cn|]; [|discriminate].
      apply Nat.eqb_eq in A. eauto.
    + intros r HI. specialize (B r HI). destruct (lookup r (rm s)) as [pr|]; [|discriminate].
      rewrite andb_true_iff, !Nat.eqb_eq in B. destruct B. eauto.
  - intros (E & N1 & N2 & A & B). repeat split; auto.
    + intros c HI. destruct (A c HI) as (cn & -> & Ec). apply Nat.eqb_eq. exact Ec.
    + intros r HI. destruct (B r HI) as (pr & -> & E1 & E2). rewrite andb_true_iff, !Nat.eqb_eq. auto.
Qed.

Lemma cn_refs_b_iff s k c : cn_refs_b s k c = true <-> cn_refs s k c.
Proof.
  unfold cn_refs_b, cn_refs. rewrite !andb_true_iff, Nat.eqb_eq, nodupb_iff, forallb_In_iff.
  split.
  - intros [[[E N1] A] B]. repeat split; auto.
    + destruct (lookup (c_pipeline c) (pm s)) as [p|]; [|discriminate]. apply memb_In in A. eauto.
    + intros r HI. specialize (B r HI). destruct (lookup r (rm s)) as [pr|]; [|discriminate].
      rewrite andb_true_iff, !Nat.eqb_eq in B. destruct B. eauto.
  - intros (E & N1 & (p & -> & HI) & B). repeat split; auto.
    + apply memb_In. exact HI.
    + intros r HI'. destruct (B r HI') as (pr & -> & E1 & E2). rewrite andb_true_iff, !Nat.eqb_eq. auto.
Qed.

Lemma pr_refs_b_iff s k r : pr_refs_b s k r = true <-> pr_refs s k r.
Proof.
  unfold pr_refs_b, pr_refs. rewrite andb_true_iff, Nat.eqb_eq.
  split.
  - intros [E A]. split; [exact E|].
    destruct (Nat.eqb_spec (r_ptype r) 2) as [T2|N2].
    + left. split; [exact T2|]. destruct (lookup (r_parent r) (pm s)) as [p|]; [|discriminate]. apply memb_In in A. eauto.
    + destruct (Nat.eqb_spec (r_ptype r) 1) as [T1|N1]; [|discriminate].
      right. split; [exact T1|]. destruct (lookup (r_parent r) (cm s)) as [c|]; [|discriminate]. apply memb_In in A. eauto.
  - intros [E [(T & p & H & HI)|(T & c & H & HI)]]; (split; [exact E|]); rewrite T; simpl; rewrite H; apply memb_In; exact HI.
Qed.

Theorem refs_exact_b_iff s : refs_exact_b s = true <-> refs_ok s.
Proof.
  unfold refs_exact_b. rewrite !andb_true_iff, !forallb_entries. simpl.
  split.
  - intros [[A B] C]. constructor; intros k v H.
    + apply pl_refs_b_iff. apply (A k v H).
    + apply cn_refs_b_iff. apply (B k v H).
    + apply pr_refs_b_iff. apply (C k v H).
  - intros [A B C]. repeat split; intros k v H.
    + apply pl_refs_b_iff. apply (A k v H).
    + apply cn_refs_b_iff. apply (B k v H).
    + apply pr_refs_b_iff. apply (C k v H).
Qed.

Lemma refs_ok_exact s : refs_ok s -> refs_exact s.
Proof.
  intros [P C R]. constructor.
  - intros k p c H HI. destruct (P k p H) as (-> & _ & _ & Q & _). eauto.
  - intros k c H. destruct (C k c H) as (-> & _ & Q & _). exact Q.
  - intros k p r H HI. destruct (P k p H) as (-> & _ & _ & _ & Q). eauto.
  - intros k c r H HI. destruct (C k c H) as (-> & _ & _ & Q). eauto.
  - intros k r H. destruct (R k r H) as (-> & Q). exact Q.
  - intros k p H. destruct (P k p H) as (_ & Q1 & Q2 & _). auto.
  - intros k c H. destruct (C k c H) as (_ & Q & _). exact Q.
Qed.

Theorem refs_exact_b_sound s : refs_exact_b s = true -> refs_exact s.
Proof. intros H. apply refs_ok_exact, refs_exact_b_iff, H. Qed.

(* ---------- guards ---------- *)
Definition cn_kept (pid : id) (l from : list (id * connector)) : Prop :=
  forall k c, lookup k l = Some c -> c_pipeline c = pid -> lookup k from = Some c.
Definition pr_kept (pid : id) (s : state) (l from : list (id * processor)) : Prop :=
  forall k r, lookup k l = Some r -> owner_pr s r = Some pid -> lookup k from = Some r.

(* the guarded pipeline [p], its connectors and its processors are the same before ([a]) and after
   ([b]) the call, in memory and in the store, and nothing new belongs to it *)
Record slice_same (p : pipeline) (a b : state) : Prop := mkSliceSame {
  ss_p : lookup (p_id p) (pm b) = Some p;
  ss_ps : lookup (p_id p) (norm_map (ps b)) = lookup (p_id p) (norm_map (ps a));
  ss_c1 : cn_kept (p_id p) (cm b) (cm a); ss_c2 : cn_kept (p_id p) (cm a) (cm b);
  ss_c3 : cn_kept (p_id p) (cs b) (cs a); ss_c4 : cn_kept (p_id p) (cs a) (cs b);
  ss_r1 : pr_kept (p_id p) b (rm b) (rm a); ss_r2 : pr_kept (p_id p) a (rm a) (rm b);
  ss_r3 : pr_kept (p_id p) b (rs b) (rs a); ss_r4 : pr_kept (p_id p) a (rs a) (rs b) }.
Definition guards_ok (a b : state) : Prop :=
  forall k p, lookup k (pm a) = Some p -> guarded p = true -> slice_same p a b.

Lemma cn_kept_b_iff pid l from : cn_kept_b pid l from = true <-> cn_kept pid l from.
Proof.
  unfold cn_kept_b, cn_kept. rewrite forallb_entries. simpl. split.
  - intros A k c H E. specialize (A k c H). rewrite (proj2 (Nat.eqb_eq _ _) E) in A.
    apply (opt_eqb_eq connector_eqb connector_eqb_eq). exact A.
  - intros A k c H. destruct (Nat.eqb_spec (c_pipeline c) pid) as [E|N]; [|reflexivity].
    apply (opt_eqb_eq connector_eqb connector_eqb_eq). apply A; assumption.
Qed.

Lemma opt_nat_eqb_eq a b : opt_eqb Nat.eqb a b = true <-> a = b.
Proof. apply opt_eqb_eq. intros x y. apply Nat.eqb_eq. Qed.

Lemma pr_kept_b_iff pid s l from : pr_kept_b pid s l from = true <-> pr_kept pid s l from.
Proof.
  unfold pr_kept_b, pr_kept. rewrite forallb_entries. simpl. split.
  - intros A k r H E. specialize (A k r H). rewrite (proj2 (opt_nat_eqb_eq _ _) E) in A.
    apply (opt_eqb_eq processor_eqb processor_eqb_eq). exact A.
  - intros A k r H. destruct (opt_eqb Nat.eqb (owner_pr s r) (Some pid)) eqn:E; [|reflexivity].
    apply (opt_eqb_eq processor_eqb processor_eqb_eq). apply A; [assumption|apply opt_nat_eqb_eq; exact E].
Qed.

Lemma slice_same_b_iff p a b : slice_same_b p a b = true <-> slice_same p a b.
Proof.
  unfold slice_same_b. rewrite !andb_true_iff, !cn_kept_b_iff, !pr_kept_b_iff,
    !(opt_eqb_eq pipeline_eqb pipeline_eqb_eq).
  split; [intros [[[[[[[[[? ?] ?] ?] ?] ?] ?] ?] ?] ?]; constructor; auto|intros []; repeat split; auto].
Qed.

Theorem guards_b_iff a b : guards_b a b = true <-> guards_ok a b.
Proof.
  unfold guards_b, guards_ok. rewrite forallb_entries. simpl. split.
  - intros A k p H G. specialize (A k p H). rewrite G in A. apply slice_same_b_iff. exact A.
  - intros A k p H. destruct (guarded p) eqn:G; [|reflexivity]. apply slice_same_b_iff. eauto.
Qed.

(* ---------- all-or-nothing ---------- *)
Definition atomic_ok (a : state) (o : op) (out : outcome) (b : state) : Prop :=
  (out = OOk /\ fst (spec_step a o) = OOk /\ obs_equiv b (snd (spec_step a o)))
  \/ (exists e, out = OErr e /\ obs_equiv b a).

Theorem atomic_b_iff a o out b : atomic_b a o out b = true <-> atomic_ok a o out b.
Proof.
  unfold atomic_b, atomic_ok. destruct out as [|e|].
  - destruct (spec_step a o) as [out2 s2]. simpl.
    rewrite andb_true_iff, outcome_eqb_eq, state_eqb_iff. split.
    + intros [E1 E2]. left. auto.
    + intros [(_ & E1 & E2)|(e & E & _)]; [auto|discriminate].
  - rewrite state_eqb_iff. split.
    + intros E. right. eauto.
    + intros [(E & _)|(e' & _ & E)]; [discriminate|exact E].
  - split; [discriminate|]. intros [(E & _)|(e & E & _)]; discriminate.
Qed.

(* the whole monitor of one call *)
Theorem monitor_step_iff a o out b :
  monitor_step a o out b = true <-> atomic_ok a o out b /\ reload_ok b /\ refs_ok b /\ guards_ok a b.
Proof.
  unfold monitor_step. rewrite !andb_true_iff, atomic_b_iff, mem_eq_reload_b_iff, refs_exact_b_iff, guards_b_iff.
  tauto.
Qed.
