(* C14 - facts about the association lists, id lists and sets used by the API model. *)
From Verif Require Import Api.Entities.

Section Map.
  Context {V : Type}.
  Implicit Types (l : list (id * V)) (k : id) (v : V).

  Lemma lookup_set_eq l k v : lookup k (set k v l) = Some v.
  Proof.
    induction l as [|[k' v'] l IH]; simpl.
    - now rewrite Nat.eqb_refl.
    - destruct (Nat.eqb k' k) eqn:E; simpl.
      + now rewrite Nat.eqb_refl.
      + now rewrite E.
  Qed.

  Lemma lookup_set_neq l k k' v : k' <> k -> lookup k' (set k v l) = lookup k' l.
  Proof.
    intros N. induction l as [|[k2 v2] l IH]; simpl.
    - destruct (Nat.eqb_spec k k'); [congruence|reflexivity].
    - destruct (Nat.eqb_spec k2 k) as [->|N2]; simpl.
      + destruct (Nat.eqb_spec k k'); [congruence|reflexivity].
      + destruct (Nat.eqb_spec k2 k'); [reflexivity|exact IH].
  Qed.

  Lemma lookup_del_eq l k : lookup k (del k l) = None.
  Proof.
    induction l as [|[k2 v2] l IH]; simpl; [reflexivity|].
    destruct (Nat.eqb_spec k2 k) as [->|N2]; simpl; [exact IH|].
    destruct (Nat.eqb_spec k2 k); [congruence|exact IH].
  Qed.

  Lemma lookup_del_neq l k k' : k' <> k -> lookup k' (del k l) = lookup k' l.
  Proof.
    intros N. induction l as [|[k2 v2] l IH]; simpl; [reflexivity|].
    destruct (Nat.eqb_spec k2 k) as [->|N2]; simpl.
    - destruct (Nat.eqb_spec k k'); [congruence|exact IH].
    - destruct (Nat.eqb_spec k2 k'); [reflexivity|exact IH].
  Qed.

  Lemma lookup_set_inv l k v x y :
    lookup x (set k v l) = Some y -> (x = k /\ y = v) \/ (x <> k /\ lookup x l = Some y).
  Proof.
    destruct (Nat.eq_dec x k) as [->|N].
    - rewrite lookup_set_eq. intros E; inversion E; auto.
    - rewrite lookup_set_neq by exact N. auto.
  Qed.

  Lemma lookup_del_inv l k x y : lookup x (del k l) = Some y -> x <> k /\ lookup x l = Some y.
  Proof.
    destruct (Nat.eq_dec x k) as [->|N].
    - rewrite lookup_del_eq. discriminate.
    - rewrite lookup_del_neq by exact N. auto.
  Qed.

  Lemma lookup_In l k v : lookup k l = Some v -> In (k, v) l.
  Proof.
    induction l as [|[k2 v2] l IH]; simpl; [discriminate|].
    destruct (Nat.eqb_spec k2 k) as [->|N]; [intros E; inversion E; auto|auto].
  Qed.

  Definition meq (a b : list (id * V)) : Prop := forall k, lookup k a = lookup k b.

  Lemma meq_refl a : meq a a. Proof. intros k; reflexivity. Qed.
  Lemma meq_sym a b : meq a b -> meq b a. Proof. intros H k; symmetry; apply H. Qed.
  Lemma meq_trans a b c : meq a b -> meq b c -> meq a c.
  Proof. intros H1 H2 k; rewrite H1; apply H2. Qed.

  Lemma meq_set a b k v : meq a b -> meq (set k v a) (set k v b).
  Proof.
    intros H x. destruct (Nat.eq_dec x k) as [->|N].
    - now rewrite !lookup_set_eq.
    - rewrite !lookup_set_neq by exact N. apply H.
  Qed.

  Lemma meq_del a b k : meq a b -> meq (del k a) (del k b).
  Proof.
    intros H x. destruct (Nat.eq_dec x k) as [->|N].
    - now rewrite !lookup_del_eq.
    - rewrite !lookup_del_neq by exact N. apply H.
  Qed.

  (* writing back what is there changes nothing *)
  Lemma meq_set_same a k v : lookup k a = Some v -> meq (set k v a) a.
  Proof.
    intros H x. destruct (Nat.eq_dec x k) as [->|N].
    - now rewrite lookup_set_eq.
    - now rewrite lookup_set_neq.
  Qed.

  Lemma meq_set_set a k v w : meq (set k w (set k v a)) (set k w a).
  Proof.
    intros x. destruct (Nat.eq_dec x k) as [->|N].
    - now rewrite !lookup_set_eq.
    - now rewrite !lookup_set_neq.
  Qed.

  (* removing a key that was absent before it was added *)
  Lemma meq_del_set a k v : lookup k a = None -> meq (del k (set k v a)) a.
  Proof.
    intros H x. destruct (Nat.eq_dec x k) as [->|N].
    - now rewrite lookup_del_eq.
    - now rewrite lookup_del_neq, lookup_set_neq.
  Qed.

  Lemma meq_set_del a k v : meq (set k v (del k a)) (set k v a).
  Proof.
    intros x. destruct (Nat.eq_dec x k) as [->|N].
    - now rewrite !lookup_set_eq.
    - now rewrite !lookup_set_neq, lookup_del_neq.
  Qed.
End Map.

Lemma lookup_map {V W} (g : V -> W) (l : list (id * V)) k :
  lookup k (map (fun kv => (fst kv, g (snd kv))) l) = option_map g (lookup k l).
Proof.
  induction l as [|[k2 v2] l IH]; simpl; [reflexivity|].
  destruct (Nat.eqb k2 k); [reflexivity|exact IH].
Qed.

(* ---------- sets of naturals as lists ---------- *)
Lemma memb_In n l : memb n l = true <-> In n l.
Proof.
  induction l as [|a l IH]; simpl; [split; [discriminate|tauto]|].
  rewrite orb_true_iff, IH, Nat.eqb_eq. tauto.
Qed.

Lemma memb_false n l : memb n l = false <-> ~ In n l.
Proof. rewrite <- memb_In. destruct (memb n l); split; congruence. Qed.

Definition sameset (a b : list nat) : Prop := forall n, memb n a = memb n b.

Lemma sameset_refl a : sameset a a. Proof. intros n; reflexivity. Qed.

Lemma memb_remove_all x n l : memb x (remove_all n l) = memb x l && negb (Nat.eqb x n).
Proof.
  induction l as [|a l IH]; simpl; [reflexivity|].
  destruct (Nat.eqb_spec a n) as [->|N]; simpl.
  - rewrite IH. destruct (Nat.eqb_spec n x) as [->|N2]; simpl.
    + rewrite Nat.eqb_refl. simpl. now rewrite andb_false_r.
    + reflexivity.
  - rewrite IH. destruct (Nat.eqb_spec a x) as [->|N2]; simpl; [|reflexivity].
    destruct (Nat.eqb_spec x n); [congruence|reflexivity].
Qed.

Lemma memb_cons x n l : memb x (n :: l) = Nat.eqb n x || memb x l.
Proof. reflexivity. Qed.

(* ---------- id lists ---------- *)
Lemma remove_first_In x n l : In x (remove_first n l) -> In x l.
Proof.
  induction l as [|a l IH]; simpl; [tauto|].
  destruct (Nat.eqb_spec a n); simpl; tauto.
Qed.

Lemma remove_first_In_iff x n l : NoDup l -> (In x (remove_first n l) <-> In x l /\ x <> n).
Proof.
  induction l as [|a l IH]; intros ND; simpl; [tauto|].
  inversion ND as [|? ? Na ND']; subst.
  destruct (Nat.eqb_spec a n) as [->|N]; simpl.
  - split; [intros H; split; [auto|intros ->; contradiction]|intros [[->|H] N]; [congruence|exact H]].
  - rewrite (IH ND'). split.
    + intros [->|[H N2]]; [split; [auto|congruence]|auto].
    + intros [[->|H] N2]; [auto|auto].
Qed.

Lemma remove_first_NoDup n l : NoDup l -> NoDup (remove_first n l).
Proof.
  induction l as [|a l IH]; intros ND; simpl; [constructor|].
  inversion ND as [|? ? Na ND']; subst.
  destruct (Nat.eqb_spec a n); [exact ND'|].
  constructor; [|auto]. intros H. apply Na. eapply remove_first_In; eauto.
Qed.

Lemma remove_first_notin n l : ~ In n l -> remove_first n l = l.
Proof.
  induction l as [|a l IH]; simpl; [reflexivity|]. intros H.
  destruct (Nat.eqb_spec a n) as [->|N]; [tauto|]. f_equal. apply IH. tauto.
Qed.

Lemma remove_first_snoc n l : ~ In n l -> remove_first n (l ++ [n]) = l.
Proof.
  induction l as [|a l IH]; simpl; intros H.
  - now rewrite Nat.eqb_refl.
  - destruct (Nat.eqb_spec a n) as [->|N]; [tauto|]. f_equal. apply IH. tauto.
Qed.

Lemma NoDup_snoc (n : nat) l : NoDup l -> ~ In n l -> NoDup (l ++ [n]).
Proof.
  induction l as [|a l IH]; simpl; intros ND H.
  - constructor; [tauto|constructor].
  - inversion ND as [|? ? Na ND']; subst. constructor.
    + rewrite in_app_iff. simpl. intros [H1|[H1|[]]]; [tauto|subst; tauto].
    + apply IH; tauto.
Qed.

Lemma In_snoc (x n : nat) l : In x (l ++ [n]) <-> In x l \/ x = n.
Proof. rewrite in_app_iff. simpl. intuition. Qed.

Lemma length_zero_nil {A} (l : list A) : (length l =? 0) = true -> l = [].
Proof. destruct l; simpl; [reflexivity|discriminate]. Qed.

(* ---------- the entries of the denoted map ---------- *)
Lemma entries_aux_In {V} (l : list (id * V)) : forall seen k v,
  In (k, v) (entries_aux seen l) <-> (memb k seen = false /\ lookup k l = Some v).
Proof.
  induction l as [|[k2 v2] l IH]; intros seen k v; simpl.
  - split; [tauto|intros [_ H]; discriminate].
  - destruct (memb k2 seen) eqn:M.
    + rewrite IH. destruct (Nat.eqb_spec k2 k) as [->|N]; [|tauto].
      split; [intros [H _]; congruence|intros [H _]; congruence].
    + simpl. rewrite IH. simpl. destruct (Nat.eqb_spec k2 k) as [->|N].
      * split.
        -- intros [E|[H _]]; [inversion E; subst; auto|discriminate].
        -- intros [H E]. inversion E; subst. auto.
      * split.
        -- intros [E|[H1 H2]]; [inversion E; congruence|auto].
        -- intros [H1 H2]. right. auto.
Qed.

Lemma entries_In {V} (l : list (id * V)) k v : In (k, v) (entries l) <-> lookup k l = Some v.
Proof. unfold entries. rewrite entries_aux_In. simpl. tauto. Qed.
