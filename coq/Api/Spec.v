(* C14 - what the property asks of one API call: the all-or-nothing reference semantics.
   [spec_op] refuses exactly when the real call refuses without a store failure (same guards, same
   order, same class of error) and otherwise applies the call's FULL effect to the in-memory maps
   and to the store at once.  It has no intermediate states, no transaction and no rollback.
   Definitions only. *)
From Verif Require Export Api.Orch.

Definition spec_pl_guard (k : id) (s : state) : res pipeline :=
  match lookup k (pm s) with
  | None => Err ENotFound
  | Some pl =>
    if negb (is_api (p_prov pl)) then Err EImmutable else
    if is_running pl then Err ERunning else Ok pl
  end.

Definition spec_procs_pipeline (ptype : nat) (parent : id) (s : state) : res pipeline :=
  if ptype =? 2 then
    match lookup parent (pm s) with Some pl => Ok pl | None => Err ENotFound end
  else if ptype =? 1 then
    match lookup parent (cm s) with
    | None => Err ENotFound
    | Some c => match lookup (c_pipeline c) (pm s) with Some pl => Ok pl | None => Err ENotFound end
    end
  else Err EParent.

Definition both_pl (k : id) (v : pipeline) (s : state) := w_pm (set k v) (w_ps (set k v) s).
Definition both_cn (k : id) (v : connector) (s : state) := w_cm (set k v) (w_cs (set k v) s).
Definition both_pr (k : id) (v : processor) (s : state) := w_rm (set k v) (w_rs (set k v) s).

Definition spec_op (k : id) (o : op) (s : state) : outcome * state :=
  match o with
  | PlCreate name desc =>
    if (name =? 0) || memb name (names s) || long name || long desc then (OErr EInvalid, s) else
    (OOk, w_names (cons name) (both_pl k (mkPl k name desc StUserStopped ProvAPI default_dlq [] [] (clock s)) s))
  | PlUpdate pid name desc =>
    match spec_pl_guard pid s with
    | Err x => (OErr x, s)
    | Ok pl =>
      if name =? 0 then (OErr EInvalid, s) else
      if memb name (names s) && negb (p_name pl =? name) then (OErr EInvalid, s) else
      (OOk, w_names (fun l => name :: remove_all (p_name pl) l) (both_pl pid (pl_with_cfg pl name desc) s))
    end
  | PlDelete pid =>
    match spec_pl_guard pid s with
    | Err x => (OErr x, s)
    | Ok pl =>
      if negb (length (p_conns pl) =? 0) then (OErr EHasConns, s) else
      if negb (length (p_procs pl) =? 0) then (OErr EHasProcs, s) else
      (OOk, w_names (remove_all (p_name pl)) (w_pm (del pid) (w_ps (del pid) s)))
    end
  | PlUpdateDLQ pid d =>
    match spec_pl_guard pid s with
    | Err x => (OErr x, s)
    | Ok pl =>
      if negb (validate 2 (d_plugin d) (d_settings d)) then (OErr EInvalid, s) else
      if negb (dlq_ok d) then (OErr EInvalid, s) else
      (OOk, both_pl pid (pl_with_dlq pl d) s)
    end
  | CnCreate t plugin pid name settings =>
    match lookup pid (pm s) with
    | None => (OErr ENotFound, s)
    | Some pl =>
      if negb (is_api (p_prov pl)) then (OErr EImmutable, s) else
      if is_running pl then (OErr ERunning, s) else
      if negb (validate t plugin settings) then (OErr EInvalid, s) else
      if (name =? 0) || long name then (OErr EInvalid, s) else
      if plugin =? 0 then (OErr EInvalid, s) else
      (OOk, both_pl pid (pl_with_conns pl (p_conns pl ++ [k]))
              (both_cn k (mkCn k t name settings pid plugin [] 0 ProvAPI (clock s)) s))
    end
  | CnUpdate cid plugin name settings =>
    match lookup cid (cm s) with
    | None => (OErr ENotFound, s)
    | Some c =>
      if negb (is_api (c_prov c)) then (OErr EImmutable, s) else
      match lookup (c_pipeline c) (pm s) with
      | None => (OErr ENotFound, s)
      | Some pl =>
        if is_running pl then (OErr ERunning, s) else
        if negb (validate (c_type c) (c_plugin c) settings) then (OErr EInvalid, s) else
        (OOk, both_cn cid (cn_with_cfg c plugin name settings) s)
      end
    end
  | CnDelete cid =>
    match lookup cid (cm s) with
    | None => (OErr ENotFound, s)
    | Some c =>
      if negb (is_api (c_prov c)) then (OErr EImmutable, s) else
      if negb (length (c_procs c) =? 0) then (OErr EHasProcs, s) else
      match lookup (c_pipeline c) (pm s) with
      | None => (OErr ENotFound, s)
      | Some pl =>
        if is_running pl then (OErr ERunning, s) else
        (OOk, both_pl (p_id pl) (pl_with_conns pl (remove_first cid (p_conns pl)))
                (w_cm (del cid) (w_cs (del cid) s)))
      end
    end
  | PrCreate plugin ptype parent settings workers cond =>
    match spec_procs_pipeline ptype parent s with
    | Err x => (OErr x, s)
    | Ok pl =>
      if negb (is_api (p_prov pl)) then (OErr EImmutable, s) else
      if is_running pl then (OErr ERunning, s) else
      if (workers <? 0)%Z then (OErr EInvalid, s) else
      if negb (proc_plugin_ok plugin) then (OErr EInvalid, s) else
      let w := if (workers =? 0)%Z then 1%Z else workers in
      let r := mkPr k plugin cond ptype parent settings w ProvAPI (clock s) in
      if ptype =? 2 then
        (OOk, both_pl (p_id pl) (pl_with_procs pl (p_procs pl ++ [k])) (both_pr k r s))
      else
        match lookup parent (cm s) with
        | None => (OErr ENotFound, s)
        | Some c => (OOk, both_cn parent (cn_with_procs c (c_procs c ++ [k])) (both_pr k r s))
        end
    end
  | PrUpdate rid plugin settings workers =>
    match lookup rid (rm s) with
    | None => (OErr ENotFound, s)
    | Some p =>
      if negb (is_api (r_prov p)) then (OErr EImmutable, s) else
      match spec_procs_pipeline (r_ptype p) (r_parent p) s with
      | Err x => (OErr x, s)
      | Ok pl =>
        if is_running pl then (OErr ERunning, s) else
        if memb rid (prun s) then (OErr EProcRunning, s) else
        if plugin =? 0 then (OErr EInvalid, s) else
        (OOk, both_pr rid (pr_with_cfg p plugin settings workers) s)
      end
    end
  | PrDelete rid =>
    match lookup rid (rm s) with
    | None => (OErr ENotFound, s)
    | Some p =>
      if negb (is_api (r_prov p)) then (OErr EImmutable, s) else
      match spec_procs_pipeline (r_ptype p) (r_parent p) s with
      | Err x => (OErr x, s)
      | Ok pl =>
        if is_running pl then (OErr ERunning, s) else
        if memb rid (prun s) then (OErr EProcRunning, s) else
        if r_ptype p =? 2 then
          if memb rid (p_procs pl) then
            (OOk, both_pl (p_id pl) (pl_with_procs pl (remove_first rid (p_procs pl))) (w_rm (del rid) (w_rs (del rid) s)))
          else (OErr EInvalid, s)
        else
          match lookup (r_parent p) (cm s) with
          | None => (OErr ENotFound, s)
          | Some c =>
            if memb rid (c_procs c) then
              (OOk, both_cn (r_parent p) (cn_with_procs c (remove_first rid (c_procs c))) (w_rm (del rid) (w_rs (del rid) s)))
            else (OErr EInvalid, s)
          end
      end
    end
  end.

Definition spec_step (s : state) (o : op) : outcome * state := spec_op (next s) o (bump s o).

(* the (operation, failing store operation) pairs at which the code is NOT all-or-nothing; every one
   has an api_atomic_refuted_* witness in ApiRefuted.v and is reproduced on the real orchestrator *)
Definition bad_site (o : op) (n : nat) : bool :=
  match o, n with
  | PlUpdate _ _ _, 0 => true            (* Pipelines.Update / Set *)
  | PlUpdateDLQ _ _, 0 => true           (* Pipelines.UpdateDLQ / Set *)
  | CnCreate _ _ _ _ _, 2 => true        (* Connectors.Create / Set#2 (pipeline) *)
  | CnUpdate _ _ _ _, 1 => true          (* Connectors.Update / Set *)
  | CnUpdate _ _ _ _, 2 => true          (* Connectors.Update / Commit *)
  | CnDelete _, 2 => true                (* Connectors.Delete / Set#2 (pipeline) *)
  | CnDelete _, 3 => true                (* Connectors.Delete / Commit *)
  | PrCreate _ _ _ _ _ _, 2 => true      (* Processors.Create / Set#2 (parent) *)
  | PrUpdate _ _ _ _, 1 => true          (* Processors.Update / Set *)
  | PrDelete _, 2 => true                (* Processors.Delete / Set#2 (parent) *)
  | PrDelete _, 3 => true                (* Processors.Delete / Commit *)
  | _, _ => false
  end.

Definition good_fault (o : op) (f : option nat) : Prop :=
  match f with None => True | Some n => bad_site o n = false end.
