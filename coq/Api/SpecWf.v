(* C14 - the reference semantics preserves the invariant: every effect a successful call has keeps
   memory = store, the name set exact, and the references exact in both directions. *)
From Verif Require Import Api.Invariant.

(* hypotheses: a lookup in an updated map is a lookup in the old map, or the updated entry *)
Ltac lk :=
  repeat match goal with
  | H : lookup ?x (set ?k ?v ?l) = Some ?y |- _ =>
      apply lookup_set_inv in H; destruct H as [[? ?]|[? H]]; subst
  | H : lookup ?x (del ?k ?l) = Some ?y |- _ =>
      apply lookup_del_inv in H; destruct H as [? H]
  end.

(* goal: decide a lookup in an updated map *)
Ltac gk :=
  repeat first
    [ rewrite lookup_set_eq
    | rewrite lookup_del_eq
    | rewrite lookup_set_neq by (assumption || congruence || lia)
    | rewrite lookup_del_neq by (assumption || congruence || lia) ].

Ltac dW W := destruct W as [Wsp Wsc Wsr Wn Wu Wkp Wkc Wkr Wru Wndp Wndc Wpc Wcp Wpr Wcr Wrp].
Ltac same Hp H := rewrite Hp in H; let E := fresh "E" in injection H as E; try (rewrite <- E in * ); try clear E.

Lemma fresh_not_ref s k : wf s -> fresh k s ->
  (forall pid pl, lookup pid (pm s) = Some pl -> ~ In k (p_conns pl) /\ ~ In k (p_procs pl))
  /\ (forall cid c, lookup cid (cm s) = Some c -> ~ In k (c_procs c)).
Proof.
  intros W (F1 & F2 & F3 & F4). dW W. split.
  - intros pid pl H. split; intros HI.
    + destruct (Wpc _ _ _ H HI) as (cn & E & _). congruence.
    + destruct (Wpr _ _ _ H HI) as (pr & E & _). congruence.
  - intros cid c H HI. destruct (Wcr _ _ _ H HI) as (pr & E & _). congruence.
Qed.

(* ---------- updates that keep the references ---------- *)

Lemma upd_pl_wf s pid pl pl' nm :
  wf s -> lookup pid (pm s) = Some pl ->
  p_id pl' = p_id pl -> p_conns pl' = p_conns pl -> p_procs pl' = p_procs pl -> p_prov pl' = p_prov pl ->
  (forall n, memb n nm = true <->
             n = p_name pl' \/ exists k p, k <> pid /\ lookup k (pm s) = Some p /\ p_name p = n) ->
  (forall k p, k <> pid -> lookup k (pm s) = Some p -> p_name p <> p_name pl') ->
  wf (w_names (fun _ => nm) (both_pl pid pl' s)).
Proof.
  intros W Hp Eid Ec Er Epv Hnm Hun. dW W.
  constructor; simpl.
  all: try solve [apply meq_set; auto].
  all: try assumption.
  - intros n. rewrite Hnm. split.
    + intros [->|(k & p & N & H & E)].
      * exists pid, pl'. gk. auto.
      * exists k, p. gk. auto.
    + intros (k & p & H & E). lk; [left; auto|right; eauto].
  - intros k1 k2 p1 p2 H1 H2 E. lk; auto.
    + exfalso. eapply Hun; eauto.
    + exfalso. eapply Hun; eauto.
    + eauto.
  - intros k p H. lk; [|eauto]. rewrite Eid. eauto.
  - intros k p H. lk; [|eauto]. rewrite Ec, Er. eauto.
  - intros k p c H HI. lk; [|eauto]. rewrite Ec in HI. eauto.
  - intros k c H. destruct (Wcp _ _ H) as (p & E & HI & Ev).
    destruct (Nat.eq_dec (c_pipeline c) pid) as [Eq|N].
    + rewrite Eq in *. same Hp E. exists pl'. gk. rewrite Ec, Epv. auto.
    + exists p. gk. auto.
  - intros k p r H HI. lk; [|eauto]. rewrite Er in HI. eauto.
  - intros k r H. destruct (Wrp _ _ H) as [(Et & p & E & HI & Ev)|(Et & c & E & HI & Ev)]; [left|right]; split; auto.
    + destruct (Nat.eq_dec (r_parent r) pid) as [Eq|N].
      * rewrite Eq in *. same Hp E. exists pl'. gk. rewrite Er, Epv. auto.
      * exists p. gk. auto.
    + eauto.
Qed.

Lemma upd_cn_wf s cid c c' :
  wf s -> lookup cid (cm s) = Some c ->
  c_id c' = c_id c -> c_pipeline c' = c_pipeline c -> c_procs c' = c_procs c -> c_prov c' = c_prov c ->
  wf (both_cn cid c' s).
Proof.
  intros W Hc Eid Epl Er Epv. dW W.
  constructor; simpl.
  all: try solve [apply meq_set; auto].
  all: try assumption.
  - intros k x H. lk; [|eauto]. rewrite Eid. eauto.
  - intros k x H. lk; [|eauto]. rewrite Er. eauto.
  - intros k p x H HI. destruct (Wpc _ _ _ H HI) as (cn & E & Ek).
    destruct (Nat.eq_dec x cid) as [->|N].
    + same Hc E. exists c'. gk. split; congruence.
    + exists cn. gk. auto.
  - intros k x H. lk.
    + rewrite Epl, Epv. eauto.
    + eauto.
  - intros k x r H HI. lk; [|eauto]. rewrite Er in HI. eauto.
  - intros k r H. destruct (Wrp _ _ H) as [(Et & p & E & HI & Ev)|(Et & x & E & HI & Ev)]; [left|right]; split; auto.
    + eauto.
    + destruct (Nat.eq_dec (r_parent r) cid) as [Eq|N].
      * rewrite Eq in *. same Hc E. exists c'. gk. rewrite Er, Epv. auto.
      * exists x. gk. auto.
Qed.

Lemma upd_pr_wf s rid r r' :
  wf s -> lookup rid (rm s) = Some r ->
  r_id r' = r_id r -> r_ptype r' = r_ptype r -> r_parent r' = r_parent r -> r_prov r' = r_prov r ->
  r_plugin r' <> 0 ->
  wf (both_pr rid r' s).
Proof.
  intros W Hr Eid Et Ep Epv Hpl. dW W.
  constructor; simpl.
  all: try solve [apply meq_set; auto].
  all: try assumption.
  - intros k x H. lk; [|eauto]. rewrite Eid. destruct (Wkr _ _ Hr) as (? & ? & ?). auto.
  - intros k p x H HI. destruct (Wpr _ _ _ H HI) as (pr & E & Ek).
    destruct (Nat.eq_dec x rid) as [->|N].
    + same Hr E. exists r'. gk. rewrite Et, Ep. auto.
    + exists pr. gk. auto.
  - intros k c x H HI. destruct (Wcr _ _ _ H HI) as (pr & E & Ek).
    destruct (Nat.eq_dec x rid) as [->|N].
    + same Hr E. exists r'. gk. rewrite Et, Ep. auto.
    + exists pr. gk. auto.
  - intros k x H. lk; [|eauto]. rewrite Et, Ep, Epv. eauto.
Qed.

(* ---------- pipelines come and go ---------- *)

Lemma pl_create_wf s k name desc pv :
  wf s -> fresh k s -> k < next s -> memb name (names s) = false ->
  wf (w_names (cons name) (both_pl k (mkPl k name desc StUserStopped pv default_dlq [] [] (clock s)) s)).
Proof.
  intros W (F1 & F2 & F3 & F4) Hk Hn. dW W.
  assert (Hfree : forall k0 p, lookup k0 (pm s) = Some p -> p_name p <> name).
  { intros k0 p H E. assert (memb name (names s) = true) by (apply Wn; eauto). congruence. }
  constructor; simpl.
  all: try solve [apply meq_set; auto].
  all: try assumption.
  - intros n. rewrite orb_true_iff, Nat.eqb_eq, Wn. split.
    + intros [<-|(k0 & p & H & E)].
      * eexists k, _. gk. split; reflexivity.
      * exists k0, p. assert (k0 <> k) by congruence. gk. auto.
    + intros (k0 & p & H & E). lk; [left; auto|right; eauto].
  - intros k1 k2 p1 p2 H1 H2 E. lk; simpl in *; auto.
    + exfalso. eapply Hfree; eauto.
    + exfalso. eapply Hfree; eauto.
    + eauto.
  - intros k0 p H. lk; simpl; auto.
  - intros k0 p H. lk; simpl; [split; constructor|eauto].
  - intros k0 p c H HI. lk; simpl in *; [contradiction|eauto].
  - intros k0 c H. destruct (Wcp _ _ H) as (p & E & HI & Ev). exists p.
    assert (c_pipeline c <> k) by congruence. gk. auto.
  - intros k0 p r H HI. lk; simpl in *; [contradiction|eauto].
  - intros k0 r H. destruct (Wrp _ _ H) as [(Et & p & E & HI & Ev)|(Et & c & E & HI & Ev)]; [left|right]; split; auto.
    + exists p. assert (r_parent r <> k) by congruence. gk. auto.
    + eauto.
Qed.

Lemma pl_delete_wf s pid pl :
  wf s -> lookup pid (pm s) = Some pl -> p_conns pl = [] -> p_procs pl = [] ->
  wf (w_names (remove_all (p_name pl)) (w_pm (del pid) (w_ps (del pid) s))).
Proof.
  intros W Hp Ec Er. dW W.
  constructor; simpl.
  all: try solve [apply meq_del; auto].
  all: try assumption.
  - intros n. rewrite memb_remove_all, andb_true_iff, negb_true_iff, Nat.eqb_neq, Wn. split.
    + intros [(k & p & H & E) N]. exists k, p. assert (k <> pid) by (intros ->; same Hp H; congruence). gk. auto.
    + intros (k & p & H & E). lk. split; [eauto|].
      intros ->. apply H0. eapply Wu; eauto.
  - intros k1 k2 p1 p2 H1 H2 E. lk. eauto.
  - intros k p H. lk. eauto.
  - intros k p H. lk. eauto.
  - intros k p c H HI. lk. eauto.
  - intros k c H. destruct (Wcp _ _ H) as (p & E & HI & Ev). exists p.
    assert (c_pipeline c <> pid) by (intros Eq; rewrite Eq in E; same Hp E; rewrite Ec in HI; contradiction).
    gk. auto.
  - intros k p r H HI. lk. eauto.
  - intros k r H. destruct (Wrp _ _ H) as [(Et & p & E & HI & Ev)|(Et & c & E & HI & Ev)]; [left|right]; split; auto.
    + exists p. assert (r_parent r <> pid) by (intros Eq; rewrite Eq in E; same Hp E; rewrite Er in HI; contradiction).
      gk. auto.
    + eauto.
Qed.

(* ---------- connectors ---------- *)

Lemma cn_create_wf s k t plugin pid name settings pl :
  wf s -> fresh k s -> k < next s ->
  lookup pid (pm s) = Some pl ->
  wf (both_pl pid (pl_with_conns pl (p_conns pl ++ [k]))
        (both_cn k (mkCn k t name settings pid plugin [] 0 (p_prov pl) (clock s)) s)).
Proof.
  intros W F Hk Hp. destruct (fresh_not_ref s k W F) as [NR1 NR2].
  destruct F as (F1 & F2 & F3 & F4). dW W.
  destruct (NR1 _ _ Hp) as [NRc NRp].
  constructor; simpl.
  all: try solve [apply meq_set; auto].
  all: try assumption.
  - intros n. rewrite Wn. split; intros (k0 & p & H & E).
    + destruct (Nat.eq_dec k0 pid) as [->|N].
      * same Hp H. eexists pid, _; gk; split; [reflexivity|simpl; congruence].
      * exists k0, p; gk; auto.
    + lk; eauto.
  - intros; lk; simpl in *; eauto.
  - intros; lk; simpl; auto.
  - intros; lk; simpl; auto.
  - intros; lk; simpl; [|eauto]. destruct (Wndp _ _ Hp). split; [apply NoDup_snoc|]; auto.
  - intros; lk; simpl; [constructor|eauto].
  - intros k0 p c H HI; lk; simpl in *.
    + apply In_snoc in HI. destruct HI as [HI| ->].
      * destruct (Wpc _ _ _ Hp HI) as (cn & E & ?). exists cn. assert (c <> k) by congruence. gk. auto.
      * eexists; gk; split; reflexivity.
    + destruct (Wpc _ _ _ H HI) as (cn & E & ?). exists cn. assert (c <> k) by congruence. gk. auto.
  - intros k0 c H; lk; simpl in *.
    + eexists; gk. split; [reflexivity|]. simpl. rewrite In_snoc. auto.
    + destruct (Wcp _ _ H) as (p & E & HI & ?).
      destruct (Nat.eq_dec (c_pipeline c) pid) as [Eq|N].
      * rewrite Eq in *. same Hp E. eexists; gk. split; [reflexivity|]. simpl. rewrite In_snoc. auto.
      * exists p. gk. auto.
  - intros k0 p r H HI; lk; simpl in *; destruct (Wpr _ _ _ ltac:(eassumption) HI) as (pr & E & ?); exists pr; auto.
  - intros k0 c r H HI; lk; simpl in *; [contradiction|eauto].
  - intros k0 r H. destruct (Wrp _ _ H) as [(? & p & E & HI & ?)|(? & c & E & HI & ?)]; [left|right]; split; auto.
    + destruct (Nat.eq_dec (r_parent r) pid) as [Eq|N].
      * rewrite Eq in *. same Hp E. eexists; gk. split; [reflexivity|]. simpl. auto.
      * exists p. gk. auto.
    + exists c. assert (r_parent r <> k) by congruence. gk. auto.
Qed.

Lemma cn_delete_wf s cid c pl :
  wf s -> lookup cid (cm s) = Some c -> c_procs c = [] -> lookup (c_pipeline c) (pm s) = Some pl ->
  wf (both_pl (c_pipeline c) (pl_with_conns pl (remove_first cid (p_conns pl))) (w_cm (del cid) (w_cs (del cid) s))).
Proof.
  intros W Hc Er Hp. dW W. remember (c_pipeline c) as pid eqn:Epid.
  destruct (Wndp _ _ Hp) as [NDc NDp].
  constructor; simpl.
  all: try solve [apply meq_set; auto].
  all: try solve [apply meq_del; auto].
  all: try assumption.
  - intros n. rewrite Wn. split; intros (k0 & p & H & E).
    + destruct (Nat.eq_dec k0 pid) as [E0|N]; [subst k0|].
      * same Hp H. eexists pid, _; gk; split; [reflexivity|simpl; congruence].
      * exists k0, p; gk; auto.
    + lk; eauto.
  - intros; lk; simpl in *; eauto.
  - intros; lk; simpl; eauto.
  - intros; lk; eauto.
  - intros; lk; simpl; [|eauto]. split; [apply remove_first_NoDup|]; auto.
  - intros; lk; eauto.
  - intros k0 p x H HI; lk; simpl in *.
    + apply remove_first_In_iff in HI; [|exact NDc]. destruct HI as [HI N].
      destruct (Wpc _ _ _ Hp HI) as (cn & E & ?). exists cn. gk. auto.
    + destruct (Wpc _ _ _ H HI) as (cn & E & Ek). exists cn.
      assert (x <> cid) by (intros ->; same Hc E; congruence). gk. auto.
  - intros k0 x H; lk.
    destruct (Wcp _ _ H) as (p & E & HI & ?).
    destruct (Nat.eq_dec (c_pipeline x) pid) as [Eq|N].
    + rewrite Eq in *. same Hp E. eexists; gk. split; [reflexivity|]. simpl. split; [|auto].
      apply remove_first_In_iff; auto.
    + exists p. gk. auto.
  - intros k0 p r H HI; lk; simpl in *; eauto.
  - intros k0 x r H HI; lk; eauto.
  - intros k0 r H. destruct (Wrp _ _ H) as [(? & p & E & HI & ?)|(? & x & E & HI & ?)]; [left|right]; split; auto.
    + destruct (Nat.eq_dec (r_parent r) pid) as [Eq|N].
      * rewrite Eq in *. same Hp E. eexists; gk. split; [reflexivity|]. simpl. auto.
      * exists p. gk. auto.
    + exists x. assert (r_parent r <> cid) by (intros Eq; rewrite Eq in E; same Hc E; rewrite Er in HI; contradiction).
      gk. auto.
Qed.

(* ---------- processors ---------- *)

Lemma pr_create_pl_wf s k plugin cond pid settings w pl :
  wf s -> fresh k s -> k < next s -> plugin <> 0 ->
  lookup pid (pm s) = Some pl ->
  wf (both_pl pid (pl_with_procs pl (p_procs pl ++ [k]))
        (both_pr k (mkPr k plugin cond 2 pid settings w (p_prov pl) (clock s)) s)).
Proof.
  intros W F Hk Hpl Hp. destruct (fresh_not_ref s k W F) as [NR1 NR2].
  destruct F as (F1 & F2 & F3 & F4). dW W.
  destruct (NR1 _ _ Hp) as [NRc NRp].
  constructor; simpl.
  all: try solve [apply meq_set; auto].
  all: try assumption.
  - intros n. rewrite Wn. split; intros (k0 & p & H & E).
    + destruct (Nat.eq_dec k0 pid) as [->|N].
      * same Hp H. eexists pid, _; gk; split; [reflexivity|simpl; congruence].
      * exists k0, p; gk; auto.
    + lk; eauto.
  - intros; lk; simpl in *; eauto.
  - intros; lk; simpl; auto.
  - intros; lk; simpl; auto.
  - intros; lk; simpl; [|eauto]. destruct (Wndp _ _ Hp). split; [|apply NoDup_snoc]; auto.
  - intros k0 p c H HI; lk; simpl in *; eauto.
  - intros k0 c H. destruct (Wcp _ _ H) as (p & E & HI & ?).
    destruct (Nat.eq_dec (c_pipeline c) pid) as [Eq|N].
    + rewrite Eq in *. same Hp E. eexists; gk. split; [reflexivity|]. simpl. auto.
    + exists p. gk. auto.
  - intros k0 p r H HI; lk; simpl in *.
    + apply In_snoc in HI. destruct HI as [HI| ->].
      * destruct (Wpr _ _ _ Hp HI) as (pr & E & ?). exists pr. assert (r <> k) by congruence. gk. auto.
      * eexists; gk; split; [reflexivity|auto].
    + destruct (Wpr _ _ _ H HI) as (pr & E & ?). exists pr. assert (r <> k) by congruence. gk. auto.
  - intros k0 c r H HI. destruct (Wcr _ _ _ H HI) as (pr & E & ?). exists pr. assert (r <> k) by congruence. gk. auto.
  - intros k0 r H; lk; simpl in *.
    + left. split; [reflexivity|]. eexists; gk. split; [reflexivity|]. simpl. rewrite In_snoc. auto.
    + destruct (Wrp _ _ H) as [(? & p & E & HI & ?)|(? & c & E & HI & ?)]; [left|right]; split; auto.
      * destruct (Nat.eq_dec (r_parent r) pid) as [Eq|N].
        -- rewrite Eq in *. same Hp E. eexists; gk. split; [reflexivity|]. simpl. rewrite In_snoc. auto.
        -- exists p. gk. auto.
      * eauto.
Qed.

Lemma pr_create_cn_wf s k plugin cond cid settings w c :
  wf s -> fresh k s -> k < next s -> plugin <> 0 ->
  lookup cid (cm s) = Some c ->
  wf (both_cn cid (cn_with_procs c (c_procs c ++ [k]))
        (both_pr k (mkPr k plugin cond 1 cid settings w (c_prov c) (clock s)) s)).
Proof.
  intros W F Hk Hpl Hc. destruct (fresh_not_ref s k W F) as [NR1 NR2].
  destruct F as (F1 & F2 & F3 & F4). dW W.
  pose proof (NR2 _ _ Hc) as NRr.
  constructor; simpl.
  all: try solve [apply meq_set; auto].
  all: try assumption.
  - intros; lk; simpl; [|eauto]. destruct (Wkc _ _ Hc). auto.
  - intros; lk; simpl; auto.
  - intros; lk; simpl; [|eauto]. apply NoDup_snoc; eauto.
  - intros k0 p x H HI. destruct (Wpc _ _ _ H HI) as (cn & E & Ek).
    destruct (Nat.eq_dec x cid) as [->|N].
    + same Hc E. eexists; gk. split; [reflexivity|]. simpl. auto.
    + exists cn. gk. auto.
  - intros k0 x H; lk; simpl; eauto.
  - intros k0 p r H HI. destruct (Wpr _ _ _ H HI) as (pr & E & ?). exists pr. assert (r <> k) by congruence. gk. auto.
  - intros k0 x r H HI; lk; simpl in *.
    + apply In_snoc in HI. destruct HI as [HI| ->].
      * destruct (Wcr _ _ _ Hc HI) as (pr & E & ?). exists pr. assert (r <> k) by congruence. gk. auto.
      * eexists; gk; split; [reflexivity|auto].
    + destruct (Wcr _ _ _ H HI) as (pr & E & ?). exists pr. assert (r <> k) by congruence. gk. auto.
  - intros k0 r H; lk; simpl in *.
    + right. split; [reflexivity|]. eexists; gk. split; [reflexivity|]. simpl. rewrite In_snoc. auto.
    + destruct (Wrp _ _ H) as [(? & p & E & HI & ?)|(? & x & E & HI & ?)]; [left|right]; split; auto.
      * eauto.
      * destruct (Nat.eq_dec (r_parent r) cid) as [Eq|N].
        -- rewrite Eq in *. same Hc E. eexists; gk. split; [reflexivity|]. simpl. rewrite In_snoc. auto.
        -- exists x. gk. auto.
Qed.

Lemma pr_delete_pl_wf s rid r pl :
  wf s -> lookup rid (rm s) = Some r -> r_ptype r = 2 -> lookup (r_parent r) (pm s) = Some pl ->
  wf (both_pl (r_parent r) (pl_with_procs pl (remove_first rid (p_procs pl))) (w_rm (del rid) (w_rs (del rid) s))).
Proof.
  intros W Hr Et Hp. dW W. remember (r_parent r) as pid eqn:Epid.
  destruct (Wndp _ _ Hp) as [NDc NDp].
  constructor; simpl.
  all: try solve [apply meq_set; auto].
  all: try solve [apply meq_del; auto].
  all: try assumption.
  - intros n. rewrite Wn. split; intros (k0 & p & H & E).
    + destruct (Nat.eq_dec k0 pid) as [E0|N]; [subst k0|].
      * same Hp H. eexists pid, _; gk; split; [reflexivity|simpl; congruence].
      * exists k0, p; gk; auto.
    + lk; eauto.
  - intros; lk; simpl in *; eauto.
  - intros; lk; simpl; eauto.
  - intros; lk; eauto.
  - intros; lk; simpl; [|eauto]. split; [|apply remove_first_NoDup]; auto.
  - intros k0 p c H HI; lk; simpl in *; eauto.
  - intros k0 c H. destruct (Wcp _ _ H) as (p & E & HI & ?).
    destruct (Nat.eq_dec (c_pipeline c) pid) as [Eq|N].
    + rewrite Eq in *. same Hp E. eexists; gk. split; [reflexivity|]. simpl. auto.
    + exists p. gk. auto.
  - intros k0 p x H HI; lk; simpl in *.
    + apply remove_first_In_iff in HI; [|exact NDp]. destruct HI as [HI N].
      destruct (Wpr _ _ _ Hp HI) as (pr & E & ?). exists pr. gk. auto.
    + destruct (Wpr _ _ _ H HI) as (pr & E & Et' & Ek). exists pr.
      assert (x <> rid) by (intros ->; same Hr E; congruence). gk. auto.
  - intros k0 c x H HI. destruct (Wcr _ _ _ H HI) as (pr & E & Et' & Ek). exists pr.
    assert (x <> rid) by (intros ->; same Hr E; congruence). gk. auto.
  - intros k0 x H; lk.
    destruct (Wrp _ _ H) as [(? & p & E & HI & ?)|(? & c & E & HI & ?)]; [left|right]; split; auto.
    + destruct (Nat.eq_dec (r_parent x) pid) as [Eq|N].
      * rewrite Eq in *. same Hp E. eexists; gk. split; [reflexivity|]. simpl. split; [|auto].
        apply remove_first_In_iff; auto.
      * exists p. gk. auto.
    + eauto.
Qed.

Lemma pr_delete_cn_wf s rid r c :
  wf s -> lookup rid (rm s) = Some r -> r_ptype r = 1 -> lookup (r_parent r) (cm s) = Some c ->
  wf (both_cn (r_parent r) (cn_with_procs c (remove_first rid (c_procs c))) (w_rm (del rid) (w_rs (del rid) s))).
Proof.
  intros W Hr Et Hc. dW W. remember (r_parent r) as cid eqn:Ecid.
  pose proof (Wndc _ _ Hc) as NDr.
  constructor; simpl.
  all: try solve [apply meq_set; auto].
  all: try solve [apply meq_del; auto].
  all: try assumption.
  - intros; lk; simpl; [|eauto]. destruct (Wkc _ _ Hc). auto.
  - intros; lk; eauto.
  - intros; lk; simpl; [|eauto]. apply remove_first_NoDup; auto.
  - intros k0 p x H HI. destruct (Wpc _ _ _ H HI) as (cn & E & Ek).
    destruct (Nat.eq_dec x cid) as [E0|N]; [subst x|].
    + same Hc E. eexists; gk. split; [reflexivity|]. simpl. auto.
    + exists cn. gk. auto.
  - intros k0 x H; lk; simpl; eauto.
  - intros k0 p x H HI. destruct (Wpr _ _ _ H HI) as (pr & E & Et' & Ek). exists pr.
    assert (x <> rid) by (intros ->; same Hr E; congruence). gk. auto.
  - intros k0 x y H HI; lk; simpl in *.
    + apply remove_first_In_iff in HI; [|exact NDr]. destruct HI as [HI N].
      destruct (Wcr _ _ _ Hc HI) as (pr & E & ?). exists pr. gk. auto.
    + destruct (Wcr _ _ _ H HI) as (pr & E & Et' & Ek). exists pr.
      assert (y <> rid) by (intros ->; same Hr E; congruence). gk. auto.
  - intros k0 x H; lk.
    destruct (Wrp _ _ H) as [(? & p & E & HI & ?)|(? & y & E & HI & ?)]; [left|right]; split; auto.
    + eauto.
    + destruct (Nat.eq_dec (r_parent x) cid) as [Eq|N].
      * rewrite Eq in *. same Hc E. eexists; gk. split; [reflexivity|]. simpl. split; [|auto].
        apply remove_first_In_iff; auto.
      * exists y. gk. auto.
Qed.

(* ---------- every call of the reference semantics preserves the invariant ---------- *)

Lemma is_api_true v : is_api v = true -> v = ProvAPI.
Proof. destruct v; simpl; congruence. Qed.

Lemma spec_pl_guard_inv k s pl :
  spec_pl_guard k s = Ok pl -> lookup k (pm s) = Some pl /\ p_prov pl = ProvAPI /\ is_running pl = false.
Proof.
  unfold spec_pl_guard. destruct (lookup k (pm s)) as [p|]; [|discriminate].
  destruct (is_api (p_prov p)) eqn:Ea; simpl; [|discriminate].
  destruct (is_running p) eqn:Er; [discriminate|]. intros E; inversion E; subst.
  auto using is_api_true.
Qed.

Lemma spec_procs_pipeline_inv t parent s pl :
  spec_procs_pipeline t parent s = Ok pl ->
  (t = 2 /\ lookup parent (pm s) = Some pl)
  \/ (t = 1 /\ exists c, lookup parent (cm s) = Some c /\ lookup (c_pipeline c) (pm s) = Some pl).
Proof.
  unfold spec_procs_pipeline.
  destruct (Nat.eqb_spec t 2) as [->|N2].
  - destruct (lookup parent (pm s)) eqn:E; [|discriminate]. intros H; inversion H; subst. auto.
  - destruct (Nat.eqb_spec t 1) as [->|N1]; [|discriminate].
    destruct (lookup parent (cm s)) as [c|] eqn:E; [|discriminate].
    destruct (lookup (c_pipeline c) (pm s)) eqn:E2; [|discriminate].
    intros H; inversion H; subst. right. eauto.
Qed.

Lemma spec_op_wf k o s : wf s -> fresh k s -> (is_create o = true -> k < next s) -> wf (snd (spec_op k o s)).
Proof.
  intros W F Hk. destruct o; simpl in Hk; try specialize (Hk eq_refl); simpl.
  - (* PlCreate *)
    destruct ((name =? 0) || memb name (names s) || long name || long desc) eqn:G; simpl; [exact W|].
    repeat (apply orb_false_iff in G; destruct G as [G ?]).
    apply pl_create_wf; auto.
  - (* PlUpdate *)
    destruct (spec_pl_guard pid s) as [pl|] eqn:G; simpl; [|exact W].
    apply spec_pl_guard_inv in G. destruct G as (Hp & Hv & Hr).
    destruct (name =? 0) eqn:G0; simpl; [exact W|].
    destruct (memb name (names s) && negb (p_name pl =? name)) eqn:G1; simpl; [exact W|].
    pose proof W as W'. dW W'.
    refine (upd_pl_wf s pid pl (pl_with_cfg pl name desc) (name :: remove_all (p_name pl) (names s)) W Hp
              eq_refl eq_refl eq_refl eq_refl _ _).
    + intros n. simpl. rewrite orb_true_iff, Nat.eqb_eq, memb_remove_all, andb_true_iff, negb_true_iff, Nat.eqb_neq, Wn.
      split.
      * intros [->|[(k0 & p & H & E) N]]; [auto|]. right. exists k0, p. repeat split; auto.
        intros ->. same Hp H. congruence.
      * intros [->|(k0 & p & N & H & E)]; [auto|]. right. split; [eauto|].
        intros ->. apply N. eapply Wu; eauto.
    + intros k0 p N H E. simpl in E.
      apply andb_false_iff in G1. destruct G1 as [G1|G1].
      * assert (memb name (names s) = true) by (apply Wn; eauto). congruence.
      * apply negb_false_iff, Nat.eqb_eq in G1. apply N. eapply Wu; eauto. congruence.
  - (* PlDelete *)
    destruct (spec_pl_guard pid s) as [pl|] eqn:G; simpl; [|exact W].
    apply spec_pl_guard_inv in G. destruct G as (Hp & Hv & Hr).
    destruct (length (p_conns pl) =? 0) eqn:G0; simpl; [|exact W].
    destruct (length (p_procs pl) =? 0) eqn:G1; simpl; [|exact W].
    apply pl_delete_wf; auto using length_zero_nil.
  - (* PlUpdateDLQ *)
    destruct (spec_pl_guard pid s) as [pl|] eqn:G; simpl; [|exact W].
    apply spec_pl_guard_inv in G. destruct G as (Hp & Hv & Hr).
    destruct (validate 2 (d_plugin d) (d_settings d)); simpl; [|exact W].
    destruct (dlq_ok d); simpl; [|exact W].
    pose proof W as W'. dW W'.
    refine (upd_pl_wf s pid pl (pl_with_dlq pl d) (names s) W Hp eq_refl eq_refl eq_refl eq_refl _ _).
    + intros n. simpl. rewrite Wn. split.
      * intros (k0 & p & H & E). destruct (Nat.eq_dec k0 pid) as [->|N]; [left; same Hp H; congruence|right; eauto].
      * intros [->|(k0 & p & N & H & E)]; eauto.
    + intros k0 p N H E. simpl in E. apply N. eapply Wu; eauto.
  - (* CnCreate *)
    destruct (lookup pid (pm s)) as [pl|] eqn:Hp; simpl; [|exact W].
    destruct (is_api (p_prov pl)) eqn:Ga; simpl; [|exact W].
    destruct (is_running pl); simpl; [exact W|].
    destruct (validate t plugin settings); simpl; [|exact W].
    destruct ((name =? 0) || long name); simpl; [exact W|].
    destruct (plugin =? 0); simpl; [exact W|].
    rewrite <- (is_api_true _ Ga). apply cn_create_wf; auto.
  - (* CnUpdate *)
    destruct (lookup cid (cm s)) as [c|] eqn:Hc; simpl; [|exact W].
    destruct (is_api (c_prov c)); simpl; [|exact W].
    destruct (lookup (c_pipeline c) (pm s)) as [pl|] eqn:Hp; simpl; [|exact W].
    destruct (is_running pl); simpl; [exact W|].
    destruct (validate (c_type c) (c_plugin c) settings); simpl; [|exact W].
    apply (upd_cn_wf s cid c); auto.
  - (* CnDelete *)
    destruct (lookup cid (cm s)) as [c|] eqn:Hc; simpl; [|exact W].
    destruct (is_api (c_prov c)); simpl; [|exact W].
    destruct (length (c_procs c) =? 0) eqn:G0; simpl; [|exact W].
    destruct (lookup (c_pipeline c) (pm s)) as [pl|] eqn:Hp; simpl; [|exact W].
    destruct (is_running pl); simpl; [exact W|].
    destruct (wf_key_p s W _ _ Hp) as [-> _].
    apply cn_delete_wf; auto using length_zero_nil.
  - (* PrCreate *)
    destruct (spec_procs_pipeline ptype parent s) as [pl|] eqn:G; simpl; [|exact W].
    destruct (is_api (p_prov pl)) eqn:Ga; simpl; [|exact W].
    destruct (is_running pl); simpl; [exact W|].
    destruct (workers <? 0)%Z; simpl; [exact W|].
    destruct (proc_plugin_ok plugin) eqn:Gp; simpl; [|exact W].
    assert (plugin <> 0) by (unfold proc_plugin_ok in Gp; destruct (Nat.eqb_spec plugin 0); [discriminate|auto]).
    apply spec_procs_pipeline_inv in G. destruct G as [[-> Hp]|(-> & c & Hc & Hp)]; simpl.
    + destruct (wf_key_p s W _ _ Hp) as [-> _].
      rewrite <- (is_api_true _ Ga). apply pr_create_pl_wf; auto.
    + rewrite Hc. simpl.
      destruct (wf_cp s W _ _ Hc) as (p & E & _ & Ev). same Hp E.
      rewrite <- (is_api_true _ Ga), <- Ev. apply pr_create_cn_wf; auto.
  - (* PrUpdate *)
    destruct (lookup rid (rm s)) as [r|] eqn:Hr; simpl; [|exact W].
    destruct (is_api (r_prov r)); simpl; [|exact W].
    destruct (spec_procs_pipeline (r_ptype r) (r_parent r) s) as [pl|]; simpl; [|exact W].
    destruct (is_running pl); simpl; [exact W|].
    destruct (memb rid (prun s)); simpl; [exact W|].
    destruct (Nat.eqb_spec plugin 0); simpl; [exact W|].
    apply (upd_pr_wf s rid r); auto.
  - (* PrDelete *)
    destruct (lookup rid (rm s)) as [r|] eqn:Hr; simpl; [|exact W].
    destruct (is_api (r_prov r)); simpl; [|exact W].
    destruct (spec_procs_pipeline (r_ptype r) (r_parent r) s) as [pl|] eqn:G; simpl; [|exact W].
    destruct (is_running pl); simpl; [exact W|].
    destruct (memb rid (prun s)); simpl; [exact W|].
    apply spec_procs_pipeline_inv in G. destruct G as [[Et Hp]|(Et & c & Hc & Hp)]; rewrite Et; simpl.
    + destruct (memb rid (p_procs pl)); simpl; [|exact W].
      destruct (wf_key_p s W _ _ Hp) as [-> _].
      apply pr_delete_pl_wf; auto.
    + rewrite Hc. destruct (memb rid (c_procs c)); simpl; [|exact W].
      apply pr_delete_cn_wf; auto.
Qed.

Lemma spec_step_wf s o : wf s -> wf (snd (spec_step s o)).
Proof.
  intros W. unfold spec_step. apply spec_op_wf.
  - apply wf_bump; exact W.
  - apply fresh_bump, wf_fresh; exact W.
  - unfold bump; simpl. intros ->. lia.
Qed.
