(* C14 - entities and state of the management API layer.
   pkg/pipeline/instance.go, pkg/connector/instance.go, pkg/processor/instance.go: the fields that
   matter for "API changes are all-or-nothing".  Strings are abstracted to naturals by the harness
   (ids, names, plugin names, settings maps, conditions, connector state); see harness/cmd/c14.
     name / description n : 0 = "", 1..999 = a short string, >= 1000 = a string over every length limit
     plugin n             : 0 = "", 5 = a plugin the fake plugin services refuse
     settings n           : 0 = nil, 7 = settings the fake connector plugin service refuses
     state n              : 0 = nil, else a source position / destination positions
     created n            : CreatedAt as the index of the API call during which time.Now() was read
                            (0 = before the history started)
   UpdatedAt is not modelled (see the assumptions of C14).
   Definitions only. *)
From Coq Require Export List Arith Bool ZArith Lia.
Export ListNotations.

Definition id := nat.

Inductive status := StRunning | StSystemStopped | StUserStopped | StDegraded | StRecovering.
Inductive prov := ProvAPI | ProvConfig.

Record dlq := mkDlq { d_plugin : nat; d_settings : nat; d_size : Z; d_thr : Z }.
(* pipeline.DefaultDLQ: plugin "builtin:log" and its settings are canonicalised to 9 *)
Definition default_dlq := mkDlq 9 9 1%Z 0%Z.

Record pipeline := mkPl {
  p_id : id; p_name : nat; p_desc : nat; p_status : status; p_prov : prov; p_dlq : dlq;
  p_conns : list id; p_procs : list id; p_created : nat }.

(* c_type: 1 = source, 2 = destination (anything else is refused) *)
Record connector := mkCn {
  c_id : id; c_type : nat; c_name : nat; c_settings : nat; c_pipeline : id; c_plugin : nat;
  c_procs : list id; c_state : nat; c_prov : prov; c_created : nat }.

(* r_ptype: 1 = parent is a connector, 2 = parent is a pipeline *)
Record processor := mkPr {
  r_id : id; r_plugin : nat; r_cond : nat; r_ptype : nat; r_parent : id;
  r_settings : nat; r_workers : Z; r_prov : prov; r_created : nat }.

(* ---------- association lists keyed by id (Go maps) ---------- *)
Section Map.
  Context {V : Type}.
  Fixpoint lookup (k : id) (l : list (id * V)) : option V :=
    match l with
    | [] => None
    | (k', v) :: r => if Nat.eqb k' k then Some v else lookup k r
    end.
  Fixpoint set (k : id) (v : V) (l : list (id * V)) : list (id * V) :=
    match l with
    | [] => [(k, v)]
    | (k', v') :: r => if Nat.eqb k' k then (k, v) :: r else (k', v') :: set k v r
    end.
  Definition del (k : id) (l : list (id * V)) : list (id * V) :=
    filter (fun kv => negb (Nat.eqb (fst kv) k)) l.
End Map.

Fixpoint memb (n : nat) (l : list nat) : bool :=
  match l with [] => false | a :: r => Nat.eqb a n || memb n r end.
(* delete(map, key) on a set represented as a list *)
Definition remove_all (n : nat) (l : list nat) : list nat := filter (fun a => negb (Nat.eqb a n)) l.
(* the slice surgery of RemoveConnector / RemoveProcessor: drop the first occurrence *)
Fixpoint remove_first (n : nat) (l : list nat) : list nat :=
  match l with [] => [] | a :: r => if Nat.eqb a n then r else a :: remove_first n r end.

(* ---------- the state: three services (in-memory maps) and the store ---------- *)
Record state := mkState {
  pm : list (id * pipeline);      (* pipeline.Service.instances *)
  cm : list (id * connector);     (* connector.Service.connectors *)
  rm : list (id * processor);     (* processor.Service.instances *)
  names : list nat;               (* pipeline.Service.instanceNames (a set) *)
  prun : list id;                 (* processors whose Instance.running flag is set (memory only) *)
  ps : list (id * pipeline);      (* store, prefix pipeline:instance: *)
  cs : list (id * connector);     (* store, prefix connector:instance: *)
  rs : list (id * processor);     (* store, prefix processor:instance: *)
  next : id;                      (* supply of fresh ids (uuid.NewString) *)
  clock : nat }.                  (* index of the current API call *)

Definition empty_state := mkState [] [] [] [] [] [] [] [] 0 0.

Definition w_pm g s := mkState (g (pm s)) (cm s) (rm s) (names s) (prun s) (ps s) (cs s) (rs s) (next s) (clock s).
Definition w_cm g s := mkState (pm s) (g (cm s)) (rm s) (names s) (prun s) (ps s) (cs s) (rs s) (next s) (clock s).
Definition w_rm g s := mkState (pm s) (cm s) (g (rm s)) (names s) (prun s) (ps s) (cs s) (rs s) (next s) (clock s).
Definition w_names g s := mkState (pm s) (cm s) (rm s) (g (names s)) (prun s) (ps s) (cs s) (rs s) (next s) (clock s).
Definition w_ps g s := mkState (pm s) (cm s) (rm s) (names s) (prun s) (g (ps s)) (cs s) (rs s) (next s) (clock s).
Definition w_cs g s := mkState (pm s) (cm s) (rm s) (names s) (prun s) (ps s) (g (cs s)) (rs s) (next s) (clock s).
Definition w_rs g s := mkState (pm s) (cm s) (rm s) (names s) (prun s) (ps s) (cs s) (g (rs s)) (next s) (clock s).

(* field updates of the instances *)
Definition pl_with_cfg (p : pipeline) name desc :=
  mkPl (p_id p) name desc (p_status p) (p_prov p) (p_dlq p) (p_conns p) (p_procs p) (p_created p).
Definition pl_with_dlq (p : pipeline) d :=
  mkPl (p_id p) (p_name p) (p_desc p) (p_status p) (p_prov p) d (p_conns p) (p_procs p) (p_created p).
Definition pl_with_conns (p : pipeline) l :=
  mkPl (p_id p) (p_name p) (p_desc p) (p_status p) (p_prov p) (p_dlq p) l (p_procs p) (p_created p).
Definition pl_with_procs (p : pipeline) l :=
  mkPl (p_id p) (p_name p) (p_desc p) (p_status p) (p_prov p) (p_dlq p) (p_conns p) l (p_created p).
Definition pl_with_status (p : pipeline) st :=
  mkPl (p_id p) (p_name p) (p_desc p) st (p_prov p) (p_dlq p) (p_conns p) (p_procs p) (p_created p).
Definition cn_with_cfg (c : connector) plugin name settings :=
  mkCn (c_id c) (c_type c) name settings (c_pipeline c) plugin (c_procs c) (c_state c) (c_prov c) (c_created c).
Definition cn_with_procs (c : connector) l :=
  mkCn (c_id c) (c_type c) (c_name c) (c_settings c) (c_pipeline c) (c_plugin c) l (c_state c) (c_prov c) (c_created c).
Definition pr_with_cfg (r : processor) plugin settings workers :=
  mkPr (r_id r) plugin (r_cond r) (r_ptype r) (r_parent r) settings workers (r_prov r) (r_created r).

Definition long (n : nat) : bool := 1000 <=? n.
Definition is_running (p : pipeline) : bool := match p_status p with StRunning => true | _ => false end.
Definition is_api (v : prov) : bool := match v with ProvAPI => true | ProvConfig => false end.

(* the scripted fake plugin services of the harness *)
Definition conn_plugin_ok (plugin settings : nat) : bool := negb ((plugin =? 5) || (settings =? 7)).
Definition proc_plugin_ok (plugin : nat) : bool := negb ((plugin =? 0) || (plugin =? 5)).

(* pipeline.Service.Init: a pipeline stored as running is loaded as "system stopped" *)
Definition norm_status (p : pipeline) : pipeline :=
  if is_running p then pl_with_status p StSystemStopped else p.

(* the entries of the map an association list denotes (the first entry of a key wins) *)
Fixpoint entries_aux {V} (seen : list nat) (l : list (id * V)) : list (id * V) :=
  match l with
  | [] => []
  | (k, v) :: r => if memb k seen then entries_aux seen r else (k, v) :: entries_aux (k :: seen) r
  end.
Definition entries {V} (l : list (id * V)) := entries_aux [] l.

(* what a restarted server loads: fresh services Init'ed on the same store (Store.GetAll builds a
   Go map from the keys; pipeline.Service.Init fills instanceNames from it) *)
Definition reload (s : state) : state :=
  mkState (map (fun kv => (fst kv, norm_status (snd kv))) (ps s)) (cs s) (rs s)
          (map (fun kv => p_name (snd kv)) (entries (ps s))) []
          (ps s) (cs s) (rs s) (next s) (clock s).
