(* C14 - guards: a call aimed at a resource of a running or config-provisioned pipeline changes
   nothing, whatever store failure is injected (the guards come before the first mutation).
   [target] is the pipeline the call's resource belongs to. *)
From Verif Require Import Api.Invariant Api.SpecWf Api.Refine.
From Verif Require Export Api.Owner.

Definition target (s : state) (o : op) : option id :=
  match o with
  | PlCreate _ _ => None
  | PlUpdate pid _ _ | PlDelete pid | PlUpdateDLQ pid _ => Some pid
  | CnCreate _ _ pid _ _ => Some pid
  | CnUpdate cid _ _ _ | CnDelete cid => option_map c_pipeline (lookup cid (cm s))
  | PrCreate _ ptype parent _ _ _ =>
      if ptype =? 2 then Some parent
      else if ptype =? 1 then option_map c_pipeline (lookup parent (cm s))
      else None
  | PrUpdate rid _ _ _ | PrDelete rid =>
      match lookup rid (rm s) with Some r => owner_pr s r | None => None end
  end.

Definition refused (f : option nat) (k : id) (o : op) (s0 : state) : Prop :=
  let (out, e) := exec_op f k o (mkEx s0 None 0) in
  out <> OOk /\ st_equiv (st (discard e)) s0.

Ltac unfr := cbv [refused exec_op o_pl_create o_pl_update o_pl_delete o_pl_update_dlq o_cn_create o_cn_update o_cn_delete
  o_pr_create o_pr_update o_pr_delete pl_guard procs_pipeline
  new_txn tick fail_with rb_of run_rb rb_discard].

Ltac finr := split; [discriminate|constructor; intros ?; reflexivity].

Lemma option_map_some {A B} (g : A -> B) (x : option A) y :
  option_map g x = Some y -> exists a, x = Some a /\ g a = y.
Proof. destruct x; simpl; [intros E; inversion E; eauto|discriminate]. Qed.

Lemma guarded_cases pl : guarded pl = true ->
  is_api (p_prov pl) = false \/ (is_api (p_prov pl) = true /\ is_running pl = true).
Proof. unfold guarded. destruct (is_api (p_prov pl)), (is_running pl); simpl; auto; discriminate. Qed.

Lemma is_api_prov a b : a = b -> is_api a = is_api b.
Proof. congruence. Qed.

(* the guard prefix of every operation, run with any fault *)
Lemma guarded_refused f k o s0 pid pl :
  wf s0 -> target s0 o = Some pid -> lookup pid (pm s0) = Some pl -> guarded pl = true ->
  refused f k o s0.
Proof.
  intros W T Hp Hg. apply guarded_cases in Hg.
  destruct o; simpl in T.
  - discriminate T.
  - (* PlUpdate *) inversion T; subst. unfr. simpl. rewrite Hp.
    destruct Hg as [Ha|[Ha Hr]]; rewrite Ha; simpl; [finr|rewrite Hr; finr].
  - (* PlDelete *) inversion T; subst. unfr. simpl. rewrite Hp.
    destruct Hg as [Ha|[Ha Hr]]; rewrite Ha; simpl; [finr|rewrite Hr; finr].
  - (* PlUpdateDLQ *) inversion T; subst. unfr. simpl. rewrite Hp.
    destruct Hg as [Ha|[Ha Hr]]; rewrite Ha; simpl; [finr|rewrite Hr; finr].
  - (* CnCreate *) inversion T; subst.
    destruct f as [[|n]|]; unfr; simpl; try finr; rewrite Hp;
      (destruct Hg as [Ha|[Ha Hr]]; rewrite Ha; simpl; [finr|rewrite Hr; finr]).
  - (* CnUpdate *) apply option_map_some in T. destruct T as (c & Hc & Ec).
    destruct (wf_cp s0 W _ _ Hc) as (p & Hp' & _ & Ev). rewrite Ec in Hp'. rewrite Hp in Hp'. inversion Hp'; subst p.
    destruct f as [[|n]|]; unfr; simpl; try finr; rewrite Hc; rewrite (is_api_prov _ _ Ev);
      (destruct Hg as [Ha|[Ha Hr]]; rewrite Ha; simpl; [finr|rewrite Ec, Hp, Hr; finr]).
  - (* CnDelete *) apply option_map_some in T. destruct T as (c & Hc & Ec).
    destruct (wf_cp s0 W _ _ Hc) as (p & Hp' & _ & Ev). rewrite Ec in Hp'. rewrite Hp in Hp'. inversion Hp'; subst p.
    destruct f as [[|n]|]; unfr; simpl; try finr; rewrite Hc; rewrite (is_api_prov _ _ Ev);
      (destruct Hg as [Ha|[Ha Hr]]; rewrite Ha; simpl; [finr|]);
      (destruct (length (c_procs c) =? 0); simpl; [rewrite Ec, Hp, Hr; finr|finr]).
  - (* PrCreate *)
    destruct (Nat.eqb_spec ptype 2) as [->|N2].
    + inversion T; subst.
      destruct f as [[|n]|]; unfr; simpl; try finr; rewrite Hp;
        (destruct Hg as [Ha|[Ha Hr]]; rewrite Ha; simpl; [finr|rewrite Hr; finr]).
    + destruct (Nat.eqb_spec ptype 1) as [->|N1]; [|discriminate T].
      apply option_map_some in T. destruct T as (c & Hc & Ec).
      destruct f as [[|n]|]; unfr; simpl; try finr; rewrite Hc, Ec, Hp;
        (destruct Hg as [Ha|[Ha Hr]]; rewrite Ha; simpl; [finr|rewrite Hr; finr]).
  - (* PrUpdate *)
    destruct (lookup rid (rm s0)) as [r|] eqn:Hr0; [|discriminate T].
    unfold owner_pr in T.
    destruct (wf_rp s0 W _ _ Hr0) as [(Et & p & Hp' & _ & Ev)|(Et & c & Hc & _ & Ev)]; rewrite Et in T; simpl in T.
    + inversion T as [Ep]. rewrite Ep in Hp'. rewrite Hp in Hp'. inversion Hp'; subst p.
      destruct f as [[|n]|]; unfr; simpl; try finr; rewrite Hr0; rewrite (is_api_prov _ _ Ev);
        (destruct Hg as [Ha|[Ha Hr]]; rewrite Ha; simpl; [finr|rewrite Et; simpl; rewrite Ep, Hp, Hr; finr]).
    + rewrite Hc in T. simpl in T. inversion T as [Ep].
      destruct (wf_cp s0 W _ _ Hc) as (p & Hp' & _ & Ev2). rewrite Ep in Hp'. rewrite Hp in Hp'. inversion Hp'; subst p.
      assert (Ev3 : r_prov r = p_prov pl) by congruence.
      destruct f as [[|n]|]; unfr; simpl; try finr; rewrite Hr0; rewrite (is_api_prov _ _ Ev3);
        (destruct Hg as [Ha|[Ha Hr]]; rewrite Ha; simpl; [finr|rewrite Et; simpl; rewrite Hc, Ep, Hp, Hr; finr]).
  - (* PrDelete *)
    destruct (lookup rid (rm s0)) as [r|] eqn:Hr0; [|discriminate T].
    unfold owner_pr in T.
    destruct (wf_rp s0 W _ _ Hr0) as [(Et & p & Hp' & _ & Ev)|(Et & c & Hc & _ & Ev)]; rewrite Et in T; simpl in T.
    + inversion T as [Ep]. rewrite Ep in Hp'. rewrite Hp in Hp'. inversion Hp'; subst p.
      destruct f as [[|n]|]; unfr; simpl; try finr; rewrite Hr0; rewrite (is_api_prov _ _ Ev);
        (destruct Hg as [Ha|[Ha Hr]]; rewrite Ha; simpl; [finr|rewrite Et; simpl; rewrite Ep, Hp, Hr; finr]).
    + rewrite Hc in T. simpl in T. inversion T as [Ep].
      destruct (wf_cp s0 W _ _ Hc) as (p & Hp' & _ & Ev2). rewrite Ep in Hp'. rewrite Hp in Hp'. inversion Hp'; subst p.
      assert (Ev3 : r_prov r = p_prov pl) by congruence.
      destruct f as [[|n]|]; unfr; simpl; try finr; rewrite Hr0; rewrite (is_api_prov _ _ Ev3);
        (destruct Hg as [Ha|[Ha Hr]]; rewrite Ha; simpl; [finr|rewrite Et; simpl; rewrite Hc, Ep, Hp, Hr; finr]).
Qed.

(* guards_hold: whatever store failure is injected, a call aimed at a resource of a running or
   config-provisioned pipeline does not succeed and leaves memory and store as they were *)
Theorem guards_hold s o f pid pl :
  wf s -> target s o = Some pid -> lookup pid (pm s) = Some pl -> guarded pl = true ->
  fst (step f s o) <> OOk /\ st_equiv (snd (step f s o)) s.
Proof.
  intros W T Hp Hg.
  pose proof (guarded_refused f (next s) o (bump s o) pid pl (wf_bump s o W) T Hp Hg) as R.
  unfold refused in R. unfold step.
  destruct (exec_op f (next s) o {| st := bump s o; saved := None; ctr := 0 |}) as [out e]. simpl.
  destruct R as [R1 R2]. split; [exact R1|].
  eapply st_equiv_trans; [exact R2|apply st_equiv_sym, bump_equiv].
Qed.

(* ---------- frame: a call changes only resources of its target pipeline ---------- *)

(* the pipeline [pid], its connectors and its processors are the same in [a] and [b] (in-memory
   maps; under the invariant the store agrees with them on both sides) *)
Definition slice_unchanged (pid : id) (a b : state) : Prop :=
  lookup pid (pm b) = lookup pid (pm a)
  /\ (forall k, ((exists c, lookup k (cm b) = Some c /\ c_pipeline c = pid)
                 \/ (exists c, lookup k (cm a) = Some c /\ c_pipeline c = pid)) ->
                lookup k (cm b) = lookup k (cm a))
  /\ (forall k, ((exists r, lookup k (rm b) = Some r /\ owner_pr b r = Some pid)
                 \/ (exists r, lookup k (rm a) = Some r /\ owner_pr a r = Some pid)) ->
                lookup k (rm b) = lookup k (rm a)).

Lemma slice_unchanged_refl pid a : slice_unchanged pid a a.
Proof. repeat split; auto. Qed.

Lemma owner_pr_equiv a b r : meq (cm a) (cm b) -> owner_pr a r = owner_pr b r.
Proof. intros E. unfold owner_pr. rewrite E. reflexivity. Qed.

Lemma slice_unchanged_equiv_r pid a b b' :
  st_equiv b b' -> slice_unchanged pid a b -> slice_unchanged pid a b'.
Proof.
  intros [Ep Ec Er _ _ _ _ _] (H1 & H2 & H3). repeat split.
  - rewrite <- Ep. exact H1.
  - intros k H. rewrite <- Ec. apply H2. destruct H as [(c & H & E)|H]; [left; exists c; rewrite Ec; auto|right; exact H].
  - intros k H. rewrite <- Er. apply H3.
    destruct H as [(r & H & E)|H]; [left; exists r; rewrite Er, (owner_pr_equiv b b' r Ec); auto|right; exact H].
Qed.

Lemma slice_unchanged_equiv_l pid a a' b :
  st_equiv a a' -> slice_unchanged pid a b -> slice_unchanged pid a' b.
Proof.
  intros [Ep Ec Er _ _ _ _ _] (H1 & H2 & H3). repeat split.
  - rewrite <- Ep. exact H1.
  - intros k H. rewrite <- Ec. apply H2. destruct H as [H|(c & H & E)]; [left; exact H|right; exists c; rewrite Ec; auto].
  - intros k H. rewrite <- Er. apply H3.
    destruct H as [H|(r & H & E)]; [left; exact H|right; exists r; rewrite Er, (owner_pr_equiv a a' r Ec); auto].
Qed.

(* a key whose lookup changed must have been touched *)
Ltac frame_key k0 k1 :=
  destruct (Nat.eq_dec k0 k1) as [?Eq|?Ne]; [subst k0|gk; reflexivity].

Lemma spec_frame k o s pid pl :
  wf s -> fresh k s -> lookup pid (pm s) = Some pl -> target s o <> Some pid ->
  slice_unchanged pid s (snd (spec_op k o s)).
Proof.
  intros W F Hp T. pose proof W as W'. dW W'. destruct F as (F1 & F2 & F3 & F4).
  assert (Npk : pid <> k) by congruence.
  destruct o; simpl in T; simpl.
  - (* PlCreate *)
    destruct ((name =? 0) || memb name (names s) || long name || long desc); simpl; [apply slice_unchanged_refl|].
    repeat split; simpl; auto. gk. reflexivity.
  - (* PlUpdate *)
    destruct (spec_pl_guard pid0 s) as [p|]; simpl; [|apply slice_unchanged_refl].
    destruct (name =? 0); simpl; [apply slice_unchanged_refl|].
    destruct (memb name (names s) && negb (p_name p =? name)); simpl; [apply slice_unchanged_refl|].
    assert (pid <> pid0) by congruence. repeat split; simpl; auto. gk. reflexivity.
  - (* PlDelete *)
    destruct (spec_pl_guard pid0 s) as [p|]; simpl; [|apply slice_unchanged_refl].
    destruct (length (p_conns p) =? 0); simpl; [|apply slice_unchanged_refl].
    destruct (length (p_procs p) =? 0); simpl; [|apply slice_unchanged_refl].
    assert (pid <> pid0) by congruence. repeat split; simpl; auto. gk. reflexivity.
  - (* PlUpdateDLQ *)
    destruct (spec_pl_guard pid0 s) as [p|]; simpl; [|apply slice_unchanged_refl].
    destruct (validate 2 (d_plugin d) (d_settings d)); simpl; [|apply slice_unchanged_refl].
    destruct (dlq_ok d); simpl; [|apply slice_unchanged_refl].
    assert (pid <> pid0) by congruence. repeat split; simpl; auto. gk. reflexivity.
  - (* CnCreate *)
    destruct (lookup pid0 (pm s)) as [p|] eqn:Hp0; simpl; [|apply slice_unchanged_refl].
    destruct (is_api (p_prov p)); simpl; [|apply slice_unchanged_refl].
    destruct (is_running p); simpl; [apply slice_unchanged_refl|].
    destruct (validate t plugin settings); simpl; [|apply slice_unchanged_refl].
    destruct ((name =? 0) || long name); simpl; [apply slice_unchanged_refl|].
    destruct (plugin =? 0); simpl; [apply slice_unchanged_refl|].
    assert (pid <> pid0) by congruence. repeat split; simpl; auto.
    + gk. reflexivity.
    + intros k0 H0. frame_key k0 k. exfalso.
      destruct H0 as [(c & H0 & E)|(c & H0 & E)]; [rewrite lookup_set_eq in H0; inversion H0; subst c; simpl in E; congruence|congruence].
  - (* CnUpdate *)
    destruct (lookup cid (cm s)) as [c|] eqn:Hc; simpl; [|apply slice_unchanged_refl].
    simpl in T.
    destruct (is_api (c_prov c)); simpl; [|apply slice_unchanged_refl].
    destruct (lookup (c_pipeline c) (pm s)) as [p|]; simpl; [|apply slice_unchanged_refl].
    destruct (is_running p); simpl; [apply slice_unchanged_refl|].
    destruct (validate (c_type c) (c_plugin c) settings); simpl; [|apply slice_unchanged_refl].
    assert (Nc : c_pipeline c <> pid) by congruence.
    repeat split; simpl; auto.
    + intros k0 H0. frame_key k0 cid. exfalso.
      destruct H0 as [(x & H0 & E)|(x & H0 & E)]; [rewrite lookup_set_eq in H0; inversion H0; subst x; simpl in E; congruence|congruence].
  - (* CnDelete *)
    destruct (lookup cid (cm s)) as [c|] eqn:Hc; simpl; [|apply slice_unchanged_refl].
    simpl in T.
    destruct (is_api (c_prov c)); simpl; [|apply slice_unchanged_refl].
    destruct (length (c_procs c) =? 0); simpl; [|apply slice_unchanged_refl].
    destruct (lookup (c_pipeline c) (pm s)) as [p|] eqn:Hp0; simpl; [|apply slice_unchanged_refl].
    destruct (is_running p); simpl; [apply slice_unchanged_refl|].
    assert (Nc : c_pipeline c <> pid) by congruence.
    destruct (Wkp _ _ Hp0) as [Eid _].
    repeat split; simpl; auto.
    + rewrite Eid. gk. reflexivity.
    + intros k0 H0. frame_key k0 cid. exfalso.
      destruct H0 as [(x & H0 & E)|(x & H0 & E)]; [rewrite lookup_del_eq in H0; discriminate|congruence].
  - (* PrCreate *)
    destruct (spec_procs_pipeline ptype parent s) as [p|] eqn:G; simpl; [|apply slice_unchanged_refl].
    destruct (is_api (p_prov p)); simpl; [|apply slice_unchanged_refl].
    destruct (is_running p); simpl; [apply slice_unchanged_refl|].
    destruct (workers <? 0)%Z; simpl; [apply slice_unchanged_refl|].
    destruct (proc_plugin_ok plugin); simpl; [|apply slice_unchanged_refl].
    apply spec_procs_pipeline_inv in G. destruct G as [[-> Hp0]|(-> & c & Hc & Hp0)]; simpl in T; simpl.
    + destruct (Wkp _ _ Hp0) as [Eid _]. rewrite Eid.
      assert (pid <> parent) by congruence. repeat split; simpl; auto.
      * gk. reflexivity.
      * intros k0 H0. frame_key k0 k. exfalso.
        destruct H0 as [(x & H0 & E)|(x & H0 & E)]; [|congruence].
        rewrite lookup_set_eq in H0; inversion H0; subst x. unfold owner_pr in E; simpl in E. congruence.
    + rewrite Hc in *. simpl in T. simpl.
      assert (Nc : c_pipeline c <> pid) by congruence.
      repeat split; simpl; auto.
      * intros k0 H0. frame_key k0 parent. exfalso.
        destruct H0 as [(x & H0 & E)|(x & H0 & E)]; [rewrite lookup_set_eq in H0; inversion H0; subst x; simpl in E; congruence|congruence].
      * intros k0 H0. frame_key k0 k. exfalso.
        destruct H0 as [(x & H0 & E)|(x & H0 & E)]; [|congruence].
        rewrite lookup_set_eq in H0; inversion H0; subst x. unfold owner_pr in E; simpl in E.
        rewrite lookup_set_eq in E. simpl in E. congruence.
  - (* PrUpdate *)
    destruct (lookup rid (rm s)) as [r|] eqn:Hr; simpl; [|apply slice_unchanged_refl].
    destruct (is_api (r_prov r)); simpl; [|apply slice_unchanged_refl].
    destruct (spec_procs_pipeline (r_ptype r) (r_parent r) s) as [p|]; simpl; [|apply slice_unchanged_refl].
    destruct (is_running p); simpl; [apply slice_unchanged_refl|].
    destruct (memb rid (prun s)); simpl; [apply slice_unchanged_refl|].
    destruct (plugin =? 0); simpl; [apply slice_unchanged_refl|].
    repeat split; simpl; auto.
    intros k0 H0. frame_key k0 rid. exfalso.
    destruct H0 as [(x & H0 & E)|(x & H0 & E)].
    + rewrite lookup_set_eq in H0; inversion H0; subst x. unfold owner_pr in *; simpl in *. congruence.
    + rewrite Hr in H0. inversion H0; subst x. congruence.
  - (* PrDelete *)
    destruct (lookup rid (rm s)) as [r|] eqn:Hr; simpl; [|apply slice_unchanged_refl].
    destruct (is_api (r_prov r)); simpl; [|apply slice_unchanged_refl].
    destruct (spec_procs_pipeline (r_ptype r) (r_parent r) s) as [p|] eqn:G; simpl; [|apply slice_unchanged_refl].
    destruct (is_running p); simpl; [apply slice_unchanged_refl|].
    destruct (memb rid (prun s)); simpl; [apply slice_unchanged_refl|].
    apply spec_procs_pipeline_inv in G. destruct G as [[Et Hp0]|(Et & c & Hc & Hp0)]; rewrite Et; simpl.
    + destruct (memb rid (p_procs p)); simpl; [|apply slice_unchanged_refl].
      destruct (Wkp _ _ Hp0) as [Eid _]. rewrite Eid.
      unfold owner_pr in T. rewrite Et in T. simpl in T.
      assert (pid <> r_parent r) by congruence. repeat split; simpl; auto.
      * gk. reflexivity.
      * intros k0 H0. frame_key k0 rid. exfalso.
        destruct H0 as [(x & H0 & E)|(x & H0 & E)]; [rewrite lookup_del_eq in H0; discriminate|].
        rewrite Hr in H0. inversion H0; subst x. unfold owner_pr in E. rewrite Et in E. simpl in E. congruence.
    + rewrite Hc. destruct (memb rid (c_procs c)); simpl; [|apply slice_unchanged_refl].
      unfold owner_pr in T. rewrite Et in T. simpl in T. rewrite Hc in T. simpl in T.
      assert (Nc : c_pipeline c <> pid) by congruence.
      repeat split; simpl; auto.
      * intros k0 H0. frame_key k0 (r_parent r). exfalso.
        destruct H0 as [(x & H0 & E)|(x & H0 & E)]; [rewrite lookup_set_eq in H0; inversion H0; subst x; simpl in E; congruence|congruence].
      * intros k0 H0. frame_key k0 rid. exfalso.
        destruct H0 as [(x & H0 & E)|(x & H0 & E)]; [rewrite lookup_del_eq in H0; discriminate|].
        rewrite Hr in H0. inversion H0; subst x. unfold owner_pr in E. rewrite Et in E. simpl in E.
        rewrite Hc in E. simpl in E. congruence.
Qed.

(* guards, in full: after any call (with any store failure outside the bad sites) every running or
   config-provisioned pipeline, its connectors and its processors are exactly as before *)
Theorem guards_frame s o f pid pl :
  wf s -> good_fault o f -> lookup pid (pm s) = Some pl -> guarded pl = true ->
  slice_unchanged pid s (snd (step f s o)).
Proof.
  intros W G Hp Hg.
  assert (Tdec : target s o = Some pid \/ target s o <> Some pid).
  { destruct (target s o) as [t|]; [destruct (Nat.eq_dec t pid) as [->|N]; [left; reflexivity|right; congruence]|right; discriminate]. }
  destruct Tdec as [T|T].
  - destruct (guards_hold s o f pid pl W T Hp Hg) as [_ E].
    eapply slice_unchanged_equiv_r; [apply st_equiv_sym; exact E|apply slice_unchanged_refl].
  - destruct (step_refines s o f W G) as [(_ & E & _)|(_ & E & _)].
    + eapply slice_unchanged_equiv_r; [apply st_equiv_sym; exact E|].
      eapply slice_unchanged_equiv_l; [apply st_equiv_sym, (bump_equiv s o)|].
      unfold spec_step. apply (spec_frame (next s) o (bump s o) pid pl).
      * apply wf_bump; exact W.
      * apply fresh_bump, wf_fresh; exact W.
      * exact Hp.
      * exact T.
    + eapply slice_unchanged_equiv_r; [apply st_equiv_sym; exact E|apply slice_unchanged_refl].
Qed.
