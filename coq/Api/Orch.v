(* C14 - the orchestrator operations, transcribed from
     pkg/orchestrator/pipelines.go   Create Update Delete UpdateDLQ          (no transaction)
     pkg/orchestrator/connectors.go  Create Update Delete (+ Validate)       (transaction + rollback.R)
     pkg/orchestrator/processors.go  Create Update Delete (+ getProcessorsPipeline)
   with their guards and their rollback.R closures AS WRITTEN: which closure is appended after
   which step, and what each closure captures.  rollback.R (conduit-commons/rollback): Append
   pushes, Skip clears, the deferred MustExecute runs the closures last-appended-first and panics
   when one returns an error (the remaining closures, txn.Discard among them, are then not run).
   Definitions only. *)
From Verif Require Export Api.Services.

Inductive outcome := OOk | OErr (e : err) | OPanic.

Definition rb := exec -> bool * exec.           (* a rollback closure: did it succeed *)

Fixpoint run_rb (l : list rb) (e : exec) : bool * exec :=
  match l with
  | [] => (true, e)
  | g :: r => let (ok, e1) := g e in if ok then run_rb r e1 else (false, e1)
  end.

(* return err with the deferred r.MustExecute(): [r] is in append order *)
Definition fail_with (r : list rb) (x : err) (e : exec) : outcome * exec :=
  let (ok, e1) := run_rb (rev r) e in ((if ok then OErr x else OPanic), e1).

Definition rb_of {A} (m : exec -> res A * exec) : rb :=
  fun e => let (x, e1) := m e in (match x with Ok _ => true | Err _ => false end, e1).
Definition rb_discard : rb := fun e => (true, discard e).

(* the rollback closures run with the transaction's context and without fault injection left:
   one fault per call, and it has fired before any closure runs.  They are nevertheless given the
   same fault argument, the counter decides. *)

(* ---------- ConnectorOrchestrator.Validate with the scripted fake plugin service ---------- *)
Definition validate (t plugin settings : nat) : bool :=
  ((t =? 1) || (t =? 2)) && conn_plugin_ok plugin settings.

(* ---------- PipelineOrchestrator ---------- *)
Definition o_pl_create f (k : id) (name desc : nat) (e : exec) : outcome * exec :=
  match pl_create f k name desc ProvAPI e with
  | (Ok _, e1) => (OOk, e1)
  | (Err x, e1) => (OErr x, e1)
  end.

(* the guard prefix shared by Update / Delete / UpdateDLQ *)
Definition pl_guard (k : id) (e : exec) : res pipeline :=
  match lookup k (pm (st e)) with
  | None => Err ENotFound
  | Some pl =>
    if negb (is_api (p_prov pl)) then Err EImmutable else
    if is_running pl then Err ERunning else Ok pl
  end.

Definition o_pl_update f (k : id) (name desc : nat) (e : exec) : outcome * exec :=
  match pl_guard k e with
  | Err x => (OErr x, e)
  | Ok _ =>
    match pl_update f k name desc e with
    | (Ok _, e1) => (OOk, e1)
    | (Err x, e1) => (OErr x, e1)
    end
  end.

Definition o_pl_delete f (k : id) (e : exec) : outcome * exec :=
  match pl_guard k e with
  | Err x => (OErr x, e)
  | Ok pl =>
    if negb (length (p_conns pl) =? 0) then (OErr EHasConns, e) else
    if negb (length (p_procs pl) =? 0) then (OErr EHasProcs, e) else
    match pl_delete f k e with
    | (Ok _, e1) => (OOk, e1)
    | (Err x, e1) => (OErr x, e1)
    end
  end.

Definition o_pl_update_dlq f (k : id) (d : dlq) (e : exec) : outcome * exec :=
  match pl_guard k e with
  | Err x => (OErr x, e)
  | Ok _ =>
    if negb (validate 2 (d_plugin d) (d_settings d)) then (OErr EInvalid, e) else
    match pl_update_dlq f k d e with
    | (Ok _, e1) => (OOk, e1)
    | (Err x, e1) => (OErr x, e1)
    end
  end.

(* ---------- ConnectorOrchestrator ---------- *)
Definition o_cn_create f (k : id) (t plugin : nat) (pid : id) (name settings : nat) (e : exec) : outcome * exec :=
  let (ok, e) := new_txn f e in
  if negb ok then (OErr EStore, e) else
  let r := [rb_discard] in                                   (* r.AppendPure(txn.Discard) *)
  match lookup pid (pm (st e)) with
  | None => fail_with r ENotFound e
  | Some pl =>
    if negb (is_api (p_prov pl)) then fail_with r EImmutable e else
    if is_running pl then fail_with r ERunning e else
    if negb (validate t plugin settings) then fail_with r EInvalid e else
    match cn_create f k t plugin pid name settings ProvAPI e with
    | (Err x, e) => fail_with r x e
    | (Ok _, e) =>
      let r := r ++ [rb_of (cn_delete f k)] in               (* connectors.Delete(conn.ID) *)
      match pl_add_conn f pid k e with
      | (Err x, e) => fail_with r x e
      | (Ok _, e) =>
        let r := r ++ [rb_of (pl_remove_conn f pid k)] in    (* pipelines.RemoveConnector(pl.ID, conn.ID) *)
        let (ok, e) := commit f e in
        if negb ok then fail_with r EStore e else (OOk, e)   (* r.Skip() *)
      end
    end
  end.

Definition o_cn_update f (k : id) (plugin name settings : nat) (e : exec) : outcome * exec :=
  let (ok, e) := new_txn f e in
  if negb ok then (OErr EStore, e) else
  let r := [rb_discard] in
  match lookup k (cm (st e)) with
  | None => fail_with r ENotFound e
  | Some c =>
    if negb (is_api (c_prov c)) then fail_with r EImmutable e else
    match lookup (c_pipeline c) (pm (st e)) with
    | None => fail_with r ENotFound e
    | Some pl =>
      if is_running pl then fail_with r ERunning e else
      (* c.Validate(ctx, conn.Type, conn.Plugin, config): the OLD plugin is validated *)
      if negb (validate (c_type c) (c_plugin c) settings) then fail_with r EInvalid e else
      let old_name := c_name c in let old_settings := c_settings c in      (* oldConfig := conn.Config *)
      match cn_update f k plugin name settings e with
      | (Err x, e) => fail_with r x e
      | (Ok c', e) =>
        (* connectors.Update(id, conn.Plugin, oldConfig): conn was re-assigned to the updated
           instance (the same pointer), so conn.Plugin is the NEW plugin *)
        let r := r ++ [rb_of (cn_update f k (c_plugin c') old_name old_settings)] in
        let (ok, e) := commit f e in
        if negb ok then fail_with r EStore e else (OOk, e)
      end
    end
  end.

Definition o_cn_delete f (k : id) (e : exec) : outcome * exec :=
  let (ok, e) := new_txn f e in
  if negb ok then (OErr EStore, e) else
  let r := [rb_discard] in
  match lookup k (cm (st e)) with
  | None => fail_with r ENotFound e
  | Some c =>
    if negb (is_api (c_prov c)) then fail_with r EImmutable e else
    if negb (length (c_procs c) =? 0) then fail_with r EHasProcs e else
    match lookup (c_pipeline c) (pm (st e)) with
    | None => fail_with r ENotFound e
    | Some pl =>
      if is_running pl then fail_with r ERunning e else
      match cn_delete f k e with
      | (Err x, e) => fail_with r x e
      | (Ok _, e) =>
        (* connectors.Create(id, conn.Type, conn.Plugin, conn.PipelineID, conn.Config, conn.ProvisionedBy):
           rebuilt from the configuration only; State, CreatedAt are not carried over *)
        let r := r ++ [rb_of (cn_create f k (c_type c) (c_plugin c) (c_pipeline c) (c_name c) (c_settings c) (c_prov c))] in
        match pl_remove_conn f (p_id pl) k e with
        | (Err x, e) => fail_with r x e
        | (Ok _, e) =>
          let r := r ++ [rb_of (pl_add_conn f (p_id pl) k)] in
          let (ok, e) := commit f e in
          if negb ok then fail_with r EStore e else (OOk, e)
        end
      end
    end
  end.

(* ---------- ProcessorOrchestrator ---------- *)
(* getProcessorsPipeline *)
Definition procs_pipeline (ptype : nat) (parent : id) (e : exec) : res pipeline :=
  if ptype =? 2 then
    match lookup parent (pm (st e)) with Some pl => Ok pl | None => Err ENotFound end
  else if ptype =? 1 then
    match lookup parent (cm (st e)) with
    | None => Err ENotFound
    | Some c => match lookup (c_pipeline c) (pm (st e)) with Some pl => Ok pl | None => Err ENotFound end
    end
  else Err EParent.

Definition o_pr_create f (k : id) (plugin ptype : nat) (parent : id) (settings : nat) (workers : Z) (cond : nat)
           (e : exec) : outcome * exec :=
  let (ok, e) := new_txn f e in
  if negb ok then (OErr EStore, e) else
  let r := [rb_discard] in
  match procs_pipeline ptype parent e with
  | Err x => fail_with r x e
  | Ok pl =>
    if negb (is_api (p_prov pl)) then fail_with r EImmutable e else
    if is_running pl then fail_with r ERunning e else
    match pr_create f k plugin ptype parent settings workers ProvAPI cond e with
    | (Err x, e) => fail_with r x e
    | (Ok _, e) =>
      let r := r ++ [rb_of (pr_delete f k)] in
      if ptype =? 2 then
        match pl_add_proc f (p_id pl) k e with
        | (Err x, e) => fail_with r x e
        | (Ok _, e) =>
          let r := r ++ [rb_of (pl_remove_proc f (p_id pl) k)] in
          let (ok, e) := commit f e in
          if negb ok then fail_with r EStore e else (OOk, e)
        end
      else if ptype =? 1 then
        match cn_add_proc f parent k e with
        | (Err x, e) => fail_with r x e
        | (Ok _, e) =>
          let r := r ++ [rb_of (cn_remove_proc f parent k)] in
          let (ok, e) := commit f e in
          if negb ok then fail_with r EStore e else (OOk, e)
        end
      else fail_with r EParent e
    end
  end.

Definition o_pr_update f (k : id) (plugin settings : nat) (workers : Z) (e : exec) : outcome * exec :=
  let (ok, e) := new_txn f e in
  if negb ok then (OErr EStore, e) else
  let r := [rb_discard] in
  match lookup k (rm (st e)) with
  | None => fail_with r ENotFound e
  | Some p =>
    if negb (is_api (r_prov p)) then fail_with r EImmutable e else
    (* oldPlugin := proc.Plugin; oldConfig := proc.Config *)
    match procs_pipeline (r_ptype p) (r_parent p) e with
    | Err x => fail_with r x e
    | Ok pl =>
      if is_running pl then fail_with r ERunning e else
      match pr_update f k plugin settings workers e with
      | (Err x, e) => fail_with r x e
      | (Ok _, e) =>
        let r := r ++ [rb_of (pr_update f k (r_plugin p) (r_settings p) (r_workers p))] in
        let (ok, e) := commit f e in
        if negb ok then fail_with r EStore e else (OOk, e)
      end
    end
  end.

Definition o_pr_delete f (k : id) (e : exec) : outcome * exec :=
  let (ok, e) := new_txn f e in
  if negb ok then (OErr EStore, e) else
  let r := [rb_discard] in
  match lookup k (rm (st e)) with
  | None => fail_with r ENotFound e
  | Some p =>
    if negb (is_api (r_prov p)) then fail_with r EImmutable e else
    match procs_pipeline (r_ptype p) (r_parent p) e with
    | Err x => fail_with r x e
    | Ok pl =>
      if is_running pl then fail_with r ERunning e else
      match pr_delete f k e with
      | (Err x, e) => fail_with r x e
      | (Ok _, e) =>
        (* processors.Create(id, proc.Plugin, proc.Parent, proc.Config, ProvisionTypeAPI, proc.Condition) *)
        let r := r ++ [rb_of (pr_create f k (r_plugin p) (r_ptype p) (r_parent p) (r_settings p) (r_workers p)
                                        ProvAPI (r_cond p))] in
        if r_ptype p =? 2 then
          match pl_remove_proc f (p_id pl) k e with
          | (Err x, e) => fail_with r x e
          | (Ok _, e) =>
            let r := r ++ [rb_of (pl_add_proc f (p_id pl) k)] in
            let (ok, e) := commit f e in
            if negb ok then fail_with r EStore e else (OOk, e)
          end
        else if r_ptype p =? 1 then
          match cn_remove_proc f (r_parent p) k e with
          | (Err x, e) => fail_with r x e
          | (Ok _, e) =>
            let r := r ++ [rb_of (cn_add_proc f (r_parent p) k)] in
            let (ok, e) := commit f e in
            if negb ok then fail_with r EStore e else (OOk, e)
          end
        else fail_with r EParent e
      end
    end
  end.

(* ---------- the API ---------- *)
Inductive op :=
| PlCreate (name desc : nat)
| PlUpdate (pid : id) (name desc : nat)
| PlDelete (pid : id)
| PlUpdateDLQ (pid : id) (d : dlq)
| CnCreate (t plugin : nat) (pid : id) (name settings : nat)
| CnUpdate (cid : id) (plugin name settings : nat)
| CnDelete (cid : id)
| PrCreate (plugin ptype : nat) (parent : id) (settings : nat) (workers : Z) (cond : nat)
| PrUpdate (rid : id) (plugin settings : nat) (workers : Z)
| PrDelete (rid : id).

Definition is_create (o : op) : bool :=
  match o with PlCreate _ _ | CnCreate _ _ _ _ _ | PrCreate _ _ _ _ _ _ => true | _ => false end.

(* bookkeeping at the start of every call: the call index advances (it stamps CreatedAt) and a
   create call draws one fresh id (uuid.NewString()) *)
Definition bump (s : state) (o : op) : state :=
  mkState (pm s) (cm s) (rm s) (names s) (prun s) (ps s) (cs s) (rs s)
          (if is_create o then S (next s) else next s) (S (clock s)).

Definition exec_op (f : option nat) (k : id) (o : op) (e : exec) : outcome * exec :=
  match o with
  | PlCreate name desc => o_pl_create f k name desc e
  | PlUpdate pid name desc => o_pl_update f pid name desc e
  | PlDelete pid => o_pl_delete f pid e
  | PlUpdateDLQ pid d => o_pl_update_dlq f pid d e
  | CnCreate t plugin pid name settings => o_cn_create f k t plugin pid name settings e
  | CnUpdate cid plugin name settings => o_cn_update f cid plugin name settings e
  | CnDelete cid => o_cn_delete f cid e
  | PrCreate plugin ptype parent settings workers cond => o_pr_create f k plugin ptype parent settings workers cond e
  | PrUpdate rid plugin settings workers => o_pr_update f rid plugin settings workers e
  | PrDelete rid => o_pr_delete f rid e
  end.

(* one API call with at most one injected store failure.  A transaction that was neither committed
   nor discarded (a panicking rollback skips txn.Discard) has no effect on the store: the final
   [discard] is the identity in every other case. *)
Definition step (f : option nat) (s : state) (o : op) : outcome * state :=
  let (out, e) := exec_op f (next s) o (mkEx (bump s o) None 0) in (out, st (discard e)).

Fixpoint run (s : state) (h : list (op * option nat)) : list (outcome * state) :=
  match h with
  | [] => []
  | (o, f) :: r => let (out, s') := step f s o in (out, s') :: run s' r
  end.

Fixpoint final (s : state) (h : list (op * option nat)) : state :=
  match h with
  | [] => s
  | (o, f) :: r => final (snd (step f s o)) r
  end.
