(* C14 - the well-formedness invariant of the API state, and state equivalence.
   Everything is phrased through [lookup] (and membership), so that it does not depend on the order
   in which a Go map happens to be listed. *)
From Verif Require Export Api.Spec Api.MapLemmas.

(* the same in-memory maps, name set, running set and store *)
Record st_equiv (a b : state) : Prop := mkEquiv {
  e_pm : meq (pm a) (pm b);
  e_cm : meq (cm a) (cm b);
  e_rm : meq (rm a) (rm b);
  e_names : sameset (names a) (names b);
  e_prun : sameset (prun a) (prun b);
  e_ps : meq (ps a) (ps b);
  e_cs : meq (cs a) (cs b);
  e_rs : meq (rs a) (rs b) }.

Lemma st_equiv_refl s : st_equiv s s.
Proof. constructor; intros k; reflexivity. Qed.

Lemma st_equiv_sym a b : st_equiv a b -> st_equiv b a.
Proof. intros [? ? ? ? ? ? ? ?]. constructor; intros k; symmetry; auto. Qed.

Lemma st_equiv_trans a b c : st_equiv a b -> st_equiv b c -> st_equiv a c.
Proof.
  intros [? ? ? ? ? ? ? ?] [? ? ? ? ? ? ? ?].
  constructor; intros k; etransitivity; eauto.
Qed.

Record wf (s : state) : Prop := mkWf {
  (* memory = store *)
  wf_sync_p : meq (pm s) (ps s);
  wf_sync_c : meq (cm s) (cs s);
  wf_sync_r : meq (rm s) (rs s);
  (* instanceNames is exactly the set of names in use, and names are unique *)
  wf_names : forall n, memb n (names s) = true <-> exists k p, lookup k (pm s) = Some p /\ p_name p = n;
  wf_uniq : forall k1 k2 p1 p2, lookup k1 (pm s) = Some p1 -> lookup k2 (pm s) = Some p2 ->
                                p_name p1 = p_name p2 -> k1 = k2;
  (* an instance is stored under its id; ids come from the supply *)
  wf_key_p : forall k p, lookup k (pm s) = Some p -> p_id p = k /\ k < next s;
  wf_key_c : forall k c, lookup k (cm s) = Some c -> c_id c = k /\ k < next s;
  wf_key_r : forall k r, lookup k (rm s) = Some r -> r_id r = k /\ k < next s /\ r_plugin r <> 0;
  wf_prun : forall k, memb k (prun s) = true -> k < next s;
  (* references: no duplicates, and exact in both directions *)
  wf_nodup_p : forall k p, lookup k (pm s) = Some p -> NoDup (p_conns p) /\ NoDup (p_procs p);
  wf_nodup_c : forall k c, lookup k (cm s) = Some c -> NoDup (c_procs c);
  wf_pc : forall k p c, lookup k (pm s) = Some p -> In c (p_conns p) ->
                        exists cn, lookup c (cm s) = Some cn /\ c_pipeline cn = k;
  wf_cp : forall k c, lookup k (cm s) = Some c ->
                      exists p, lookup (c_pipeline c) (pm s) = Some p /\ In k (p_conns p) /\ c_prov c = p_prov p;
  wf_pr : forall k p r, lookup k (pm s) = Some p -> In r (p_procs p) ->
                        exists pr, lookup r (rm s) = Some pr /\ r_ptype pr = 2 /\ r_parent pr = k;
  wf_cr : forall k c r, lookup k (cm s) = Some c -> In r (c_procs c) ->
                        exists pr, lookup r (rm s) = Some pr /\ r_ptype pr = 1 /\ r_parent pr = k;
  wf_rp : forall k r, lookup k (rm s) = Some r ->
      (r_ptype r = 2 /\ exists p, lookup (r_parent r) (pm s) = Some p /\ In k (p_procs p) /\ r_prov r = p_prov p)
   \/ (r_ptype r = 1 /\ exists c, lookup (r_parent r) (cm s) = Some c /\ In k (c_procs c) /\ r_prov r = c_prov c) }.

Lemma wf_empty : wf empty_state.
Proof.
  constructor; simpl; try (intros; discriminate); try (intros k; reflexivity).
  intros n; split; [discriminate|intros (k & p & H & _); discriminate].
Qed.

(* wf only looks at the maps through lookup: it transfers along equivalence, and the id supply
   may grow *)
Lemma wf_equiv a b : wf a -> st_equiv a b -> next a <= next b -> wf b.
Proof.
  intros W [Ep Ec Er En Eu Esp Esc Esr] Hn. destruct W.
  constructor; intros;
    repeat match goal with
           | H : lookup _ (pm b) = _ |- _ => rewrite <- Ep in H
           | H : lookup _ (cm b) = _ |- _ => rewrite <- Ec in H
           | H : lookup _ (rm b) = _ |- _ => rewrite <- Er in H
           | H : memb _ (prun b) = _ |- _ => rewrite <- Eu in H
           end;
    try (intros k; rewrite <- ?Ep, <- ?Ec, <- ?Er, <- ?Esp, <- ?Esc, <- ?Esr; auto; fail).
  - rewrite <- En. rewrite wf_names0. split; intros (k & p & H & E); exists k, p; [rewrite <- Ep|rewrite Ep]; auto.
  - eauto.
  - specialize (wf_key_p0 _ _ H). intuition lia.
  - specialize (wf_key_c0 _ _ H). intuition lia.
  - specialize (wf_key_r0 _ _ H). intuition lia.
  - specialize (wf_prun0 _ H). lia.
  - eauto.
  - eauto.
  - destruct (wf_pc0 _ _ _ H H0) as (cn & ? & ?). exists cn. rewrite <- Ec. auto.
  - destruct (wf_cp0 _ _ H) as (p & ? & ?). exists p. rewrite <- Ep. auto.
  - destruct (wf_pr0 _ _ _ H H0) as (pr & ? & ?). exists pr. rewrite <- Er. auto.
  - destruct (wf_cr0 _ _ _ H H0) as (pr & ? & ?). exists pr. rewrite <- Er. auto.
  - destruct (wf_rp0 _ _ H) as [(? & p & ? & ?)|(? & c & ? & ?)]; [left|right]; split; auto;
      [exists p; rewrite <- Ep|exists c; rewrite <- Ec]; auto.
Qed.

Lemma bump_equiv s o : st_equiv s (bump s o).
Proof. constructor; intros k; reflexivity. Qed.

Lemma wf_bump s o : wf s -> wf (bump s o).
Proof.
  intros W. apply (wf_equiv s); [exact W|apply bump_equiv|].
  unfold bump; simpl. destruct (is_create o); lia.
Qed.

(* the id a create call draws is not in use *)
Definition fresh (k : id) (s : state) : Prop :=
  lookup k (pm s) = None /\ lookup k (cm s) = None /\ lookup k (rm s) = None /\ memb k (prun s) = false.

Lemma wf_fresh s : wf s -> fresh (next s) s.
Proof.
  intros W. unfold fresh. repeat split.
  - destruct (lookup (next s) (pm s)) eqn:E; [|reflexivity]. apply (wf_key_p s W) in E. lia.
  - destruct (lookup (next s) (cm s)) eqn:E; [|reflexivity]. apply (wf_key_c s W) in E. lia.
  - destruct (lookup (next s) (rm s)) eqn:E; [|reflexivity]. apply (wf_key_r s W) in E. lia.
  - destruct (memb (next s) (prun s)) eqn:E; [|reflexivity]. apply (wf_prun s W) in E. lia.
Qed.

Lemma fresh_bump k s o : fresh k s -> fresh k (bump s o).
Proof. exact (fun H => H). Qed.
