(* Model of what the three stores write and read back (definitions only; proofs in
   StoreCodecProofs.v).

     pkg/connector/store.go   PrepareSet (icopy literal) / encode / decode (incl. the detour of
                              Instance.State through an untyped value and back into SourceState /
                              DestinationState) / migratePre041
     pkg/pipeline/store.go    encode / decode through encodableInstance{*Instance, Status}
     pkg/processor/store.go   encode / decode
     pkg/connector/service.go Init (persisted DLQ connectors are deleted, not loaded)
     pkg/pipeline/service.go  Init (StatusRunning is loaded as StatusSystemStopped)
     pkg/lifecycle*/service.go Init (pipelines with StatusSystemStopped are started)

   The model lives at the level of JSON *values*; the text of string literals is modelled in
   JsonStr.v, []byte values in Base64.v, RFC 3339 timestamps below.  The lexers and printers of
   goccy/go-json, and time.Time <-> civil date arithmetic, are not modelled.

   nil versus empty is explicit: a Go slice or map is [option (list _)], [None] = nil.
   A Go map is represented by its entries sorted by key (strictly increasing, [sorted]).      *)
From Coq Require Import List NArith ZArith Bool Ascii String Lia.
From Verif Require Import Codec.Base64 Codec.JsonStr.
Import ListNotations.
Local Open Scope N_scope.

(* ------------------------------------------------------------------ JSON values *)

Inductive json :=
| JNull
| JBool (b : bool)
| JNum (z : Z)
| JStr (s : str)
| JArr (l : list json)
| JObj (l : list (str * json))
| JBad.  (* a token the model has no use for (a number that is not an integer) *)

Definition k (s : string) : str := map N_of_ascii (list_ascii_of_string s).

Fixpoint str_cmp (a b : str) : comparison :=
  match a, b with
  | [], [] => Eq
  | [], _ :: _ => Lt
  | _ :: _, [] => Gt
  | x :: a', y :: b' => match N.compare x y with Eq => str_cmp a' b' | c => c end
  end.

Definition str_eqb (a b : str) : bool := match str_cmp a b with Eq => true | _ => false end.

Fixpoint member (key : str) (o : list (str * json)) : json :=
  match o with
  | [] => JNull
  | (k', v) :: r => if str_eqb key k' then v else member key r
  end.

(* a Go map filled from a JSON object: later duplicates win, order is forgotten; we keep the
   entries sorted by key *)
Fixpoint ins {V} (key : str) (v : V) (l : list (str * V)) : list (str * V) :=
  match l with
  | [] => [(key, v)]
  | (k', v') :: r =>
      match str_cmp key k' with
      | Lt => (key, v) :: l
      | Eq => (key, v) :: r
      | Gt => (k', v') :: ins key v r
      end
  end.

Definition canon {V} (l : list (str * V)) : list (str * V) :=
  fold_left (fun acc kv => ins (fst kv) (snd kv) acc) l [].

Inductive sorted {V} : list (str * V) -> Prop :=
| sorted_nil : sorted []
| sorted_cons : forall key v l,
    Forall (fun p => str_cmp key (fst p) = Lt) l -> sorted l -> sorted ((key, v) :: l).

Fixpoint sortedb {V} (l : list (str * V)) : bool :=
  match l with
  | [] => true
  | (key, _) :: r => forallb (fun p => match str_cmp key (fst p) with Lt => true | _ => false end) r && sortedb r
  end.

(* ------------------------------------------------------------------ traversals *)

Fixpoint mapM {A B} (f : A -> option B) (l : list A) : option (list B) :=
  match l with
  | [] => Some []
  | a :: r => match f a, mapM f r with Some b, Some t => Some (b :: t) | _, _ => None end
  end.

(* sort the keys of every object: equality of JSON values modulo member order *)
Fixpoint jcanon (j : json) : json :=
  match j with
  | JArr l => JArr (map jcanon l)
  | JObj l => JObj (canon (map (fun kv => let '(key, v) := kv in (key, jcanon v)) l))
  | _ => j
  end.

Fixpoint json_eqb (a b : json) : bool :=
  match a, b with
  | JNull, JNull => true
  | JBool x, JBool y => Bool.eqb x y
  | JNum x, JNum y => Z.eqb x y
  | JStr x, JStr y => str_eqb x y
  | JArr x, JArr y =>
      (fix go (x y : list json) : bool :=
         match x, y with
         | [], [] => true
         | a' :: x', b' :: y' => json_eqb a' b' && go x' y'
         | _, _ => false
         end) x y
  | JObj x, JObj y =>
      (fix go (x y : list (str * json)) : bool :=
         match x, y with
         | [], [] => true
         | (k1, a') :: x', (k2, b') :: y' => str_eqb k1 k2 && json_eqb a' b' && go x' y'
         | _, _ => false
         end) x y
  | _, _ => false
  end.

Definition json_eqv (a b : json) : bool := json_eqb (jcanon a) (jcanon b).

(* escape / unescape every string literal of a document (member names too) *)
Fixpoint esc_json (j : json) : json :=
  match j with
  | JStr s => JStr (escape s)
  | JArr l => JArr (map esc_json l)
  | JObj l => JObj (map (fun kv => let '(key, v) := kv in (escape key, esc_json v)) l)
  | _ => j
  end.

Fixpoint unesc_json (j : json) : option json :=
  match j with
  | JStr s => match unescape s with Some s' => Some (JStr s') | None => None end
  | JArr l =>
      match (fix go (l : list json) : option (list json) :=
               match l with
               | [] => Some []
               | a :: r => match unesc_json a, go r with Some b, Some t => Some (b :: t) | _, _ => None end
               end) l with
      | Some l' => Some (JArr l') | None => None end
  | JObj l =>
      match (fix go (l : list (str * json)) : option (list (str * json)) :=
               match l with
               | [] => Some []
               | (key, a) :: r =>
                   match unescape key, unesc_json a, go r with
                   | Some k', Some b, Some t => Some ((k', b) :: t)
                   | _, _, _ => None
                   end
               end) l with
      | Some l' => Some (JObj l') | None => None end
  | JBad => None
  | _ => Some j
  end.

(* ------------------------------------------------------------------ time (RFC 3339, nanoseconds) *)

Record time := mkTime {
  t_year : N; t_month : N; t_day : N; t_hour : N; t_min : N; t_sec : N;
  t_nano : N;
  t_off : Z  (* zone offset, minutes east of UTC *)
}.

Definition zero_time : time := mkTime 1 1 1 0 0 0 0 0%Z.

Definition d2 (n : N) : list N := [48 + n / 10; 48 + n mod 10].
Definition d4 (n : N) : list N := d2 (n / 100) ++ d2 (n mod 100).

Fixpoint digits (w : nat) (n : N) : list N :=
  match w with
  | O => []
  | S w' => digits w' (n / 10) ++ [48 + n mod 10]
  end.

(* drop trailing '0' characters *)
Fixpoint strip0 (l : list N) : list N :=
  match l with
  | [] => []
  | c :: r => match strip0 r with
              | [] => if c =? 48 then [] else [c]
              | r' => c :: r'
              end
  end.

Definition fmt_frac (ns : N) : list N := if ns =? 0 then [] else 46 :: strip0 (digits 9 ns).

Definition fmt_zone (off : Z) : list N :=
  if (off =? 0)%Z then [90]
  else (if (off <? 0)%Z then 45 else 43)
         :: d2 (Z.to_N (Z.abs off) / 60) ++ [58] ++ d2 (Z.to_N (Z.abs off) mod 60).

Definition fmt_time (t : time) : str :=
  d4 (t_year t) ++ [45] ++ d2 (t_month t) ++ [45] ++ d2 (t_day t) ++ [84] ++
  d2 (t_hour t) ++ [58] ++ d2 (t_min t) ++ [58] ++ d2 (t_sec t) ++
  fmt_frac (t_nano t) ++ fmt_zone (t_off t).

Definition isdig (c : N) : bool := (48 <=? c) && (c <=? 57).
Definition dig (c : N) : option N := if isdig c then Some (c - 48) else None.
Definition num2 (a b : N) : option N :=
  match dig a, dig b with Some x, Some y => Some (10 * x + y) | _, _ => None end.

Fixpoint take_digits (l : list N) : list N * list N :=
  match l with
  | [] => ([], [])
  | c :: r => if isdig c then let (a, b) := take_digits r in (c :: a, b) else ([], l)
  end.

Definition parse_dec (ds : list N) : N := fold_left (fun acc c => 10 * acc + (c - 48)) ds 0.
Definition pad9 (ds : list N) : list N := firstn 9 (ds ++ repeat 48 9%nat).

Definition parse_frac (l : list N) : option (N * list N) :=
  match l with
  | c :: r =>
      if c =? 46 then
        let (ds, rest) := take_digits r in
        match ds with
        | [] => None
        | _ :: _ => Some (parse_dec (pad9 ds), rest)
        end
      else Some (0, l)
  | [] => Some (0, l)
  end.

Definition parse_zone (l : list N) : option Z :=
  match l with
  | [z] => if z =? 90 then Some 0%Z else None
  | [s; h1; h2; c; m1; m2] =>
      if negb (c =? 58) then None else
      match num2 h1 h2, num2 m1 m2 with
      | Some h, Some m =>
          if (h <? 24) && (m <? 60) then
            if s =? 43 then Some (Z.of_N (60 * h + m))
            else if s =? 45 then Some (- Z.of_N (60 * h + m))%Z
            else None
          else None
      | _, _ => None
      end
  | _ => None
  end.

Definition leap (y : N) : bool := (y mod 4 =? 0) && (negb (y mod 100 =? 0) || (y mod 400 =? 0)).
Definition dim (y m : N) : N :=
  if m =? 2 then (if leap y then 29 else 28)
  else if (m =? 4) || (m =? 6) || (m =? 9) || (m =? 11) then 30 else 31.

Definition time_okb (t : time) : bool :=
  (t_year t <? 10000) && (1 <=? t_month t) && (t_month t <=? 12) &&
  (1 <=? t_day t) && (t_day t <=? dim (t_year t) (t_month t)) &&
  (t_hour t <? 24) && (t_min t <? 60) && (t_sec t <? 60) && (t_nano t <? 1000000000) &&
  (-1440 <? t_off t)%Z && (t_off t <? 1440)%Z.

Definition parse_time (s : str) : option time :=
  match s with
  | y1 :: y2 :: y3 :: y4 :: s1 :: m1 :: m2 :: s2 :: dd1 :: dd2 :: tsep :: h1 :: h2 :: s3 :: mi1 :: mi2 :: s4 :: se1 :: se2 :: rest =>
      if negb ((s1 =? 45) && (s2 =? 45) && (tsep =? 84) && (s3 =? 58) && (s4 =? 58)) then None else
      match num2 y1 y2, num2 y3 y4, num2 m1 m2, num2 dd1 dd2, num2 h1 h2, num2 mi1 mi2, num2 se1 se2 with
      | Some ya, Some yb, Some mo, Some dy, Some hh, Some mi, Some se =>
          match parse_frac rest with
          | Some (ns, rest') =>
              match parse_zone rest' with
              | Some off =>
                  let t := mkTime (100 * ya + yb) mo dy hh mi se ns off in
                  if time_okb t then Some t else None
              | None => None
              end
          | None => None
          end
      | _, _, _, _, _, _, _ => None
      end
  | _ => None
  end.

(* ------------------------------------------------------------------ field codecs *)

Definition bytes := list ascii.
Definition smap := option (list (str * str)).
Definition slist := option (list str).

Definition chars_of (l : list ascii) : str := map N_of_ascii l.
(* a code point above 255 cannot be a base64 character *)
Definition ascii_of_char (c : N) : option ascii := if c <? 256 then Some (ascii_of_N c) else None.

Definition enc_pos (p : option bytes) : json :=
  match p with None => JNull | Some bs => JStr (chars_of (Base64.encode bs)) end.
Definition dec_pos (j : json) : option (option bytes) :=
  match j with
  | JNull => Some None
  | JStr s => match mapM ascii_of_char s with
              | Some cs => match Base64.decode cs with Some bs => Some (Some bs) | None => None end
              | None => None
              end
  | _ => None
  end.

Definition dec_str (j : json) : option str :=
  match j with JNull => Some [] | JStr s => Some s | _ => None end.
Definition dec_int (j : json) : option Z :=
  match j with JNull => Some 0%Z | JNum z => Some z | _ => None end.
Definition enc_time (t : time) : json := JStr (fmt_time t).
Definition dec_time (j : json) : option time :=
  match j with JNull => Some zero_time | JStr s => parse_time s | _ => None end.

Definition enc_slist (l : slist) : json :=
  match l with None => JNull | Some l' => JArr (map JStr l') end.
Definition dec_slist (j : json) : option slist :=
  match j with
  | JNull => Some None
  | JArr l => match mapM dec_str l with Some l' => Some (Some l') | None => None end
  | _ => None
  end.

Definition enc_smap (m : smap) : json :=
  match m with None => JNull | Some kvs => JObj (map (fun kv => (fst kv, JStr (snd kv))) kvs) end.
Definition dec_smap (j : json) : option smap :=
  match j with
  | JNull => Some None
  | JObj o =>
      match mapM (fun kv => match dec_str (snd kv) with Some v => Some (fst kv, v) | None => None end) o with
      | Some kvs => Some (Some (canon kvs))
      | None => None
      end
  | _ => None
  end.

Notation "x <- a ;; b" := (match a with Some x => b | None => None end)
  (at level 61, a at next level, right associativity).

(* ------------------------------------------------------------------ connector *)

Record cconfig := mkCConfig { cc_name : str; cc_settings : smap }.

Inductive cstate :=
| CNoState                                              (* State == nil *)
| CSource (p : option bytes)                            (* SourceState{Position} *)
| CDest (m : option (list (str * option bytes))).       (* DestinationState{Positions} *)

Record connector := mkConnector {
  c_id : str; c_type : Z; c_config : cconfig; c_pipeline : str; c_plugin : str;
  c_procs : slist; c_state : cstate; c_prov : Z;
  c_created : time; c_updated : time; c_last : cconfig
}.

Definition TypeSource : Z := 1.
Definition TypeDestination : Z := 2.
Definition ProvisionTypeDLQ : Z := 2.

Definition enc_cconfig (c : cconfig) : json :=
  JObj [(k "Name", JStr (cc_name c)); (k "Settings", enc_smap (cc_settings c))].
Definition dec_cconfig (j : json) : option cconfig :=
  match j with
  | JNull => Some (mkCConfig [] None)
  | JObj o =>
      n <- dec_str (member (k "Name") o) ;;
      s <- dec_smap (member (k "Settings") o) ;;
      Some (mkCConfig n s)
  | _ => None
  end.

Definition enc_positions (m : option (list (str * option bytes))) : json :=
  match m with None => JNull | Some kvs => JObj (map (fun kv => (fst kv, enc_pos (snd kv))) kvs) end.
Definition dec_positions (j : json) : option (option (list (str * option bytes))) :=
  match j with
  | JNull => Some None
  | JObj o =>
      match mapM (fun kv => match dec_pos (snd kv) with Some v => Some (fst kv, v) | None => None end) o with
      | Some kvs => Some (Some (canon kvs))
      | None => None
      end
  | _ => None
  end.

Definition enc_state (s : cstate) : json :=
  match s with
  | CNoState => JNull
  | CSource p => JObj [(k "Position", enc_pos p)]
  | CDest m => JObj [(k "Positions", enc_positions m)]
  end.

(* State is declared [any]: the decoder first builds an untyped value (objects become Go maps),
   decode() marshals that value again (map keys come out sorted) and unmarshals the text into the
   state struct selected by Type. *)
Definition regen (j : json) : json := jcanon j.

Definition dec_source_state (j : json) : option cstate :=
  match j with
  | JObj o => p <- dec_pos (member (k "Position") o) ;; Some (CSource p)
  | _ => None
  end.
Definition dec_dest_state (j : json) : option cstate :=
  match j with
  | JObj o => m <- dec_positions (member (k "Positions") o) ;; Some (CDest m)
  | _ => None
  end.

Definition dec_state (ty : Z) (j : json) : option cstate :=
  match j with
  | JNull => Some CNoState
  | _ =>
      if (ty =? TypeSource)%Z then dec_source_state (regen j)
      else if (ty =? TypeDestination)%Z then dec_dest_state (regen j)
      else None   (* ErrInvalidConnectorType *)
  end.

Definition enc_connector (c : connector) : json :=
  JObj [ (k "ID", JStr (c_id c)); (k "Type", JNum (c_type c)); (k "Config", enc_cconfig (c_config c));
         (k "PipelineID", JStr (c_pipeline c)); (k "Plugin", JStr (c_plugin c));
         (k "ProcessorIDs", enc_slist (c_procs c)); (k "State", enc_state (c_state c));
         (k "ProvisionedBy", JNum (c_prov c));
         (k "CreatedAt", enc_time (c_created c)); (k "UpdatedAt", enc_time (c_updated c));
         (k "LastActiveConfig", enc_cconfig (c_last c)) ].

Definition dec_connector (j : json) : option connector :=
  match j with
  | JObj o =>
      id <- dec_str (member (k "ID") o) ;;
      ty <- dec_int (member (k "Type") o) ;;
      cfg <- dec_cconfig (member (k "Config") o) ;;
      pl <- dec_str (member (k "PipelineID") o) ;;
      pg <- dec_str (member (k "Plugin") o) ;;
      pr <- dec_slist (member (k "ProcessorIDs") o) ;;
      pv <- dec_int (member (k "ProvisionedBy") o) ;;
      ca <- dec_time (member (k "CreatedAt") o) ;;
      ua <- dec_time (member (k "UpdatedAt") o) ;;
      la <- dec_cconfig (member (k "LastActiveConfig") o) ;;
      st <- dec_state ty (member (k "State") o) ;;
      Some (mkConnector id ty cfg pl pg pr st pv ca ua la)
  | _ => None
  end.

(* what decode(encode c) yields: everything, except that a state whose Go type does not fit
   the connector type is read as the (empty) state of the connector type *)
Definition norm_state (ty : Z) (s : cstate) : cstate :=
  match s with
  | CNoState => CNoState
  | CSource p => if (ty =? TypeSource)%Z then CSource p else CDest None
  | CDest m => if (ty =? TypeSource)%Z then CSource None else CDest m
  end.

Definition normalise_connector (c : connector) : connector :=
  mkConnector (c_id c) (c_type c) (c_config c) (c_pipeline c) (c_plugin c) (c_procs c)
    (norm_state (c_type c) (c_state c)) (c_prov c) (c_created c) (c_updated c) (c_last c).

(* connector.Service.Init: a persisted DLQ connector is deleted and not loaded *)
Definition init_connector (c : connector) : option connector :=
  if (c_prov c =? ProvisionTypeDLQ)%Z then None else Some c.

Definition restart_connector (c : connector) : option connector :=
  c' <- dec_connector (enc_connector c) ;; init_connector c'.

(* the connectors the property speaks about: what Service.Create / SetState / Source.Ack /
   Destination.Ack can put into the store *)
Definition state_fits (ty : Z) (s : cstate) : bool :=
  match s with
  | CNoState => true
  | CSource _ => (ty =? TypeSource)%Z
  | CDest _ => (ty =? TypeDestination)%Z
  end.
Definition storable_connector (c : connector) : bool :=
  ((c_type c =? TypeSource) || (c_type c =? TypeDestination))%Z
  && state_fits (c_type c) (c_state c)
  && negb (c_prov c =? ProvisionTypeDLQ)%Z.

(* ---- pre-0.4.1 format: key connector:connector:<id>,
        {"Type":"Source"|"Destination","Data":{"XID","XConfig":{Name,Settings,Plugin,PipelineID,
         ProcessorIDs},"XState","XProvisionedBy","XCreatedAt","XUpdatedAt"}}                  *)
Definition type_name (ty : Z) : str :=
  if (ty =? TypeSource)%Z then k "Source" else if (ty =? TypeDestination)%Z then k "Destination" else k "Type(?)".

Definition enc_pre041 (c : connector) : json :=
  JObj [ (k "Type", JStr (type_name (c_type c)));
         (k "Data", JObj [ (k "XID", JStr (c_id c));
                           (k "XConfig", JObj [ (k "Name", JStr (cc_name (c_config c)));
                                                (k "Settings", enc_smap (cc_settings (c_config c)));
                                                (k "Plugin", JStr (c_plugin c));
                                                (k "PipelineID", JStr (c_pipeline c));
                                                (k "ProcessorIDs", enc_slist (c_procs c)) ]);
                           (k "XState", enc_state (c_state c));
                           (k "XProvisionedBy", JNum (c_prov c));
                           (k "XCreatedAt", enc_time (c_created c));
                           (k "XUpdatedAt", enc_time (c_updated c)) ]) ].

Definition obj_of (j : json) : option (list (str * json)) :=
  match j with JNull => Some [] | JObj o => Some o | _ => None end.

(* migratePre041: decode the old document, build the new Instance, Set it (current format).
   XState is a json.RawMessage: its value is written into the new document unchanged
   (a missing XState is written as null). *)
Definition migrate_pre041 (j : json) : option json :=
  match j with
  | JObj o =>
      tn <- dec_str (member (k "Type") o) ;;
      ty <- (if str_eqb tn (k "Source") then Some TypeSource
             else if str_eqb tn (k "Destination") then Some TypeDestination else None) ;;
      d <- obj_of (member (k "Data") o) ;;
      id <- dec_str (member (k "XID") d) ;;
      xc <- obj_of (member (k "XConfig") d) ;;
      nm <- dec_str (member (k "Name") xc) ;;
      se <- dec_smap (member (k "Settings") xc) ;;
      pg <- dec_str (member (k "Plugin") xc) ;;
      pl <- dec_str (member (k "PipelineID") xc) ;;
      pr <- dec_slist (member (k "ProcessorIDs") xc) ;;
      pv <- dec_int (member (k "XProvisionedBy") d) ;;
      ca <- dec_time (member (k "XCreatedAt") d) ;;
      ua <- dec_time (member (k "XUpdatedAt") d) ;;
      Some (JObj [ (k "ID", JStr id); (k "Type", JNum ty);
                   (k "Config", enc_cconfig (mkCConfig nm se));
                   (k "PipelineID", JStr pl); (k "Plugin", JStr pg);
                   (k "ProcessorIDs", enc_slist pr); (k "State", member (k "XState") d);
                   (k "ProvisionedBy", JNum pv);
                   (k "CreatedAt", enc_time ca); (k "UpdatedAt", enc_time ua);
                   (k "LastActiveConfig", enc_cconfig (mkCConfig [] None)) ])
  | _ => None
  end.

Definition load_pre041 (j : json) : option connector :=
  j' <- migrate_pre041 j ;; c <- dec_connector j' ;; init_connector c.

(* what a pre-0.4.1 record means in today's terms: the same fields, no LastActiveConfig yet *)
Definition of_pre041 (c : connector) : connector :=
  mkConnector (c_id c) (c_type c) (c_config c) (c_pipeline c) (c_plugin c) (c_procs c)
    (c_state c) (c_prov c) (c_created c) (c_updated c) (mkCConfig [] None).

(* ------------------------------------------------------------------ pipeline *)

Record pconfig := mkPConfig { pc_name : str; pc_desc : str }.
Record dlq := mkDlq { dq_plugin : str; dq_settings : smap; dq_size : Z; dq_thr : Z }.
Record pipeline := mkPipeline {
  p_id : str; p_config : pconfig; p_error : str; p_created : time; p_updated : time;
  p_prov : Z; p_dlq : dlq; p_conns : slist; p_procs : slist; p_status : Z
}.

Definition StatusRunning : Z := 1.
Definition StatusSystemStopped : Z := 2.

Definition enc_pconfig (c : pconfig) : json :=
  JObj [(k "Name", JStr (pc_name c)); (k "Description", JStr (pc_desc c))].
Definition dec_pconfig (j : json) : option pconfig :=
  match j with
  | JNull => Some (mkPConfig [] [])
  | JObj o => n <- dec_str (member (k "Name") o) ;; d <- dec_str (member (k "Description") o) ;; Some (mkPConfig n d)
  | _ => None
  end.
Definition enc_dlq (d : dlq) : json :=
  JObj [(k "Plugin", JStr (dq_plugin d)); (k "Settings", enc_smap (dq_settings d));
        (k "WindowSize", JNum (dq_size d)); (k "WindowNackThreshold", JNum (dq_thr d))].
Definition dec_dlq (j : json) : option dlq :=
  match j with
  | JNull => Some (mkDlq [] None 0 0)
  | JObj o =>
      pg <- dec_str (member (k "Plugin") o) ;; se <- dec_smap (member (k "Settings") o) ;;
      ws <- dec_int (member (k "WindowSize") o) ;; wt <- dec_int (member (k "WindowNackThreshold") o) ;;
      Some (mkDlq pg se ws wt)
  | _ => None
  end.

(* encodableInstance{*Instance, Status}: the promoted fields of Instance, then Status *)
Definition enc_pipeline (p : pipeline) : json :=
  JObj [ (k "ID", JStr (p_id p)); (k "Config", enc_pconfig (p_config p)); (k "Error", JStr (p_error p));
         (k "CreatedAt", enc_time (p_created p)); (k "UpdatedAt", enc_time (p_updated p));
         (k "ProvisionedBy", JNum (p_prov p)); (k "DLQ", enc_dlq (p_dlq p));
         (k "ConnectorIDs", enc_slist (p_conns p)); (k "ProcessorIDs", enc_slist (p_procs p));
         (k "Status", JNum (p_status p)) ].

Definition dec_pipeline (j : json) : option pipeline :=
  match j with
  | JObj o =>
      id <- dec_str (member (k "ID") o) ;;
      cfg <- dec_pconfig (member (k "Config") o) ;;
      er <- dec_str (member (k "Error") o) ;;
      ca <- dec_time (member (k "CreatedAt") o) ;;
      ua <- dec_time (member (k "UpdatedAt") o) ;;
      pv <- dec_int (member (k "ProvisionedBy") o) ;;
      dq <- dec_dlq (member (k "DLQ") o) ;;
      cs <- dec_slist (member (k "ConnectorIDs") o) ;;
      ps <- dec_slist (member (k "ProcessorIDs") o) ;;
      st <- dec_int (member (k "Status") o) ;;
      Some (mkPipeline id cfg er ca ua pv dq cs ps st)
  | _ => None
  end.

(* pipeline.Service.Init *)
Definition init_status (s : Z) : Z := if (s =? StatusRunning)%Z then StatusSystemStopped else s.
Definition init_pipeline (p : pipeline) : pipeline :=
  mkPipeline (p_id p) (p_config p) (p_error p) (p_created p) (p_updated p) (p_prov p) (p_dlq p)
    (p_conns p) (p_procs p) (init_status (p_status p)).
(* lifecycle.Service.Init (both engines): which pipelines are started again *)
Definition lifecycle_starts (s : Z) : bool := (s =? StatusSystemStopped)%Z.

Definition restart_pipeline (p : pipeline) : option pipeline :=
  p' <- dec_pipeline (enc_pipeline p) ;; Some (init_pipeline p').

(* ------------------------------------------------------------------ processor *)

Record parent := mkParent { pa_id : str; pa_type : Z }.
Record rconfig := mkRConfig { rc_settings : smap; rc_workers : Z }.
Record processor := mkProcessor {
  r_id : str; r_created : time; r_updated : time; r_prov : Z; r_plugin : str; r_cond : str;
  r_parent : parent; r_config : rconfig
}.

Definition enc_parent (p : parent) : json := JObj [(k "ID", JStr (pa_id p)); (k "Type", JNum (pa_type p))].
Definition dec_parent (j : json) : option parent :=
  match j with
  | JNull => Some (mkParent [] 0)
  | JObj o => i <- dec_str (member (k "ID") o) ;; t <- dec_int (member (k "Type") o) ;; Some (mkParent i t)
  | _ => None
  end.
Definition enc_rconfig (c : rconfig) : json :=
  JObj [(k "Settings", enc_smap (rc_settings c)); (k "Workers", JNum (rc_workers c))].
Definition dec_rconfig (j : json) : option rconfig :=
  match j with
  | JNull => Some (mkRConfig None 0)
  | JObj o => s <- dec_smap (member (k "Settings") o) ;; w <- dec_int (member (k "Workers") o) ;; Some (mkRConfig s w)
  | _ => None
  end.

Definition enc_processor (r : processor) : json :=
  JObj [ (k "ID", JStr (r_id r)); (k "CreatedAt", enc_time (r_created r)); (k "UpdatedAt", enc_time (r_updated r));
         (k "ProvisionedBy", JNum (r_prov r)); (k "Plugin", JStr (r_plugin r)); (k "Condition", JStr (r_cond r));
         (k "Parent", enc_parent (r_parent r)); (k "Config", enc_rconfig (r_config r)) ].

Definition dec_processor (j : json) : option processor :=
  match j with
  | JObj o =>
      id <- dec_str (member (k "ID") o) ;;
      ca <- dec_time (member (k "CreatedAt") o) ;;
      ua <- dec_time (member (k "UpdatedAt") o) ;;
      pv <- dec_int (member (k "ProvisionedBy") o) ;;
      pg <- dec_str (member (k "Plugin") o) ;;
      cd <- dec_str (member (k "Condition") o) ;;
      pa <- dec_parent (member (k "Parent") o) ;;
      cf <- dec_rconfig (member (k "Config") o) ;;
      Some (mkProcessor id ca ua pv pg cd pa cf)
  | _ => None
  end.

Definition restart_processor (r : processor) : option processor := dec_processor (enc_processor r).

(* ------------------------------------------------------------------ representation invariants *)

Definition smap_ok (m : smap) : Prop := match m with None => True | Some kvs => sorted kvs end.
Definition time_ok (t : time) : Prop := time_okb t = true.
Definition cconfig_ok (c : cconfig) : Prop := smap_ok (cc_settings c).
Definition state_ok (s : cstate) : Prop :=
  match s with CDest (Some kvs) => sorted kvs | _ => True end.
Definition connector_ok (c : connector) : Prop :=
  cconfig_ok (c_config c) /\ cconfig_ok (c_last c) /\ state_ok (c_state c) /\
  time_ok (c_created c) /\ time_ok (c_updated c).
Definition pipeline_ok (p : pipeline) : Prop :=
  smap_ok (dq_settings (p_dlq p)) /\ time_ok (p_created p) /\ time_ok (p_updated p).
Definition processor_ok (r : processor) : Prop :=
  smap_ok (rc_settings (r_config r)) /\ time_ok (r_created r) /\ time_ok (r_updated r).

(* the text level: every string of the document must be Unicode text *)
Fixpoint json_text_ok (j : json) : bool :=
  match j with
  | JStr s => forallb scalar s
  | JArr l => forallb json_text_ok l
  | JObj l => forallb (fun kv => let '(key, v) := kv in forallb scalar key && json_text_ok v) l
  | JBad => false
  | _ => true
  end.
