(* Standard base64 with padding (RFC 4648 section 4), the encoding encoding/json and
   goccy/go-json use for []byte values (opencdc.Position is a []byte): base64.StdEncoding.
   Bytes and characters are [ascii] (8 booleans), a sextet is 6 booleans, so regrouping 3 bytes
   into 4 sextets is pure re-association of bits and needs no shift/mask arithmetic.
   Definitions and the round trip theorem (all byte strings, induction on 3-byte groups). *)
From Coq Require Import List Ascii NArith Bool.
Import ListNotations.
Local Open Scope N_scope.

Definition sextet := (bool * bool * bool * bool * bool * bool)%type. (* most significant bit first *)

Definition b2n (b : bool) : N := if b then 1 else 0.

Definition sx_val (s : sextet) : N :=
  let '(b5, b4, b3, b2, b1, b0) := s in
  32 * b2n b5 + 16 * b2n b4 + 8 * b2n b3 + 4 * b2n b2 + 2 * b2n b1 + b2n b0.

Definition sx_of_N (n : N) : sextet :=
  (N.testbit n 5, N.testbit n 4, N.testbit n 3, N.testbit n 2, N.testbit n 1, N.testbit n 0).

(* the alphabet A-Z a-z 0-9 + / as character codes *)
Definition alpha (n : N) : N :=
  if n <? 26 then 65 + n
  else if n <? 52 then 97 + (n - 26)
  else if n <? 62 then 48 + (n - 52)
  else if n =? 62 then 43 else 47.

Definition char_of_sx (s : sextet) : ascii := ascii_of_N (alpha (sx_val s)).

Definition sx_of_char (c : ascii) : option sextet :=
  let n := N_of_ascii c in
  if (65 <=? n) && (n <=? 90) then Some (sx_of_N (n - 65))
  else if (97 <=? n) && (n <=? 122) then Some (sx_of_N (n - 97 + 26))
  else if (48 <=? n) && (n <=? 57) then Some (sx_of_N (n - 48 + 52))
  else if n =? 43 then Some (sx_of_N 62)
  else if n =? 47 then Some (sx_of_N 63)
  else None.

Definition pad : ascii := "="%char.

(* ---- groups ---- *)
Definition enc3 (a b c : ascii) : ascii * ascii * ascii * ascii :=
  let '(Ascii a0 a1 a2 a3 a4 a5 a6 a7) := a in
  let '(Ascii b0 b1 b2 b3 b4 b5 b6 b7) := b in
  let '(Ascii c0 c1 c2 c3 c4 c5 c6 c7) := c in
  (char_of_sx (a7, a6, a5, a4, a3, a2), char_of_sx (a1, a0, b7, b6, b5, b4),
   char_of_sx (b3, b2, b1, b0, c7, c6), char_of_sx (c5, c4, c3, c2, c1, c0)).

Definition enc2 (a b : ascii) : ascii * ascii * ascii :=
  let '(Ascii a0 a1 a2 a3 a4 a5 a6 a7) := a in
  let '(Ascii b0 b1 b2 b3 b4 b5 b6 b7) := b in
  (char_of_sx (a7, a6, a5, a4, a3, a2), char_of_sx (a1, a0, b7, b6, b5, b4),
   char_of_sx (b3, b2, b1, b0, false, false)).

Definition enc1 (a : ascii) : ascii * ascii :=
  let '(Ascii a0 a1 a2 a3 a4 a5 a6 a7) := a in
  (char_of_sx (a7, a6, a5, a4, a3, a2), char_of_sx (a1, a0, false, false, false, false)).

Fixpoint encode (bs : list ascii) : list ascii :=
  match bs with
  | [] => []
  | [a] => let '(k1, k2) := enc1 a in [k1; k2; pad; pad]
  | [a; b] => let '(k1, k2, k3) := enc2 a b in [k1; k2; k3; pad]
  | a :: b :: c :: r => let '(k1, k2, k3, k4) := enc3 a b c in k1 :: k2 :: k3 :: k4 :: encode r
  end.

(* trailing bits of a padded group are ignored, as base64.StdEncoding (non strict) does *)
Definition byte1 (s1 s2 : sextet) : ascii :=
  let '(x5, x4, x3, x2, x1, x0) := s1 in
  let '(y5, y4, y3, y2, y1, y0) := s2 in
  Ascii y4 y5 x0 x1 x2 x3 x4 x5.
Definition byte2 (s2 s3 : sextet) : ascii :=
  let '(y5, y4, y3, y2, y1, y0) := s2 in
  let '(z5, z4, z3, z2, z1, z0) := s3 in
  Ascii z2 z3 z4 z5 y0 y1 y2 y3.
Definition byte3 (s3 s4 : sextet) : ascii :=
  let '(z5, z4, z3, z2, z1, z0) := s3 in
  let '(w5, w4, w3, w2, w1, w0) := s4 in
  Ascii w0 w1 w2 w3 w4 w5 z0 z1.

Definition dec_full (c1 c2 c3 c4 : ascii) : option (ascii * ascii * ascii) :=
  match sx_of_char c1, sx_of_char c2, sx_of_char c3, sx_of_char c4 with
  | Some s1, Some s2, Some s3, Some s4 => Some (byte1 s1 s2, byte2 s2 s3, byte3 s3 s4)
  | _, _, _, _ => None
  end.

Definition dec_last (c1 c2 c3 c4 : ascii) : option (list ascii) :=
  if Ascii.eqb c4 pad then
    if Ascii.eqb c3 pad then
      match sx_of_char c1, sx_of_char c2 with
      | Some s1, Some s2 => Some [byte1 s1 s2]
      | _, _ => None
      end
    else
      match sx_of_char c1, sx_of_char c2, sx_of_char c3 with
      | Some s1, Some s2, Some s3 => Some [byte1 s1 s2; byte2 s2 s3]
      | _, _, _ => None
      end
  else
    match dec_full c1 c2 c3 c4 with
    | Some (a, b, c) => Some [a; b; c]
    | None => None
    end.

Fixpoint decode (cs : list ascii) : option (list ascii) :=
  match cs with
  | [] => Some []
  | c1 :: c2 :: c3 :: c4 :: r =>
      match r with
      | [] => dec_last c1 c2 c3 c4
      | _ :: _ =>
          match dec_full c1 c2 c3 c4, decode r with
          | Some (a, b, c), Some t => Some (a :: b :: c :: t)
          | _, _ => None
          end
      end
  | _ => None
  end.

(* ---- proofs ---- *)

Lemma sx_roundtrip : forall s, sx_of_char (char_of_sx s) = Some s.
Proof.
  intros [[[[[b5 b4] b3] b2] b1] b0].
  destruct b5, b4, b3, b2, b1, b0; vm_compute; reflexivity.
Qed.

Lemma sx_not_pad : forall s, Ascii.eqb (char_of_sx s) pad = false.
Proof.
  intros [[[[[b5 b4] b3] b2] b1] b0].
  destruct b5, b4, b3, b2, b1, b0; vm_compute; reflexivity.
Qed.

Lemma dec_full_enc3 : forall a b c,
  let '(k1, k2, k3, k4) := enc3 a b c in dec_full k1 k2 k3 k4 = Some (a, b, c).
Proof.
  intros [a0 a1 a2 a3 a4 a5 a6 a7] [b0 b1 b2 b3 b4 b5 b6 b7] [c0 c1 c2 c3 c4 c5 c6 c7].
  unfold enc3, dec_full. rewrite !sx_roundtrip. reflexivity.
Qed.

Lemma dec_last_enc3 : forall a b c,
  let '(k1, k2, k3, k4) := enc3 a b c in dec_last k1 k2 k3 k4 = Some [a; b; c].
Proof.
  intros a b c. pose proof (dec_full_enc3 a b c) as H.
  destruct a as [a0 a1 a2 a3 a4 a5 a6 a7], b as [b0 b1 b2 b3 b4 b5 b6 b7],
    c as [c0 c1 c2 c3 c4 c5 c6 c7].
  unfold enc3 in *. unfold dec_last. rewrite sx_not_pad, H. reflexivity.
Qed.

Lemma dec_last_enc2 : forall a b,
  let '(k1, k2, k3) := enc2 a b in dec_last k1 k2 k3 pad = Some [a; b].
Proof.
  intros [a0 a1 a2 a3 a4 a5 a6 a7] [b0 b1 b2 b3 b4 b5 b6 b7].
  unfold enc2, dec_last. rewrite sx_not_pad, !sx_roundtrip. reflexivity.
Qed.

Lemma dec_last_enc1 : forall a,
  let '(k1, k2) := enc1 a in dec_last k1 k2 pad pad = Some [a].
Proof.
  intros [a0 a1 a2 a3 a4 a5 a6 a7].
  unfold enc1, dec_last. rewrite !sx_roundtrip. reflexivity.
Qed.

Lemma list_ind3 {A} (P : list A -> Prop) :
  P [] -> (forall a, P [a]) -> (forall a b, P [a; b]) ->
  (forall a b c r, P r -> P (a :: b :: c :: r)) -> forall l, P l.
Proof.
  intros H0 H1 H2 H3.
  assert (forall l, P l /\ (forall a, P (a :: l)) /\ (forall a b, P (a :: b :: l))) as H.
  { induction l as [|x l [IH0 [IH1 IH2]]].
    - repeat split; auto.
    - repeat split; auto. }
  intros l. apply H.
Qed.

Lemma encode_nil_inv : forall bs, encode bs = [] -> bs = [].
Proof.
  intros [|a [|b [|c r]]]; simpl; try reflexivity.
  - destruct (enc1 a). discriminate.
  - destruct (enc2 a b) as [[? ?] ?]. discriminate.
  - destruct (enc3 a b c) as [[[? ?] ?] ?]. discriminate.
Qed.

Theorem base64_roundtrip : forall bs, decode (encode bs) = Some bs.
Proof.
  induction bs as [|a|a b|a b c r IH] using list_ind3.
  - reflexivity.
  - pose proof (dec_last_enc1 a) as H. cbn [encode]. destruct (enc1 a) as [k1 k2]. exact H.
  - pose proof (dec_last_enc2 a b) as H. cbn [encode]. destruct (enc2 a b) as [[k1 k2] k3]. exact H.
  - pose proof (dec_last_enc3 a b c) as HL. pose proof (dec_full_enc3 a b c) as HF.
    cbn [encode]. destruct (enc3 a b c) as [[[k1 k2] k3] k4].
    cbn [decode]. destruct (encode r) as [|x xs] eqn:E.
    + apply encode_nil_inv in E. subst r. exact HL.
    + rewrite HF, IH. reflexivity.
Qed.

