(* JSON string literals as goccy/go-json (the library all three stores import) writes and reads
   them.  A string is a list of code points ([N]); the literal is the list of code points between
   the quotes.  UTF-8 itself is not modelled: the harness converts bytes <-> code points.

   escape  (goccy encoder, default options = HTML escaping on, as encoding/json):
     "  ->  \"      \  ->  \\      LF CR TAB -> \n \r \t
     other code points below 0x20, and < > &     -> \u00XX   (lower case hex; \b \f are NOT used)
     U+2028 U+2029                               -> \u2028 \u2029
     what is not a Unicode scalar value (a Go string holding invalid UTF-8)   -> \ufffd
     everything else (including 0x7f and all of planes 1..16) is written raw
   unescape (goccy decoder): \" \\ \/ \b \f \n \r \t, \uXXXX with either hex case; a high
     surrogate followed by a \u low surrogate is combined, any other surrogate becomes U+FFFD
     (and a following escape is read on its own); raw characters other than " and \ are kept,
     including control characters (encoding/json would refuse those; goccy does not).          *)
From Coq Require Import List NArith Bool Lia.
Import ListNotations.
Local Open Scope N_scope.

Definition str := list N.

Definition scalar (c : N) : bool := (c <? 0xD800) || ((0xDFFF <? c) && (c <? 0x110000)).

Definition hexd (d : N) : N := if d <? 10 then 48 + d else 87 + d. (* 0-9 a-f *)

Definition hexv (c : N) : option N :=
  if (48 <=? c) && (c <=? 57) then Some (c - 48)
  else if (97 <=? c) && (c <=? 102) then Some (c - 87)
  else if (65 <=? c) && (c <=? 70) then Some (c - 55)
  else None.

Definition hex4 (h1 h2 h3 h4 : N) : option N :=
  match hexv h1, hexv h2, hexv h3, hexv h4 with
  | Some a, Some b, Some c, Some d => Some (((a * 16 + b) * 16 + c) * 16 + d)
  | _, _, _, _ => None
  end.

Definition uesc (c : N) : list N :=
  [92; 117; hexd (c / 4096); hexd ((c / 256) mod 16); hexd ((c / 16) mod 16); hexd (c mod 16)].

Definition esc1 (c : N) : list N :=
  if c =? 34 then [92; 34]
  else if c =? 92 then [92; 92]
  else if c =? 10 then [92; 110]
  else if c =? 13 then [92; 114]
  else if c =? 9 then [92; 116]
  else if c <? 32 then uesc c
  else if (c =? 60) || (c =? 62) || (c =? 38) then uesc c
  else if (c =? 0x2028) || (c =? 0x2029) then uesc c
  else if scalar c then [c]
  else uesc 0xFFFD.

Definition escape (s : str) : list N := flat_map esc1 s.

Definition is_high (v : N) : bool := (0xD800 <=? v) && (v <? 0xDC00).
Definition is_low (v : N) : bool := (0xDC00 <=? v) && (v <? 0xE000).
Definition combine_sur (hi lo : N) : N := 0x10000 + (hi - 0xD800) * 0x400 + (lo - 0xDC00).

Definition simple_esc (e : N) : option N :=
  if e =? 34 then Some 34 else if e =? 92 then Some 92 else if e =? 47 then Some 47
  else if e =? 98 then Some 8 else if e =? 102 then Some 12 else if e =? 110 then Some 10
  else if e =? 114 then Some 13 else if e =? 116 then Some 9 else None.

Definition ocons (c : N) (o : option (list N)) : option (list N) :=
  match o with Some l => Some (c :: l) | None => None end.

Fixpoint unescape (s : list N) : option str :=
  match s with
  | [] => Some []
  | c :: r =>
      if c =? 34 then None
      else if c =? 92 then
        match r with
        | [] => None
        | e :: r1 =>
            if e =? 117 then
              match r1 with
              | h1 :: h2 :: h3 :: h4 :: r2 =>
                  match hex4 h1 h2 h3 h4 with
                  | None => None
                  | Some v =>
                      if is_high v then
                        match r2 with
                        | b :: u :: l1 :: l2 :: l3 :: l4 :: r3 =>
                            if (b =? 92) && (u =? 117) then
                              match hex4 l1 l2 l3 l4 with
                              | Some w => if is_low w then ocons (combine_sur v w) (unescape r3)
                                          else ocons 0xFFFD (unescape r2)
                              | None => ocons 0xFFFD (unescape r2)
                              end
                            else ocons 0xFFFD (unescape r2)
                        | _ => ocons 0xFFFD (unescape r2)
                        end
                      else if is_low v then ocons 0xFFFD (unescape r2)
                      else ocons v (unescape r2)
                  end
              | _ => None
              end
            else
              match simple_esc e with
              | Some x => ocons x (unescape r1)
              | None => None
              end
        end
      else ocons c (unescape r)
  end.

(* ---- proofs ---- *)

(* finite sweep: a boolean predicate checked on 0..n-1 holds for every c < n *)
Fixpoint all_below (f : N -> bool) (n : nat) : bool :=
  match n with
  | O => true
  | S k => f (N.of_nat k) && all_below f k
  end.

Lemma all_below_sound : forall f n, all_below f n = true -> forall c, c < N.of_nat n -> f c = true.
Proof.
  induction n as [|k IH]; intros H c Hc.
  - lia.
  - cbn [all_below] in H. apply andb_true_iff in H as [H1 H2].
    destruct (N.eq_dec c (N.of_nat k)) as [->|Hne]; [exact H1|].
    apply IH; [exact H2|lia].
Qed.

Definition opt_eqb (a b : option N) : bool :=
  match a, b with Some x, Some y => x =? y | None, None => true | _, _ => false end.

Lemma opt_eqb_eq : forall a b, opt_eqb a b = true -> a = b.
Proof.
  intros [x|] [y|]; cbn; try discriminate; try reflexivity.
  intros H. apply N.eqb_eq in H. congruence.
Qed.

(* every 16 bit value survives the \uXXXX spelling *)
Lemma hexv_hexd : forall d, d < 16 -> hexv (hexd d) = Some d.
Proof.
  intros d Hd.
  apply opt_eqb_eq.
  apply (all_below_sound (fun d => opt_eqb (hexv (hexd d)) (Some d)) 16); [vm_compute; reflexivity|exact Hd].
Qed.

Lemma hex4_uesc : forall c, c < 65536 ->
  hex4 (hexd (c / 4096)) (hexd ((c / 256) mod 16)) (hexd ((c / 16) mod 16)) (hexd (c mod 16)) = Some c.
Proof.
  intros c Hc. unfold hex4.
  assert (H1 : c / 4096 < 16) by (apply N.div_lt_upper_bound; lia).
  assert (H2 : (c / 256) mod 16 < 16) by (apply N.mod_lt; lia).
  assert (H3 : (c / 16) mod 16 < 16) by (apply N.mod_lt; lia).
  assert (H4 : c mod 16 < 16) by (apply N.mod_lt; lia).
  rewrite !hexv_hexd by assumption.
  f_equal.
  pose proof (N.div_mod c 16 ltac:(lia)) as E0.
  pose proof (N.div_mod (c / 16) 16 ltac:(lia)) as E1.
  pose proof (N.div_mod (c / 256) 16 ltac:(lia)) as E2.
  replace (c / 256) with (c / 16 / 16) in * by (rewrite N.div_div by lia; reflexivity).
  replace (c / 4096) with (c / 16 / 16 / 16) by (rewrite !N.div_div by lia; reflexivity).
  lia.
Qed.

Lemma unescape_raw : forall c t, (c =? 34) = false -> (c =? 92) = false ->
  unescape (c :: t) = ocons c (unescape t).
Proof. intros c t H1 H2. cbn [unescape]. rewrite H1, H2. reflexivity. Qed.

Lemma unescape_simple : forall e x t, (e =? 117) = false -> simple_esc e = Some x ->
  unescape (92 :: e :: t) = ocons x (unescape t).
Proof. intros e x t H1 H2. cbn [unescape]. cbn [N.eqb Pos.eqb]. rewrite H1, H2. reflexivity. Qed.

Lemma unescape_uesc : forall c t, c < 65536 -> is_high c = false -> is_low c = false ->
  unescape (uesc c ++ t) = ocons c (unescape t).
Proof.
  intros c t Hc Hh Hl. unfold uesc. cbn [app unescape]. cbn [N.eqb Pos.eqb].
  rewrite hex4_uesc by exact Hc. rewrite Hh, Hl. reflexivity.
Qed.

Lemma esc1_roundtrip : forall c t, scalar c = true -> unescape (esc1 c ++ t) = ocons c (unescape t).
Proof.
  intros c t Hs. unfold esc1.
  destruct (c =? 34) eqn:E34. { apply N.eqb_eq in E34. subst c. reflexivity. }
  destruct (c =? 92) eqn:E92. { apply N.eqb_eq in E92. subst c. reflexivity. }
  destruct (c =? 10) eqn:E10. { apply N.eqb_eq in E10. subst c. reflexivity. }
  destruct (c =? 13) eqn:E13. { apply N.eqb_eq in E13. subst c. reflexivity. }
  destruct (c =? 9) eqn:E9. { apply N.eqb_eq in E9. subst c. reflexivity. }
  destruct (c <? 32) eqn:E32.
  { apply N.ltb_lt in E32. apply unescape_uesc; [lia| |]; unfold is_high, is_low;
      apply andb_false_iff; left; apply N.leb_gt; lia. }
  destruct ((c =? 60) || (c =? 62) || (c =? 38)) eqn:Eh.
  { apply orb_true_iff in Eh as [Eh|Eh]; [apply orb_true_iff in Eh as [Eh|Eh]|];
      apply N.eqb_eq in Eh; subst c; reflexivity. }
  destruct ((c =? 0x2028) || (c =? 0x2029)) eqn:El.
  { apply orb_true_iff in El as [El|El]; apply N.eqb_eq in El; subst c; reflexivity. }
  rewrite Hs. cbn [app]. apply unescape_raw; assumption.
Qed.

Theorem jsonstr_roundtrip : forall s, forallb scalar s = true -> unescape (escape s) = Some s.
Proof.
  induction s as [|c s IH]; intros H.
  - reflexivity.
  - cbn [forallb] in H. apply andb_true_iff in H as [Hc Hs].
    unfold escape. cbn [flat_map]. fold (escape s).
    rewrite esc1_roundtrip by exact Hc. rewrite IH by exact Hs. reflexivity.
Qed.

(* what happens to a string that is not valid Unicode: each offending unit becomes U+FFFD *)
Definition sanitize (s : str) : str := map (fun c => if scalar c then c else 0xFFFD) s.

Lemma esc1_nonscalar : forall c, scalar c = false -> esc1 c = uesc 0xFFFD.
Proof.
  intros c Hs. unfold esc1.
  pose proof Hs as Hs'.
  unfold scalar in Hs. apply orb_false_iff in Hs as [H1 H2]. apply N.ltb_ge in H1.
  assert (c =? 34 = false) as -> by (apply N.eqb_neq; lia).
  assert (c =? 92 = false) as -> by (apply N.eqb_neq; lia).
  assert (c =? 10 = false) as -> by (apply N.eqb_neq; lia).
  assert (c =? 13 = false) as -> by (apply N.eqb_neq; lia).
  assert (c =? 9 = false) as -> by (apply N.eqb_neq; lia).
  assert (c <? 32 = false) as -> by (apply N.ltb_ge; lia).
  assert (c =? 60 = false) as -> by (apply N.eqb_neq; lia).
  assert (c =? 62 = false) as -> by (apply N.eqb_neq; lia).
  assert (c =? 38 = false) as -> by (apply N.eqb_neq; lia).
  assert (c =? 0x2028 = false) as -> by (apply N.eqb_neq; lia).
  assert (c =? 0x2029 = false) as -> by (apply N.eqb_neq; lia).
  cbn [orb]. rewrite Hs'. reflexivity.
Qed.

Theorem jsonstr_roundtrip_any : forall s, unescape (escape s) = Some (sanitize s).
Proof.
  induction s as [|c s IH]; [reflexivity|].
  unfold escape. cbn [flat_map sanitize map]. fold (escape s). fold (sanitize s).
  destruct (scalar c) eqn:Hs.
  - rewrite esc1_roundtrip by exact Hs. rewrite IH. reflexivity.
  - rewrite esc1_nonscalar by exact Hs. rewrite unescape_uesc; [rewrite IH; reflexivity|lia|reflexivity|reflexivity].
Qed.
