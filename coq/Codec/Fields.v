(* What StoreCodec.v assumes about the Go declarations, as data, and the decision procedure
   that compares it with what the translator reads from the source tree on every run
   (out/C17/gen/GenStoreFields.v).  The per-run obligation is [fields_diff spec gen = []],
   closed by vm_compute; a non-empty result names the struct / field / copy that moved.
   Order of fields and of structs does not matter.                                         *)
From Coq Require Import List String Bool ZArith.
Import ListNotations.
Local Open Scope string_scope.

(* Go field name, Go type, JSON member name, tag options ("" when there is no tag option) *)
Definition field := (string * string * string * string)%type.
(* path of the field that is set, path that is read from the source value *)
Definition copy := (string * string)%type.

Record facts := mkFacts {
  f_structs : list (string * list field);
  f_copies : list (string * list copy);
  f_json_lib : list (string * string);      (* store file -> import path of its json package *)
  f_consts : list (string * Z);
  f_init_map : list (string * string);      (* pipeline.Service.Init: status found -> status set *)
  f_lifecycle_starts : list (string * string)  (* lifecycle service file -> status whose pipelines Init starts *)
}.

Definition field_eqb (a b : field) : bool :=
  let '(a1, a2, a3, a4) := a in let '(b1, b2, b3, b4) := b in
  String.eqb a1 b1 && String.eqb a2 b2 && String.eqb a3 b3 && String.eqb a4 b4.
Definition copy_eqb (a b : copy) : bool := String.eqb (fst a) (fst b) && String.eqb (snd a) (snd b).
Definition ss_eqb (a b : string * string) : bool := String.eqb (fst a) (fst b) && String.eqb (snd a) (snd b).
Definition sz_eqb (a b : string * Z) : bool := String.eqb (fst a) (fst b) && Z.eqb (snd a) (snd b).

Fixpoint lookup {V} (name : string) (l : list (string * V)) : option V :=
  match l with
  | [] => None
  | (n, v) :: r => if String.eqb n name then Some v else lookup name r
  end.

Definition memb {A} (eqb : A -> A -> bool) (x : A) (l : list A) : bool := existsb (eqb x) l.

Definition fname (f : field) : string := let '(n, _, _, _) := f in n.

(* names of the elements of [a] that are not in [b] *)
Definition missing {A} (eqb : A -> A -> bool) (show : A -> string) (a b : list A) : list string :=
  map show (filter (fun x => negb (memb eqb x b)) a).

Definition diff_struct (name : string) (spec gen : list field) : list string :=
  map (fun s => name ++ "." ++ s ++ ": declared differently from what the model encodes/decodes (name, type or json tag), or gone")
      (missing field_eqb fname spec gen) ++
  map (fun s => name ++ "." ++ s ++ ": exported field the model does not know")
      (missing field_eqb fname gen spec).

Definition diff_copy (site : string) (spec gen : list copy) : list string :=
  map (fun s => site ++ ": field " ++ s ++ " is not copied from the same field of the source value")
      (missing copy_eqb fst spec gen) ++
  map (fun s => site ++ ": sets " ++ s ++ " in a way the model does not know")
      (missing copy_eqb fst gen spec).

Definition diff_assoc {V} (what : string) (eqb : string * V -> string * V -> bool)
  (spec gen : list (string * V)) : list string :=
  map (fun s => what ++ " " ++ s ++ ": differs from the model or gone") (missing eqb fst spec gen).

Definition fields_diff (spec gen : facts) : list string :=
  flat_map (fun '(name, fs) =>
              match lookup name (f_structs gen) with
              | Some gs => diff_struct name fs gs
              | None => [name ++ ": struct not found"]
              end) (f_structs spec) ++
  flat_map (fun '(site, cs) =>
              match lookup site (f_copies gen) with
              | Some gs => diff_copy site cs gs
              | None => [site ++ ": composite literal not found"]
              end) (f_copies spec) ++
  diff_assoc "json package of" ss_eqb (f_json_lib spec) (f_json_lib gen) ++
  diff_assoc "constant" sz_eqb (f_consts spec) (f_consts gen) ++
  diff_assoc "pipeline.Service.Init status mapping" ss_eqb (f_init_map spec) (f_init_map gen) ++
  diff_assoc "lifecycle Init start condition in" ss_eqb (f_lifecycle_starts spec) (f_lifecycle_starts gen).

Definition fields_ok (spec gen : facts) : bool :=
  match fields_diff spec gen with [] => true | _ => false end.

(* ---- the model's assumptions ---- *)

Definition F (n t : string) : field := (n, t, n, "").

Definition spec_facts : facts := mkFacts
  [ ("connector.Instance",
      [F "ID" "string"; F "Type" "Type"; F "Config" "Config"; F "PipelineID" "string"; F "Plugin" "string";
       F "ProcessorIDs" "[]string"; F "State" "any"; F "ProvisionedBy" "ProvisionType";
       F "CreatedAt" "time.Time"; F "UpdatedAt" "time.Time"; F "LastActiveConfig" "Config";
       ("<embedded>", "sync.RWMutex", "", "")]);
    ("connector.Config", [F "Name" "string"; F "Settings" "map[string]string"]);
    ("connector.SourceState", [F "Position" "opencdc.Position"]);
    ("connector.DestinationState", [F "Positions" "map[string]opencdc.Position"]);
    ("connector.migratePre041.connectorPre041",
      [F "Type" "string"; F "Data" "struct"; F "Data.XID" "string"; F "Data.XConfig" "struct";
       F "Data.XConfig.Name" "string"; F "Data.XConfig.Settings" "map[string]string";
       F "Data.XConfig.Plugin" "string"; F "Data.XConfig.PipelineID" "string";
       F "Data.XConfig.ProcessorIDs" "[]string"; F "Data.XState" "json.RawMessage";
       F "Data.XProvisionedBy" "int"; F "Data.XCreatedAt" "time.Time"; F "Data.XUpdatedAt" "time.Time"]);
    ("pipeline.Instance",
      [F "ID" "string"; F "Config" "Config"; F "Error" "string"; F "CreatedAt" "time.Time"; F "UpdatedAt" "time.Time";
       F "ProvisionedBy" "ProvisionType"; F "DLQ" "DLQ"; F "ConnectorIDs" "[]string"; F "ProcessorIDs" "[]string"]);
    ("pipeline.encodableInstance", [("<embedded>", "*Instance", "", ""); F "Status" "Status"]);
    ("pipeline.Config", [F "Name" "string"; F "Description" "string"]);
    ("pipeline.DLQ", [F "Plugin" "string"; F "Settings" "map[string]string"; F "WindowSize" "int";
                      F "WindowNackThreshold" "int"]);
    ("processor.Instance",
      [F "ID" "string"; F "CreatedAt" "time.Time"; F "UpdatedAt" "time.Time"; F "ProvisionedBy" "ProvisionType";
       F "Plugin" "string"; F "Condition" "string"; F "Parent" "Parent"; F "Config" "Config"]);
    ("processor.Parent", [F "ID" "string"; F "Type" "ParentType"]);
    ("processor.Config", [F "Settings" "map[string]string"; F "Workers" "int"]) ]
  [ ("connector.PrepareSet.Instance",
      [("ID", "ID"); ("Type", "Type"); ("Config.Name", "Config.Name"); ("Config.Settings", "Config.Settings");
       ("PipelineID", "PipelineID"); ("Plugin", "Plugin"); ("ProcessorIDs", "ProcessorIDs");
       ("ProvisionedBy", "ProvisionedBy"); ("State", "State"); ("CreatedAt", "CreatedAt");
       ("UpdatedAt", "UpdatedAt"); ("LastActiveConfig", "LastActiveConfig")]);
    ("connector.migratePre041.Instance",
      [("ID", "Data.XID"); ("Type", "<connType>"); ("Config.Name", "Data.XConfig.Name");
       ("Config.Settings", "Data.XConfig.Settings"); ("PipelineID", "Data.XConfig.PipelineID");
       ("Plugin", "Data.XConfig.Plugin"); ("ProcessorIDs", "Data.XConfig.ProcessorIDs");
       ("ProvisionedBy", "ProvisionType(Data.XProvisionedBy)"); ("State", "Data.XState");
       ("CreatedAt", "Data.XCreatedAt"); ("UpdatedAt", "Data.XUpdatedAt")]);
    ("pipeline.encode.encodableInstance", [("Instance", "<instance>"); ("Status", "GetStatus()")]) ]
  [ ("pkg/connector/store.go", "github.com/goccy/go-json");
    ("pkg/pipeline/store.go", "github.com/goccy/go-json");
    ("pkg/processor/store.go", "github.com/goccy/go-json") ]
  [ ("connector.TypeSource", 1%Z); ("connector.TypeDestination", 2%Z);
    ("connector.ProvisionTypeAPI", 0%Z); ("connector.ProvisionTypeConfig", 1%Z); ("connector.ProvisionTypeDLQ", 2%Z);
    ("pipeline.StatusRunning", 1%Z); ("pipeline.StatusSystemStopped", 2%Z); ("pipeline.StatusUserStopped", 3%Z);
    ("pipeline.StatusDegraded", 4%Z); ("pipeline.StatusRecovering", 5%Z) ]
  [ ("StatusRunning", "StatusSystemStopped") ]
  [ ("pkg/lifecycle/service.go", "StatusSystemStopped"); ("pkg/lifecycle-poc/service.go", "StatusSystemStopped") ].

(* ---- the generic lemma, proved once ---- *)

Lemma memb_In {A} (eqb : A -> A -> bool) (Heq : forall a b, eqb a b = true -> a = b) :
  forall x l, memb eqb x l = true -> In x l.
Proof.
  intros x l H. unfold memb in H. apply existsb_exists in H as [y [Hy E]].
  apply Heq in E. subst y. exact Hy.
Qed.

Lemma missing_nil {A} (eqb : A -> A -> bool) (show : A -> string)
  (Heq : forall a b, eqb a b = true -> a = b) :
  forall a b, missing eqb show a b = [] -> incl a b.
Proof.
  induction a as [|x a IH]; intros b H y Hy; [destruct Hy|].
  unfold missing in H. cbn [filter] in H.
  destruct (memb eqb x b) eqn:E; cbn [negb] in H.
  - destruct Hy as [<-|Hy]; [eapply memb_In; eauto|]. apply IH; assumption.
  - discriminate.
Qed.

Lemma field_eqb_eq : forall a b, field_eqb a b = true -> a = b.
Proof.
  intros [[[a1 a2] a3] a4] [[[b1 b2] b3] b4] H. unfold field_eqb in H.
  apply andb_true_iff in H as [H H4]. apply andb_true_iff in H as [H H3].
  apply andb_true_iff in H as [H1 H2].
  apply String.eqb_eq in H1, H2, H3, H4. congruence.
Qed.

Lemma copy_eqb_eq : forall a b, copy_eqb a b = true -> a = b.
Proof.
  intros [a1 a2] [b1 b2] H. unfold copy_eqb in H. cbn [fst snd] in H. apply andb_true_iff in H as [H1 H2].
  apply String.eqb_eq in H1, H2. congruence.
Qed.

Lemma app_nil_both {A} (a b : list A) : (a ++ b)%list = [] -> a = [] /\ b = [].
Proof. destruct a; cbn; [auto|discriminate]. Qed.

Lemma map_nil_inv {A B} (f : A -> B) l : map f l = [] -> l = [].
Proof. destruct l; cbn; [auto|discriminate]. Qed.

Lemma flat_map_nil {A B} (f : A -> list B) l : flat_map f l = [] -> forall x, In x l -> f x = [].
Proof.
  induction l as [|a l IH]; cbn; intros H x Hx; [destruct Hx|].
  apply app_nil_both in H as [H1 H2]. destruct Hx as [<-|Hx]; auto.
Qed.

(* every struct the model speaks about exists with exactly the fields (name, type, json member,
   options) the model assumes - nothing gone, nothing new - and every copy literal sets exactly
   the fields the model assumes from the same fields of its source *)
Theorem fields_complete : forall spec gen, fields_ok spec gen = true ->
  (forall name fs, In (name, fs) (f_structs spec) ->
     exists gs, lookup name (f_structs gen) = Some gs /\ incl fs gs /\ incl gs fs) /\
  (forall site cs, In (site, cs) (f_copies spec) ->
     exists gs, lookup site (f_copies gen) = Some gs /\ incl cs gs /\ incl gs cs).
Proof.
  intros spec gen H. unfold fields_ok in H.
  destruct (fields_diff spec gen) eqn:E; [clear H|discriminate].
  unfold fields_diff in E.
  apply app_nil_both in E as [E1 E]. apply app_nil_both in E as [E2 _].
  split.
  - intros name fs Hin. pose proof (flat_map_nil _ _ E1 _ Hin) as Hd. cbn beta iota in Hd.
    destruct (lookup name (f_structs gen)) as [gs|]; [|discriminate].
    exists gs. split; [reflexivity|].
    unfold diff_struct in Hd. apply app_nil_both in Hd as [Ha Hb].
    apply map_nil_inv in Ha, Hb.
    split; eapply missing_nil; eauto using field_eqb_eq.
  - intros site cs Hin. pose proof (flat_map_nil _ _ E2 _ Hin) as Hd. cbn beta iota in Hd.
    destruct (lookup site (f_copies gen)) as [gs|]; [|discriminate].
    exists gs. split; [reflexivity|].
    unfold diff_copy in Hd. apply app_nil_both in Hd as [Ha Hb].
    apply map_nil_inv in Ha, Hb.
    split; eapply missing_nil; eauto using copy_eqb_eq.
Qed.
