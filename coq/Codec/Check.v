(* Executable correspondence + monitors for the C17 case files written by harness/cmd/c17.
   JSON documents coming from the harness ([stored], [doc]) carry the *raw text* of every string
   literal (code points between the quotes, escapes not interpreted), so the model's [escape]
   and [unescape] are compared with what goccy/go-json really wrote / really understood.   *)
From Verif Require Import Base.CaseCheck Codec.Base64 Codec.JsonStr Codec.StoreCodec.
From Coq Require Import NArith ZArith Ascii String Uint63.
Local Open Scope string_scope.
Local Open Scope N_scope.

Definition B (l : list N) : bytes := map ascii_of_N l.

(* packed literals.  Lists of numbers and long number literals elaborate far too slowly in a big
   case file; primitive integers are cheap.  The binary digits of a word are, after a leading 1,
   fixed-width fields, first element first: two code points of 24 bits, or up to seven bytes;
   0 holds nothing.  Eight words make a chunk.                                              *)
Fixpoint unpack (w : nat) (p : positive) (cnt : nat) (wt cur : N) (acc : list N) : list N :=
  let step (bit : bool) (q : positive) :=
    let cur' := if bit then cur + wt else cur in
    if Nat.eqb (S cnt) w then (q, 0%nat, 1, 0, cur' :: acc) else (q, S cnt, N.double wt, cur', acc) in
  match p with
  | xH => acc
  | xO q => let '(_, c', w', u', a') := step false q in unpack w q c' w' u' a'
  | xI q => let '(_, c', w', u', a') := step true q in unpack w q c' w' u' a'
  end.

Definition limb (w : nat) (i : int) : list N :=
  match Uint63.to_Z i with Zpos p => unpack w p 0 1 0 [] | _ => [] end.

Inductive ch := C8 (a b c d e f g h : int).
Arguments C8 (a b c d e f g h)%uint63.

Definition words (c : ch) : list int := let '(C8 a b c d e f g h) := c in [a; b; c; d; e; f; g; h].
Definition U (l : list ch) : str := flat_map (fun c => flat_map (limb 24) (words c)) l.
Definition Y (l : list ch) : bytes := map ascii_of_N (flat_map (fun c => flat_map (limb 8) (words c)) l).

(* member names the documents use all the time *)
Definition kID := k "ID". Definition kType := k "Type". Definition kConfig := k "Config".
Definition kName := k "Name". Definition kSettings := k "Settings". Definition kPipelineID := k "PipelineID".
Definition kPlugin := k "Plugin". Definition kProcessorIDs := k "ProcessorIDs". Definition kState := k "State".
Definition kPosition := k "Position". Definition kPositions := k "Positions".
Definition kProvisionedBy := k "ProvisionedBy". Definition kCreatedAt := k "CreatedAt".
Definition kUpdatedAt := k "UpdatedAt". Definition kLastActiveConfig := k "LastActiveConfig".
Definition kDescription := k "Description". Definition kError := k "Error". Definition kDLQ := k "DLQ".
Definition kWindowSize := k "WindowSize". Definition kWindowNackThreshold := k "WindowNackThreshold".
Definition kConnectorIDs := k "ConnectorIDs". Definition kStatus := k "Status".
Definition kCondition := k "Condition". Definition kParent := k "Parent". Definition kWorkers := k "Workers".

Inductive ccase :=
(* Set on the real store, restart (fresh service, Init on the same DB), Get *)
| KConn (input : connector) (stored : option json) (loaded : option connector)
| KPipe (input : pipeline) (stored : option json) (loaded : option pipeline) (started_v1 started_v2 : bool)
| KProc (input : processor) (stored : option json) (loaded : option processor)
(* a pre-0.4.1 connector record written under connector:connector:<id>, then restart *)
| KOld041 (old : connector) (doc : json) (loaded : option connector)
(* a current-format document put into the DB directly (golden files, hand written shapes) *)
| KDocConn (doc : json) (loaded : option connector)
| KDocPipe (doc : json) (loaded : option pipeline) (started_v1 started_v2 : bool)
| KDocProc (doc : json) (loaded : option processor).

Definition conn_eqb (a b : connector) : bool := json_eqb (enc_connector a) (enc_connector b).
Definition pipe_eqb (a b : pipeline) : bool := json_eqb (enc_pipeline a) (enc_pipeline b).
Definition proc_eqb (a b : processor) : bool := json_eqb (enc_processor a) (enc_processor b).

Definition opt_eqb {A} (eqb : A -> A -> bool) (a b : option A) : bool :=
  match a, b with Some x, Some y => eqb x y | None, None => true | _, _ => false end.

Definition stored_agrees (model : json) (stored : option json) : bool :=
  match stored with Some s => json_eqv (esc_json model) s | None => false end.

Definition bind {A B} (a : option A) (f : A -> option B) : option B :=
  match a with Some x => f x | None => None end.

(* every member of [d] that is not null is present in [e] with a value that subsumes it *)
Fixpoint subsumes (d e : json) : bool :=
  match d with
  | JNull => true
  | JObj l =>
      match e with
      | JObj m => (fix go (l : list (str * json)) : bool :=
                     match l with
                     | [] => true
                     | (key, v) :: r => subsumes v (member key m) && go r
                     end) l
      | _ => false
      end
  | JArr l =>
      match e with
      | JArr m => (fix go (l m : list json) : bool :=
                     match l, m with
                     | [], [] => true
                     | a :: l', b :: m' => subsumes a b && go l' m'
                     | _, _ => false
                     end) l m
      | _ => false
      end
  | _ => json_eqb d e
  end.

Definition with_status (s : Z) (p : pipeline) : pipeline :=
  mkPipeline (p_id p) (p_config p) (p_error p) (p_created p) (p_updated p) (p_prov p) (p_dlq p)
    (p_conns p) (p_procs p) s.

(* the property for a pipeline: all fields as stored; a stored Running is found as a status the
   lifecycle service starts again (and both engines were seen starting it), any other status
   is read back as it was *)
Definition mon_pipe (input : pipeline) (loaded : option pipeline) (s1 s2 : bool) : bool :=
  match loaded with
  | None => false
  | Some l =>
      pipe_eqb (with_status 0 l) (with_status 0 input) &&
      (if (p_status input =? StatusRunning)%Z then s1 && s2
       else (p_status l =? p_status input)%Z)
  end.

Definition set_member (key : str) (v : json) (j : json) : json :=
  match j with
  | JObj l => JObj (map (fun kv => let '(k', v') := kv in if str_eqb k' key then (k', v) else (k', v')) l)
  | _ => j
  end.

(* the model of a restart, including the text level: encode, write every string literal,
   read every string literal, decode, Init *)
Definition through_text (j : json) : option json := unesc_json (esc_json j).

Definition chk (c : ccase) : nat :=
  match c with
  | KConn input stored loaded =>
      let from_stored := bind (bind (bind stored unesc_json) dec_connector) init_connector in
      let model := bind (bind (through_text (enc_connector input)) dec_connector) init_connector in
      code (stored_agrees (enc_connector input) stored
            && opt_eqb conn_eqb model loaded
            && opt_eqb conn_eqb from_stored loaded)
           (if storable_connector input && json_text_ok (enc_connector input)
            then opt_eqb conn_eqb loaded (Some input) else true)
  | KPipe input stored loaded s1 s2 =>
      let from_stored := bind (bind stored unesc_json) dec_pipeline in
      let model := option_map init_pipeline (bind (through_text (enc_pipeline input)) dec_pipeline) in
      let starts := match model with Some m => lifecycle_starts (p_status m) | None => false end in
      code (stored_agrees (enc_pipeline input) stored
            && opt_eqb pipe_eqb model loaded
            && opt_eqb pipe_eqb (option_map init_pipeline from_stored) loaded
            && Bool.eqb s1 starts && Bool.eqb s2 starts)
           (if json_text_ok (enc_pipeline input) then mon_pipe input loaded s1 s2 else true)
  | KProc input stored loaded =>
      let from_stored := bind (bind stored unesc_json) dec_processor in
      let model := bind (through_text (enc_processor input)) dec_processor in
      code (stored_agrees (enc_processor input) stored
            && opt_eqb proc_eqb model loaded
            && opt_eqb proc_eqb from_stored loaded)
           (if json_text_ok (enc_processor input) then opt_eqb proc_eqb loaded (Some input) else true)
  | KOld041 old doc loaded =>
      (* the document was written by the harness with encoding/json, whose escapes differ from
         goccy's: compared as values *)
      code (match through_text (enc_pre041 old), unesc_json doc with
            | Some a, Some b => json_eqv a b
            | _, _ => false
            end
            && opt_eqb conn_eqb (bind (unesc_json doc) load_pre041) loaded)
           (if storable_connector old && json_text_ok (enc_connector old)
            then opt_eqb conn_eqb loaded (Some (of_pre041 old)) else true)
  | KDocConn doc loaded =>
      let d := unesc_json doc in
      code (opt_eqb conn_eqb (bind (bind d dec_connector) init_connector) loaded)
           (match d, loaded with
            | Some d', Some l => subsumes d' (enc_connector l)
            | _, _ => false
            end)
  | KDocPipe doc loaded s1 s2 =>
      let d := unesc_json doc in
      let model := option_map init_pipeline (bind d dec_pipeline) in
      let starts := match model with Some m => lifecycle_starts (p_status m) | None => false end in
      code (opt_eqb pipe_eqb model loaded && Bool.eqb s1 starts && Bool.eqb s2 starts)
           (match d, loaded with
            | Some d', Some l =>
                match member (k "Status") (match d' with JObj o => o | _ => [] end) with
                | JNum st =>
                    if (st =? StatusRunning)%Z
                    then subsumes (set_member (k "Status") JNull d') (enc_pipeline l) && s1 && s2
                    else subsumes d' (enc_pipeline l)
                | _ => subsumes d' (enc_pipeline l)
                end
            | _, _ => false
            end)
  | KDocProc doc loaded =>
      let d := unesc_json doc in
      code (opt_eqb proc_eqb (bind d dec_processor) loaded)
           (match d, loaded with
            | Some d', Some l => subsumes d' (enc_processor l)
            | _, _ => false
            end)
  end.
