(* Proofs about the store codec model (StoreCodec.v): round trips at the level of JSON values,
   the text level (string literals), RFC 3339 timestamps, the pre-0.4.1 migration and the
   status a running pipeline is found with after a restart.  No bound on sizes anywhere. *)
From Coq Require Import List NArith ZArith Bool Ascii String Lia.
From Verif Require Import Codec.Base64 Codec.JsonStr Codec.StoreCodec.
Import ListNotations.
Local Open Scope N_scope.

(* ------------------------------------------------------------------ strings as keys *)

Lemma str_cmp_refl : forall a, str_cmp a a = Eq.
Proof. induction a as [|x a IH]; cbn [str_cmp]; [reflexivity|]. rewrite N.compare_refl. exact IH. Qed.

Lemma str_cmp_eq : forall a b, str_cmp a b = Eq -> a = b.
Proof.
  induction a as [|x a IH]; intros [|y b] H; cbn [str_cmp] in H; try discriminate; [reflexivity|].
  destruct (N.compare x y) eqn:E; try discriminate.
  apply N.compare_eq in E. subst y. f_equal. apply IH. exact H.
Qed.

Lemma str_cmp_antisym : forall a b, str_cmp b a = CompOpp (str_cmp a b).
Proof.
  induction a as [|x a IH]; intros [|y b]; cbn [str_cmp]; try reflexivity.
  rewrite (N.compare_antisym x y). destruct (N.compare x y); cbn [CompOpp]; auto.
Qed.

Lemma str_eqb_refl : forall a, str_eqb a a = true.
Proof. intros a. unfold str_eqb. rewrite str_cmp_refl. reflexivity. Qed.

Lemma str_eqb_eq : forall a b, str_eqb a b = true -> a = b.
Proof. intros a b H. unfold str_eqb in H. destruct (str_cmp a b) eqn:E; try discriminate. apply str_cmp_eq; exact E. Qed.

(* ------------------------------------------------------------------ sorted association lists *)

Lemma ins_last {V} : forall (key : str) (v : V) l,
  Forall (fun p => str_cmp (fst p) key = Lt) l -> ins key v l = l ++ [(key, v)].
Proof.
  induction l as [|[k' v'] l IH]; intros H; [reflexivity|].
  inversion H as [|? ? Hk Hl]; subst. cbn [fst] in Hk.
  cbn [ins]. rewrite (str_cmp_antisym k' key), Hk. cbn [CompOpp].
  rewrite IH by exact Hl. reflexivity.
Qed.

Lemma sorted_app_inv {V} : forall (a : list (str * V)) key v b,
  sorted (a ++ (key, v) :: b) -> Forall (fun p => str_cmp (fst p) key = Lt) a /\ sorted (a ++ [(key, v)]) .
Proof.
  induction a as [|[k' v'] a IH]; intros key v b H.
  - split; [constructor|]. cbn. constructor; constructor.
  - cbn [app] in H. inversion H as [|? ? ? Hall Hs]; subst.
    destruct (IH _ _ _ Hs) as [Hlt Hs'].
    split.
    + constructor; [|exact Hlt]. cbn [fst].
      rewrite Forall_forall in Hall. apply (Hall (key, v)). apply in_or_app. right. left. reflexivity.
    + cbn [app]. constructor; [|exact Hs'].
      rewrite Forall_forall in *. intros p Hp. apply Hall.
      apply in_app_or in Hp as [Hp|Hp]; apply in_or_app; [left; exact Hp|right].
      destruct Hp as [<-|[]]. left. reflexivity.
Qed.

Lemma canon_sorted_gen {V} : forall (l acc : list (str * V)),
  sorted (acc ++ l) -> fold_left (fun a kv => ins (fst kv) (snd kv) a) l acc = acc ++ l.
Proof.
  induction l as [|[key v] l IH]; intros acc H.
  - cbn. rewrite app_nil_r. reflexivity.
  - cbn [fold_left fst snd].
    destruct (sorted_app_inv _ _ _ _ H) as [Hlt _].
    rewrite ins_last by exact Hlt.
    rewrite IH; rewrite <- app_assoc; cbn [app]; [reflexivity|exact H].
Qed.

Lemma canon_sorted {V} : forall (l : list (str * V)), sorted l -> canon l = l.
Proof. intros l H. unfold canon. apply (canon_sorted_gen l []). exact H. Qed.

Lemma sorted_map_vals {V W} (f : str * V -> W) : forall (l : list (str * V)),
  sorted l -> sorted (map (fun kv => (fst kv, f kv)) l).
Proof.
  induction l as [|[key v] l IH]; intros H; cbn [map fst]; [constructor|].
  inversion H as [|? ? ? Hall Hs]; subst. constructor; [|apply IH; exact Hs].
  rewrite Forall_forall in *. intros p Hp. apply in_map_iff in Hp as [q [<- Hq]]. cbn [fst]. apply Hall. exact Hq.
Qed.

(* ------------------------------------------------------------------ mapM *)

Lemma mapM_map {A B} (f : B -> option A) (g : A -> B) : forall l,
  (forall x, In x l -> f (g x) = Some x) -> mapM f (map g l) = Some l.
Proof.
  induction l as [|a l IH]; intros H; [reflexivity|].
  cbn [map mapM]. rewrite H by (left; reflexivity). rewrite IH; [reflexivity|].
  intros x Hx. apply H. right. exact Hx.
Qed.

(* ------------------------------------------------------------------ positions *)

Lemma ascii_of_char_N_of_ascii : forall a, ascii_of_char (N_of_ascii a) = Some a.
Proof.
  intros a. unfold ascii_of_char.
  assert (N_of_ascii a < 256) as H by apply N_ascii_bounded.
  apply N.ltb_lt in H. rewrite H. rewrite ascii_N_embedding. reflexivity.
Qed.

Lemma dec_enc_pos : forall p, dec_pos (enc_pos p) = Some p.
Proof.
  intros [bs|]; [|reflexivity].
  cbn [enc_pos dec_pos]. unfold chars_of.
  rewrite mapM_map by (intros; apply ascii_of_char_N_of_ascii).
  rewrite base64_roundtrip. reflexivity.
Qed.

Lemma jcanon_enc_pos : forall p, jcanon (enc_pos p) = enc_pos p.
Proof. intros [bs|]; reflexivity. Qed.

(* ------------------------------------------------------------------ lists and maps of strings *)

Lemma dec_enc_slist : forall l, dec_slist (enc_slist l) = Some l.
Proof.
  intros [l|]; [|reflexivity].
  cbn [enc_slist dec_slist]. rewrite mapM_map by (intros; reflexivity). reflexivity.
Qed.

Lemma dec_enc_smap : forall m, smap_ok m -> dec_smap (enc_smap m) = Some m.
Proof.
  intros [kvs|] H; [|reflexivity].
  cbn [enc_smap dec_smap].
  rewrite mapM_map.
  - rewrite canon_sorted by exact H. reflexivity.
  - intros [key v] _. reflexivity.
Qed.

Lemma dec_enc_positions : forall m, state_ok (CDest m) -> dec_positions (enc_positions m) = Some m.
Proof.
  intros [kvs|] H; [|reflexivity].
  cbn [enc_positions dec_positions].
  rewrite mapM_map.
  - rewrite canon_sorted by exact H. reflexivity.
  - intros [key v] _. cbn [fst snd]. rewrite dec_enc_pos. reflexivity.
Qed.

(* ------------------------------------------------------------------ time *)

Lemma isdig_48 : forall d, d < 10 -> isdig (48 + d) = true.
Proof. intros d H. unfold isdig. apply andb_true_iff. split; apply N.leb_le; lia. Qed.

Lemma dig_48 : forall d, d < 10 -> dig (48 + d) = Some d.
Proof. intros d H. unfold dig. rewrite isdig_48 by exact H. f_equal. lia. Qed.

Lemma num2_d2 : forall n, n < 100 -> num2 (48 + n / 10) (48 + n mod 10) = Some n.
Proof.
  intros n H. unfold num2.
  assert (n / 10 < 10) by (apply N.div_lt_upper_bound; lia).
  assert (n mod 10 < 10) by (apply N.mod_lt; lia).
  rewrite !dig_48 by assumption. f_equal.
  pose proof (N.div_mod n 10 ltac:(lia)). lia.
Qed.

Lemma digits_length : forall w n, List.length (digits w n) = w.
Proof.
  induction w as [|w IH]; intros n; [reflexivity|].
  cbn [digits]. rewrite app_length, IH. cbn. lia.
Qed.

Lemma digits_isdig : forall w n, forallb isdig (digits w n) = true.
Proof.
  induction w as [|w IH]; intros n; [reflexivity|].
  cbn [digits]. rewrite forallb_app, IH. cbn [forallb].
  rewrite isdig_48 by (apply N.mod_lt; lia). reflexivity.
Qed.

Lemma parse_dec_app : forall a b, parse_dec (a ++ b) = fold_left (fun acc c => 10 * acc + (c - 48)) b (parse_dec a).
Proof. intros a b. unfold parse_dec. apply fold_left_app. Qed.

Lemma parse_dec_digits : forall w n, parse_dec (digits w n) = n mod 10 ^ N.of_nat w.
Proof.
  induction w as [|w IH]; intros n.
  - cbn. rewrite N.mod_1_r. reflexivity.
  - cbn [digits]. rewrite parse_dec_app, IH. cbn [fold_left].
    rewrite (N.add_comm 48 (n mod 10)), N.add_sub.
    rewrite Nat2N.inj_succ, N.pow_succ_r'.
    assert (10 ^ N.of_nat w <> 0) as Hp by (apply N.pow_nonzero; lia).
    rewrite N.mod_mul_r by lia.
    lia.
Qed.

(* strip0 only removes a block of '0' at the end *)
Lemma strip0_spec : forall l, exists z, l = strip0 l ++ repeat 48 z.
Proof.
  induction l as [|c l [z IH]].
  - exists 0%nat. reflexivity.
  - cbn [strip0]. destruct (strip0 l) as [|c' r] eqn:E.
    + destruct (c =? 48) eqn:Ec.
      * apply N.eqb_eq in Ec. subst c. exists (S z). cbn [app repeat]. rewrite IH at 1. reflexivity.
      * exists z. cbn [app]. rewrite IH at 1. reflexivity.
    + exists z. rewrite IH at 1. reflexivity.
Qed.

Lemma strip0_isdig : forall l, forallb isdig l = true -> forallb isdig (strip0 l) = true.
Proof.
  intros l H. destruct (strip0_spec l) as [z Hz]. rewrite Hz in H.
  rewrite forallb_app in H. apply andb_true_iff in H as [H _]. exact H.
Qed.

Lemma parse_dec_zeros : forall z a, fold_left (fun acc c => 10 * acc + (c - 48)) (repeat 48 z) a = a * 10 ^ N.of_nat z.
Proof.
  induction z as [|z IH]; intros a.
  - cbn. lia.
  - cbn [repeat fold_left]. rewrite IH. rewrite Nat2N.inj_succ, N.pow_succ_r'. lia.
Qed.

Lemma pad9_strip0 : forall ds, List.length ds = 9%nat -> pad9 (strip0 ds) = ds.
Proof.
  intros ds Hl. destruct (strip0_spec ds) as [z Hz].
  unfold pad9. set (s := strip0 ds) in *.
  assert (List.length s + z = 9)%nat as Hlen.
  { rewrite Hz in Hl. rewrite app_length, repeat_length in Hl. exact Hl. }
  rewrite firstn_app.
  rewrite firstn_all2 by lia.
  replace (9 - List.length s)%nat with z by lia.
  replace (repeat 48 9) with (repeat 48 z ++ repeat 48 (9 - z)).
  2:{ rewrite <- repeat_app. f_equal. lia. }
  rewrite firstn_app, repeat_length, Nat.sub_diag. cbn [firstn]. rewrite app_nil_r.
  rewrite firstn_all2 by (rewrite repeat_length; lia).
  symmetry. exact Hz.
Qed.

Lemma take_digits_app : forall ds c rest, forallb isdig ds = true -> isdig c = false ->
  take_digits (ds ++ c :: rest) = (ds, c :: rest).
Proof.
  induction ds as [|d ds IH]; intros c rest Hd Hc.
  - cbn [app take_digits]. rewrite Hc. reflexivity.
  - cbn [forallb] in Hd. apply andb_true_iff in Hd as [H1 H2].
    cbn [app take_digits]. rewrite H1, IH by assumption. reflexivity.
Qed.

Lemma fmt_zone_head : forall off, exists c rest, fmt_zone off = c :: rest /\ isdig c = false /\ (c =? 46) = false.
Proof.
  intros off. unfold fmt_zone. destruct (off =? 0)%Z.
  - exists 90, []. repeat split.
  - destruct (off <? 0)%Z; eexists; eexists; repeat split.
Qed.

Lemma parse_frac_fmt : forall ns off, ns < 1000000000 ->
  parse_frac (fmt_frac ns ++ fmt_zone off) = Some (ns, fmt_zone off).
Proof.
  intros ns off Hns. unfold fmt_frac.
  destruct (fmt_zone_head off) as [c [rest [Hz [Hc H46]]]].
  destruct (ns =? 0) eqn:E0.
  - apply N.eqb_eq in E0. subst ns. cbn [app]. rewrite Hz. unfold parse_frac. rewrite H46. reflexivity.
  - apply N.eqb_neq in E0.
    cbn [app]. unfold parse_frac. rewrite N.eqb_refl.
    rewrite Hz. rewrite take_digits_app; [| apply strip0_isdig, digits_isdig | exact Hc].
    destruct (strip0 (digits 9 ns)) as [|d ds] eqn:Es.
    + exfalso. destruct (strip0_spec (digits 9 ns)) as [z Hzz]. rewrite Es in Hzz. cbn [app] in Hzz.
      pose proof (parse_dec_digits 9 ns) as Hp. rewrite Hzz in Hp.
      unfold parse_dec in Hp. rewrite parse_dec_zeros in Hp.
      rewrite N.mod_small in Hp by (cbn; lia). lia.
    + rewrite <- Es. rewrite pad9_strip0 by apply digits_length.
      rewrite parse_dec_digits. rewrite N.mod_small by (cbn; lia). reflexivity.
Qed.

Lemma parse_zone_fmt : forall off, (-1440 < off < 1440)%Z -> parse_zone (fmt_zone off) = Some off.
Proof.
  intros off H. unfold fmt_zone.
  destruct (off =? 0)%Z eqn:E0.
  - apply Z.eqb_eq in E0. subst off. reflexivity.
  - apply Z.eqb_neq in E0.
    set (a := Z.to_N (Z.abs off)).
    assert (a < 1440) as Ha by (unfold a; lia).
    assert (a / 60 < 24) as Hh by (apply N.div_lt_upper_bound; lia).
    assert (a mod 60 < 60) as Hm by (apply N.mod_lt; lia).
    pose proof (N.div_mod a 60 ltac:(lia)) as Hdm.
    unfold d2. cbn [app]. unfold parse_zone.
    change (58 =? 58) with true. cbn [negb].
    rewrite !num2_d2 by lia.
    apply N.ltb_lt in Hh, Hm. rewrite Hh, Hm. cbn [andb].
    destruct (off <? 0)%Z eqn:Es.
    + apply Z.ltb_lt in Es. change (45 =? 43) with false. change (45 =? 45) with true.
      cbv iota. rewrite <- Hdm. f_equal. unfold a. lia.
    + apply Z.ltb_ge in Es. change (43 =? 43) with true.
      cbv iota. rewrite <- Hdm. f_equal. unfold a. lia.
Qed.

Lemma time_okb_spec : forall t, time_okb t = true ->
  t_year t < 10000 /\ t_month t < 100 /\ t_day t < 100 /\ t_hour t < 100 /\ t_min t < 100 /\ t_sec t < 100 /\
  t_nano t < 1000000000 /\ (-1440 < t_off t < 1440)%Z.
Proof.
  intros t H. unfold time_okb in H.
  repeat match type of H with (_ && _ = true) => apply andb_true_iff in H as [H ?] end.
  repeat match goal with
         | X : (_ <? _) = true |- _ => apply N.ltb_lt in X
         | X : (_ <=? _) = true |- _ => apply N.leb_le in X
         | X : (_ <? _)%Z = true |- _ => apply Z.ltb_lt in X
         end.
  assert (dim (t_year t) (t_month t) <= 31).
  { unfold dim. destruct (t_month t =? 2); [destruct (leap (t_year t)); lia|].
    destruct ((t_month t =? 4) || (t_month t =? 6) || (t_month t =? 9) || (t_month t =? 11)); lia. }
  repeat split; lia.
Qed.

Theorem parse_fmt_time : forall t, time_ok t -> parse_time (fmt_time t) = Some t.
Proof.
  intros t Hok. unfold time_ok in Hok.
  destruct (time_okb_spec t Hok) as [Hy [Hmo [Hd [Hh [Hmi [Hs [Hns Hoff]]]]]]].
  destruct t as [y mo d h mi s ns off]. cbn [t_year t_month t_day t_hour t_min t_sec t_nano t_off] in *.
  unfold fmt_time. cbn [t_year t_month t_day t_hour t_min t_sec t_nano t_off].
  unfold d4. cbn [d2 app].
  unfold parse_time.
  change (45 =? 45) with true. change (84 =? 84) with true. change (58 =? 58) with true.
  cbn [andb negb].
  assert (y / 100 < 100) by (apply N.div_lt_upper_bound; lia).
  assert (y mod 100 < 100) by (apply N.mod_lt; lia).
  rewrite !num2_d2 by assumption.
  rewrite parse_frac_fmt by exact Hns.
  rewrite parse_zone_fmt by exact Hoff.
  pose proof (N.div_mod y 100 ltac:(lia)) as Hdm.
  replace (100 * (y / 100) + y mod 100) with y by lia.
  rewrite Hok. reflexivity.
Qed.

Lemma dec_enc_time : forall t, time_ok t -> dec_time (enc_time t) = Some t.
Proof. intros t H. unfold enc_time, dec_time. apply parse_fmt_time. exact H. Qed.

(* ------------------------------------------------------------------ object member lookup *)

Lemma member_hit : forall key v r, member key ((key, v) :: r) = v.
Proof. intros. cbn [member]. rewrite str_eqb_refl. reflexivity. Qed.

Lemma member_miss : forall key k' v r, str_eqb key k' = false -> member key ((k', v) :: r) = member key r.
Proof. intros key k' v r H. cbn [member]. rewrite H. reflexivity. Qed.

Ltac mem :=
  repeat first [ rewrite member_hit
               | rewrite member_miss by (vm_compute; reflexivity) ].

(* ------------------------------------------------------------------ connector *)

Lemma dec_enc_cconfig : forall c, cconfig_ok c -> dec_cconfig (enc_cconfig c) = Some c.
Proof.
  intros [n s] H. unfold cconfig_ok in H. cbn [cc_settings] in H.
  unfold enc_cconfig, dec_cconfig. cbn [cc_name cc_settings]. mem.
  cbn [dec_str]. rewrite dec_enc_smap by exact H. reflexivity.
Qed.

Definition type_known (ty : Z) : Prop := ty = TypeSource \/ ty = TypeDestination.

Lemma dec_enc_state : forall ty s, state_ok s -> (s = CNoState \/ type_known ty) ->
  dec_state ty (enc_state s) = Some (norm_state ty s).
Proof.
  intros ty s Hok Hty. destruct s as [|p|m].
  - reflexivity.
  - destruct Hty as [Hty|Hty]; [discriminate|].
    cbn [enc_state dec_state norm_state].
    assert (regen (JObj [(k "Position", enc_pos p)]) = JObj [(k "Position", enc_pos p)]) as ->.
    { unfold regen. cbn [jcanon map]. rewrite jcanon_enc_pos. reflexivity. }
    destruct Hty as [->| ->].
    + cbn [Z.eqb TypeSource Pos.eqb]. unfold dec_source_state. mem. rewrite dec_enc_pos. reflexivity.
    + cbn [Z.eqb TypeSource TypeDestination Pos.eqb]. unfold dec_dest_state. mem. reflexivity.
  - destruct Hty as [Hty|Hty]; [discriminate|].
    cbn [enc_state dec_state norm_state].
    assert (regen (JObj [(k "Positions", enc_positions m)]) = JObj [(k "Positions", enc_positions m)]) as ->.
    { unfold regen. cbn [jcanon map]. f_equal. unfold canon. cbn [fold_left fst snd ins]. do 2 f_equal.
      destruct m as [kvs|]; [|reflexivity].
      cbn [enc_positions jcanon]. f_equal. rewrite map_map.
      rewrite (map_ext _ (fun kv : str * option bytes => (fst kv, enc_pos (snd kv))))
        by (intros [key v]; cbn [fst snd]; rewrite jcanon_enc_pos; reflexivity).
      apply canon_sorted.
      apply (sorted_map_vals (fun kv => enc_pos (snd kv))). exact Hok. }
    destruct Hty as [->| ->].
    + cbn [Z.eqb TypeSource Pos.eqb]. unfold dec_source_state. mem. reflexivity.
    + cbn [Z.eqb TypeSource TypeDestination Pos.eqb]. unfold dec_dest_state. mem.
      rewrite dec_enc_positions by exact Hok. reflexivity.
Qed.

Definition connector_loadable (c : connector) : Prop := c_state c = CNoState \/ type_known (c_type c).

Theorem connector_roundtrip : forall c, connector_ok c -> connector_loadable c ->
  dec_connector (enc_connector c) = Some (normalise_connector c).
Proof.
  intros c [Hc [Hl [Hs [Hca Hua]]]] Hty.
  unfold enc_connector, dec_connector. mem.
  cbn [dec_str dec_int].
  rewrite !dec_enc_cconfig by assumption.
  rewrite dec_enc_slist.
  rewrite !dec_enc_time by assumption.
  rewrite dec_enc_state by assumption.
  reflexivity.
Qed.

(* a connector type that is neither source nor destination, with a state: decode refuses
   (connector.Service.Init then fails as a whole) *)
Theorem connector_invalid_type_refused : forall c, connector_ok c ->
  c_state c <> CNoState -> ~ type_known (c_type c) -> dec_connector (enc_connector c) = None.
Proof.
  intros c [Hc [Hl [Hs [Hca Hua]]]] Hst Hty.
  unfold enc_connector, dec_connector. mem.
  cbn [dec_str dec_int].
  rewrite !dec_enc_cconfig by assumption.
  rewrite dec_enc_slist.
  rewrite !dec_enc_time by assumption.
  assert (dec_state (c_type c) (enc_state (c_state c)) = None) as ->; [|reflexivity].
  unfold type_known in Hty.
  destruct (c_state c) as [|p|m]; [congruence| |]; cbn [enc_state dec_state];
    destruct (c_type c =? TypeSource)%Z eqn:E1; try (apply Z.eqb_eq in E1; tauto);
    destruct (c_type c =? TypeDestination)%Z eqn:E2; try (apply Z.eqb_eq in E2; tauto); reflexivity.
Qed.

Lemma storable_spec : forall c, storable_connector c = true ->
  type_known (c_type c) /\ norm_state (c_type c) (c_state c) = c_state c /\ (c_prov c =? ProvisionTypeDLQ)%Z = false.
Proof.
  intros c H. unfold storable_connector in H.
  apply andb_true_iff in H as [H Hp]. apply andb_true_iff in H as [Ht Hf].
  apply negb_true_iff in Hp.
  split; [|split; [|exact Hp]].
  - apply orb_true_iff in Ht as [Ht|Ht]; apply Z.eqb_eq in Ht; [left|right]; exact Ht.
  - destruct (c_state c) as [|p|m]; cbn [state_fits norm_state] in *; [reflexivity| |].
    + rewrite Hf. reflexivity.
    + apply Z.eqb_eq in Hf. rewrite Hf. reflexivity.
Qed.

(* the property for connectors at the level of JSON values: a connector the services can put into
   the store is found again, unchanged, by a restarted server *)
Theorem connector_preserved : forall c, connector_ok c -> storable_connector c = true ->
  restart_connector c = Some c.
Proof.
  intros c Hok Hst. destruct (storable_spec c Hst) as [Hty [Hn Hp]].
  unfold restart_connector. rewrite connector_roundtrip; [|exact Hok|right; exact Hty].
  unfold init_connector, normalise_connector. cbn [c_prov]. rewrite Hp, Hn.
  destruct c; reflexivity.
Qed.

(* ------------------------------------------------------------------ pre-0.4.1 migration *)

Theorem migration_preserves_fields : forall c, connector_ok c -> type_known (c_type c) ->
  migrate_pre041 (enc_pre041 c) = Some (enc_connector (of_pre041 c)).
Proof.
  intros c [Hc [Hl [Hs [Hca Hua]]]] Hty.
  unfold enc_pre041, migrate_pre041. mem.
  cbn [dec_str].
  assert ((if str_eqb (type_name (c_type c)) (k "Source") then Some TypeSource
           else if str_eqb (type_name (c_type c)) (k "Destination") then Some TypeDestination else None)
          = Some (c_type c)) as ->.
  { destruct Hty as [->| ->]; reflexivity. }
  cbn [obj_of]. mem. cbn [dec_str dec_int obj_of]. mem. cbn [dec_str].
  rewrite dec_enc_smap by exact Hc. rewrite dec_enc_slist.
  rewrite !dec_enc_time by assumption.
  unfold enc_connector, of_pre041.
  cbn [c_id c_type c_config c_pipeline c_plugin c_procs c_state c_prov c_created c_updated c_last].
  destruct (c_config c); reflexivity.
Qed.

Theorem migration_loads : forall c, connector_ok c -> storable_connector c = true ->
  load_pre041 (enc_pre041 c) = Some (of_pre041 c).
Proof.
  intros c Hok Hst. destruct (storable_spec c Hst) as [Hty [Hn Hp]].
  unfold load_pre041. rewrite migration_preserves_fields by assumption.
  assert (connector_ok (of_pre041 c)) as Hok'.
  { destruct Hok as [Hc [Hl [Hs [Hca Hua]]]]. unfold connector_ok, of_pre041, cconfig_ok, smap_ok; cbn. tauto. }
  rewrite connector_roundtrip; [|exact Hok'|right; exact Hty].
  unfold init_connector, normalise_connector, of_pre041.
  cbn [c_id c_type c_config c_pipeline c_plugin c_procs c_state c_prov c_created c_updated c_last].
  rewrite Hp, Hn. reflexivity.
Qed.

(* ------------------------------------------------------------------ pipeline *)

Lemma dec_enc_pconfig : forall c, dec_pconfig (enc_pconfig c) = Some c.
Proof. intros [n d]. unfold enc_pconfig, dec_pconfig. cbn [pc_name pc_desc]. mem. reflexivity. Qed.

Lemma dec_enc_dlq : forall d, smap_ok (dq_settings d) -> dec_dlq (enc_dlq d) = Some d.
Proof.
  intros [pg se ws wt] H. cbn [dq_settings] in H. unfold enc_dlq, dec_dlq.
  cbn [dq_plugin dq_settings dq_size dq_thr]. mem. cbn [dec_str dec_int].
  rewrite dec_enc_smap by exact H. reflexivity.
Qed.

Theorem pipeline_codec_roundtrip : forall p, pipeline_ok p -> dec_pipeline (enc_pipeline p) = Some p.
Proof.
  intros p [Hs [Hca Hua]].
  unfold enc_pipeline, dec_pipeline. mem. cbn [dec_str dec_int].
  rewrite dec_enc_pconfig, !dec_enc_time, dec_enc_dlq, !dec_enc_slist by assumption.
  destruct p; reflexivity.
Qed.

(* normalise for a pipeline = what pipeline.Service.Init does to the status, nothing else *)
Theorem pipeline_roundtrip : forall p, pipeline_ok p -> restart_pipeline p = Some (init_pipeline p).
Proof. intros p H. unfold restart_pipeline. rewrite pipeline_codec_roundtrip by exact H. reflexivity. Qed.

Theorem running_found_again : forall p, pipeline_ok p -> p_status p = StatusRunning ->
  exists p', restart_pipeline p = Some p' /\
             lifecycle_starts (p_status p') = true /\
             p' = mkPipeline (p_id p) (p_config p) (p_error p) (p_created p) (p_updated p) (p_prov p) (p_dlq p)
                    (p_conns p) (p_procs p) StatusSystemStopped.
Proof.
  intros p H Hr. exists (init_pipeline p). split; [apply pipeline_roundtrip; exact H|].
  unfold init_pipeline, init_status. rewrite Hr. split; reflexivity.
Qed.

Theorem status_preserved : forall p, pipeline_ok p -> p_status p <> StatusRunning -> restart_pipeline p = Some p.
Proof.
  intros p H Hr. rewrite pipeline_roundtrip by exact H. f_equal.
  unfold init_pipeline, init_status.
  destruct (p_status p =? StatusRunning)%Z eqn:E; [apply Z.eqb_eq in E; contradiction|].
  destruct p; reflexivity.
Qed.

(* ------------------------------------------------------------------ processor *)

Theorem processor_roundtrip : forall r, processor_ok r -> restart_processor r = Some r.
Proof.
  intros r [Hs [Hca Hua]].
  unfold restart_processor, enc_processor, dec_processor. mem. cbn [dec_str dec_int].
  rewrite !dec_enc_time by assumption.
  assert (dec_parent (enc_parent (r_parent r)) = Some (r_parent r)) as ->.
  { destruct (r_parent r) as [i t]. unfold enc_parent, dec_parent. cbn [pa_id pa_type]. mem. reflexivity. }
  assert (dec_rconfig (enc_rconfig (r_config r)) = Some (r_config r)) as ->.
  { destruct (r_config r) as [se w]. cbn [rc_settings] in Hs. unfold enc_rconfig, dec_rconfig.
    cbn [rc_settings rc_workers]. mem. cbn [dec_int]. rewrite dec_enc_smap by exact Hs. reflexivity. }
  destruct r; reflexivity.
Qed.

(* ------------------------------------------------------------------ text level *)

Section JsonInd.
  Variable P : json -> Prop.
  Hypothesis Hnull : P JNull.
  Hypothesis Hbool : forall b, P (JBool b).
  Hypothesis Hnum : forall z, P (JNum z).
  Hypothesis Hstr : forall s, P (JStr s).
  Hypothesis Harr : forall l, Forall P l -> P (JArr l).
  Hypothesis Hobj : forall l, Forall (fun kv => P (snd kv)) l -> P (JObj l).
  Hypothesis Hbad : P JBad.

  Fixpoint json_ind' (j : json) : P j :=
    match j with
    | JNull => Hnull
    | JBool b => Hbool b
    | JNum z => Hnum z
    | JStr s => Hstr s
    | JArr l => Harr l ((fix go (l : list json) : Forall P l :=
                           match l with [] => Forall_nil _ | a :: r => Forall_cons a (json_ind' a) (go r) end) l)
    | JObj l => Hobj l ((fix go (l : list (str * json)) : Forall (fun kv => P (snd kv)) l :=
                           match l with
                           | [] => Forall_nil _
                           | kv :: r => Forall_cons kv (json_ind' (snd kv)) (go r)
                           end) l)
    | JBad => Hbad
    end.
End JsonInd.

(* writing every string literal of a document and reading it again gives the document back,
   provided its strings are Unicode text *)
Theorem text_roundtrip : forall j, json_text_ok j = true -> unesc_json (esc_json j) = Some j.
Proof.
  induction j as [| b | z | s | l IH | l IH |] using json_ind'; intros H; try reflexivity.
  - cbn [esc_json unesc_json json_text_ok] in *. rewrite jsonstr_roundtrip by exact H. reflexivity.
  - cbn [esc_json unesc_json]. cbn [json_text_ok] in H.
    assert ((fix go (l0 : list json) : option (list json) :=
               match l0 with
               | [] => Some []
               | a :: r => match unesc_json a, go r with Some b, Some t => Some (b :: t) | _, _ => None end
               end) (map esc_json l) = Some l) as ->; [|reflexivity].
    induction l as [|a l IHl]; [reflexivity|].
    cbn [forallb] in H. apply andb_true_iff in H as [Ha Hl].
    inversion IH as [|? ? IHa IHr]; subst.
    cbn [map]. rewrite IHa by exact Ha. rewrite IHl by assumption. reflexivity.
  - cbn [esc_json unesc_json]. cbn [json_text_ok] in H.
    assert ((fix go (l0 : list (str * json)) : option (list (str * json)) :=
               match l0 with
               | [] => Some []
               | (key, a) :: r =>
                   match unescape key, unesc_json a, go r with
                   | Some k', Some b, Some t => Some ((k', b) :: t)
                   | _, _, _ => None
                   end
               end) (map (fun kv => let '(key, v) := kv in (escape key, esc_json v)) l) = Some l) as ->; [|reflexivity].
    induction l as [|[key a] l IHl]; [reflexivity|].
    cbn [forallb] in H. apply andb_true_iff in H as [Ha Hl]. apply andb_true_iff in Ha as [Hk Ha].
    inversion IH as [|? ? IHa IHr]; subst. cbn [snd] in IHa.
    cbn [map]. rewrite jsonstr_roundtrip by exact Hk. rewrite IHa by exact Ha. rewrite IHl by assumption. reflexivity.
  - discriminate.
Qed.

(* ------------------------------------------------------------------ the property, end to end in the model *)

Definition reload_connector (c : connector) : option connector :=
  match unesc_json (esc_json (enc_connector c)) with
  | Some j => match dec_connector j with Some c' => init_connector c' | None => None end
  | None => None
  end.
Definition reload_pipeline (p : pipeline) : option pipeline :=
  match unesc_json (esc_json (enc_pipeline p)) with
  | Some j => option_map init_pipeline (dec_pipeline j)
  | None => None
  end.
Definition reload_processor (r : processor) : option processor :=
  match unesc_json (esc_json (enc_processor r)) with
  | Some j => dec_processor j
  | None => None
  end.

Theorem connector_survives_restart : forall c,
  connector_ok c -> storable_connector c = true -> json_text_ok (enc_connector c) = true ->
  reload_connector c = Some c.
Proof.
  intros c Hok Hst Ht. unfold reload_connector. rewrite text_roundtrip by exact Ht.
  exact (connector_preserved c Hok Hst).
Qed.

Theorem pipeline_survives_restart : forall p,
  pipeline_ok p -> json_text_ok (enc_pipeline p) = true ->
  reload_pipeline p = Some (init_pipeline p).
Proof.
  intros p Hok Ht. unfold reload_pipeline. rewrite text_roundtrip by exact Ht.
  rewrite pipeline_codec_roundtrip by exact Hok. reflexivity.
Qed.

Theorem processor_survives_restart : forall r,
  processor_ok r -> json_text_ok (enc_processor r) = true ->
  reload_processor r = Some r.
Proof.
  intros r Hok Ht. unfold reload_processor. rewrite text_roundtrip by exact Ht.
  exact (processor_roundtrip r Hok).
Qed.
