#!/bin/bash
# usage: goal.sh File.v LINE  -- prints the goal just before line LINE (start of a sentence)
f=$1; n=$2
head -n $((n-1)) "$f" > /tmp/_goal.v
echo "Show. Abort." >> /tmp/_goal.v
cd /verif/coq && coqc -Q . Verif /tmp/_goal.v 2>&1 | tail -${3:-40}
rm -f /tmp/_goal.vo /tmp/_goal.glob /tmp/._goal.aux /tmp/_goal.vok /tmp/_goal.vos
