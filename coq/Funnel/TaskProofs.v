(* What ProcessorTask.Do and DestinationTask.Do do to the invariants of a batch and to the run
   ledger: WF is preserved, the ledger accounting is preserved, the ledger only grows, and the
   multiset of positions owed to the source does not change (C08: nothing a processor returns can
   change which position is acknowledged). *)
From Coq Require Import Permutation.
From Verif Require Import Funnel.Ledger Funnel.BatchProofs Funnel.LedgerProofs.

Record Inv (b : batch) (h : heap) (ext : nat -> nat) : Prop := mkInv {
  inv_wf : WF b h;
  inv_acct : acct (shape_of b) h ext;
  inv_ext0 : ext0 h ext;
  inv_heap : heap_ok h }.

(* the effect of an operation on (batch, heap) *)
Definition keeps (b : batch) (h : heap) (b' : batch) (h' : heap) : Prop :=
  forall ext, Inv b h ext ->
    Inv b' h' ext /\ heap_ext h h' /\ Permutation (owed (shape_of b') h' ext) (owed (shape_of b) h ext).

Lemma keeps_refl b h : keeps b h b h.
Proof. intros ext I. split; auto. split; [apply heap_ext_refl|reflexivity]. Qed.

Lemma keeps_trans b1 h1 b2 h2 b3 h3 : keeps b1 h1 b2 h2 -> keeps b2 h2 b3 h3 -> keeps b1 h1 b3 h3.
Proof.
  intros K1 K2 ext I. destruct (K1 ext I) as [I2 [E2 P2]]. destruct (K2 ext I2) as [I3 [E3 P3]].
  split; auto. split; [eapply heap_ext_trans; eauto|]. etransitivity; eauto.
Qed.

Lemma keeps_same_shape b b' h :
  same_shape b b' -> (WF b h -> WF b' h) -> keeps b h b' h.
Proof.
  intros [Hp [Hr _]] W ext [I1 I2 I3 I4].
  assert (E : shape_of b' = shape_of b) by (unfold shape_of, rl_of; now rewrite Hp, Hr).
  rewrite E. split; [|split; [apply heap_ext_refl|reflexivity]].
  constructor; auto. now rewrite E.
Qed.

Lemma cnt_repeat q r p n : cnt q (repeat (Some r, p) n) = if q =? r then n else 0.
Proof.
  unfold cnt. induction n; simpl; [destruct (q =? r); reflexivity|].
  unfold is_run at 1. simpl. rewrite (Nat.eqb_sym r q). destruct (q =? r); simpl; auto.
Qed.

Lemma alone_keys_repeat r p n : alone_keys (repeat (Some r, p) n) = [].
Proof. unfold alone_keys. induction n; simpl; auto. Qed.

Lemma alone_keys_cons_some r p sh : alone_keys ((Some r, p) :: sh) = alone_keys sh.
Proof. reflexivity. Qed.
Lemma alone_keys_cons_none p sh : alone_keys ((None, p) :: sh) = pkey p :: alone_keys sh.
Proof. reflexivity. Qed.

Lemma cnt_cons q e sh : cnt q (e :: sh) = (if is_run q e then 1 else 0) + cnt q sh.
Proof. unfold cnt. simpl. destruct (is_run q e); reflexivity. Qed.

Lemma filter_ext_seq (p1 p2 : nat -> bool) s n :
  (forall x, s <= x < s + n -> p1 x = p2 x) -> filter p1 (seq s n) = filter p2 (seq s n).
Proof.
  revert s. induction n; intros s H; simpl; auto. rewrite (H s) by lia.
  rewrite (IHn (S s)); auto. intros x Hx. apply H. lia.
Qed.

Lemma cnt_zero_entry_ok n q sh : Forall (entry_ok n) sh -> n <= q -> cnt q sh = 0.
Proof.
  intros F Hq. unfold cnt. induction F as [|e sh He _ IH]; simpl; auto.
  unfold is_run at 1. destruct e as [[r|] p]; unfold entry_ok in He; simpl in *; auto.
  destruct (Nat.eqb_spec r q); [lia|auto].
Qed.

Lemma split_effect_keeps b h b' h' :
  split_effect b h b' h' -> lens_ok b' -> nack_has_err (statuses b') -> keeps b h b' h'.
Proof.
  intros S L' N' ext [[L Wsh Wn] AC E0 HO]. destruct S as [pre post r p n1 a Esh Esh' Ha Eh|pre post p n1 orig Esh Hp Esh' Eh].
  - (* a member of run r is split further *)
    assert (Hr : r < length h) by (apply nth_error_Some; congruence).
    assert (Ll : length h' = length h).
    { subst h'. len_simpl. assert (r < length h) by auto. lia. }
    assert (Hn : nth_error h' r = Some (bump_total a n1)).
    { subst h'. rewrite nth_error_upd_form by auto. now rewrite Nat.eqb_refl. }
    assert (Ho : forall q, q <> r -> nth_error h' q = nth_error h q).
    { intros q Hq. subst h'. rewrite nth_error_upd_form by auto. destruct (Nat.eqb_spec q r); congruence. }
    assert (Ra : run_ok a) by exact (Forall_nth_error _ _ _ _ HO Ha).
    destruct (heap_upd_facts h h' r a (bump_total a n1) Ha Ll Hn Ho eq_refl Ra HO) as [HE [HO' Hokey]].
    assert (Cq : forall q, cnt q (shape_of b') = cnt q (shape_of b) + if q =? r then n1 else 0).
    { intros q. rewrite Esh, Esh'. rewrite !cnt_app, !cnt_cons, !cnt_app, cnt_repeat. lia. }
    split; [|split; auto].
    + constructor; auto.
      * constructor; auto. rewrite Esh'. rewrite Esh in Wsh. rewrite Ll.
        apply Forall_app in Wsh. destruct Wsh as [W1 W2]. inversion W2; subst.
        apply Forall_app. split; auto. constructor; auto. apply Forall_app. split; auto.
        apply Forall_forall. intros e He. apply repeat_spec in He. subst e. exact H1.
      * intros q y Hy. rewrite Cq. destruct (Nat.eqb_spec q r) as [->|Hq].
        -- rewrite Hn in Hy. inversion Hy; subst y. simpl. pose proof (AC _ _ Ha). lia.
        -- rewrite Ho in Hy by auto. pose proof (AC _ _ Hy). lia.
      * intros q Hq. apply E0. lia.
    + (* owed is the same list *)
      unfold owed. rewrite Ll. rewrite Esh, Esh'.
      rewrite !alone_keys_app, !alone_keys_cons_some, !alone_keys_app, alone_keys_repeat. cbn [app].
      rewrite (map_ext _ _ (fun q => eq_sym (Hokey q))).
      erewrite (filter_ext_seq (due (pre ++ (Some r, p) :: repeat (Some r, None) n1 ++ post) ext)
                               (due (pre ++ (Some r, p) :: post) ext)); [reflexivity|].
      intros q _. unfold due. rewrite <- Esh, <- Esh', Cq.
      destruct (Nat.eqb_spec q r) as [->|]; [|now rewrite Nat.add_0_r].
      assert (0 < cnt r (shape_of b)).
      { rewrite Esh, cnt_app, cnt_cons. unfold is_run. simpl. rewrite Nat.eqb_refl. lia. }
      destruct (Nat.ltb_spec 0 (cnt r (shape_of b) + n1)), (Nat.ltb_spec 0 (cnt r (shape_of b))); auto; lia.
  - (* a standalone record becomes the head of a new run *)
    set (n := length h) in *.
    assert (Ll : length h' = S n) by (subst h'; len_simpl; lia).
    assert (Ho : forall q, q < n -> nth_error h' q = nth_error h q).
    { intros q Hq. subst h'. now rewrite nth_error_app1. }
    assert (Hn : nth_error h' n = Some (mkRun p orig (1 + n1) 0 false None 0 false)).
    { subst h'. rewrite nth_error_app2 by lia. unfold n. rewrite Nat.sub_diag. reflexivity. }
    assert (Wold : Forall (entry_ok n) (pre ++ post)).
    { rewrite Esh in Wsh. apply Forall_app in Wsh. destruct Wsh as [W1 W2]. inversion W2; subst.
      apply Forall_app; auto. }
    assert (Cn : cnt n (pre ++ post) = 0) by (eapply cnt_zero_entry_ok; eauto).
    assert (Cq : forall q, cnt q (shape_of b') = cnt q (shape_of b) + if q =? n then 1 + n1 else 0).
    { intros q. rewrite Esh, Esh'. rewrite !cnt_app, !cnt_cons, !cnt_app, cnt_repeat.
      unfold is_run. simpl. rewrite (Nat.eqb_sym n q). destruct (q =? n); lia. }
    assert (HE : heap_ext h h').
    { split; [lia|]. intros q y Hy. exists y. split; auto. rewrite Ho; auto. apply nth_error_Some. congruence. }
    split; [|split; auto].
    + constructor.
      * constructor; auto. rewrite Esh', Ll. rewrite Esh in Wsh.
        apply Forall_app in Wsh. destruct Wsh as [W1 W2]. inversion W2; subst.
        apply Forall_app. split; [eapply Forall_entry_ok_len; [|eauto]; lia|].
        constructor; [unfold entry_ok; simpl; lia|]. apply Forall_app. split.
        -- apply Forall_forall. intros e He. apply repeat_spec in He. subst e. unfold entry_ok. simpl. lia.
        -- eapply Forall_entry_ok_len; [|eauto]. lia.
      * intros q y Hy. rewrite Cq. destruct (Nat.eqb_spec q n) as [->|Hq].
        -- rewrite Hn in Hy. inversion Hy; subst y. simpl.
           rewrite Esh, cnt_app, cnt_cons. unfold is_run at 1. simpl.
           rewrite cnt_app in Cn. rewrite (E0 n) by (unfold n; lia). lia.
        -- assert (q < n). { assert (q < length h') by (apply nth_error_Some; congruence). lia. }
           rewrite Ho in Hy by auto. pose proof (AC _ _ Hy). lia.
      * intros q Hq. apply E0. unfold n in *. lia.
      * unfold heap_ok. subst h'. apply Forall_app. split; auto. constructor; [|constructor].
        split; simpl; auto. discriminate.
    + unfold owed. rewrite Ll. fold n. rewrite Esh, Esh'.
      replace (seq 0 (S n)) with (seq 0 n ++ [n]) by (rewrite seq_S; reflexivity).
      rewrite !alone_keys_app, alone_keys_cons_some, alone_keys_cons_none, !alone_keys_app, alone_keys_repeat.
      cbn [app].
      rewrite filter_app, map_app.
      assert (F1 : filter (due (pre ++ (Some n, p) :: repeat (Some n, None) n1 ++ post) ext) (seq 0 n)
                   = filter (due (pre ++ (None, p) :: post) ext) (seq 0 n)).
      { apply filter_ext_seq. intros q Hq. unfold due. rewrite <- Esh, <- Esh', Cq.
        destruct (Nat.eqb_spec q n); [lia|]. now rewrite Nat.add_0_r. }
      assert (F2 : filter (due (pre ++ (Some n, p) :: repeat (Some n, None) n1 ++ post) ext) [n] = [n]).
      { simpl. unfold due. rewrite <- Esh', Cq, Nat.eqb_refl. rewrite (E0 n) by (unfold n; lia).
        destruct (Nat.ltb_spec 0 (cnt n (shape_of b) + (1 + n1))); [reflexivity|lia]. }
      rewrite F1, F2. simpl.
      assert (M1 : map (okey h') (filter (due (pre ++ (None, p) :: post) ext) (seq 0 n))
                   = map (okey h) (filter (due (pre ++ (None, p) :: post) ext) (seq 0 n))).
      { apply map_ext_in. intros q Hq. apply filter_In in Hq. destruct Hq as [Hq _]. apply in_seq in Hq.
        unfold okey. rewrite Ho by lia. reflexivity. }
      rewrite M1. unfold okey at 2. rewrite Hn. simpl.
      rewrite <- !app_assoc. apply Permutation_app_head.
      set (A := alone_keys post). set (B := map (okey h) _).
      change ((pkey p :: A) ++ B) with ([pkey p] ++ (A ++ B)).
      rewrite (app_assoc A B). apply Permutation_app_comm.
Qed.

(* ---------- the batch operations ---------- *)

Lemma batch_filter_keeps b i j b' h : batch_filter b i j = Ok b' -> keeps b h b' h.
Proof. intros H. apply keeps_same_shape; [eapply batch_filter_shape; eauto|eapply batch_filter_WF; eauto]. Qed.
Lemma batch_retry_keeps b i j b' h : batch_retry b i j = Ok b' -> keeps b h b' h.
Proof. intros H. apply keeps_same_shape; [eapply batch_retry_shape; eauto|eapply batch_retry_WF; eauto]. Qed.
Lemma batch_ack_keeps b i j b' h : batch_ack b i j = Ok b' -> keeps b h b' h.
Proof. intros H. apply keeps_same_shape; [eapply batch_ack_shape; eauto|eapply batch_ack_WF; eauto]. Qed.
Lemma batch_nack_keeps fx b i errs b' h : batch_nack fx b i errs = Ok b' -> keeps b h b' h.
Proof.
  intros H. apply keeps_same_shape; [|eapply batch_nack_WF; eauto].
  apply batch_nack_spec in H. tauto.
Qed.
Lemma batch_set_records_keeps b i recs b' h : batch_set_records b i recs = Ok b' -> keeps b h b' h.
Proof.
  intros H. apply keeps_same_shape; [|eapply batch_set_records_WF; eauto].
  apply batch_set_records_spec in H. tauto.
Qed.
Lemma batch_split_record_keeps b h i recs b' h' :
  batch_split_record b h i recs = Ok (b', h') -> keeps b h b' h'.
Proof.
  intros H ext I. destruct (batch_split_record_spec _ _ _ _ _ _ H (inv_wf _ _ _ I)) as [S [L N]].
  exact (split_effect_keeps _ _ _ _ S L N ext I).
Qed.

(* ---------- ProcessorTask.Do ---------- *)

Lemma mark_multi_keeps from l : forall b h b' h', mark_multi b h from l = Ok (b', h') -> keeps b h b' h'.
Proof.
  induction l as [|[i p] l IH]; intros b h b' h' H; simpl in H.
  - inversion H; subst. apply keeps_refl.
  - destruct p as [r| |e|rs|]; try (eapply IH; eauto; fail).
    destruct rs as [|x [|y rs]].
    + bind_inv H b1 H1. eapply keeps_trans; [eapply batch_filter_keeps; eauto|eapply IH; eauto].
    + bind_inv H b1 H1. eapply keeps_trans; [eapply batch_set_records_keeps; eauto|eapply IH; eauto].
    + bind_inv H t H1. destruct t as [b1 h1].
      eapply keeps_trans; [eapply batch_split_record_keeps; eauto|eapply IH; eauto].
Qed.

Lemma mark_group_keeps fx b h from g b' h' : mark_group fx b h from g = Ok (b', h') -> keeps b h b' h'.
Proof.
  unfold mark_group. intros H. destruct g as [|[r| |e|rs|] g].
  - inversion H; subst. apply keeps_refl.
  - bind_inv H b1 H1. inversion H; subst. eapply batch_set_records_keeps; eauto.
  - bind_inv H b1 H1. inversion H; subst. eapply batch_filter_keeps; eauto.
  - bind_inv H b1 H1. inversion H; subst. eapply batch_nack_keeps; eauto.
  - eapply mark_multi_keeps; eauto.
  - bind_inv H b1 H1. inversion H; subst. eapply batch_retry_keeps; eauto.
Qed.

Lemma mark_groups_keeps fx gs : forall b h b' h', mark_groups fx b h gs = Ok (b', h') -> keeps b h b' h'.
Proof.
  induction gs as [|[from g] gs IH]; intros b h b' h' H; simpl in H.
  - inversion H; subst. apply keeps_refl.
  - bind_inv H t H1. destruct t as [b1 h1].
    eapply keeps_trans; [eapply mark_group_keeps; eauto|eapply IH; eauto].
Qed.

(* C08: ProcessorTask.Do preserves the invariants, whatever the processor returned *)
Lemma proc_do_keeps fx b h nIn out b' h' : proc_do fx b h nIn out = Ok (b', h') -> keeps b h b' h'.
Proof.
  unfold proc_do. destruct out; [discriminate|]. destruct (_ && _); [discriminate|]. apply mark_groups_keeps.
Qed.

(* ---------- DestinationTask.Do ---------- *)

Lemma dest_mark_keeps fx h from l : forall b b', dest_mark fx b from l = Ok b' -> keeps b h b' h.
Proof.
  induction l as [|[i [p [e|]]] l IH]; intros b b' H; simpl in H.
  - inversion H; subst. apply keeps_refl.
  - bind_inv H b1 H1. eapply keeps_trans; [eapply batch_nack_keeps; eauto|eapply IH; eauto].
  - eapply IH; eauto.
Qed.

(* result of a quiet computation that returns a batch *)
Definition keeps_M (b : batch) (m : M batch) : Prop :=
  forall w b' w', m w = (Ok b', w') -> keeps b (w_heap w) b' (w_heap w').

Lemma dest_loop_keeps c d ps n : forall b ackCount w b' x w',
  dest_loop c d b ps ackCount n w = (Ok (b', x), w') -> keeps b (w_heap w) b' (w_heap w').
Proof.
  induction n as [|n IH]; intros b ackCount w b' x w' H; simpl in H.
  - destruct (_ && _); [inversion H|]. unfold ret in H. inversion H; subst. apply keeps_refl.
  - mbind H r w1 H1. destruct (quiet_do_ack _ _ _ _ _ H1) as [Eh1 _].
    destruct r as [acks|]; [|inversion H].
    destruct (_ && _); [inversion H|].
    destruct (acks_match acks (skipn ackCount ps)); [|inversion H].
    mbind H b1 w2 H2. unfold lift in H2. inversion H2; subst w2. clear H2.
    match goal with H2 : dest_mark _ _ _ _ = Ok b1 |- _ => pose proof (dest_mark_keeps _ (w_heap w1) _ _ _ _ H2) as K1 end.
    rewrite <- Eh1. destruct (length ps <=? ackCount + length acks).
    + unfold ret in H. inversion H; subst. exact K1.
    + mbind H t w3 HL3. destruct t as [b2 more]. unfold ret in H. inversion H; subst.
      eapply keeps_trans; [exact K1|]. eapply IH; eauto.
Qed.

Lemma dest_do_keeps c d b wev : keeps_M b (dest_do c d b wev).
Proof.
  intros w b' w' H. unfold dest_do in H.
  mbind H rs w1 H1. unfold lift in H1. inversion H1; subst w1. clear H1.
  mbind H ok w1 H1.
  assert (Eh : w_heap w1 = w_heap w).
  { unfold do_write in H1. destruct d.
    - destruct (dest_write (c_dest c) (w_dest w) rs). inversion H1; subst. reflexivity.
    - destruct (dest_write (c_dlq c) (w_dlq w) rs). inversion H1; subst. reflexivity. }
  destruct ok; [|inversion H]. mbind H t w2 HL2. destruct t as [b2 x]. unfold ret in H. inversion H; subst.
  rewrite <- Eh. eapply dest_loop_keeps; eauto.
Qed.

(* ---------- WF alone (no ledger hypotheses) ---------- *)

Lemma mark_multi_WF from l : forall b h b' h', mark_multi b h from l = Ok (b', h') -> WF b h -> WF b' h'.
Proof.
  induction l as [|[i p] l IH]; intros b h b' h' H W; simpl in H.
  - inversion H; subst. auto.
  - destruct p as [r| |e|rs|]; try (eapply IH; eauto; fail).
    destruct rs as [|x [|y rs]].
    + bind_inv H b1 H1. eapply IH; eauto. eapply batch_filter_WF; eauto.
    + bind_inv H b1 H1. eapply IH; eauto. eapply batch_set_records_WF; eauto.
    + bind_inv H t H1. destruct t as [b1 h1]. eapply IH; eauto. eapply batch_split_record_WF; eauto.
Qed.

Lemma mark_group_WF fx b h from g b' h' : mark_group fx b h from g = Ok (b', h') -> WF b h -> WF b' h'.
Proof.
  unfold mark_group. intros H W. destruct g as [|[r| |e|rs|] g].
  - inversion H; subst. auto.
  - bind_inv H b1 H1. inversion H; subst. eapply batch_set_records_WF; eauto.
  - bind_inv H b1 H1. inversion H; subst. eapply batch_filter_WF; eauto.
  - bind_inv H b1 H1. inversion H; subst. eapply batch_nack_WF; eauto.
  - eapply mark_multi_WF; eauto.
  - bind_inv H b1 H1. inversion H; subst. eapply batch_retry_WF; eauto.
Qed.

Lemma mark_groups_WF fx gs : forall b h b' h', mark_groups fx b h gs = Ok (b', h') -> WF b h -> WF b' h'.
Proof.
  induction gs as [|[from g] gs IH]; intros b h b' h' H W; simpl in H.
  - inversion H; subst. auto.
  - bind_inv H t H1. destruct t as [b1 h1]. eapply IH; eauto. eapply mark_group_WF; eauto.
Qed.

Lemma proc_do_WF fx b h nIn out b' h' : proc_do fx b h nIn out = Ok (b', h') -> WF b h -> WF b' h'.
Proof. unfold proc_do. destruct out; [discriminate|]. destruct (_ && _); [discriminate|]. apply mark_groups_WF. Qed.

Lemma dest_mark_WF fx h from l : forall b b', dest_mark fx b from l = Ok b' -> WF b h -> WF b' h.
Proof.
  induction l as [|[i [p [e|]]] l IH]; intros b b' H W; simpl in H.
  - inversion H; subst. auto.
  - bind_inv H b1 H1. eapply IH; eauto. eapply batch_nack_WF; eauto.
  - eapply IH; eauto.
Qed.
