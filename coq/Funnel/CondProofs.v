(* The keep / pass-through merge of RunnableProcessor.Process (C09 cond_passthrough_aligned and the
   processor-with-condition half of no_panic_processor_replies).

   ks : the outcome of the condition per scanned record (true = kept = handed to the plugin).
   merge_spec : what the merge should produce - a pass-through record stays in its place
   unchanged, the i-th result of the plugin sits at the place of the i-th kept record, results
   the plugin did not deliver are missing at the end (the engine retries those records), extra
   results (the ErrorRecord of a failed condition) follow at the end.
   guard ks m : the m results suffice for every kept record that is followed by a pass-through
   record.  merge = Ok merge_spec exactly under the guard, and panics otherwise (finding S2). *)
From Verif Require Import Funnel.Cond Funnel.BatchProofs.

Fixpoint idx_false (ks : list bool) (i : nat) : list nat :=
  match ks with
  | [] => []
  | true :: r => idx_false r (S i)
  | false :: r => i :: idx_false r (S i)
  end.

Fixpoint merge_spec (records : list rec) (ks : list bool) (out : list pr) : list pr :=
  match ks, records with
  | true :: ks', r :: rs => match out with o :: out' => o :: merge_spec rs ks' out' | [] => [] end
  | false :: ks', r :: rs => PSingle r :: merge_spec rs ks' out
  | _, _ => out
  end.

Fixpoint guard (ks : list bool) (m : nat) : bool :=
  match ks with
  | [] => true
  | true :: r => match m with 0 => forallb (fun k => k) r | S m' => guard r m' end
  | false :: r => guard r m
  end.

(* ---------- segments ---------- *)

Lemma idx_false_all_true n s : idx_false (repeat true n) s = [].
Proof. revert s. induction n; intros s; simpl; auto. Qed.

Lemma idx_false_segment ks s :
  match idx_false ks s with
  | [] => ks = repeat true (length ks)
  | index :: pass' => exists n ks', ks = repeat true n ++ false :: ks' /\ index = s + n /\ pass' = idx_false ks' (S index)
  end.
Proof.
  revert s. induction ks as [|k ks IH]; intros s; simpl; auto. destruct k.
  - specialize (IH (S s)). destruct (idx_false ks (S s)) as [|index pass'].
    + simpl. now f_equal.
    + destruct IH as [n [ks' [E [Ei Ep]]]]. exists (S n), ks'. simpl. repeat split; auto; [now f_equal|lia].
  - exists 0, ks. simpl. rewrite Nat.add_0_r. repeat split; auto.
Qed.

Lemma guard_segment n ks' m :
  guard (repeat true n ++ false :: ks') m = true -> n <= m /\ guard ks' (m - n) = true.
Proof.
  revert m. induction n as [|n IH]; intros m H; simpl in *.
  - rewrite Nat.sub_0_r. split; [lia|auto].
  - destruct m as [|m].
    + exfalso. rewrite forallb_app in H. simpl in H. rewrite andb_false_r in H. discriminate.
    + destruct (IH _ H). split; [lia|auto].
Qed.

Lemma guard_segment_fail n ks' m :
  guard (repeat true n ++ false :: ks') m = false -> m < n \/ (n <= m /\ guard ks' (m - n) = false).
Proof.
  revert m. induction n as [|n IH]; intros m H; simpl in *.
  - right. rewrite Nat.sub_0_r. split; [lia|auto].
  - destruct m as [|m]; [left; lia|]. destruct (IH _ H) as [A|[A B]]; [left; lia|right; split; [lia|auto]].
Qed.

Lemma merge_spec_segment n ks' rs out :
  n <= length out -> n < length rs ->
  merge_spec rs (repeat true n ++ false :: ks') out =
  firstn n out ++ PSingle (nth n rs dummy_rec) :: merge_spec (skipn (S n) rs) ks' (skipn n out).
Proof.
  revert rs out. induction n as [|n IH]; intros rs out H1 H2; simpl.
  - destruct rs; [simpl in H2; lia|]. reflexivity.
  - destruct rs as [|r rs]; [simpl in H2; lia|]. destruct out as [|o out]; [simpl in H1; lia|].
    simpl. f_equal. apply IH; simpl in *; lia.
Qed.

Lemma merge_spec_all_true t rs out : t <= length rs -> merge_spec rs (repeat true t) out = out.
Proof.
  revert rs out. induction t as [|t IH]; intros rs out H; simpl.
  - destruct rs; reflexivity.
  - destruct rs as [|r rs]; [simpl in H; lia|]. destruct out as [|o out]; simpl; auto. f_equal. apply IH. simpl in H. lia.
Qed.

(* ---------- the loop ---------- *)

Lemma oslice_exact outdone outrest cap n :
  n <= length outrest -> length (outdone ++ outrest) <= cap ->
  oslice (outdone ++ outrest) cap (length outdone) (length outdone + n) = Ok (firstn n outrest).
Proof.
  intros H1 H2. unfold oslice. rewrite app_length in H2.
  destruct (length outdone <=? length outdone + n) eqn:E1; [|apply Nat.leb_gt in E1; lia].
  destruct (length outdone + n <=? cap) eqn:E2; [|apply Nat.leb_gt in E2; lia]. simpl. f_equal.
  replace (length outdone + n - length outdone) with n by lia.
  rewrite <- app_assoc. rewrite skipn_app, skipn_all, Nat.sub_diag. simpl.
  rewrite firstn_app. replace (n - length outrest) with 0 by lia. simpl. now rewrite app_nil_r.
Qed.

Lemma firstn_repeat' {A} (a : A) n k : firstn n (repeat a k) = repeat a (Nat.min n k).
Proof. revert k. induction n; intros [|k]; simpl; auto. now rewrite IHn. Qed.
Lemma skipn_repeat' {A} (a : A) n k : skipn n (repeat a k) = repeat a (k - n).
Proof. revert k. induction n; intros [|k]; simpl; auto. Qed.

Lemma tmp_copy_exact (T : list pr) src k :
  length src <= k ->
  tmp_copy (T ++ repeat PNil k) (length T) (length T + length src) src =
  Ok (T ++ src ++ repeat PNil (k - length src)).
Proof.
  intros H. unfold tmp_copy. rewrite app_length, repeat_length.
  destruct (length T <=? length T + length src) eqn:E1; [|apply Nat.leb_gt in E1; lia].
  destruct (length T + length src <=? length T + k) eqn:E2; [|apply Nat.leb_gt in E2; lia]. simpl. f_equal.
  rewrite firstn_app, firstn_all, Nat.sub_diag. simpl. rewrite app_nil_r. f_equal.
  replace (length T + length src - length T) with (length src) by lia.
  rewrite !skipn_app, !skipn_all2 by lia. simpl.
  replace (length T - length T) with 0 by lia. replace (length T + length src - length T) with (length src) by lia.
  simpl. rewrite skipn_all2 by lia. simpl. rewrite firstn_repeat', skipn_repeat'.
  replace (Nat.min (length src) k) with (length src) by lia.
  unfold copy_into. rewrite repeat_length, firstn_all, skipn_all2 by (rewrite repeat_length; lia).
  now rewrite app_nil_r.
Qed.

Lemma upd_at_app {A} (l1 : list A) x l2 f : upd (l1 ++ x :: l2) (length l1) f = Some (l1 ++ f x :: l2).
Proof. induction l1 as [|a l1 IH]; simpl; auto. now rewrite IH. Qed.

Lemma nth_error_nth_lt {A} (l : list A) n d : n < length l -> nth_error l n = Some (nth n l d).
Proof. revert n. induction l; intros [|n] H; simpl in *; try lia; auto. apply IHl. lia. Qed.

Lemma last_cons_ne {A} (a : A) l d : l <> [] -> last (a :: l) d = last l d.
Proof. destruct l; [congruence|reflexivity]. Qed.

Lemma merge_loop_ok records out cap :
  length out <= cap ->
  forall pass krest rdone rrest outdone outrest T i,
  records = rdone ++ rrest -> out = outdone ++ outrest ->
  length T = length rdone -> length outdone + i = length rdone ->
  pass = idx_false krest (length rdone) -> length krest <= length rrest ->
  guard krest (length outrest) = true ->
  exists Tend outdoneE outrestE rdoneE rrestE t,
    merge_loop records out cap (T ++ repeat PNil (length outrest + length pass)) pass i (length rdone)
      = Ok (Tend ++ repeat PNil (length outrestE), length Tend) /\
    records = rdoneE ++ rrestE /\ length Tend = length rdoneE /\ out = outdoneE ++ outrestE /\
    length outdoneE + (i + length pass) = length rdoneE /\ t <= length rrestE /\
    T ++ merge_spec rrest krest outrest = Tend ++ merge_spec rrestE (repeat true t) outrestE /\
    (pass <> [] -> last pass 0 + 1 = length Tend).
Proof.
  intros Hcap. induction pass as [|index pass' IH]; intros krest rdone rrest outdone outrest T i Er Eo LT Li Ep Lk G.
  - pose proof (idx_false_segment krest (length rdone)) as S. rewrite <- Ep in S.
    exists T, outdone, outrest, rdone, rrest, (length krest). simpl. rewrite Nat.add_0_r, LT.
    repeat split; auto; try lia. { rewrite <- S. reflexivity. } congruence.
  - pose proof (idx_false_segment krest (length rdone)) as S. rewrite <- Ep in S.
    destruct S as [n [ks' [Ek [Ei Ep']]]]. subst krest.
    destruct (guard_segment _ _ _ G) as [Hn G'].
    rewrite app_length in Lk. simpl in Lk. rewrite repeat_length in Lk.
    assert (Hnr : n < length rrest) by lia.
    set (r := nth n rrest dummy_rec).
    set (src := firstn n outrest).
    assert (Ls : length src = n) by (unfold src; rewrite firstn_length; lia).
    set (k := length outrest + length (index :: pass')).
    assert (Ek : k - length src = S (length (skipn n outrest) + length pass')).
    { unfold k. rewrite skipn_length, Ls. simpl. lia. }
    assert (Hstep : merge_loop records out cap (T ++ repeat PNil k) (index :: pass') i (length rdone)
                    = merge_loop records out cap
                        (((T ++ src) ++ [PSingle r]) ++ repeat PNil (length (skipn n outrest) + length pass'))
                        pass' (i + 1) (length rdone + S n)).
    { cbn [merge_loop].
      assert (E1 : (length rdone <? i) || (index <? i) = false).
      { destruct (Nat.ltb_spec (length rdone) i); [lia|]. destruct (Nat.ltb_spec index i); [lia|]. reflexivity. }
      rewrite E1.
      replace (length rdone - i) with (length outdone) by lia.
      replace (index - i) with (length outdone + n) by lia.
      rewrite Eo at 1. rewrite oslice_exact by (try rewrite <- Eo; lia). cbn [rbind]. fold src.
      rewrite <- LT. replace index with (length T + length src) by lia.
      rewrite tmp_copy_exact by (rewrite Ls; unfold k; simpl; lia). cbn [rbind].
      assert (En : nth_chk records (length T + length src) SCondMerge = Ok r).
      { unfold nth_chk. rewrite Er, nth_error_app2 by lia. replace (length T + length src - length rdone) with n by lia.
        rewrite (nth_error_nth_lt _ _ dummy_rec) by lia. reflexivity. }
      rewrite En. cbn [rbind]. rewrite Ek. cbn [repeat].
      unfold upd_chk. rewrite app_assoc. rewrite <- (app_length T src). rewrite upd_at_app. cbn [rbind].
      f_equal; [|rewrite app_length; lia]. rewrite <- !app_assoc. reflexivity. }
    fold k. rewrite Hstep. clear Hstep.
    (* new state *)
    specialize (IH ks' (rdone ++ firstn (S n) rrest) (skipn (S n) rrest) (outdone ++ src) (skipn n outrest)
                   ((T ++ src) ++ [PSingle r]) (i + 1)).
    assert (Lrd : length (rdone ++ firstn (S n) rrest) = length rdone + S n).
    { rewrite app_length, firstn_length. lia. }
    destruct IH as [Tend [odE [orE [rdE [rrE [t [M [R1 [R2 [R3 [R4 [R5 [R6 R7]]]]]]]]]]]]].
    + rewrite <- app_assoc, firstn_skipn. exact Er.
    + rewrite <- app_assoc. unfold src. rewrite firstn_skipn. exact Eo.
    + rewrite Lrd, !app_length. simpl. lia.
    + rewrite Lrd, app_length. lia.
    + rewrite Lrd. rewrite Ep'. f_equal. lia.
    + rewrite skipn_length. lia.
    + rewrite skipn_length. exact G'.
    + rewrite Lrd in M.
      exists Tend, odE, orE, rdE, rrE, t. split; [exact M|]. repeat split; auto.
      * simpl. lia.
      * rewrite <- R6. rewrite merge_spec_segment by lia. fold r src.
        rewrite <- !app_assoc. reflexivity.
      * intros _. destruct pass' as [|j pass''].
        -- simpl. simpl in M. inversion M as [[M1 M2]]. lia.
        -- rewrite last_cons_ne by discriminate. apply R7. discriminate.
Qed.

(* ---------- the merge: aligned under the guard ---------- *)

Theorem merge_aligned records ks out cap :
  length ks <= length records -> length out <= cap ->
  guard ks (length out) = true -> idx_false ks 0 <> [] ->
  merge records out cap (idx_false ks 0) = Ok (merge_spec records ks out).
Proof.
  intros Lk Hcap G Hne. unfold merge.
  destruct (merge_loop_ok records out cap Hcap (idx_false ks 0) ks [] records [] out [] 0
              eq_refl eq_refl eq_refl eq_refl eq_refl Lk G)
    as [Tend [odE [orE [rdE [rrE [t [M [R1 [R2 [R3 [R4 [R5 [R6 R7]]]]]]]]]]]]].
  simpl in M. rewrite M. cbn [rbind]. specialize (R7 Hne). simpl in R6.
  rewrite app_length, repeat_length.
  destruct (last (idx_false ks 0) 0 + 1 =? length Tend + length orE) eqn:E.
  - apply Nat.eqb_eq in E. assert (length orE = 0) by lia. destruct orE; [|discriminate].
    f_equal. rewrite R6. rewrite merge_spec_all_true by lia. simpl. now rewrite app_nil_r.
  - simpl in R4.
    destruct (length Tend <? length (idx_false ks 0)) eqn:E2; [apply Nat.ltb_lt in E2; lia|].
    replace (length Tend - length (idx_false ks 0)) with (length odE) by lia.
    destruct (length odE <=? length out) eqn:E3.
    2:{ apply Nat.leb_gt in E3. rewrite R3, app_length in E3. lia. }
    assert (Esk : skipn (length odE) out = orE).
    { rewrite R3, skipn_app, skipn_all, Nat.sub_diag. reflexivity. }
    rewrite Esk.
    rewrite tmp_copy_exact by lia. rewrite Nat.sub_diag. simpl. rewrite app_nil_r.
    f_equal. rewrite R6. now rewrite merge_spec_all_true by lia.
Qed.

(* ---------- and a panic otherwise (the general form of finding S2) ---------- *)

Lemma idx_false_last_ge ks : forall s, idx_false ks s <> [] ->
  s + length (idx_false ks s) <= last (idx_false ks s) 0 + 1.
Proof.
  induction ks as [|k ks IH]; intros s H; simpl in *; [congruence|]. destruct k.
  - specialize (IH (S s) H). lia.
  - destruct (idx_false ks (S s)) as [|j l] eqn:E.
    + simpl. lia.
    + rewrite last_cons_ne by discriminate. assert (X : j :: l <> []) by discriminate.
      rewrite <- E in X |- *. specialize (IH (S s) X). simpl. lia.
Qed.

Lemma forallb_id_false_idx ks s : forallb (fun k : bool => k) ks = false -> idx_false ks s <> [].
Proof.
  revert s. induction ks as [|k ks IH]; intros s H; simpl in *; [discriminate|]. destruct k; [auto|discriminate].
Qed.

Lemma guard_false_last ks : forall m s, guard ks m = false ->
  idx_false ks s <> [] /\ s + m + length (idx_false ks s) <= last (idx_false ks s) 0.
Proof.
  induction ks as [|k ks IH]; intros m s G; simpl in *; [discriminate|]. destruct k.
  - destruct m as [|m].
    + pose proof (forallb_id_false_idx ks (S s) G) as Hne. split; auto.
      pose proof (idx_false_last_ge ks (S s) Hne). lia.
    + destruct (IH _ (S s) G) as [Hne Hl]. split; auto. lia.
  - destruct (IH _ (S s) G) as [Hne Hl]. split; [discriminate|].
    rewrite last_cons_ne by auto. simpl. lia.
Qed.

Lemma tmp_copy_length tmp lo hi src tmp' : tmp_copy tmp lo hi src = Ok tmp' -> length tmp' = length tmp.
Proof.
  unfold tmp_copy. destruct ((lo <=? hi) && (hi <=? length tmp)) eqn:E; intros H; inversion H; subst.
  apply andb_prop in E. destruct E as [E1 E2]. apply Nat.leb_le in E1. apply Nat.leb_le in E2.
  rewrite !app_length, copy_into_length, !firstn_length, !skipn_length. lia.
Qed.

Lemma merge_loop_oob records out cap : forall pass tmp i pn,
  (exists x, In x pass /\ length tmp <= x) ->
  merge_loop records out cap tmp pass i pn = Panic SCondMerge.
Proof.
  induction pass as [|index pass IH]; intros tmp i pn [x [Hin Hx]]; [destruct Hin|]. cbn [merge_loop].
  destruct ((pn <? i) || (index <? i)); [reflexivity|].
  destruct (oslice out cap (pn - i) (index - i)) as [src| | |] eqn:E1;
    try (unfold oslice in E1; destruct ((pn - i <=? index - i) && (index - i <=? cap)); discriminate);
    [|unfold oslice in E1; destruct ((pn - i <=? index - i) && (index - i <=? cap)); inversion E1; reflexivity].
  cbn [rbind].
  destruct (tmp_copy tmp pn index src) as [tmp1| | |] eqn:E2;
    try (unfold tmp_copy in E2; destruct ((pn <=? index) && (index <=? length tmp)); discriminate);
    [|unfold tmp_copy in E2; destruct ((pn <=? index) && (index <=? length tmp)); inversion E2; reflexivity].
  cbn [rbind]. pose proof (tmp_copy_length _ _ _ _ _ E2) as L1.
  unfold nth_chk. destruct (nth_error records index) as [r|]; [|reflexivity]. cbn [rbind].
  unfold upd_chk. destruct (upd tmp1 index (fun _ => PSingle r)) as [tmp2|] eqn:E3; [|reflexivity]. cbn [rbind].
  pose proof (upd_length _ _ _ _ E3) as L2.
  destruct Hin as [->|Hin].
  - (* the offending index is this one: the update cannot have succeeded *)
    exfalso. destruct (upd_spec _ _ _ _ E3) as [a [Ha _]].
    assert (x < length tmp1) by (apply nth_error_Some; congruence). lia.
  - apply IH. exists x. split; auto. lia.
Qed.

Theorem merge_panics records ks out cap :
  guard ks (length out) = false -> merge records out cap (idx_false ks 0) = Panic SCondMerge.
Proof.
  intros G. destruct (guard_false_last ks _ 0 G) as [Hne Hl]. unfold merge.
  rewrite merge_loop_oob; [reflexivity|].
  exists (last (idx_false ks 0) 0). split.
  - clear - Hne. induction (idx_false ks 0) as [|a l IHl]; [congruence|]. destruct l; [now left|].
    right. rewrite last_cons_ne by discriminate. apply IHl. discriminate.
  - rewrite repeat_length. simpl in Hl. lia.
Qed.

(* ---------- RunnableProcessor.Process ---------- *)

(* outcome of the condition for the scanned records (stops at the first evaluation error) *)
Fixpoint cond_keeps (p : nat) (rs : list rec) : list bool :=
  match rs with
  | [] => []
  | r :: rs' => match eval_cond p r with
                | None => []
                | Some k => k :: cond_keeps p rs'
                end
  end.

Fixpoint select {A} (ks : list bool) (l : list A) : list A :=
  match ks, l with
  | k :: ks', a :: l' => if k then a :: select ks' l' else select ks' l'
  | _, _ => []
  end.

Lemma cond_scan_spec p rs : forall i,
  cond_scan p rs i = (select (cond_keeps p rs) rs, idx_false (cond_keeps p rs) i,
                      negb (length (cond_keeps p rs) =? length rs)).
Proof.
  induction rs as [|r rs IH]; intros i; simpl; auto.
  destruct (eval_cond p r) as [k|]; [|reflexivity]. rewrite (IH (S i)). destruct k; reflexivity.
Qed.

Lemma cond_keeps_length p rs : length (cond_keeps p rs) <= length rs.
Proof. induction rs as [|r rs IH]; simpl; auto. destruct (eval_cond p r); simpl; lia. Qed.

Lemma idx_false_length ks s : length (idx_false ks s) + length (filter (fun k : bool => k) ks) = length ks.
Proof. revert s. induction ks as [|k ks IH]; intros s; simpl; auto. destruct k; simpl; rewrite <- (IH (S s)); lia. Qed.

Lemma append_cap_ge n cap : n <= cap -> S n <= append_cap n cap.
Proof.
  intros H. unfold append_cap. destruct (Nat.ltb_spec n cap); [lia|]. destruct (Nat.eqb_spec n 0); lia.
Qed.

(* results the merge sees: the plugin's, plus the ErrorRecord of a failed condition *)
Definition merge_input (e : bool) (out : list pr) : list pr := if e then out ++ [PError EEng] else out.

(* the results of the plugin as the merge sees them: the repaired Process pads a short result with
   empty (nil) entries up to the number of kept records *)
Definition padded (fx : bool) (nkept : nat) (out : list pr) : list pr :=
  if fx && (length out <? nkept) then out ++ repeat PNil (nkept - length out) else out.

(* C09 cond_passthrough_aligned + the conditional half of no_panic_processor_replies:
   Process panics exactly when the guard fails, and otherwise the merge is the aligned one *)
Theorem process_cond_spec c p records w r w' :
  process c p records w = (r, w') ->
  p_cond (nth p (c_procs c) (mkProc false [])) = true ->
  let ks := cond_keeps p records in
  let kept := select ks records in
  let e := negb (length ks =? length records) in
  let out0 := fst (plugin_reply p (nth p (c_procs c) (mkProc false [])) (nth p (w_pcalls w) 0) kept) in
  let out := padded (fx_cond_pad (c_fix c)) (length kept) out0 in
  match kept with
  | [] =>   (* the plugin is not called *)
      r = Ok (if length (idx_false ks 0) =? length records then map PSingle records
              else match idx_false ks 0 with
                   | [] => merge_input e []
                   | _ => merge_spec records ks (merge_input e [])
                   end)
      \/ (guard ks (length (merge_input e [])) = false /\ r = Panic SCondMerge)
  | _ :: _ =>
      if length kept <? length out0 then r = Ok [PError EEng]
      else if length (idx_false ks 0) =? length records then r = Ok (map PSingle records)
      else match idx_false ks 0 with
           | [] => r = Ok (merge_input e out)
           | _ => if guard ks (length (merge_input e out))
                  then r = Ok (merge_spec records ks (merge_input e out))
                  else r = Panic SCondMerge
           end
  end.
Proof.
  intros H Hc. cbn zeta. unfold process in H. rewrite Hc in H. cbn [negb] in H.
  rewrite cond_scan_spec in H.
  set (ks := cond_keeps p records) in *. set (kept := select ks records) in *.
  set (e := negb (length ks =? length records)) in *.
  pose proof (cond_keeps_length p records) as Lk. fold ks in Lk.
  destruct kept as [|k0 kept'] eqn:Ekept.
  - unfold bind, ret in H. cbn in H.
    assert (Hm : forall o cap, length o <= cap -> idx_false ks 0 <> [] ->
              (merge records o cap (idx_false ks 0) = Ok (merge_spec records ks o) /\ guard ks (length o) = true)
              \/ (merge records o cap (idx_false ks 0) = Panic SCondMerge /\ guard ks (length o) = false)).
    { intros o cap Ho Hne. destruct (guard ks (length o)) eqn:G.
      - left. split; auto. apply merge_aligned; auto.
      - right. split; auto. apply merge_panics; auto. }
    destruct e.
    + destruct (length (idx_false ks 0) =? length records); [inversion H; auto|].
      destruct (idx_false ks 0) as [|j l] eqn:Ep; [inversion H; subst; left; reflexivity|].
      unfold lift in H. inversion H; subst. simpl.
      destruct (Hm [PError EEng] 1 ltac:(simpl; lia) ltac:(discriminate)) as [[-> _]|[-> G]]; auto.
    + destruct (length (idx_false ks 0) =? length records); [inversion H; auto|].
      destruct (idx_false ks 0) as [|j l] eqn:Ep; [inversion H; subst; left; reflexivity|].
      unfold lift in H. inversion H; subst. simpl.
      destruct (Hm [] 0 ltac:(simpl; lia) ltac:(discriminate)) as [[-> _]|[-> G]]; auto.
  - unfold bind in H. unfold call_plugin at 1 in H.
    set (rep := plugin_reply p (nth p (c_procs c) (mkProc false [])) (nth p (w_pcalls w) 0) (k0 :: kept')) in *.
    destruct rep as [out0 cap0] eqn:Erep. cbn [fst].
    assert (Hcap0 : length out0 <= cap0).
    { unfold rep, plugin_reply in Erep. inversion Erep; subst. lia. }
    destruct (length (k0 :: kept') <? length out0) eqn:Emore.
    { unfold ret in H. inversion H; subst. reflexivity. }
    (* what the merge is given: (out, cap) *)
    set (fx := fx_cond_pad (c_fix c)) in *.
    assert (Hoc : exists cap, length (padded fx (length (k0 :: kept')) out0) <= cap /\
              (if fx && (length out0 <? length (k0 :: kept'))
               then ret (Some (out0 ++ repeat PNil (length (k0 :: kept') - length out0), Nat.max cap0 (length (k0 :: kept'))))
               else ret (Some (out0, cap0))) =
              (ret (Some (padded fx (length (k0 :: kept')) out0, cap)) : M (option (list pr * nat)))).
    { unfold padded. destruct (fx && (length out0 <? length (k0 :: kept'))) eqn:Ef.
      - eexists. split; [|reflexivity]. rewrite app_length, repeat_length.
        apply andb_prop in Ef. destruct Ef as [_ Ef]. apply Nat.ltb_lt in Ef. lia.
      - exists cap0. split; auto. }
    destruct Hoc as [cap [Hcap Eoc]]. rewrite Eoc in H. clear Eoc.
    set (out := padded fx (length (k0 :: kept')) out0) in *.
    unfold ret in H. cbn in H.
    destruct (length (idx_false ks 0) =? length records) eqn:Eall.
    { destruct e; inversion H; subst; reflexivity. }
    destruct (idx_false ks 0) as [|j l] eqn:Ep.
    { destruct e; inversion H; subst; reflexivity. }
    assert (Hne : idx_false ks 0 <> []) by (rewrite Ep; discriminate).
    rewrite <- Ep in *.
    destruct e; unfold lift in H; inversion H; subst; unfold merge_input.
    + destruct (guard ks (length (out ++ [PError EEng]))) eqn:G.
      * apply merge_aligned; auto. rewrite app_length. simpl.
        pose proof (append_cap_ge _ _ Hcap). lia.
      * apply merge_panics; auto.
    + destruct (guard ks (length out)) eqn:G.
      * apply merge_aligned; auto.
      * apply merge_panics; auto.
Qed.

(* ---------- the repaired Process never panics ---------- *)

Lemma guard_enough ks : forall m, length (filter (fun k : bool => k) ks) <= m -> guard ks m = true.
Proof.
  induction ks as [|k ks IH]; intros m H; simpl in *; auto. destruct k; simpl in H.
  - destruct m as [|m]; [lia|]. apply IH. lia.
  - apply IH. exact H.
Qed.

Lemma select_length {A} ks : forall (l : list A), length ks <= length l ->
  length (select ks l) = length (filter (fun k : bool => k) ks).
Proof.
  induction ks as [|k ks IH]; intros l H; simpl; auto. destruct l as [|a l]; [simpl in H; lia|].
  simpl in H. destruct k; simpl; rewrite IH by lia; reflexivity.
Qed.

(* with the padding repair, RunnableProcessor.Process does not panic for any plugin reply, any
   condition pattern (evaluation errors included) and any slice capacity *)
Theorem process_no_panic_repaired c p records w r w' :
  fx_cond_pad (c_fix c) = true -> process c p records w = (r, w') -> forall s, r <> Panic s.
Proof.
  intros Hfx H s. destruct (p_cond (nth p (c_procs c) (mkProc false []))) eqn:Hc.
  2:{ unfold process in H. rewrite Hc in H. cbn [negb] in H. unfold bind, call_plugin in H.
      destruct (plugin_reply _ _ _ _). unfold ret in H. inversion H; subst. discriminate. }
  pose proof (process_cond_spec _ _ _ _ _ _ H Hc) as S. cbn zeta in S. rewrite Hfx in S.
  set (ks := cond_keeps p records) in *.
  pose proof (cond_keeps_length p records) as Lk. fold ks in Lk.
  pose proof (select_length ks records Lk) as Ls.
  destruct (select ks records) as [|k0 kept'] eqn:Ek.
  - destruct S as [->|[G _]]; [discriminate|]. exfalso.
    rewrite guard_enough in G; [discriminate|]. simpl in Ls. lia.
  - set (o := fst (plugin_reply p (nth p (c_procs c) (mkProc false [])) (nth p (w_pcalls w) 0) (k0 :: kept'))) in *.
    destruct (length (k0 :: kept') <? length o) eqn:E1; [subst; discriminate|].
    destruct (length (idx_false ks 0) =? length records); [subst; discriminate|].
    destruct (idx_false ks 0); [subst; discriminate|].
    rewrite guard_enough in S; [subst; discriminate|].
    apply Nat.ltb_ge in E1. unfold merge_input, padded. cbn [andb]. rewrite <- Ls.
    destruct (length o <? length (k0 :: kept')) eqn:E2;
      [apply Nat.ltb_lt in E2|apply Nat.ltb_ge in E2];
      destruct (negb (length ks =? length records)); rewrite ?app_length, ?repeat_length; cbn [length] in *; lia.
Qed.
