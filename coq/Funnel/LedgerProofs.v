(* Accounting of source positions through runAckNacker.vote, Worker.Ack / Worker.Nack and the DLQ:
   what a computation appends to the log, as far as Source.Ack calls are concerned, and how it
   moves the run ledger.

   [owed sh h ext] is the multiset of source positions a batch of shape [sh] still owes to the
   source: the position of every entry that belongs to no run, and the original position of every
   run that has members in the batch and no unvoted member anywhere else ([ext r] = number of
   unvoted members of run r outside of the batch).  [acct] is the ledger invariant
   total = terminalCount + members in the batch + ext. *)
From Coq Require Import Permutation.
From Verif Require Import Funnel.Ledger Funnel.BatchProofs.

(* ---------- monad laws used for inversion ---------- *)

Lemma bind_inv_M {A B} (m : M A) (k : A -> M B) w r w' :
  bind m k w = (r, w') ->
  (exists a w1, m w = (Ok a, w1) /\ k a w1 = (r, w')) \/
  (m w = (match r with Ok _ => OutOfFuel | Refused e => Refused e | Panic s => Panic s | OutOfFuel => OutOfFuel end, w')
   /\ (forall v, r <> Ok v)).
Proof.
  unfold bind. destruct (m w) as [[a|e|s|] w1] eqn:E; intros H.
  - left. eauto.
  - inversion H; subst. right. split; [reflexivity|discriminate].
  - inversion H; subst. right. split; [reflexivity|discriminate].
  - inversion H; subst. right. split; [reflexivity|discriminate].
Qed.

Definition acks_of (l : list event) : list key :=
  flat_map (fun e => match e with EvSAck ps => ps | _ => [] end) l.

Lemma acks_of_app l1 l2 : acks_of (l1 ++ l2) = acks_of l1 ++ acks_of l2.
Proof. unfold acks_of. apply flat_map_app. Qed.

(* m leaves the ledger alone and makes no Source.Ack call *)
Definition quiet {A} (m : M A) : Prop :=
  forall w r w', m w = (r, w') ->
    w_heap w' = w_heap w /\ exists newl, w_log w' = newl ++ w_log w /\ acks_of newl = [].

Lemma quiet_ret {A} (a : A) : quiet (ret a).
Proof. intros w r w' H. inversion H; subst. split; auto. exists []. auto. Qed.
Lemma quiet_lift {A} (x : res A) : quiet (lift x).
Proof. intros w r w' H. inversion H; subst. split; auto. exists []. auto. Qed.
Lemma quiet_fail {A} e : quiet (@fail A e).
Proof. intros w r w' H. inversion H; subst. split; auto. exists []. auto. Qed.

Lemma quiet_bind {A B} (m : M A) (k : A -> M B) :
  quiet m -> (forall a, quiet (k a)) -> quiet (bind m k).
Proof.
  intros Hm Hk w r w' H. apply bind_inv_M in H. destruct H as [[a [w1 [H1 H2]]]|[H1 _]].
  - destruct (Hm _ _ _ H1) as [E1 [l1 [L1 A1]]]. destruct (Hk a _ _ _ H2) as [E2 [l2 [L2 A2]]].
    split; [congruence|]. exists (l2 ++ l1). rewrite L2, L1, app_assoc. split; auto.
    rewrite acks_of_app, A1, A2. reflexivity.
  - eapply Hm; eauto.
Qed.

Lemma quiet_try {A} (m : M A) : quiet m -> quiet (try m).
Proof.
  intros Hm w r w' H. unfold try in H. destruct (m w) as [[a|e|s|] w1] eqn:E; inversion H; subst;
    eapply Hm; eauto.
Qed.

Lemma quiet_emit e : (match e with EvSAck _ => False | _ => True end) -> quiet (emit e).
Proof.
  intros He w r w' H. inversion H; subst. simpl. split; auto. exists [e]. split; auto.
  destruct e; simpl; auto. contradiction.
Qed.

Lemma quiet_get_heap : quiet get_heap.
Proof. intros w r w' H. inversion H; subst. split; auto. exists []. auto. Qed.
Lemma quiet_get_win : quiet get_win.
Proof. intros w r w' H. inversion H; subst. split; auto. exists []. auto. Qed.
Lemma quiet_put_win x : quiet (put_win x).
Proof. intros w r w' H. inversion H; subst. simpl. split; auto. exists []. auto. Qed.

Lemma quiet_call_plugin c p ins : quiet (call_plugin c p ins).
Proof. intros w r w' H. inversion H; subst. simpl. split; auto. eexists [_]. split; [reflexivity|]. reflexivity. Qed.

Lemma quiet_do_write c d rs ev :
  (match ev with EvSAck _ => False | _ => True end) -> quiet (do_write c d rs ev).
Proof.
  intros He w r w' H. unfold do_write in H. destruct d.
  - destruct (dest_write (c_dest c) (w_dest w) rs) as [st ok]. inversion H; subst. simpl. split; auto.
    exists [ev]. split; auto. destruct ev; simpl; auto; contradiction.
  - destruct (dest_write (c_dlq c) (w_dlq w) rs) as [st ok]. inversion H; subst. simpl. split; auto.
    exists [ev]. split; auto. destruct ev; simpl; auto; contradiction.
Qed.

Lemma quiet_do_ack c d : quiet (do_ack c d).
Proof.
  intros w r w' H. unfold do_ack in H. destruct d.
  - destruct (dest_ack (c_dest c) (w_dest w)) as [[st x] cf]. inversion H; subst. simpl. split; auto.
    eexists [_]. split; reflexivity.
  - destruct (dest_ack (c_dlq c) (w_dlq w)) as [[st x] cf]. inversion H; subst. simpl. split; auto.
    eexists [_]. split; reflexivity.
Qed.

Lemma quiet_dest_loop c d ps n : forall b ackCount, quiet (dest_loop c d b ps ackCount n).
Proof.
  induction n as [|n IH]; intros b ackCount; simpl.
  - destruct (_ && _); [apply quiet_fail|apply quiet_ret].
  - apply quiet_bind; [apply quiet_do_ack|]. intros [acks|]; [|apply quiet_fail].
    destruct (_ && _); [apply quiet_fail|].
    destruct (acks_match acks (skipn ackCount ps)); [|apply quiet_fail].
    apply quiet_bind; [apply quiet_lift|]. intros b'.
    destruct (length ps <=? ackCount + length acks); [apply quiet_ret|].
    apply quiet_bind; [apply IH|]. intros [b'' more]. apply quiet_ret.
Qed.

Lemma quiet_dest_do c d b wev :
  (forall rs, match wev rs with EvSAck _ => False | _ => True end) -> quiet (dest_do c d b wev).
Proof.
  intros He. unfold dest_do. apply quiet_bind; [apply quiet_lift|]. intros rs.
  apply quiet_bind; [apply quiet_do_write, He|]. intros [|]; [|apply quiet_fail].
  apply quiet_bind; [apply quiet_dest_loop|]. intros [b' x]. apply quiet_ret.
Qed.

Lemma quiet_process c p recs : quiet (process c p recs).
Proof.
  unfold process. destruct (negb (p_cond (nth p (c_procs c) (mkProc false [])))).
  - apply quiet_bind; [apply quiet_call_plugin|]. intros [out cap]. apply quiet_ret.
  - destruct (cond_scan p recs 0) as [[kept pass] e].
    apply quiet_bind.
    + destruct kept; [apply quiet_ret|]. apply quiet_bind; [apply quiet_call_plugin|].
      intros [out cap]. destruct (_ <? _); [apply quiet_ret|]. destruct (_ && _); apply quiet_ret.
    + intros [[out cap]|]; [|apply quiet_ret].
      destruct e; destruct (length pass =? length recs); try apply quiet_ret;
        destruct pass; try apply quiet_ret; apply quiet_lift.
Qed.

Lemma quiet_send_to_dlq c b task : quiet (send_to_dlq c b task).
Proof.
  unfold send_to_dlq. apply quiet_bind; [apply quiet_lift|]. intros [rs qs].
  apply quiet_bind; [apply quiet_try, quiet_dest_do; intros; exact I|].
  intros [db|e]; apply quiet_ret.
Qed.

Lemma quiet_dlq_nack c b task : quiet (dlq_nack c b task).
Proof.
  unfold dlq_nack. destruct (length (records b) =? 0); [apply quiet_ret|].
  apply quiet_bind; [apply quiet_get_win|]. intros wn.
  destruct (nackN wn (length (records b))) as [wn' nacked].
  apply quiet_bind; [apply quiet_put_win|]. intros _.
  apply quiet_bind.
  - destruct (0 <? nacked); [|apply quiet_ret].
    apply quiet_bind; [apply quiet_lift|]. intros bb.
    apply quiet_bind; [apply quiet_send_to_dlq|]. intros [sc failed]. apply quiet_ret.
  - intros [sc|]; [apply quiet_ret|].
    destruct (nacked <? length (records b)); [|apply quiet_ret].
    destruct (0 <? c_dlqthr c); [apply quiet_ret|].
    apply quiet_bind; [apply quiet_lift|]. intros s. destruct (snd s); apply quiet_ret.
Qed.

Lemma bind_ok_M {A B} (m : M A) (k : A -> M B) w v w' :
  bind m k w = (Ok v, w') -> exists a w1, m w = (Ok a, w1) /\ k a w1 = (Ok v, w').
Proof.
  intros H. apply bind_inv_M in H. destruct H as [H|[_ H]]; auto. exfalso. eapply H; eauto.
Qed.

Ltac mbind H a w1 H1 := apply bind_ok_M in H; destruct H as [a [w1 [H1 H]]].

(* DLQ.Nack returns a nil error only when every record was accepted *)
Lemma dlq_nack_none c b task w n w' :
  dlq_nack c b task w = (Ok (n, None), w') ->
  Forall (fun s : status => snd s <> None) (statuses b) ->
  length (records b) <= n.
Proof.
  unfold dlq_nack. intros H F.
  destruct (length (records b) =? 0) eqn:E0.
  - apply Nat.eqb_eq in E0. lia.
  - mbind H wn w1 H1. destruct (nackN wn (length (records b))) as [wn' nacked] eqn:En.
    mbind H u w2 H2. mbind H x w3 H3. destruct x as [sc|].
    + inversion H.
    + destruct (nacked <? length (records b)) eqn:E1.
      * destruct (0 <? c_dlqthr c); [inversion H|].
        mbind H s w4 H4. unfold lift in H4. inversion H4; subst w4. clear H4.
        match goal with H4 : nth_chk _ _ _ = Ok s |- _ => apply nth_chk_ok in H4; pose proof (Forall_nth_error _ _ _ _ F H4) as Hs end.
        cbn beta in Hs. destruct (snd s); [inversion H|congruence].
      * inversion H; subst. apply Nat.ltb_ge in E1. lia.
Qed.

(* ---------- Worker.Ack / Worker.Nack ---------- *)

(* the Source.Ack calls made are a prefix of [full]; all of it when the call returns without error *)
Definition ackspec (full : list key) (w : world) (r : res unit) (w' : world) : Prop :=
  w_heap w' = w_heap w /\
  exists newl rest, w_log w' = newl ++ w_log w /\ acks_of newl ++ rest = full /\ (r = Ok tt -> rest = []).

Lemma ackspec_none full w r w' :
  w_heap w' = w_heap w -> (exists newl, w_log w' = newl ++ w_log w /\ acks_of newl = []) ->
  (forall v, r <> Ok v) -> ackspec full w r w'.
Proof.
  intros Hh [newl [L A]] Hr. split; auto. exists newl, full. rewrite A. repeat split; auto.
  intros E. exfalso. eapply Hr; eauto.
Qed.

Lemma src_ack_spec c ps w a w' :
  src_ack c ps w = (a, w') ->
  w_heap w' = w_heap w /\ w_log w' = [EvSAck (map pkey ps)] ++ w_log w /\ exists x, a = Ok x.
Proof. unfold src_ack. intros H. inversion H; subst. simpl. eauto. Qed.

Lemma worker_ack_spec c b w r w' :
  worker_ack c b w = (r, w') -> lens2 b -> Forall (fun p : pos => p <> None) (positions b) ->
  ackspec (map pkey (positions b)) w r w'.
Proof.
  unfold worker_ack. intros H L Hnn.
  apply bind_inv_M in H. destruct H as [[ob [w1 [H1 H]]]|[H1 Hr]].
  2:{ unfold lift in H1. inversion H1; subst. apply ackspec_none; auto. exists []; auto. }
  unfold lift in H1. inversion H1; subst w1. clear H1.
  match goal with H1 : original_batch b = Ok ob |- _ =>
    destruct (original_batch_spec _ _ H1 L Hnn) as [Ep _] end.
  rewrite Ep in H.
  destruct (existsb pos_len0 (positions b)).
  { unfold fail in H. inversion H; subst. apply ackspec_none; auto; [exists []; auto|discriminate]. }
  apply bind_inv_M in H. destruct H as [[a [w1 [H1 H]]]|[H1 Hr]].
  2:{ apply src_ack_spec in H1. destruct H1 as [_ [_ [x Hx]]]. destruct r; discriminate. }
  apply src_ack_spec in H1. destruct H1 as [Eh [El _]].
  assert (Hfin : forall r0 w2, w_heap w2 = w_heap w1 -> w_log w2 = w_log w1 ->
                 ackspec (map pkey (positions b)) w r0 w2).
  { intros r0 w2 E1 E2. split; [congruence|]. exists [EvSAck (map pkey (positions b))], [].
    rewrite E2, El. simpl. rewrite !app_nil_r. auto. }
  destruct (src_ack_failed a).
  { unfold fail in H. inversion H; subst. apply Hfin; auto. }
  destruct (length (records b) =? 0).
  { unfold ret in H. inversion H; subst. apply Hfin; auto. }
  unfold bind, get_win, put_win in H. inversion H; subst. apply Hfin; auto.
Qed.

Lemma worker_nack_spec c b task w r w' :
  worker_nack c b task w = (r, w') -> lens2 b -> Forall (fun p : pos => p <> None) (positions b) ->
  Forall (fun s : status => snd s <> None) (statuses b) ->
  ackspec (map pkey (positions b)) w r w'.
Proof.
  unfold worker_nack. intros H L Hnn Hst.
  apply bind_inv_M in H. destruct H as [[ob [w1 [H1 H]]]|[H1 Hr]].
  2:{ unfold lift in H1. inversion H1; subst. apply ackspec_none; auto. exists []; auto. }
  unfold lift in H1. inversion H1; subst w1. clear H1.
  match goal with H1 : original_batch b = Ok ob |- _ =>
    destruct (original_batch_spec _ _ H1 L Hnn) as [Ep [Lr [Ls F]]] end.
  apply bind_inv_M in H. destruct H as [[ne [w1 [H1 H]]]|[H1 Hr]].
  2:{ destruct (quiet_dlq_nack _ _ _ _ _ _ H1) as [E1 E2]. apply ackspec_none; auto. }
  destruct ne as [n e].
  destruct (quiet_dlq_nack _ _ _ _ _ _ H1) as [Eh1 [l1 [El1 Ea1]]].
  assert (Hn : e = None -> length (positions b) <= n).
  { intros ->. apply dlq_nack_none in H1; [|apply F, Hst]. rewrite <- Ep. lia. }
  rewrite Ep in H.
  (* the part that acks positions[:n] *)
  set (full := map pkey (positions b)).
  assert (Hstep : forall (m : M unit) r1 w2, m w1 = (r1, w2) ->
            m = (if 0 <? n then
                   ps <-- lift (slice_chk (positions b) 0 n) ;;;
                   (if existsb pos_len0 ps then fail (mkE true CEmptyPos XEmptyPosNack)
                    else a <-- src_ack c ps ;;;
                         (if src_ack_failed a then fail (mkE false CNone XSourceAck)
                          else _ <-- lift (slice_chk (records b) 0 n) ;;; ret tt))
                 else ret tt) ->
            w_heap w2 = w_heap w /\
            exists newl rest, w_log w2 = newl ++ w_log w /\ acks_of newl ++ rest = full /\
                              (r1 = Ok tt -> e = None -> rest = [])).
  { intros m r1 w2 Hm ->. destruct (0 <? n) eqn:E0.
    2:{ unfold ret in Hm. inversion Hm; subst. split; [congruence|].
        exists l1, full. rewrite Ea1. repeat split; auto. intros _ He. apply Hn in He.
        apply Nat.ltb_ge in E0. unfold full. destruct (positions b); [reflexivity|simpl in He; lia]. }
    apply bind_inv_M in Hm. destruct Hm as [[ps [w3 [Hs Hm]]]|[Hs Hr]].
    2:{ unfold lift in Hs. inversion Hs; subst. split; [congruence|]. exists l1, full. rewrite Ea1.
        repeat split; auto. intros E. exfalso. eapply Hr; eauto. }
    unfold lift in Hs. inversion Hs; subst w3. clear Hs.
    match goal with Hs : slice_chk _ 0 n = Ok ps |- _ => apply slice_chk_ok in Hs; destruct Hs as [_ [Hle ->]] end.
    rewrite Nat.sub_0_r in *. cbn [skipn] in *.
    destruct (existsb pos_len0 (firstn n (positions b))).
    { unfold fail in Hm. inversion Hm; subst. split; [congruence|]. exists l1, full. rewrite Ea1.
      repeat split; auto. discriminate. }
    apply bind_inv_M in Hm. destruct Hm as [[a [w3 [Hs Hm]]]|[Hs Hr]].
    2:{ apply src_ack_spec in Hs. destruct Hs as [_ [_ [x Hx]]]. destruct r1; discriminate. }
    apply src_ack_spec in Hs. destruct Hs as [Eh3 [El3 _]].
    assert (Hfin : forall r0 w4, w_heap w4 = w_heap w3 -> w_log w4 = w_log w3 ->
              w_heap w4 = w_heap w /\
              exists newl rest, w_log w4 = newl ++ w_log w /\ acks_of newl ++ rest = full /\
                                (r0 = Ok tt -> e = None -> rest = [])).
    { intros r0 w4 E1 E2. split; [congruence|].
      exists ([EvSAck (map pkey (firstn n (positions b)))] ++ l1), (map pkey (skipn n (positions b))).
      rewrite E2, El3, El1, app_assoc. split; auto. rewrite acks_of_app, Ea1. simpl. rewrite !app_nil_r.
      split. { unfold full. rewrite <- map_app, firstn_skipn. reflexivity. }
      intros _ He. apply Hn in He. rewrite skipn_all2 by lia. reflexivity. }
    destruct (src_ack_failed a).
    { unfold fail in Hm. inversion Hm; subst. apply Hfin; auto. }
    apply bind_inv_M in Hm. destruct Hm as [[x [w4 [Hs Hm]]]|[Hs Hr]].
    - unfold lift in Hs. inversion Hs; subst w4. unfold ret in Hm. inversion Hm; subst. apply Hfin; auto.
    - unfold lift in Hs. inversion Hs; subst. apply Hfin; auto. }
  apply bind_inv_M in H. destruct H as [[u [w2 [HX2 H]]]|[HX2 Hr]].
  - destruct (Hstep _ _ _ HX2 eq_refl) as [Eh [newl [rest [El [Ea Hrest]]]]].
    destruct e as [e|].
    + unfold fail in H. inversion H; subst. split; auto. exists newl, rest. repeat split; auto. discriminate.
    + unfold ret in H. inversion H; subst. destruct u. split; auto. exists newl, rest. repeat split; auto.
  - destruct (Hstep _ _ _ HX2 eq_refl) as [Eh [newl [rest [El [Ea Hrest]]]]].
    split; auto. exists newl, rest. repeat split; auto. intros E. exfalso. eapply Hr; eauto.
Qed.

(* ---------- what a batch owes to the source ---------- *)

Definition is_run (r : nat) (e : entry) : bool := opt_nat_eqb (fst e) (Some r).
Definition cnt (r : nat) (sh : shape) : nat := length (filter (is_run r) sh).
Definition alone_keys (sh : shape) : list key :=
  flat_map (fun e : entry => match fst e with None => [pkey (snd e)] | Some _ => [] end) sh.
Definition okey (h : heap) (r : nat) : key :=
  match nth_error h r with Some x => pkey (r_origPos x) | None => [] end.
Definition due (sh : shape) (ext : nat -> nat) (r : nat) : bool := (0 <? cnt r sh) && (ext r =? 0).
Definition owed (sh : shape) (h : heap) (ext : nat -> nat) : list key :=
  alone_keys sh ++ map (okey h) (filter (due sh ext) (seq 0 (length h))).

Definition acct (sh : shape) (h : heap) (ext : nat -> nat) : Prop :=
  forall r x, nth_error h r = Some x -> r_total x = r_term x + cnt r sh + ext r.
Definition run_ok (x : srun) : Prop :=
  r_origPos x <> None /\ (r_nacked x = true -> r_nackErr x <> None).
Definition heap_ok (h : heap) : Prop := Forall run_ok h.
Definition ext0 (h : heap) (ext : nat -> nat) : Prop := forall r, length h <= r -> ext r = 0.
Definition heap_ext (h h' : heap) : Prop :=
  length h <= length h' /\
  forall r x, nth_error h r = Some x -> exists x', nth_error h' r = Some x' /\ r_origPos x' = r_origPos x.

Lemma heap_ext_refl h : heap_ext h h.
Proof. split; auto. intros r x H. eauto. Qed.
Lemma heap_ext_trans h1 h2 h3 : heap_ext h1 h2 -> heap_ext h2 h3 -> heap_ext h1 h3.
Proof.
  intros [L1 H1] [L2 H2]. split; [lia|]. intros r x Hx. destruct (H1 _ _ Hx) as [x' [Hx' E']].
  destruct (H2 _ _ Hx') as [x'' [Hx'' E'']]. exists x''. split; auto. congruence.
Qed.

Lemma cnt_app r s1 s2 : cnt r (s1 ++ s2) = cnt r s1 + cnt r s2.
Proof. unfold cnt. now rewrite filter_app, app_length. Qed.
Lemma alone_keys_app s1 s2 : alone_keys (s1 ++ s2) = alone_keys s1 ++ alone_keys s2.
Proof. unfold alone_keys. apply flat_map_app. Qed.
Lemma cnt_nil r : cnt r [] = 0. Proof. reflexivity. Qed.

Lemma opt_nat_eqb_eq a b : opt_nat_eqb a b = true <-> a = b.
Proof.
  destruct a, b; simpl; split; intros H; try discriminate; auto.
  - apply Nat.eqb_eq in H. congruence.
  - inversion H. apply Nat.eqb_refl.
Qed.

Lemma filter_split_perm {A} (p p1 p2 : A -> bool) (l : list A) :
  (forall x, In x l -> p x = p1 x || p2 x) -> (forall x, In x l -> p1 x && p2 x = false) ->
  Permutation (filter p l) (filter p1 l ++ filter p2 l).
Proof.
  induction l as [|a l IH]; intros H1 H2; simpl; auto.
  assert (IH' : Permutation (filter p l) (filter p1 l ++ filter p2 l)).
  { apply IH; intros; [apply H1|apply H2]; now right. }
  specialize (H1 a (or_introl eq_refl)). specialize (H2 a (or_introl eq_refl)).
  rewrite H1. destruct (p1 a), (p2 a); simpl in *; try discriminate; auto.
  apply Permutation_cons_app. exact IH'.
Qed.

Lemma owed_app s1 s2 h ext :
  Permutation (owed (s1 ++ s2) h ext) (owed s1 h (fun r => ext r + cnt r s2) ++ owed s2 h ext).
Proof.
  unfold owed. rewrite alone_keys_app.
  set (L := seq 0 (length h)).
  assert (P : Permutation (filter (due (s1 ++ s2) ext) L)
                          (filter (due s1 (fun r => ext r + cnt r s2)) L ++ filter (due s2 ext) L)).
  { apply filter_split_perm; intros r _; unfold due; rewrite ?cnt_app.
    - destruct (Nat.ltb_spec 0 (cnt r s1 + cnt r s2)), (Nat.ltb_spec 0 (cnt r s1)), (Nat.ltb_spec 0 (cnt r s2)),
        (Nat.eqb_spec (ext r) 0), (Nat.eqb_spec (ext r + cnt r s2) 0); simpl; auto; lia.
    - destruct (Nat.ltb_spec 0 (cnt r s1)), (Nat.ltb_spec 0 (cnt r s2)),
        (Nat.eqb_spec (ext r) 0), (Nat.eqb_spec (ext r + cnt r s2) 0); simpl; auto; lia. }
  apply (Permutation_map (okey h)) in P. rewrite map_app in P.
  rewrite <- !app_assoc. apply Permutation_app_head.
  etransitivity; [apply Permutation_app_head, P|].
  rewrite !app_assoc. apply Permutation_app_tail. apply Permutation_app_comm.
Qed.

(* a group of standalone entries *)
Lemma owed_alone g h ext :
  Forall (fun e : entry => fst e = None) g -> owed g h ext = map (fun e => pkey (snd e)) g.
Proof.
  intros F. unfold owed.
  assert (C : forall r, cnt r g = 0).
  { intros r. unfold cnt. induction F as [|e g He _ IH]; simpl; auto. unfold is_run at 1. rewrite He. simpl. auto. }
  replace (filter (due g ext) (seq 0 (length h))) with (@nil nat).
  - simpl. rewrite app_nil_r. unfold alone_keys. clear C.
    induction F as [|e g He _ IH]; simpl; auto. rewrite He. simpl. f_equal. auto.
  - induction (seq 0 (length h)) as [|a l IH]; simpl; auto. unfold due at 1. rewrite C. simpl. auto.
Qed.

Lemma filter_eqb_seq_above r s n c :
  r < s -> filter (fun x => (x =? r) && c) (seq s n) = [].
Proof.
  revert s. induction n; intros s Hs; simpl; auto. destruct (Nat.eqb_spec s r); [lia|]. simpl. apply IHn. lia.
Qed.

Lemma filter_eqb_seq r s n c :
  s <= r < s + n -> filter (fun x => (x =? r) && c) (seq s n) = if c then [r] else [].
Proof.
  revert s. induction n as [|n IH]; intros s H; [lia|]. simpl.
  destruct (Nat.eqb_spec s r) as [->|Hne].
  - simpl. rewrite filter_eqb_seq_above by lia. destruct c; reflexivity.
  - simpl. apply IH. lia.
Qed.

(* a group of members of run r *)
Lemma owed_run g h ext r :
  g <> [] -> Forall (fun e : entry => fst e = Some r) g -> r < length h ->
  owed g h ext = if ext r =? 0 then [okey h r] else [].
Proof.
  intros Hne F Hr. unfold owed.
  assert (A : alone_keys g = []).
  { unfold alone_keys. induction F as [|e g He _ IH]; simpl; auto. rewrite He. simpl.
    destruct g; [reflexivity|]. apply IH. discriminate. }
  assert (C : forall r', cnt r' g = if r' =? r then length g else 0).
  { intros r'. unfold cnt. clear A Hne. induction F as [|e g He _ IH]; simpl.
    - destruct (r' =? r); reflexivity.
    - unfold is_run at 1. rewrite He. simpl. rewrite (Nat.eqb_sym r r'). destruct (r' =? r); simpl; auto. }
  rewrite A. simpl.
  rewrite (filter_ext _ (fun x => (x =? r) && (ext r =? 0))).
  - rewrite filter_eqb_seq by lia. destruct (ext r =? 0); reflexivity.
  - intros x. unfold due. rewrite C. destruct (Nat.eqb_spec x r) as [->|]; simpl; auto.
    destruct g; [congruence|]. reflexivity.
Qed.

Lemma skipn_skipn' {A} (l : list A) a b : skipn a (skipn b l) = skipn (a + b) l.
Proof.
  revert l. induction b; intros l; simpl.
  - now rewrite Nat.add_0_r.
  - rewrite Nat.add_succ_r. destruct l; simpl; [now destruct a|]. apply IHb.
Qed.

Lemma skipn_slice {A} (l : list A) i j : i <= j -> skipn i l = slice l i j ++ skipn j l.
Proof.
  intros H. unfold slice. replace j with ((j - i) + i) at 2 by lia.
  rewrite <- skipn_skipn'. now rewrite firstn_skipn.
Qed.

(* ---------- the specification of a computation that settles a batch ---------- *)

Definition post (sh : shape) (ext : nat -> nat) (w : world) (r : res unit) (w' : world) : Prop :=
  exists newl rest,
    w_log w' = newl ++ w_log w /\
    Permutation (acks_of newl ++ rest) (owed sh (w_heap w) ext) /\
    (r = Ok tt -> rest = [] /\ heap_ext (w_heap w) (w_heap w') /\ heap_ok (w_heap w') /\
                  acct [] (w_heap w') ext /\ ext0 (w_heap w') ext).

Lemma post_fail sh ext w r w' :
  (forall v, r <> Ok v) -> (exists newl, w_log w' = newl ++ w_log w /\ acks_of newl = []) ->
  post sh ext w r w'.
Proof.
  intros Hr [newl [L A]]. exists newl, (owed sh (w_heap w) ext). rewrite A. simpl. repeat split; auto.
  all: exfalso; eapply Hr; eauto.
Qed.

Lemma scan_same_spec b run rl : runs b = Some rl ->
  forall fuel j j', scan_same b run j fuel = Ok j' ->
  j <= j' /\ (j <= length (records b) -> j' <= length (records b)) /\
  forall k, j <= k < j' -> nth_error rl k = Some run.
Proof.
  intros Hrl. induction fuel as [|f IH]; intros j j' H; simpl in H.
  - inversion H; subst. repeat split; auto; lia.
  - destruct (j <? length (records b)) eqn:E.
    + bind_inv H nx Hnx. unfold run_at in Hnx. rewrite Hrl in Hnx. apply nth_chk_ok in Hnx.
      destruct (opt_nat_eqb nx run) eqn:En.
      * apply opt_nat_eqb_eq in En. subst nx. apply IH in H. destruct H as [A [B C]].
        apply Nat.ltb_lt in E. repeat split; try lia. intros k Hk.
        destruct (Nat.eq_dec k j) as [->|]; auto. apply C. lia.
      * inversion H; subst. repeat split; auto; lia.
    + inversion H; subst. repeat split; auto; lia.
Qed.

Lemma owed_nil h ext : owed [] h ext = [].
Proof.
  unfold owed. simpl. induction (seq 0 (length h)) as [|a l IH]; simpl; auto.
Qed.

Lemma owed_heap_eq sh h h' ext :
  length h = length h' -> (forall q, okey h q = okey h' q) -> owed sh h ext = owed sh h' ext.
Proof.
  intros L E. unfold owed. rewrite L. f_equal. apply map_ext. exact E.
Qed.

(* step 1 acked a prefix of [full] and left a heap extending the old one; then either the pass
   stopped there with an error, or the rest of the batch was settled *)
Lemma post_compose sh tail ext w w3 r w' l1 rest1 full :
  w_log w3 = l1 ++ w_log w -> acks_of l1 ++ rest1 = full ->
  heap_ext (w_heap w) (w_heap w3) ->
  Permutation (owed sh (w_heap w) ext) (full ++ owed tail (w_heap w3) ext) ->
  ((forall v, r <> Ok v) /\ w' = w3 \/ rest1 = [] /\ post tail ext w3 r w') ->
  post sh ext w r w'.
Proof.
  intros L1 A1 HE P [[Hr ->]|[-> [l2 [rest2 [L2 [P2 Hok]]]]]].
  - exists l1, (rest1 ++ owed tail (w_heap w3) ext). split; auto. split.
    + rewrite app_assoc, A1. now symmetry.
    + intros E. exfalso. eapply Hr; eauto.
  - rewrite app_nil_r in A1. exists (l2 ++ l1), rest2. split; [now rewrite L2, L1, app_assoc|]. split.
    + rewrite acks_of_app, A1. etransitivity; [|symmetry; exact P].
      rewrite <- app_assoc. etransitivity; [apply Permutation_app_head, Permutation_app_comm|].
      rewrite app_assoc. etransitivity; [apply Permutation_app_tail, P2|]. apply Permutation_app_comm.
    + intros E. destruct (Hok E) as [-> [HE2 [HO [AC E0]]]].
      split; [reflexivity|]. split; [eapply heap_ext_trans; eauto|]. auto.
Qed.

Lemma upd_nth {A} (l : list A) i f l' :
  upd l i f = Some l' ->
  length l' = length l /\
  (exists a, nth_error l i = Some a /\ nth_error l' i = Some (f a)) /\
  (forall q, q <> i -> nth_error l' q = nth_error l q).
Proof.
  revert i l'. induction l as [|a l IH]; intros [|i] l' H; simpl in *; try discriminate.
  - inversion H; subst. repeat split; eauto. intros [|q] Hq; [congruence|reflexivity].
  - destruct (upd l i f) eqn:E; inversion H; subst. destruct (IH _ _ E) as [L [[x [X1 X2]] Q]].
    simpl. repeat split; eauto. intros [|q] Hq; [reflexivity|]. simpl. apply Q. congruence.
Qed.

Lemma nth_error_upd_form {A} (h : list A) r y q :
  r < length h ->
  nth_error (firstn r h ++ y :: skipn (S r) h) q = if q =? r then Some y else nth_error h q.
Proof.
  revert h q. induction r; intros [|a h] q Hlt; simpl in *; try lia; destruct q; simpl; auto.
  apply IHr. lia.
Qed.

Lemma map_snd_combine' {A B} (l : list A) (m : list B) :
  length l = length m -> map snd (combine l m) = m.
Proof.
  revert m. induction l as [|a l IH]; intros [|b m] H; simpl in *; try discriminate; auto.
  f_equal. apply IH. lia.
Qed.

Lemma map_fst_combine' {A B} (l : list A) (m : list B) :
  length l = length m -> map fst (combine l m) = l.
Proof.
  revert m. induction l as [|a l IH]; intros [|b m] H; simpl in *; try discriminate; auto.
  f_equal. apply IH. lia.
Qed.

Lemma map_snd_slice (rl : list (option nat)) (ps : list pos) i j :
  length rl = length ps -> map snd (slice (combine rl ps) i j) = slice ps i j.
Proof.
  intros L. unfold slice. rewrite <- combine_skipn', <- combine_firstn'.
  apply map_snd_combine'. len_simpl. lia.
Qed.

Lemma map_fst_slice (rl : list (option nat)) (ps : list pos) i j :
  length rl = length ps -> map fst (slice (combine rl ps) i j) = slice rl i j.
Proof.
  intros L. unfold slice. rewrite <- combine_skipn', <- combine_firstn'.
  apply map_fst_combine'. len_simpl. lia.
Qed.

Lemma nth_error_skipn' {A} (l : list A) i k : nth_error (skipn i l) k = nth_error l (i + k).
Proof. revert l. induction i; intros l; simpl; auto. destruct l; simpl; auto. now destruct k. Qed.

Lemma Forall_slice_nth {A} (P : A -> Prop) (l : list A) i j :
  (forall k a, i <= k < j -> nth_error l k = Some a -> P a) -> Forall P (slice l i j).
Proof.
  intros H. apply Forall_forall. intros a Ha. apply In_nth_error in Ha. destruct Ha as [k Hk].
  unfold slice in Hk.
  assert (Hk' : k < j - i).
  { assert (X : k < length (firstn (j - i) (skipn i l))) by (apply nth_error_Some; congruence).
    rewrite firstn_length in X. lia. }
  assert (X : nth_error (firstn (j - i) (skipn i l)) k = nth_error (skipn i l) k).
  { clear Hk. generalize (skipn i l). revert k Hk'. generalize (j - i).
    induction n; intros k Hk l0; [lia|]. destruct l0; destruct k; simpl; auto. apply IHn. lia. }
  rewrite X, nth_error_skipn' in Hk. eapply H; [|exact Hk]. lia.
Qed.

Lemma slice_group (rl : list (option nat)) (ps : list pos) i j run :
  length rl = length ps -> (forall k, i <= k < j -> nth_error rl k = Some run) ->
  Forall (fun e : option nat * pos => fst e = run) (slice (combine rl ps) i j).
Proof.
  intros L H. apply Forall_slice_nth. intros k [a p] Hk Hn. simpl.
  specialize (H k Hk). clear - H Hn. revert ps k H Hn.
  induction rl as [|x rl IH]; intros ps k H Hn; destruct k; destruct ps; simpl in *; try discriminate.
  - inversion H; inversion Hn; subst. reflexivity.
  - eapply IH; eauto.
Qed.

(* ---------- runAckNacker.vote ---------- *)

Lemma heap_set_spec r x w res w' :
  heap_set r x w = (res, w') ->
  w_log w' = w_log w /\
  (res = Ok tt ->
   length (w_heap w') = length (w_heap w) /\ nth_error (w_heap w') r = Some x /\
   (forall q, q <> r -> nth_error (w_heap w') q = nth_error (w_heap w) q)).
Proof.
  unfold heap_set. destruct (upd (w_heap w) r (fun _ => x)) eqn:E; intros H; inversion H; subst; simpl.
  - split; auto. intros _. destruct (upd_nth _ _ _ _ E) as [L [[a [A1 A2]] Q]]. auto.
  - split; auto. discriminate.
Qed.

Lemma Forall_entry_ok_len n m sh : n <= m -> Forall (entry_ok n) sh -> Forall (entry_ok m) sh.
Proof.
  intros H. apply Forall_impl. intros [[r|] p]; unfold entry_ok; simpl; auto. lia.
Qed.

Lemma cnt_group_other r q g : Forall (fun e : entry => fst e = r) g -> r <> Some q -> cnt q g = 0.
Proof.
  intros F Hne. unfold cnt. induction F as [|e g He _ IH]; simpl; auto.
  unfold is_run at 1. rewrite He. destruct (opt_nat_eqb r (Some q)) eqn:E; auto.
  apply opt_nat_eqb_eq in E. congruence.
Qed.

Lemma cnt_group_same q g : Forall (fun e : entry => fst e = Some q) g -> cnt q g = length g.
Proof.
  intros F. unfold cnt. induction F as [|e g He _ IH]; simpl; auto.
  unfold is_run at 1. rewrite He. simpl. rewrite Nat.eqb_refl. simpl. auto.
Qed.

Lemma heap_upd_facts h h' q x y :
  nth_error h q = Some x -> length h' = length h -> nth_error h' q = Some y ->
  (forall q', q' <> q -> nth_error h' q' = nth_error h q') ->
  r_origPos y = r_origPos x -> run_ok y -> heap_ok h ->
  heap_ext h h' /\ heap_ok h' /\ (forall q', okey h q' = okey h' q').
Proof.
  intros Hx L Hy Ho Ep Ry HO. split; [|split].
  - split; [lia|]. intros q' z Hz. destruct (Nat.eq_dec q' q) as [->|Hne].
    + exists y. split; auto. rewrite Hx in Hz. inversion Hz; subst. auto.
    + exists z. split; auto. rewrite Ho; auto.
  - unfold heap_ok in *. apply Forall_forall. intros z Hz. apply In_nth_error in Hz. destruct Hz as [q' Hz].
    destruct (Nat.eq_dec q' q) as [->|Hne].
    + rewrite Hy in Hz. inversion Hz; subst z. exact Ry.
    + rewrite Ho in Hz by auto. exact (Forall_nth_error _ _ _ _ HO Hz).
  - intros q'. unfold okey. destruct (Nat.eq_dec q' q) as [->|Hne].
    + rewrite Hx, Hy, Ep. reflexivity.
    + rewrite Ho; auto.
Qed.

Lemma first_run_error_some st :
  st <> [] -> Forall (fun s : status => snd s <> None) st -> first_run_error st <> None.
Proof.
  intros Hne F. destruct st as [|[f [e|]] st]; [congruence| |].
  - simpl. discriminate.
  - inversion F; subst. simpl in *. congruence.
Qed.

Lemma vote_loop_spec c b isAck task ext :
  lens_ok b ->
  (isAck = false -> Forall (fun s : status => snd s <> None) (statuses b)) ->
  forall fuel i w r w',
    vote_loop c b isAck task i fuel w = (r, w') ->
    length (records b) - i <= fuel ->
    Forall (entry_ok (length (w_heap w))) (skipn i (shape_of b)) ->
    acct (skipn i (shape_of b)) (w_heap w) ext -> ext0 (w_heap w) ext -> heap_ok (w_heap w) ->
    post (skipn i (shape_of b)) ext w r w'.
Proof.
  intros L Hst. pose proof (lens_ok_lens2 _ L) as L2'. destruct L as [L1 [L2 [rl [Hrl L3]]]].
  assert (Eb : shape_of b = combine rl (positions b)) by (unfold shape_of, rl_of; now rewrite Hrl).
  assert (Lsh : length (shape_of b) = length (records b)).
  { rewrite Eb. rewrite combine_length. lia. }
  assert (Hdone : forall i w, length (records b) <= i -> acct (skipn i (shape_of b)) (w_heap w) ext ->
                  ext0 (w_heap w) ext -> heap_ok (w_heap w) -> post (skipn i (shape_of b)) ext w (Ok tt) w).
  { intros i w Hi AC E0 HO. rewrite skipn_all2 in * by lia. exists [], []. rewrite owed_nil. simpl.
    repeat split; auto. apply heap_ext_refl. }
  induction fuel as [|f IH]; intros i w r w' H Hf Wsh AC E0 HO; simpl in H.
  { unfold ret in H. inversion H; subst. apply Hdone; auto. lia. }
  destruct (length (records b) <=? i) eqn:Ei.
  { apply Nat.leb_le in Ei. unfold ret in H. inversion H; subst. apply Hdone; auto. }
  apply Nat.leb_gt in Ei.
  (* run_at b i *)
  apply bind_inv_M in H. destruct H as [[run [w1 [H1 H]]]|[H1 Hr]].
  2:{ unfold lift in H1. inversion H1; subst. apply post_fail; auto. exists []; auto. }
  unfold lift in H1. inversion H1; subst w1. clear H1. rename H2 into Hrun.
  unfold run_at in Hrun. rewrite Hrl in Hrun. apply nth_chk_ok in Hrun.
  (* scan_same *)
  apply bind_inv_M in H. destruct H as [[j [w1 [H1 H]]]|[H1 Hr]].
  2:{ unfold lift in H1. inversion H1; subst. apply post_fail; auto. exists []; auto. }
  unfold lift in H1. inversion H1; subst w1. clear H1. rename H2 into Hscan.
  destruct (scan_same_spec _ _ _ Hrl _ _ _ Hscan) as [Hj1 [Hj2 Hj3]]. specialize (Hj2 ltac:(lia)).
  assert (Hgrp : forall k, i <= k < j -> nth_error rl k = Some run).
  { intros k Hk. destruct (Nat.eq_dec k i) as [->|]; auto. apply Hj3. lia. }
  set (g := slice (shape_of b) i j).
  set (tl := skipn j (shape_of b)).
  assert (Esplit : skipn i (shape_of b) = g ++ tl) by (apply skipn_slice; lia).
  assert (Lg : length g = j - i).
  { unfold g, slice. len_simpl. lia. }
  assert (Fg : Forall (fun e : entry => fst e = run) g).
  { unfold g. rewrite Eb. apply slice_group; auto. lia. }
  rewrite Esplit in Wsh, AC |- *. apply Forall_app in Wsh. destruct Wsh as [Wg Wt].
  assert (Hne : g <> []) by (intros E; rewrite E in Lg; simpl in Lg; lia).
  assert (Hfuel : length (records b) - j <= f) by lia.
  destruct run as [q|].
  - (* ---- members of run q ---- *)
    assert (Cq : cnt q g = j - i) by (rewrite cnt_group_same; auto).
    assert (Cother : forall q', q' <> q -> cnt q' g = 0).
    { intros q' Hq'. eapply cnt_group_other; eauto. congruence. }
    assert (Hq : q < length (w_heap w)).
    { destruct g as [|e g']; [congruence|]. inversion Wg; subst. inversion Fg; subst.
      unfold entry_ok in H2. rewrite H4 in H2. exact H2. }
    apply bind_inv_M in H. destruct H as [[x [w1 [H1 H]]]|[H1 Hr]].
    2:{ unfold heap_get in H1. inversion H1; subst. apply post_fail; auto. exists []; auto. }
    unfold heap_get in H1. inversion H1; subst w1. clear H1. rename H2 into Hx. apply nth_chk_ok in Hx.
    destruct (r_released x).
    { unfold fail in H. inversion H; subst. apply post_fail; [discriminate|exists []; auto]. }
    apply bind_inv_M in H. destruct H as [[st [w1 [H1 H]]]|[H1 Hr]].
    2:{ unfold lift in H1. inversion H1; subst. apply post_fail; auto. exists []; auto. }
    unfold lift in H1. inversion H1; subst w1. clear H1. rename H2 into Hslice.
    pose proof (Forall_nth_error _ _ _ _ HO Hx) as [Rx1 Rx2].
    set (x1 := if negb isAck && negb (r_nacked x)
               then mkRun (r_origPos x) (r_origRec x) (r_total x) (r_term x + (j - i)) true (first_run_error st) task false
               else mkRun (r_origPos x) (r_origRec x) (r_total x) (r_term x + (j - i)) (r_nacked x) (r_nackErr x) (r_nackTask x) false) in *.
    assert (X1 : r_origPos x1 = r_origPos x /\ r_total x1 = r_total x /\ r_term x1 = r_term x + (j - i) /\ run_ok x1).
    { unfold x1. destruct (negb isAck && negb (r_nacked x)) eqn:Eb1; simpl; repeat split; auto.
      intros _. apply andb_prop in Eb1. destruct Eb1 as [Ea _]. destruct isAck; [discriminate|].
      apply slice_chk_ok in Hslice. destruct Hslice as [_ [_ ->]].
      apply first_run_error_some.
      - intros E. apply (f_equal (@length _)) in E. revert E. len_simpl. simpl. lia.
      - apply Forall_firstn', Forall_skipn', Hst. reflexivity. }
    destruct X1 as [X1p [X1t [X1m X1ok]]].
    apply bind_inv_M in H. destruct H as [[u [w1 [H1 H]]]|[H1 Hr]].
    2:{ apply heap_set_spec in H1. destruct H1 as [El _]. apply post_fail; auto. exists []. rewrite El. auto. }
    destruct u. apply heap_set_spec in H1. destruct H1 as [El1 Hh1]. destruct (Hh1 eq_refl) as [Ll1 [Hn1 Ho1]]. clear Hh1.
    destruct (r_total x1 <? r_term x1) eqn:Eover.
    { unfold fail in H. inversion H; subst. apply post_fail; [discriminate|exists []; rewrite El1; auto]. }
    apply Nat.ltb_ge in Eover.
    pose proof (AC _ _ Hx) as ACq. rewrite cnt_app, Cq in ACq. fold tl in ACq.
    destruct (heap_upd_facts _ _ _ _ _ Hx Ll1 Hn1 Ho1 X1p X1ok HO) as [HE1 [HO1 Hokey1]].
    assert (AC1 : acct tl (w_heap w1) ext).
    { intros q' y Hy. destruct (Nat.eq_dec q' q) as [->|Hq'].
      - rewrite Hn1 in Hy. inversion Hy; subst y. lia.
      - rewrite Ho1 in Hy by auto. pose proof (AC _ _ Hy) as A. rewrite cnt_app, Cother in A by auto. exact A. }
    assert (Pow : Permutation (owed (g ++ tl) (w_heap w) ext)
                    ((if ext q + cnt q tl =? 0 then [okey (w_heap w) q] else []) ++ owed tl (w_heap w) ext)).
    { etransitivity; [apply owed_app|]. rewrite (owed_run g _ _ q); auto. }
    apply bind_inv_M in H.
    destruct (r_term x1 =? r_total x1) eqn:Ec.
    + (* the run is complete: forward it *)
      apply Nat.eqb_eq in Ec.
      assert (Ez : ext q + cnt q tl = 0) by lia. rewrite Ez in Pow. simpl in Pow.
      set (x2 := mkRun (r_origPos x1) (r_origRec x1) (r_total x1) (r_term x1) (r_nacked x1) (r_nackErr x1) (r_nackTask x1) true) in *.
      assert (X2ok : run_ok x2). { destruct X1ok as [A B]. split; auto. }
      assert (Hfw : forall r2 w2 w3,
                 w_heap w3 = firstn q (w_heap w1) ++ x2 :: skipn (S q) (w_heap w1) -> w_log w3 = w_log w1 ->
                 (if r_nacked x2 then worker_nack c (nack_batch x2) (r_nackTask x2) else worker_ack c (ack_batch x2)) w3 = (r2, w2) ->
                 ackspec [pkey (r_origPos x2)] w3 r2 w2).
      { intros r2 w2 w3 _ _ Hf2. destruct (r_nacked x2) eqn:En.
        - replace [pkey (r_origPos x2)] with (map pkey (positions (nack_batch x2))) by reflexivity.
          eapply worker_nack_spec; eauto.
          + split; reflexivity.
          + constructor; [|constructor]. apply X2ok.
          + constructor; [|constructor]. simpl. apply X2ok. exact En.
        - replace [pkey (r_origPos x2)] with (map pkey (positions (ack_batch x2))) by reflexivity.
          eapply worker_ack_spec; eauto.
          + split; reflexivity.
          + constructor; [|constructor]. apply X2ok. }
      assert (Hset : forall u3 w3, heap_set q x2 w1 = (u3, w3) ->
                 u3 = Ok tt /\ w_log w3 = w_log w1 /\ length (w_heap w3) = length (w_heap w1) /\
                 nth_error (w_heap w3) q = Some x2 /\ (forall q', q' <> q -> nth_error (w_heap w3) q' = nth_error (w_heap w1) q')).
      { intros u3 w3 Hs. unfold heap_set in Hs.
        destruct (upd (w_heap w1) q (fun _ => x2)) eqn:Eu.
        - inversion Hs; subst. simpl. destruct (upd_nth _ _ _ _ Eu) as [A [[a [B1 B2]] C]]. auto.
        - exfalso. assert (q < length (w_heap w1)) by lia.
          clear - Eu H0. revert q Eu H0. induction (w_heap w1) as [|a l IHl]; intros q Eu Hlt; simpl in *; [lia|].
          destruct q; [discriminate|]. destruct (upd l q (fun _ => x2)) eqn:E'; [discriminate|]. eapply IHl; eauto. lia. }
      (* common facts about the heap once x2 is stored *)
      assert (Hafter : forall w3, w_log w3 = w_log w1 -> length (w_heap w3) = length (w_heap w1) ->
                 nth_error (w_heap w3) q = Some x2 ->
                 (forall q', q' <> q -> nth_error (w_heap w3) q' = nth_error (w_heap w1) q') ->
                 heap_ext (w_heap w) (w_heap w3) /\ heap_ok (w_heap w3) /\ acct tl (w_heap w3) ext /\
                 (forall q', okey (w_heap w) q' = okey (w_heap w3) q')).
      { intros w3 _ A B C.
        destruct (heap_upd_facts _ _ _ _ _ Hn1 A B C eq_refl X2ok HO1) as [HE3 [HO3 Hokey3]].
        split; [eapply heap_ext_trans; eauto|]. split; auto. split.
        - intros q' y Hy. destruct (Nat.eq_dec q' q) as [->|Hq'].
          + rewrite B in Hy. inversion Hy; subst y. simpl. lia.
          + rewrite C in Hy by auto. eapply AC1; eauto.
        - intros q'. rewrite Hokey1. apply Hokey3. }
      destruct H as [[u2 [w2 [H2 H]]]|[H2 Hr]].
      * apply bind_inv_M in H2. destruct H2 as [[u3 [w3 [H3 H2]]]|[H3 Hr3]].
        2:{ destruct (Hset _ _ H3) as [E _]. discriminate. }
        destruct (Hset _ _ H3) as [_ [El3 [Ll3 [Hn3 Ho3]]]].
        destruct (Hafter _ El3 Ll3 Hn3 Ho3) as [HE3 [HO3 [AC3 Hokey3]]].
        assert (Hw3 : w_heap w3 = firstn q (w_heap w1) ++ x2 :: skipn (S q) (w_heap w1)).
        { unfold heap_set in H3. destruct (upd (w_heap w1) q (fun _ => x2)) eqn:Eu; inversion H3; subst. simpl.
          destruct (upd_spec _ _ _ _ Eu) as [a [_ ->]]. reflexivity. }
        destruct (Hfw _ _ _ Hw3 El3 H2) as [Eh2 [l2 [rest2 [Lg2 [A2 Hr2]]]]].
        destruct u2. specialize (Hr2 eq_refl). subst rest2.
        eapply post_compose with (w3 := w2) (l1 := l2) (rest1 := []) (full := [pkey (r_origPos x2)]) (tail := tl).
        -- rewrite Lg2, El3, El1. reflexivity.
        -- exact A2.
        -- rewrite Eh2. exact HE3.
        -- rewrite Eh2. etransitivity; [exact Pow|]. simpl. unfold okey at 1. rewrite Hx.
           change (r_origPos x2) with (r_origPos x1). rewrite X1p.
           apply perm_skip. rewrite (owed_heap_eq tl (w_heap w) (w_heap w3)); auto. lia.
        -- right. split; auto. apply IH; auto; rewrite Eh2; auto.
           ++ rewrite Ll3, Ll1. exact Wt.
           ++ intros q' Hq'. apply E0. lia.
      * (* the forward failed *)
        apply bind_inv_M in H2. destruct H2 as [[u3 [w3 [H3 H2]]]|[H3 Hr3]].
        2:{ destruct (Hset _ _ H3) as [E _]. destruct r; discriminate. }
        destruct (Hset _ _ H3) as [_ [El3 [Ll3 [Hn3 Ho3]]]].
        destruct (Hafter _ El3 Ll3 Hn3 Ho3) as [HE3 [HO3 [AC3 Hokey3]]].
        assert (Hw3 : w_heap w3 = firstn q (w_heap w1) ++ x2 :: skipn (S q) (w_heap w1)).
        { unfold heap_set in H3. destruct (upd (w_heap w1) q (fun _ => x2)) eqn:Eu; inversion H3; subst. simpl.
          destruct (upd_spec _ _ _ _ Eu) as [a [_ ->]]. reflexivity. }
        set (rr := match r with Ok _ => OutOfFuel | Refused e => Refused e | Panic s => Panic s | OutOfFuel => OutOfFuel end) in *.
        destruct (Hfw _ _ _ Hw3 El3 H2) as [Eh2 [l2 [rest2 [Lg2 [A2 Hr2]]]]].
        eapply post_compose with (w3 := w') (l1 := l2) (rest1 := rest2) (full := [pkey (r_origPos x2)]) (tail := tl).
        -- rewrite Lg2, El3, El1. reflexivity.
        -- exact A2.
        -- rewrite Eh2. exact HE3.
        -- rewrite Eh2. etransitivity; [exact Pow|]. simpl. unfold okey at 1. rewrite Hx.
           change (r_origPos x2) with (r_origPos x1). rewrite X1p.
           apply perm_skip. rewrite (owed_heap_eq tl (w_heap w) (w_heap w3)); auto. lia.
        -- left. split; auto.
    + (* not complete yet *)
      apply Nat.eqb_neq in Ec.
      assert (Ez : ext q + cnt q tl <> 0) by lia.
      apply Nat.eqb_neq in Ez. rewrite Ez in Pow. simpl in Pow.
      destruct H as [[u2 [w2 [H2 H]]]|[H2 Hr]].
      2:{ unfold ret in H2. destruct r; inversion H2. }
      unfold ret in H2. inversion H2; subst u2 w2. clear H2.
      eapply post_compose with (w3 := w1) (l1 := []) (rest1 := []) (full := []) (tail := tl); auto.
      * simpl. rewrite (owed_heap_eq tl (w_heap w1) (w_heap w)); auto.
      * right. split; auto. apply IH; auto.
        -- rewrite Ll1. exact Wt.
        -- intros q' Hq'. apply E0. lia.
  - (* ---- standalone records ---- *)
    assert (C0 : forall q, cnt q g = 0).
    { intros q. eapply cnt_group_other; eauto. discriminate. }
    assert (AC1 : acct tl (w_heap w) ext).
    { intros q y Hy. pose proof (AC _ _ Hy) as A. rewrite cnt_app, C0 in A. exact A. }
    assert (Pow : Permutation (owed (g ++ tl) (w_heap w) ext)
                              (map (fun e : entry => pkey (snd e)) g ++ owed tl (w_heap w) ext)).
    { etransitivity; [apply owed_app|]. rewrite owed_alone; auto. }
    apply bind_inv_M in H. destruct H as [[sb [w1 [H1 H]]]|[H1 Hr]].
    2:{ unfold lift in H1. inversion H1; subst. apply post_fail; auto. exists []; auto. }
    unfold lift in H1. inversion H1; subst w1. clear H1. rename H2 into Hsub.
    assert (Lb : lens_ok b) by (repeat split; auto; eauto).
    destruct (batch_sub_spec _ _ _ _ Hsub Lb) as [_ [_ [Er [Es [Ep [Esh [_ Lsb]]]]]]].
    assert (Ekeys : map pkey (positions sb) = map (fun e : entry => pkey (snd e)) g).
    { rewrite Ep. unfold g. rewrite Eb. rewrite <- (map_snd_slice rl (positions b) i j) by lia.
      rewrite map_map. reflexivity. }
    assert (Hnn : Forall (fun p : pos => p <> None) (positions sb)).
    { rewrite Ep. rewrite <- (map_snd_slice rl (positions b) i j) by lia. rewrite <- Eb. fold g.
      apply Forall_forall. intros p Hp. apply in_map_iff in Hp. destruct Hp as [e [<- He]].
      rewrite Forall_forall in Wg, Fg. specialize (Wg _ He). specialize (Fg _ He).
      unfold entry_ok in Wg. rewrite Fg in Wg. exact Wg. }
    assert (Hack : forall r1 w1, (if isAck then worker_ack c sb else worker_nack c sb task) w = (r1, w1) ->
                   ackspec (map pkey (positions sb)) w r1 w1).
    { intros r1 w1 Hf1. destruct isAck.
      - eapply worker_ack_spec; eauto. apply lens_ok_lens2; auto.
      - eapply worker_nack_spec; eauto. { apply lens_ok_lens2; auto. }
        rewrite Es. apply Forall_slice. apply Hst. reflexivity. }
    apply bind_inv_M in H. destruct H as [[u [w1 [H1 H]]]|[H1 Hr]].
    + destruct (Hack _ _ H1) as [Eh1 [l1 [rest1 [Lg1 [A1 Hr1]]]]]. destruct u. specialize (Hr1 eq_refl). subst rest1.
      eapply post_compose with (w3 := w1) (l1 := l1) (rest1 := []) (full := map pkey (positions sb)) (tail := tl); auto.
      * rewrite Eh1. apply heap_ext_refl.
      * rewrite Eh1, Ekeys. exact Pow.
      * right. split; auto. apply IH; auto; rewrite Eh1; auto.
    + destruct (Hack _ _ H1) as [Eh1 [l1 [rest1 [Lg1 [A1 Hr1]]]]].
      eapply post_compose with (w3 := w') (l1 := l1) (rest1 := rest1) (full := map pkey (positions sb)) (tail := tl); auto.
      * rewrite Eh1. apply heap_ext_refl.
      * rewrite Eh1, Ekeys. exact Pow.
Qed.
