(* Theorems about the classic-engine models of Funnel/V1.v (C09, v1 half).  All statements are
   unbounded: any number of messages, any reply script, any handler script. *)
From Verif Require Import Base.CaseCheck Funnel.V1.
From Coq Require Import Lia.

Lemma v1key_eqb_eq (a b : v1key) : v1key_eqb a b = true <-> a = b.
Proof.
  revert b. induction a as [|x a IH]; intros [|y b]; simpl; try (split; congruence).
  rewrite andb_true_iff, Nat.eqb_eq, IH. split.
  - intros [-> ->]. reflexivity.
  - intros E. inversion E. auto.
Qed.

Lemma v1key_eqb_refl (a : v1key) : v1key_eqb a a = true.
Proof. apply v1key_eqb_eq. reflexivity. Qed.

(* ====================================================================================== *)
(* ProcessorNode                                                                          *)
(* ====================================================================================== *)

(* the length check of Run guards recsOut[0] *)
Lemma proc_step_no_panic (m : pmsg) : exists d, proc_step m = V1Ok d.
Proof.
  unfold proc_step. destruct (pm_filtered m); [eauto|].
  destruct (map (v1_apply m) (pm_reply m)) as [|r [|r' l]]; simpl; eauto.
Qed.

Theorem v1_processor_no_panic :
  forall (i : nat) (ms : list pmsg), exists o, proc_run i ms = V1Ok o.
Proof.
  intros i ms. revert i. induction ms as [|m ms IH]; intros i; simpl; [eauto|].
  destruct (proc_step_no_panic m) as [d Hd]. rewrite Hd.
  destruct d as [p id fl| |f c]; [| |eauto];
    destruct (IH (S i)) as [[[fw st] t] H]; rewrite H; eauto.
Qed.

Lemma nack_and_stop_stops f rc n : exists f' c', nack_and_stop f rc n = DNackStop f' c'.
Proof. unfold nack_and_stop. destruct (nack_result n rc); eauto. Qed.

(* a message is only ever forwarded with its own position *)
Lemma proc_step_forward_pos (m : pmsg) p id fl :
  proc_step m = V1Ok (DForward p id fl) -> p = pm_pos m.
Proof.
  unfold proc_step. destruct (pm_filtered m).
  - intros H. inversion H. reflexivity.
  - destruct (map (v1_apply m) (pm_reply m)) as [|r [|r' l]]; simpl.
    + destruct (nack_and_stop_stops true false (pm_nack m)) as (f' & c' & E). rewrite E. discriminate.
    + destruct r as [p' id'| | |n|]; simpl.
      * unfold handle_single. destruct (v1key_eqb p' (pm_pos m)) eqn:Ek; simpl.
        -- intros H. inversion H. subst. apply v1key_eqb_eq. exact Ek.
        -- destruct (nack_and_stop_stops false false (pm_nack m)) as (f' & c' & E). rewrite E. discriminate.
      * intros H. inversion H. reflexivity.
      * destruct (nack_result (pm_nack m) false); discriminate.
      * destruct (nack_and_stop_stops true true (pm_nack m)) as (f' & c' & E). rewrite E. discriminate.
      * destruct (nack_and_stop_stops true false (pm_nack m)) as (f' & c' & E). rewrite E. discriminate.
    + destruct (nack_and_stop_stops true false (pm_nack m)) as (f' & c' & E). rewrite E. discriminate.
Qed.

(* what holds of every forwarded record of a run that starts at message index i *)
Definition fwd_inv (i : nat) (ms : list pmsg) (st : list mstat) (f : fwd) : Prop :=
  i <= f_idx f /\
  exists m, nth_error ms (f_idx f - i) = Some m /\ f_pos f = pm_pos m /\
            nth_error st (f_idx f - i) = Some SOpen.

Lemma fwd_inv_shift i m ms s st f : fwd_inv (S i) ms st f -> fwd_inv i (m :: ms) (s :: st) f.
Proof.
  intros (Hle & m' & Hn & Hp & Hs). split; [lia|].
  exists m'. replace (f_idx f - i) with (S (f_idx f - S i)) by lia. simpl. auto.
Qed.

Lemma proc_run_inv :
  forall ms i fw st t, proc_run i ms = V1Ok (fw, st, t) ->
    Forall (fwd_inv i ms st) fw /\ pterm_live t = true.
Proof.
  induction ms as [|m ms IH]; intros i fw st t; simpl.
  - intros H. inversion H. subst. split; [constructor|reflexivity].
  - destruct (proc_step m) as [d|s] eqn:Hd; [|discriminate].
    destruct d as [p id fl| |f c].
    + destruct (proc_run (S i) ms) as [[[fw' st'] t']|s] eqn:Hr; [|discriminate].
      intros H. inversion H. subst. clear H.
      destruct (IH _ _ _ _ Hr) as [Hf Ht]. split; [|exact Ht].
      constructor.
      * split; [simpl; lia|]. exists m. simpl. rewrite Nat.sub_diag. simpl.
        repeat split. apply (proc_step_forward_pos _ _ _ _ Hd).
      * eapply Forall_impl; [|exact Hf]. intros f. apply fwd_inv_shift.
    + destruct (proc_run (S i) ms) as [[[fw' st'] t']|s] eqn:Hr; [|discriminate].
      intros H. inversion H. subst. clear H.
      destruct (IH _ _ _ _ Hr) as [Hf Ht]. split; [|exact Ht].
      eapply Forall_impl; [|exact Hf]. intros f0. apply fwd_inv_shift.
    + intros H. inversion H. subst. split; [constructor|reflexivity].
Qed.

(* every forwarded record carries the position of the message it came from *)
Theorem v1_position_immutable :
  forall (ms : list pmsg) fw st t, proc_run 0 ms = V1Ok (fw, st, t) ->
    Forall (fun f => exists m, nth_error ms (f_idx f) = Some m /\ f_pos f = pm_pos m) fw.
Proof.
  intros ms fw st t H. destruct (proc_run_inv _ _ _ _ _ H) as [Hf _].
  eapply Forall_impl; [|exact Hf]. intros f (_ & m & Hn & Hp & _).
  rewrite Nat.sub_0_r in Hn. eauto.
Qed.

(* a refused (nacked) message is never forwarded: a forwarded message is still open *)
Theorem v1_nacked_never_forwarded :
  forall (ms : list pmsg) fw st t, proc_run 0 ms = V1Ok (fw, st, t) ->
    Forall (fun f => nth_error st (f_idx f) = Some SOpen) fw.
Proof.
  intros ms fw st t H. destruct (proc_run_inv _ _ _ _ _ H) as [Hf _].
  eapply Forall_impl; [|exact Hf]. intros f (_ & m & _ & _ & Hs).
  rewrite Nat.sub_0_r in Hs. exact Hs.
Qed.

(* the model's output always satisfies the property monitor used on the observed runs *)
Theorem v1_proc_model_monitor_ok :
  forall (ms : list pmsg) o, proc_run 0 ms = V1Ok o -> proc_monitor ms o = true.
Proof.
  intros ms [[fw st] t] H. destruct (proc_run_inv _ _ _ _ _ H) as [Hf Ht].
  unfold proc_monitor. rewrite Ht. simpl. apply forallb_forall. intros f Hin.
  rewrite Forall_forall in Hf. destruct (Hf f Hin) as (_ & m & Hn & Hp & Hs).
  rewrite Nat.sub_0_r in Hn, Hs. unfold fwd_ok. rewrite Hn, Hs, Hp, v1key_eqb_refl. reflexivity.
Qed.

(* ====================================================================================== *)
(* DestinationAckerNode                                                                   *)
(* ====================================================================================== *)

(* the finding: one message, one EMPTY Ack() reply: acks[0] panics in the worker goroutine *)
Theorem v1_acker_empty_reply_refuted :
  exists (q : list amsg) (script : list areply), acker_run false q script = V1Panic SiteAcks0.
Proof.
  exists [mkAMsg [1] false false false], [RAcks []]. vm_compute. reflexivity.
Qed.

Definition nonempty_reply (r : areply) : Prop := r <> RAcks [].

Lemma acons_ok s r : (exists o, r = V1Ok o) -> exists o, acons s r = V1Ok o.
Proof. intros [[st t] ->]. simpl. eauto. Qed.

Lemma fetch_nonempty acks script a1 s1 :
  Forall nonempty_reply script -> fetch acks script = FAcks a1 s1 ->
  a1 <> [] /\ Forall nonempty_reply s1.
Proof.
  intros Hs. unfold fetch. destruct acks as [|a acks].
  - destruct script as [|[l|] s]; try discriminate.
    intros H. inversion H. subst. inversion Hs as [|? ? Hne Hs']. subst. split; [|exact Hs'].
    intros ->. apply Hne. reflexivity.
  - intros H. inversion H. subst. split; [discriminate|exact Hs].
Qed.

Lemma acker_worker_no_panic fx :
  forall q acks script, Forall nonempty_reply script ->
    exists o, acker_worker fx q acks script = V1Ok o.
Proof.
  induction q as [|m q IH]; intros acks script Hs; simpl; [eauto|].
  destruct (am_filtered m).
  - destruct (am_ack_err m); [eauto|]. apply acons_ok. apply IH. exact Hs.
  - destruct (fetch acks script) as [a1 s1| |] eqn:Hf; [|eauto|eauto].
    destruct (fetch_nonempty _ _ _ _ Hs Hf) as [Hne Hs1].
    destruct a1 as [|[p e] rest]; [congruence|].
    destruct (negb (v1key_eqb (am_pos m) p)); [eauto|].
    destruct e.
    + destruct (am_nack_err m); [eauto|]. apply acons_ok. apply IH. exact Hs1.
    + destruct (am_ack_err m); [eauto|]. apply acons_ok. apply IH. exact Hs1.
Qed.

(* if no Ack() reply is an empty list the node never panics (any number of messages, any
   positions, any errors, too few or too many acks) *)
Theorem v1_acker_no_panic_nonempty :
  forall fx (q : list amsg) (script : list areply),
    Forall (fun r => r <> RAcks []) script -> exists o, acker_run fx q script = V1Ok o.
Proof. intros fx q script H. apply acker_worker_no_panic. exact H. Qed.

(* the repaired node (an empty reply is refused like any other bad reply) never panics at all *)
Lemma acker_worker_no_panic_repaired :
  forall q acks script, exists o, acker_worker true q acks script = V1Ok o.
Proof.
  induction q as [|m q IH]; intros acks script; simpl; [eauto|].
  destruct (am_filtered m).
  - destruct (am_ack_err m); [eauto|]. apply acons_ok. apply IH.
  - destruct (fetch acks script) as [a1 s1| |] eqn:Hf; [|eauto|eauto].
    destruct a1 as [|[p e] rest]; [eauto|].
    destruct (negb (v1key_eqb (am_pos m) p)); [eauto|].
    destruct e.
    + destruct (am_nack_err m); [eauto|]. apply acons_ok. apply IH.
    + destruct (am_ack_err m); [eauto|]. apply acons_ok. apply IH.
Qed.

Theorem v1_acker_no_panic_repaired :
  forall (q : list amsg) (script : list areply), exists o, acker_run true q script = V1Ok o.
Proof. intros q script. apply acker_worker_no_panic_repaired. Qed.

Lemma all_nacked_ok : forall q strm, acked_ok q (all_nacked q) strm = true.
Proof.
  induction q as [|m q IH]; intros strm; simpl; [reflexivity|].
  destruct (am_filtered m); [apply IH|]. destruct strm; simpl; apply IH.
Qed.

Lemma fetch_stream acks script a1 s1 :
  fetch acks script = FAcks a1 s1 -> acks ++ ack_stream script = a1 ++ ack_stream s1.
Proof.
  unfold fetch. destruct acks as [|a acks].
  - destruct script as [|[l|] s]; try discriminate. intros H. inversion H. subst. reflexivity.
  - intros H. inversion H. subst. reflexivity.
Qed.

Lemma acker_worker_acked_ok fx :
  forall q acks script st t, acker_worker fx q acks script = V1Ok (st, t) ->
    acked_ok q st (acks ++ ack_stream script) = true /\ aterm_live t = true.
Proof.
  induction q as [|m q IH]; intros acks script st t; simpl acker_worker.
  - intros H. inversion H. subst. split; reflexivity.
  - destruct (am_filtered m) eqn:Hfl.
    + destruct (am_ack_err m).
      * intros H. inversion H. subst. simpl. rewrite Hfl. split; [apply all_nacked_ok|reflexivity].
      * destruct (acker_worker fx q acks script) as [[st' t']|s] eqn:Hw; simpl; [|discriminate].
        intros H. inversion H. subst. simpl. rewrite Hfl. apply IH. exact Hw.
    + destruct (fetch acks script) as [a1 s1| |] eqn:Hf.
      * rewrite (fetch_stream _ _ _ _ Hf).
        destruct a1 as [|[p e] rest].
        { destruct fx; [|discriminate]. intros H. inversion H. subst. split; [|reflexivity].
          change (SNacked :: all_nacked q) with (all_nacked (m :: q)). apply all_nacked_ok. }
        destruct (v1key_eqb (am_pos m) p) eqn:Ek; simpl.
        -- destruct e.
           ++ destruct (am_nack_err m).
              ** intros H. inversion H. subst. simpl. rewrite Hfl. simpl.
                 split; [apply all_nacked_ok|reflexivity].
              ** destruct (acker_worker fx q rest s1) as [[st' t']|s] eqn:Hw; simpl; [|discriminate].
                 intros H. inversion H. subst. simpl. rewrite Hfl. simpl. apply IH. exact Hw.
           ++ destruct (am_ack_err m).
              ** intros H. inversion H. subst. simpl. rewrite Hfl, Ek. simpl.
                 split; [apply all_nacked_ok|reflexivity].
              ** destruct (acker_worker fx q rest s1) as [[st' t']|s] eqn:Hw; simpl; [|discriminate].
                 intros H. inversion H. subst. simpl. rewrite Hfl, Ek. simpl. apply IH. exact Hw.
        -- intros H. inversion H. subst. simpl. rewrite Hfl. simpl.
           split; [apply all_nacked_ok|reflexivity].
      * intros H. inversion H. subst. split; [|reflexivity].
        change (SNacked :: all_nacked q) with (all_nacked (m :: q)). apply all_nacked_ok.
      * intros H. inversion H. subst. split; [|reflexivity].
        change (SNacked :: all_nacked q) with (all_nacked (m :: q)). apply all_nacked_ok.
Qed.

(* meaning of the boolean monitor *)
Lemma acked_ok_spec :
  forall q st strm, acked_ok q st strm = true ->
    forall i m, nth_error q i = Some m -> am_filtered m = false ->
      nth_error st i = Some SAcked ->
      nth_error strm (unfiltered_before q i) = Some (am_pos m, false).
Proof.
  induction q as [|m0 q IH]; intros st strm Hok i m Hq Hfl Hst.
  - destruct i; discriminate.
  - destruct st as [|s st]; [destruct i; discriminate|].
    destruct i as [|i]; simpl in *.
    + inversion Hq. subst m0. inversion Hst. subst s. rewrite Hfl in Hok.
      destruct strm as [|[p e] strm]; [discriminate|]. simpl in Hok.
      apply andb_true_iff in Hok. destruct Hok as [Ha _].
      apply andb_true_iff in Ha. destruct Ha as [Hk He].
      apply v1key_eqb_eq in Hk. subst p. destruct e; [discriminate|]. reflexivity.
    + destruct (am_filtered m0).
      * simpl. eapply IH; eauto.
      * destruct strm as [|a strm].
        -- apply andb_true_iff in Hok. destruct Hok as [_ Hok].
           specialize (IH _ _ Hok _ _ Hq Hfl Hst).
           destruct (unfiltered_before q i); discriminate.
        -- apply andb_true_iff in Hok. destruct Hok as [_ Hok]. simpl.
           eapply IH; eauto.
Qed.

(* a message the node acked (other than a filtered one, which it acks by itself) received, in
   order, a positive ack carrying its own position *)
Theorem v1_acker_acked_confirmed :
  forall fx (q : list amsg) (script : list areply) st t i m,
    acker_run fx q script = V1Ok (st, t) ->
    nth_error q i = Some m -> am_filtered m = false -> nth_error st i = Some SAcked ->
    nth_error (ack_stream script) (unfiltered_before q i) = Some (am_pos m, false).
Proof.
  intros fx q script st t i m H Hq Hfl Hst.
  destruct (acker_worker_acked_ok _ _ _ _ _ _ H) as [Hok _]. simpl in Hok.
  eapply acked_ok_spec; eauto.
Qed.

(* ---- the feeding schedule ---- *)

Lemma acker_worker_step fx m q acks script :
  acker_worker fx (m :: q) acks script =
  match acker_step fx m acks script with
  | StPanic => V1Panic SiteAcks0
  | StStop s t => V1Ok (s :: all_nacked q, t)
  | StCont s a sc => acons s (acker_worker fx q a sc)
  end.
Proof.
  unfold acker_step. simpl acker_worker.
  destruct (am_filtered m); [destruct (am_ack_err m); reflexivity|].
  destruct (fetch acks script) as [a1 s1| |]; try reflexivity.
  destruct a1 as [|[p e] rest]; [destruct fx; reflexivity|].
  destruct (negb (v1key_eqb (am_pos m) p)); [reflexivity|].
  destruct e; [destruct (am_nack_err m)|destruct (am_ack_err m)]; reflexivity.
Qed.

(* what one step does to the ack stream and which statuses it hands out *)
Lemma acker_step_cont fx m acks script s a sc :
  acker_step fx m acks script = StCont s a sc ->
  s <> SOpen /\
  (if am_filtered m then a ++ ack_stream sc = acks ++ ack_stream script
   else exists x, acks ++ ack_stream script = x :: (a ++ ack_stream sc)).
Proof.
  unfold acker_step. destruct (am_filtered m).
  - destruct (am_ack_err m); [discriminate|]. intros H. inversion H. subst. split; [discriminate|reflexivity].
  - destruct (fetch acks script) as [a1 s1| |] eqn:Hf; try discriminate.
    rewrite (fetch_stream _ _ _ _ Hf).
    destruct a1 as [|[p e] rest]; [destruct fx; discriminate|].
    destruct (negb (v1key_eqb (am_pos m) p)); [discriminate|].
    destruct e; [destruct (am_nack_err m)|destruct (am_ack_err m)]; try discriminate;
      intros H; inversion H; subst; (split; [discriminate|eexists; reflexivity]).
Qed.

Lemma acker_step_stop fx m acks script s t :
  acker_step fx m acks script = StStop s t ->
  s <> SOpen /\ t <> ATOk /\
  (t = ATErr true -> am_filtered m = false /\ acks = [] /\ script = []).
Proof.
  unfold acker_step. destruct (am_filtered m).
  - destruct (am_ack_err m); [|discriminate]. intros H. inversion H. subst.
    repeat split; try discriminate.
  - destruct (fetch acks script) as [a1 s1| |] eqn:Hf.
    + destruct a1 as [|[p e] rest].
      { destruct fx; [|discriminate]. intros H. inversion H. subst. repeat split; discriminate. }
      destruct (negb (v1key_eqb (am_pos m) p)).
      { intros H. inversion H. subst. repeat split; discriminate. }
      destruct e; [destruct (am_nack_err m)|destruct (am_ack_err m)]; try discriminate;
        intros H; inversion H; subst; repeat split; discriminate.
    + intros H. inversion H. subst. repeat split; discriminate.
    + intros H. inversion H. subst. split; [discriminate|]. split; [discriminate|]. intros _.
      unfold fetch in Hf. destruct acks; [|discriminate]. destruct script as [|[l|] sc]; try discriminate.
      auto.
Qed.

(* schedule independence.  Whatever the grouping of the messages, the node does to them what it
   does when they are all queued before the first reply: the same end of Run, the same acks and
   nacks; only a message that was never handed over is open instead of nacked by teardown. *)
Definition relax (a b : mstat) : Prop := a = b \/ (a = SOpen /\ b = SNacked).

Definition same_run (r r' : v1res aout) : Prop :=
  match r, r' with
  | V1Panic _, V1Panic _ => True
  | V1Ok (st, t), V1Ok (st', t') => t = t' /\ Forall2 relax st st' /\ (t = ATOk -> st = st')
  | _, _ => False
  end.

Lemma Forall2_relax_refl st : Forall2 relax st st.
Proof. induction st; constructor; auto. left. reflexivity. Qed.

Lemma same_run_acons s r r' : same_run r r' -> same_run (acons s r) (acons s r').
Proof.
  destruct r as [[st t]|x], r' as [[st' t']|x']; simpl; auto.
  intros [-> [F E]]. split; [reflexivity|]. split.
  - constructor; [left; reflexivity|exact F].
  - intros H. rewrite (E H). reflexivity.
Qed.

Lemma feed_worker_flat fx und k :
  (forall a s, same_run (k a s) (acker_worker fx und a s)) ->
  forall q acks script,
    same_run (feed_worker fx q und k acks script) (acker_worker fx (q ++ und) acks script).
Proof.
  intros Hk. induction q as [|m q IH]; intros acks script.
  - apply Hk.
  - change ((m :: q) ++ und) with (m :: (q ++ und)). rewrite acker_worker_step. simpl feed_worker.
    destruct (acker_step fx m acks script) as [s a sc|s t|] eqn:Hs.
    + apply same_run_acons. apply IH.
    + destruct (acker_step_stop _ _ _ _ _ _ Hs) as [_ [Ht _]]. simpl.
      split; [reflexivity|]. split; [|intros E; contradiction].
      constructor; [left; reflexivity|]. unfold all_nacked, all_open. rewrite map_app.
      apply Forall2_app; [apply Forall2_relax_refl|].
      clear. induction und; simpl; constructor; auto. right. split; reflexivity.
    + simpl. exact I.
Qed.

Theorem v1_acker_schedule_independent :
  forall fx (ph : list (list amsg)) acks script,
    same_run (acker_feed fx ph acks script) (acker_worker fx (concat ph) acks script).
Proof.
  intros fx. induction ph as [|q rest IH]; intros acks script.
  - simpl. split; [reflexivity|]. split; [constructor|reflexivity].
  - simpl. apply feed_worker_flat. exact IH.
Qed.

(* the node does not panic on the repaired tree, whatever the schedule *)
Theorem v1_acker_feed_no_panic_repaired :
  forall (ph : list (list amsg)) (script : list areply), exists o, acker_feed_run true ph script = V1Ok o.
Proof.
  intros ph script. unfold acker_feed_run.
  pose proof (v1_acker_schedule_independent true ph [] script) as H.
  destruct (acker_worker_no_panic_repaired (concat ph) [] script) as [o' Ho']. rewrite Ho' in H.
  destruct (acker_feed true ph [] script) as [o|x]; [eauto|]. destruct o'. simpl in H. contradiction.
Qed.

Lemma acked_ok_relax :
  forall q st st' strm, Forall2 relax st st' -> acked_ok q st' strm = true -> acked_ok q st strm = true.
Proof.
  induction q as [|m q IH]; intros st st' strm F H; [reflexivity|].
  destruct F as [|s s' st st' R F]; [reflexivity|]. simpl in *.
  destruct (am_filtered m); [eapply IH; eauto|].
  assert (Hs : s = SAcked -> s' = SAcked).
  { destruct R as [->|[-> _]]; [auto|discriminate]. }
  destruct strm as [|a strm]; apply andb_true_iff in H; destruct H as [H1 H2]; apply andb_true_iff; split;
    try (eapply IH; eauto).
  - destruct s; auto. rewrite (Hs eq_refl) in H1. exact H1.
  - destruct s; auto. rewrite (Hs eq_refl) in H1. exact H1.
Qed.

(* a message the node acked received, in order, a positive ack carrying its own position -
   whatever the schedule *)
Theorem v1_acker_feed_acked_confirmed :
  forall fx (ph : list (list amsg)) (script : list areply) st t i m,
    acker_feed_run fx ph script = V1Ok (st, t) ->
    nth_error (concat ph) i = Some m -> am_filtered m = false -> nth_error st i = Some SAcked ->
    nth_error (ack_stream script) (unfiltered_before (concat ph) i) = Some (am_pos m, false).
Proof.
  intros fx ph script st t i m H Hq Hfl Hst. unfold acker_feed_run in H.
  pose proof (v1_acker_schedule_independent fx ph [] script) as S. rewrite H in S.
  destruct (acker_worker fx (concat ph) [] script) as [[st' t']|x] eqn:Hw; [|contradiction].
  destruct S as [_ [F _]].
  destruct (acker_worker_acked_ok _ _ _ _ _ _ Hw) as [Hok _]. simpl in Hok.
  apply (acked_ok_spec (concat ph) st (ack_stream script) (acked_ok_relax _ _ _ _ F Hok) i m Hq Hfl Hst).
Qed.

(* no wedge: the model waits for the destination only while the destination owes an ack *)
Lemma delivered_unf_nacked_open q und :
  delivered_unf (q ++ und) (all_nacked q ++ all_open und) = delivered_unf q (all_nacked q).
Proof.
  induction q as [|m q IH]; simpl.
  - induction und as [|u und IHu]; simpl; [reflexivity|]. destruct (am_filtered u); simpl; exact IHu.
  - rewrite IH. reflexivity.
Qed.

Lemma feed_worker_owes fx und k :
  (forall a s st, k a s = V1Ok (st, ATErr true) -> length (a ++ ack_stream s) < delivered_unf und st) ->
  forall q acks script st,
    feed_worker fx q und k acks script = V1Ok (st, ATErr true) ->
    length (acks ++ ack_stream script) < delivered_unf (q ++ und) st.
Proof.
  intros Hk. induction q as [|m q IH]; intros acks script st; simpl feed_worker.
  - apply Hk.
  - destruct (acker_step fx m acks script) as [s a sc|s t|] eqn:Hs; [| |discriminate].
    + destruct (acker_step_cont _ _ _ _ _ _ _ Hs) as [Hso Hstr].
      destruct (feed_worker fx q und k a sc) as [[st' t']|x] eqn:Hw; simpl; [|discriminate].
      intros H. inversion H. subst. specialize (IH _ _ _ Hw). simpl.
      destruct (am_filtered m).
      * rewrite <- Hstr. simpl. exact IH.
      * destruct Hstr as [x ->]. simpl. destruct s; [contradiction| |]; simpl; lia.
    + intros H. inversion H. subst.
      destruct (acker_step_stop _ _ _ _ _ _ Hs) as [Hso [_ Hex]].
      destruct (Hex eq_refl) as [Hfl [-> ->]]. simpl. rewrite Hfl.
      destruct s; [contradiction| |]; simpl; lia.
Qed.

Theorem v1_acker_waits_only_if_owed :
  forall fx (ph : list (list amsg)) (script : list areply) st,
    acker_feed_run fx ph script = V1Ok (st, ATErr true) ->
    length (ack_stream script) < delivered_unf (concat ph) st.
Proof.
  intros fx ph script st. unfold acker_feed_run.
  change (ack_stream script) with ([] ++ ack_stream script). generalize (@nil dack) as acks.
  revert script st. induction ph as [|q rest IH]; intros script st acks; simpl.
  - discriminate.
  - apply feed_worker_owes. intros a s st0. apply IH.
Qed.

Theorem v1_acker_model_monitor_ok :
  forall fx (ph : list (list amsg)) (script : list areply) o,
    acker_feed_run fx ph script = V1Ok o -> acker_monitor (concat ph) script o = true.
Proof.
  intros fx ph script [st t] H. unfold acker_monitor.
  pose proof (v1_acker_schedule_independent fx ph [] script) as S. unfold acker_feed_run in H. rewrite H in S.
  destruct (acker_worker fx (concat ph) [] script) as [[st' t']|x] eqn:Hw; [|contradiction].
  destruct S as [-> [F _]].
  destruct (acker_worker_acked_ok _ _ _ _ _ _ Hw) as [Hok Ht]. simpl in Hok.
  rewrite Ht, (acked_ok_relax _ _ _ _ F Hok). simpl.
  unfold wedge_ok. destruct t' as [|[|]| |]; try reflexivity.
  apply Nat.ltb_lt. apply (v1_acker_waits_only_if_owed fx). exact H.
Qed.

(* ====================================================================================== *)
(* runSandbox                                                                             *)
(* ====================================================================================== *)

(* the caller always gets an answer, except from a function that never returns under a context
   that is never cancelled; a panic becomes an error (never a crash, never a nil error);
   an effective cancellation returns the context error with an empty response *)
Theorem sandbox_total :
  forall c : scall,
    (sandbox_call c = SWaits <-> sc_block c = BForever /\ sc_cancel c = CNever) /\
    (forall v e, sandbox_call c = SReturns v e ->
       sc_then c = SPanicErr \/ sc_then c = SPanicVal ->
       v = 0 /\ (e = EPanicErr \/ e = EPanicVal \/ e = ECtx)) /\
    (sc_cancel c = CBefore \/ (sc_cancel c = CDuring /\ sc_block c <> BNo) ->
       sandbox_call c = SReturns 0 ECtx).
Proof.
  intros [b t k v r]. unfold sandbox_call, f_result. simpl. split; [|split].
  - split.
    + destruct k, b, t; simpl; intros H; try discriminate; auto.
    + destruct k, b, t; simpl; intros [H1 H2]; try discriminate; reflexivity.
  - intros v0 e H Ht.
    destruct k, b, t; simpl in *; destruct Ht as [Ht|Ht]; try discriminate;
      inversion H; subst; auto.
  - intros [->|[-> Hb]]; [reflexivity|]. destruct b; [congruence| |]; reflexivity.
Qed.

Lemma swaits_ok_model : forall cs, swaits_ok cs (map sandbox_call cs) = true.
Proof.
  induction cs as [|c cs IH]; simpl; [reflexivity|]. rewrite IH, andb_true_r.
  destruct c as [b t k v r]. unfold swait_ok, sandbox_call, f_result. simpl.
  destruct k, b, t; reflexivity.
Qed.

Theorem sandbox_model_monitor_ok :
  forall cs, sandbox_monitor cs (map sandbox_call cs) STOk = true.
Proof.
  intros cs. unfold sandbox_monitor. rewrite map_length, Nat.eqb_refl, swaits_ok_model. reflexivity.
Qed.

Print Assumptions v1_processor_no_panic.
Print Assumptions v1_position_immutable.
Print Assumptions v1_nacked_never_forwarded.
Print Assumptions v1_proc_model_monitor_ok.
Print Assumptions v1_acker_empty_reply_refuted.
Print Assumptions v1_acker_no_panic_nonempty.
Print Assumptions v1_acker_no_panic_repaired.
Print Assumptions v1_acker_acked_confirmed.
Print Assumptions v1_acker_schedule_independent.
Print Assumptions v1_acker_feed_no_panic_repaired.
Print Assumptions v1_acker_feed_acked_confirmed.
Print Assumptions v1_acker_waits_only_if_owed.
Print Assumptions v1_acker_model_monitor_ok.
Print Assumptions sandbox_total.
Print Assumptions sandbox_model_monitor_ok.
