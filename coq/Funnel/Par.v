(* Classic engine (pipeline architecture v1): stream.ParallelNode (a processor with workers > 1)
   around stream.ProcessorNode workers, under malformed processor replies.  Definitions only;
   proofs are in ParProofs.v.

   Modelled, transcribed from pkg/lifecycle/stream/parallel.go as written:
     ParallelNode.Run            takes a message, hands the job to a forwarder (workerJobs) and to
                                 the coordinator (coordinatorJobs); when no worker is left it nacks
                                 the message and returns "no worker is running"; returns the first
                                 error found in errs; on return closes both job channels and waits
     parallelNodeWorker          runWorker (the wrapped ProcessorNode, its error is dropped) and
                                 runForwarder (submits the message, waits for ack / nack / out,
                                 calls job.Done; a forwarder whose node has returned nacks the next
                                 job it receives with "worker not running", calls job.Done and exits)
     parallelNodeCoordinator.Run job.Wait in dispatch order; StatusError -> errs + fail; a message
                                 already acked/nacked is skipped; under fail an open one is nacked;
                                 otherwise it is sent downstream
   The decision of the wrapped ProcessorNode for one message is V1.proc_step (processor.go).

   Which forwarder receives a job is the scheduler's choice: the model is a transition system
   (par_step) and the correspondence check is an acceptor (par_accept) on what the harness
   observed per message: handed over?, did it reach Processor.Process?, status, forwarded how. *)
From Verif Require Export Base.CaseCheck Funnel.V1.

(* what the harness observed about one message *)
Record pobs := mkPO {
  po_handed : bool;      (* the node took it from its inbound channel *)
  po_processed : bool;   (* Processor.Process was called with it *)
  po_status : mstat;
  po_nfwd : nat;         (* how often it appeared on the node's outbound channel *)
  po_fpos : v1key; po_fid : list nat; po_ffilt : bool }.   (* as forwarded (first time) *)

Definition po_none : pobs := mkPO false false SOpen 0 [] [] false.

(* the ProcessorNode's decision; proc_step cannot panic on an unfiltered message (ParProofs) *)
Definition par_dec (m : pmsg) : v1res pdec := proc_step (mkPMsg (pm_pos m) (pm_id m) false (pm_nack m) (pm_reply m)).

Definition nack_ok (m : pmsg) : bool := match pm_nack m with NackOk => true | _ => false end.

(* the node returns after this message although the nack was handled: the worker dies silently *)
Definition dies_quietly (m : pmsg) : bool :=
  match par_dec m with V1Ok (DNackStop _ _) => nack_ok m | _ => false end.

Definition is_forward (m : pmsg) : bool :=
  match par_dec m with V1Ok (DForward _ _ _) => true | _ => false end.

(* the message reaches the coordinator nacked with a failed nack (StatusError <> nil) *)
Definition fails (m : pmsg) (o : pobs) : bool :=
  po_handed o && negb (nack_ok m) && (negb (po_processed o) || negb (is_forward m)).

Definition quiet_death (m : pmsg) (o : pobs) : bool :=
  po_handed o && po_processed o && dies_quietly m.

Definition eaten (o : pobs) : bool := po_handed o && negb (po_processed o).

Definition no_outcome (o : pobs) : bool := mstat_eqb (po_status o) SOpen && Nat.eqb (po_nfwd o) 0.
Definition only_nacked (o : pobs) : bool := mstat_eqb (po_status o) SNacked && Nat.eqb (po_nfwd o) 0.

(* what one message must look like; failed = the coordinator's fail flag when it collects the job *)
Definition expect1 (failed : bool) (m : pmsg) (o : pobs) : bool :=
  if negb (po_handed o) then negb (po_processed o) && no_outcome o
  else if negb (po_processed o) then only_nacked o      (* taken by a forwarder without a node, or by Run *)
  else match par_dec m with
       | V1Ok (DForward p id fl) =>
           if failed then only_nacked o
           else mstat_eqb (po_status o) SOpen && Nat.eqb (po_nfwd o) 1 &&
                v1key_eqb (po_fpos o) p && list_eqb Nat.eqb (po_fid o) id && Bool.eqb (po_ffilt o) fl
       | V1Ok _ => only_nacked o
       | V1Panic _ => false
       end.

Fixpoint expect_all (failed : bool) (ms : list pmsg) (os : list pobs) : bool :=
  match ms, os with
  | [], [] => true
  | m :: ms', o :: os' => expect1 failed m o && expect_all (failed || fails m o) ms' os'
  | _, _ => false
  end.

(* the messages handed over form a prefix *)
Fixpoint handed_prefix (os : list pobs) : bool :=
  match os with
  | [] => true
  | o :: os' => if po_handed o then handed_prefix os' else forallb (fun x => negb (po_handed x)) os'
  end.

Fixpoint count2 (f : pmsg -> pobs -> bool) (ms : list pmsg) (os : list pobs) : nat :=
  match ms, os with
  | m :: ms', o :: os' => (if f m o then 1 else 0) + count2 f ms' os'
  | _, _ => 0
  end.

Definition pterm_is_err (t : pterm) : bool := match t with PTErr _ _ => true | _ => false end.
Definition pterm_is_ok (t : pterm) : bool := match t with PTOk => true | _ => false end.

(* how Run may end.  An error the coordinator put into errs reaches Run's caller only when
   trigger() returns it: what is left in errs when Run leaves its loop is assigned, in the deferred
   function, to a local variable (Run has no named result) and is lost - so with a failed nack and
   the inbound channel closed, Run returns nil or the error.  D workers died quietly, E messages never reached a processor, F failed nacks:
   every forwarder without a node takes at most one job, Run itself nacks at most one message (when
   all workers are gone) and then returns an error *)
Definition term_ok (w : nat) (ms : list pmsg) (os : list pobs) (t : pterm) : bool :=
  let D := count2 quiet_death ms os in
  let E := count2 (fun _ o => eaten o) ms os in
  let F := count2 fails ms os in
  let all_handed := forallb po_handed os in
  if Nat.ltb 0 F then (pterm_is_err t || (pterm_is_ok t && all_handed)) && Nat.leb E (S D)
  else if Nat.leb E D then pterm_is_ok t && all_handed
  else Nat.eqb E (S D) && Nat.eqb D w && pterm_is_err t.

Definition par_accept (w : nat) (ms : list pmsg) (os : list pobs) (closed : bool) (t : pterm) : bool :=
  closed && expect_all false ms os && handed_prefix os && term_ok w ms os t.

(* ---- property monitor ----
   no wedge (Run returned, the outbound channel was closed), no panic; every message handed to the
   node has exactly one outcome: forwarded once, unchanged in position and not nacked, or nacked
   and not forwarded; a message whose reply is malformed is not forwarded; a message not handed
   over has no outcome; Run returns nil only when every message was taken *)
Definition outcome_ok (m : pmsg) (o : pobs) : bool :=
  if po_handed o then
    (Nat.eqb (po_nfwd o) 1 && negb (mstat_eqb (po_status o) SNacked) &&
     v1key_eqb (po_fpos o) (pm_pos m) && is_forward m)
    || only_nacked o
  else no_outcome o.

Fixpoint outcomes_ok (ms : list pmsg) (os : list pobs) : bool :=
  match ms, os with
  | [], [] => true
  | m :: ms', o :: os' => outcome_ok m o && outcomes_ok ms' os'
  | _, _ => false
  end.

Definition par_monitor (ms : list pmsg) (os : list pobs) (closed : bool) (t : pterm) : bool :=
  pterm_live t && closed && outcomes_ok ms os &&
  (if pterm_is_ok t then forallb po_handed os else true).

Inductive parcase :=
| CPar (workers : nat) (ms : list pmsg) (os : list pobs) (closed : bool) (t : pterm).

(* code agree monitor_ok  +  4 when a panic or a hang was observed *)
Definition chk_par (c : parcase) : nat :=
  match c with
  | CPar w ms os closed t =>
      code (par_accept w ms os closed t) (par_monitor ms os closed t)
      + (if pterm_live t then 0 else 4)
  end.

(* ====================================================================================== *)
(* the job protocol as a transition system                                                *)
(* ====================================================================================== *)

(* a dispatched job is held by exactly one forwarder until job.Done meets the coordinator's
   job.Wait:  JBusy = the message was submitted to the node (in <- job.Message);
   JDone after = the forwarder is in job.Done(); afterwards it waits for the next job with its node
   running (Some true) / returned (Some false), or it exits (None) *)
Inductive jst := JBusy | JDone (after : option bool).

Record job := mkJob { j_msg : pmsg; j_st : jst; j_processed : bool; j_nacked : bool }.

Record pst := mkPst {
  s_todo : list pmsg;      (* not yet taken from the inbound channel *)
  s_idle : nat;            (* forwarders waiting for a job, node running *)
  s_dead : nat;            (* forwarders waiting for a job, node returned *)
  s_cq : list job;         (* dispatched, not yet collected, in dispatch order *)
  s_fail : bool;           (* the coordinator's short circuit *)
  s_errs : nat;            (* errors in the errs channel *)
  s_obs : list pobs;       (* collected messages, latest first *)
  s_term : option bool }.  (* Run has left its loop (Some true: with an error) and waits in its
                              deferred function for workers and coordinator *)

Definition par_init (w : nat) (ms : list pmsg) : pst := mkPst ms w 0 [] false 0 [] None.

(* the forwarder after the node dealt with the message *)
Definition after_process (m : pmsg) : job :=
  match par_dec m with
  | V1Ok (DForward _ _ _) => mkJob m (JDone (Some true)) true false
  | V1Ok DNackContinue => mkJob m (JDone (Some true)) true true
  | V1Ok (DNackStop _ _) =>
      if nack_ok m then mkJob m (JDone (Some false)) true true     (* StatusError = nil: goes on *)
      else mkJob m (JDone None) true true                          (* stops accepting jobs *)
  | V1Panic _ => mkJob m (JDone None) true false    (* unreachable: par_dec_no_panic *)
  end.

(* the coordinator collecting a job: observation, new fail flag, errors pushed *)
Definition collect (failed : bool) (j : job) : pobs * bool * nat :=
  let m := j_msg j in
  if j_nacked j then
    if nack_ok m then (mkPO true (j_processed j) SNacked 0 [] [] false, failed, 0)
    else (mkPO true (j_processed j) SNacked 0 [] [] false, true, 1)
  else if failed then
    (mkPO true (j_processed j) SNacked 0 [] [] false, failed, if nack_ok m then 0 else 1)
  else match par_dec m with
       | V1Ok (DForward p id fl) => (mkPO true (j_processed j) SOpen 1 p id fl, failed, 0)
       | _ => (mkPO true (j_processed j) SOpen 0 [] [] false, failed, 0)
       end.

Definition idle_after (a : option bool) (s : pst) : nat * nat :=
  match a with
  | Some true => (S (s_idle s), s_dead s)
  | Some false => (s_idle s, S (s_dead s))
  | None => (s_idle s, s_dead s)
  end.

Inductive par_step : pst -> pst -> Prop :=
(* Run: workerJobs <- job taken by a forwarder whose node runs; coordinatorJobs <- job *)
| PS_dispatch : forall m todo i d cq f e ob,
    par_step (mkPst (m :: todo) (S i) d cq f e ob None)
             (mkPst todo i d (cq ++ [mkJob m JBusy false false]) f e ob None)
(* ... taken by a forwarder whose node has returned: nack "worker not running", job.Done, exit *)
| PS_dispatch_dead : forall m todo i d cq f e ob,
    par_step (mkPst (m :: todo) i (S d) cq f e ob None)
             (mkPst todo i d (cq ++ [mkJob m (JDone None) false true]) f e ob None)
(* Run: no worker is running (every forwarder exited and, the coordinator queue being empty, no
   forwarder holds a job): nack the message, return an error *)
| PS_no_worker : forall m todo f e ob,
    par_step (mkPst (m :: todo) 0 0 [] f e ob None)
             (mkPst todo 0 0 [] f e (mkPO true false SNacked 0 [] [] false :: ob) (Some true))
(* the wrapped node deals with the message *)
| PS_process : forall todo i d cq1 cq2 j f e ob t,
    j_st j = JBusy ->
    par_step (mkPst todo i d (cq1 ++ j :: cq2) f e ob t)
             (mkPst todo i d (cq1 ++ after_process (j_msg j) :: cq2) f e ob t)
(* job.Done meets job.Wait at the head of the coordinator's queue *)
| PS_collect : forall todo i d j a cq f e ob t,
    j_st j = JDone a ->
    par_step (mkPst todo i d (j :: cq) f e ob t)
             (let '(o, f', k) := collect f j in
              let '(i', d') := idle_after a (mkPst todo i d cq f e ob t) in
              mkPst todo i' d' cq f' (k + e) (o :: ob) t)
(* Run: trigger returns an error from errs *)
| PS_run_err : forall todo i d cq f e ob,
    par_step (mkPst todo i d cq f (S e) ob None)
             (mkPst todo i d cq f e ob (Some true))
(* Run: the inbound channel is closed *)
| PS_run_end : forall i d cq f e ob,
    par_step (mkPst [] i d cq f e ob None)
             (mkPst [] i d cq f e ob (Some false)).

(* Run has returned and the deferred coordinatorWg.Wait() is through: nothing is in flight *)
Definition par_terminal (s : pst) : Prop := s_term s <> None /\ s_cq s = [].

Inductive par_reach (w : nat) (ms : list pmsg) : pst -> Prop :=
| PR_init : par_reach w ms (par_init w ms)
| PR_step : forall s s', par_reach w ms s -> par_step s s' -> par_reach w ms s'.

(* what Run returns: errors left in errs when the loop ends are dropped by the deferred function
   (it assigns them to a local variable, Run has no named result) *)
Definition par_final_term (s : pst) : pterm :=
  match s_term s with
  | Some false => PTOk
  | Some true => PTErr false false
  | None => PTHang
  end.

(* the observation of a terminal state: collected messages in order, the rest never handed over *)
Definition par_final_obs (s : pst) : list pobs := rev (s_obs s) ++ map (fun _ => po_none) (s_todo s).

(* steps still to go: bounds the length of every execution *)
Definition job_weight (j : job) : nat := match j_st j with JBusy => 2 | JDone _ => 1 end.
Definition par_measure (s : pst) : nat :=
  3 * length (s_todo s) + list_sum (map job_weight (s_cq s)) +
  match s_term s with None => 1 | Some _ => 0 end.
