(* C08 mark_results_aligned, the composition (repaired tree, fx_unfilter = true).

   ProcessorTask.Do and DestinationTask.Do apply the results of a reply from the LAST to the FIRST,
   each through an index into the ACTIVE (not filtered) records of the batch as it is at that
   moment.  "Result i lands on the i-th active record" therefore needs, besides what each single
   operation does (AlignProofs.v), the composition fact proved here: an operation at active index
   >= k touches nothing that lies physically before the k-th active record - no record, no
   position, not the filter flag of any status (a nack may spread FNack over not-filtered members
   of the same split run, by design) - so every lower active index still resolves to the same
   physical record, which still holds what the source / the previous task put there. *)
From Coq Require Import Lia List.
Import ListNotations.
From Verif Require Import Funnel.Tasks Funnel.BatchProofs Funnel.LedgerProofs Funnel.DestProofs Funnel.ProcProofs
     Funnel.AlignProofs Funnel.TaskProofs.

(* a status is left alone, or a not-filtered status became a nack *)
Definition srel (s s' : status) : Prop := s' = s \/ (is_filter s = false /\ fst s' = FNack).

Definition exactfc (b : batch) : Prop := filterCount b = count_filter (statuses b).

(* the physical index of the k-th active record (the length when there is none) *)
Definition cut (st : list status) (k : nat) : nat := nth k (idx_active st 0) (length st).

Record pre_same (X : nat) (b b' : batch) : Prop := mkPS {
  ps_rec : firstn X (records b') = firstn X (records b);
  ps_pos : firstn X (positions b') = firstn X (positions b);
  ps_st : Forall2 srel (firstn X (statuses b)) (firstn X (statuses b')) }.

(* ---------- srel ---------- *)

Lemma srel_refl s : srel s s. Proof. left. reflexivity. Qed.

Lemma srel_trans a b c : srel a b -> srel b c -> srel a c.
Proof.
  intros [->|[F N]] [->|[F' N']].
  - left. reflexivity.
  - right. auto.
  - right. auto.
  - right. auto.
Qed.

Lemma srel_is_filter s s' : srel s s' -> is_filter s' = is_filter s.
Proof.
  intros [->|[F N]]; [reflexivity|]. rewrite F. unfold is_filter. rewrite N. reflexivity.
Qed.

Lemma Forall2_srel_refl l : Forall2 srel l l.
Proof. induction l; constructor; auto using srel_refl. Qed.

Lemma Forall2_srel_trans l1 : forall l2 l3, Forall2 srel l1 l2 -> Forall2 srel l2 l3 -> Forall2 srel l1 l3.
Proof.
  induction l1 as [|a l1 IH]; intros l2 l3 H1 H2; inversion H1; subst; inversion H2; subst; constructor.
  - eapply srel_trans; eauto.
  - eapply IH; eauto.
Qed.

Lemma Forall2_srel_fpat l l' : Forall2 srel l l' -> fpat l' = fpat l.
Proof.
  induction 1 as [|s s' l l' R _ IH]; [reflexivity|]. unfold fpat in *. simpl.
  rewrite (srel_is_filter _ _ R), IH. reflexivity.
Qed.

Lemma Forall2_firstn {A B} (R : A -> B -> Prop) n : forall l l', Forall2 R l l' -> Forall2 R (firstn n l) (firstn n l').
Proof.
  induction n as [|n IH]; intros l l' H; simpl; [constructor|].
  destruct H; constructor; auto.
Qed.

Lemma Forall2_app_srel l1 l1' l2 l2' : Forall2 srel l1 l1' -> Forall2 srel l2 l2' -> Forall2 srel (l1 ++ l2) (l1' ++ l2').
Proof. intros. apply Forall2_app; auto. Qed.

Lemma Forall2_length' {A B} (R : A -> B -> Prop) l l' : Forall2 R l l' -> length l = length l'.
Proof. induction 1; simpl; auto. Qed.

(* ---------- pre_same ---------- *)

Lemma pre_same_refl X b : pre_same X b b.
Proof. constructor; auto. apply Forall2_srel_refl. Qed.

Lemma firstn_firstn_le {A} (l : list A) X X' : X' <= X -> firstn X' (firstn X l) = firstn X' l.
Proof. intros H. rewrite firstn_firstn. f_equal. lia. Qed.

Lemma pre_same_trans X X' b b1 b2 :
  X' <= X -> pre_same X b b1 -> pre_same X' b1 b2 -> pre_same X' b b2.
Proof.
  intros Hle [R1 P1 S1] [R2 P2 S2]. constructor.
  - rewrite R2. rewrite <- (firstn_firstn_le (records b1) X X' Hle), R1. now apply firstn_firstn_le.
  - rewrite P2. rewrite <- (firstn_firstn_le (positions b1) X X' Hle), P1. now apply firstn_firstn_le.
  - eapply Forall2_srel_trans; [|exact S2].
    rewrite <- (firstn_firstn_le (statuses b) X X' Hle), <- (firstn_firstn_le (statuses b1) X X' Hle).
    apply Forall2_firstn. exact S1.
Qed.

(* everything: the whole lists are related *)
Lemma pre_same_of_all X b b' :
  records b' = records b -> positions b' = positions b -> Forall2 srel (statuses b) (statuses b') ->
  pre_same X b b'.
Proof. intros R P S. constructor; [now rewrite R|now rewrite P|now apply Forall2_firstn]. Qed.

(* ---------- cut ---------- *)

Lemma cut_le st k : cut st k <= length st.
Proof.
  unfold cut. destruct (nth_error (idx_active st 0) k) as [x|] eqn:E.
  - rewrite (nth_error_nth _ _ _ E). apply nth_idx_active_bound in E. lia.
  - rewrite nth_overflow by (now apply nth_error_None). lia.
Qed.

Lemma nf_firstn_cut st f : f <= nf st -> nf (firstn (cut st f) st) = f.
Proof.
  intros H. destruct (Nat.eq_dec f (nf st)) as [->|Hne].
  - unfold cut. rewrite nth_overflow by (unfold nf; lia). now rewrite firstn_all.
  - destruct (active_split st f ltac:(lia)) as [pre [s [post [E1 [E2 [E3 E4]]]]]].
    unfold cut. rewrite (nth_error_nth _ _ _ E4). rewrite E1.
    rewrite firstn_app, firstn_all, Nat.sub_diag. simpl. now rewrite app_nil_r.
Qed.

(* an active index that lies inside an untouched prefix resolves as before *)
Lemma cut_pre st0 st X i :
  Forall2 srel (firstn X st0) (firstn X st) -> i < nf (firstn X st0) ->
  cut st i = cut st0 i /\ cut st0 i < X /\ nth_error (idx_active st 0) i = Some (cut st0 i)
  /\ nth_error (idx_active st0 0) i = Some (cut st0 i).
Proof.
  intros F Hi. pose proof (Forall2_srel_fpat _ _ F) as Fp.
  pose proof (idx_active_fpat _ _ Fp 0) as Ea.
  assert (D0 : idx_active st0 0 = idx_active (firstn X st0) 0 ++ idx_active (skipn X st0) (0 + length (firstn X st0))).
  { rewrite <- idx_active_app, firstn_skipn. reflexivity. }
  assert (D1 : idx_active st 0 = idx_active (firstn X st) 0 ++ idx_active (skipn X st) (0 + length (firstn X st))).
  { rewrite <- idx_active_app, firstn_skipn. reflexivity. }
  unfold nf in Hi.
  destruct (nth_error (idx_active (firstn X st0) 0) i) as [x|] eqn:Ex; [|apply nth_error_None in Ex; lia].
  assert (N0 : nth_error (idx_active st0 0) i = Some x).
  { rewrite D0, nth_error_app1 by lia. exact Ex. }
  assert (N1 : nth_error (idx_active st 0) i = Some x).
  { rewrite D1, Ea, nth_error_app1 by lia. exact Ex. }
  assert (C0 : cut st0 i = x) by (unfold cut; now rewrite (nth_error_nth _ _ _ N0)).
  assert (C1 : cut st i = x) by (unfold cut; now rewrite (nth_error_nth _ _ _ N1)).
  rewrite C0, C1. repeat split; auto.
  apply nth_error_In, idx_active_bound in Ex. rewrite firstn_length in Ex. lia.
Qed.

Lemma cut_mono st i j : i <= j -> cut st i <= cut st j.
Proof.
  intros H. unfold cut.
  destruct (nth_error (idx_active st 0) j) as [y|] eqn:Ej.
  - destruct (nth_error (idx_active st 0) i) as [x|] eqn:Ei.
    + rewrite (nth_error_nth _ _ _ Ei), (nth_error_nth _ _ _ Ej).
      destruct (Nat.eq_dec i j) as [->|Hne]; [rewrite Ei in Ej; inversion Ej; lia|].
      pose proof (idx_active_lt st 0 i j x y ltac:(lia) Ei Ej). lia.
    + apply nth_error_None in Ei. assert (nth_error (idx_active st 0) j <> None) by congruence.
      apply nth_error_Some in H0. lia.
  - rewrite (nth_overflow _ _ (proj1 (nth_error_None _ _) Ej)). apply cut_le.
Qed.

(* ---------- resolving active indices ---------- *)

Lemma count_filter_fpat st st' : fpat st' = fpat st -> count_filter st' = count_filter st.
Proof.
  unfold count_filter. revert st'. induction st as [|s l IH]; intros [|s' st'] F; simpl in *; try discriminate; auto.
  inversion F. rewrite H0. destruct (is_filter s); simpl; auto.
Qed.

Lemma phys_nth b a j x :
  exactfc b -> active_idx b = Ok a -> phys a j = Ok x -> x < length (statuses b) ->
  nth_error (idx_active (statuses b) 0) j = Some x.
Proof.
  unfold exactfc, active_idx. intros Hfc Ha Hp Hx.
  destruct (filterCount b =? 0) eqn:E0.
  - apply Nat.eqb_eq in E0. inversion Ha; subst a. simpl in Hp. inversion Hp; subst x.
    rewrite E0 in Hfc. symmetry in Hfc. rewrite (idx_active_all _ Hfc).
    rewrite nth_error_nth' with (d := 0) by (rewrite seq_length; lia). now rewrite seq_nth by lia.
  - destruct (length (records b) <? filterCount b); [discriminate|]. inversion Ha; subst a.
    simpl in Hp. now apply nth_chk_ok in Hp.
Qed.

Lemma phys_ge_cut b a k j x :
  exactfc b -> active_idx b = Ok a -> k <= j -> phys a j = Ok x -> x < length (statuses b) ->
  cut (statuses b) k <= x.
Proof.
  intros Hfc Ha Hk Hp Hx. pose proof (phys_nth _ _ _ _ Hfc Ha Hp Hx) as N.
  assert (cut (statuses b) j = x) by (unfold cut; now rewrite (nth_error_nth _ _ _ N)).
  rewrite <- H. now apply cut_mono.
Qed.

Lemma phys_nonfilter b a j x :
  exactfc b -> active_idx b = Ok a -> phys a j = Ok x -> x < length (statuses b) ->
  nth_error (fpat (statuses b)) x = Some false.
Proof.
  intros Hfc Ha Hp Hx. pose proof (phys_nth _ _ _ _ Hfc Ha Hp Hx) as N.
  apply nth_error_In in N. destruct (idx_active_nonfilter _ _ _ N) as [s [A [B _]]].
  rewrite Nat.sub_0_r in A. rewrite (nth_fpat _ _ _ A), B. reflexivity.
Qed.

Lemma phys_inj b a j j' x :
  exactfc b -> active_idx b = Ok a -> phys a j = Ok x -> phys a j' = Ok x -> x < length (statuses b) -> j = j'.
Proof.
  intros Hfc Ha H1 H2 Hx.
  pose proof (phys_nth _ _ _ _ Hfc Ha H1 Hx) as N1. pose proof (phys_nth _ _ _ _ Hfc Ha H2 Hx) as N2.
  destruct (Nat.lt_trichotomy j j') as [L|[E|L]]; auto.
  - pose proof (idx_active_lt _ _ _ _ _ _ L N1 N2). lia.
  - pose proof (idx_active_lt _ _ _ _ _ _ L N2 N1). lia.
Qed.

(* ---------- setFlagNoErr: Ack / Retry / Filter ---------- *)

Lemma upd_chk_firstn {A} (l : list A) i g s l' X :
  upd_chk l i g s = Ok l' -> X <= i -> firstn X l' = firstn X l.
Proof.
  intros H Hx. apply upd_chk_ok in H. destruct H as [a [Ha ->]].
  assert (i < length l) by (apply nth_error_Some; congruence).
  rewrite firstn_app, firstn_firstn, firstn_length. replace (Nat.min X i) with X by lia.
  replace (X - Nat.min i (length l)) with 0 by lia. simpl. now rewrite app_nil_r.
Qed.

Lemma set_flags_firstn a f X L : forall n st k st',
  length st = L ->
  (forall j x, k <= j -> phys a j = Ok x -> x < L -> X <= x) ->
  set_flags st a f k n = Ok st' -> firstn X st' = firstn X st.
Proof.
  induction n as [|n IH]; intros st k st' HL Hge H; simpl in H.
  - inversion H; subst; auto.
  - bind_inv H idx Hi. bind_inv H st1 Hu.
    pose proof (upd_chk_length _ _ _ _ _ Hu) as L1.
    assert (idx < L).
    { pose proof Hu as Hu'. apply upd_chk_ok in Hu'. destruct Hu' as [x [Hx _]]. rewrite <- HL. apply nth_error_Some. congruence. }
    assert (F2 : firstn X st' = firstn X st1).
    { apply (IH st1 (S k) st'); [lia|intros j x Hj; apply Hge; lia|exact H]. }
    rewrite F2. eapply upd_chk_firstn; [exact Hu|]. eapply Hge; eauto.
Qed.

Lemma set_flag_noerr_pre b f i j b' :
  exactfc b -> set_flag_noerr b f i j = Ok b' -> pre_same (cut (statuses b) i) b b'.
Proof.
  intros Hfc H. pose proof (set_flag_noerr_spec _ _ _ _ _ H) as [[Hp _] [_ [Hr _]]].
  unfold set_flag_noerr in H. bind_inv H a Ha.
  assert (G : forall n st', set_flags (statuses b) a f i n = Ok st' ->
              firstn (cut (statuses b) i) st' = firstn (cut (statuses b) i) (statuses b)).
  { intros n st' Hs. eapply set_flags_firstn; [reflexivity| |exact Hs].
    intros j0 x Hj Hph Hx. eapply phys_ge_cut; eauto. }
  constructor; [now rewrite Hr|now rewrite Hp|].
  destruct j as [j|].
  - destruct (j <=? i); [discriminate|]. bind_inv H st Hs. inversion H; subst b'. simpl.
    rewrite (G _ _ Hs). apply Forall2_srel_refl.
  - bind_inv H st Hs. inversion H; subst b'. simpl. rewrite (G _ _ Hs). apply Forall2_srel_refl.
Qed.

Lemma set_flags_fpat a f L : flag_eqb f FFilter = false -> forall n st k st',
  length st = L ->
  (forall j x, phys a j = Ok x -> x < L -> nth_error (fpat st) x = Some false) ->
  set_flags st a f k n = Ok st' -> fpat st' = fpat st.
Proof.
  intros Hf. induction n as [|n IH]; intros st k st' HL Hn H; simpl in H.
  - inversion H; subst; auto.
  - bind_inv H idx Hi. bind_inv H st1 Hu.
    pose proof (upd_chk_length _ _ _ _ _ Hu) as L1.
    assert (Hidx : idx < L).
    { pose proof Hu as Hu'. apply upd_chk_ok in Hu'. destruct Hu' as [x [Hx _]]. rewrite <- HL. apply nth_error_Some. congruence. }
    assert (F1 : fpat st1 = fpat st).
    { eapply upd_keeps_fpat; [exact Hu|]. intros x Hx. pose proof (Hn _ _ Hi Hidx) as Hnf.
      rewrite (nth_fpat _ _ _ Hx) in Hnf. inversion Hnf as [E]. rewrite E. unfold is_filter. simpl. exact Hf. }
    assert (F2 : fpat st' = fpat st1).
    { apply (IH st1 (S k) st'); [lia|intros j x Hp Hx; rewrite F1; eapply Hn; eauto|exact H]. }
    now rewrite F2.
Qed.

Lemma count_filter_app l1 l2 : count_filter (l1 ++ l2) = count_filter l1 + count_filter l2.
Proof. unfold count_filter. now rewrite filter_app, app_length. Qed.

Lemma set_flags_filter_count a L : forall n st k st',
  length st = L ->
  (forall j x, k <= j -> phys a j = Ok x -> x < L -> nth_error (fpat st) x = Some false) ->
  (forall j j' x, phys a j = Ok x -> phys a j' = Ok x -> x < L -> j = j') ->
  set_flags st a FFilter k n = Ok st' -> count_filter st' = count_filter st + n.
Proof.
  induction n as [|n IH]; intros st k st' HL Hn Hinj H; simpl in H.
  - inversion H; subst; lia.
  - bind_inv H idx Hi. bind_inv H st1 Hu.
    pose proof (upd_chk_length _ _ _ _ _ Hu) as L1.
    pose proof Hu as Hu'. apply upd_chk_ok in Hu'. destruct Hu' as [s0 [Hs0 E1]].
    assert (Hidx : idx < L) by (rewrite <- HL; apply nth_error_Some; congruence).
    pose proof (Hn _ _ (Nat.le_refl k) Hi Hidx) as Hnf. rewrite (nth_fpat _ _ _ Hs0) in Hnf. inversion Hnf as [Ef].
    assert (C1 : count_filter st1 = count_filter st + 1).
    { destruct (list_split_at _ _ _ Hs0) as [Est _]. rewrite E1.
      remember (firstn idx st) as A eqn:EA. remember (skipn (S idx) st) as B eqn:EB. rewrite Est.
      rewrite !count_filter_app. unfold count_filter. simpl. rewrite Ef.
      unfold is_filter. simpl. lia. }
    assert (C2 : count_filter st' = count_filter st1 + n); [|lia].
    apply (IH st1 (S k) st'); [lia| |exact Hinj|exact H].
    intros j x Hj Hp Hx. assert (x <> idx).
    { intros ->. pose proof (Hinj _ _ _ Hp Hi Hx). lia. }
    unfold fpat. rewrite nth_error_map. subst st1.
    rewrite nth_error_upd_form by (rewrite HL; exact Hidx).
    destruct (Nat.eqb_spec x idx); [congruence|].
    pose proof (Hn j x ltac:(lia) Hp Hx) as Hq. unfold fpat in Hq. rewrite nth_error_map in Hq. exact Hq.
Qed.

Lemma batch_ack_exact b i j b' : exactfc b -> batch_ack b i j = Ok b' -> exactfc b'.
Proof.
  unfold batch_ack. intros Hfc H. pose proof (set_flag_noerr_spec _ _ _ _ _ H) as [_ [_ [_ [Hc _]]]].
  unfold set_flag_noerr in H. bind_inv H a Ha.
  assert (G : forall n st', set_flags (statuses b) a FAck i n = Ok st' -> count_filter st' = count_filter (statuses b)).
  { intros n st' Hs. apply count_filter_fpat. eapply (set_flags_fpat a FAck (length (statuses b)) eq_refl); [reflexivity| |exact Hs].
    intros j0 x Hp Hx. eapply phys_nonfilter; eauto. }
  unfold exactfc. rewrite Hc. destruct j as [j|].
  - destruct (j <=? i); [discriminate|]. bind_inv H st Hs. inversion H; subst b'. simpl. now rewrite (G _ _ Hs).
  - bind_inv H st Hs. inversion H; subst b'. simpl. now rewrite (G _ _ Hs).
Qed.

Lemma batch_retry_exact b i j b' : exactfc b -> batch_retry b i j = Ok b' -> exactfc b'.
Proof.
  unfold batch_retry. intros Hfc H. bind_inv H b1 H1. inversion H; subst b'.
  pose proof (set_flag_noerr_spec _ _ _ _ _ H1) as [_ [_ [_ [Hc _]]]].
  unfold set_flag_noerr in H1. bind_inv H1 a Ha.
  assert (G : forall n st', set_flags (statuses b) a FRetry i n = Ok st' -> count_filter st' = count_filter (statuses b)).
  { intros n st' Hs. apply count_filter_fpat. eapply (set_flags_fpat a FRetry (length (statuses b)) eq_refl); [reflexivity| |exact Hs].
    intros j0 x Hp Hx. eapply phys_nonfilter; eauto. }
  unfold exactfc. simpl. rewrite Hc. destruct j as [j|].
  - destruct (j <=? i); [discriminate|]. bind_inv H1 st Hs. inversion H1; subst b1. simpl. now rewrite (G _ _ Hs).
  - bind_inv H1 st Hs. inversion H1; subst b1. simpl. now rewrite (G _ _ Hs).
Qed.

Lemma batch_filter_exact b i j b' : exactfc b -> batch_filter b i j = Ok b' -> exactfc b'.
Proof.
  unfold batch_filter. intros Hfc H. bind_inv H b1 H1. inversion H; subst b'.
  pose proof (set_flag_noerr_spec _ _ _ _ _ H1) as [_ [_ [_ [Hc _]]]].
  unfold set_flag_noerr in H1. bind_inv H1 a Ha.
  assert (G : forall n st', set_flags (statuses b) a FFilter i n = Ok st' -> count_filter st' = count_filter (statuses b) + n).
  { intros n st' Hs. eapply set_flags_filter_count; [reflexivity| | |exact Hs].
    - intros j0 x _ Hp Hx. eapply phys_nonfilter; eauto.
    - intros j0 j1 x Hp0 Hp1 Hx. eapply phys_inj; eauto. }
  unfold exactfc. simpl. rewrite Hc. destruct j as [j|].
  - destruct (j <=? i) eqn:Ej; [discriminate|]. apply Nat.leb_gt in Ej.
    bind_inv H1 st Hs. inversion H1; subst b1. simpl. rewrite (G _ _ Hs). unfold exactfc in Hfc. lia.
  - bind_inv H1 st Hs. inversion H1; subst b1. simpl. rewrite (G _ _ Hs). unfold exactfc in Hfc. lia.
Qed.

Lemma batch_retry_pre b i j b' : exactfc b -> batch_retry b i j = Ok b' -> pre_same (cut (statuses b) i) b b'.
Proof.
  unfold batch_retry. intros Hfc H. bind_inv H b1 H1. inversion H; subst b'.
  destruct (set_flag_noerr_pre _ _ _ _ _ Hfc H1) as [R P S]. constructor; auto.
Qed.

Lemma batch_filter_pre b i j b' : exactfc b -> batch_filter b i j = Ok b' -> pre_same (cut (statuses b) i) b b'.
Proof.
  unfold batch_filter. intros Hfc H. bind_inv H b1 H1. inversion H; subst b'.
  destruct (set_flag_noerr_pre _ _ _ _ _ Hfc H1) as [R P S]. constructor; auto.
Qed.

(* ---------- SetRecords ---------- *)

Lemma firstn_ext {A} X : forall (l l' : list A),
  length l' = length l -> (forall x, x < X -> nth_error l' x = nth_error l x) -> firstn X l' = firstn X l.
Proof.
  induction X as [|X IH]; intros l l' HL H; [reflexivity|].
  destruct l as [|a l], l' as [|a' l']; simpl in *; try discriminate; auto.
  pose proof (H 0 ltac:(lia)) as H0. simpl in H0. inversion H0; subst. f_equal.
  apply IH; [lia|]. intros x Hx. apply (H (S x)). lia.
Qed.

Lemma batch_set_records_pre b i recs b' :
  lens2 b -> exactfc b -> i + length recs <= nf (statuses b) ->
  batch_set_records b i recs = Ok b' ->
  pre_same (cut (statuses b) i) b b' /\ exactfc b'.
Proof.
  intros HL Hfc Hi H.
  pose proof (batch_set_records_spec _ _ _ _ H) as [[Hp _] [Hs [Hc _]]].
  destruct (set_records_aligned _ _ _ _ HL Hfc Hi H) as [_ [_ [_ [Hlen [_ Hother]]]]].
  split; [|unfold exactfc; now rewrite Hs, Hc].
  constructor; [|now rewrite Hp|rewrite Hs; apply Forall2_srel_refl].
  apply firstn_ext; [exact Hlen|]. intros x Hx. apply Hother. intros j Hj N.
  assert (cut (statuses b) (i + j) = x) by (unfold cut; now rewrite (nth_error_nth _ _ _ N)).
  pose proof (cut_mono (statuses b) i (i + j) ltac:(lia)). lia.
Qed.

(* ---------- Nack (repaired) ---------- *)

Lemma upd_srel st idx s e :
  nth_error st idx = Some s -> is_filter s = false ->
  Forall2 srel st (firstn idx st ++ (FNack, Some e) :: skipn (S idx) st).
Proof.
  intros Hs Hf. destruct (list_split_at _ _ _ Hs) as [E _]. rewrite E at 1.
  apply Forall2_app; [apply Forall2_srel_refl|]. constructor; [|apply Forall2_srel_refl].
  right. split; auto.
Qed.

Lemma set_status_range_skip_srel e : forall n st k st',
  set_status_range_skip st (FNack, Some e) k n = Ok st' -> Forall2 srel st st'.
Proof.
  induction n as [|n IH]; intros st k st' H; simpl in H.
  - inversion H; subst. apply Forall2_srel_refl.
  - bind_inv H x Hx. bind_inv H st1 Hu. apply nth_chk_ok in Hx.
    eapply Forall2_srel_trans; [|eapply IH; exact H].
    destruct (is_filter x) eqn:Ex.
    + inversion Hu; subst. apply Forall2_srel_refl.
    + apply upd_chk_ok in Hu. destruct Hu as [y [Hy ->]]. rewrite Hx in Hy. inversion Hy; subst y.
      apply (upd_srel st k x e Hx Ex).
Qed.

Lemma set_flags_err_srel b a : forall errs st i st',
  (forall j x, phys a j = Ok x -> x < length st -> nth_error (fpat st) x = Some false) ->
  set_flags_err true b a FNack st i errs = Ok st' -> Forall2 srel st st'.
Proof.
  induction errs as [|e errs IH]; intros st i st' Hn H; cbn [set_flags_err] in H.
  - inversion H; subst. apply Forall2_srel_refl.
  - bind_inv H idx Hidx. bind_inv H st1 Hu. bind_inv H st2 Hs.
    assert (R1 : Forall2 srel st st1).
    { apply upd_chk_ok in Hu. destruct Hu as [s [Hs0 ->]].
      assert (idx < length st) by (apply nth_error_Some; congruence).
      pose proof (Hn _ _ Hidx H0) as Hf. rewrite (nth_fpat _ _ _ Hs0) in Hf. inversion Hf as [Hf']. apply (upd_srel st idx s e Hs0 Hf'). }
    assert (R2 : Forall2 srel st1 st2).
    { match type of Hs with (if ?c then _ else _) = _ => destruct c end; [|inversion Hs; subst; apply Forall2_srel_refl].
      bind_inv Hs p Hp. match type of Hs with (if ?c then _ else _) = _ => destruct c end; [|inversion Hs; subst; apply Forall2_srel_refl].
      bind_inv Hs ft Hft. destruct ft as [from to]. eapply set_status_range_skip_srel; exact Hs. }
    assert (R12 : Forall2 srel st st2) by (eapply Forall2_srel_trans; eauto).
    eapply Forall2_srel_trans; [exact R12|]. eapply IH; [|exact H].
    intros j x Hp Hx. rewrite (Forall2_srel_fpat _ _ R12). apply (Hn j x Hp).
    now rewrite (Forall2_length' _ _ _ R12).
Qed.

Lemma batch_nack_pre X b i errs b' :
  exactfc b -> batch_nack true b i errs = Ok b' ->
  pre_same X b b' /\ exactfc b' /\ Forall2 srel (statuses b) (statuses b') /\
  records b' = records b /\ positions b' = positions b.
Proof.
  intros Hfc H. pose proof (batch_nack_spec _ _ _ _ _ H) as [[Hp _] [_ [Hr _]]].
  destruct (batch_nack_keeps_filters _ _ _ _ Hfc H) as [_ [_ Hfc']].
  assert (S : Forall2 srel (statuses b) (statuses b')).
  { unfold batch_nack in H. bind_inv H a Ha. bind_inv H st Hs. inversion H; subst b'. simpl.
    eapply set_flags_err_srel; [|exact Hs]. intros j x Hph Hx. eapply phys_nonfilter; eauto. }
  split; [apply pre_same_of_all; auto|]. repeat split; auto.
Qed.

(* ---------- SplitRecord ---------- *)

Lemma count_filter_repeat_ack n : count_filter (repeat (FAck, None) n) = 0.
Proof. induction n; simpl; auto. Qed.

Lemma batch_split_record_pre b h k recs b' h' :
  exactfc b -> batch_split_record b h k recs = Ok (b', h') ->
  pre_same (cut (statuses b) k) b b' /\ exactfc b'.
Proof.
  intros Hfc H. unfold batch_split_record in H.
  bind_inv H a Ha. bind_inv H i Hi. bind_inv H origPos Hop. bind_inv H run0 Hr0.
  bind_inv H t Ht. destruct t as [[run b1] h1].
  assert (Eb1 : statuses b1 = statuses b /\ filterCount b1 = filterCount b /\ records b1 = records b /\ positions b1 = positions b).
  { destruct run0 as [r|].
    - inversion Ht; subst. auto.
    - destruct (pos_nil origPos); [discriminate|]. bind_inv Ht rec0 Hrec0.
      destruct (sr_get (skey origPos) (splitRecords b)); bind_inv Ht rlx Hrlx; inversion Ht; subst; auto. }
  destruct Eb1 as [Es [Ef [Er Ep]]].
  destruct recs as [|r0 tl]; [discriminate|].
  bind_inv H h2 Hh2. case_if H E; [|discriminate].
  bind_inv H st' Hst. bind_inv H ps' Hps. bind_inv H rl1 Hrl1. bind_inv H rl' Hrl'.
  inversion H; subst b' h'; clear H.
  apply insert_after_ok in Hst. destruct Hst as [Hs1 ->].
  apply insert_after_ok in Hps. destruct Hps as [Hp1 ->].
  rewrite Es, Er, Ep, Ef in *. cbn [records statuses positions filterCount].
  assert (Hcut : cut (statuses b) k <= i).
  { eapply phys_ge_cut; eauto. lia. }
  split.
  - constructor; cbn [records statuses positions].
    + rewrite <- (firstn_firstn_le _ i _ Hcut). rewrite <- (firstn_firstn_le (records b) i _ Hcut). f_equal.
      apply Nat.leb_le in E.
      rewrite firstn_app, firstn_firstn, firstn_length. replace (Nat.min i i) with i by lia.
      replace (i - Nat.min i (length (records b))) with 0 by lia. simpl. now rewrite app_nil_r.
    + rewrite <- (firstn_firstn_le _ i _ Hcut). rewrite <- (firstn_firstn_le (positions b) i _ Hcut). f_equal.
      rewrite firstn_app, firstn_firstn, firstn_length. replace (Nat.min i (i + 1)) with i by lia.
      replace (i - Nat.min (i + 1) (length (positions b))) with 0 by lia. simpl. now rewrite app_nil_r.
    + match goal with |- Forall2 srel ?A ?B => replace B with A; [apply Forall2_srel_refl|] end. symmetry.
      rewrite <- (firstn_firstn_le _ i _ Hcut). rewrite <- (firstn_firstn_le (statuses b) i _ Hcut). f_equal.
      rewrite firstn_app, firstn_firstn, firstn_length. replace (Nat.min i (i + 1)) with i by lia.
      replace (i - Nat.min (i + 1) (length (statuses b))) with 0 by lia. simpl. now rewrite app_nil_r.
  - unfold exactfc in *. cbn [filterCount statuses]. rewrite !count_filter_app, count_filter_repeat_ack.
    rewrite Hfc. rewrite <- (firstn_skipn (i + 1) (statuses b)) at 1. rewrite count_filter_app. lia.
Qed.

(* ---------- the composition ---------- *)

(* b is what the loop made of b0 after the results with index >= f were applied *)
Record J (b0 : batch) (f : nat) (b : batch) : Prop := mkJ {
  j_f : f <= nf (statuses b0);
  j_pre : pre_same (cut (statuses b0) f) b0 b;
  j_ex : exactfc b }.

Lemma pre_same_le X X' b b' : X' <= X -> pre_same X b b' -> pre_same X' b b'.
Proof. intros H P. eapply pre_same_trans; [exact H|exact P|apply pre_same_refl]. Qed.

Lemma J_weaken b0 f f' b : f' <= f -> J b0 f b -> J b0 f' b.
Proof.
  intros H [F P E]. constructor; auto; [lia|]. eapply pre_same_le; [|exact P]. now apply cut_mono.
Qed.

(* one operation at an active index i below f *)
Lemma J_step b0 f b i b' :
  J b0 f b -> i < f -> pre_same (cut (statuses b) i) b b' -> exactfc b' -> J b0 i b'.
Proof.
  intros [F P E] Hi P' E'. constructor; auto; [lia|].
  destruct (cut_pre (statuses b0) (statuses b) (cut (statuses b0) f) i (ps_st _ _ _ P)
              ltac:(rewrite nf_firstn_cut; auto)) as [C1 [C2 _]].
  rewrite C1 in P'. eapply pre_same_trans; [|exact P|exact P']. lia.
Qed.

(* and the active indices below f still resolve to the same physical records *)
Lemma J_resolves b0 f b k :
  J b0 f b -> k < f ->
  nth_error (idx_active (statuses b) 0) k = nth_error (idx_active (statuses b0) 0) k.
Proof.
  intros [F P E] Hk.
  destruct (cut_pre (statuses b0) (statuses b) (cut (statuses b0) f) k (ps_st _ _ _ P)
              ltac:(rewrite nf_firstn_cut; auto)) as [_ [_ [N1 N0]]].
  now rewrite N1, N0.
Qed.

Lemma mark_multi_one_J b0 from i p b h b' h' :
  Q b h (S (from + i)) -> J b0 (S (from + i)) b ->
  mark_multi b h from [(i, p)] = Ok (b', h') -> J b0 (from + i) b'.
Proof.
  intros HQ HJ H. assert (HJ0 : J b0 (from + i) b) by (eapply J_weaken; [|exact HJ]; lia).
  pose proof (j_ex _ _ _ HJ) as Hfc.
  simpl in H. destruct p as [r| |e|rs|]; try (inversion H; subst; exact HJ0).
  destruct rs as [|x [|y rs]].
  - bind_inv H b1 H1. inversion H; subst. eapply J_step; [exact HJ|lia| |].
    + eapply batch_filter_pre; eauto.
    + eapply batch_filter_exact; eauto.
  - bind_inv H b1 H1. inversion H; subst.
    destruct (Q_lens _ _ _ HQ) as [HL _]. pose proof (q_act _ _ _ HQ) as Ha.
    assert (Hle : from + i + length [x] <= nf (statuses b)) by (simpl; lia).
    destruct (batch_set_records_pre _ _ _ _ HL Hfc Hle H1) as [P E'].
    eapply J_step; [exact HJ|lia|exact P|exact E'].
  - bind_inv H t H1. destruct t as [b1 h1]. inversion H; subst.
    destruct (batch_split_record_pre _ _ _ _ _ _ Hfc H1) as [P E'].
    eapply J_step; [exact HJ|lia|exact P|exact E'].
Qed.

Lemma mark_multi_rev_J b0 from : forall (g : list pr) s b h b' h',
  Q b h (from + s + length g) -> J b0 (from + s + length g) b ->
  mark_multi b h from (rev (combine (seq s (length g)) g)) = Ok (b', h') -> J b0 (from + s) b'.
Proof.
  induction g as [|p g IH]; intros s b h b' h' HQ HJ H; simpl in H.
  - inversion H; subst. rewrite Nat.add_0_r in HJ. exact HJ.
  - rewrite mark_multi_app in H.
    destruct (mark_multi_rev from g (S s) b h ltac:(eapply Q_mono; [|exact HQ]; simpl; lia)) as [_ OK].
    destruct (mark_multi b h from (rev (combine (seq (S s) (length g)) g))) as [[b1 h1]| | |] eqn:E; try discriminate.
    specialize (OK _ _ eq_refl).
    assert (J1 : J b0 (from + S s) b1).
    { eapply IH; [| |exact E].
      - eapply Q_mono; [|exact HQ]. simpl. lia.
      - eapply J_weaken; [|exact HJ]. simpl. lia. }
    replace (from + s) with (from + s) by lia.
    eapply (mark_multi_one_J b0 from s p b1 h1); [| |exact H].
    + eapply Q_mono; [|exact OK]. lia.
    + eapply J_weaken; [|exact J1]. lia.
Qed.

Lemma mark_group_J fx b0 b h from g b' h' :
  fx_unfilter fx = true -> g <> [] -> Q b h (from + length g) -> J b0 (from + length g) b ->
  mark_group fx b h from g = Ok (b', h') -> J b0 from b'.
Proof.
  intros Hfx Hne HQ HJ H. pose proof (j_ex _ _ _ HJ) as Hfc.
  unfold mark_group in H. destruct g as [|p0 g']; [congruence|].
  assert (Hlt : from < from + length (p0 :: g')) by (simpl; lia).
  destruct p0 as [r| |e|rs|].
  - bind_inv H b1 H1. inversion H; subst.
    set (recs := flat_map unsingle (PSingle r :: g')) in *.
    assert (Lr : length recs <= length (PSingle r :: g')).
    { apply flat_map_le. intros [| | | |]; simpl; lia. }
    destruct (Q_lens _ _ _ HQ) as [HL _]. pose proof (q_act _ _ _ HQ) as Ha.
    assert (Hle : from + length recs <= nf (statuses b)) by lia.
    destruct (batch_set_records_pre _ _ _ _ HL Hfc Hle H1) as [P E'].
    eapply J_step; [exact HJ|exact Hlt|exact P|exact E'].
  - bind_inv H b1 H1. inversion H; subst. eapply J_step; [exact HJ|exact Hlt| |].
    + eapply batch_filter_pre; eauto.
    + eapply batch_filter_exact; eauto.
  - bind_inv H b1 H1. inversion H; subst. rewrite Hfx in H1.
    destruct (batch_nack_pre (cut (statuses b) from) _ _ _ _ Hfc H1) as [P [E' _]].
    eapply J_step; [exact HJ|exact Hlt|exact P|exact E'].
  - pose proof (mark_multi_rev_J b0 from (PMulti rs :: g') 0 b h b' h') as X.
    rewrite Nat.add_0_r in X. apply X; auto.
  - bind_inv H b1 H1. inversion H; subst. eapply J_step; [exact HJ|exact Hlt| |].
    + eapply batch_retry_pre; eauto.
    + eapply batch_retry_exact; eauto.
Qed.

Lemma mark_groups_J fx b0 gs i j : fx_unfilter fx = true -> chain gs i j -> forall b h b' h',
  Q b h j -> J b0 j b -> mark_groups fx b h (rev gs) = Ok (b', h') -> J b0 i b'.
Proof.
  intros Hfx. induction 1 as [i|i g gs j Hne Hc IH]; intros b h b' h' HQ HJ H; simpl in H.
  - inversion H; subst. exact HJ.
  - rewrite mark_groups_app in H. destruct (mark_groups_Q fx _ _ _ Hc b h HQ) as [_ OK].
    destruct (mark_groups fx b h (rev gs)) as [[b1 h1]| | |] eqn:E; try discriminate.
    specialize (OK _ _ eq_refl). pose proof (IH _ _ _ _ HQ HJ E) as J1.
    simpl in H. destruct (mark_group fx b1 h1 i g) as [[b2 h2]| | |] eqn:E2; cbn [rbind] in H; try discriminate.
    inversion H; subst. eapply mark_group_J; eauto.
Qed.

(* C08 mark_results_aligned, composition, ProcessorTask.Do (repaired tree).
   gs = the groups of results with index in [i, j) - a suffix of the reply - applied from the last
   to the first to a well-formed batch with at least j active records.  Afterwards everything that
   lies before the i-th active record is as it was: records and positions identical, statuses
   identical or (not filtered) nacked by the spreading of a sibling's error; so every active index
   k < i resolves to the physical record it resolved to before, and that record is unchanged.
   Hence result k, when its turn comes, is applied to the k-th active record of the batch the
   plugin was given; what a single operation then does there is C08_mark_results_aligned_partial /
   C08_mark_flags_aligned_partial. *)
Theorem mark_groups_composed fx gs i j b h b' h' :
  fx_unfilter fx = true -> chain gs i j ->
  WF b h -> filterCount b = count_filter (statuses b) -> j <= nf (statuses b) ->
  mark_groups fx b h (rev gs) = Ok (b', h') ->
  pre_same (cut (statuses b) i) b b' /\
  filterCount b' = count_filter (statuses b') /\
  (forall k x, k < i -> nth_error (idx_active (statuses b) 0) k = Some x ->
     nth_error (idx_active (statuses b') 0) k = Some x /\
     nth_error (records b') x = nth_error (records b) x /\
     nth_error (positions b') x = nth_error (positions b) x /\
     exists s s', nth_error (statuses b) x = Some s /\ nth_error (statuses b') x = Some s' /\ srel s s').
Proof.
  intros Hfx Hc W Hfc Hj H.
  assert (HQ : Q b h j).
  { constructor; auto. pose proof (nf_count (statuses b)). lia. }
  assert (HJ : J b j b) by (constructor; auto; apply pre_same_refl).
  pose proof (mark_groups_J fx b gs i j Hfx Hc b h b' h' HQ HJ H) as J'.
  split; [apply (j_pre _ _ _ J')|]. split; [apply (j_ex _ _ _ J')|].
  intros k x Hk Hx. pose proof (J_resolves _ _ _ k J' Hk) as R. rewrite Hx in R.
  destruct J' as [F [PR PP PS] _].
  assert (Hcx : x < cut (statuses b) i).
  { assert (cut (statuses b) k = x) by (unfold cut; now rewrite (nth_error_nth _ _ _ Hx)).
    destruct (cut_pre (statuses b) (statuses b) (cut (statuses b) i) k (Forall2_srel_refl _)
                ltac:(rewrite nf_firstn_cut; auto; lia)) as [_ [C _]]. lia. }
  split; [exact R|].
  assert (FN : forall A (l l' : list A) X y, firstn X l' = firstn X l -> y < X -> nth_error l' y = nth_error l y).
  { intros A l l' X y E Hy. rewrite <- (nth_error_firstn_lt l' X y Hy), <- (nth_error_firstn_lt l X y Hy). now rewrite E. }
  split; [eapply FN; eauto|]. split; [eapply FN; eauto|].
  assert (Hxl : x < length (statuses b)) by (eapply nth_idx_active_bound; eauto).
  destruct (nth_error (statuses b) x) as [s|] eqn:Es; [|apply nth_error_None in Es; lia].
  assert (Es1 : nth_error (firstn (cut (statuses b) i) (statuses b)) x = Some s) by (rewrite nth_error_firstn_lt; auto).
  clear - PS Es1 Hcx FN.
  remember (firstn (cut (statuses b) i) (statuses b)) as l1. remember (firstn (cut (statuses b) i) (statuses b')) as l2.
  assert (exists s', nth_error l2 x = Some s' /\ srel s s').
  { clear Heql1 Heql2. revert x Es1 Hcx. induction PS as [|a a' l1 l2 R _ IH]; intros x Es1 Hcx; [destruct x; discriminate|].
    destruct x as [|x]; simpl in *.
    - inversion Es1; subst. eauto.
    - apply (IH x Es1). lia. }
  destruct H as [s' [E2 R]]. exists s, s'. repeat split; auto.
  subst l2. rewrite nth_error_firstn_lt in E2; auto.
Qed.

Lemma chain_app_inv gs1 : forall gs2 i j, chain (gs1 ++ gs2) i j -> exists m, chain gs1 i m /\ chain gs2 m j.
Proof.
  induction gs1 as [|[i0 g] gs1 IH]; intros gs2 i j H; simpl in H.
  - exists i. split; [constructor|exact H].
  - inversion H; subst. destruct (IH _ _ _ H6) as [m [C1 C2]]. exists m. split; [constructor; auto|exact C2].
Qed.

(* the same, stated on ProcessorTask.Do itself: cut the groups of the (padded) reply anywhere;
   the results right of the cut are applied first, and they leave everything before the first
   active record of the cut - in particular every record a result left of the cut will address -
   as the plugin was given it *)
Theorem proc_do_composed fx b h nIn out b' h' gs_lo gs_hi :
  fx_unfilter fx = true ->
  WF b h -> filterCount b = count_filter (statuses b) -> nIn <= nf (statuses b) -> length out <= nIn ->
  groups (out ++ repeat PNil (nIn - length out)) 0 = gs_lo ++ gs_hi ->
  proc_do fx b h nIn out = Ok (b', h') ->
  exists m b1 h1,
    chain gs_lo 0 m /\ chain gs_hi m nIn /\
    mark_groups fx b h (rev gs_hi) = Ok (b1, h1) /\ mark_groups fx b1 h1 (rev gs_lo) = Ok (b', h') /\
    pre_same (cut (statuses b) m) b b1 /\
    (forall k x, k < m -> nth_error (idx_active (statuses b) 0) k = Some x ->
       nth_error (idx_active (statuses b1) 0) k = Some x /\
       nth_error (records b1) x = nth_error (records b) x /\
       nth_error (positions b1) x = nth_error (positions b) x /\
       exists s s', nth_error (statuses b) x = Some s /\ nth_error (statuses b1) x = Some s' /\ srel s s').
Proof.
  intros Hfx W Hfc Hn Hl Hg H. unfold proc_do in H. destruct out as [|o out]; [discriminate|].
  destruct (_ && _); [discriminate|].
  set (out' := (o :: out) ++ repeat PNil (nIn - length (o :: out))) in *.
  assert (Lo : length out' = nIn) by (unfold out'; rewrite app_length, repeat_length; lia).
  pose proof (groups_chain out' 0) as C. rewrite Nat.add_0_l, Lo, Hg in C.
  destruct (chain_app_inv _ _ _ _ C) as [m [C1 C2]].
  rewrite Hg, rev_app_distr, mark_groups_app in H.
  destruct (mark_groups fx b h (rev gs_hi)) as [[b1 h1]| | |] eqn:E; try discriminate.
  exists m, b1, h1. repeat split; auto.
  - destruct (mark_groups_composed fx gs_hi m nIn b h b1 h1 Hfx C2 W Hfc Hn E) as [P _]. apply P.
  - destruct (mark_groups_composed fx gs_hi m nIn b h b1 h1 Hfx C2 W Hfc Hn E) as [P _]. apply P.
  - destruct (mark_groups_composed fx gs_hi m nIn b h b1 h1 Hfx C2 W Hfc Hn E) as [P _]. apply P.
  - destruct (mark_groups_composed fx gs_hi m nIn b h b1 h1 Hfx C2 W Hfc Hn E) as [_ [_ R]].
    destruct (R k x H0 H1) as [R1 _]. exact R1.
  - destruct (mark_groups_composed fx gs_hi m nIn b h b1 h1 Hfx C2 W Hfc Hn E) as [_ [_ R]].
    destruct (R k x H0 H1) as [_ [R2 _]]. exact R2.
  - destruct (mark_groups_composed fx gs_hi m nIn b h b1 h1 Hfx C2 W Hfc Hn E) as [_ [_ R]].
    destruct (R k x H0 H1) as [_ [_ [R3 _]]]. exact R3.
  - destruct (mark_groups_composed fx gs_hi m nIn b h b1 h1 Hfx C2 W Hfc Hn E) as [_ [_ R]].
    destruct (R k x H0 H1) as [_ [_ [_ R4]]]. exact R4.
Qed.

(* ---------- DestinationTask.Do ---------- *)

Lemma srel_nth l l' x s : Forall2 srel l l' -> nth_error l x = Some s ->
  exists s', nth_error l' x = Some s' /\ srel s s'.
Proof.
  intros F. revert x. induction F as [|a a' l l' R _ IH]; intros x H; [destruct x; discriminate|].
  destruct x as [|x]; simpl in *.
  - inversion H; subst. eauto.
  - apply IH. exact H.
Qed.

Lemma srel_keeps_nack s s' : srel s s' -> fst s = FNack -> fst s' = FNack.
Proof. intros [->|[_ N]]; auto. Qed.

(* Nack(k, e): the k-th active record ends nacked *)
Lemma batch_nack_lands b k e b' x :
  exactfc b -> batch_nack true b k [e] = Ok b' ->
  nth_error (idx_active (statuses b) 0) k = Some x ->
  exists s', nth_error (statuses b') x = Some s' /\ fst s' = FNack.
Proof.
  intros Hfc H Hx. unfold batch_nack in H. bind_inv H a Ha. bind_inv H st Hs. inversion H; subst b'. simpl.
  cbn [set_flags_err] in Hs. bind_inv Hs idx Hidx. bind_inv Hs st1 Hu. bind_inv Hs st2 H2. inversion Hs; subst st.
  pose proof Hu as Hu'. apply upd_chk_ok in Hu'. destruct Hu' as [s0 [Hs0 E1]].
  assert (Hil : idx < length (statuses b)) by (apply nth_error_Some; congruence).
  pose proof (phys_nth _ _ _ _ Hfc Ha Hidx Hil) as N. rewrite Hx in N. inversion N; subst idx.
  assert (N1 : nth_error st1 x = Some (FNack, Some e)).
  { subst st1. rewrite nth_error_upd_form by exact Hil. now rewrite Nat.eqb_refl. }
  assert (R2 : Forall2 srel st1 st2).
  { match type of H2 with (if ?c then _ else _) = _ => destruct c end; [|inversion H2; subst; apply Forall2_srel_refl].
    bind_inv H2 p Hp. match type of H2 with (if ?c then _ else _) = _ => destruct c end; [|inversion H2; subst; apply Forall2_srel_refl].
    bind_inv H2 ft Hft. destruct ft as [from to]. eapply set_status_range_skip_srel; exact H2. }
  destruct (srel_nth _ _ _ _ R2 N1) as [s' [E' R]]. exists s'. split; auto.
  eapply srel_keeps_nack; eauto.
Qed.

Lemma dest_mark_composed from : forall l b b',
  exactfc b -> dest_mark true b from l = Ok b' ->
  records b' = records b /\ positions b' = positions b /\ Forall2 srel (statuses b) (statuses b') /\ exactfc b'.
Proof.
  induction l as [|[i [p [e|]]] l IH]; intros b b' Hfc H; simpl in H.
  - inversion H; subst. repeat split; auto. apply Forall2_srel_refl.
  - bind_inv H b1 H1. destruct (batch_nack_pre 0 _ _ _ _ Hfc H1) as [_ [E1 [S1 [R1 P1]]]].
    destruct (IH _ _ E1 H) as [R2 [P2 [S2 E2]]]. repeat split; auto; try congruence.
    eapply Forall2_srel_trans; eauto.
  - eapply IH; eauto.
Qed.

(* every errored ack of the chunk nacks the record it belongs to: ack i of a chunk received after
   ackCount acks -> the (ackCount + i)-th active record *)
Lemma dest_mark_lands from : forall l b b',
  exactfc b -> dest_mark true b from l = Ok b' ->
  forall i p e x, In (i, (p, Some e)) l -> nth_error (idx_active (statuses b) 0) (from + i) = Some x ->
    exists s', nth_error (statuses b') x = Some s' /\ fst s' = FNack.
Proof.
  induction l as [|[i0 [p0 [e0|]]] l IH]; intros b b' Hfc H i p e x Hin Hx; simpl in H.
  - contradiction.
  - bind_inv H b1 H1. destruct (batch_nack_pre 0 _ _ _ _ Hfc H1) as [_ [E1 [S1 _]]].
    pose proof (idx_active_fpat _ _ (Forall2_srel_fpat _ _ S1) 0) as Ea.
    destruct Hin as [Heq|Hin].
    + inversion Heq; subst. destruct (batch_nack_lands _ _ _ _ _ Hfc H1 Hx) as [s1 [N1 F1]].
      destruct (dest_mark_composed _ _ _ _ E1 H) as [_ [_ [S2 _]]].
      destruct (srel_nth _ _ _ _ S2 N1) as [s' [N' R]]. exists s'. split; auto. eapply srel_keeps_nack; eauto.
    + eapply IH; [exact E1|exact H|exact Hin|]. now rewrite Ea.
  - destruct Hin as [Heq|Hin]; [inversion Heq|]. eapply IH; eauto.
Qed.

(* C08 mark_results_aligned, composition, DestinationTask.Do (repaired tree): over all the ack
   chunks of one Do, no record and no position changes and no status changes its filter flag, so
   the active-record indices the chunks are counted in never move (and filterCount stays exact) *)
Theorem dest_loop_composed c d ps n : fx_unfilter (c_fix c) = true -> forall b ackCount w b' x w',
  exactfc b -> dest_loop c d b ps ackCount n w = (Ok (b', x), w') ->
  records b' = records b /\ positions b' = positions b /\ Forall2 srel (statuses b) (statuses b') /\
  idx_active (statuses b') 0 = idx_active (statuses b) 0 /\ exactfc b'.
Proof.
  intros Hfx. induction n as [|n IH]; intros b ackCount w b' x w' Hfc H; simpl in H.
  - destruct (_ && _); [inversion H|]. unfold ret in H. inversion H; subst.
    repeat split; auto. apply Forall2_srel_refl.
  - mbind H r w1 H1. destruct r as [acks|]; [|inversion H].
    destruct (_ && _); [inversion H|].
    destruct (acks_match acks (skipn ackCount ps)); [|inversion H].
    mbind H b1 w2 H2. unfold lift in H2. inversion H2; subst w2. clear H2.
    match goal with H2 : dest_mark _ _ _ _ = Ok b1 |- _ => rewrite Hfx in H2; destruct (dest_mark_composed _ _ _ _ Hfc H2) as [R1 [P1 [S1 E1]]] end.
    destruct (length ps <=? ackCount + length acks).
    + unfold ret in H. inversion H; subst. repeat split; auto.
      apply idx_active_fpat. now apply Forall2_srel_fpat.
    + mbind H t w3 HL3. destruct t as [b2 more]. unfold ret in H. inversion H; subst.
      destruct (IH _ _ _ _ _ _ E1 HL3) as [R2 [P2 [S2 [A2 E2]]]].
      assert (S12 : Forall2 srel (statuses b) (statuses b')) by (eapply Forall2_srel_trans; eauto).
      repeat split; auto; try congruence.
      apply idx_active_fpat. now apply Forall2_srel_fpat.
Qed.
