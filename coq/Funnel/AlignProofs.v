(* C08 mark_results_aligned, the part with real index computation: Batch.SetRecords resolves
   active-record indices to physical indices with a dichotomic search for contiguous stretches
   (findTo) and copies stretch by stretch.  Theorem: record j of the replacement lands exactly on the
   (i+j)-th ACTIVE record, and no other record is touched - for every pattern of filtered records. *)
From Verif Require Import Funnel.Ledger Funnel.BatchProofs Funnel.LedgerProofs Funnel.DestProofs Funnel.ProcProofs.

Definition sorted_lt (a : list nat) : Prop :=
  forall j1 j2 x1 x2, j1 < j2 -> nth_error a j1 = Some x1 -> nth_error a j2 = Some x2 -> x1 < x2.

(* contiguity of a[from..x]: the check function of findTo *)
Definition contig (a : list nat) (from aFrom x : nat) : Prop :=
  exists ax, nth_error a x = Some ax /\ ax + from = x + aFrom.

Lemma find_to_contig a from aFrom : forall fuel maxT minF to,
  find_to a from aFrom maxT minF fuel = Ok to -> contig a from aFrom maxT -> contig a from aFrom to.
Proof.
  induction fuel as [|fu IH]; intros maxT minF to H C; cbn [find_to] in H.
  - inversion H; subst; auto.
  - destruct (maxT + 1 <? minF); [|inversion H; subst; auto].
    bind_inv H am Ham. apply nth_chk_ok in Ham.
    destruct (am + from =? (maxT + minF) / 2 + aFrom) eqn:E.
    + apply Nat.eqb_eq in E. eapply IH; eauto. exists am. split; auto.
    + eapply IH; eauto.
Qed.

(* in a strictly increasing list, contiguity at the end means contiguity everywhere in between *)
Lemma contig_between a from aFrom to j :
  sorted_lt a -> nth_error a from = Some aFrom -> contig a from aFrom to -> from <= j <= to ->
  nth_error a j = Some (aFrom + (j - from)).
Proof.
  intros Srt Hf [ato [Hto Eto]] Hj.
  assert (Hlt : j < length a).
  { assert (to < length a) by (apply nth_error_Some; congruence). lia. }
  destruct (nth_error a j) as [aj|] eqn:Ej; [|apply nth_error_None in Ej; lia].
  assert (Lower : forall d x, nth_error a (from + d) = Some x -> aFrom + d <= x).
  { induction d as [|d IHd]; intros x Hx.
    - rewrite Nat.add_0_r in Hx. rewrite Hf in Hx. inversion Hx; lia.
    - destruct (nth_error a (from + d)) as [y|] eqn:Ey.
      + specialize (IHd _ eq_refl). assert (y < x) by (eapply (Srt (from + d) (from + S d)); eauto; lia). lia.
      + apply nth_error_None in Ey. assert (from + S d < length a) by (apply nth_error_Some; congruence). lia. }
  assert (Upper : forall d x, j + d <= to -> nth_error a (j + d) = Some x -> aj + d <= x).
  { induction d as [|d IHd]; intros x Hd Hx.
    - rewrite Nat.add_0_r in Hx. rewrite Ej in Hx. inversion Hx; lia.
    - destruct (nth_error a (j + d)) as [y|] eqn:Ey.
      + specialize (IHd _ ltac:(lia) eq_refl). assert (y < x) by (eapply (Srt (j + d) (j + S d)); eauto; lia). lia.
      + apply nth_error_None in Ey. assert (j + S d < length a) by (apply nth_error_Some; congruence). lia. }
  pose proof (Lower (j - from) aj) as L1. replace (from + (j - from)) with j in L1 by lia. specialize (L1 Ej).
  pose proof (Upper (to - j) ato ltac:(lia)) as U1. replace (j + (to - j)) with to in U1 by lia. specialize (U1 Hto).
  f_equal. lia.
Qed.

Lemma nth_error_mid {A} (l1 l2 l3 : list A) x :
  length l1 <= x < length l1 + length l2 -> nth_error (l1 ++ l2 ++ l3) x = nth_error l2 (x - length l1).
Proof.
  intros H. rewrite nth_error_app2 by lia. rewrite nth_error_app1 by lia. reflexivity.
Qed.

Lemma nth_error_firstn_lt {A} (l : list A) n x : x < n -> nth_error (firstn n l) x = nth_error l x.
Proof. revert l x. induction n; intros l x H; [lia|]. destruct l; destruct x; simpl; auto. apply IHn. lia. Qed.

Lemma set_recs_loop_aligned a L :
  sorted_lt a -> (forall j x, nth_error a j = Some x -> x < L) ->
  forall fuel recs from rs rs',
    from + length recs <= length a -> length rs = L -> length recs <= fuel ->
    set_recs_loop a rs from recs fuel = Ok rs' ->
    length rs' = L /\
    (forall j x, j < length recs -> nth_error a (from + j) = Some x -> nth_error rs' x = nth_error recs j) /\
    (forall x, (forall j, j < length recs -> nth_error a (from + j) <> Some x) -> nth_error rs' x = nth_error rs x).
Proof.
  intros Srt Hb. induction fuel as [|fu IH]; intros recs from rs rs' H1 H2 Hfu H;
    destruct recs as [|r0 recs]; cbn [set_recs_loop] in H.
  - inversion H; subst. repeat split; auto. intros j x Hj; simpl in Hj; lia.
  - simpl in Hfu. lia.
  - inversion H; subst. repeat split; auto. intros j x Hj; simpl in Hj; lia.
  - cbn [length] in *.
    bind_inv H aFrom HaF. bind_inv H to Hto. bind_inv H aTo HaT.
    apply nth_chk_ok in HaF. apply nth_chk_ok in HaT.
    case_if H E; [|discriminate].
    apply andb_prop in E. destruct E as [E E3]. apply andb_prop in E. destruct E as [E1 E2].
    apply Nat.leb_le in E1. apply Nat.leb_le in E2. apply Nat.leb_le in E3.
    destruct (find_to_ok a from aFrom (S (length recs)) from (from + S (length recs)) ltac:(lia) ltac:(lia))
      as [to' [Et [T1 T2]]]. rewrite Hto in Et. inversion Et; subst to'. clear Et.
    assert (Hto' : to < from + S (length recs)) by lia.
    assert (C : contig a from aFrom to).
    { eapply find_to_contig; [exact Hto|]. exists aFrom. split; [exact HaF|lia]. }
    assert (EaTo : aTo = aFrom + (to - from)).
    { pose proof (contig_between a from aFrom to to Srt HaF C ltac:(lia)) as X. rewrite HaT in X. now inversion X. }
    set (n := to - from + 1) in *.
    assert (Hseg : copy_into (firstn (aTo + 1 - aFrom) (skipn aFrom rs)) (firstn n (r0 :: recs)) = firstn n (r0 :: recs)).
    { unfold copy_into. rewrite !firstn_length, skipn_length. cbn [length].
      replace (Nat.min (aTo + 1 - aFrom) (length rs - aFrom)) with n by (unfold n; lia).
      replace (Nat.min n (S (length recs))) with n by lia.
      rewrite firstn_firstn. replace (Nat.min n n) with n by lia.
      rewrite skipn_all2 by (rewrite firstn_length, skipn_length; lia). now rewrite app_nil_r. }
    rewrite Hseg in H.
    assert (Ln : length (firstn n (r0 :: recs)) = n) by (rewrite firstn_length; cbn [length]; lia).
    set (rs1 := firstn aFrom rs ++ firstn n (r0 :: recs) ++ skipn (aTo + 1) rs) in *.
    assert (L1 : length rs1 = L).
    { unfold rs1. rewrite !app_length, Ln, firstn_length, skipn_length. unfold n. lia. }
    destruct (IH (skipn n (r0 :: recs)) (to + 1) rs1 rs') as [R1 [R2 R3]]; auto.
    { rewrite skipn_length. cbn [length]. unfold n. lia. }
    { rewrite skipn_length. cbn [length]. unfold n. lia. }
    split; auto. split.
    + intros j x Hj Hx. destruct (Nat.lt_ge_cases j n) as [Hjn|Hjn].
      * (* placed in this round, not overwritten later *)
        pose proof (contig_between a from aFrom to (from + j) Srt HaF C ltac:(unfold n in Hjn; lia)) as X.
        rewrite Hx in X. inversion X; subst x. replace (from + j - from) with j by lia.
        rewrite R3.
        -- unfold rs1. rewrite nth_error_mid by (rewrite firstn_length, Ln; lia).
           rewrite firstn_length. replace (aFrom + j - Nat.min aFrom (length rs)) with j by lia.
           apply nth_error_firstn_lt. exact Hjn.
        -- intros j' Hj' Hc. rewrite skipn_length in Hj'. cbn [length] in Hj'.
           assert (from + j < to + 1 + j') by (unfold n in Hjn; lia).
           pose proof (Srt _ _ _ _ H0 Hx Hc). lia.
      * replace (from + j) with (to + 1 + (j - n)) in Hx by (unfold n in *; lia).
        rewrite (R2 (j - n) x); auto.
        -- rewrite nth_error_skipn'. f_equal. lia.
        -- rewrite skipn_length. cbn [length]. lia.
    + intros x Hx. rewrite R3.
      * unfold rs1. destruct (Nat.lt_ge_cases x aFrom) as [Hlo|Hlo].
        -- rewrite nth_error_app1 by (rewrite firstn_length; lia). apply nth_error_firstn_lt. exact Hlo.
        -- destruct (Nat.lt_ge_cases x (aFrom + n)) as [Hmid|Hhi].
           ++ exfalso. apply (Hx (x - aFrom)); [unfold n in *; lia|].
              rewrite (contig_between a from aFrom to (from + (x - aFrom)) Srt HaF C) by (unfold n in *; lia).
              f_equal. lia.
           ++ rewrite nth_error_app2 by (rewrite firstn_length; lia).
              rewrite nth_error_app2 by (rewrite Ln, firstn_length; lia).
              rewrite nth_error_skipn', Ln, firstn_length. f_equal. unfold n in *. lia.
      * intros j' Hj' Hc. rewrite skipn_length in Hj'. cbn [length] in Hj'.
        apply (Hx (n + j')); [unfold n in *; lia|].
        replace (from + (n + j')) with (to + 1 + j') by (unfold n; lia). exact Hc.
Qed.

Lemma sorted_idx_active st : sorted_lt (idx_active st 0).
Proof. intros j1 j2 x1 x2 H E1 E2. eapply idx_active_lt; eauto. Qed.

(* Batch.SetRecords(i, recs): record j of recs replaces exactly the (i+j)-th active record *)
Theorem set_records_aligned b i recs b' :
  lens2 b -> filterCount b = count_filter (statuses b) -> i + length recs <= nf (statuses b) ->
  batch_set_records b i recs = Ok b' ->
  statuses b' = statuses b /\ positions b' = positions b /\ runs b' = runs b /\
  length (records b') = length (records b) /\
  (forall j x, j < length recs -> nth_error (idx_active (statuses b) 0) (i + j) = Some x ->
               nth_error (records b') x = nth_error recs j) /\
  (forall x, (forall j, j < length recs -> nth_error (idx_active (statuses b) 0) (i + j) <> Some x) ->
             nth_error (records b') x = nth_error (records b) x).
Proof.
  intros [L1 L2] Hfc Hi H. pose proof (nf_count (statuses b)) as Hc.
  unfold batch_set_records, active_idx in H.
  destruct (filterCount b =? 0) eqn:E0.
  - apply Nat.eqb_eq in E0. cbn [rbind] in H. rewrite E0 in Hfc. symmetry in Hfc.
    rewrite (idx_active_all _ Hfc).
    destruct (i <=? length (records b)) eqn:Ei; [|discriminate]. inversion H; subst b'. cbn.
    assert (Hlen : i + length recs <= length (records b)) by lia.
    assert (Ecp : copy_into (skipn i (records b)) recs = recs ++ skipn (i + length recs) (records b)).
    { unfold copy_into. rewrite skipn_length. rewrite firstn_all2 by lia. f_equal.
      rewrite skipn_skipn'. f_equal. lia. }
    rewrite Ecp. repeat split; auto.
    + rewrite !app_length, firstn_length, skipn_length. lia.
    + intros j x Hj Hx. rewrite nth_error_nth' with (d := 0) in Hx by (rewrite seq_length; lia).
      rewrite seq_nth in Hx by lia. inversion Hx; subst x.
      rewrite nth_error_mid by (rewrite firstn_length; lia). rewrite firstn_length. f_equal. lia.
    + intros x Hx. destruct (Nat.lt_ge_cases x i) as [Hlo|Hlo].
      * rewrite nth_error_app1 by (rewrite firstn_length; lia). now apply nth_error_firstn_lt.
      * destruct (Nat.lt_ge_cases x (i + length recs)) as [Hmid|Hhi].
        -- exfalso. apply (Hx (x - i)); [lia|].
           rewrite nth_error_nth' with (d := 0) by (rewrite seq_length; lia). rewrite seq_nth by lia. f_equal. lia.
        -- rewrite nth_error_app2 by (rewrite firstn_length; lia).
           rewrite nth_error_app2 by (rewrite firstn_length; lia).
           rewrite nth_error_skipn', firstn_length. f_equal. lia.
  - destruct (length (records b) <? filterCount b) eqn:E1; [discriminate|]. cbn [rbind] in H.
    bind_inv H rs Hrs. inversion H; subst b'. cbn.
    destruct (set_recs_loop_aligned (idx_active (statuses b) 0) (length (records b)) (sorted_idx_active _)
                ltac:(intros j x Hx; apply nth_idx_active_bound in Hx; lia)
                (length recs) recs i (records b) rs ltac:(unfold nf in Hi; lia) eq_refl ltac:(lia) Hrs)
      as [R1 [R2 R3]].
    repeat split; auto.
Qed.

(* Filter / Retry / Ack over active indices [k, k+n): exactly the statuses of those active records
   get the flag, the error field and every other status stay *)
Lemma set_flags_aligned a fl : forall n st k st',
  set_flags st (Some a) fl k n = Ok st' ->
  length st' = length st /\
  (forall x, (forall j, k <= j < k + n -> nth_error a j <> Some x) -> nth_error st' x = nth_error st x) /\
  (forall j x, k <= j < k + n -> nth_error a j = Some x ->
               (forall j', j < j' < k + n -> nth_error a j' <> Some x) ->
               exists s, nth_error st x = Some s /\ nth_error st' x = Some (fl, snd s)).
Proof.
  induction n as [|n IH]; intros st k st' H; simpl in H.
  - inversion H; subst. repeat split; auto. intros j x Hj; lia.
  - bind_inv H idx Hidx. bind_inv H st1 Hu. simpl in Hidx. apply nth_chk_ok in Hidx.
    pose proof (upd_chk_length _ _ _ _ _ Hu) as L1. apply upd_chk_ok in Hu. destruct Hu as [s0 [Hs0 E1]].
    destruct (IH _ _ _ H) as [L' [R1 R2]]. split; [lia|]. split.
    + intros x Hx. rewrite R1 by (intros j Hj; apply Hx; lia).
      assert (x <> idx). { intros ->. apply (Hx k); [lia|exact Hidx]. }
      subst st1. rewrite nth_error_upd_form by (apply nth_error_Some; congruence).
      destruct (Nat.eqb_spec x idx); [congruence|reflexivity].
    + intros j x Hj Hx Hlater. destruct (Nat.eq_dec j k) as [->|Hne].
      * rewrite Hidx in Hx. inversion Hx; subst x. exists s0. split; auto.
        rewrite R1 by (intros j' Hj'; apply Hlater; lia).
        subst st1. rewrite nth_error_upd_form by (apply nth_error_Some; congruence). now rewrite Nat.eqb_refl.
      * destruct (R2 j x ltac:(lia) Hx ltac:(intros j' Hj'; apply Hlater; lia)) as [s [Hs Hs']].
        subst st1. rewrite nth_error_upd_form in Hs by (apply nth_error_Some; congruence).
        destruct (Nat.eqb_spec x idx) as [->|Hxi].
        -- inversion Hs; subst s. exists s0. split; auto.
        -- exists s. split; auto.
Qed.
