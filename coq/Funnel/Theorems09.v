(* C09: the statements that go into Properties/C09.v. *)
From Coq Require Import Permutation.
From Verif Require Import Funnel.Check Funnel.Findings.
From Verif Require Import Funnel.BatchProofs Funnel.LedgerProofs Funnel.TaskProofs Funnel.WorkerProofs
     Funnel.CondProofs Funnel.DestProofs.

(* ---------- no empty position is ever acked (the coded refusal CodeEmptySourcePosition really
   leaves the position unacknowledged), for every configuration, also ill-behaved sources ---------- *)

Definition nonempty_acks (l : list event) : Prop := Forall (fun k : key => k <> []) (acks_of l).

Definition safe_log {A} (m : M A) : Prop :=
  forall w r w', m w = (r, w') -> exists newl, w_log w' = newl ++ w_log w /\ nonempty_acks newl.

Lemma safe_of_quiet {A} (m : M A) : quiet m -> safe_log m.
Proof.
  intros Q w r w' H. destruct (Q _ _ _ H) as [_ [l [L A0]]]. exists l. split; auto.
  unfold nonempty_acks. rewrite A0. constructor.
Qed.

Lemma safe_bind {A B} (m : M A) (k : A -> M B) : safe_log m -> (forall a, safe_log (k a)) -> safe_log (bind m k).
Proof.
  intros Hm Hk w r w' H. apply bind_inv_M in H. destruct H as [[a [w1 [H1 H2]]]|[H1 _]].
  - destruct (Hm _ _ _ H1) as [l1 [L1 A1]]. destruct (Hk a _ _ _ H2) as [l2 [L2 A2]].
    exists (l2 ++ l1). rewrite L2, L1, app_assoc. split; auto.
    unfold nonempty_acks in *. rewrite acks_of_app. apply Forall_app. auto.
  - destruct (Hm _ _ _ H1) as [l1 [L1 A1]]. exists l1. auto.
Qed.

Lemma safe_ret {A} (a : A) : safe_log (ret a). Proof. apply safe_of_quiet, quiet_ret. Qed.
Lemma safe_lift {A} (x : res A) : safe_log (lift x). Proof. apply safe_of_quiet, quiet_lift. Qed.
Lemma safe_fail {A} e : safe_log (@fail A e). Proof. apply safe_of_quiet, quiet_fail. Qed.

Lemma existsb_len0_false ps :
  existsb pos_len0 ps = false -> Forall (fun k : key => k <> []) (map pkey ps).
Proof.
  induction ps as [|p ps IH]; simpl; intros H; [constructor|]. apply orb_false_iff in H. destruct H as [H1 H2].
  constructor; auto. unfold pos_len0 in H1. destruct (pkey p); [discriminate|discriminate].
Qed.

Lemma safe_src_ack c ps : existsb pos_len0 ps = false -> safe_log (src_ack c ps).
Proof.
  intros H w r w' E. unfold src_ack in E. inversion E; subst. simpl. eexists [_]. split; [reflexivity|].
  unfold nonempty_acks. simpl. rewrite app_nil_r. now apply existsb_len0_false.
Qed.

Lemma safe_worker_ack c b : safe_log (worker_ack c b).
Proof.
  unfold worker_ack. apply safe_bind; [apply safe_lift|]. intros ob.
  destruct (existsb pos_len0 (positions ob)) eqn:E; [apply safe_fail|].
  apply safe_bind; [apply safe_src_ack; auto|]. intros a.
  destruct (src_ack_failed a); [apply safe_fail|].
  destruct (length (records b) =? 0); [apply safe_ret|].
  apply safe_bind; [apply safe_of_quiet, quiet_get_win|]. intros wn. apply safe_of_quiet, quiet_put_win.
Qed.

Lemma safe_worker_nack c b task : safe_log (worker_nack c b task).
Proof.
  unfold worker_nack. apply safe_bind; [apply safe_lift|]. intros ob.
  apply safe_bind; [apply safe_of_quiet, quiet_dlq_nack|]. intros [n e].
  apply safe_bind.
  - destruct (0 <? n); [|apply safe_ret].
    apply safe_bind; [apply safe_lift|]. intros ps.
    destruct (existsb pos_len0 ps) eqn:E; [apply safe_fail|].
    apply safe_bind; [apply safe_src_ack; auto|]. intros a.
    destruct (src_ack_failed a); [apply safe_fail|].
    apply safe_bind; [apply safe_lift|]. intros _. apply safe_ret.
  - intros _. destruct e; [apply safe_fail|apply safe_ret].
Qed.

Lemma safe_heap_get r : safe_log (heap_get r).
Proof. intros w x w' H. unfold heap_get in H. inversion H; subst. exists []. split; auto. constructor. Qed.
Lemma safe_heap_set r x : safe_log (heap_set r x).
Proof.
  intros w y w' H. unfold heap_set in H. destruct (upd (w_heap w) r (fun _ => x)); inversion H; subst;
    exists []; split; auto; constructor.
Qed.

Lemma safe_vote_loop c b isAck task : forall fuel i, safe_log (vote_loop c b isAck task i fuel).
Proof.
  induction fuel as [|f IH]; intros i; simpl; [apply safe_ret|].
  destruct (length (records b) <=? i); [apply safe_ret|].
  apply safe_bind; [apply safe_lift|]. intros run. apply safe_bind; [apply safe_lift|]. intros j.
  destruct run as [q|].
  - apply safe_bind; [apply safe_heap_get|]. intros x. destruct (r_released x); [apply safe_fail|].
    apply safe_bind; [apply safe_lift|]. intros st. apply safe_bind; [apply safe_heap_set|]. intros _.
    match goal with |- safe_log (if ?c then _ else _) => destruct c end; [apply safe_fail|].
    apply safe_bind; [|intros _; apply IH].
    match goal with |- safe_log (if ?c then _ else _) => destruct c end; [|apply safe_ret].
    apply safe_bind; [apply safe_heap_set|]. intros _.
    match goal with |- safe_log (if ?c then _ else _) => destruct c end; [apply safe_worker_nack|apply safe_worker_ack].
  - apply safe_bind; [apply safe_lift|]. intros sb. apply safe_bind; [|intros _; apply IH].
    destruct isAck; [apply safe_worker_ack|apply safe_worker_nack].
Qed.

Lemma safe_task_do c ti b : safe_log (task_do c ti b).
Proof.
  unfold task_do. destruct (is_last c ti).
  - apply safe_of_quiet, quiet_dest_do. intros; exact I.
  - apply safe_bind; [apply safe_lift|]. intros ins. apply safe_bind; [apply safe_of_quiet, quiet_process|].
    intros out. apply safe_bind; [apply safe_of_quiet, quiet_get_heap|]. intros h.
    apply safe_bind; [apply safe_lift|]. intros [b' h']. apply safe_bind; [|intros _; apply safe_ret].
    intros w r w' H. unfold put_heap in H. inversion H; subst. exists []. split; auto. constructor.
Qed.

Lemma safe_tloop c ti b retry next again :
  (forall sb, safe_log (next sb)) -> (forall sb nx, safe_log (again sb nx)) ->
  forall n idx, safe_log (tloop c ti b retry next again n idx).
Proof.
  intros Hn Ha. induction n as [|n IH]; intros idx; simpl.
  - destruct (length (statuses b) <=? idx); [apply safe_ret|apply safe_lift].
  - apply safe_bind; [apply safe_lift|]. intros [sb|]; [|apply safe_ret].
    apply safe_bind; [apply safe_lift|]. intros s0. apply safe_bind; [|intros _; apply IH].
    destruct (fst s0).
    + destruct (is_last c ti || negb (has_active sb)); [apply safe_vote_loop|apply Hn].
    + intros w r w' H. unfold nack_vote in H. apply fatalize_inv in H. destruct H as [r0 [H _]].
      eapply safe_vote_loop; eauto.
    + apply safe_bind; [apply safe_lift|]. intros sb'. apply safe_bind; [apply safe_lift|]. intros nx. apply Ha.
    + destruct (is_last c ti || negb (has_active sb)); [apply safe_vote_loop|apply Hn].
Qed.

Lemma safe_attempt : forall fuel c ti b retry, safe_log (attempt fuel c ti b retry).
Proof.
  induction fuel as [|f IH]; intros c ti b retry; cbn [attempt]; [apply safe_lift|].
  apply safe_bind; [apply safe_task_do|]. intros b1. destruct (negb (tainted b1)).
  - destruct (is_last c ti || negb (has_active b1)); [apply safe_vote_loop|apply IH].
  - apply safe_tloop; intros; apply IH.
Qed.

(* the coded refusal pipeline.empty_source_position leaves the position unacknowledged: no
   Source.Ack call of any pass ever carries an empty position *)
Theorem no_empty_position_acked fuel c :
  Forall (fun k : key => k <> []) (acked_keys (fst (run_case_fuel fuel c))).
Proof.
  unfold run_case_fuel. destruct (pass fuel c (w0 c)) as [r w'] eqn:E. simpl.
  assert (S : safe_log (pass fuel c)).
  { unfold pass. destruct (_ && _); [apply safe_fail|].
    destruct (negb (has_active (new_batch (c_recs c)))); [apply safe_vote_loop|apply safe_attempt]. }
  destruct (S _ _ _ E) as [l [L A]]. simpl in L. rewrite app_nil_r in L. rewrite L.
  unfold nonempty_acks in A. apply Forall_forall. intros k Hk.
  rewrite Forall_forall in A. apply A.
  eapply Permutation_in; [apply acks_of_rev|exact Hk].
Qed.
