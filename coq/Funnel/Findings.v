(* Concrete inputs on which the faithful model violates C09 (and, for the second one, C08):
   the _refuted forms of the statements, each closed by vm_compute.  The same inputs are replayed
   on the real code by the harness (corpus/C09). *)
From Verif Require Import Base.CaseCheck.
From Verif Require Export Funnel.Check.

Definition d0 : destspec := mkDest None [] None [] [].
Definition src4 (c0 c1 c2 c3 : nat) : list rec :=
  [mkRec (Some [0]) [0] [c0]; mkRec (Some [1]) [1] [c1]; mkRec (Some [2]) [2] [c2]; mkRec (Some [3]) [3] [c3]].

(* S2: condition true for records 0 and 2 of 4; the plugin returns 1 result for the 2 kept records *)
Definition s2_cfg : cfg :=
  mkCfg (src4 1 0 1 0) [mkProc true [mkReply [KSame] 0 false 0]] d0 d0 0 0 [] 10000%N 3%N fixes_none.

Lemma s2_panics : snd (run_case s2_cfg) = TPanic.
Proof. vm_compute. reflexivity. Qed.

(* S3: source -> destination, two records, the destination answers every Ack() with an empty list *)
Definition s3_cfg : cfg :=
  mkCfg [mkRec (Some [0]) [0] []; mkRec (Some [1]) [1] []] []
        (mkDest None [] None [] [(0, AEmpty); (1, AEmpty)]) d0 0 0 [] 10000%N 3%N fixes_none.

Lemma s3_acks_unconfirmed :
  run_case s3_cfg = ([EvWrite [([0], [0]); ([1], [1])]; EvDAck []; EvDAck []; EvSAck [[0]; [1]]], TOk).
Proof. vm_compute. reflexivity. Qed.

(* a plugin (without condition) returning more results than it was given records *)
Definition more_cfg : cfg :=
  mkCfg [mkRec (Some [0]) [0] []; mkRec (Some [1]) [1] []]
        [mkProc false [mkReply [KSame; KSame; KFilter] 0 false 0]] d0 d0 0 0 [] 10000%N 3%N fixes_none.

Lemma more_results_panics : snd (run_case more_cfg) = TPanic.
Proof. vm_compute. reflexivity. Qed.

(* a source record with a nil position that a processor splits *)
Definition nilpos_cfg : cfg :=
  mkCfg [mkRec None [0] []; mkRec (Some [1]) [1] []]
        [mkProc false [mkReply [KMulti 2; KSame] 0 false 0]] d0 d0 0 0 [] 10000%N 3%N fixes_none.

Lemma nil_position_split_panics : snd (run_case nilpos_cfg) = TPanic.
Proof. vm_compute. reflexivity. Qed.

(* new finding: Batch.setFlagWithErr un-filters a filtered piece of the run it nacks *)
Definition unfilter_cfg : cfg :=
  mkCfg [mkRec (Some [0]) [0] []; mkRec (Some [1]) [1] []]
        [mkProc false [mkReply [KMulti 2; KSame] 0 false 0];
         mkProc false [mkReply [KFilter; KSame; KSame] 0 false 0]]
        (mkDest None [[0; 1]; [1]] None [1] []) d0 0 0 [] 10000%N 3%N fixes_none.

Lemma unfilter_acks_failed_record :
  snd (run_case unfilter_cfg) = TOk /\ mon08 unfilter_cfg (run_case unfilter_cfg) = false.
Proof. vm_compute. split; reflexivity. Qed.

(* a pass with filter, split, processor error and a short result (retry) *)
Definition demo_cfg : cfg :=
  mkCfg [mkRec (Some [0]) [0] []; mkRec (Some [1]) [1] []; mkRec (Some [2]) [2] []; mkRec (Some [3]) [3] []]
        [mkProc false [mkReply [KFilter; KMulti 2; KErr] 0 false 0]]
        d0 d0 0 0 [] 10000%N 3%N fixes_none.

(* ---------- the same inputs on the repaired tree ---------- *)

Definition with_fix (c : cfg) (f : fixes) : cfg :=
  mkCfg (c_recs c) (c_procs c) (c_dest c) (c_dlq c) (c_dlqsize c) (c_dlqthr c) (c_srcacts c)
        (c_maxattempts c) (c_maxstall c) f.

(* S2 repaired: the missing result is padded, record 2 is retried, every position is acked *)
Lemma s2_repaired :
  snd (run_case (with_fix s2_cfg fixes_all)) = TOk /\
  acked_keys (fst (run_case (with_fix s2_cfg fixes_all))) = [[0]; [1]; [2]; [3]] /\
  mon09 (with_fix s2_cfg fixes_all) (run_case (with_fix s2_cfg fixes_all)) = true.
Proof. vm_compute. repeat split; reflexivity. Qed.

(* S3 repaired: the first empty reply is refused, nothing is acked *)
Lemma s3_repaired :
  run_case (with_fix s3_cfg fixes_all) = ([EvWrite [([0], [0]); ([1], [1])]; EvDAck []], TErr false CNone).
Proof. vm_compute. reflexivity. Qed.

Lemma more_results_repaired :
  snd (run_case (with_fix more_cfg fixes_all)) = TErr false CNone /\
  acked_keys (fst (run_case (with_fix more_cfg fixes_all))) = [].
Proof. vm_compute. split; reflexivity. Qed.

Lemma nil_position_repaired : run_case (with_fix nilpos_cfg fixes_all) = ([], TErr false CEmptyPos).
Proof. vm_compute. reflexivity. Qed.

(* the rejected record 1 and the split record 0 are both dead-lettered, each with its own error *)
Lemma unfilter_repaired :
  snd (run_case (with_fix unfilter_cfg fixes_all)) = TOk /\
  mon08 (with_fix unfilter_cfg fixes_all) (run_case (with_fix unfilter_cfg fixes_all)) = true /\
  dlq_ids (fst (run_case (with_fix unfilter_cfg fixes_all))) = [[0]; [1]].
Proof. vm_compute. repeat split; reflexivity. Qed.
