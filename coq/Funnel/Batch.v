(* Model of pkg/lifecycle-poc/funnel/batch.go (Batch and its operations), transcribed as written.

   Every Go slice index / sub-slice / make that can fail is an explicit checked access, so an
   operation returns  Ok v | Refused e | Panic site | OutOfFuel.

   Representation choices (each is checked by the C08/C09 correspondence):
   - a position is [option (list nat)]: None = nil slice, Some [] = empty non-nil, Some l = the bytes
     "l1.l2...".  bytes.Equal is equality of [pkey] (nil and empty are equal); Position.String() (the
     key of splitRecords) is [skey] (nil is "<nil>", different from the empty string).
   - *splitRun pointers are indices into a heap (list srun); Batch.runs is
     option (list (option nat)) (a nil slice is None).
   - sub() re-slices with three-index clipping.  The sub-batch shares its backing arrays with the
     parent only inside the span it covers, and no caller reads that span of the parent again, so
     sub is a value copy here.
   - Go checks a slice bound against the capacity; here a bound is checked against the length
     (cap >= len; the two differ only for an access that already lies outside the batch).
   Definitions only; proofs are in BatchProofs.v. *)
From Coq Require Export List Arith Bool Lia.
Export ListNotations.

(* ---------- results ---------- *)

Inductive site :=
| SStatusIdx | SActiveIdx | SRecordsIdx | SPositionsIdx | SRunsIdx | SSlice | SMakeNeg
| SRange | SSplitNoRun | SCondMerge | SDlqNilErr | SHeapIdx.

Inductive ecode := CNone | CEmptyPos | CRetry | COther.

(* an error returned by the engine: fatal?, registered code, and the place that made it *)
Inductive esite :=
| XProcNoRecords | XDestWrite | XAckFetch | XAckValidate | XSourceAck | XEmptyPosAck | XEmptyPosNack
| XRunReleased | XRunOvercount | XDlqWrite | XDlqThreshold | XDlqDisabled | XRetryStall | XRetryCap
| XProcTooMany | XAckEmpty | XAckShort | XSourceEmptyPos.

Record einfo := mkE { e_fatal : bool; e_code : ecode; e_at : esite }.

Inductive res (A : Type) :=
| Ok (a : A) | Refused (e : einfo) | Panic (s : site) | OutOfFuel.
Arguments Ok {A} a. Arguments Refused {A} e. Arguments Panic {A} s. Arguments OutOfFuel {A}.

Definition rbind {A B} (m : res A) (k : A -> res B) : res B :=
  match m with
  | Ok a => k a
  | Refused e => Refused e
  | Panic s => Panic s
  | OutOfFuel => OutOfFuel
  end.
Notation "x <- m ;; k" := (rbind m (fun x => k)) (at level 61, m at next level, right associativity).
Notation "' p <- m ;; k" := (rbind m (fun p => k)) (at level 61, p pattern, m at next level, right associativity).

Definition nth_chk {A} (l : list A) (i : nat) (s : site) : res A :=
  match nth_error l i with Some a => Ok a | None => Panic s end.

Fixpoint upd {A} (l : list A) (i : nat) (f : A -> A) : option (list A) :=
  match l, i with
  | [], _ => None
  | a :: r, 0 => Some (f a :: r)
  | a :: r, S i' => match upd r i' f with Some r' => Some (a :: r') | None => None end
  end.

Definition upd_chk {A} (l : list A) (i : nat) (f : A -> A) (s : site) : res (list A) :=
  match upd l i f with Some l' => Ok l' | None => Panic s end.

(* l[from:to] *)
Definition slice_chk {A} (l : list A) (from to : nat) : res (list A) :=
  if (from <=? to) && (to <=? length l) then Ok (firstn (to - from) (skipn from l)) else Panic SSlice.

(* copy(dst, src): min(len dst, len src) elements *)
Definition copy_into {A} (dst src : list A) : list A :=
  firstn (length dst) src ++ skipn (length src) dst.

(* ---------- which repairs the tree under test contains ----------
   The model is faithful to the code INCLUDING its defects.  Five defects found by C08/C09 were
   repaired in /repo; each repair is a flag here, probed by the harness on the tree it is built
   against, so that the same development checks the shipped and the repaired tree:
     fx_cond_pad   RunnableProcessor.Process pads a short result of a conditional processor
     fx_more       ProcessorTask.Do refuses more results than input records
     fx_unfilter   Batch.setFlagWithErr keeps a filtered piece filtered when its run is nacked
     fx_srcpos     SourceTask.Do refuses a batch that contains an empty position
     fx_emptyack   DestinationTask.Do refuses an empty ack reply / a short confirmation count *)
Record fixes := mkFix {
  fx_cond_pad : bool; fx_more : bool; fx_unfilter : bool; fx_srcpos : bool; fx_emptyack : bool;
  fx_procfatal : bool }.
Definition fixes_all : fixes := mkFix true true true true true true.
Definition fixes_none : fixes := mkFix false false false false false false.

(* ---------- data ---------- *)

Definition key := list nat.
Definition pos := option key.
Definition pkey (p : pos) : key := match p with Some k => k | None => [] end.
(* Position.String(), the key of the splitRecords map: a nil position prints as "<nil>", which is
   neither the empty string nor any position the harness uses - nil and empty are DIFFERENT keys *)
Definition skey (p : pos) : key := match p with Some k => 1 :: k | None => [0] end.
Definition pos_nil (p : pos) : bool := match p with None => true | Some _ => false end.
Definition pos_len0 (p : pos) : bool := match pkey p with [] => true | _ :: _ => false end.

Record rec := mkRec { rpos : pos; rid : list nat; rcond : list nat }.

Inductive flag := FAck | FNack | FRetry | FFilter.
Inductive err := EP (p : nat) (id : list nat) | ED (id : list nat) | EEng.
Definition status := (flag * option err)%type.

Definition flag_eqb (a b : flag) : bool :=
  match a, b with
  | FAck, FAck | FNack, FNack | FRetry, FRetry | FFilter, FFilter => true
  | _, _ => false
  end.
Definition is_filter (s : status) : bool := flag_eqb (fst s) FFilter.

Fixpoint key_eqb (a b : key) : bool :=
  match a, b with
  | [], [] => true
  | x :: a', y :: b' => (x =? y) && key_eqb a' b'
  | _, _ => false
  end.

(* splitRun *)
Record srun := mkRun {
  r_origPos : pos; r_origRec : rec;
  r_total : nat; r_term : nat;
  r_nacked : bool; r_nackErr : option err; r_nackTask : nat;
  r_released : bool }.
Definition heap := list srun.

Record batch := mkBatch {
  records : list rec;
  statuses : list status;
  positions : list pos;
  filterCount : nat;
  tainted : bool;
  splitRecords : list (key * rec);      (* map[string]opencdc.Record *)
  runs : option (list (option nat)) }.

(* map[string]Record *)
Fixpoint sr_get (k : key) (m : list (key * rec)) : option rec :=
  match m with
  | [] => None
  | (k', v) :: r => if key_eqb k k' then Some v else sr_get k r
  end.
Fixpoint sr_set (k : key) (v : rec) (m : list (key * rec)) : list (key * rec) :=
  match m with
  | [] => [(k, v)]
  | (k', v') :: r => if key_eqb k k' then (k, v) :: r else (k', v') :: sr_set k v r
  end.

Definition set_records (b : batch) x := mkBatch x (statuses b) (positions b) (filterCount b) (tainted b) (splitRecords b) (runs b).
Definition set_statuses (b : batch) x := mkBatch (records b) x (positions b) (filterCount b) (tainted b) (splitRecords b) (runs b).
Definition set_filterCount (b : batch) x := mkBatch (records b) (statuses b) (positions b) x (tainted b) (splitRecords b) (runs b).
Definition set_tainted (b : batch) x := mkBatch (records b) (statuses b) (positions b) (filterCount b) x (splitRecords b) (runs b).

(* NewBatch *)
Definition new_batch (rs : list rec) : batch :=
  mkBatch rs (repeat (FAck, None) (length rs)) (map rpos rs) 0 false []
          (Some (repeat None (length rs))).

(* ---------- active records ---------- *)

Fixpoint idx_active (st : list status) (i : nat) : list nat :=
  match st with
  | [] => []
  | s :: r => if is_filter s then idx_active r (S i) else i :: idx_active r (S i)
  end.

(* activeRecordIndices: nil when nothing is filtered *)
Definition active_idx (b : batch) : res (option (list nat)) :=
  if filterCount b =? 0 then Ok None
  else if length (records b) <? filterCount b then Panic SMakeNeg
  else Ok (Some (idx_active (statuses b) 0)).

Fixpoint act_recs (rs : list rec) (st : list status) : res (list rec) :=
  match rs, st with
  | [], _ => Ok []
  | _ :: _, [] => Panic SStatusIdx
  | r :: rs', s :: st' =>
      t <- act_recs rs' st' ;;
      Ok (if is_filter s then t else r :: t)
  end.

(* ActiveRecords *)
Definition active_records (b : batch) : res (list rec) :=
  if filterCount b =? 0 then Ok (records b)
  else if filterCount b =? length (records b) then Ok []
  else if length (records b) <? filterCount b then Panic SMakeNeg
  else act_recs (records b) (statuses b).

Definition has_active (b : batch) : bool := filterCount b <? length (records b).

(* resolve an active-record index to a physical index *)
Definition phys (a : option (list nat)) (i : nat) : res nat :=
  match a with None => Ok i | Some l => nth_chk l i SActiveIdx end.

(* ---------- setFlagNoErr ---------- *)

(* statuses[phys k].Flag = f for k = i, i+1, ... (n of them) *)
Fixpoint set_flags (st : list status) (a : option (list nat)) (f : flag) (k n : nat) : res (list status) :=
  match n with
  | 0 => Ok st
  | S n' =>
      idx <- phys a k ;;
      st' <- upd_chk st idx (fun s => (f, snd s)) SStatusIdx ;;
      set_flags st' a f (S k) n'
  end.

(* j = None: single index; Some j: the range [i, j) *)
Definition set_flag_noerr (b : batch) (f : flag) (i : nat) (j : option nat) : res batch :=
  a <- active_idx b ;;
  match j with
  | None => st <- set_flags (statuses b) a f i 1 ;; Ok (set_statuses b st)
  | Some j => if j <=? i then Panic SRange
              else st <- set_flags (statuses b) a f i (j - i) ;; Ok (set_statuses b st)
  end.

Definition batch_ack (b : batch) (i : nat) (j : option nat) : res batch := set_flag_noerr b FAck i j.

Definition batch_retry (b : batch) (i : nat) (j : option nat) : res batch :=
  b' <- set_flag_noerr b FRetry i j ;; Ok (set_tainted b' true).

Definition batch_filter (b : batch) (i : nat) (j : option nat) : res batch :=
  b' <- set_flag_noerr b FFilter i j ;;
  let e := match j with Some j => j | None => i + 1 end in
  Ok (set_filterCount b' (filterCount b' + (e - i))).

(* ---------- findSplitRecord / setFlagWithErr ---------- *)

Fixpoint fsr_from (ps : list pos) (from fuel : nat) : res nat :=
  match fuel with
  | 0 => Ok from
  | S f =>
      if 0 <? from then
        p <- nth_chk ps from SPositionsIdx ;;
        if pos_nil p then fsr_from ps (from - 1) f else Ok from
      else Ok from
  end.

Fixpoint fsr_to (ps : list pos) (to fuel : nat) : res nat :=
  match fuel with
  | 0 => Ok to
  | S f =>
      if to <? length ps then
        p <- nth_chk ps to SPositionsIdx ;;
        if pos_nil p then fsr_to ps (S to) f else Ok to
      else Ok to
  end.

(* returns (from, to) inclusive *)
Definition find_split_record (ps : list pos) (i : nat) : res (nat * nat) :=
  from <- fsr_from ps i (S i) ;;
  to <- fsr_to ps (i + 1) (S (length ps)) ;;
  Ok (from, to - 1).

Fixpoint set_status_range (st : list status) (s : status) (k n : nat) : res (list status) :=
  match n with
  | 0 => Ok st
  | S n' => st' <- upd_chk st k (fun _ => s) SStatusIdx ;; set_status_range st' s (S k) n'
  end.

(* the repaired loop: a filtered entry of the run is left alone *)
Fixpoint set_status_range_skip (st : list status) (s : status) (k n : nat) : res (list status) :=
  match n with
  | 0 => Ok st
  | S n' =>
      x <- nth_chk st k SStatusIdx ;;
      st' <- (if is_filter x then Ok st else upd_chk st k (fun _ => s) SStatusIdx) ;;
      set_status_range_skip st' s (S k) n'
  end.

Fixpoint set_flags_err (fx : bool) (b : batch) (a : option (list nat)) (f : flag) (st : list status)
         (i : nat) (errs : list err) : res (list status) :=
  match errs with
  | [] => Ok st
  | e :: errs' =>
      idx <- phys a i ;;
      st1 <- upd_chk st idx (fun _ => (f, Some e)) SStatusIdx ;;
      st2 <- (if negb (length (splitRecords b) =? 0) && flag_eqb f FNack then
                p <- nth_chk (positions b) idx SPositionsIdx ;;
                if pos_nil p || (match sr_get (skey p) (splitRecords b) with Some _ => true | None => false end)
                then ' (from, to) <- find_split_record (positions b) idx ;;
                     (if fx then set_status_range_skip st1 (f, Some e) from (S to - from)
                      else set_status_range st1 (f, Some e) from (S to - from))
                else Ok st1
              else Ok st1) ;;
      set_flags_err fx b a f st2 (S i) errs'
  end.

Definition batch_nack (fx : bool) (b : batch) (i : nat) (errs : list err) : res batch :=
  a <- active_idx b ;;
  st <- set_flags_err fx b a FNack (statuses b) i errs ;;
  Ok (set_tainted (set_statuses b st) true).

(* ---------- SetRecords ---------- *)

(* findTo(l, r, check) with check(idx) = activeIndices[idx]-activeFrom == idx-from;
   the precondition check(l) holds by construction (l = from) *)
Fixpoint find_to (a : list nat) (from aFrom maxT minF fuel : nat) : res nat :=
  match fuel with
  | 0 => Ok maxT
  | S f =>
      if maxT + 1 <? minF then
        let mid := (maxT + minF) / 2 in
        am <- nth_chk a mid SActiveIdx ;;
        if am + from =? mid + aFrom
        then find_to a from aFrom mid minF f
        else find_to a from aFrom maxT mid f
      else Ok maxT
  end.

Fixpoint set_recs_loop (a : list nat) (rs : list rec) (from : nat) (recs : list rec) (fuel : nat)
  : res (list rec) :=
  match recs with
  | [] => Ok rs
  | _ :: _ =>
      match fuel with
      | 0 => OutOfFuel
      | S f =>
          aFrom <- nth_chk a from SActiveIdx ;;
          to <- find_to a from aFrom from (from + length recs) (length recs) ;;
          aTo <- nth_chk a to SActiveIdx ;;
          let n := to - from + 1 in
          if (aFrom <=? aTo + 1) && (aTo + 1 <=? length rs) && (n <=? length recs) then
            let seg := firstn (aTo + 1 - aFrom) (skipn aFrom rs) in
            let rs' := firstn aFrom rs ++ copy_into seg (firstn n recs) ++ skipn (aTo + 1) rs in
            set_recs_loop a rs' (to + 1) (skipn n recs) f
          else Panic SSlice
      end
  end.

Definition batch_set_records (b : batch) (i : nat) (recs : list rec) : res batch :=
  a <- active_idx b ;;
  match a with
  | None =>
      if i <=? length (records b)
      then Ok (set_records b (firstn i (records b) ++ copy_into (skipn i (records b)) recs))
      else Panic SSlice
  | Some a =>
      rs <- set_recs_loop a (records b) i recs (length recs) ;;
      Ok (set_records b rs)
  end.

(* ---------- SplitRecord ---------- *)

Definition run_add_total (h : heap) (r : nat) (d : nat) : res heap :=
  upd_chk h r (fun x => mkRun (r_origPos x) (r_origRec x) (r_total x + d) (r_term x)
                              (r_nacked x) (r_nackErr x) (r_nackTask x) (r_released x)) SHeapIdx.

Definition insert_after {A} (l : list A) (i : nat) (mid : list A) : res (list A) :=
  if i + 1 <=? length l then Ok (firstn (i + 1) l ++ mid ++ skipn (i + 1) l) else Panic SSlice.

Definition batch_split_record (b : batch) (h : heap) (i0 : nat) (recs : list rec) : res (batch * heap) :=
  a <- active_idx b ;;
  i <- phys a i0 ;;
  origPos <- nth_chk (positions b) i SPositionsIdx ;;
  run0 <- (match runs b with
           | None => Ok None
           | Some rl => nth_chk rl i SRunsIdx
           end) ;;
  ' (run, b1, h1) <-
     (match run0 with
      | Some r => Ok (r, b, h)
      | None =>
          if pos_nil origPos then Panic SSplitNoRun else
          rec0 <- nth_chk (records b) i SRecordsIdx ;;
          let k := skey origPos in
          let (origRec, sr') := match sr_get k (splitRecords b) with
                                | Some e => (e, splitRecords b)
                                | None => (rec0, sr_set k rec0 (splitRecords b))
                                end in
          let r := length h in
          let h1 := h ++ [mkRun origPos origRec 1 0 false None 0 false] in
          let rl := match runs b with Some rl => rl | None => repeat None (length (records b)) end in
          rl' <- upd_chk rl i (fun _ => Some r) SRunsIdx ;;
          Ok (r, mkBatch (records b) (statuses b) (positions b) (filterCount b) (tainted b) sr' (Some rl'), h1)
      end) ;;
  match recs with
  | [] => Panic SMakeNeg
  | _ :: tl =>
      let n1 := length tl in
      h2 <- run_add_total h1 run n1 ;;
      if i + 1 <=? length (records b1) then
        let rs' := firstn i (records b1) ++ recs ++ skipn (i + 1) (records b1) in
        st' <- insert_after (statuses b1) i (repeat (FAck, None) n1) ;;
        ps' <- insert_after (positions b1) i (repeat None n1) ;;
        rl <- (match runs b1 with Some rl => Ok rl | None => Panic SRunsIdx end) ;;
        rl' <- insert_after rl i (repeat (Some run) n1) ;;
        Ok (mkBatch rs' st' ps' (filterCount b1) (tainted b1) (splitRecords b1) (Some rl'), h2)
      else Panic SSlice
  end.

(* ---------- sub / originalBatch / clone ---------- *)

Definition count_filter (st : list status) : nat := length (filter is_filter st).

Fixpoint sub_split (m : list (key * rec)) (ps : list pos) (acc : list (key * rec)) : list (key * rec) :=
  match ps with
  | [] => acc
  | p :: r => match sr_get (skey p) m with
              | Some v => sub_split m r (sr_set (skey p) v acc)
              | None => sub_split m r acc
              end
  end.

Definition batch_sub (b : batch) (from to : nat) : res batch :=
  fc <- (if 0 <? filterCount b
         then st <- slice_chk (statuses b) from to ;; Ok (count_filter st)
         else Ok 0) ;;
  sr <- (if negb (length (splitRecords b) =? 0)
         then ps <- slice_chk (positions b) from to ;; Ok (sub_split (splitRecords b) ps [])
         else Ok []) ;;
  rl <- (match runs b with
         | None => Ok None
         | Some l => x <- slice_chk l from to ;; Ok (Some x)
         end) ;;
  rs <- slice_chk (records b) from to ;;
  st <- slice_chk (statuses b) from to ;;
  ps <- slice_chk (positions b) from to ;;
  Ok (mkBatch rs st ps fc false sr rl).

Fixpoint orig_collect (m : list (key * rec)) (rs : list rec) (st : list status) (ps : list pos)
  : res (list rec * list status * list pos) :=
  match ps with
  | [] => Ok ([], [], [])
  | p :: ps' =>
      match rs, st with
      | r :: rs', s :: st' =>
          ' (a, b, c) <- orig_collect m rs' st' ps' ;;
          if pos_nil p then Ok (a, b, c)
          else let r' := match sr_get (skey p) m with Some v => v | None => r end in
               Ok (r' :: a, s :: b, p :: c)
      | [], _ => if pos_nil p then ' (a, b, c) <- orig_collect m [] (tl st) ps' ;; Ok (a, b, c)
                 else Panic SRecordsIdx
      | _ :: rs', [] => if pos_nil p then ' (a, b, c) <- orig_collect m rs' [] ps' ;; Ok (a, b, c)
                        else Panic SStatusIdx
      end
  end.

Definition original_batch (b : batch) : res batch :=
  if length (splitRecords b) =? 0 then Ok b
  else
    ' (rs, st, ps) <- orig_collect (splitRecords b) (records b) (statuses b) (positions b) ;;
    let fc := if 0 <? filterCount b then count_filter st else 0 in
    Ok (mkBatch rs st ps fc false [] (Some (repeat None (length rs)))).

(* cloneRuns: every distinct run gets one fresh copy, members keep sharing it *)
Fixpoint clone_runs (h : heap) (rl : list (option nat)) (seen : list (nat * nat))
  : res (list (option nat) * heap) :=
  match rl with
  | [] => Ok ([], h)
  | None :: r => ' (o, h') <- clone_runs h r seen ;; Ok (None :: o, h')
  | Some x :: r =>
      match find (fun p => fst p =? x) seen with
      | Some (_, y) => ' (o, h') <- clone_runs h r seen ;; Ok (Some y :: o, h')
      | None =>
          v <- nth_chk h x SHeapIdx ;;
          let y := length h in
          ' (o, h') <- clone_runs (h ++ [v]) r ((x, y) :: seen) ;;
          Ok (Some y :: o, h')
      end
  end.

Definition batch_clone (b : batch) (h : heap) : res (batch * heap) :=
  match runs b with
  | None => Ok (b, h)
  | Some rl => ' (rl', h') <- clone_runs h rl [] ;;
               Ok (mkBatch (records b) (statuses b) (positions b) (filterCount b) (tainted b)
                           (splitRecords b) (Some rl'), h')
  end.
