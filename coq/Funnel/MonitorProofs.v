(* The link between the accounting theorem and the runtime monitor: for a well-behaved source the
   model's pass never violates the "acked set" clause (bit 16) of the C08/C09 monitor - the clause
   that says: only original positions are acked, none twice, and all of them when the pass ends
   without error.  (The other clauses are refuted by the findings, see Findings.v.) *)
From Coq Require Import Permutation.
From Verif Require Import Funnel.Check Funnel.BatchProofs Funnel.LedgerProofs Funnel.WorkerProofs Funnel.Theorems08 Funnel.Theorems09.

Definition bit16 (x : nat) : bool := Nat.testbit x 4.

Lemma bit16_lor a b : bit16 (Nat.lor a b) = bit16 a || bit16 b.
Proof. unfold bit16. apply Nat.lor_spec. Qed.

Lemma key_eqb_eq a b : key_eqb a b = true <-> a = b.
Proof.
  revert b. induction a as [|x a IH]; intros [|y b]; simpl; split; intros H; try discriminate; auto.
  - apply andb_prop in H. destruct H as [H1 H2]. apply Nat.eqb_eq in H1. apply IH in H2. congruence.
  - inversion H; subst. rewrite Nat.eqb_refl. simpl. now apply IH.
Qed.

Lemma existsb_key_eqb k l : existsb (key_eqb k) l = true <-> In k l.
Proof.
  rewrite existsb_exists. split.
  - intros [x [Hx E]]. apply key_eqb_eq in E. now subst.
  - intros H. exists k. split; auto. now apply key_eqb_eq.
Qed.

Lemma index_of_some k l i : In k l -> exists j, index_of k l i = Some j.
Proof.
  revert i. induction l as [|x l IH]; intros i H; [destruct H|]. simpl.
  destruct (key_eqb k x) eqn:E; [eauto|]. destruct H as [->|H]; [|eauto].
  exfalso. assert (key_eqb k k = true) by (apply key_eqb_eq; auto). congruence.
Qed.

(* one Source.Ack call: bit 16 stays clear when its positions are original and new *)
Lemma fold_ack_bit16 c before r : forall ps seen,
  (forall p, In p ps -> In p (src_keys c)) -> NoDup (ps ++ seen) ->
  let res := fold_left
      (fun (acc : nat * list key) (p : key) =>
         let '(b, seen) := acc in
         match index_of p (src_keys c) 0 with
         | None => (Nat.lor b 16, p :: seen)
         | Some k =>
             let b1 := if existsb (key_eqb p) seen then Nat.lor b 16 else b in
             let b2 := if ack_justified k before then b1 else Nat.lor b1 8 in
             let b3 := if existsb (mentions k) r then Nat.lor b2 32 else b2 in
             (b3, p :: seen)
         end) ps in
  forall b0, bit16 b0 = false ->
    bit16 (fst (res (b0, seen))) = false /\ snd (res (b0, seen)) = rev ps ++ seen.
Proof.
  induction ps as [|p ps IH]; intros seen Hin Hnd res b0 Hb; simpl in *.
  - auto.
  - destruct (index_of_some p (src_keys c) 0 (Hin p (or_introl eq_refl))) as [k Hk].
    unfold res. simpl. rewrite Hk.
    assert (Hns : existsb (key_eqb p) seen = false).
    { destruct (existsb (key_eqb p) seen) eqn:E; auto. apply existsb_key_eqb in E.
      inversion Hnd; subst. exfalso. apply H1. apply in_or_app. now right. }
    rewrite Hns.
    set (b3 := if existsb (mentions k) r
               then Nat.lor (if ack_justified k before then b0 else Nat.lor b0 8) 32
               else (if ack_justified k before then b0 else Nat.lor b0 8)).
    assert (Hb3 : bit16 b3 = false).
    { unfold b3. destruct (existsb (mentions k) r), (ack_justified k before);
        rewrite ?bit16_lor, ?Hb; reflexivity. }
    destruct (IH (p :: seen)) with (b0 := b3) as [A B]; auto.
    + inversion Hnd; subst. apply NoDup_app_swap || idtac.
      clear - Hnd. apply NoDup_remove in Hnd || idtac.
      assert (X : NoDup (ps ++ p :: seen)).
      { apply Permutation_NoDup with (l := p :: ps ++ seen); auto. apply Permutation_middle. }
      exact X.
    + split; [exact A|]. rewrite B. rewrite <- app_assoc. reflexivity.
Qed.

Lemma NoDup_app_l {A} (l1 l2 : list A) : NoDup (l1 ++ l2) -> NoDup l1.
Proof.
  induction l1 as [|a l1 IH]; intros H; [constructor|]. simpl in H. inversion H; subst.
  constructor; [|auto]. intros Hin. apply H2. apply in_or_app. now left.
Qed.
Lemma NoDup_app_r {A} (l1 l2 : list A) : NoDup (l1 ++ l2) -> NoDup l2.
Proof. induction l1 as [|a l1 IH]; intros H; auto. simpl in H. inversion H; subst. auto. Qed.

Lemma walk_bit16 c : forall evs before acked,
  (forall p, In p (acked_keys evs) -> In p (src_keys c)) -> NoDup (acked_keys evs ++ acked) ->
  bit16 (walk c before acked evs) = false.
Proof.
  induction evs as [|e evs IH]; intros before acked Hin Hnd; simpl; [reflexivity|].
  destruct e as [p ins kinds|rs|cf|rs|cf|ps]; try (apply IH; auto).
  unfold acked_keys in Hin, Hnd. simpl in Hin, Hnd. fold (acked_keys evs) in Hin, Hnd.
  rewrite bit16_lor.
  assert (N1 : NoDup (ps ++ acked)).
  { apply NoDup_app_r with (l1 := acked_keys evs).
    eapply Permutation_NoDup; [|exact Hnd]. rewrite <- !app_assoc.
    apply Permutation_app_swap_app. }
  pose proof (fold_ack_bit16 c before evs ps acked
                ltac:(intros p Hp; apply Hin; apply in_or_app; now left) N1 0 eq_refl) as [A B].
  cbn zeta in A, B. rewrite A, B. simpl. apply IH.
  - intros p Hp. apply Hin. apply in_or_app. now right.
  - eapply Permutation_NoDup; [|exact Hnd]. rewrite <- !app_assoc.
    etransitivity; [apply Permutation_app_swap_app|]. apply Permutation_app_head.
    apply Permutation_app_tail. apply Permutation_rev.
Qed.

Lemma nodup_keys_NoDup l : nodup_keys l = true -> NoDup l.
Proof.
  induction l as [|k l IH]; simpl; intros H; [constructor|]. apply andb_prop in H. destruct H as [H1 H2].
  constructor; auto. intros Hin. apply existsb_key_eqb in Hin. rewrite Hin in H1. discriminate.
Qed.

Lemma wf_source_facts c : wf_source c = true ->
  Forall (fun r : rec => rpos r <> None) (c_recs c) /\ NoDup (src_keys c).
Proof.
  unfold wf_source. intros H. apply andb_prop in H. destruct H as [H _]. apply andb_prop in H. destruct H as [H1 H2].
  split; [|now apply nodup_keys_NoDup].
  unfold src_keys in H1. rewrite forallb_forall in H1. apply Forall_forall. intros r Hr Hn.
  specialize (H1 (pkey (rpos r)) ltac:(apply in_map_iff; eauto)). rewrite Hn in H1. discriminate.
Qed.

(* the model's pass satisfies the acked-set clause of the monitors, for every configuration with
   a well-behaved source *)
Theorem model_acked_set_ok c :
  wf_source c = true -> bit16 (bits08 c (run_case c)) = false /\ bit16 (bits09 c (run_case c)) = false.
Proof.
  intros W. destruct (wf_source_facts c W) as [F N].
  destruct (exactly_once (fuel_for c) c F N) as [Nd Hok].
  pose proof (position_immutable (fuel_for c) c F) as Hincl.
  fold (run_case c) in Nd, Hok, Hincl.
  assert (Hw : bit16 (walk c [] [] (fst (run_case c))) = false).
  { apply walk_bit16; [exact Hincl|]. now rewrite app_nil_r. }
  assert (Hc : bit16 (complete_bits c (run_case c)) = false).
  { unfold complete_bits. destruct (snd (run_case c)) eqn:Et; try reflexivity.
    specialize (Hok eq_refl).
    destruct (forallb _ (src_keys c)) eqn:E; [reflexivity|]. exfalso.
    assert (X : forallb (fun k => existsb (key_eqb k) (acked_keys (fst (run_case c)))) (src_keys c) = true).
    { apply forallb_forall. intros k Hk. apply existsb_key_eqb. eapply Permutation_in; [symmetry; exact Hok|exact Hk]. }
    congruence. }
  assert (He : bit16 (emptyack_bits (fst (run_case c))) = false).
  { unfold emptyack_bits.
    match goal with |- context [existsb ?f ?l] => destruct (existsb f l) eqn:E end; [|reflexivity]. exfalso.
    apply existsb_exists in E. destruct E as [k [Hk Ek]]. destruct k; [|discriminate].
    pose proof (Theorems09.no_empty_position_acked (fuel_for c) c) as NE. fold (run_case c) in NE.
    rewrite Forall_forall in NE. apply (NE [] Hk). reflexivity. }
  split.
  - unfold bits08. rewrite W. rewrite !bit16_lor, Hw, Hc.
    unfold dlq_bits. destruct (_ && _); reflexivity.
  - unfold bits09. rewrite W. rewrite !bit16_lor, Hw, He.
    unfold crash_bits, cond_bits. destruct (snd (run_case c)); destruct (forallb _ _); reflexivity.
Qed.
