(* Model of runAckNacker (run_ledger.go), Worker.Ack / Worker.Nack / validateAckPositions
   (worker.go) and DLQ.Ack / DLQ.Nack / sendToDLQ (dlq.go; the window itself is Dlq/Window.v). *)
From Verif Require Export Funnel.Cond.

(* ---------- small monad helpers ---------- *)

(* run m; a returned error becomes a value, a panic stays a panic *)
Definition try {A} (m : M A) : M (A + einfo) :=
  fun w => match m w with
           | (Ok a, w') => (Ok (inl a), w')
           | (Refused e, w') => (Ok (inr e), w')
           | (Panic s, w') => (Panic s, w')
           | (OutOfFuel, w') => (OutOfFuel, w')
           end.

Definition get_win : M win := fun w => (Ok (w_win w), w).
Definition put_win (x : win) : M unit :=
  fun w => (Ok tt, mkW (w_heap w) (w_pcalls w) (w_dest w) (w_dlq w) x (w_sacks w) (w_log w)).

(* Source.Ack(positions): None = nil error, Some a = the scripted failure *)
Definition src_ack (c : cfg) (ps : list pos) : M (option act) :=
  fun w =>
    let idx := w_sacks w in
    (Ok (lookup_act (c_srcacts c) idx),
     mkW (w_heap w) (w_pcalls w) (w_dest w) (w_dlq w) (w_win w) (S idx) (EvSAck (map pkey ps) :: w_log w)).

(* the error of Source.Ack as seen by Worker.Ack/Nack: io.EOF is suppressed *)
Definition src_ack_failed (a : option act) : bool :=
  match a with Some AErr => true | _ => false end.

(* ---------- Worker.Ack ---------- *)

Definition worker_ack (c : cfg) (b : batch) : M unit :=
  ob <-- lift (original_batch b) ;;;
  if existsb pos_len0 (positions ob) then fail (mkE false CEmptyPos XEmptyPosAck)
  else
    r <-- src_ack c (positions ob) ;;;
    if src_ack_failed r then fail (mkE false CNone XSourceAck)
    else
      (* DLQ.Ack(batch) *)
      if length (records b) =? 0 then ret tt
      else wn <-- get_win ;;; put_win (ackN wn (length (records b))).

(* ---------- DLQ ---------- *)

Fixpoint dlq_records (rs : list rec) (st : list status) (task : nat) : res (list rec * list dlqrec) :=
  match rs with
  | [] => Ok ([], [])
  | r :: rs' =>
      match st with
      | [] => Panic SStatusIdx
      | (_, None) :: _ => Panic SDlqNilErr          (* status.Error.Error() on a nil error *)
      | (_, Some e) :: st' =>
          ' (a, q) <- dlq_records rs' st' task ;;
          Ok (mkRec (rpos r) (rid r) [] :: a, mkDlqRec (pkey (rpos r)) (rid r) (Some e) task :: q)
      end
  end.

Fixpoint leading_acks (st : list status) : nat :=
  match st with
  | (FAck, _) :: r => S (leading_acks r)
  | _ => 0
  end.

(* sendToDLQ: (successCount, failed?) *)
Definition send_to_dlq (c : cfg) (b : batch) (task : nat) : M (nat * bool) :=
  ' (rs, qs) <-- lift (dlq_records (records b) (statuses b) task) ;;;
  r <-- try (dest_do c DDlq (new_batch rs) (fun _ => EvDlqWrite qs)) ;;;
  match r with
  | inr _ => ret (0, true)
  | inl db =>
      let k := Nat.min (leading_acks (statuses db)) (length rs) in
      ret (k, k <? length rs)
  end.

(* DLQ.Nack: (n, error) *)
Definition dlq_nack (c : cfg) (b : batch) (task : nat) : M (nat * option einfo) :=
  let n := length (records b) in
  if n =? 0 then ret (0, None)
  else
    wn <-- get_win ;;;
    let (wn', nacked) := nackN wn n in
    put_win wn' ;;;
    r <-- (if 0 <? nacked then
             bb <-- lift (if nacked <? n then batch_sub b 0 nacked else Ok b) ;;;
             ' (sc, failed) <-- send_to_dlq c bb task ;;;
             ret (if failed then Some sc else None)
           else ret None) ;;;
    match r with
    | Some sc => ret (sc, Some (mkE true CNone XDlqWrite))
    | None =>
        if nacked <? n then
          if 0 <? c_dlqthr c then ret (nacked, Some (mkE true CNone XDlqThreshold))
          else
            s <-- lift (nth_chk (statuses b) nacked SStatusIdx) ;;;
            match snd s with
            | Some _ => ret (nacked, Some (mkE false CNone XDlqDisabled))
            | None => ret (nacked, None)
            end
        else ret (nacked, None)
    end.

(* ---------- Worker.Nack ---------- *)

Definition worker_nack (c : cfg) (b : batch) (task : nat) : M unit :=
  ob <-- lift (original_batch b) ;;;
  ' (n, e) <-- dlq_nack c ob task ;;;
  (if 0 <? n then
     ps <-- lift (slice_chk (positions ob) 0 n) ;;;
     if existsb pos_len0 ps then
       (* FatalError(posErr), or FatalError(Join(posErr, "while handling: err")): the code of posErr is
          reachable in both (the earlier two-%w Errorf, which lost it, was repaired in /repo) *)
       fail (mkE true CEmptyPos XEmptyPosNack)
     else
       r <-- src_ack c ps ;;;
       if src_ack_failed r then fail (mkE false CNone XSourceAck)
       else _ <-- lift (slice_chk (records b) 0 n) ;;; ret tt
   else ret tt) ;;;
  match e with
  | Some e => fail e
  | None => ret tt
  end.

(* ---------- runAckNacker.vote ---------- *)

Definition opt_nat_eqb (a b : option nat) : bool :=
  match a, b with
  | None, None => true
  | Some x, Some y => x =? y
  | _, _ => false
  end.

Definition run_at (b : batch) (i : nat) : res (option nat) :=
  match runs b with
  | None => Ok None
  | Some rl => nth_chk rl i SRunsIdx
  end.

(* the inner loop: first j >= j0 whose run differs *)
Fixpoint scan_same (b : batch) (run : option nat) (j fuel : nat) : res nat :=
  match fuel with
  | 0 => Ok j
  | S f =>
      if j <? length (records b) then
        nx <- run_at b j ;;
        if opt_nat_eqb nx run then scan_same b run (S j) f else Ok j
      else Ok j
  end.

Fixpoint first_run_error (st : list status) : option err :=
  match st with
  | [] => None
  | (_, Some e) :: _ => Some e
  | (_, None) :: r => first_run_error r
  end.

Definition ack_batch (x : srun) : batch :=
  mkBatch [r_origRec x] [(FAck, None)] [r_origPos x] 0 false [] None.
Definition nack_batch (x : srun) : batch :=
  mkBatch [r_origRec x] [(FNack, r_nackErr x)] [r_origPos x] 0 true [] None.

Definition heap_get (r : nat) : M srun := fun w => (nth_chk (w_heap w) r SHeapIdx, w).
Definition heap_set (r : nat) (x : srun) : M unit :=
  fun w => match upd (w_heap w) r (fun _ => x) with
           | Some h => (Ok tt, mkW h (w_pcalls w) (w_dest w) (w_dlq w) (w_win w) (w_sacks w) (w_log w))
           | None => (Panic SHeapIdx, w)
           end.

Fixpoint vote_loop (c : cfg) (b : batch) (isAck : bool) (task : nat) (i fuel : nat) : M unit :=
  match fuel with
  | 0 => ret tt
  | S f =>
      if length (records b) <=? i then ret tt
      else
        run <-- lift (run_at b i) ;;;
        j <-- lift (scan_same b run (i + 1) (length (records b))) ;;;
        match run with
        | None =>
            sb <-- lift (batch_sub b i j) ;;;
            (if isAck then worker_ack c sb else worker_nack c sb task) ;;;
            vote_loop c b isAck task j f
        | Some r =>
            x <-- heap_get r ;;;
            if r_released x then fail (mkE false CNone XRunReleased)
            else
              st <-- lift (if negb isAck && negb (r_nacked x) then slice_chk (statuses b) i j else Ok []) ;;;
              let x1 := if negb isAck && negb (r_nacked x)
                        then mkRun (r_origPos x) (r_origRec x) (r_total x) (r_term x + (j - i))
                                   true (first_run_error st) task false
                        else mkRun (r_origPos x) (r_origRec x) (r_total x) (r_term x + (j - i))
                                   (r_nacked x) (r_nackErr x) (r_nackTask x) false in
              heap_set r x1 ;;;
              if r_total x1 <? r_term x1 then fail (mkE false CNone XRunOvercount)
              else
                (if r_term x1 =? r_total x1 then
                   let x2 := mkRun (r_origPos x1) (r_origRec x1) (r_total x1) (r_term x1)
                                   (r_nacked x1) (r_nackErr x1) (r_nackTask x1) true in
                   heap_set r x2 ;;;
                   if r_nacked x2 then worker_nack c (nack_batch x2) (r_nackTask x2)
                   else worker_ack c (ack_batch x2)
                 else ret tt) ;;;
                vote_loop c b isAck task j f
        end
  end.

Definition vote (c : cfg) (b : batch) (isAck : bool) (task : nat) : M unit :=
  vote_loop c b isAck task 0 (length (records b)).
